import Driver.Proto
import Driver.Server
import Driver.Client
import Driver.KeepAlive
open Drv

/-- one input line `> op …` is answered by one output line; all other lines are ignored -/
structure AllDrv where
  srv : SrvDrv
  txn : TxnDrv
  cli : Turn.Cli.State
  ka : KDrv

def stepLine (d : AllDrv) (line : String) : AllDrv × Option String :=
  let toks := (line.splitOn " ").filter (· ≠ "")
  match toks with
  | ">" :: rest =>
    match protoStep rest with
    | some r => (d, some r)
    | none =>
      match srvStep d.srv rest with
      | some (d', r) => ({ d with srv := d' }, some r)
      | none =>
        match txnStep d.txn rest with
        | some (t', r) => ({ d with txn := t' }, some r)
        | none =>
          match cliStep d.cli rest with
          | some (c', r) => ({ d with cli := c' }, some r)
          | none =>
            match kaStep d.ka rest with
            | some (k', r) => ({ d with ka := k' }, some r)
            | none => (d, some "bad-op")
  | _ => (d, none)

partial def loop (hin hout : IO.FS.Stream) (d : AllDrv) : IO Unit := do
  let line ← hin.getLine
  if line.isEmpty then return ()
  let (d', r) := stepLine d (String.ofList (line.toList.filter (fun c => c != '\n' && c != '\r')))
  match r with
  | some r => hout.putStrLn r
  | none => pure ()
  loop hin hout d'

def main : IO Unit := do
  let hin ← IO.getStdin
  let hout ← IO.getStdout
  loop hin hout ⟨SrvDrv.init, TxnDrv.init, Turn.Cli.init, KDrv.init⟩
  hout.flush
