import Driver.Proto
open Drv

/-- one input line `> op …` is answered by one output line; all other lines are ignored -/
def stepLine (line : String) : Option String :=
  let toks := (line.splitOn " ").filter (· ≠ "")
  match toks with
  | ">" :: rest =>
    match protoStep rest with
    | some r => some r
    | none => some "bad-op"
  | _ => none

partial def loop (hin hout : IO.FS.Stream) : IO Unit := do
  let line ← hin.getLine
  if line.isEmpty then return ()
  match stepLine (String.ofList (line.toList.filter (fun c => c != '\n' && c != '\r'))) with
  | some r => hout.putStrLn r
  | none => pure ()
  loop hin hout

def main : IO Unit := do
  let hin ← IO.getStdin
  let hout ← IO.getStdout
  loop hin hout
  hout.flush
