import TurnModel.Model.Wire
namespace Drv
open Turn

def hexVal (c : Char) : Nat :=
  if c.isDigit then c.toNat - '0'.toNat
  else if 'a' ≤ c ∧ c ≤ 'f' then c.toNat - 'a'.toNat + 10
  else if 'A' ≤ c ∧ c ≤ 'F' then c.toNat - 'A'.toNat + 10 else 0

/-- "." is the empty byte string -/
def parseHex (s : String) : Bytes :=
  let rec go : List Char → Bytes
    | a :: b :: r => UInt8.ofNat (hexVal a * 16 + hexVal b) :: go r
    | _ => []
  if s == "." then [] else go s.toList

def hexDigit (n : Nat) : Char := if n < 10 then Char.ofNat (48 + n) else Char.ofNat (87 + n)

def toHex (b : Bytes) : String :=
  if b.isEmpty then "." else
  String.ofList (b.foldr (fun x acc => hexDigit (x.toNat / 16) :: hexDigit (x.toNat % 16) :: acc) [])

def natOf (s : String) : Nat := s.toNat?.getD 0

def optHex (s : String) : Option Bytes := if s == "-" then none else some (parseHex s)

def aerr : AErr → String
  | .notFound => "notfound" | .badSize => "badsize" | .badValue => "badvalue" | .eof => "eof"
  | .badFamily => "badfamily" | .overflow => "overflow" | .badIPLen => "badiplen"

end Drv
