import Driver.Util
import Driver.Client
import TurnModel.Model.KeepAlive
namespace Drv
open Turn.KeepAlive

def kvK (toks : List String) (k : String) : String :=
  match toks.find? (fun t => t.startsWith (k ++ "=")) with
  | some t => (t.drop (k.length + 1)).toString
  | none => ""

def parsePats (s : String) : List Pat :=
  if s == "-" || s == "" then [] else (s.splitOn ",").map fun t =>
    match t.splitOn "." with
    | [a, b, d] => ⟨natOf a, natOf b, d == "1"⟩
    | _ => ⟨0, 0, false⟩

def showCode : Code → String
  | .ok => "ok" | .stale => "438" | .dead => "dead"

/-- a request for an allocation that is gone gets no answer at all -/
def respEv (t : Nat) (name : String) (c : Code) : Option (Nat × String) :=
  if c == .dead then none else some (t, name ++ " " ++ showCode c)

def showKOut : Out → Option (Nat × String)
  | .resp t (.rf 0) c => respEv t "rf0" c
  | .resp t (.rf _) c => respEv t "rf" c
  | .resp t .cp c => respEv t "cp" c
  | .resp t (.cb p) c => respEv t s!"cb{p}" c
  | .dp t p => some (t, s!"dp{p}")
  | .dc t p => some (t, s!"dc{p}")
  | .wd t p ok => some (t, s!"wd{p} " ++ (if ok then "ok" else "err"))
  | .count _ => none

def insertEv (x : Nat × String) : List (Nat × String) → List (Nat × String)
  | [] => [x]
  | y :: ys => if x.1 < y.1 || (x.1 == y.1 && x.2 ≤ y.2) then x :: y :: ys else y :: insertEv x ys

/-- stop at the first response that shows the allocation is gone -/
def cutDead : List (Nat × String) → List (Nat × String)
  | [] => []
  | x :: xs => if x.2.endsWith " dead" then [x] else x :: cutDead xs

def showKOuts (os : List Out) : String :=
  let evs := cutDead ((os.filterMap showKOut).foldl (fun acc x => insertEv x acc) [])
  let cnt := os.filterMap (fun o => match o with | .count n => some s!"count {n}" | _ => none)
  let items := evs.map (fun e => s!"@{e.1} {e.2}") ++ cnt
  if items.isEmpty then "-" else String.intercalate ";" items

structure KDrv where
  s : St
  stop : Bool      -- the history is no longer determined by its inputs (tie, edge, dead allocation)

def KDrv.init : KDrv := ⟨Turn.KeepAlive.init default, true⟩

/-- H6 line protocol -/
def kaStep (d : KDrv) (toks : List String) : Option (KDrv × String) :=
  let run (op : Op) : Option (KDrv × String) :=
    if d.stop then some (d, "~") else
    let why (s : St) : String := if s.dead then "~dead" else
      match s.why with | 1 => "~edge" | 2 => "~nonce-race" | 3 => "~fuel" | 4 => "~attempts" | 5 => "~close-busy" | _ => "~"
    let r := step d.s op
    if r.1.tainted || r.1.dead then some (⟨r.1, true⟩, why r.1)
    else some (⟨r.1, false⟩, showKOuts r.2)
  match toks with
  | "k6" :: rest =>
    let c : Cfg := { life := natOf (kvK rest "life"), permT := natOf (kvK rest "permT"), chanT := natOf (kvK rest "chanT"),
                     permP := natOf (kvK rest "permP"), bindAge := natOf (kvK rest "bindAge"), bindP := natOf (kvK rest "bindP"),
                     peers := natOf (kvK rest "peers"), lossRf := parsePats (kvK rest "rf"), lossCp := parsePats (kvK rest "cp"),
                     lossCb := parsePats (kvK rest "cb"), lossRf0 := parsePats (kvK rest "rf0") }
    some (⟨Turn.KeepAlive.init c, false⟩, "ok compat=" ++ (if decide (Compatible c) then "1" else "0"))
  | ["kadv", dt] => run (.adv (natOf dt))
  | ["kwr", p] => run (.wr (natOf p))
  | ["kpw", p] => run (.pw (natOf p))
  | ["kclose"] => run .close
  | ["kcount"] => run .count
  | _ => none

end Drv
