import Driver.Util
import TurnModel.Model.Txn
import TurnModel.Model.ClientConn
namespace Drv
open Turn.Txn

def showTRes : Res → String
  | .response => "response" | .allFailed => "allfailed" | .writeFailed => "writefailed" | .closed => "closed"

def showTOut : Out → String
  | .sent k t => s!"sent {k} {t}"
  | .done k r t => s!"done {k} {showTRes r} {t}"

def insertSortedS (x : String) : List String → List String
  | [] => [x]
  | y :: ys => if x ≤ y then x :: y :: ys else y :: insertSortedS x ys

def showTOuts (os : List Out) : String :=
  if os.isEmpty then "-" else String.intercalate " | " ((os.map showTOut).foldl (fun acc x => insertSortedS x acc) [])

/-- the H4 driver state: the model's transaction table plus the ids started without a waiter (ignoreResult):
    the completion of such a transaction is not delivered to anybody, so it is not an observable output -/
structure TxnDrv where
  s : St
  nowait : List Nat

def TxnDrv.init : TxnDrv := ⟨⟨0, []⟩, []⟩

def dropQuiet (nw : List Nat) (os : List Out) : List Out :=
  os.filter fun o => match o with
    | .done k _ _ => !nw.contains k
    | _ => true

/-- H4 line protocol: the client's transaction table under virtual time (milliseconds) -/
def txnStep (d : TxnDrv) (toks : List String) : Option (TxnDrv × String) :=
  match toks with
  | ["tnew"] => some (TxnDrv.init, "ok")
  | ["tstart", k, rto, failAt] =>
    let r := step d.s (.on (natOf k) (.start (natOf rto) (if failAt == "-" then none else some (natOf failAt))))
    some (⟨r.1, d.nowait⟩, showTOuts (dropQuiet d.nowait r.2))
  | ["tstart", k, rto, failAt, "nowait"] =>
    -- a failing first write is still reported to the caller; everything later is silent
    let r := step d.s (.on (natOf k) (.start (natOf rto) (if failAt == "-" then none else some (natOf failAt))))
    some (⟨r.1, natOf k :: d.nowait⟩, showTOuts (dropQuiet d.nowait r.2))
  | ["tresp", k] => let r := step d.s (.on (natOf k) .resp); some (⟨r.1, d.nowait⟩, showTOuts (dropQuiet d.nowait r.2))
  | ["tadv", dt] => let r := advanceTo 100000 d.s (d.s.now + natOf dt); some (⟨r.1, d.nowait⟩, showTOuts (dropQuiet d.nowait r.2))
  | ["tclose"] => let r := step d.s .close; some (⟨r.1, d.nowait⟩, showTOuts (dropQuiet d.nowait r.2))
  | ["tsize"] => some (d, toString d.s.trs.length)
  | ["trace", _] => some (d, "ok")    -- real-time race scenario of H4: judged by its monitor (exactly_once is the theorem)
  | _ => none

end Drv

namespace Drv
open Turn.Cli Turn.Srv

def cAddr (s : String) : Addr :=
  match s.splitOn "." with
  | [f, n, p] => ⟨⟨f == "6", natOf n⟩, natOf p⟩
  | _ => ⟨⟨false, 0⟩, 0⟩

def cShowAddr (a : Addr) : String := (if a.ip.v6 then "6." else "4.") ++ toString a.ip.n ++ "." ++ toString a.port

def parseRx (s : String) : List Rx :=
  if s == "-" then [] else (s.splitOn ",").map (fun t =>
    if t == "ok" then .ok else if t == "silent" then .silent else .code (natOf (t.drop 1).toString))

def showCOut : Turn.Cli.Out → String
  | .createPerm ps => "cp " ++ String.intercalate "," (ps.map cShowAddr)
  | .chanBind n p => s!"cb {n} {cShowAddr p}"
  | .sendInd p d => s!"si {cShowAddr p} {toHex d}"
  | .chanData n d => s!"cd {n} {toHex d}"
  | .refresh l => s!"rf {l}"
  | .wrote n => s!"w {n}"
  | .writeErr k => s!"werr {k}"
  | .read f d => s!"rd {cShowAddr f} {toHex d}"
  | .readErr k => s!"rderr {k}"
  | .inboundErr k => s!"inerr {k}"
  | .unhandled => "unhandled"

def showCOuts (os : List Turn.Cli.Out) : String :=
  if os.isEmpty then "-" else String.intercalate " | " ((os.map showCOut).foldl (fun acc x => insertSortedS x acc) [])

def kvc (toks : List String) (key : String) : String :=
  match toks.find? (fun t => t.startsWith (key ++ "=")) with
  | some t => (t.drop (key.length + 1)).toString
  | none => "-"

/-- H5 line protocol: the client's relayed socket against scripted server reactions -/
def cliStep (s : Turn.Cli.State) (toks : List String) : Option (Turn.Cli.State × String) :=
  let run (op : Turn.Cli.Op) := let r := Turn.Cli.step s op; some (r.1, showCOuts r.2)
  match toks with
  | ["cnew"] => some (Turn.Cli.init, "ok")
  | "cwrite" :: a :: d :: rest => run (.write (cAddr a) (parseHex d) (parseRx (kvc rest "perm")) (parseRx (kvc rest "bind")))
  | ["cin", "dind", a, d] => run (.inbound (.dataInd (cAddr a) (parseHex d)))
  | ["cin", "cdat", raw] => run (.inbound (.chanData (parseHex raw)))
  | ["cin", "req"] => run (.inbound .stunRequest)
  | ["cin", "bad"] => run (.inbound .stunBad)
  | ["cin", "other"] => run (.inbound .stunOther)
  | ["cin", "garbage-server"] => run (.inbound .garbageFromServer)
  | ["cin", "garbage-other"] => run (.inbound .garbageFromOther)
  | ["cin", "dind-other", _, _] => run (.inbound .relayedFromOther)
  | ["cin", "cdat-other", _] => run (.inbound .relayedFromOther)
  | ["cnet", "dind", a, d] => some ((Turn.Cli.step s (.inbound (.dataInd (cAddr a) (parseHex d)))).1, "-")
  | ["cnet", "cdat", raw] => some ((Turn.Cli.step s (.inbound (.chanData (parseHex raw)))).1, "-")
  | "cnet" :: _ => some (s, "-")
  | ["cin", "catt", _] => some (s, "-")     -- a ConnectionAttempt indication is queued or dropped, never blocks
  | ["cread"] => run .read
  | ["cadv", dt] => run (.adv (natOf dt))
  | ["cclose"] => run .close
  | ["cqlen"] => some (s, toString s.queue.length)
  | _ => none

end Drv
