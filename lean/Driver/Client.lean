import Driver.Util
import TurnModel.Model.Txn
namespace Drv
open Turn.Txn

def showTRes : Res → String
  | .response => "response" | .allFailed => "allfailed" | .writeFailed => "writefailed" | .closed => "closed"

def showTOut : Out → String
  | .sent k t => s!"sent {k} {t}"
  | .done k r t => s!"done {k} {showTRes r} {t}"

def insertSortedS (x : String) : List String → List String
  | [] => [x]
  | y :: ys => if x ≤ y then x :: y :: ys else y :: insertSortedS x ys

def showTOuts (os : List Out) : String :=
  if os.isEmpty then "-" else String.intercalate " | " ((os.map showTOut).foldl (fun acc x => insertSortedS x acc) [])

/-- H4 line protocol: the client's transaction table under virtual time (milliseconds) -/
def txnStep (s : St) (toks : List String) : Option (St × String) :=
  match toks with
  | ["tnew"] => some (⟨0, []⟩, "ok")
  | ["tstart", k, rto, failAt] =>
    let r := step s (.on (natOf k) (.start (natOf rto) (if failAt == "-" then none else some (natOf failAt))))
    some (r.1, showTOuts r.2)
  | ["tresp", k] => let r := step s (.on (natOf k) .resp); some (r.1, showTOuts r.2)
  | ["tadv", dt] => let r := advanceTo 100000 s (s.now + natOf dt); some (r.1, showTOuts r.2)
  | ["tclose"] => let r := step s .close; some (r.1, showTOuts r.2)
  | ["tsize"] => some (s, toString s.trs.length)
  | _ => none

end Drv
