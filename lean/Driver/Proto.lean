import Driver.Util
import TurnModel.Model.BindConn
import TurnModel.Model.Framer
import TurnModel.Model.PortRange
import TurnModel.Model.LtCred
import TurnModel.Model.Nonce
import TurnModel.Model.FiveTuple
namespace Drv
open Turn

def showRes {α} (f : α → String) : Except AErr α → String
  | .ok v => "ok " ++ f v
  | .error e => "err " ++ aerr e

/-- H1 line protocol (codecs and framer) -/
def protoStep (toks : List String) : Option String :=
  match toks with
  | ["cdenc", num, d] => some (toHex (encodeCD (natOf num) (parseHex d)))
  | ["cddec", b] =>
    some (match decodeCD (parseHex b) with
      | .ok (n, d) => s!"ok {n} {toHex d}"
      | .error .eof => "err eof" | .error .badNumber => "err badnumber" | .error .badLength => "err badlength")
  | ["ischan", b] => some (toString (isChannelData (parseHex b)))
  | ["aeq", i1, p1, i2, p2] => some (toString (FT.addrEqual ⟨parseHex i1, natOf p1⟩ ⟨parseHex i2, natOf p2⟩))   -- ipnet.AddrEqual
  | ["pkey", i1, i2] => some (toString (FT.ipEqual (parseHex i1) (parseHex i2)))   -- FingerprintAddr a == FingerprintAddr b
  | ["fp", p1, si1, sp1, di1, dp1, p2, si2, sp2, di2, dp2] =>
    -- FiveTuple.Equal on two 5-tuples (internal/allocation/five_tuple.go)
    let t1 : FT.Tuple := ⟨natOf p1, ⟨parseHex si1, natOf sp1⟩, ⟨parseHex di1, natOf dp1⟩⟩
    let t2 : FT.Tuple := ⟨natOf p2, ⟨parseHex si2, natOf sp2⟩, ⟨parseHex di2, natOf dp2⟩⟩
    some (if FT.equal t1 t2 then "eq" else "ne")
  | ["consume", b] =>
    some (match consume (parseHex b) with
      | .ok n => s!"ok {n}" | .incomplete => "incomplete" | .invalid => "invalid")
  | "frames" :: chunks =>
    let cs := chunks.map parseHex
    let total := (cs.map List.length).sum
    let (fs, r) := readAll (total + 1) cs []
    let tail := match r with
      | some .invalid => "END invalid" | some .eof => "END eof" | some (.frame _) => "END ?" | none => "END fuel"
    some (String.intercalate " " (fs.map (fun f => "F " ++ toHex f) ++ [tail]))
  | "bindconn" :: chunks =>
    -- H10: the client's reading of the ConnectionBind reply; what is left belongs to the application
    let r := Turn.BindConn.readReply (chunks.map parseHex)
    let cls := match r.1 with
      | .short => "short"
      | .invalid => "invalid"
      | .msg raw =>
        let ty := (raw.getD 0 0).toNat * 256 + (raw.getD 1 0).toNat
        let c1 := (ty / 256) % 2
        let c0 := (ty / 16) % 2
        if c1 == 1 && c0 == 0 then "ok" else if c1 == 1 && c0 == 1 then "refused" else "other"
    some (cls ++ " rest=" ++ toHex r.2.flatten)
  | "framesb" :: cap :: chunks =>
    -- the caller's buffer holds `cap` bytes: ReadFrom reports the full frame size and copies what fits
    let cs := chunks.map parseHex
    let total := (cs.map List.length).sum
    let (fs, r) := readAll (total + 1) cs []
    let tail := match r with
      | some .invalid => "END invalid" | some .eof => "END eof" | some (.frame _) => "END ?" | none => "END fuel"
    some (String.intercalate " " (fs.map (fun f => s!"F {f.length} " ++ toHex (f.take (natOf cap))) ++ [tail]))
  | ["lifetime", "add", n] => some (toHex (lifetimeAdd (natOf n)))
  | ["lifetime", "get", v] => some (showRes toString (lifetimeGet (optHex v)))
  | ["connid", "add", n] => some (toHex (connIdAdd (natOf n)))
  | ["connid", "get", v] => some (showRes toString (connIdGet (optHex v)))
  | ["channum", "add", n] => some (toHex (chanNumAdd (natOf n)))
  | ["channum", "get", v] => some (showRes toString (chanNumGet (optHex v)))
  | ["reqtrans", "add", n] => some (toHex (reqTransAdd (UInt8.ofNat (natOf n))))
  | ["reqtrans", "get", v] => some (showRes (fun x => toString x.toNat) (reqTransGet (optHex v)))
  | ["reqfam", "add", n] => some (toHex (reqFamAdd (UInt8.ofNat (natOf n))))
  | ["reqfam", "get", v] => some (showRes (fun x => toString x.toNat) (reqFamGet (optHex v)))
  | ["evenport", "add", r] => some (toHex (evenPortAdd (r == "true")))
  | ["evenport", "get", v] => some (showRes toString (evenPortGet (optHex v)))
  | ["rsrvtoken", "add", t] => some (showRes toHex (rsrvTokenAdd (parseHex t)))
  | ["rsrvtoken", "get", v] => some (showRes toHex (rsrvTokenGet (optHex v)))
  | ["dontfrag", "add"] => some (toHex dontFragAdd)
  | ["dontfrag", "get", v] => some (showRes (fun _ => "set") (dontFragGet (optHex v)))
  | ["dontfrag", "isset", v] => some (toString (dontFragIsSet (optHex v)))
  | ["data", "add", d] => some (toHex (dataAdd (parseHex d)))
  | ["data", "get", v] => some (showRes toHex (dataGet (optHex v)))
  | ["xoraddr", "add", tid, ip, port] =>
    some (showRes toHex (xorAddrAdd (parseHex tid) (parseHex ip) (natOf port)))
  | ["xoraddr", "get", tid, v] =>
    some (showRes (fun (p : Bytes × Nat) => s!"{toHex p.1} {p.2}") (xorAddrGet (parseHex tid) (optHex v)))
  | ["snv", hl, now, thex, oracle] =>
    let text := String.ofList ((parseHex thex).map (fun b => Char.ofNat b.toNat))
    let orc : Option (List Nat × List Nat) := match oracle.splitOn ":" with
      | [a, b] => some ((parseHex a).map (·.toNat), (parseHex b).map (·.toNat))
      | _ => none
    let p : Turn.Nonce.Params := ⟨fun ts => match orc with
        | some (t, m) => if t == ts then m else List.replicate 32 1000      -- unknown timestamps never match
        | none => List.replicate 32 1000, natOf hl⟩
    some (if Turn.Nonce.validateText p text (natOf now) then "ok" else "bad")
  | ["lnv", now, thex, oracle] =>
    let text := String.ofList ((parseHex thex).map (fun b => Char.ofNat b.toNat))
    let orc : Option (List Nat × List Nat) := match oracle.splitOn ":" with
      | [a, b] => some ((parseHex a).map (·.toNat), (parseHex b).map (·.toNat))
      | _ => none
    let mac : List Nat → List Nat := fun ts => match orc with
        | some (t, m) => if t == ts then m else List.replicate 32 1000
        | none => List.replicate 32 1000
    -- hex.DecodeString: even length, only hex digits (either case)
    let isHex := text.toList.all (fun c => c.isDigit || ('a' ≤ c && c ≤ 'f') || ('A' ≤ c && c ≤ 'F'))
    let bytes := if isHex && text.length % 2 == 0 then some ((parseHex text).map (·.toNat)) else none
    some (match bytes with
      | some bs => if Turn.Nonce.validateLong mac 3600000 bs (natOf now) then "ok" else "bad"
      | none => "bad")
  | ["lt", kind, now, uhex] =>
    let uname := String.ofList ((parseHex uhex).map (fun b => Char.ofNat b.toNat))
    let E : Turn.LtCred.Env := ⟨fun _ _ => "", fun _ _ _ => []⟩
    let r := if kind == "rest" then Turn.LtCred.handlerREST E "" uname "" (Int.ofNat (natOf now))
             else Turn.LtCred.handler E "" uname "" (Int.ofNat (natOf now))
    some (match r with
      | some (uid, _) => "ok " ++ toHex (uid.toList.map (fun c => UInt8.ofNat c.toNat))
      | none => "no")
  | ["pr", mn, mx, retries, req, used, rands] =>
    let csv (s : String) : List Nat := if s == "-" then [] else (s.splitOn ",").map natOf
    let c : Turn.PortRange.Cfg := ⟨natOf mn, natOf mx, natOf retries⟩
    let intn := if natOf req == 0 then s!" intn={Turn.PortRange.intnArg c.min c.max}" else ""
    some (match Turn.PortRange.alloc c (csv used) (natOf req) (csv rands) with
      | .ok p a => s!"ok {p} {a}{intn}"
      | .err a => s!"err {a}{intn}")
  | _ => none

end Drv
