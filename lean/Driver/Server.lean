import Driver.Util
import TurnModel.Model.Server
import TurnModel.Model.ServerEvents
namespace Drv
open Turn Turn.Srv

def parseAddr (s : String) : Addr :=
  match s.splitOn "." with
  | [f, n, p] => ⟨⟨f == "6", (natOf n)⟩, (natOf p)⟩
  | _ => ⟨⟨false, 0⟩, 0⟩

def showIP (ip : IP) : String := (if ip.v6 then "6." else "4.") ++ toString ip.n
def showAddr (a : Addr) : String := showIP a.ip ++ "." ++ toString a.port

def parseIPs (s : String) : List IP :=
  if s == "-" then [] else (s.splitOn ",").map (fun x =>
    match x.splitOn "." with
    | [f, n] => ⟨f == "6", (natOf n)⟩
    | _ => ⟨false, 0⟩)

def kv (toks : List String) (key : String) : String :=
  match toks.find? (fun t => t.startsWith (key ++ "=")) with
  | some t => (t.drop (key.length + 1)).toString
  | none => "-"

def attrOf {α} (f : String → α) (s : String) : Attr α :=
  if s == "-" then .absent else if s == "!" then .bad else .val (f s)

def optOf {α} (f : String → α) (s : String) : Option α := if s == "-" then none else some (f s)

def b01 (s : String) : Bool := s == "1"

/-- cred: seven 0/1 flags (mi nonce nonceOK realm uname known macOK) then `:user` -/
def parseCred (s : String) : Cred :=
  match s.splitOn ":" with
  | [fl, u] =>
    let f := fl.toList.map (· == '1')
    ⟨f.getD 0 false, f.getD 1 false, f.getD 2 false, f.getD 3 false, f.getD 4 false, f.getD 5 false, f.getD 6 false, u⟩
  | _ => ⟨false, false, false, false, false, false, false, ""⟩

def parseCfg (t : List String) : Cfg :=
  { permT := natOf (kv t "perm"), chanT := natOf (kv t "chan"), lifeT := natOf (kv t "life"),
    maxLife := natOf (kv t "maxlife"), rtpMTU := natOf (kv t "rtp"), inMTU := natOf (kv t "inmtu"),
    bindT := natOf (kv t "bind"), resvT := natOf (kv t "resv"), strict := b01 (kv t "strict"),
    hasAuth := b01 (kv t "auth"), hasQuota := b01 (kv t "quota"),
    relay4 := (parseIPs (kv t "relay4")).headD ⟨false, 0⟩, relay6 := (parseIPs (kv t "relay6")).headD ⟨true, 0⟩, lis := [] }

def parseMsg (t : List String) : Option Msg :=
  match t with
  | "alloc" :: tid :: cred :: rest =>
    some (.allocate (natOf tid) (parseCred cred) (attrOf natOf (kv rest "lt")) (attrOf natOf (kv rest "tr"))
      (b01 (kv rest "df")) (attrOf id (kv rest "tok")) (attrOf b01 (kv rest "even")) (attrOf natOf (kv rest "fam"))
      ⟨optOf natOf (kv rest "rport"), b01 (kv rest "quota"), optOf natOf (kv rest "evenport"), kv rest "newtok"⟩)
  | "refresh" :: tid :: cred :: rest =>
    some (.refresh (natOf tid) (parseCred cred) (attrOf natOf (kv rest "lt")) (attrOf natOf (kv rest "fam")))
  | "perm" :: tid :: cred :: peers =>
    some (.createPerm (natOf tid) (parseCred cred) (peers.map (fun p => if p == "!" then none else some (parseAddr p))))
  | "bind" :: tid :: cred :: rest =>
    some (.chanBind (natOf tid) (parseCred cred) (attrOf natOf (kv rest "num")) (attrOf parseAddr (kv rest "peer")))
  | ["send", d, p] => some (.send (optOf parseHex d) (attrOf parseAddr p))
  | ["cdata", raw] => some (.chanData (parseHex raw))
  | ["binding", tid] => some (.binding (natOf tid))
  | "connect" :: tid :: cred :: rest =>
    some (.connect (natOf tid) (parseCred cred) (attrOf parseAddr (kv rest "peer")) (b01 (kv rest "dial")) (natOf (kv rest "cid")))
  | "cbind" :: tid :: cred :: rest => some (.connBind (natOf tid) (parseCred cred) (attrOf natOf (kv rest "cid")))
  | ["unk", m, tid] => some (.unknownAttr m (natOf tid))
  | ["junk"] => some .junk
  | _ => none

def parseOp (t : List String) : Option Op :=
  match t with
  | ["adv", dt] => some (.adv (natOf dt))
  | "m" :: lid :: src :: sz :: rest => (parseMsg rest).map (.msg ⟨(natOf lid), parseAddr src⟩ (natOf sz))
  | ["pdata", r, f, d] => some (.peerData (parseAddr r) (parseAddr f) (parseHex d))
  | ["pconn", r, f, cid] => some (.peerConn (parseAddr r) (parseAddr f) (natOf cid))
  | ["cclose", lid, src] => some (.ctrlClose ⟨(natOf lid), parseAddr src⟩)
  | ["rerr", r] => some (.relayErr (parseAddr r))
  | ["pc2p", lid, src, d] => some (.pipeC2P ⟨(natOf lid), parseAddr src⟩ (parseHex d))
  | ["pp2c", lid, cid, d] => some (.pipeP2C (natOf lid) (natOf cid) (parseHex d))
  | ["pclosec", lid, src] => some (.pipeCloseC ⟨(natOf lid), parseAddr src⟩)
  | ["pclosep", lid, cid] => some (.pipeCloseP (natOf lid) (natOf cid))
  | ["close"] => some .close
  | _ => none

def showKey (k : Key) : String := toString k.lid ++ " " ++ showAddr k.src

def showOut : Out → String
  | .resp k m ok code tid a =>
    s!"resp {showKey k} {m} {if ok then "ok" else "err"} {code} {tid}" ++
      (if a.nonce then " nonce" else "") ++
      (match a.lt with | some l => s!" lt={l}" | none => "") ++
      (match a.relay with | some r => " relay=" ++ showAddr r | none => "") ++
      (match a.mapped with | some r => " mapped=" ++ showAddr r | none => "") ++
      (match a.cid with | some r => s!" cid={r}" | none => "") ++
      (match a.token with | some r => " tok=" ++ r | none => "")
  | .dataInd k f d => s!"dind {showKey k} {showAddr f} {toHex d}"
  | .chanData k n d => s!"cdat {showKey k} {n} {toHex d}"
  | .connAttempt k f cid => s!"catt {showKey k} {showAddr f} {cid}"
  | .toPeer r d b => s!"topeer {showAddr r} {showAddr d} {toHex b}"
  | .dial r d cid => s!"dial {showAddr r} {showAddr d} {cid}"
  | .connClosed lid cid p => s!"cclosed {lid} {cid} {showAddr p}"
  | .pipeToPeer lid cid d => s!"p2p {lid} {cid} {toHex d}"
  | .pipeToClient k d => s!"p2c {showKey k} {toHex d}"
  | .dataClosed k => s!"dclosed {showKey k}"

def showEnt (sign : String) : Ent → List String
  | .alloc k r tcp => [s!"ev alloc{sign} {showKey k} {showAddr r}", s!"net {if sign == "+" then "open" else "close"} {if tcp then "tcp" else "udp"} {showAddr r}"]
  | .perm k ip => [s!"ev perm{sign} {showKey k} {showIP ip}"]
  | .chan k n p => [s!"ev chan{sign} {showKey k} {n}@{showAddr p}"]

def showEv : Ev → List String
  | .created e => showEnt "+" e
  | .deleted e => showEnt "-" e

def insertSorted (x : String) : List String → List String
  | [] => [x]
  | y :: ys => if x ≤ y then x :: y :: ys else y :: insertSorted x ys

def sortStrs (l : List String) : List String := l.foldl (fun acc x => insertSorted x acc) []

def showOuts (os : List Out) (evs : List Ev := []) : String :=
  if os.isEmpty && evs.isEmpty then "-" else String.intercalate " | " (sortStrs (os.map showOut ++ evs.flatMap showEv))

def showAlloc (a : Alloc) : String :=
  s!"{showKey a.key} r={showAddr a.relay} p=[" ++ String.intercalate "," (sortStrs (a.perms.map (fun p => showIP p.ip))) ++
    "] c=[" ++ String.intercalate "," (sortStrs (a.chans.map (fun c => s!"{c.num}@{showAddr c.peer}"))) ++
    "]"

def showState (s : State) : String :=
  s!"n={s.allocs.length}" ++ String.join ((sortStrs (s.allocs.map showAlloc)).map (" ; " ++ ·))

structure SrvDrv where
  cfg : Cfg
  st : State

def SrvDrv.init : SrvDrv := ⟨parseCfg [], Srv.init⟩

def srvStep (d : SrvDrv) (toks : List String) : Option (SrvDrv × String) :=
  match toks with
  | "cfg" :: rest => some (⟨parseCfg rest, Srv.init⟩, "ok")
  | ["lis", stream, fam, unspec, vetoed] =>
    some ({ d with cfg := { d.cfg with lis := d.cfg.lis ++ [⟨b01 stream, (natOf fam), b01 unspec, parseIPs vetoed, []⟩] } }, "ok")
  | ["lis", stream, fam, unspec, vetoed, vfor] =>
    -- vfor: client>peer pairs the permission handler refuses for that client only
    let pairs := if vfor == "-" then [] else (vfor.splitOn ",").filterMap (fun x =>
      match x.splitOn ">" with
      | [a, b] => match parseIPs a, parseIPs b with
        | [ia], [ib] => some (ia, ib)
        | _, _ => none
      | _ => none)
    some ({ d with cfg := { d.cfg with lis := d.cfg.lis ++ [⟨b01 stream, (natOf fam), b01 unspec, parseIPs vetoed, pairs⟩] } }, "ok")
  | ["state"] => some (d, showState d.st)
  -- H9: teardown during a slow lifecycle callback; the model's answer is justified by C18.addperm_vs_close
  | "slowcb" :: _ => some (d, "ok")
  | _ =>
    match parseOp toks with
    | some op =>
      let (s', outs, evs) := stepE d.cfg d.st op
      some ({ d with st := s' }, showOuts outs evs)
    | none => none

end Drv
