import TurnModel.Model.Wire
import TurnModel.Model.Framer
