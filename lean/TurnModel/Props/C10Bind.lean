/-
C10 (last clause) — the client's parsing of the ConnectionBind reply is independent of how the byte
stream is split into reads.  Model: Model/BindConn.lean.
-/
import TurnModel.Model.BindConn
namespace Turn.C10
open Turn Turn.BindConn

/-- `readFull` depends only on the concatenation of the chunks: it returns exactly the first `n` bytes of
    the stream and leaves exactly the rest, or fails when the stream is shorter than `n` -/
theorem readFull_spec : ∀ (cs : List Bytes) (n : Nat),
    match readFull cs n with
    | some (b, rest) => b = cs.flatten.take n ∧ rest.flatten = cs.flatten.drop n ∧ n ≤ cs.flatten.length
    | none => cs.flatten.length < n := by
  intro cs
  induction cs with
  | nil =>
    intro n
    unfold readFull
    by_cases h : n = 0
    · simp [h]
    · simp [h]; omega
  | cons c cs ih =>
    intro n
    unfold readFull
    by_cases h0 : n = 0
    · simp [h0]
    · simp only [h0, if_false]
      by_cases hc : c.length = 0
      · have : c = [] := List.length_eq_zero_iff.mp hc
        subst this
        simpa using ih n
      · simp only [hc, if_false]
        by_cases hle : n ≤ c.length
        · simp only [hle, if_true, List.flatten_cons]
          refine ⟨?_, ?_, ?_⟩
          · rw [List.take_append_of_le_length hle]
          · rw [List.drop_append_of_le_length hle]
          · rw [List.length_append]; omega
        · simp only [hle, if_false]
          have ih' := ih (n - c.length)
          cases hr : readFull cs (n - c.length) with
          | none =>
            rw [hr] at ih'
            simp only at ih' ⊢
            rw [List.flatten_cons, List.length_append]; omega
          | some r =>
            obtain ⟨b, rest⟩ := r
            rw [hr] at ih'
            simp only at ih' ⊢
            obtain ⟨i1, i2, i3⟩ := ih'
            simp only [List.flatten_cons]
            refine ⟨?_, ?_, ?_⟩
            · rw [List.take_append, List.take_of_length_le (by omega), i1]
            · rw [List.drop_append, List.drop_of_length_le (by omega), i2]; simp
            · rw [List.length_append]; omega

theorem readFull_congr (n : Nat) (cs cs' : List Bytes) (h : cs.flatten = cs'.flatten) :
    (readFull cs n).map (·.1) = (readFull cs' n).map (·.1) ∧
    (readFull cs n).map (·.2.flatten) = (readFull cs' n).map (·.2.flatten) := by
  have s1 := readFull_spec cs n
  have s2 := readFull_spec cs' n
  cases h1 : readFull cs n with
  | none =>
    cases h2 : readFull cs' n with
    | none => simp
    | some r => rw [h1] at s1; rw [h2] at s2; simp only at s1 s2; rw [h] at s1; omega
  | some r =>
    cases h2 : readFull cs' n with
    | none => rw [h1] at s1; rw [h2] at s2; simp only at s1 s2; rw [h] at s1; omega
    | some r' =>
      rw [h1] at s1; rw [h2] at s2
      simp only at s1 s2
      simp only [Option.map_some]
      rw [s1.1, s2.1, s1.2.1, s2.2.1, h]
      exact ⟨rfl, rfl⟩

/-- **bindconn_split_independent**: whatever the segmentation, `BindConnection` sees the same reply (or the
    same failure) and leaves the same bytes for the application -/
theorem bindconn_split_independent (cs cs' : List Bytes) (h : cs.flatten = cs'.flatten) :
    (readReply cs).1 = (readReply cs').1 ∧ (readReply cs).2.flatten = (readReply cs').2.flatten := by
  unfold readReply
  have s1 := readFull_spec cs 20
  have s2 := readFull_spec cs' 20
  cases h1 : readFull cs 20 with
  | none =>
    cases h2 : readFull cs' 20 with
    | none => simp
    | some r => rw [h1] at s1; rw [h2] at s2; simp only at s1 s2; rw [h] at s1; omega
  | some r =>
    cases h2 : readFull cs' 20 with
    | none => rw [h1] at s1; rw [h2] at s2; simp only at s1 s2; rw [h] at s1; omega
    | some r' =>
      obtain ⟨hd, rest⟩ := r
      obtain ⟨hd', rest'⟩ := r'
      rw [h1] at s1; rw [h2] at s2
      simp only at s1 s2
      have hhd : hd = hd' := by rw [s1.1, s2.1, h]
      have hrest : rest.flatten = rest'.flatten := by rw [s1.2.1, s2.2.1, h]
      subst hhd
      simp only
      by_cases hv : isStunHeader hd = true
      · simp only [hv, Bool.not_true, Bool.false_eq_true, if_false]
        have t1 := readFull_spec rest (bodyLen hd)
        have t2 := readFull_spec rest' (bodyLen hd)
        cases g1 : readFull rest (bodyLen hd) with
        | none =>
          cases g2 : readFull rest' (bodyLen hd) with
          | none => simp
          | some q => rw [g1] at t1; rw [g2] at t2; simp only at t1 t2; rw [hrest] at t1; omega
        | some q =>
          cases g2 : readFull rest' (bodyLen hd) with
          | none => rw [g1] at t1; rw [g2] at t2; simp only at t1 t2; rw [hrest] at t1; omega
          | some q' =>
            rw [g1] at t1; rw [g2] at t2
            simp only at t1 t2
            simp only
            rw [t1.1, t2.1, t1.2.1, t2.2.1, hrest]
            exact ⟨rfl, rfl⟩
      · have hv' : isStunHeader hd = false := by simpa using hv
        simp only [hv', Bool.not_false, if_true]
        exact ⟨trivial, hrest⟩

/-- the reply is returned whole and the application gets exactly what follows it -/
theorem bindconn_exact (h b tail : Bytes) (hl : h.length = 20) (hv : isStunHeader h = true) (hb : b.length = bodyLen h) (cs : List Bytes)
    (hcs : cs.flatten = h ++ b ++ tail) : (readReply cs).1 = .msg (h ++ b) ∧ (readReply cs).2.flatten = tail := by
  have key := bindconn_split_independent cs [h, b, tail] (by simp [hcs])
  have : readReply [h, b, tail] = (.msg (h ++ b), [[], tail]) ∨ (readReply [h, b, tail]).1 = .msg (h ++ b) ∧ (readReply [h, b, tail]).2.flatten = tail := by
    right
    unfold readReply
    have s1 := readFull_spec [h, b, tail] 20
    cases h1 : readFull [h, b, tail] 20 with
    | none => rw [h1] at s1; simp only at s1; simp at s1; omega
    | some r =>
      obtain ⟨hd, rest⟩ := r
      rw [h1] at s1
      simp only at s1
      have hhd : hd = h := by rw [s1.1]; simp [List.take_append_of_le_length, hl]
      have hrest : rest.flatten = b ++ tail := by rw [s1.2.1]; simp [hl]
      subst hhd
      simp only [hv, Bool.not_true, Bool.false_eq_true, if_false]
      have t1 := readFull_spec rest (bodyLen hd)
      cases g1 : readFull rest (bodyLen hd) with
      | none => rw [g1] at t1; simp only at t1; rw [hrest] at t1; simp at t1; omega
      | some q =>
        rw [g1] at t1
        simp only at t1 ⊢
        rw [t1.1, t1.2.1, hrest, ← hb]
        simp
  rcases this with h' | h'
  · rw [h'] at key; simpa using key
  · exact ⟨key.1.trans h'.1, key.2.trans h'.2⟩

/-! non-vacuity -/
def hdr : Bytes := [0x01, 0x0B, 0x00, 0x04] ++ cookie ++ List.replicate 12 7
example : readReply [hdr ++ [1, 2, 3, 4, 9, 9]] = (.msg (hdr ++ [1, 2, 3, 4]), [[9, 9]]) := by decide
example : (readReply [hdr.take 7, hdr.drop 7 ++ [1, 2], [3], [4, 9, 9]]).1 = .msg (hdr ++ [1, 2, 3, 4]) := by decide
example : (readReply [hdr ++ [1, 2]]).1 = .short := by decide

end Turn.C10
