/-
C12 — client transactions match by ID, retransmit on schedule and always terminate.
Model: Model/Txn.lean (M5).  The ∀ over fault schedules is the ∀ over event lists: responses with
any ids in any order, duplicates, late arrivals, timer firings, write failures at any transmission,
Close at any point, any number of concurrent transactions.
-/
import TurnModel.Model.Txn
import TurnModel.Gen.Consts
namespace Turn.C12
open Turn.Txn

def b2n (b : Bool) : Nat := if b then 1 else 0

def isDone (k : Nat) : Out → Bool
  | .done k' _ _ => k' == k
  | _ => false

def doneCount (k : Nat) (outs : List Out) : Nat := (outs.filter (isDone k)).length
def pending (s : St) (k : Nat) : Nat := (s.trs.filter (·.key == k)).length

/-- a `start` that finds its key free really begins a transaction -/
def begins (s : St) (k : Nat) : Ev → Nat
  | .on k' (.start _ _) => if k' == k && (find s k').isNone then 1 else 0
  | _ => 0

/-- per-key conservation: completions + entry afterwards = entry before + (1 if a transaction began) -/
theorem react_balance (now k : Nat) (cur : Option Tr) (e : KEv) :
    b2n (react now k cur e).2.1.isSome + b2n (react now k cur e).1.isSome =
      b2n cur.isSome + (match e, cur with | .start _ _, none => 1 | _, _ => 0) := by
  cases cur <;> cases e <;> simp [react, b2n]
  · split <;> simp
  · split
    · simp
    · split <;> simp

theorem react_key (now k : Nat) (cur : Option Tr) (e : KEv) (hc : ∀ t, cur = some t → t.key = k) :
    ∀ t, (react now k cur e).1 = some t → t.key = k := by
  intro t ht
  cases cur <;> cases e <;> simp [react] at ht
  · split at ht
    · simp at ht
    · simp at ht; subst ht; rfl
  · rename_i t0 _ _; subst ht; exact hc _ rfl
  · rename_i t0
    split at ht
    · simp at ht
    · split at ht
      · simp at ht
      · simp at ht; subst ht; rfl

/-- the table holds at most one entry per transaction id -/
def Wf (s : St) : Prop := ∀ k, pending s k ≤ 1

theorem find_key {s : St} {k : Nat} {t : Tr} (h : find s k = some t) : t.key = k := by
  unfold find at h
  have := List.find?_some h; simpa using this

theorem pending_eq (s : St) (k : Nat) (hw : Wf s) : pending s k = b2n (find s k).isSome := by
  cases hf : find s k with
  | none =>
    simp only [find, List.find?_eq_none] at hf
    simp only [pending, b2n, Option.isSome_none, Bool.false_eq_true, if_false, List.length_eq_zero_iff,
      List.filter_eq_nil_iff]
    exact hf
  | some t =>
    have hm : t ∈ s.trs.filter (·.key == k) := by
      have hk : t.key = k := find_key hf
      unfold find at hf
      exact List.mem_filter.mpr ⟨List.mem_of_find?_eq_some hf, by simp [hk]⟩
    have : 0 < pending s k := List.length_pos_of_mem hm
    have := hw k
    simp [b2n]; omega

theorem pending_others_self (s : St) (k : Nat) : ((others s k).filter (·.key == k)).length = 0 := by
  simp [others, List.filter_filter]

theorem pending_others_other (s : St) (k k' : Nat) (h : k' ≠ k) :
    ((others s k).filter (·.key == k')).length = pending s k' := by
  simp only [others, pending, List.filter_filter]
  congr 1
  apply List.filter_congr
  intro t _
  by_cases ht : t.key = k'
  · simp [ht, h]
  · simp [ht]

theorem step_wf (s : St) (e : Ev) (hw : Wf s) : Wf (step s e).1 := by
  cases e with
  | adv dt => exact hw
  | close => intro k; simp [step, pending]
  | on k e =>
    intro k'
    simp only [step, pending, List.filter_append, List.length_append]
    by_cases hk : k' = k
    · subst hk
      rw [pending_others_self]
      cases hr : (react s.now k' (find s k') e).1 with
      | none => simp
      | some t =>
        simp only [Option.toList_some, Nat.add_zero]
        exact List.length_filter_le _ [t]
    · rw [pending_others_other s k k' hk]
      have hkey := react_key s.now k (find s k) e (fun t ht => find_key ht)
      cases hr : (react s.now k (find s k) e).1 with
      | none => simpa using hw k'
      | some t =>
        have : t.key = k := hkey t hr
        have hne : ¬ t.key = k' := by rw [this]; exact fun h => hk h.symm
        simpa [hne] using hw k'

/-- one step conserves, for every id: completions emitted + entries afterwards = entries before + transactions begun -/
theorem step_balance (s : St) (e : Ev) (k : Nat) (hw : Wf s) :
    doneCount k (step s e).2 + pending (step s e).1 k = pending s k + begins s k e := by
  cases e with
  | adv dt => simp [step, doneCount, pending, begins]
  | close =>
    simp only [step, doneCount, pending, begins, List.filter_nil, List.length_nil, Nat.add_zero, List.filter_map,
      List.length_map]
    congr 1
  | on k' ev =>
    by_cases hk : k' = k
    · subst hk
      have hb := react_balance s.now k' (find s k') ev
      have hp := pending_eq s k' hw
      simp only [step, doneCount, pending, List.filter_append, List.length_append, pending_others_self]
      simp only [pending] at hp
      rw [hp]
      have hkey := react_key s.now k' (find s k') ev (fun t ht => find_key ht)
      generalize react s.now k' (find s k') ev = r at hb hkey ⊢
      obtain ⟨nt, res, sent⟩ := r
      have hnt : (nt.toList.filter (·.key == k')).length = b2n nt.isSome := by
        cases nt with
        | none => simp [b2n]
        | some t => simp [hkey t rfl, b2n]
      simp only [hnt]
      cases ev <;> cases hf : find s k' <;> cases nt <;> cases res <;> cases sent <;>
        simp_all [b2n, begins, isDone]
    · have hkey := react_key s.now k' (find s k') ev (fun t ht => find_key ht)
      simp only [step, doneCount, pending, List.filter_append, List.length_append]
      rw [pending_others_other s k' k (Ne.symm hk)]
      have hbeg : begins s k (.on k' ev) = 0 := by cases ev <;> simp [begins, hk]
      rw [hbeg]
      generalize hr : react s.now k' (find s k') ev = r at hkey ⊢
      obtain ⟨nt, res, sent⟩ := r
      have hnt : (nt.toList.filter (·.key == k)).length = 0 := by
        cases nt with
        | none => simp
        | some t =>
          have : t.key = k' := hkey t rfl
          simp [this, hk]
      simp only [hnt]
      cases res <;> cases sent <;> simp [isDone, hk, pending]

/-- transactions begun for id k along a history -/
def begun (s : St) (k : Nat) : List Ev → Nat
  | [] => 0
  | e :: es => begins s k e + begun (step s e).1 k es

theorem run_wf : ∀ (es : List Ev) (s : St), Wf s → Wf (run s es).1
  | [], _, h => h
  | e :: es, s, h => by simpa [run] using run_wf es _ (step_wf s e h)

/-- conservation over ANY event history -/
theorem run_balance : ∀ (es : List Ev) (s : St) (k : Nat), Wf s →
    doneCount k (run s es).2 + pending (run s es).1 k = pending s k + begun s k es
  | [], s, k, _ => by simp [run, doneCount, begun]
  | e :: es, s, k, hw => by
    have h1 := step_balance s e k hw
    have h2 := run_balance es (step s e).1 k (step_wf s e hw)
    simp only [run, begun, doneCount, List.filter_append, List.length_append] at *
    omega

/-- **exactly once**: from an empty table, over every event history (any loss, duplication, delay,
    reordering, write failure, Close): every begun transaction completes at most once, and exactly once
    as soon as its id has left the table; in particular a completed transaction leaves nothing behind -/
theorem exactly_once (es : List Ev) (k : Nat) :
    doneCount k (run ⟨0, []⟩ es).2 ≤ begun ⟨0, []⟩ k es ∧
    (pending (run ⟨0, []⟩ es).1 k = 0 → doneCount k (run ⟨0, []⟩ es).2 = begun ⟨0, []⟩ k es) := by
  have hw : Wf ⟨0, []⟩ := by intro k; simp [pending]
  have := run_balance es ⟨0, []⟩ k hw
  simp only [pending, List.filter_nil, List.length_nil, Nat.zero_add] at this
  constructor
  · omega
  · intro h; simp only [pending] at h; omega

/-- **matching by id**: a response completes only the transaction carrying its id, only while that
    transaction is pending, and removes it from the table in the same step; a response with an id that
    is not pending (unknown, duplicate, late) changes nothing and completes nothing -/
theorem response_matches_by_id (s : St) (k : Nat) :
    (∀ t, find s k = some t → (step s (.on k .resp)).2 = [.done k .response s.now] ∧ find (step s (.on k .resp)).1 k = none) ∧
    (find s k = none → (step s (.on k .resp)).2 = [] ∧ (step s (.on k .resp)).1.trs = others s k) := by
  constructor
  · intro t ht
    simp only [step, ht, react]
    refine ⟨by simp, ?_⟩
    simp only [find, Option.toList_none, List.nil_append, others]
    rw [List.find?_eq_none]
    intro x hx
    simp only [List.mem_filter] at hx
    simpa using hx.2
  · intro hn
    simp [step, hn, react]

/-- a response never completes another id's transaction -/
theorem response_other_id_untouched (s : St) (k k' : Nat) (h : k' ≠ k) :
    ∀ o ∈ (step s (.on k .resp)).2, isDone k' o = false := by
  intro o ho
  simp only [step] at ho
  cases hf : find s k <;> simp [hf, react] at ho
  subst ho
  simp [isDone]; exact fun h' => h h'.symm

/-- Close completes every pending transaction (with the closed error) and empties the table -/
theorem close_completes_all (s : St) :
    (step s .close).1.trs = [] ∧ ∀ t ∈ s.trs, Out.done t.key .closed s.now ∈ (step s .close).2 := by
  refine ⟨rfl, ?_⟩
  intro t ht
  simp only [step, List.mem_map]
  exact ⟨t, ht, rfl⟩

/-- **retransmission recurrence**: a timer firing that retransmits sends immediately, counts one more
    transmission, doubles the interval capped at 1.6 s and re-arms the timer one such interval ahead;
    the 7th firing fails the transaction instead (7 transmissions in all) -/
theorem fire_recurrence (now k : Nat) (t : Tr) :
    (t.nRtx + 1 = maxRtx → react now k (some t) .fire = (none, some .allFailed, false)) ∧
    (t.nRtx + 1 ≠ maxRtx → t.failAt ≠ some (t.nRtx + 1) →
       react now k (some t) .fire =
         (some ⟨k, t.nRtx + 1, min (t.interval * 2) cap, now + min (t.interval * 2) cap, t.failAt⟩, none, true)) ∧
    (t.nRtx + 1 ≠ maxRtx → t.failAt = some (t.nRtx + 1) → react now k (some t) .fire = (none, some .writeFailed, false)) := by
  refine ⟨?_, ?_, ?_⟩
  · intro h; simp [react, h]
  · intro h1 h2; simp [react, h1, h2]
  · intro h1 h2; simp [react, h1, h2]

/-- the timetable with no response and working writes, for EVERY rto: 7 transmissions at
    t0, +rto, then intervals min(2·rto,cap), min(2·that,cap), …; failure when the 7th timer fires -/
def intervals (rto : Nat) : Nat → Nat
  | 0 => rto
  | n + 1 => min (intervals rto n * 2) cap

/-- the event history of an unanswered transaction whose timer fires exactly when due -/
def silent (rto : Nat) : List Ev :=
  [.on 1 (.start rto none),
   .adv (intervals rto 0), .on 1 .fire, .adv (intervals rto 1), .on 1 .fire, .adv (intervals rto 2), .on 1 .fire,
   .adv (intervals rto 3), .on 1 .fire, .adv (intervals rto 4), .on 1 .fire, .adv (intervals rto 5), .on 1 .fire,
   .adv (intervals rto 6), .on 1 .fire]

theorem rtx_schedule (rto : Nat) :
    (run ⟨0, []⟩ (silent rto)).2 =
      [.sent 1 0,
       .sent 1 (intervals rto 0),
       .sent 1 (intervals rto 0 + intervals rto 1),
       .sent 1 (intervals rto 0 + intervals rto 1 + intervals rto 2),
       .sent 1 (intervals rto 0 + intervals rto 1 + intervals rto 2 + intervals rto 3),
       .sent 1 (intervals rto 0 + intervals rto 1 + intervals rto 2 + intervals rto 3 + intervals rto 4),
       .sent 1 (intervals rto 0 + intervals rto 1 + intervals rto 2 + intervals rto 3 + intervals rto 4 + intervals rto 5),
       .done 1 .allFailed (intervals rto 0 + intervals rto 1 + intervals rto 2 + intervals rto 3 + intervals rto 4 +
          intervals rto 5 + intervals rto 6)] ∧
    (run ⟨0, []⟩ (silent rto)).1.trs = [] := by
  simp [silent, run, step, react, find, others, intervals, maxRtx]

/-- …and each of those firings happens exactly when the stored timer is due: after every retransmission
    the entry's `fireAt` is the current time plus the entry's (new) interval -/
theorem timer_rearmed (now k : Nat) (t t' : Tr) (h : react now k (some t) .fire = (some t', none, true)) :
    t'.fireAt = now + t'.interval ∧ t'.interval = min (t.interval * 2) cap ∧ t'.nRtx = t.nRtx + 1 := by
  simp only [react] at h
  split at h
  · simp at h
  · split at h
    · simp at h
    · simp at h; subst h; exact ⟨rfl, rfl, rfl⟩

/-- for RTOs up to the cap the intervals are the RTO doubling each time, capped at 1.6 s -/
theorem intervals_closed (rto : Nat) (h : rto ≤ cap) : ∀ n, intervals rto n = min (rto * 2 ^ n) cap := by
  intro n
  induction n with
  | zero => simp [intervals, Nat.min_eq_left h]
  | succ n ih =>
    simp only [intervals, ih, Nat.pow_succ]
    have : rto * (2 ^ n * 2) = rto * 2 ^ n * 2 := by rw [Nat.mul_assoc]
    rw [this]
    omega

/-- regenerated: 7 transmissions, cap 1.6 s, default RTO 200 ms in today's source -/
theorem rtx_consts_regenerated :
    Gen.Consts.turn_maxRtxCount = 7 ∧ Gen.Consts.client_maxRtxInterval = 1600 * 1000000 ∧
    Gen.Consts.turn_defaultRTO = 200 * 1000000 := by decide

/-! non-vacuity: the measured timetable of the real client (RTO 200 ms) -/
example : (advanceTo 20 (step ⟨0, []⟩ (.on 1 (.start 200 none))).1 10000).2 =
    [.sent 1 200, .sent 1 600, .sent 1 1400, .sent 1 3000, .sent 1 4600, .sent 1 6200, .done 1 .allFailed 7800] := by decide
example : (step ⟨0, []⟩ (.on 1 (.start 200 none))).2 = [.sent 1 0] := by decide
/-- RTO above the cap: the first interval is the RTO itself, the following ones the cap -/
example : (advanceTo 20 (step ⟨0, []⟩ (.on 1 (.start 3000 none))).1 100000).2 =
    [.sent 1 3000, .sent 1 4600, .sent 1 6200, .sent 1 7800, .sent 1 9400, .sent 1 11000, .done 1 .allFailed 12600] := by decide

/-! ### bounded termination -/

/-- the table entry of one transaction after a series of timer firings with nothing else happening
    to it (the clock value at each firing is arbitrary) -/
def fireN (k : Nat) : List Nat → Option Tr → Option Tr
  | [], o => o
  | now :: ns, o => fireN k ns (react now k o .fire).1

theorem fireN_none (k : Nat) : ∀ ns, fireN k ns none = none
  | [] => rfl
  | _ :: ns => by simpa [fireN, react] using fireN_none k ns

/-- a new transaction starts with no firings counted -/
theorem start_counts_zero (now k rto : Nat) (fa : Option Nat) (t : Tr)
    (h : (react now k none (.start rto fa)).1 = some t) : t.nRtx = 0 ∧ t.key = k := by
  simp only [react] at h
  split at h
  · cases h
  · simp at h; subst h; exact ⟨rfl, rfl⟩

/-- **never hangs**: an unanswered transaction leaves the table after at most `7 − nRtx` timer firings —
    for every clock, every retransmission interval and whichever socket write fails (a failing write
    only ends it sooner).  With `exactly_once` this is "every transaction completes". -/
theorem fires_terminate (k : Nat) : ∀ (nows : List Nat) (t : Tr), t.nRtx < maxRtx →
    maxRtx ≤ t.nRtx + nows.length → fireN k nows (some t) = none := by
  intro nows
  induction nows with
  | nil => intro t h1 h2; simp at h2; omega
  | cons now ns ih =>
    intro t h1 h2
    simp only [fireN, react]
    split
    · exact fireN_none k ns
    · rename_i hne
      split
      · exact fireN_none k ns
      · simp only [beq_iff_eq] at hne
        exact ih _ (by simp only; omega) (by simp only [List.length_cons] at h2 ⊢; omega)

/-- every timer of a live transaction is armed at most `max interval cap` ahead: with
    `fires_terminate`, an unanswered transaction started with `rto` is over within
    `rto + 6 · max rto cap` of its start when its timers fire on time. -/
theorem fire_interval_bounded (now k : Nat) (t t' : Tr) (h : (react now k (some t) .fire).1 = some t') :
    t'.fireAt = now + t'.interval ∧ t'.interval ≤ cap ∧ t'.nRtx = t.nRtx + 1 := by
  simp only [react] at h
  split at h
  · cases h
  · split at h
    · cases h
    · simp at h; subst h; exact ⟨rfl, Nat.min_le_right _ _, rfl⟩

example : fireN 1 [200, 600, 1400, 3000, 4600, 6200, 7800] (react 0 1 none (.start 200 none)).1 = none := by decide
example : fireN 1 [200, 600, 1400, 3000, 4600, 6200] (react 0 1 none (.start 200 none)).1 ≠ none := by decide

end Turn.C12
