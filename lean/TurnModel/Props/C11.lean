/-
C11 — TURN wire codecs round-trip and reject malformed input safely.
Property theorems only (helpers live in Lemmas/Wire.lean).  Model: Model/Wire.lean (M1).
-/
import TurnModel.Lemmas.Wire
import TurnModel.Gen.Consts
namespace Turn.C11

/-- ∀ valid number, ∀ payload of < 65536 bytes: decode ∘ encode = id. -/
theorem cd_decode_encode (num : Nat) (d : Bytes) (hn : chanValid num = true) (hd : d.length < 65536) :
    decodeCD (encodeCD num d) = .ok (num, d) := by
  have hnum : num < 65536 := by simp [chanValid] at hn; omega
  simp [encodeCD, decodeCD, be16_hi_lo _ hnum, Nat.mod_eq_of_lt hd, be16_hi_lo _ hd, hn]

/-- shape of an encoded message: number, length field = payload length, payload, then `k < 4` zero
    bytes, where `k` is the least count that makes the total a multiple of 4. -/
theorem cd_encode_shape (num : Nat) (d : Bytes) (hnum : num < 65536) (hd : d.length < 65536) :
    ∃ a b c e k, encodeCD num d = [a, b, c, e] ++ d ++ List.replicate k 0 ∧
      be16 a b = num ∧ be16 c e = d.length ∧ k < 4 ∧ (encodeCD num d).length % 4 = 0 ∧
      (encodeCD num d).length = 4 + d.length + k := by
  refine ⟨_, _, _, _, padLen (4 + d.length), rfl, be16_hi_lo _ hnum, ?_, padLen_lt _, ?_, ?_⟩
  · rw [Nat.mod_eq_of_lt hd]; exact be16_hi_lo _ hd
  · have := padLen_mod (4 + d.length); simp [encodeCD]; omega
  · simp [encodeCD]; omega

/-- decoding succeeds exactly for buffers holding a valid number and at least the declared number of
    bytes, and yields exactly the declared bytes. -/
theorem cd_decode_ok_iff (buf : Bytes) (n : Nat) (d : Bytes) :
    decodeCD buf = .ok (n, d) ↔
      ∃ a b c e rest, buf = a :: b :: c :: e :: rest ∧ n = be16 a b ∧ chanValid n = true ∧
        be16 c e ≤ rest.length ∧ d = rest.take (be16 c e) := by
  constructor
  · intro h
    match buf, h with
    | a :: b :: c :: e :: rest, h =>
      simp only [decodeCD] at h
      split at h; · cases h
      split at h; · cases h
      rename_i h1 h2
      cases h
      exact ⟨a, b, c, e, rest, rfl, rfl, by simpa using h1, by omega, rfl⟩
  · rintro ⟨a, b, c, e, rest, rfl, rfl, hv, hl, rfl⟩
    simp only [decodeCD, hv]
    rw [if_neg (by simp), if_neg (by omega)]

/-- a buffer shorter than the 4-byte header never decodes (and never panics: `decodeCD` is total). -/
theorem cd_decode_short (buf : Bytes) (h : buf.length < 4) : decodeCD buf = .error .eof := by
  match buf, h with
  | [], _ | [_], _ | [_,_], _ | [_,_,_], _ => rfl
  | _ :: _ :: _ :: _ :: _, h => simp at h; omega

/-- `IsChannelData` agrees with `Decode` on every buffer. -/
theorem ischanneldata_agrees (buf : Bytes) : isChannelData buf = (decodeCD buf).isOk := by
  match buf with
  | [] | [_] | [_,_] | [_,_,_] => rfl
  | a :: b :: c :: e :: rest =>
    simp only [isChannelData, decodeCD]
    by_cases hv : chanValid (be16 a b) = true <;> by_cases hl : be16 c e > rest.length <;>
      simp [hv, hl, Except.isOk, Except.toBool]

/-! ### attributes: get ∘ add = id on the whole value domain, every wrong size is an error -/

theorem lifetime_get_add (secs : Nat) (h : secs < 4294967296) :
    lifetimeGet (some (lifetimeAdd secs)) = .ok secs := by
  obtain ⟨a, b, c, d, he, hb⟩ := be32_enc32 secs h
  simp [lifetimeAdd, he, lifetimeGet, hb]

theorem lifetime_wrong_size (v : Bytes) (h : v.length ≠ 4) : lifetimeGet (some v) = .error .badSize := by
  match v, h with
  | [], _ | [_], _ | [_,_], _ | [_,_,_], _ | _::_::_::_::_::_, _ => rfl
  | [_,_,_,_], h => simp at h

theorem connid_get_add (n : Nat) (h : n < 4294967296) : connIdGet (some (connIdAdd n)) = .ok n := by
  obtain ⟨a, b, c, d, he, hb⟩ := be32_enc32 n h
  simp [connIdAdd, he, connIdGet, hb]

theorem connid_wrong_size (v : Bytes) (h : v.length ≠ 4) : connIdGet (some v) = .error .badSize := by
  match v, h with
  | [], _ | [_], _ | [_,_], _ | [_,_,_], _ | _::_::_::_::_::_, _ => rfl
  | [_,_,_,_], h => simp at h

theorem channum_get_add (n : Nat) (h : n < 65536) : chanNumGet (some (chanNumAdd n)) = .ok n := by
  simp [chanNumAdd, chanNumGet, Nat.mod_eq_of_lt h, be16_hi_lo _ h]

theorem channum_wrong_size (v : Bytes) (h : v.length ≠ 4) : chanNumGet (some v) = .error .badSize := by
  match v, h with
  | [], _ | [_], _ | [_,_], _ | [_,_,_], _ | _::_::_::_::_::_, _ => rfl
  | [_,_,_,_], h => simp at h

theorem reqtrans_get_add (p : UInt8) : reqTransGet (some (reqTransAdd p)) = .ok p := rfl

theorem reqtrans_wrong_size (v : Bytes) (h : v.length ≠ 4) : reqTransGet (some v) = .error .badSize := by
  match v, h with
  | [], _ | [_], _ | [_,_], _ | [_,_,_], _ | _::_::_::_::_::_, _ => rfl
  | [_,_,_,_], h => simp at h

/-- REQUESTED-ADDRESS-FAMILY: the two legal values round-trip, every other byte is an error. -/
theorem reqfam_get_add (f : UInt8) :
    reqFamGet (some (reqFamAdd f)) = if f = 1 ∨ f = 2 then .ok f else .error .badValue := rfl

theorem reqfam_wrong_size (v : Bytes) (h : v.length ≠ 4) : reqFamGet (some v) = .error .badSize := by
  match v, h with
  | [], _ | [_], _ | [_,_], _ | [_,_,_], _ | _::_::_::_::_::_, _ => rfl
  | [_,_,_,_], h => simp at h

theorem evenport_get_add (r : Bool) : evenPortGet (some (evenPortAdd r)) = .ok r := by
  cases r <;> decide

set_option maxRecDepth 100000 in
/-- only the R bit decides: a value byte with the R bit clear reads as "do not reserve" whatever its reserved bits,
    one with it set as "reserve"; and the mask in the source is that bit -/
theorem evenport_reads_r_bit : ∀ n : Fin 256, evenPortGet (some [UInt8.ofNat n.val]) = .ok (decide (128 ≤ n.val)) := by
  decide +kernel

theorem evenport_mask_regenerated : Gen.Consts.proto_firstBitSet = 128 := by decide

theorem evenport_wrong_size (v : Bytes) (h : v.length ≠ 1) : evenPortGet (some v) = .error .badSize := by
  match v, h with
  | [], _ | _::_::_, _ => rfl
  | [_], h => simp at h

theorem rsrvtoken_get_add (t : Bytes) (h : t.length = 8) :
    rsrvTokenAdd t = .ok t ∧ rsrvTokenGet (some t) = .ok t := by
  simp [rsrvTokenAdd, rsrvTokenGet, h]

theorem rsrvtoken_wrong_size (v : Bytes) (h : v.length ≠ 8) :
    rsrvTokenGet (some v) = .error .badSize ∧ rsrvTokenAdd v = .error .badSize := by
  simp [rsrvTokenAdd, rsrvTokenGet, h]

theorem dontfrag_get_add : dontFragGet (some dontFragAdd) = .ok () ∧ dontFragIsSet (some dontFragAdd) = true :=
  ⟨rfl, rfl⟩

theorem dontfrag_wrong_size (v : Bytes) (h : v.length ≠ 0) : dontFragGet (some v) = .error .badSize := by
  match v, h with
  | _::_, _ => rfl
  | [], h => simp at h

theorem data_get_add (d : Bytes) : dataGet (some (dataAdd d)) = .ok d := rfl

/-- an absent attribute is "not found" for every codec -/
theorem absent_is_error :
    lifetimeGet none = .error .notFound ∧ connIdGet none = .error .notFound ∧
    chanNumGet none = .error .notFound ∧ reqTransGet none = .error .notFound ∧
    reqFamGet none = .error .notFound ∧ evenPortGet none = .error .notFound ∧
    rsrvTokenGet none = .error .notFound ∧ dontFragGet none = .error .notFound ∧
    dataGet none = .error .notFound ∧ (∀ tid, xorAddrGet tid none = .error .notFound) :=
  ⟨rfl, rfl, rfl, rfl, rfl, rfl, rfl, rfl, rfl, fun _ => rfl⟩

/-! XOR addresses (XOR-PEER-ADDRESS, XOR-RELAYED-ADDRESS, XOR-MAPPED-ADDRESS) -/

theorem port_xor_roundtrip (port : Nat) (h : port < 65536) :
    let xp := (port ^^^ 0x2112) % 65536
    be16 (hi8 xp) (lo8 xp) ^^^ 0x2112 = port := by
  intro xp
  have hx : port ^^^ 0x2112 < 65536 := Nat.xor_lt_two_pow (n := 16) h (by decide)
  have : xp = port ^^^ 0x2112 := Nat.mod_eq_of_lt hx
  rw [this, be16_hi_lo _ hx, Nat.xor_assoc, Nat.xor_self, Nat.xor_zero]

/-- every IPv4 address (4-byte form), port and transaction id round-trips -/
theorem xoraddr_get_add_v4 (tid ip : Bytes) (port : Nat) (ht : tid.length = 12) (hip : ip.length = 4)
    (hp : port < 65536) :
    ∃ v, xorAddrAdd tid ip port = .ok v ∧ xorAddrGet tid (some v) = .ok (ip, port) := by
  have hk : ip.length ≤ (xorKey tid).length := by simp [xorKey, cookie, ht, hip]
  have hxl := xorBytes_length ip (xorKey tid) hk
  match hx : xorBytes ip (xorKey tid), hxl with
  | [x0, x1, x2, x3], _ =>
    refine ⟨_, by simp [xorAddrAdd, canonIP, hip, hx]; rfl, ?_⟩
    have hfam : be16 (hi8 1) (lo8 1) = 1 := by decide
    have hc := xorBytes_cancel ip (xorKey tid) hk
    rw [hx] at hc
    simp only [xorAddrGet, hfam, port_xor_roundtrip port hp]
    simp [hc, padRight, hip]
  | [], h | [_], h | [_,_], h | [_,_,_], h | _::_::_::_::_::_, h => simp [hip] at h

/-- every IPv6 address that is not IPv4-mapped round-trips -/
theorem xoraddr_get_add_v6 (tid ip : Bytes) (port : Nat) (ht : tid.length = 12) (hip : ip.length = 16)
    (hm : isV4Mapped ip = false) (hp : port < 65536) :
    ∃ v, xorAddrAdd tid ip port = .ok v ∧ xorAddrGet tid (some v) = .ok (ip, port) := by
  have hk : ip.length ≤ (xorKey tid).length := by simp [xorKey, cookie, ht, hip]
  have hxl := xorBytes_length ip (xorKey tid) hk
  have hc := xorBytes_cancel ip (xorKey tid) hk
  match hx : xorBytes ip (xorKey tid), hxl with
  | x0 :: xs, hl =>
    refine ⟨_, by simp [xorAddrAdd, canonIP, hip, hm, hx]; rfl, ?_⟩
    have hfam : be16 (hi8 2) (lo8 2) = 2 := by decide
    rw [hx] at hc
    simp only [xorAddrGet, hfam, port_xor_roundtrip port hp]
    rw [hip] at hl
    simp [hc, padRight, hip, hl]
  | [], h => simp [hip] at h

/-- an IPv4-mapped 16-byte address is sent, and comes back, as its 4-byte form (as `To4()`): -/
theorem xoraddr_get_add_mapped (tid ip : Bytes) (port : Nat) (ht : tid.length = 12) (hip : ip.length = 16)
    (hm : isV4Mapped ip = true) (hp : port < 65536) :
    ∃ v, xorAddrAdd tid ip port = .ok v ∧ xorAddrGet tid (some v) = .ok (ip.drop 12, port) := by
  have h4 : (ip.drop 12).length = 4 := by simp [hip]
  obtain ⟨v, h1, h2⟩ := xoraddr_get_add_v4 tid (ip.drop 12) port ht h4 hp
  refine ⟨v, ?_, h2⟩
  simpa [xorAddrAdd, canonIP, hip, hm, h4] using h1

/-- wrong-sized raw values are rejected — PARTIAL: proved for value lengths ≤ 4 and > 4 + address
    length.  For the lengths in between the decoder in `pion/stun` zero-fills (finding F12, a
    dependency of pion/turn): see `xoraddr_short_value_accepted_witness`. -/
theorem xoraddr_wrong_size_rejected_partial (tid v : Bytes) :
    (v.length ≤ 4 → ∃ e, xorAddrGet tid (some v) = .error e) ∧
    (∀ f0 f1 p0 p1 rest, v = f0 :: f1 :: p0 :: p1 :: rest →
        rest.length > (if be16 f0 f1 = 2 then 16 else 4) → ∃ e, xorAddrGet tid (some v) = .error e) := by
  constructor
  · intro h
    match v, h with
    | [], _ | [_], _ | [_,_], _ | [_,_,_], _ | [_,_,_,_], _ => exact ⟨_, rfl⟩
    | _::_::_::_::_::_, h => simp at h
  · rintro f0 f1 p0 p1 rest rfl hl
    match rest, hl with
    | [], hl => simp at hl
    | r0 :: rest, hl =>
      simp only [xorAddrGet]
      split
      · exact ⟨_, rfl⟩
      · exact ⟨_, rfl⟩

/-- F12 (known finding): a 5-byte value with family 1 decodes, the missing bytes read as zero. -/
theorem xoraddr_short_value_accepted_witness :
    xorAddrGet (List.replicate 12 0) (some [0, 1, 0x21, 0x12, 0x21]) = .ok ([0, 0, 0, 0], 0) := by
  decide

/-- a bad family value is always an error -/
theorem xoraddr_bad_family (tid : Bytes) (f0 f1 p0 p1 r0 : UInt8) (rest : Bytes)
    (h : be16 f0 f1 ≠ 1 ∧ be16 f0 f1 ≠ 2) :
    xorAddrGet tid (some (f0 :: f1 :: p0 :: p1 :: r0 :: rest)) = .error .badFamily := by
  simp only [xorAddrGet]; rw [if_pos h]

/-! non-vacuity: the hypotheses are met by concrete non-trivial values -/
example : chanValid 0x4001 = true ∧ ([1, 2, 3, 4, 5] : Bytes).length < 65536 := by decide
example : decodeCD (encodeCD 0x7FFF [9, 8, 7]) = .ok (0x7FFF, [9, 8, 7]) := by decide
example : encodeCD 0x4000 [1] = [0x40, 0, 0, 1, 1, 0, 0, 0] := by decide
example : isV4Mapped ([0,0,0,0,0,0,0,0,0,0,0xff,0xff,10,0,0,1] : Bytes) = true := by decide

/-! ### STUN / ChannelData demultiplexing -/

theorem chanValid_iff (n : Nat) : chanValid n = true ↔ 0x4000 ≤ n ∧ n ≤ 0x7FFF := by
  unfold chanValid
  constructor
  · intro h
    rw [Bool.and_eq_true] at h
    exact ⟨of_decide_eq_true h.1, of_decide_eq_true h.2⟩
  · intro h
    rw [Bool.and_eq_true]
    exact ⟨decide_eq_true h.1, decide_eq_true h.2⟩

/-- demultiplexing: a 16-bit prefix is a valid channel number exactly when the first byte's two top
    bits are `01` (RFC 5766 §11: 0x4000–0x7FFF) — so the classification never depends on the second byte -/
theorem chanValid_iff_first_byte (b0 b1 : UInt8) :
    chanValid (be16 b0 b1) = true ↔ 64 ≤ b0.toNat ∧ b0.toNat < 128 := by
  have h0 := b0.toNat_lt; have h1 := b1.toNat_lt
  rw [chanValid_iff]; unfold be16
  omega

/-- a STUN message (first two bits `00`) is never taken for ChannelData, whatever follows -/
theorem stun_never_channeldata (b0 b1 b2 b3 : UInt8) (rest : Bytes) (h : b0.toNat < 64) :
    isChannelData (b0 :: b1 :: b2 :: b3 :: rest) = false ∧
    decodeCD (b0 :: b1 :: b2 :: b3 :: rest) = .error .badNumber := by
  have hv : chanValid (be16 b0 b1) = false := by
    cases hc : chanValid (be16 b0 b1) with
    | false => rfl
    | true => have := (chanValid_iff_first_byte b0 b1).1 hc; omega
  constructor
  · simp only [isChannelData, hv]; split <;> rfl
  · simp [decodeCD, hv]

/-- and what the encoder emits for a valid number always starts with the bits `01` -/
theorem encodeCD_first_byte (num : Nat) (d : Bytes) (hn : chanValid num = true) :
    ∃ b0 rest, encodeCD num d = b0 :: rest ∧ 64 ≤ b0.toNat ∧ b0.toNat < 128 := by
  refine ⟨hi8 num, _, rfl, ?_⟩
  rw [chanValid_iff] at hn
  simp only [hi8, UInt8.toNat_ofNat']
  omega

example : chanValid (be16 0x40 0) = true ∧ chanValid (be16 0x7F 0xFF) = true ∧ chanValid (be16 0x80 0) = false ∧
    chanValid (be16 0x3F 0xFF) = false := by decide

end Turn.C11
