/-
C07 — permissions and channel bindings live one full timeout past their last refresh.
-/
import TurnModel.Lemmas.ServerInv
import TurnModel.Lemmas.ServerHandlers
import TurnModel.Gen.Consts
namespace Turn.C07
open Turn.Srv

/-- every stored permission / binding expires in the future and at most one full timeout from now -/
def Bounded (c : Cfg) (now : Nat) (a : Alloc) : Prop :=
  (∀ p ∈ a.perms, now < p.expiry ∧ p.expiry ≤ now + c.permT) ∧
  (∀ ch ∈ a.chans, now < ch.expiry ∧ ch.expiry ≤ now + c.chanT)

theorem bounded_point {c : Cfg} (hc : CfgOK c) : PointInv c (Bounded c) where
  fresh := by intro s k a hf; exact ⟨by simp [hf.perms], by simp [hf.chans]⟩
  change := by
    intro now a b ⟨h1, h2⟩ hch
    cases hch with
    | refresh e h => exact ⟨h1, h2⟩
    | perm ip hg hf =>
      refine ⟨?_, h2⟩
      intro p hp
      rcases mem_addPerm hp with rfl | ⟨hp, _⟩
      · exact ⟨Nat.lt_add_of_pos_right hc.perm, Nat.le_refl _⟩
      · exact h1 p hp
    | chan n p hv hf hg hcf =>
      refine ⟨?_, ?_⟩
      · intro q hq
        rcases mem_addChan_perms hq with rfl | ⟨hq, _⟩
        · exact ⟨Nat.lt_add_of_pos_right hc.perm, Nat.le_refl _⟩
        · exact h1 q hq
      · intro ch hch
        rcases mem_addChan_chans hch with rfl | ⟨hch, _⟩
        · exact ⟨Nat.lt_add_of_pos_right hc.chan, Nat.le_refl _⟩
        · exact h2 ch hch
    | connOut => exact ⟨h1, h2⟩
    | connIn => exact ⟨h1, h2⟩
    | bound => exact ⟨h1, h2⟩
    | drop => exact ⟨h1, h2⟩
    | pend => exact ⟨h1, h2⟩
  purge := by
    intro now dt a ⟨h1, h2⟩ _
    refine ⟨?_, ?_⟩
    · intro p hp
      simp only [purgeAlloc, List.mem_filter] at hp
      have := h1 p hp.1
      exact ⟨by simpa using hp.2, by omega⟩
    · intro ch hch
      simp only [purgeAlloc, List.mem_filter] at hch
      have := h2 ch hch.1
      exact ⟨by simpa using hch.2, by omega⟩

/-- in every reachable state every permission and binding is unexpired and never holds more than one
    full timeout -/
theorem entries_bounded {c : Cfg} (hc : CfgOK c) {s : State} (hr : Reach c s) : ∀ a ∈ s.allocs, Bounded c s.now a :=
  reach_inv (bounded_point hc) hr

theorem addPerm_has (now t : Nat) (ip : IP) (a : Alloc) : (⟨ip, now + t⟩ : Perm) ∈ (addPerm now t ip a).perms := by
  simp [addPerm]

/-- after the CreatePermission loop has accepted every peer, each named IP has a permission expiring
    exactly one permission timeout from now (installed or refreshed alike) -/
theorem permLoop_installs (c : Cfg) (now : Nat) (k : Key) : ∀ (peers : List (Option Addr)) (a : Alloc),
    (permLoop c now k peers a).2 = none →
    (∀ p, some p ∈ peers → (⟨p.ip, now + c.permT⟩ : Perm) ∈ (permLoop c now k peers a).1.perms) ∧
    (∀ q ∈ a.perms, ∃ q' ∈ (permLoop c now k peers a).1.perms, q'.ip = q.ip ∧
        (q' = q ∨ q'.expiry = now + c.permT)) := by
  intro peers
  induction peers with
  | nil => intro a _; exact ⟨by simp, fun q hq => ⟨q, hq, rfl, Or.inl rfl⟩⟩
  | cons x xs ih =>
    intro a h
    cases x with
    | none => simp [permLoop] at h
    | some p =>
      simp only [permLoop] at h ⊢
      split at h; · simp at h
      split at h; · simp at h
      rename_i hf hg
      simp only [hf, hg, if_false]
      obtain ⟨ih1, ih2⟩ := ih (addPerm now c.permT p.ip a) h
      constructor
      · intro p' hp'
        simp only [List.mem_cons, Option.some.injEq] at hp'
        rcases hp' with rfl | hp'
        · obtain ⟨q', hq', hip, hq⟩ := ih2 _ (addPerm_has now c.permT p'.ip a)
          rcases hq with rfl | hq
          · exact hq'
          · have : q' = ⟨p'.ip, now + c.permT⟩ := by cases q'; simp_all
            rw [← this]; exact hq'
        · exact ih1 p' hp'
      · intro q hq
        by_cases hqi : q.ip = p.ip
        · obtain ⟨q', hq', hip, hq2⟩ := ih2 _ (addPerm_has now c.permT p.ip a)
          refine ⟨q', hq', by rw [hip, hqi], Or.inr ?_⟩
          rcases hq2 with rfl | hq2
          · rfl
          · exact hq2
        · have : q ∈ (addPerm now c.permT p.ip a).perms := by
            simp only [addPerm, List.mem_cons, List.mem_filter]
            exact Or.inr ⟨hq, by simpa using hqi⟩
          exact ih2 q this

theorem msg_ne_cb1 {tid cr peers} : ∀ t c' cid, Msg.createPerm tid cr peers ≠ .connBind t c' cid := by intro _ _ _ h; cases h
theorem msg_ne_cb2 {tid cr num peer} : ∀ t c' cid, Msg.chanBind tid cr num peer ≠ .connBind t c' cid := by intro _ _ _ h; cases h

theorem find_set_self (s : State) (k : Key) (a : Alloc) :
    (applyUpd s k (.set a)).1.allocs.find? (fun b => b.key == k) = some { a with key := k } := by
  simp [applyUpd, setAlloc]

/-- **CreatePermission restarts the full timeout**: after a success response, every IP named in the
    request has a permission that expires exactly `permT` from now -/
theorem create_permission_installs (c : Cfg) (s : State) (k : Key) (sz tid : Nat) (cr : Cred) (peers : List (Option Addr))
    (k' : Key) (me : String) (code tid' : Nat) (ra : RA)
    (h : Out.resp k' me true code tid' ra ∈ (step c s (.msg k sz (.createPerm tid cr peers))).2) :
    ∃ a', findAlloc (step c s (.msg k sz (.createPerm tid cr peers))).1 k = some a' ∧
      ∀ p, some p ∈ peers → (⟨p.ip, s.now + c.permT⟩ : Perm) ∈ a'.perms := by
  obtain ⟨hacc, ho⟩ := step_msg_outs c s k sz _ _ msg_ne_cb1 h
  rcases ho with ho | ho
  · simp only [handle] at ho
    obtain ⟨u, a, _, hown, hl, _, _, _, _, hupd, _⟩ := hCreatePerm_success_inv ho
    rw [step_msg_accepted c s k sz _ hacc msg_ne_cb1]
    simp only [handle, hupd, findAlloc]
    refine ⟨_, find_set_self s k _, ?_⟩
    exact (permLoop_installs c s.now k peers a hl).1
  · exact absurd ho (applyUpd_outs_not_resp _ _ _ _ _ _ _ _ _)

theorem hCreatePerm_keep_or_ok (c : Cfg) (s : State) (k : Key) (tid : Nat) (cr : Cred) (peers : List (Option Addr)) :
    (hCreatePerm c s k tid cr peers).upd = .keep ∨
    okResp k "CreatePermission" tid ∈ (hCreatePerm c s k tid cr peers).outs := by
  unfold hCreatePerm
  split
  · split
    · exact Or.inl rfl
    · split
      · exact Or.inl rfl
      · split
        · exact Or.inl rfl
        · exact Or.inr (by simp)
  · exact Or.inl rfl

/-- **a CreatePermission that is not answered with success installs and refreshes nothing** (finding F22: the
    pinned code installed the peers that preceded the refused one): unless the step emits a success response,
    the allocation table is exactly what it was -/
theorem create_permission_error_changes_nothing (c : Cfg) (s : State) (k : Key) (sz tid : Nat) (cr : Cred) (peers : List (Option Addr))
    (h : ∀ k' me code tid' ra, Out.resp k' me true code tid' ra ∉ (step c s (.msg k sz (.createPerm tid cr peers))).2) :
    (step c s (.msg k sz (.createPerm tid cr peers))).1.allocs = s.allocs := by
  simp only [step] at h ⊢
  split; · rfl
  split; · rfl
  rename_i h1 h2
  rw [if_neg h1, if_neg h2] at h
  rcases hCreatePerm_keep_or_ok c s k tid cr peers with hk | hok
  · simp only [handle, hk, applyUpd]
  · exfalso
    exact h k "CreatePermission" 0 tid {} (by simp only [handle, List.mem_append]; exact Or.inl hok)

/-- **ChannelBind restarts both timeouts**: after a success response for (n, p) the binding expires
    exactly `chanT` from now and the permission for p's IP exactly `permT` (the *permission* timeout)
    from now -/
theorem channel_bind_installs (c : Cfg) (s : State) (k : Key) (sz tid : Nat) (cr : Cred) (num : Attr Nat) (peer : Attr Addr)
    (k' : Key) (me : String) (code tid' : Nat) (ra : RA)
    (h : Out.resp k' me true code tid' ra ∈ (step c s (.msg k sz (.chanBind tid cr num peer))).2) :
    ∃ a' n p, num = .val n ∧ peer = .val p ∧
      findAlloc (step c s (.msg k sz (.chanBind tid cr num peer))).1 k = some a' ∧
      (⟨n, p, s.now + c.chanT⟩ : Chan) ∈ a'.chans ∧ (⟨p.ip, s.now + c.permT⟩ : Perm) ∈ a'.perms := by
  obtain ⟨hacc, ho⟩ := step_msg_outs c s k sz _ _ msg_ne_cb2 h
  rcases ho with ho | ho
  · simp only [handle] at ho
    obtain ⟨u, a, n, p, _, hown, hb, _, _, _, hupd, _⟩ := hChanBind_success_inv ho
    have hnp : num = .val n ∧ peer = .val p := by
      cases num <;> cases peer <;> simp [bindChecks] at hb
      all_goals (repeat' split at hb) <;> simp_all
    rw [step_msg_accepted c s k sz _ hacc msg_ne_cb2]
    simp only [handle, hupd, findAlloc]
    refine ⟨_, n, p, hnp.1, hnp.2, find_set_self s k _, ?_, ?_⟩
    · simp [addChan, addPerm]
    · simp [addChan, addPerm]
  · exact absurd ho (applyUpd_outs_not_resp _ _ _ _ _ _ _ _ _)

/-- **nothing shortens an entry**: no request and no relay-side event removes a permission or binding or
    moves its expiry earlier (only time does, see `expires_exactly`) -/
theorem change_monotone {c : Cfg} {now : Nat} {a b : Alloc} (hb : Bounded c now a) (hbij : ChanBij 0 a)
    (h : Change c now a b) :
    (∀ p ∈ a.perms, ∃ p' ∈ b.perms, p'.ip = p.ip ∧ p.expiry ≤ p'.expiry) ∧
    (∀ ch ∈ a.chans, (∃ ch' ∈ b.chans, ch'.num = ch.num ∧ ch'.peer = ch.peer ∧ ch.expiry ≤ ch'.expiry)) := by
  have keepP : ∀ p ∈ a.perms, ∃ p' ∈ a.perms, p'.ip = p.ip ∧ p.expiry ≤ p'.expiry := fun p hp => ⟨p, hp, rfl, Nat.le_refl _⟩
  have keepC : ∀ ch ∈ a.chans, ∃ ch' ∈ a.chans, ch'.num = ch.num ∧ ch'.peer = ch.peer ∧ ch.expiry ≤ ch'.expiry :=
    fun ch hch => ⟨ch, hch, rfl, rfl, Nat.le_refl _⟩
  have permCase : ∀ ip, ∀ p ∈ a.perms, ∃ p' ∈ (addPerm now c.permT ip a).perms, p'.ip = p.ip ∧ p.expiry ≤ p'.expiry := by
    intro ip p hp
    by_cases hpi : p.ip = ip
    · exact ⟨⟨ip, now + c.permT⟩, addPerm_has _ _ _ _, hpi.symm, (hb.1 p hp).2⟩
    · refine ⟨p, ?_, rfl, Nat.le_refl _⟩
      simp only [addPerm, List.mem_cons, List.mem_filter]
      exact Or.inr ⟨hp, by simpa using hpi⟩
  cases h with
  | refresh e h => exact ⟨keepP, keepC⟩
  | perm ip hg hf => exact ⟨permCase ip, keepC⟩
  | chan n p hv hf hg hcf =>
    refine ⟨?_, ?_⟩
    · intro q hq
      obtain ⟨q', hq', h1, h2⟩ := permCase p.ip q hq
      exact ⟨q', by simpa [addChan, addPerm] using hq', h1, h2⟩
    · intro ch hch
      by_cases hn : ch.num = n
      · have hsame : ch.peer = p := (no_conflict_same hbij hcf hch).1 hn
        exact ⟨⟨n, p, now + c.chanT⟩, by simp [addChan, addPerm], hn.symm, hsame.symm, (hb.2 ch hch).2⟩
      · refine ⟨ch, ?_, rfl, rfl, Nat.le_refl _⟩
        simp only [addChan, addPerm, List.mem_cons, List.mem_filter]
        exact Or.inr ⟨hch, by simpa using hn⟩
  | connOut => exact ⟨keepP, keepC⟩
  | connIn => exact ⟨keepP, keepC⟩
  | bound => exact ⟨keepP, keepC⟩
  | drop => exact ⟨keepP, keepC⟩
  | pend => exact ⟨keepP, keepC⟩

/-- **expiry is exact**: when time advances, a permission / binding of a surviving allocation is kept
    iff the new time is still before its expiry — it authorises relaying until then (C01/C02 gate on
    membership) and never afterwards -/
theorem expires_exactly (now : Nat) (a : Alloc) :
    (∀ p, p ∈ (purgeAlloc now a).1.perms ↔ p ∈ a.perms ∧ now < p.expiry) ∧
    (∀ ch, ch ∈ (purgeAlloc now a).1.chans ↔ ch ∈ a.chans ∧ now < ch.expiry) := by
  constructor <;> intro x <;> simp [purgeAlloc]

/-- once a binding has expired, its number and its peer are free again: a ChannelBind of that number
    to another peer, or of that peer to another number, is no longer a conflict -/
theorem rebind_after_expiry (a : Alloc) (n : Nat) (p : Addr) (h1 : ∀ ch ∈ a.chans, ch.num ≠ n) (h2 : ∀ ch ∈ a.chans, ch.peer ≠ p) :
    bindConflict a n p = false := by
  have e1 : chanByNum a n = none := by
    unfold chanByNum; rw [List.find?_eq_none]; intro x hx; simpa using h1 x hx
  have e2 : chanByAddr a p = none := by
    unfold chanByAddr; rw [List.find?_eq_none]; intro x hx; simpa using h2 x hx
  simp [bindConflict, e1, e2]

/-! non-vacuity: ChannelBind at 4 min refreshes the permission with the PERMISSION timeout: the
    permission lapses at 9 min, the binding keeps relaying until 14 min -/
def cfg0 : Cfg :=
  { permT := 300 * sec, chanT := 600 * sec, lifeT := 3600 * sec, maxLife := 3600 * sec, rtpMTU := 1600
    inMTU := 1600, bindT := 30 * sec, resvT := 30 * sec, strict := false, hasAuth := true, hasQuota := false
    relay4 := ⟨false, 1⟩, relay6 := ⟨true, 1⟩, lis := [⟨false, 1, false, [], []⟩] }
def okCred : Cred := ⟨true, true, true, true, true, true, true, "alice"⟩
def k0 : Key := ⟨0, ⟨⟨false, 7⟩, 4000⟩⟩
def peer0 : Addr := ⟨⟨false, 9⟩, 9000⟩
def hist0 : List Op := [
  .msg k0 100 (.allocate 1 okCred .absent (.val 17) false .absent .absent .absent ⟨some 50001, true, none, ""⟩),
  .adv (240 * sec),
  .msg k0 100 (.chanBind 2 okCred (.val 0x4000) (.val peer0))]
example : CfgOK cfg0 := ⟨by decide, by decide⟩
set_option maxRecDepth 8000 in
example : ((run cfg0 init (hist0 ++ [.adv (300 * sec - 1)])).1.allocs.map (fun a => (a.perms.length, a.chans.length))) = [(1, 1)] := by decide
set_option maxRecDepth 8000 in
example : ((run cfg0 init (hist0 ++ [.adv (300 * sec)])).1.allocs.map (fun a => (a.perms.length, a.chans.length))) = [(0, 1)] := by decide
set_option maxRecDepth 8000 in
example : ((run cfg0 init (hist0 ++ [.adv (600 * sec)])).1.allocs.map (fun a => (a.perms.length, a.chans.length))) = [(0, 0)] := by decide


/-- regenerated: the timeouts NewServer applies when the configuration leaves them at zero are the
    documented 5 minutes (permission) and 10 minutes (channel binding) -/
theorem defaults_as_documented :
    Gen.Consts.default_permissionTimeout = 300 * 1000000000 ∧ Gen.Consts.default_channelBindTimeout = 600 * 1000000000 ∧
    Gen.Consts.allocation_DefaultPermissionTimeout = 300 * 1000000000 := by decide

end Turn.C07
