/-
C06 — "an allocation exists … until exactly the LIFETIME reported in the most recent Allocate or Refresh success response has
elapsed": a Refresh and the lifetime's expiry race for the same allocation.  `Props/C06.lean` proves on the server model (atomic
steps) that a Refresh at or after the expiry instant finds no allocation.  In the code the lifetime timer fires in the runtime,
its callback removes the allocation later (it needs the manager's lock), and the Refresh handler re-arms the timer in between.
This file proves over ALL interleavings that a Refresh success is never followed by the deletion it raced with — provided the
handler believes `Timer.Reset`'s verdict — and ties that proviso to today's source (`Gen.Facts.refresh_reports_expiry`).
-/
import TurnModel.Gen.Facts
namespace Turn.C06Timer

inductive Act
  | fire      -- the runtime fires the lifetime timer: armed → fired (the callback is started)
  | delete    -- the callback, once it has the manager's lock: remove the allocation (by object)
  | lookup    -- Refresh handler: GetAllocationForUserID under the read lock
  | reset     -- Refresh handler: lifetimeTimer.Reset; answer according to `checked`
deriving DecidableEq, Repr

structure St where
  armed : Bool := true        -- the lifetime timer is pending
  present : Bool := true      -- the allocation is in the manager's map
  found : Bool := false       -- the handler's lookup found it
  success : Bool := false     -- a Refresh success response went out
  renewed : Bool := false     -- the timer fired AFTER a successful Reset: that is the new lifetime running out, as promised
deriving DecidableEq, Repr

def act (checked : Bool) (s : St) : Act → St
  | .fire => { s with armed := false, renewed := s.success }
  | .delete => if s.armed then s else { s with present := false }
  | .lookup => { s with found := s.present }
  | .reset =>
    if !s.found then s
    else if s.armed then { s with success := true }            -- Reset returned true: the old expiry is cancelled
    else if checked then s                                       -- Reset returned false: treated as "no allocation"
    else { s with success := true }                              -- historical: the verdict was only logged

/-- a Refresh success was sent for an allocation that the expiry it raced with has removed, or was about to remove -/
def broken (s : St) : Bool := s.success && !s.present && !s.renewed

def expiry : List (List Act) := [[.fire], [.delete]]
def refresh : List (List Act) := [[.lookup], [.reset]]

def interleavingsF : Nat → List (List Act) → List (List Act) → List (List Act)
  | 0, as, bs => [as.flatten ++ bs.flatten]
  | _ + 1, [], bs => [bs.flatten]
  | _ + 1, as, [] => [as.flatten]
  | n + 1, a :: as, b :: bs =>
    (interleavingsF n as (b :: bs)).map (a ++ ·) ++ (interleavingsF n (a :: as) bs).map (b ++ ·)

def interleavings (as bs : List (List Act)) : List (List Act) := interleavingsF (as.length + bs.length) as bs

def run (checked : Bool) (il : List Act) : St := il.foldl (act checked) {}

/-- one-step form, any state: the repaired handler sends success only while the timer is still pending -/
theorem reset_success_only_if_armed (s : St) (h : s.success = false) (h2 : (act true s .reset).success = true) : s.armed = true := by
  obtain ⟨armed, present, found, success, renewed⟩ := s
  cases armed <;> cases found <;> simp_all [act]

/-- invariant of the repaired handler -/
def inv (s : St) : Bool := (s.success → (s.armed || s.renewed)) && (!s.present → !s.armed)

theorem inv_step (s : St) (a : Act) (h : inv s = true) : inv (act true s a) = true := by
  obtain ⟨armed, present, found, success, renewed⟩ := s
  cases a <;> cases armed <;> cases present <;> cases found <;> cases success <;> cases renewed <;> simp_all [inv, act]

/-- **unbounded form**: after ANY sequence of timer firings, deletions, lookups and Resets (any number of Refresh requests, in any
    order and overlap) no success response refers to an allocation that the expiry it raced with removes -/
theorem never_broken_any_schedule (il : List Act) : broken (il.foldl (act true) {}) = false := by
  have hinv : ∀ (il : List Act) (s : St), inv s = true → inv (il.foldl (act true) s) = true := by
    intro il
    induction il with
    | nil => intro s h; simpa using h
    | cons a il ih => intro s h; exact ih _ (inv_step s a h)
  have h := hinv il {} (by decide)
  generalize il.foldl (act true) {} = s at h
  obtain ⟨armed, present, found, success, renewed⟩ := s
  cases armed <;> cases present <;> cases success <;> cases renewed <;> simp_all [inv, broken]

/-- with the verdict believed, no interleaving of one expiry with one Refresh answers success and then deletes -/
theorem refresh_vs_expiry_model : (interleavings expiry refresh).all (fun il => !broken (run true il)) = true := by decide

/-- exactly one wins: success and the allocation stays, or no success and it goes -/
theorem refresh_xor_expiry : (interleavings expiry refresh).all
    (fun il => (run true il).success == (run true il).present || (run true il).renewed) = true := by decide

/-- the historical handler (verdict logged, success sent) does break the promise: finding F44 -/
theorem ignored_verdict_breaks : (interleavings expiry refresh).any (fun il => broken (run false il)) = true := by decide

/-- regenerated obligation: today's `Allocation.Refresh` returns `Timer.Reset`'s verdict and `handleRefreshRequest` answers
    success only when it is "still pending" -/
theorem refresh_checked : Gen.Facts.refresh_reports_expiry = true := by decide

theorem refresh_vs_expiry :
    (interleavings expiry refresh).all (fun il => !broken (run Gen.Facts.refresh_reports_expiry il)) = true := by
  rw [refresh_checked]; exact refresh_vs_expiry_model

/-! non-vacuity: both outcomes occur -/
example : (interleavings expiry refresh).any (fun il => (run true il).success) = true := by decide
example : (interleavings expiry refresh).any (fun il => !(run true il).present) = true := by decide

end Turn.C06Timer
