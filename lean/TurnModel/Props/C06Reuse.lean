/-
C06 — "…and a new Allocate on that 5-tuple succeeds only after [the old allocation has gone]", read together with C19's "a relayed
address … which no other live allocation has": the goroutines an allocation leaves behind (its lifetime timer, its relay socket
readers) may still run after it was deleted, when the 5-tuple already belongs to a NEWER allocation.  `Props/C06.lean` proves
the lifetime law on the server model, where a deleted allocation has no goroutines.  This file proves, over all interleavings and
over any sequence of events, that a left-over goroutine of the old allocation never removes the new one — provided it deletes
BY OBJECT ("only if the registered allocation is still me") — and ties the proviso to today's source
(`Gen.Facts.ownGoroutines_delete_by_object`).  Historical shape (delete by 5-tuple): finding F29.
-/
import TurnModel.Gen.Facts
namespace Turn.C06Reuse

inductive Obj | A | B
deriving DecidableEq, Repr

inductive Act
  | userDelete     -- Refresh(0) / DeleteAllocation(5-tuple) on behalf of the client: removes whatever is registered
  | allocate       -- a new Allocate on the same 5-tuple: registers B when nothing is registered
  | stale          -- a goroutine of A (lifetime timer callback, relay reader after its socket was closed)
deriving DecidableEq, Repr

structure St where
  entry : Option Obj := some .A
  granted : Bool := false      -- the Allocate for B was answered with success
  killed : Bool := false       -- B was removed by a goroutine of A
deriving DecidableEq, Repr

def act (byObject : Bool) (s : St) : Act → St
  | .userDelete => { s with entry := none }
  | .allocate => if s.entry.isNone then { s with entry := some .B, granted := true } else s
  | .stale =>
    if byObject then (if s.entry = some .A then { s with entry := none } else s)
    else { s with entry := none, killed := s.killed || s.entry = some .B }

def client : List (List Act) := [[.userDelete], [.allocate]]
def leftovers : List (List Act) := [[.stale], [.stale]]        -- the timer and a reader

def interleavingsF : Nat → List (List Act) → List (List Act) → List (List Act)
  | 0, as, bs => [as.flatten ++ bs.flatten]
  | _ + 1, [], bs => [bs.flatten]
  | _ + 1, as, [] => [as.flatten]
  | n + 1, a :: as, b :: bs =>
    (interleavingsF n as (b :: bs)).map (a ++ ·) ++ (interleavingsF n (a :: as) bs).map (b ++ ·)

def interleavings (as bs : List (List Act)) : List (List Act) := interleavingsF (as.length + bs.length) as bs

def run (byObject : Bool) (il : List Act) : St := il.foldl (act byObject) {}

/-- deleting by object, A's goroutines never touch an entry that is not A — one step, any state -/
theorem stale_keeps_others (s : St) (h : s.entry ≠ some .A) : act true s .stale = s := by
  simp [act, h]

/-- **unbounded form**: after ANY sequence of client deletions, new Allocates and left-over goroutines of A (any number of them,
    at any time) the new allocation has never been removed by a goroutine of the old one -/
theorem never_killed_any_schedule (il : List Act) : (il.foldl (act true) {}).killed = false := by
  have h : ∀ (il : List Act) (s : St), s.killed = false → (il.foldl (act true) s).killed = false := by
    intro il
    induction il with
    | nil => intro s hs; simpa using hs
    | cons a il ih =>
      intro s hs
      apply ih
      cases a <;> simp only [act] <;> (try split) <;> (try split) <;> simp_all
  exact h il {} rfl

/-- and when no client deletion follows the new Allocate, B is still registered at the end of every interleaving -/
theorem new_allocation_survives_model : (interleavings client leftovers).all
    (fun il => !(run true il).killed && ((run true il).granted → (run true il).entry = some .B)) = true := by decide

/-- the historical shape — delete by 5-tuple — does take the new allocation down: finding F29 -/
theorem delete_by_key_kills : (interleavings client leftovers).any (fun il => (run false il).killed) = true := by decide

/-- regenerated obligation: today's lifetime timer and both relay readers call `deleteAllocation(x.fiveTuple, x)` with their
    own allocation as the second argument, and `deleteAllocation` stands down when the registered allocation is another one -/
theorem own_goroutines_by_object : Gen.Facts.ownGoroutines_delete_by_object = true := by decide

theorem new_allocation_survives : (interleavings client leftovers).all
    (fun il => !(run Gen.Facts.ownGoroutines_delete_by_object il).killed) = true := by
  rw [own_goroutines_by_object]
  have := new_allocation_survives_model
  simp only [List.all_eq_true, Bool.and_eq_true] at this ⊢
  intro il hil
  exact (this il hil).1

/-! non-vacuity: the new Allocate is granted in some interleavings and comes too early (437) in none of the client's own order -/
example : (interleavings client leftovers).all (fun il => (run true il).granted) = true := by decide
example : (interleavings client leftovers).any (fun il => (run false il).granted && (run false il).entry.isNone) = true := by decide

end Turn.C06Reuse
