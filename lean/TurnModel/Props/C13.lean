/-
C13 — the client's relayed socket honours the PacketConn contract over TURN.   PARTIAL.
Model: Model/ClientConn.lean (M6): every WriteTo / inbound message / timer check is one step, the TURN
server's reactions to the requests of a step are part of the operation (so the theorems hold for ALL
server reactions: success, 400, 403, 438 any number of times, silence).
Outside the model: concurrent writers are interleavings of these atomic steps (perm.mutex, muBind and
the atomics justify the atomicity); the Go memory model itself is not modelled.
-/
import TurnModel.Model.ClientConn
import TurnModel.Gen.Consts
namespace Turn.C13
open Turn.Cli
open Turn.Srv (IP Addr)

/-- what is always true of the socket's state -/
structure Inv (s : State) : Prop where
  perm : ∀ p ∈ s.perms, p.2 = true → p.1 ∈ s.permOK
  conf : ∀ b ∈ s.binds, b.st.isOk = true → b.confirmed = true
  bperm : ∀ b ∈ s.binds, b.addr.ip ∈ s.permOK
  queue : s.queue.length ≤ qcap

theorem inv_init : Inv init := ⟨by simp [init], by simp [init], by simp [init], by simp [init, qcap]⟩

theorem bindEnd_conf (now : Nat) (start : BState) (b : Bind) (e : TxnEnd)
    (hb : b.st.isOk = true → start.wasReady = true → b.confirmed = true) (hs : start.wasReady = true → b.confirmed = true) :
    (bindEnd now start b e).1.st.isOk = true → (bindEnd now start b e).1.confirmed = true := by
  cases e with
  | ok => intro _; simp [bindEnd]
  | code c =>
    simp only [bindEnd]
    by_cases hc : (c == 400) = true
    · by_cases hw : start.wasReady = true
      · simp only [hc, hw, if_true]; intro _; exact hs hw
      · simp [hc, hw, BState.isOk]
    · simp [hc, BState.isOk]
  | txnFailed =>
    simp only [bindEnd]
    intro h
    by_cases hw : start.wasReady = true
    · simp [hw] at h ⊢; exact hs hw
    · simp [hw, BState.isOk] at h
  | staleOut => simp [bindEnd, BState.isOk]

theorem bindEnd_addr (now : Nat) (start : BState) (b : Bind) (e : TxnEnd) :
    (bindEnd now start b e).1.addr = b.addr ∧ (bindEnd now start b e).1.num = b.num := by
  cases e with
  | ok => simp [bindEnd]
  | code c => simp only [bindEnd]; split <;> (try split) <;> simp
  | txnFailed => simp [bindEnd]
  | staleOut => simp [bindEnd]

theorem startBinding_facts {now : Nat} {b b1 : Bind} {start : BState} (h : startBinding now b = some (start, b1)) :
    start = b.st ∧ b1.addr = b.addr ∧ b1.num = b.num ∧ b1.confirmed = b.confirmed := by
  unfold startBinding at h
  split at h
  · cases h; simp
  · cases h; simp
  · cases h; simp
  · split at h
    · cases h; simp
    · cases h
  · cases h

theorem mem_setBind {s : State} {b x : Bind} (h : x ∈ (setBind s b).binds) :
    x ∈ s.binds ∨ (x = b ∧ ∃ y ∈ s.binds, y.addr = b.addr) := by
  simp only [setBind, List.mem_map] at h
  obtain ⟨y, hy, rfl⟩ := h
  split
  · rename_i hk; exact Or.inr ⟨rfl, y, hy, by simpa using hk⟩
  · exact Or.inl hy

/-- `maybeBind` preserves the invariant (for a binding that is in the table) -/
theorem maybeBind_inv (s : State) (b : Bind) (rx : List Rx) (hs : Inv s) (hb : b ∈ s.binds) : Inv (maybeBind s b rx).1 := by
  unfold maybeBind
  split
  · exact hs
  · rename_i start b1 hsb
    obtain ⟨hst, ha, hn, hc⟩ := startBinding_facts hsb
    have hconfB : b.st.isOk = true → b.confirmed = true := hs.conf b hb
    have hwas : start.wasReady = true → b1.confirmed = true := by
      intro hw; rw [hc]; apply hconfB; rw [← hst]
      cases start <;> simp_all [BState.wasReady, BState.isOk]
    have hend := bindEnd_conf s.now start b1 (attempts (.chanBind b.num b.addr) maxTries rx).2 (fun _ hw => hwas hw) hwas
    have haddr := bindEnd_addr s.now start b1 (attempts (.chanBind b.num b.addr) maxTries rx).2
    have key : Inv (setBind s (bindEnd s.now start b1 (attempts (.chanBind b.num b.addr) maxTries rx).2).1) := by
      refine ⟨hs.perm, ?_, ?_, hs.queue⟩
      · intro x hx hok
        rcases mem_setBind hx with h | ⟨rfl, _⟩
        · exact hs.conf x h hok
        · exact hend hok
      · intro x hx
        rcases mem_setBind hx with h | ⟨rfl, _⟩
        · exact hs.bperm x h
        · rw [haddr.1, ha]; exact hs.bperm b hb
    simp only
    split
    · exact ⟨key.perm, key.conf, key.bperm, key.queue⟩
    · exact key

theorem maybeBind_binds_addrs (s : State) (b : Bind) (rx : List Rx) :
    (maybeBind s b rx).1.binds.map (·.addr) = s.binds.map (·.addr) ∧ (maybeBind s b rx).1.permOK = s.permOK := by
  unfold maybeBind
  split
  · exact ⟨rfl, rfl⟩
  · rename_i start b1 hsb
    have haddr := bindEnd_addr s.now start b1 (attempts (.chanBind b.num b.addr) maxTries rx).2
    have : ∀ (nb : Bind), (setBind s nb).binds.map (·.addr) = s.binds.map (·.addr) := by
      intro nb
      simp only [setBind, List.map_map]
      apply List.map_congr_left
      intro x _
      simp only [Function.comp]
      split
      · rename_i h; exact (by simpa using h : x.addr = nb.addr).symm
      · rfl
    simp only
    split <;> exact ⟨this _, rfl⟩

theorem maybeBind_keeps (s : State) (b : Bind) (rx : List Rx) :
    (maybeBind s b rx).1.perms = s.perms ∧ (maybeBind s b rx).1.queue = s.queue ∧ (maybeBind s b rx).1.next = s.next ∧
    (maybeBind s b rx).1.now = s.now ∧ (maybeBind s b rx).1.nextTick = s.nextTick := by
  unfold maybeBind
  split
  · simp
  · simp only
    split <;> simp [setBind]

theorem findBind_mem {s : State} {a : Addr} {b : Bind} (h : findBind s a = some b) : b ∈ s.binds ∧ b.addr = a := by
  unfold findBind at h
  exact ⟨List.mem_of_find?_eq_some h, by simpa using List.find?_some h⟩

/-- WriteTo preserves the invariant, whatever the server answers -/
theorem writeTo_inv (s : State) (peer : Addr) (data : Bytes) (prx brx : List Rx) (hs : Inv s) :
    Inv (writeTo s peer data prx brx).1 := by
  unfold writeTo
  split
  · exact hs
  · simp only
    split
    · -- the permission step ended well
      rename_i hend
      -- state after the permission bookkeeping
      have hs1 : Inv (if (permState s peer.ip != some true) = true then
          { s with perms := (peer.ip, true) :: s.perms.filter (fun p => !(p.1 == peer.ip)), permOK := peer.ip :: s.permOK }
        else s) ∧ peer.ip ∈ (if (permState s peer.ip != some true) = true then
          { s with perms := (peer.ip, true) :: s.perms.filter (fun p => !(p.1 == peer.ip)), permOK := peer.ip :: s.permOK }
        else s).permOK := by
        split
        · refine ⟨⟨?_, hs.conf, ?_, hs.queue⟩, by simp⟩
          · intro p hp ht
            simp only [List.mem_cons, List.mem_filter] at hp
            rcases hp with rfl | ⟨hp, _⟩
            · simp
            · exact List.mem_cons_of_mem _ (hs.perm p hp ht)
          · intro b hb; exact List.mem_cons_of_mem _ (hs.bperm b hb)
        · rename_i hnp
          refine ⟨hs, ?_⟩
          have : permState s peer.ip = some true := by simpa using hnp
          unfold permState at this
          cases hf : s.perms.find? (fun p => p.1 == peer.ip) with
          | none => simp [hf] at this
          | some p =>
            simp [hf] at this
            have hm := List.mem_of_find?_eq_some hf
            have hk : p.1 = peer.ip := by simpa using List.find?_some hf
            rw [← hk]; exact hs.perm p hm this
      generalize (if (permState s peer.ip != some true) = true then
          { s with perms := (peer.ip, true) :: s.perms.filter (fun p => !(p.1 == peer.ip)), permOK := peer.ip :: s.permOK }
        else s) = s1 at hs1 ⊢
      obtain ⟨hi1, hip⟩ := hs1
      cases hfb : findBind s1 peer with
      | some b =>
        simp only [bindFor, hfb]
        obtain ⟨hbm, _⟩ := findBind_mem hfb
        split
        · exact hi1
        · exact maybeBind_inv s1 b brx hi1 hbm
      | none =>
        simp only [bindFor, hfb]
        by_cases hfull : s1.binds.length < chanCount
        case neg => simp only [hfull, if_false]; exact hi1
        simp only [hfull, if_true]
        have hi2 : Inv { s1 with binds := s1.binds ++ [⟨peer, s1.next, .idle, s1.now, false⟩], next := nextNum s1.next } := by
          refine ⟨hi1.perm, ?_, ?_, hi1.queue⟩
          · intro b hb hok
            simp only [List.mem_append, List.mem_singleton] at hb
            rcases hb with hb | rfl
            · exact hi1.conf b hb hok
            · simp [BState.isOk] at hok
          · intro b hb
            simp only [List.mem_append, List.mem_singleton] at hb
            rcases hb with hb | rfl
            · exact hi1.bperm b hb
            · exact hip
        split
        · exact hi2
        · exact maybeBind_inv _ _ brx hi2 (by simp)
    · -- the permission step failed: the entry is forgotten
      refine ⟨?_, hs.conf, hs.bperm, hs.queue⟩
      intro p hp ht
      simp only [List.mem_filter] at hp
      exact hs.perm p hp.1 ht

theorem checkBindings_inv (s : State) (rx : List Rx) (hs : Inv s) : Inv (checkBindings s rx).1 := by
  unfold checkBindings
  have : ∀ (l : List Bind) (acc : State × List Out), Inv acc.1 →
      Inv (l.foldl (fun (acc : State × List Out) b =>
        match findBind acc.1 b.addr with
        | some cur => let r := maybeBind acc.1 cur rx; (r.1, acc.2 ++ r.2)
        | none => acc) acc).1 := by
    intro l
    induction l with
    | nil => intro acc h; exact h
    | cons b bs ih =>
      intro acc h
      simp only [List.foldl_cons]
      apply ih
      split
      · rename_i cur hc
        exact maybeBind_inv acc.1 cur rx h (findBind_mem hc).1
      · exact h
  exact this s.binds (s, []) hs

theorem advTicks_inv : ∀ (f : Nat) (s : State) (lim : Nat), Inv s → Inv (advTicks f s lim).1 := by
  intro f
  induction f with
  | zero => intro s lim h; exact ⟨h.perm, h.conf, h.bperm, h.queue⟩
  | succ f ih =>
    intro s lim h
    simp only [advTicks]
    split
    · exact ⟨h.perm, h.conf, h.bperm, h.queue⟩
    · split
      · apply ih
        apply checkBindings_inv
        exact ⟨h.perm, h.conf, h.bperm, h.queue⟩
      · exact ⟨h.perm, h.conf, h.bperm, h.queue⟩

theorem enqueue_inv (s : State) (f : Addr) (d : Bytes) (h : Inv s) : Inv (enqueue s f d) := by
  unfold enqueue
  split
  · exact ⟨h.perm, h.conf, h.bperm, by simp only [List.length_append, List.length_singleton]; omega⟩
  · exact h

theorem step_inv (s : State) (op : Op) (h : Inv s) : Inv (step s op).1 := by
  cases op with
  | write p d prx brx => exact writeTo_inv s p d prx brx h
  | tick rx => simp only [step]; split; · exact h
               exact checkBindings_inv s rx h
  | inbound m =>
    cases m with
    | dataInd p d =>
      simp only [step, handleInbound]
      split
      · exact h
      · exact enqueue_inv s p d h
    | chanData raw =>
      simp only [step, handleInbound]
      split
      · exact h
      · split
        · exact h
        · split
          · exact enqueue_inv _ _ _ h
          · exact h
    | _ => exact h
  | read =>
    simp only [step, readFrom]
    split; · exact h
    split
    · exact ⟨h.perm, h.conf, h.bperm, by have := h.queue; simp_all; omega⟩
    · exact h
  | adv dt => exact advTicks_inv _ s _ h
  | close => simp only [step]; split; · exact h
             exact ⟨h.perm, h.conf, h.bperm, h.queue⟩

/-- the invariant holds after every history of application calls, inbound messages, timer checks and
    server reactions -/
theorem inv_run : ∀ (ops : List Op) (s : State), Inv s → Inv (run s ops).1 := by
  intro ops
  induction ops with
  | nil => intro s h; exact h
  | cons o os ih => intro s h; simp only [run]; exact ih _ (step_inv s o h)

def isData : Out → Bool
  | .sendInd .. | .chanData .. => true
  | _ => false

theorem attempts_outs (mk : Out) : ∀ (n : Nat) (rx : List Rx), ∀ o ∈ (attempts mk n rx).1, o = mk := by
  intro n
  induction n with
  | zero => intro rx o ho; simp [attempts] at ho
  | succ n ih =>
    intro rx o ho
    unfold attempts at ho
    split at ho
    · simp at ho; exact ho
    · simp at ho; exact ho
    · simp at ho; exact ho
    · simp only [List.mem_cons] at ho
      rcases ho with rfl | ho
      · rfl
      · exact ih _ o ho
    · simp at ho; exact ho

theorem maybeBind_outs (s : State) (b : Bind) (rx : List Rx) : ∀ o ∈ (maybeBind s b rx).2, isData o = false := by
  intro o ho
  unfold maybeBind at ho
  split at ho
  · simp at ho
  · simp only at ho
    split at ho
    · simp only [List.mem_append, List.mem_singleton] at ho
      rcases ho with ho | rfl
      · rw [attempts_outs _ _ _ o ho]; rfl
      · rfl
    · rw [attempts_outs _ _ _ o ho]; rfl

/-- **data only after permission; ChannelData only after a confirmed binding of exactly that peer** — for
    every state reachable under the invariant, every peer, payload and every pair of server reaction
    scripts: whatever WriteTo puts on the wire toward a peer goes to the peer named in the call, with the
    payload given, only after a CreatePermission success covering the peer's IP; it is ChannelData only
    on the number of a binding for exactly that address whose ChannelBind the server has confirmed,
    and a Send indication otherwise; if the permission cannot be obtained nothing is sent toward the peer. -/
theorem data_after_permission (s : State) (hs : Inv s) (peer : Addr) (data : Bytes) (prx brx : List Rx) :
    ∀ o ∈ (writeTo s peer data prx brx).2, isData o = true →
      peer.ip ∈ (writeTo s peer data prx brx).1.permOK ∧
      (o = .sendInd peer data ∨
       ∃ b ∈ (writeTo s peer data prx brx).1.binds, o = .chanData b.num data ∧ b.addr = peer ∧ b.confirmed = true) := by
  intro o ho hd
  have hinv := writeTo_inv s peer data prx brx hs
  unfold writeTo at ho hinv ⊢
  split at ho
  · simp at ho; subst ho; simp [isData] at hd
  · rename_i hcl
    rw [if_neg hcl] at hinv ⊢
    simp only at ho hinv ⊢
    split at ho
    · rename_i hend
      simp only [hend] at hinv ⊢
      generalize hs1 : (if (permState s peer.ip != some true) = true then
          { s with perms := (peer.ip, true) :: s.perms.filter (fun p => !(p.1 == peer.ip)), permOK := peer.ip :: s.permOK }
        else s) = s1 at ho hinv ⊢
      have hip : peer.ip ∈ s1.permOK := by
        subst hs1
        split
        · simp
        · rename_i hnp
          have : permState s peer.ip = some true := by simpa using hnp
          unfold permState at this
          cases hf : s.perms.find? (fun p => p.1 == peer.ip) with
          | none => simp [hf] at this
          | some p =>
            simp [hf] at this
            have hm := List.mem_of_find?_eq_some hf
            have hk : p.1 = peer.ip := by simpa using List.find?_some hf
            rw [← hk]; exact hs.perm p hm this
      have hpre : ∀ o ∈ (if (permState s peer.ip != some true) = true then attempts (.createPerm [peer]) maxTries prx else ([], TxnEnd.ok)).1,
          isData o = false := by
        intro o ho
        split at ho
        · rw [attempts_outs _ _ _ o ho]; rfl
        · simp at ho
      cases hfb : findBind s1 peer with
      | some b =>
        simp only [bindFor, hfb] at ho hinv ⊢
        obtain ⟨hbm, hba⟩ := findBind_mem hfb
        split at ho
        · rename_i hok
          simp only [hok, if_true] at hinv ⊢
          simp only [List.mem_append, List.mem_cons, List.mem_nil_iff, or_false] at ho
          rcases ho with ho | rfl | rfl
          · rw [hpre o ho] at hd; cases hd
          · exact ⟨hip, Or.inr ⟨b, hbm, rfl, hba, (by
              have := hinv.conf b hbm hok; exact this)⟩⟩
          · simp [isData] at hd
        · rename_i hok
          simp only [hok, Bool.false_eq_true, if_false] at hinv ⊢
          simp only [List.mem_append, List.mem_cons, List.mem_nil_iff, or_false] at ho
          have hk := (maybeBind_binds_addrs s1 b brx).2
          rcases ho with (ho | ho) | rfl | rfl
          · rw [hpre o ho] at hd; cases hd
          · rw [maybeBind_outs s1 b brx o ho] at hd; cases hd
          · exact ⟨by rw [hk]; exact hip, Or.inl rfl⟩
          · simp [isData] at hd
      | none =>
        simp only [bindFor, hfb] at ho hinv ⊢
        by_cases hfull : s1.binds.length < chanCount
        case neg =>
          -- every channel number is held: a Send indication, permission in place
          simp only [hfull, if_false] at ho hinv ⊢
          simp only [List.mem_append, List.mem_cons, List.mem_nil_iff, or_false] at ho
          rcases ho with ho | rfl | rfl
          · rw [hpre o ho] at hd; cases hd
          · exact ⟨hip, Or.inl rfl⟩
          · simp [isData] at hd
        simp only [hfull, if_true] at ho hinv ⊢
        split at ho
        · rename_i hok; simp [BState.isOk] at hok
        · rename_i hok
          simp only [hok, Bool.false_eq_true, if_false] at hinv ⊢
          simp only [List.mem_append, List.mem_cons, List.mem_nil_iff, or_false] at ho
          have hk := (maybeBind_binds_addrs { s1 with binds := s1.binds ++ [⟨peer, s1.next, .idle, s1.now, false⟩], next := nextNum s1.next }
            ⟨peer, s1.next, .idle, s1.now, false⟩ brx).2
          rcases ho with (ho | ho) | rfl | rfl
          · rw [hpre o ho] at hd; cases hd
          · rw [maybeBind_outs _ _ brx o ho] at hd; cases hd
          · exact ⟨by rw [hk]; exact hip, Or.inl rfl⟩
          · simp [isData] at hd
    · -- permission not obtained: nothing toward the peer
      simp only [List.mem_append, List.mem_singleton] at ho
      rcases ho with ho | rfl
      · have : isData o = false := by
          split at ho
          · rw [attempts_outs _ _ _ o ho]; rfl
          · simp at ho
        rw [this] at hd; cases hd
      · simp [isData] at hd

/-- no other step ever emits data toward a peer: timer checks, time, inbound messages, reads and Close send
    at most ChannelBind / Refresh requests -/
theorem only_write_sends_data (s : State) (op : Op) (h : ∀ p d prx brx, op ≠ .write p d prx brx) :
    ∀ o ∈ (step s op).2, isData o = false := by
  have hcb : ∀ (rx : List Rx) (s : State), ∀ o ∈ (checkBindings s rx).2, isData o = false := by
    intro rx s
    unfold checkBindings
    have : ∀ (l : List Bind) (acc : State × List Out), (∀ o ∈ acc.2, isData o = false) →
        ∀ o ∈ (l.foldl (fun (acc : State × List Out) b =>
          match findBind acc.1 b.addr with
          | some cur => let r := maybeBind acc.1 cur rx; (r.1, acc.2 ++ r.2)
          | none => acc) acc).2, isData o = false := by
      intro l
      induction l with
      | nil => intro acc h; exact h
      | cons b bs ih =>
        intro acc h
        simp only [List.foldl_cons]
        apply ih
        split
        · intro o ho
          simp only [List.mem_append] at ho
          rcases ho with ho | ho
          · exact h o ho
          · exact maybeBind_outs _ _ _ o ho
        · exact h
    exact this s.binds (s, []) (by simp)
  have hadv : ∀ (f : Nat) (s : State) (lim : Nat), ∀ o ∈ (advTicks f s lim).2, isData o = false := by
    intro f
    induction f with
    | zero => intro s lim o ho; simp [advTicks] at ho
    | succ f ih =>
      intro s lim o ho
      simp only [advTicks] at ho
      split at ho
      · simp at ho
      · split at ho
        · simp only [List.mem_append] at ho
          rcases ho with ho | ho
          · exact hcb _ _ o ho
          · exact ih _ _ o ho
        · simp at ho
  intro o ho
  cases op with
  | write p d prx brx => exact absurd rfl (h p d prx brx)
  | tick rx => simp only [step] at ho; split at ho; · simp at ho
               exact hcb rx s o ho
  | inbound m =>
    cases m <;> simp only [step, handleInbound] at ho
    · split at ho <;> simp at ho
    · split at ho
      · simp at ho; subst ho; rfl
      · split at ho
        · simp at ho
        · split at ho
          · simp at ho
          · simp at ho; subst ho; rfl
    all_goals (simp at ho; try (subst ho; rfl))
  | read =>
    simp only [step, readFrom] at ho
    split at ho; · simp at ho; subst ho; rfl
    split at ho <;> (simp at ho; subst ho; rfl)
  | adv dt => exact hadv _ _ _ o ho
  | close => simp only [step] at ho; split at ho <;> simp at ho; subst ho; rfl

/-! channel numbers -/

theorem maybeBind_nums (s : State) (b : Bind) (rx : List Rx) (hb : ∀ x ∈ s.binds, x.addr = b.addr → x.num = b.num) :
    (maybeBind s b rx).1.binds.map (·.num) = s.binds.map (·.num) ∧ (maybeBind s b rx).1.next = s.next := by
  refine ⟨?_, (maybeBind_keeps s b rx).2.2.1⟩
  unfold maybeBind
  split
  · rfl
  · rename_i start b1 hsb
    obtain ⟨_, ha, hn, _⟩ := startBinding_facts hsb
    have haddr := bindEnd_addr s.now start b1 (attempts (.chanBind b.num b.addr) maxTries rx).2
    have key : (setBind s (bindEnd s.now start b1 (attempts (.chanBind b.num b.addr) maxTries rx).2).1).binds.map (·.num) = s.binds.map (·.num) := by
      simp only [setBind, List.map_map]
      apply List.map_congr_left
      intro x hx
      simp only [Function.comp]
      split
      · rename_i h
        have hxa : x.addr = b.addr := by
          have : x.addr = (bindEnd s.now start b1 (attempts (.chanBind b.num b.addr) maxTries rx).2).1.addr := by simpa using h
          rw [this, haddr.1, ha]
        rw [haddr.2, hn, hb x hx hxa]
      · rfl
    simp only
    split <;> exact key

/-- the k-th peer ever written to gets channel number 0x4000 + k: the first 16384 distinct peers get
    pairwise distinct numbers inside 0x4000–0x7FFF -/
structure NumInv (s : State) : Prop where
  nums : s.binds.map (·.num) = (List.range s.binds.length).map (minChan + ·)
  next : s.binds.length < 16384 → s.next = minChan + s.binds.length
  addrs : (s.binds.map (·.addr)).Nodup

theorem nums_distinct_in_range (s : State) (h : NumInv s) (hl : s.binds.length ≤ 16384) :
    (s.binds.map (·.num)).Nodup ∧ ∀ b ∈ s.binds, chanValid b.num = true := by
  constructor
  · rw [h.nums]
    have : ∀ (n : Nat), ((List.range n).map (minChan + ·)).Nodup := by
      intro n
      induction n with
      | zero => simp
      | succ n ih =>
        rw [List.range_succ, List.map_append, List.nodup_append]
        refine ⟨ih, by simp, ?_⟩
        intro a ha b hb hab
        simp only [List.mem_map, List.mem_range] at ha
        obtain ⟨i, hi, rfl⟩ := ha
        simp at hb; omega
    exact this _
  · intro b hb
    have : b.num ∈ s.binds.map (·.num) := List.mem_map_of_mem hb
    rw [h.nums] at this
    simp only [List.mem_map, List.mem_range] at this
    obtain ⟨i, hi, hnum⟩ := this
    have hi' : i < 16384 := by omega
    have : b.num = 0x4000 + i := by rw [← hnum]; rfl
    rw [this]
    simp only [chanValid, Bool.and_eq_true, decide_eq_true_eq]
    omega

/-! the read queue -/

/-- inbound data never blocks: a full queue (1024 datagrams) drops, and otherwise appends at the tail;
    `ReadFrom` hands out the head — first in, first out, each datagram with the peer it was relayed for -/
theorem queue_fifo (s : State) (f : Addr) (d : Bytes) :
    (s.queue.length < qcap → (enqueue s f d).queue = s.queue ++ [(f, d)]) ∧
    (qcap ≤ s.queue.length → (enqueue s f d).queue = s.queue) ∧
    (∀ x rest, s.closed = false → s.queue = x :: rest → readFrom s = ({ s with queue := rest }, [.read x.1 x.2])) := by
  refine ⟨?_, ?_, ?_⟩
  · intro h; simp [enqueue, h]
  · intro h; have : ¬ s.queue.length < qcap := by omega
    simp [enqueue, this]
  · intro x rest hc hq
    simp [readFrom, hc, hq]

/-- ChannelData is delivered with the peer bound to its number; an unknown number is an error and
    queues nothing -/
theorem chandata_inbound (s : State) (raw : Bytes) (hopen : s.closed = false) :
    (∀ n d b, decodeCD raw = .ok (n, d) → findBindNum s n = some b → handleInbound s (.chanData raw) = (enqueue s b.addr d, [])) ∧
    (∀ n d, decodeCD raw = .ok (n, d) → findBindNum s n = none → handleInbound s (.chanData raw) = (s, [.inboundErr "nochannel"])) := by
  constructor
  · intro n d b h1 h2; simp [handleInbound, h1, h2, hopen]
  · intro n d h1 h2; simp [handleInbound, h1, h2, hopen]

/-- a closed socket sends nothing and reports the error -/
theorem closed_write_fails (s : State) (hc : s.closed = true) (peer : Addr) (data : Bytes) (prx brx : List Rx) :
    writeTo s peer data prx brx = (s, [.writeErr "closed"]) := by
  simp [writeTo, hc]

/-- regenerated: queue capacity, retry count, intervals and the channel range of today's client source -/
theorem client_consts_regenerated :
    Gen.Consts.client_maxReadQueueSize = 1024 ∧ Gen.Consts.client_maxRetryAttempts = 3 ∧
    Gen.Consts.client_minChannelNumber = 0x4000 ∧ Gen.Consts.client_maxChannelNumber = 0x7FFF ∧
    Gen.Consts.client_defaultBindingRefreshInterval = 300 * 1000000000 ∧
    Gen.Consts.client_defaultBindingCheckInterval = 30 * 1000000000 := by decide

/-! non-vacuity -/
def peerA : Addr := ⟨⟨false, 9⟩, 9000⟩
example : (run init [.write peerA [1] [.code 438, .ok] [.ok], .write peerA [2] [] []]).2 =
    [[.createPerm [peerA], .createPerm [peerA], .chanBind 0x4000 peerA, .sendInd peerA [1], .wrote 1],
     [.chanData 0x4000 [2], .wrote 1]] := by decide
example : (step init (.write peerA [1] [.code 403] [])).2 = [.createPerm [peerA], .writeErr "turn403"] := by decide

/-- **only the TURN server relays**: a Data indication or ChannelData whose source is not the TURN server is refused and
    changes nothing — nothing a stranger sends to the client's socket is ever returned by `ReadFrom` (finding F33) -/
theorem stranger_changes_nothing (s : State) :
    (step s (.inbound .relayedFromOther)).1 = s ∧ (step s (.inbound .relayedFromOther)).2 = [.inboundErr "stranger"] := by
  simp [step, handleInbound]

end Turn.C13
