/-
C03 — state-changing requests take effect only with valid long-term credentials.
`Cred` are the facts `authenticateRequest` establishes about a request (integrity attribute present,
nonce present / validated by this server's nonce manager, realm, username, handler knows the user,
integrity verifies under the handler's key).  What those facts mean at byte level (which nonces the
nonce managers accept, which keys the credential handlers return) is M3: Props/C03Nonce.lean, C17.
-/
import TurnModel.Lemmas.ServerInv
namespace Turn.C03
open Turn.Srv

/-- the decision table of `authenticateRequest` -/
theorem auth_ok_iff (c : Cfg) (cr : Cred) (u : String) :
    authenticate c cr = .ok u ↔
      cr.mi = true ∧ c.hasAuth = true ∧ cr.nonce = true ∧ cr.nonceOK = true ∧ cr.realm = true ∧
      cr.uname = true ∧ cr.known = true ∧ cr.macOK = true ∧ u = cr.user := by
  unfold authenticate
  constructor
  · intro h
    split at h; · cases h
    split at h; · cases h
    split at h; · cases h
    split at h; · cases h
    split at h; · cases h
    split at h; · cases h
    split at h; · cases h
    cases h
    simp_all
  · rintro ⟨h1, h2, h3, h4, h5, h6, h7, h8, rfl⟩
    simp [h1, h2, h3, h4, h5, h6, h7, h8]

/-- no integrity attribute → 401 challenge; integrity but a nonce this server does not accept now →
    438 challenge (both carry a fresh nonce and the realm); every other defect → 400 -/
theorem auth_fail_table (c : Cfg) (cr : Cred) :
    (cr.mi = false → authenticate c cr = .challenge 401) ∧
    (cr.mi = true → c.hasAuth = true → cr.nonce = true → cr.nonceOK = false → authenticate c cr = .challenge 438) ∧
    (cr.mi = true → (c.hasAuth = false ∨ cr.nonce = false ∨
        (cr.nonceOK = true ∧ (cr.realm = false ∨ cr.uname = false ∨ cr.known = false ∨ cr.macOK = false))) →
        authenticate c cr = .reject) := by
  unfold authenticate
  refine ⟨?_, ?_, ?_⟩
  · intro h; simp [h]
  · intro h1 h2 h3 h4; simp [h1, h2, h3, h4]
  · intro h1 h
    rcases h with h | h | ⟨h4, h | h | h | h⟩ <;> simp_all
    all_goals (repeat' split) <;> simp_all

/-- the credentials a request is authenticated with (`none`: Send, ChannelData, Binding and
    undecodable input are not authenticated) -/
def credOf : Msg → Option Cred
  | .allocate _ c .. => some c
  | .refresh _ c .. => some c
  | .createPerm _ c _ => some c
  | .chanBind _ c .. => some c
  | .connect _ c .. => some c
  | .connBind _ c _ => some c
  | _ => none

theorem authFail_no_ok (k m tid r) (h : ∀ u, r ≠ AuthRes.ok u) :
    ∀ o ∈ authFail k m tid r, ∀ to me tid' a, o ≠ Out.resp to me true 0 tid' a := by
  intro o ho
  cases r with
  | challenge code => simp [authFail] at ho; subst ho; simp
  | reject => simp [authFail, errResp] at ho; subst ho; simp
  | ok u => exact absurd rfl (h u)

theorem unauth_handle (c : Cfg) (s : State) (k : Key) (m : Msg) (cr : Cred)
    (hm : credOf m = some cr) (hbad : ∀ u, authenticate c cr ≠ .ok u)
    (hcb : ∀ tid c' cid, m ≠ .connBind tid c' cid) :
    ∃ me tid, handle c s k m = { outs := authFail k me tid (authenticate c cr) } := by
  cases m with
  | allocate tid cr' lt tr df tok even fam env =>
    simp only [credOf, Option.some.injEq] at hm; subst hm
    refine ⟨"Allocate", tid, ?_⟩
    simp only [handle]; unfold hAllocate
    split
    · rename_i u hu; exact absurd hu (hbad u)
    · rfl
  | refresh tid cr' lt fam =>
    simp only [credOf, Option.some.injEq] at hm; subst hm
    refine ⟨"Refresh", tid, ?_⟩
    simp only [handle]; unfold hRefresh
    split
    · rename_i u hu; exact absurd hu (hbad u)
    · rfl
  | createPerm tid cr' peers =>
    simp only [credOf, Option.some.injEq] at hm; subst hm
    refine ⟨"CreatePermission", tid, ?_⟩
    simp only [handle]; unfold hCreatePerm
    split
    · rename_i u hu; exact absurd hu (hbad u)
    · rfl
  | chanBind tid cr' num peer =>
    simp only [credOf, Option.some.injEq] at hm; subst hm
    refine ⟨"ChannelBind", tid, ?_⟩
    simp only [handle]; unfold hChanBind
    split
    · rename_i u hu; exact absurd hu (hbad u)
    · rfl
  | connect tid cr' peer dialOK cid =>
    simp only [credOf, Option.some.injEq] at hm; subst hm
    refine ⟨"Connect", tid, ?_⟩
    simp only [handle]; unfold hConnect
    split
    · rename_i u hu; exact absurd hu (hbad u)
    · rfl
  | connBind tid cr' cid => exact (hcb _ _ _ rfl).elim
  | send => simp [credOf] at hm
  | chanData => simp [credOf] at hm
  | binding => simp [credOf] at hm
  | unknownAttr => simp [credOf] at hm
  | junk => simp [credOf] at hm

/-- **unauthenticated requests change nothing**: whatever is wrong with the credentials of an Allocate,
    Refresh, CreatePermission, ChannelBind, Connect or ConnectionBind (no integrity, wrong key, unknown
    user, missing attribute, stale / forged / foreign nonce, no handler configured), in every state
    the server state is exactly what it was (allocations, permissions, channels, TCP connections,
    reservations) and no success response is sent. -/
theorem unauth_no_effect (c : Cfg) (s : State) (k : Key) (sz : Nat) (m : Msg) (cr : Cred)
    (hm : credOf m = some cr) (hbad : ∀ u, authenticate c cr ≠ .ok u) :
    (step c s (.msg k sz m)).1 = s ∧
    ∀ o ∈ (step c s (.msg k sz m)).2, ∀ to me tid a, o ≠ Out.resp to me true 0 tid a := by
  simp only [step]
  split; · exact ⟨rfl, by simp⟩
  split; · exact ⟨rfl, by simp⟩
  by_cases hcb : ∃ tid c' cid, m = .connBind tid c' cid
  · obtain ⟨tid, c', cid, rfl⟩ := hcb
    simp only [credOf, Option.some.injEq] at hm; subst hm
    have : hConnBind c s k tid c' cid = (authFail k "ConnectionBind" tid (authenticate c c'), none) := by
      unfold hConnBind
      split
      · rename_i u hu; exact absurd hu (hbad u)
      · rfl
    simp only [this]
    exact ⟨by trivial, authFail_no_ok _ _ _ _ hbad⟩
  · have hcb' : ∀ tid c' cid, m ≠ .connBind tid c' cid := fun tid c' cid h => hcb ⟨tid, c', cid, h⟩
    obtain ⟨me, tid, hh⟩ := unauth_handle c s k m cr hm hbad hcb'
    split
    · rename_i tid' cr' cid'; exact absurd rfl (hcb' tid' cr' cid')
    · simp only [hh, applyUpd, List.append_nil]
      exact ⟨by trivial, authFail_no_ok _ _ _ _ hbad⟩

/-- **another user's valid credentials on an existing 5-tuple change nothing**: a Refresh,
    CreatePermission, ChannelBind or Connect that authenticates as `u` while the allocation on that
    5-tuple was created by someone else leaves the state unchanged and is not answered at all. -/
theorem wrong_user_no_effect (c : Cfg) (s : State) (k : Key) (sz : Nat) (m : Msg) (cr : Cred) (u : String) (a : Alloc)
    (hm : credOf m = some cr) (hauth : authenticate c cr = .ok u) (ha : findAlloc s k = some a) (hu : a.user ≠ u)
    (hnot : (∀ tid c' lt tr df tok even fam env, m ≠ .allocate tid c' lt tr df tok even fam env) ∧
            (∀ tid c' cid, m ≠ .connBind tid c' cid)) :
    step c s (.msg k sz m) = (s, []) := by
  have hown : ownAlloc s k u = none := by
    unfold ownAlloc; rw [ha]; simp [hu]
  simp only [step]
  split; · rfl
  split; · rfl
  cases m with
  | allocate tid c' lt tr df tok even fam env => exact (hnot.1 _ _ _ _ _ _ _ _ _ rfl).elim
  | connBind tid c' cid => exact (hnot.2 _ _ _ rfl).elim
  | refresh tid cr' lt fam =>
    simp only [credOf, Option.some.injEq] at hm; subst hm
    simp [handle, hRefresh, hauth, hown, applyUpd]
  | createPerm tid cr' peers =>
    simp only [credOf, Option.some.injEq] at hm; subst hm
    simp [handle, hCreatePerm, hauth, hown, applyUpd]
  | chanBind tid cr' num peer =>
    simp only [credOf, Option.some.injEq] at hm; subst hm
    simp [handle, hChanBind, hauth, hown, applyUpd]
  | connect tid cr' peer dialOK cid =>
    simp only [credOf, Option.some.injEq] at hm; subst hm
    simp [handle, hConnect, hauth, hown, applyUpd]
  | send => simp [credOf] at hm
  | chanData => simp [credOf] at hm
  | binding => simp [credOf] at hm
  | unknownAttr => simp [credOf] at hm
  | junk => simp [credOf] at hm

/-- a ConnectionBind is honoured only for the user that owns the connection: otherwise 400 and the
    state is unchanged -/
theorem connbind_owner_only (c : Cfg) (s : State) (k : Key) (sz tid : Nat) (cr : Cred) (u : String) (id : Nat)
    (a : Alloc) (hauth : authenticate c cr = .ok u) (ho : connOwner s k.lid id = some a) (hu : a.user ≠ u) :
    (step c s (.msg k sz (.connBind tid cr (.val id)))).1 = s ∧
    ∀ o ∈ (step c s (.msg k sz (.connBind tid cr (.val id)))).2, o = errResp k "ConnectionBind" 400 tid := by
  have : hConnBind c s k tid cr (.val id) = ([errResp k "ConnectionBind" 400 tid], none) := by
    unfold hConnBind
    rw [hauth]
    simp only
    split; · rfl
    rw [ho]
    simp [hu]
  simp only [step]
  split; · exact ⟨rfl, by simp⟩
  split; · exact ⟨rfl, by simp⟩
  simp only [this]
  exact ⟨by trivial, by simp⟩

/-! non-vacuity: a request with a stale nonce is challenged with 438 and nothing changes; the same
    request with good credentials succeeds -/
def cfg0 : Cfg :=
  { permT := 300 * sec, chanT := 600 * sec, lifeT := 600 * sec, maxLife := 3600 * sec, rtpMTU := 1600
    inMTU := 1600, bindT := 30 * sec, resvT := 30 * sec, strict := false, hasAuth := true, hasQuota := false
    relay4 := ⟨false, 1⟩, relay6 := ⟨true, 1⟩, lis := [⟨false, 1, false, [], []⟩] }
def k0 : Key := ⟨0, ⟨⟨false, 7⟩, 4000⟩⟩
def env0 : AllocEnv := ⟨some 50001, true, none, ""⟩
example : (step cfg0 init (.msg k0 100 (.allocate 1 ⟨true, true, false, true, true, true, true, "alice"⟩ .absent (.val 17) false
    .absent .absent .absent env0))).2 = [.resp k0 "Allocate" false 438 1 { nonce := true }] := by decide
example : ((step cfg0 init (.msg k0 100 (.allocate 1 ⟨true, true, true, true, true, true, true, "alice"⟩ .absent (.val 17) false
    .absent .absent .absent env0))).1.allocs.map (·.user)) = ["alice"] := by decide

end Turn.C03
