/-
C15 — server resources and lifecycle events stay balanced through every teardown.
PARTIAL: goroutines and timers are ghost state here (one lifetime timer and one relay-reader
goroutine per allocation entity, one timer per permission / binding entity); their real existence
is observed by the harness only (simnet's open/close log, the synctest bubble draining).
`Ent` (Model/ServerEvents.lean): allocation (= its relay socket or listener + lifetime timer + reader
goroutine), permission (+ timer), channel binding (+ timer).  `events s s'` is what the
EventHandler callbacks and the socket layer report for a step from `s` to `s'`.
-/
import TurnModel.Lemmas.ServerEvents
namespace Turn.C15
open Turn.Srv

/-- **ledger = live allocations**: in every reachable state each owned resource is listed exactly
    once (no allocation, socket, permission, binding or timer is accounted twice) and the reported
    allocation count is the number of live allocations -/
theorem ledger_matches_live {c : Cfg} {s : State} (hr : Reach c s) :
    (ents s).Nodup ∧ ((ents s).filter (fun e => match e with | .alloc .. => true | _ => false)).length = s.allocs.length := by
  refine ⟨ents_nodup hr, ?_⟩
  have : ∀ l : List Alloc, ((l.flatMap entsOf).filter (fun e => match e with | .alloc .. => true | _ => false)).length = l.length := by
    intro l
    induction l with
    | nil => rfl
    | cons a as ih =>
      simp only [List.flatMap_cons, List.filter_append, List.length_append, ih, List.length_cons]
      have : (List.filter (fun e => match e with | .alloc .. => true | _ => false) (entsOf a)).length = 1 := by
        simp only [entsOf, List.filter_cons, List.filter_append]
        have h1 : List.filter (fun e => match e with | .alloc .. => true | _ => false) (a.perms.map (fun p => Ent.perm a.key p.ip)) = [] := by
          rw [List.filter_eq_nil_iff]; intro e he; simp only [List.mem_map] at he; obtain ⟨_, _, rfl⟩ := he; simp
        have h2 : List.filter (fun e => match e with | .alloc .. => true | _ => false) (a.chans.map (fun ch => Ent.chan a.key ch.num ch.peer)) = [] := by
          rw [List.filter_eq_nil_iff]; intro e he; simp only [List.mem_map] at he; obtain ⟨_, _, rfl⟩ := he; simp
        simp [h1, h2]
      omega
  exact this s.allocs

/-- **events pair up, at every prefix of every history**: starting from the empty server, after ANY
    operation history, for every allocation, permission and channel binding, (created events) −
    (deleted events) is 1 if it is live now and 0 otherwise — so a teardown injected after any step
    finds the books balanced, nothing is released twice, and nothing is leaked -/
theorem events_paired {c : Cfg} (ops : List Op) (e : Ent) :
    netCount e (runE c init ops).2 = if e ∈ ents (run c init ops).1 then 1 else 0 := by
  have h := run_balance (c := c) e ops init ⟨[], rfl⟩
  rw [runE_state] at h
  simpa [ind, ents, init] using h

/-- each step's events are exactly the entities that appeared and the entities that disappeared -/
theorem step_events_exact {c : Cfg} {s : State} (hr : Reach c s) (op : Op) (e : Ent) :
    netCount e (stepE c s op).2.2 = ind e (ents (step c s op).1) - ind e (ents s) :=
  events_net s _ (ents_nodup hr) (ents_nodup (reach_step hr op)) e

theorem mem_ents {s : State} {e : Ent} (h : e ∈ ents s) : ∃ a ∈ s.allocs, a.key = entKey e := by
  simp only [ents, List.mem_flatMap] at h
  obtain ⟨a, ha, he⟩ := h
  exact ⟨a, ha, (entsOf_key a e he).symm⟩

/-- **teardown is complete, whatever the cause**: after Refresh 0, after the control connection
    closed, after a relay socket failure, or once the lifetime has run out, nothing owned by that
    allocation is left — no relay socket, no permission, no binding, no timer -/
theorem teardown_complete (c : Cfg) (s : State) (k : Key) :
    (∀ e, entKey e = k → e ∉ ents (step c s (.ctrlClose k)).1) ∧
    (∀ a, a ∈ s.allocs → (∀ b ∈ s.allocs, b.relay = a.relay → b = a) →
        ∀ e, entKey e = a.key → (∀ b ∈ s.allocs, b.key = a.key → b = a) → e ∉ ents (step c s (.relayErr a.relay)).1) ∧
    (∀ e, e ∉ ents (step c s .close).1) := by
  refine ⟨?_, ?_, ?_⟩
  · intro e hk he
    obtain ⟨a, ha, hak⟩ := mem_ents he
    simp only [step] at ha
    split at ha
    · rw [mem_delAlloc] at ha; exact ha.2 (by rw [hak, hk])
    · rename_i hnone
      unfold findAlloc at hnone
      rw [List.find?_eq_none] at hnone
      have := hnone a ha
      simp [hak, hk] at this
  · intro a ham huniq e hk hkey he
    obtain ⟨b, hb, hbk⟩ := mem_ents he
    simp only [step] at hb
    split at hb
    · rename_i a0 hfind
      have h0m : a0 ∈ s.allocs := List.mem_of_find?_eq_some hfind
      have h0r : a0.relay = a.relay := by simpa using List.find?_some hfind
      have : a0 = a := huniq a0 h0m h0r
      subst this
      rw [mem_delAlloc] at hb
      exact hb.2 (by rw [hbk, hk])
    · rename_i hnone
      rw [List.find?_eq_none] at hnone
      have := hnone a ham
      simp at this
  · intro e he
    obtain ⟨a, ha, _⟩ := mem_ents he
    simp [step] at ha

/-- expiry: when time passes an allocation's expiry, everything it owned is gone from the ledger -/
theorem expiry_teardown {c : Cfg} {s : State} (hr : Reach c s) (a : Alloc) (ha : a ∈ s.allocs) (dt : Nat)
    (hx : a.expiry ≤ s.now + dt) : ∀ e, entKey e = a.key → e ∉ ents (step c s (.adv dt)).1 := by
  intro e hk he
  obtain ⟨b, hb, hbk⟩ := mem_ents he
  simp only [step, advance, List.map_map, List.mem_map, List.mem_filter] at hb
  obtain ⟨b0, ⟨hb0, hl⟩, rfl⟩ := hb
  have hkey : b0.key = a.key := by rw [← hk, ← hbk]; rfl
  have : b0 = a := eq_of_key_eq (unique_reach hr).1 hb0 ha hkey
  subst this
  have : s.now + dt < b0.expiry := by simpa using hl
  omega

/-- once the server has been closed nothing remains: no allocation, socket, permission, binding, timer -/
theorem closed_server_empty (c : Cfg) (s : State) : ents (step c s .close).1 = [] ∧ (step c s .close).1.allocs = [] := by
  simp [step, ents]

/-! non-vacuity: the event log of a small history, and its balance -/
def cfg0 : Cfg :=
  { permT := 300 * sec, chanT := 600 * sec, lifeT := 600 * sec, maxLife := 3600 * sec, rtpMTU := 1600
    inMTU := 1600, bindT := 30 * sec, resvT := 30 * sec, strict := false, hasAuth := true, hasQuota := false
    relay4 := ⟨false, 1⟩, relay6 := ⟨true, 1⟩, lis := [⟨false, 1, false, [], []⟩] }
def okCred : Cred := ⟨true, true, true, true, true, true, true, "alice"⟩
def k0 : Key := ⟨0, ⟨⟨false, 7⟩, 4000⟩⟩
def hist0 : List Op := [
  .msg k0 100 (.allocate 1 okCred .absent (.val 17) false .absent .absent .absent ⟨some 50001, true, none, ""⟩),
  .msg k0 100 (.chanBind 2 okCred (.val 0x4000) (.val ⟨⟨false, 9⟩, 9000⟩)),
  .adv (300 * sec),
  .msg k0 100 (.refresh 3 okCred (.val 0) .absent)]
set_option maxRecDepth 16000 in
example : (runE cfg0 init hist0).2 =
    [.created (.alloc k0 ⟨⟨false, 1⟩, 50001⟩ false),
     .created (.perm k0 ⟨false, 9⟩), .created (.chan k0 0x4000 ⟨⟨false, 9⟩, 9000⟩),
     .deleted (.perm k0 ⟨false, 9⟩),
     .deleted (.alloc k0 ⟨⟨false, 1⟩, 50001⟩ false), .deleted (.chan k0 0x4000 ⟨⟨false, 9⟩, 9000⟩)] := by decide

end Turn.C15
