/-
C10 — stream framing is independent of TCP segmentation and always makes progress.
Model: Model/Framer.lean (M2) = consumeSingleTURNFrame + STUNConn.ReadFrom over a scripted conn.
`WF` (Lemmas/Framer.lean): a STUN message (cookie, length field = body length) or a ChannelData frame
(valid number, declared length, padded to 4) — `encodeCD_WF` shows the encoder's output is one.
-/
import TurnModel.Lemmas.Framer
import TurnModel.Gen.Consts
namespace Turn.C10

/-- a whole frame at the head of the buffer is sized exactly, whatever follows it -/
theorem consume_exact {f : Bytes} (h : WF f) (rest : Bytes) : consume (f ++ rest) = .ok f.length :=
  Turn.consume_exact h rest

/-- every strict prefix of a frame is "incomplete": never an error, never data -/
theorem consume_prefix {f : Bytes} (h : WF f) (p t : Bytes) (hp : f = p ++ t) (ht : t ≠ []) :
    consume p = .incomplete := Turn.consume_prefix h p t hp ht

/-- ∀ frame sequences, ∀ segmentations of the byte stream into reads (`chunks`, with anything already
    buffered in `buff`): `fs.length` successive calls return exactly the frames, whole, in order,
    one per call, and leave exactly the rest of the stream. -/
theorem framer_roundtrip : ∀ (fs : List Bytes), (∀ f ∈ fs, WF f) →
    ∀ (chunks : List Bytes) (buff rest : Bytes), buff ++ chunks.flatten = fs.flatten ++ rest →
      ∃ r c', readN fs.length chunks buff = (fs, r, c') ∧ c'.buff ++ c'.chunks.flatten = rest := by
  intro fs
  induction fs with
  | nil => intro _ chunks buff rest heq; exact ⟨.eof, ⟨buff, chunks⟩, rfl, by simpa using heq⟩
  | cons f fs ih =>
    intro hwf chunks buff rest heq
    have hf : WF f := hwf f List.mem_cons_self
    simp only [List.flatten_cons, List.append_assoc] at heq
    obtain ⟨c1, h1, h1r, _⟩ := readFrom_one hf chunks buff _ heq
    obtain ⟨r, c2, h2, h2r⟩ := ih (fun g hg => hwf g (List.mem_cons_of_mem _ hg)) c1.chunks c1.buff rest h1r
    refine ⟨r, c2, ?_, h2r⟩
    simp only [List.length_cons, readN, h1, h2]

/-- promptness: the frame is returned as soon as its last byte has arrived — the chunks consumed by the
    call (`used`) are a prefix of those offered, and without the last consumed chunk the frame was
    not yet complete (so no chunk beyond the one holding the frame's last byte is read). -/
theorem framer_prompt {f : Bytes} (h : WF f) (chunks : List Bytes) (buff rest : Bytes)
    (heq : buff ++ chunks.flatten = f ++ rest) :
    ∃ c' used, readFrom chunks buff = (.frame f, c') ∧ chunks = used ++ c'.chunks ∧
      (∀ u, used = u ++ [used.getLast?.getD []] → (buff ++ u.flatten).length < f.length ∨ used = []) := by
  obtain ⟨c', h1, _, used, h3, h4⟩ := readFrom_one h chunks buff rest heq
  exact ⟨c', used, h1, h3, h4⟩

/-- for EVERY input (well-formed or not): a successful read removes exactly the returned bytes from
    the stream and returns at least one byte (in fact at least the 4-byte header). -/
theorem read_consumes (chunks : List Bytes) (buff f : Bytes) (c' : Conn)
    (h : readFrom chunks buff = (.frame f, c')) :
    buff ++ chunks.flatten = f ++ (c'.buff ++ c'.chunks.flatten) ∧ 0 < f.length := by
  obtain ⟨h1, h2⟩ := readFrom_frame_consumes chunks buff f c' h
  exact ⟨h1, by omega⟩

/-- bytes that cannot begin a frame (no valid channel number, ≥ 20 bytes, no magic cookie) are an
    error, never data -/
theorem garbage_is_error (b0 b1 b2 b3 : UInt8) (rest : Bytes) (chunks : List Bytes)
    (hnum : chanValid (be16 b0 b1) = false) (hlen : 16 ≤ rest.length) (hck : rest.take 4 ≠ cookie) :
    consume (b0 :: b1 :: b2 :: b3 :: rest) = .invalid ∧
    (readFrom chunks (b0 :: b1 :: b2 :: b3 :: rest)).1 = .invalid := by
  have hc : consume (b0 :: b1 :: b2 :: b3 :: rest) = .invalid := by
    simp only [consume, hnum, List.length_cons]
    rw [if_neg (by simp), if_neg (by omega), if_neg hck]
  refine ⟨hc, ?_⟩
  cases chunks <;> simp [readFrom, hc]

/-! non-vacuity -/
example : WF (encodeCD 0x4000 [1, 2, 3, 4, 5]) := Or.inl (encodeCD_WF _ _ (by decide) (by decide))
example : WF ([0, 1, 0, 0] ++ cookie ++ List.replicate 12 7) :=
  Or.inr ⟨0, 1, 0, 0, List.replicate 12 7, by simp, by decide, by decide⟩
/-- a two-frame stream cut in the middle of each frame comes out as the two frames -/
example : (readN 2 [[0x40, 0, 0], [1, 9, 0, 0, 0, 0x40], [1, 0, 0]] []).1 =
    [[0x40, 0, 0, 1, 9, 0, 0, 0], [0x40, 1, 0, 0]] := by decide


/-- regenerated: the framer classifies from the 4-byte header (no longer waits for 9 bytes), and the
    STUN header size / padding unit are the model's -/
theorem framer_consts_regenerated :
    Gen.Consts.framer_minHeader = 4 ∧ Gen.Consts.proto_stunHeaderSize = 20 ∧ Gen.Consts.proto_padding = 4 ∧
    Gen.Consts.proto_channelDataHeaderSize = 4 := by decide

end Turn.C10
