/-
C10 — stream framing is independent of TCP segmentation and always makes progress.
Model: Model/Framer.lean (M2) = consumeSingleTURNFrame + STUNConn.ReadFrom over a scripted conn.
`WF` (Lemmas/Framer.lean): a STUN message (cookie, length field = body length) or a ChannelData frame
(valid number, declared length, padded to 4) — `encodeCD_WF` shows the encoder's output is one.
-/
import TurnModel.Lemmas.Framer
import TurnModel.Gen.Consts
namespace Turn.C10

/-- a whole frame at the head of the buffer is sized exactly, whatever follows it -/
theorem consume_exact {f : Bytes} (h : WF f) (rest : Bytes) : consume (f ++ rest) = .ok f.length :=
  Turn.consume_exact h rest

/-- every strict prefix of a frame is "incomplete": never an error, never data -/
theorem consume_prefix {f : Bytes} (h : WF f) (p t : Bytes) (hp : f = p ++ t) (ht : t ≠ []) :
    consume p = .incomplete := Turn.consume_prefix h p t hp ht

/-- ∀ frame sequences, ∀ segmentations of the byte stream into reads (`chunks`, with anything already
    buffered in `buff`): `fs.length` successive calls return exactly the frames, whole, in order,
    one per call, and leave exactly the rest of the stream. -/
theorem framer_roundtrip : ∀ (fs : List Bytes), (∀ f ∈ fs, WF f) →
    ∀ (chunks : List Bytes) (buff rest : Bytes), buff ++ chunks.flatten = fs.flatten ++ rest →
      ∃ r c', readN fs.length chunks buff = (fs, r, c') ∧ c'.buff ++ c'.chunks.flatten = rest := by
  intro fs
  induction fs with
  | nil => intro _ chunks buff rest heq; exact ⟨.eof, ⟨buff, chunks⟩, rfl, by simpa using heq⟩
  | cons f fs ih =>
    intro hwf chunks buff rest heq
    have hf : WF f := hwf f List.mem_cons_self
    simp only [List.flatten_cons, List.append_assoc] at heq
    obtain ⟨c1, h1, h1r, _⟩ := readFrom_one hf chunks buff _ heq
    obtain ⟨r, c2, h2, h2r⟩ := ih (fun g hg => hwf g (List.mem_cons_of_mem _ hg)) c1.chunks c1.buff rest h1r
    refine ⟨r, c2, ?_, h2r⟩
    simp only [List.length_cons, readN, h1, h2]

/-- promptness: the frame is returned as soon as its last byte has arrived — the chunks consumed by the
    call (`used`) are a prefix of those offered, and without the last consumed chunk the frame was
    not yet complete (so no chunk beyond the one holding the frame's last byte is read). -/
theorem framer_prompt {f : Bytes} (h : WF f) (chunks : List Bytes) (buff rest : Bytes)
    (heq : buff ++ chunks.flatten = f ++ rest) :
    ∃ c' used, readFrom chunks buff = (.frame f, c') ∧ chunks = used ++ c'.chunks ∧
      (∀ u, used = u ++ [used.getLast?.getD []] → (buff ++ u.flatten).length < f.length ∨ used = []) := by
  obtain ⟨c', h1, _, used, h3, h4⟩ := readFrom_one h chunks buff rest heq
  exact ⟨c', used, h1, h3, h4⟩

/-- for EVERY input (well-formed or not): a successful read removes exactly the returned bytes from
    the stream and returns at least one byte (in fact at least the 4-byte header). -/
theorem read_consumes (chunks : List Bytes) (buff f : Bytes) (c' : Conn)
    (h : readFrom chunks buff = (.frame f, c')) :
    buff ++ chunks.flatten = f ++ (c'.buff ++ c'.chunks.flatten) ∧ 0 < f.length := by
  obtain ⟨h1, h2⟩ := readFrom_frame_consumes chunks buff f c' h
  exact ⟨h1, by omega⟩

/-- bytes that cannot begin a frame (no valid channel number, ≥ 20 bytes, no magic cookie) are an
    error, never data -/
theorem garbage_is_error (b0 b1 b2 b3 : UInt8) (rest : Bytes) (chunks : List Bytes)
    (hnum : chanValid (be16 b0 b1) = false) (hlen : 16 ≤ rest.length) (hck : rest.take 4 ≠ cookie) :
    consume (b0 :: b1 :: b2 :: b3 :: rest) = .invalid ∧
    (readFrom chunks (b0 :: b1 :: b2 :: b3 :: rest)).1 = .invalid := by
  have hc : consume (b0 :: b1 :: b2 :: b3 :: rest) = .invalid := by
    simp only [consume, hnum, List.length_cons]
    rw [if_neg (by simp), if_neg (by omega), if_neg hck]
  refine ⟨hc, ?_⟩
  cases chunks <;> simp [readFrom, hc]

/-! non-vacuity -/
example : WF (encodeCD 0x4000 [1, 2, 3, 4, 5]) := Or.inl (encodeCD_WF _ _ (by decide) (by decide))
example : WF ([0, 1, 0, 0] ++ cookie ++ List.replicate 12 7) :=
  Or.inr ⟨0, 1, 0, 0, List.replicate 12 7, by simp, by decide, by decide⟩
/-- a two-frame stream cut in the middle of each frame comes out as the two frames -/
example : (readN 2 [[0x40, 0, 0], [1, 9, 0, 0, 0, 0x40], [1, 0, 0]] []).1 =
    [[0x40, 0, 0, 1, 9, 0, 0, 0], [0x40, 1, 0, 0]] := by decide


/-- regenerated: the framer classifies from the 4-byte header (no longer waits for 9 bytes), and the
    STUN header size / padding unit are the model's -/
theorem framer_consts_regenerated :
    Gen.Consts.framer_minHeader = 4 ∧ Gen.Consts.proto_stunHeaderSize = 20 ∧ Gen.Consts.proto_padding = 4 ∧
    Gen.Consts.proto_channelDataHeaderSize = 4 := by decide

/-! ### the whole read loop -/

/-- nothing left on the stream: the next call reports end of stream, never a frame -/
theorem readFrom_empty : ∀ (chunks : List Bytes) (buff : Bytes), buff ++ chunks.flatten = [] →
    (readFrom chunks buff).1 = .eof := by
  intro chunks
  induction chunks with
  | nil => intro buff h; simp at h; subst h; simp [readFrom, consume]
  | cons ch chs ih =>
    intro buff h
    simp only [List.flatten_cons, List.append_eq_nil_iff] at h
    obtain ⟨hb, hc, hr⟩ := h
    subst hb; subst hc
    simp only [readFrom, consume, List.append_nil]
    exact ih [] (by simpa using hr)

/-- the whole read loop (server.go `readLoop` over a STUNConn), ∀ frame sequences, ∀ segmentations:
    a stream that is exactly a concatenation of frames yields exactly those frames, in order, and then
    the end of the stream — no frame is lost, duplicated, merged, split or invented, and the loop ends
    with EOF, not with an error. -/
theorem readloop_exact : ∀ (fs : List Bytes), (∀ f ∈ fs, WF f) →
    ∀ (fuel : Nat) (chunks : List Bytes) (buff : Bytes), buff ++ chunks.flatten = fs.flatten →
      fs.length < fuel → readAll fuel chunks buff = (fs, some .eof) := by
  intro fs
  induction fs with
  | nil =>
    intro _ fuel chunks buff heq hf
    obtain ⟨k, rfl⟩ : ∃ k, fuel = k + 1 := ⟨fuel - 1, by simp at hf; omega⟩
    have h := readFrom_empty chunks buff (by simpa using heq)
    simp only [readAll]
    split
    · rename_i f c hrf; rw [hrf] at h; cases h
    · rename_i r c hne hrf; rw [hrf] at h; simp at h; subst h; rfl
  | cons f fs ih =>
    intro hwf fuel chunks buff heq hf
    obtain ⟨k, rfl⟩ : ∃ k, fuel = k + 1 := ⟨fuel - 1, by simp at hf; omega⟩
    have hfw : WF f := hwf f List.mem_cons_self
    simp only [List.flatten_cons] at heq
    obtain ⟨c1, h1, h1r, _⟩ := readFrom_one hfw chunks buff _ heq
    have h2 := ih (fun g hg => hwf g (List.mem_cons_of_mem _ hg)) k c1.chunks c1.buff h1r
      (by simp at hf; omega)
    simp only [readAll, h1, h2]

/-- segmentation independence stated outright: two ways of cutting the same byte stream into reads
    give the same frames and the same end of loop -/
theorem readloop_segmentation_independent (fs : List Bytes) (hwf : ∀ f ∈ fs, WF f)
    (chunks₁ chunks₂ : List Bytes) (h₁ : chunks₁.flatten = fs.flatten) (h₂ : chunks₂.flatten = fs.flatten)
    (fuel₁ fuel₂ : Nat) (hf₁ : fs.length < fuel₁) (hf₂ : fs.length < fuel₂) :
    readAll fuel₁ chunks₁ [] = readAll fuel₂ chunks₂ [] := by
  rw [readloop_exact fs hwf fuel₁ chunks₁ [] (by simpa using h₁) hf₁,
      readloop_exact fs hwf fuel₂ chunks₂ [] (by simpa using h₂) hf₂]

/-- a stream that ends inside a frame: the call reports end of stream — never an error, never data -/
theorem readFrom_partial_eof {g : Bytes} (hg : WF g) : ∀ (chunks : List Bytes) (buff t : Bytes),
    g = (buff ++ chunks.flatten) ++ t → t ≠ [] → (readFrom chunks buff).1 = .eof := by
  intro chunks
  induction chunks with
  | nil =>
    intro buff t h ht
    have hc := Turn.consume_prefix hg buff t (by simpa using h) ht
    simp [readFrom, hc]
  | cons ch chs ih =>
    intro buff t h ht
    have hc := Turn.consume_prefix hg buff (ch ++ chs.flatten ++ t) (by simpa using h) (by simp [ht])
    simp only [readFrom, hc]
    exact ih (buff ++ ch) t (by simpa using h) ht

/-- a stream that ends in the middle of a frame: the complete frames come out, the partial one never
    does, and the loop ends with EOF -/
theorem readloop_truncated (fs : List Bytes) (hwf : ∀ f ∈ fs, WF f) {g : Bytes} (hg : WF g)
    (p t : Bytes) (hp : g = p ++ t) (ht : t ≠ []) :
    ∀ (fuel : Nat) (chunks : List Bytes) (buff : Bytes), buff ++ chunks.flatten = fs.flatten ++ p →
      fs.length < fuel → (readAll fuel chunks buff).1 = fs := by
  induction fs with
  | nil =>
    intro fuel chunks buff heq hf
    obtain ⟨k, rfl⟩ : ∃ k, fuel = k + 1 := ⟨fuel - 1, by simp at hf; omega⟩
    simp only [readAll]
    split
    · rename_i f c hrf
      have h := readFrom_partial_eof hg chunks buff t (by simp at heq; rw [heq]; exact hp) ht
      rw [hrf] at h; cases h
    · rfl
  | cons f fs ih =>
    intro fuel chunks buff heq hf
    obtain ⟨k, rfl⟩ : ∃ k, fuel = k + 1 := ⟨fuel - 1, by simp at hf; omega⟩
    have hfw : WF f := hwf f List.mem_cons_self
    simp only [List.flatten_cons, List.append_assoc] at heq
    obtain ⟨c1, h1, h1r, _⟩ := readFrom_one hfw chunks buff _ heq
    have h2 := ih (fun g hg => hwf g (List.mem_cons_of_mem _ hg)) k c1.chunks c1.buff h1r
      (by simp at hf; omega)
    simp only [readAll, h1, h2]

/-! non-vacuity of the whole-loop theorems: three frames (ChannelData, STUN, ChannelData with padding) cut at
    awkward places come out whole and the loop ends with EOF; cut short, the partial frame never comes out -/
example : readAll 9 [[0x40, 0, 0], [1, 9, 0, 0, 0, 0, 1, 0, 0, 0x21, 0x12], [0xA4, 0x42] ++ List.replicate 12 7 ++ [0x40],
    [1, 0, 0]] [] =
    ([[0x40, 0, 0, 1, 9, 0, 0, 0], [0, 1, 0, 0] ++ cookie ++ List.replicate 12 7, [0x40, 1, 0, 0]], some .eof) := by decide
example : (readAll 9 [[0x40, 0, 0, 1, 9, 0, 0, 0, 0x40, 1, 0]] []).1 = [[0x40, 0, 0, 1, 9, 0, 0, 0]] := by decide

end Turn.C10
