/-
C02 — only peers a client authorised can reach it through its relayed address.
-/
import TurnModel.Lemmas.ServerInv
import TurnModel.Lemmas.ServerUniq
namespace Turn.C02
open Turn.Srv

/-- A datagram arriving at relayed address `relay` from `frm` never changes the server state, and is
    forwarded iff the allocation that owns `relay` holds an unexpired channel binding for exactly
    `frm` (IP *and* port) — then as ChannelData on that number — or else an unexpired permission for
    `frm`'s IP — then as a Data indication naming `frm`.  In every other case nothing is sent to
    anyone.  The only addressee is the owner, and the payload is the datagram's. -/
theorem udp_gated {c : Cfg} (hc : CfgOK c) {s : State} (hr : Reach c s) (relay frm : Addr) (data : Bytes) :
    (step c s (.peerData relay frm data)).1 = s ∧
    ((step c s (.peerData relay frm data)).2 = [] ∨
     ∃ a, a ∈ s.allocs ∧ a.relay = relay ∧ a.tcp = false ∧ data.length ≤ c.rtpMTU ∧
       ((∃ ch ∈ a.chans, ch.peer = frm ∧ s.now < ch.expiry ∧
           (step c s (.peerData relay frm data)).2 = [.chanData a.key ch.num data]) ∨
        ((∀ ch ∈ a.chans, ch.peer ≠ frm) ∧ ∃ p ∈ a.perms, p.ip = frm.ip ∧ s.now < p.expiry ∧
           (step c s (.peerData relay frm data)).2 = [.dataInd a.key frm data]))) := by
  refine ⟨rfl, ?_⟩
  simp only [step, hPeerData]
  split
  · exact Or.inl rfl
  · rename_i a ha
    have hm : a ∈ s.allocs := List.mem_of_find?_eq_some ha
    have hra : a.relay = relay ∧ a.tcp = false := by
      have := List.find?_some ha
      simpa using this
    have hl := reach_inv (live_point hc) hr a hm
    split
    · exact Or.inl rfl
    · rename_i hlen
      split
      · rename_i ch hch
        obtain ⟨hcm, hcp⟩ := chanByAddr_some hch
        exact Or.inr ⟨a, hm, hra.1, hra.2, by omega, Or.inl ⟨ch, hcm, hcp, hl.2.2 ch hcm, rfl⟩⟩
      · rename_i hnone
        split
        · rename_i hp
          obtain ⟨p, hpm, hpi⟩ := hasPerm_iff.mp hp
          refine Or.inr ⟨a, hm, hra.1, hra.2, by omega, Or.inr ⟨?_, p, hpm, hpi, hl.2.1 p hpm, rfl⟩⟩
          intro ch hcm hcp
          unfold chanByAddr at hnone
          rw [List.find?_eq_none] at hnone
          have := hnone ch hcm
          simp [hcp] at this
        · exact Or.inl rfl

/-- the owner of a relayed address is unique: at most one allocation has it (so "the owning client"
    is well defined and nobody else can be addressed) -/
theorem relay_owner_unique {c : Cfg} {s : State} (hr : Reach c s) {a b : Alloc} (ha : a ∈ s.allocs) (hb : b ∈ s.allocs)
    (h : a.relay = b.relay) (ht : a.tcp = b.tcp) : a = b :=
  inj_of_nodup_map (fun a => (a.relay, a.tcp)) (unique_reach hr).2 ha hb (by simp [h, ht])

/-- An inbound TCP connection at the relayed address of a TCP allocation is announced to the owner
    (ConnectionAttempt) only if the allocation holds an unexpired permission for the sender's IP;
    otherwise it is closed and nothing is sent to any client. -/
theorem tcp_gated {c : Cfg} (hc : CfgOK c) {s : State} (hr : Reach c s) (relay frm : Addr) (cid : Nat) :
    (∀ o ∈ (step c s (.peerConn relay frm cid)).2,
        (∃ lid, o = .connClosed lid cid frm) ∨
        ∃ a, a ∈ s.allocs ∧ a.relay = relay ∧ a.tcp = true ∧ o = .connAttempt a.key frm cid ∧
          ∃ p ∈ a.perms, p.ip = frm.ip ∧ s.now < p.expiry) := by
  intro o ho
  simp only [step] at ho
  split at ho
  · simp at ho
  · rename_i a ha
    have hm : a ∈ s.allocs := List.mem_of_find?_eq_some ha
    have hra : a.relay = relay ∧ a.tcp = true := by
      have := List.find?_some ha
      simpa using this
    have hl := reach_inv (live_point hc) hr a hm
    split at ho
    · simp at ho; exact Or.inl ⟨_, ho⟩
    · rename_i hp
      split at ho
      · simp at ho; exact Or.inl ⟨_, ho⟩
      · simp only [List.mem_singleton] at ho
        obtain ⟨p, hpm, hpi⟩ := hasPerm_iff.mp (by simpa using hp)
        exact Or.inr ⟨a, hm, hra.1, hra.2, ho, p, hpm, hpi, hl.2.1 p hpm⟩

/-! non-vacuity: same IP / other port is forwarded under a permission but not under a binding -/
def cfg0 : Cfg :=
  { permT := 300 * sec, chanT := 600 * sec, lifeT := 600 * sec, maxLife := 3600 * sec, rtpMTU := 1600
    inMTU := 1600, bindT := 30 * sec, resvT := 30 * sec, strict := false, hasAuth := true, hasQuota := false
    relay4 := ⟨false, 1⟩, relay6 := ⟨true, 1⟩, lis := [⟨false, 1, false, [], []⟩] }
def okCred : Cred := ⟨true, true, true, true, true, true, true, "alice"⟩
def k0 : Key := ⟨0, ⟨⟨false, 7⟩, 4000⟩⟩
def hist0 : List Op := [
  .msg k0 100 (.allocate 1 okCred .absent (.val 17) false .absent .absent .absent ⟨some 50001, true, none, ""⟩),
  .msg k0 100 (.chanBind 2 okCred (.val 0x4000) (.val ⟨⟨false, 9⟩, 9000⟩))]
set_option maxRecDepth 8000 in
example : (step cfg0 (run cfg0 init hist0).1 (.peerData ⟨⟨false, 1⟩, 50001⟩ ⟨⟨false, 9⟩, 9000⟩ [5])).2 =
    [.chanData k0 0x4000 [5]] := by decide
set_option maxRecDepth 8000 in
example : (step cfg0 (run cfg0 init hist0).1 (.peerData ⟨⟨false, 1⟩, 50001⟩ ⟨⟨false, 9⟩, 9001⟩ [5])).2 =
    [.dataInd k0 ⟨⟨false, 9⟩, 9001⟩ [5]] := by decide
set_option maxRecDepth 8000 in
example : (step cfg0 (run cfg0 init hist0).1 (.peerData ⟨⟨false, 1⟩, 50001⟩ ⟨⟨false, 8⟩, 9000⟩ [5])).2 = [] := by decide

end Turn.C02
