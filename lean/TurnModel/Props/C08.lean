/-
C08 — channel bindings form a one-to-one map within the valid number range.
-/
import TurnModel.Lemmas.ServerInv
import TurnModel.Lemmas.ServerHandlers
import TurnModel.Gen.Consts
namespace Turn.C08
open Turn.Srv

/-- in every reachable state, within every allocation: bound numbers are pairwise distinct, bound
    peers (IP and port) are pairwise distinct, and every bound number is in 0x4000–0x7FFF -/
theorem chan_bijection {c : Cfg} {s : State} (hr : Reach c s) : ∀ a ∈ s.allocs,
    (a.chans.map (·.num)).Nodup ∧ (a.chans.map (·.peer)).Nodup ∧ ∀ ch ∈ a.chans, chanValid ch.num = true :=
  reach_inv (chanbij_point c) hr

/-- each number maps to exactly one peer and each peer to at most one number -/
theorem chan_functional {c : Cfg} {s : State} (hr : Reach c s) (a : Alloc) (ha : a ∈ s.allocs) (x y : Chan)
    (hx : x ∈ a.chans) (hy : y ∈ a.chans) : (x.num = y.num → x = y) ∧ (x.peer = y.peer → x = y) :=
  ⟨fun h => inj_of_nodup (·.num) (chan_bijection hr a ha).1 hx hy h,
   fun h => inj_of_nodup (·.peer) (chan_bijection hr a ha).2.1 hx hy h⟩

/-- a number outside 0x4000–0x7FFF is never bound: the request is answered 400 -/
theorem invalid_number_rejected (c : Cfg) (lid : Nat) (a : Alloc) (n : Nat) (peer : Attr Addr) (h : chanValid n = false) :
    bindChecks c k a (.val n) peer = .error 400 := by
  simp [bindChecks, h]

/-- binding a bound number to another peer, or a bound peer to another number, is answered 400 -/
theorem conflict_400 (c : Cfg) (lid : Nat) (a : Alloc) (n : Nat) (p : Addr) (hv : chanValid n = true)
    (hf : famOK p.ip a.fam = true) (hg : granted c k p.ip = true) (hc : bindConflict a n p = true) :
    bindChecks c k a (.val n) (.val p) = .error 400 := by
  simp [bindChecks, hv, hf, hg, hc]

/-- what "conflict" means: some stored binding has the number with another peer or the peer with another number -/
theorem conflict_iff (a : Alloc) (n : Nat) (p : Addr) (hbij : ChanBij 0 a) :
    bindConflict a n p = true ↔ ∃ ch ∈ a.chans, (ch.num = n ∧ ch.peer ≠ p) ∨ (ch.peer = p ∧ ch.num ≠ n) := by
  constructor
  · intro h
    simp only [bindConflict, Bool.or_eq_true] at h
    rcases h with h | h
    · split at h
      · rename_i ch hch
        obtain ⟨hm, hp⟩ := chanByAddr_some hch
        exact ⟨ch, hm, Or.inr ⟨hp, by simpa using h⟩⟩
      · simp at h
    · split at h
      · rename_i ch hch
        obtain ⟨hm, hn⟩ := chanByNum_some hch
        exact ⟨ch, hm, Or.inl ⟨hn, by simpa using h⟩⟩
      · simp at h
  · rintro ⟨ch, hm, h⟩
    cases hcf : bindConflict a n p with
    | true => rfl
    | false =>
      have := no_conflict_same hbij hcf hm
      rcases h with ⟨h1, h2⟩ | ⟨h1, h2⟩
      · exact absurd (this.1 h1) h2
      · exact absurd (this.2 h1) h2

theorem msg_ne_cb {tid cr num peer} : ∀ t c' cid, Msg.chanBind tid cr num peer ≠ .connBind t c' cid := by intro _ _ _ h; cases h

/-- **a rejected ChannelBind changes nothing**: whenever a ChannelBind is answered with an error
    (conflict, bad number, refused or wrong-family peer, missing attribute), the server state is
    exactly what it was -/
theorem rejected_changes_nothing (c : Cfg) (s : State) (k : Key) (sz tid : Nat) (cr : Cred) (num : Attr Nat) (peer : Attr Addr)
    (k' : Key) (me : String) (code tid' : Nat) (ra : RA)
    (h : Out.resp k' me false code tid' ra ∈ (step c s (.msg k sz (.chanBind tid cr num peer))).2) :
    (step c s (.msg k sz (.chanBind tid cr num peer))).1 = s := by
  obtain ⟨hacc, ho⟩ := step_msg_outs c s k sz _ _ msg_ne_cb h
  rcases ho with ho | ho
  · simp only [handle] at ho
    obtain ⟨h1, h2⟩ := hChanBind_error_keep ho
    rw [step_msg_accepted c s k sz _ hacc msg_ne_cb]
    simp only [handle, h1, h2, applyUpd]
  · exact absurd ho (applyUpd_outs_not_resp _ _ _ _ _ _ _ _ _)

/-- repeating an existing binding is no conflict (so it succeeds and refreshes, see C07) -/
theorem rebind_no_conflict (a : Alloc) (ch : Chan) (hbij : ChanBij 0 a) (hm : ch ∈ a.chans) :
    bindConflict a ch.num ch.peer = false := by
  cases hcf : bindConflict a ch.num ch.peer with
  | false => rfl
  | true =>
    obtain ⟨x, hx, h⟩ := (conflict_iff a ch.num ch.peer hbij).mp hcf
    rcases h with ⟨h1, h2⟩ | ⟨h1, h2⟩
    · exact absurd (congrArg Chan.peer (inj_of_nodup (·.num) hbij.1 hx hm h1)) h2
    · exact absurd (congrArg Chan.num (inj_of_nodup (·.peer) hbij.2.1 hx hm h1)) h2

/-- every ChannelData the server emits toward a client carries a number in 0x4000–0x7FFF -/
theorem emitted_numbers_valid {c : Cfg} {s : State} (hr : Reach c s) (op : Op) (k : Key) (n : Nat) (d : Bytes)
    (hop : ∃ relay frm data, op = .peerData relay frm data)
    (h : Out.chanData k n d ∈ (step c s op).2) : chanValid n = true := by
  obtain ⟨relay, frm, data, rfl⟩ := hop
  simp only [step, hPeerData] at h
  split at h; · simp at h
  rename_i a ha
  have hm : a ∈ s.allocs := List.mem_of_find?_eq_some ha
  split at h; · simp at h
  split at h
  · rename_i ch hch
    simp only [List.mem_singleton, Out.chanData.injEq] at h
    obtain ⟨_, rfl, _⟩ := h
    exact (chan_bijection hr a hm).2.2 ch (chanByAddr_some hch).1
  · split at h <;> simp at h

/-! non-vacuity -/
def cfg0 : Cfg :=
  { permT := 300 * sec, chanT := 600 * sec, lifeT := 3600 * sec, maxLife := 3600 * sec, rtpMTU := 1600
    inMTU := 1600, bindT := 30 * sec, resvT := 30 * sec, strict := false, hasAuth := true, hasQuota := false
    relay4 := ⟨false, 1⟩, relay6 := ⟨true, 1⟩, lis := [⟨false, 1, false, [], []⟩] }
def okCred : Cred := ⟨true, true, true, true, true, true, true, "alice"⟩
def k0 : Key := ⟨0, ⟨⟨false, 7⟩, 4000⟩⟩
def hist0 : List Op := [
  .msg k0 100 (.allocate 1 okCred .absent (.val 17) false .absent .absent .absent ⟨some 50001, true, none, ""⟩),
  .msg k0 100 (.chanBind 2 okCred (.val 0x4000) (.val ⟨⟨false, 9⟩, 9000⟩))]
-- same number, peer differing only in port: 400; number 1: 400; the identical binding again: success
set_option maxRecDepth 8000 in
example : (step cfg0 (run cfg0 init hist0).1 (.msg k0 100 (.chanBind 3 okCred (.val 0x4000) (.val ⟨⟨false, 9⟩, 9001⟩)))).2 =
    [.resp k0 "ChannelBind" false 400 3 {}] := by decide
set_option maxRecDepth 8000 in
example : (step cfg0 (run cfg0 init hist0).1 (.msg k0 100 (.chanBind 3 okCred (.val 1) (.val ⟨⟨false, 9⟩, 9001⟩)))).2 =
    [.resp k0 "ChannelBind" false 400 3 {}] := by decide
set_option maxRecDepth 8000 in
example : (step cfg0 (run cfg0 init hist0).1 (.msg k0 100 (.chanBind 3 okCred (.val 0x4000) (.val ⟨⟨false, 9⟩, 9000⟩)))).2 =
    [.resp k0 "ChannelBind" true 0 3 {}] := by decide


/-- regenerated: the valid range in today's source is the model's `chanValid` range 0x4000–0x7FFF -/
theorem range_regenerated : Gen.Consts.proto_MinChannelNumber = 0x4000 ∧ Gen.Consts.proto_MaxChannelNumber = 0x7FFF ∧
    ∀ n, chanValid n = (decide (0x4000 ≤ n) && decide (n ≤ 0x7FFF)) := by
  refine ⟨by decide, by decide, fun n => rfl⟩

end Turn.C08
