/-
C18 — concurrent use is free of data races, lock-ups and teardown crashes.   PARTIAL.
Provable core, over the control skeletons REGENERATED from /repo on every run (TurnModel/Gen/*):
  * `lock_checker_sound`      ∀ programs: an accepted skeleton leaves no lock held on any path
  * `all_functions_balanced`  every function/closure that touches a sync mutex is accepted
  * `handlers_guarded`        every state-changing call in a request handler is dominated by its guards
  * `addperm_vs_close`        AddPermission ‖ Close never meet an unarmed timer
Outside the model: data races in the sense of the Go memory model and scheduler-dependent deadlock
outside the modelled mutexes (race detector / stress runs are supporting evidence only).
-/
import TurnModel.Lemmas.SkelSound
import TurnModel.Gen.Locks
import TurnModel.Model.LockOrder
import TurnModel.Gen.Eff
import TurnModel.Gen.Facts
namespace Turn.C18
open Skel

/-- ∀ programs (every statement tree, loops any number of iterations, any branch choices): if the
    checker accepts, then on every execution path the deferred releases empty the held set at the
    function's exit and no lock is ever released unheld -/
theorem lock_checker_sound (s : Stmt) (hb : balanced s = true) :
    (∀ o σ', Exec s ⟨[], []⟩ o σ' → runDefers σ'.held σ'.defers = some []) ∧ ¬ Fault s ⟨[], []⟩ := by
  refine ⟨balanced_sound s hb, ?_⟩
  intro hf
  unfold balanced at hb
  split at hb
  · simp at hb
  · rename_i R hR; exact chk_no_fault hf R hR

/-- every function and closure of the five packages that touches a mutex never returns, on any
    control-flow path, with a lock still held (regenerated; re-checked by the kernel on every run) -/
theorem all_functions_balanced : Gen.Locks.all.all (fun p => balanced p.2) = true := by decide

/-- The regenerated skeletons also carry a `need l` in front of every access to a field documented as
    protected by mutex `l` of the same struct (the maps and slices of Allocation, Manager, TransactionMap,
    bindingManager, permissionMap; `_nonce`/`_lifetime`/`_refreshedAt`/`stopFunc`; Client.relayedConn /
    tcpAllocation) and in front of every Find / Delete / CloseAndDeleteAll on the client's transaction
    table (Client.mutexTrMap).  `balanced` rejects a skeleton in which some path reaches a `need l` without
    `l` (`chk_no_fault`), so the theorem above is also: **every such access happens with its mutex held, on
    every control-flow path** — for today's source. -/
theorem guarded_accesses_locked : ∀ p ∈ Gen.Locks.all, balanced p.2 = true := by
  have h := all_functions_balanced
  rw [List.all_eq_true] at h
  exact h

/-- non-vacuity: an access without the lock, or after the lock was released, is rejected -/
example : balanced (.seq (.need 3) .ret) = false := by decide
example : balanced (.seq (.acq 3) (.seq (.rel 3) (.need 3))) = false := by decide
example : balanced (.seq (.acq 3) (.seq (.deferRel 3) (.seq (.need 3) .ret))) = true := by decide

/-! guard-before-effect for the request handlers -/

def gAuth : Nat := 1000
def gOwner : Nat := 1001
def gGrant : Nat := 1002
def gFamily : Nat := 1003
def gValid : Nat := 1004

/-- what must have been checked before each state-changing call (auditable table).  A closure passed
    to a call (CreatePermission's per-peer loop) requires what it relies on from its parent. -/
def req (f : Nat) : List Nat :=
  if f = Gen.Eff.id_CreateAllocation ∨ f = Gen.Eff.id_CreateReservation ∨ f = Gen.Eff.id_SetResponseCache then [gAuth]
  else if f = Gen.Eff.id_Refresh ∨ f = Gen.Eff.id_DeleteAllocation then [gAuth, gOwner]
  -- CreatePermission builds the permissions of all its peers first (`NewPermission`, per peer, after the family test and the
  -- permission handler) and installs them (`AddPermission`) only when every peer was accepted
  else if f = Gen.Eff.id_NewPermission then [gAuth, gOwner, gFamily, gGrant]
  else if f = Gen.Eff.id_AddPermission then [gAuth, gOwner]
  else if f = Gen.Eff.id_AddChannelBind then [gAuth, gOwner, gValid, gFamily, gGrant]
  else if f = Gen.Eff.id_CreateTCPConnection then [gAuth, gOwner, gGrant]
  else if f = Gen.Eff.id_GetTCPConnection then [gAuth]
  else match Gen.Eff.closures.lookup f with
    | some "server.handleCreatePermissionRequest$0" => [gAuth, gOwner]
    | _ => []

/-- guards a closure may assume (those its parent requires at the call that runs it) -/
def ctx (name : String) : List Nat :=
  if name = "server.handleCreatePermissionRequest$0" then [gAuth, gOwner] else []

/-- in every request handler, every call that changes server state is reached only after the request
    was authenticated, the allocation was looked up for the authenticated user, the peer passed the
    permission handler and the family test, and (ChannelBind) the number was validated -/
theorem handlers_guarded : Gen.Eff.all.all (fun p => guardedFrom req (ctx p.1) p.2) = true := by decide

theorem handler_no_unguarded_effect (name : String) (s : Stmt) (h : (name, s) ∈ Gen.Eff.all) :
    ¬ Fault (instrument req s) ⟨ctx name, []⟩ :=
  guarded_sound req (ctx name) s (List.all_eq_true.mp handlers_guarded (name, s) h)

/-! AddPermission ‖ Close: the atomic blocks of the two code paths, all interleavings -/

inductive Act | publish | arm | callback | snapshot | stopAll
deriving DecidableEq, Repr

structure S where
  published : Bool := false
  armed : Bool := false
  snap : Bool := false      -- the permission is in Close's snapshot (ListPermissions)
  fault : Bool := false     -- Stop() on a nil timer
deriving DecidableEq, Repr

def act (s : S) : Act → S
  | .publish => { s with published := true }
  | .arm => { s with armed := true }
  | .callback => s
  | .snapshot => { s with snap := s.published }
  | .stopAll => if s.snap && !s.armed then { s with fault := true } else s

/-- AddPermission's atomic blocks: with `armsUnderLock` the permission is published and its timer armed
    inside one critical section of permissionsLock (ListPermissions needs the same lock), then the
    lifecycle callback runs; otherwise publish, callback, arm are three separate steps -/
def addPerm (armsUnderLock : Bool) : List (List Act) :=
  if armsUnderLock then [[.publish, .arm], [.callback]] else [[.publish], [.callback], [.arm]]

def close : List (List Act) := [[.snapshot], [.stopAll]]

/-- all interleavings of two sequences of atomic blocks (`fuel` ≥ total number of blocks) -/
def interleavingsF : Nat → List (List Act) → List (List Act) → List (List Act)
  | 0, as, bs => [as.flatten ++ bs.flatten]
  | _ + 1, [], bs => [bs.flatten]
  | _ + 1, as, [] => [as.flatten]
  | n + 1, a :: as, b :: bs =>
    (interleavingsF n as (b :: bs)).map (a ++ ·) ++ (interleavingsF n (a :: as) bs).map (b ++ ·)

def interleavings (as bs : List (List Act)) : List (List Act) := interleavingsF (as.length + bs.length) as bs

def faults (il : List Act) : Bool := (il.foldl act {}).fault

/-- with the timer armed under the lock, no interleaving of AddPermission (slow callback included) with
    Close or an expiring allocation ever stops an unarmed timer -/
theorem addperm_vs_close_model : (interleavings (addPerm true) close).all (fun il => !faults il) = true := by decide

/-- the historical order (publish, callback, arm) does crash: finding F6 -/
theorem addperm_late_arm_faults : (interleavings (addPerm false) close).any faults = true := by decide

/-- regenerated obligation: today's AddPermission arms the timer inside the critical section and runs
    the callback after it -/
theorem addperm_order : Gen.Facts.addPermission_arms_under_lock = true ∧ Gen.Facts.addPermission_callback_after_unlock = true := by
  decide

theorem addperm_vs_close :
    (interleavings (addPerm Gen.Facts.addPermission_arms_under_lock) close).all (fun il => !faults il) = true := by
  rw [addperm_order.1]; exact addperm_vs_close_model

/-! non-vacuity -/
example : balanced (.seq (.acq 0) (.seq (.alt .ret .skip) (.rel 0))) = false := by decide
example : balanced (.seq (.acq 0) (.seq (.alt (.seq (.rel 0) .ret) .skip) (.rel 0))) = true := by decide
example : Gen.Locks.all.length ≥ 40 := by decide

/-! ### lock order across functions

`Skel.edges` walks every control-flow path of every lock skeleton (same path semantics as `chk`) and records,
for each mutex taken — directly, or inside a statically resolved callee (`Gen.Locks.acquires`, the transitive
summary the translator derives from the call graph) — a pair (mutex already held, mutex taken).  Mutexes are
identified per struct field (all instances of one type together; read and write side of one RWMutex together),
which over-approximates the instance-level order. -/

/-- the lock-order graph regenerated from the current source -/
def lockOrder : List (Nat × Nat) := allEdges Gen.Locks.mutexOf Gen.Locks.acquires Gen.Locks.all

/-- every skeleton is analysed to the end (no path is cut short by a fault) -/
theorem lock_order_total :
    Gen.Locks.all.all (fun p => (edges Gen.Locks.mutexOf Gen.Locks.acquires p.2 ⟨[], []⟩).isSome) = true := by decide

/-- **lock_order_acyclic**: no mutex is taken while it is already held, and there is no cycle
    "A held while taking B, …, Z held while taking A" among the module's mutexes — no lock-order lock-up. -/
theorem lock_order_acyclic : acyclic 6 lockOrder = true := by decide

/-- the graph is not empty: nested acquisition does occur and is analysed (Manager.lock → channelBindingsLock → permissionsLock …) -/
example : lockOrder.length ≥ 10 := by decide
/-- a re-acquisition and a two-lock cycle are both rejected by the same check -/
example : acyclic 6 (allEdges [(0, 0), (1, 0)] [] [("f", .seq (.acq 0) (.seq (.acq 1) (.seq (.rel 1) (.rel 0))))]) = false := by decide
example : acyclic 6 (allEdges [] [(7, [0])] [("f", .seq (.acq 0) (.seq (.acq 1) (.seq (.rel 1) (.rel 0)))),
    ("g", .seq (.acq 1) (.seq (.call 7) (.rel 1)))]) = false := by decide
example : acyclic 6 (allEdges [] [(7, [2])] [("f", .seq (.acq 0) (.seq (.acq 1) (.seq (.rel 1) (.rel 0)))),
    ("g", .seq (.acq 1) (.seq (.call 7) (.rel 1)))]) = true := by decide

end Turn.C18
