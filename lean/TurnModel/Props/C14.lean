/-
C14 — a live client keeps its relay alive indefinitely, and Close releases it.
Model: Model/KeepAlive.lean (M7): the client's three periodic drivers and their transactions (with every
loss / response-loss / duplication pattern that leaves one answered transmission per transaction) composed
with the server's expiry timers and its one-hour nonce window.  The same definitions are replayed against
the real client and the real server by harness H6.
-/
import TurnModel.Lemmas.KeepAlive
import TurnModel.Model.Txn
import TurnModel.Props.C12
import TurnModel.Gen.Consts
namespace Turn.C14
open Turn.KeepAlive

/-! ## 1. the retransmission clock is the one of the transaction model (M5 / C12) -/

theorem interval_is_txn_interval (i : Nat) : interval i = Turn.C12.intervals 200 i := by
  rw [Turn.C12.intervals_closed 200 (by decide) i]; rfl

theorem off_le_dTx : ∀ i, i ≤ maxIdx → off i ≤ dTx := by
  intro i hi
  have : i = 0 ∨ i = 1 ∨ i = 2 ∨ i = 3 ∨ i = 4 ∨ i = 5 ∨ i = 6 := by unfold maxIdx at hi; omega
  rcases this with h | h | h | h | h | h | h <;> subst h <;> decide

theorem dTx_val : dTx = 6200 ∧ dH = 18600 := by decide

/-- regenerated constants: RTO 200 ms, cap 1600 ms, 7 transmissions, 3 attempts, and the refresh cadence
    (2 min / 5 min / 30 s) against the server defaults (10 min / 5 min / 10 min) -/
theorem keepalive_consts_regenerated :
    Gen.Consts.turn_defaultRTO = 200 * 1000000 ∧ Gen.Consts.client_maxRtxInterval = 1600 * 1000000 ∧
    Gen.Consts.turn_maxRtxCount = 7 ∧ Gen.Consts.client_maxRetryAttempts = 3 ∧
    Gen.Consts.client_defaultPermRefreshInterval = 120000 * 1000000 ∧
    Gen.Consts.client_defaultBindingRefreshInterval = 300000 * 1000000 ∧
    Gen.Consts.client_defaultBindingCheckInterval = 30000 * 1000000 ∧
    Gen.Consts.proto_DefaultLifetime = 600000 * 1000000 ∧
    Gen.Consts.default_permissionTimeout = 300000 * 1000000 ∧
    Gen.Consts.default_channelBindTimeout = 600000 * 1000000 ∧
    Gen.Consts.server_shortNonceLifetime = 60 * 60000 * 1000000 := by decide

/-- the library defaults on both sides (values above, in ms) -/
def defaults (peers : Nat) (rf cp cb : List Pat) : Cfg :=
  { life := 600000, permT := 300000, chanT := 600000, permP := 120000, bindAge := 300000, bindP := 30000,
    peers := peers, lossRf := rf, lossCp := cp, lossCb := cb }

theorem defaults_compatible (peers : Nat) (rf cp cb : List Pat) : Compatible (defaults peers rf cp cb) := by
  have hd : dH = 18600 := by decide
  simp only [Compatible, defaults, hd]; omega

/-! ## 2. abstract keep-alive: refreshes closer together than the timeout keep an entry for ever -/

/-- a server entry with timeout `T`: a refresh at `r` succeeds only while the entry exists -/
def entry (T : Nat) : Option Nat → List Nat → Option Nat
  | e, [] => e
  | none, _ => none
  | some e, r :: rs => if r < e then entry T (some (r + T)) rs else none

/-- consecutive refresh times at most `G` apart (starting from `r0`) -/
def Gaps (G : Nat) : Nat → List Nat → Prop
  | _, [] => True
  | r0, r :: rs => r0 ≤ r ∧ r ≤ r0 + G ∧ Gaps G r rs

/-- **refresh keeps alive, for any number of refreshes**: if every gap is below the timeout, no refresh
    ever finds the entry gone, and after the last one it is good for another `T` -/
theorem refresh_keeps_alive (T G : Nat) (hG : G < T) : ∀ (rs : List Nat) (r0 : Nat), Gaps G r0 rs →
    entry T (some (r0 + T)) rs = some ((r0 :: rs).getLast (by simp) + T) := by
  intro rs
  induction rs with
  | nil => intro r0 _; simp [entry]
  | cons r rs ih =>
    intro r0 h
    obtain ⟨_, h2, h3⟩ := h
    have : r < r0 + T := by omega
    simp only [entry, this, if_true]
    rw [ih r h3]
    simp

/-- …and at every instant between two refreshes the entry is unexpired -/
theorem alive_between (T G r0 r t : Nat) (hG : G < T) (h : r ≤ r0 + G) (ht : t ≤ r) : t < r0 + T := by omega

/-- a periodic driver (periodic_timer.go): the next period starts when the handler returns.  Handler `k`
    starts at `s`, its request is accepted by the server `o` later, it returns `d ≥ o` after its start. -/
def driver (P : Nat) : Nat → List (Nat × Nat) → List Nat
  | _, [] => []
  | s, (o, d) :: rest => (s + o) :: driver P (s + d + P) rest

/-- **schedule bound**: if every handler returns within `D`, consecutive accepted refreshes are at most
    `P + 2·D` apart (at most `P + D` when the response is instantaneous, `o = d`) -/
theorem driver_gaps (P D : Nat) : ∀ (hs : List (Nat × Nat)) (s r0 : Nat), (∀ h ∈ hs, h.1 ≤ h.2 ∧ h.2 ≤ D) →
    r0 ≤ s → s ≤ r0 + P + D → Gaps (P + 2 * D) r0 (driver P s hs) := by
  intro hs
  induction hs with
  | nil => intro _ _ _ _ _; trivial
  | cons h hs ih =>
    intro s r0 hall h1 h2
    obtain ⟨o, d⟩ := h
    have hod := hall (o, d) (by simp)
    simp only [driver, Gaps]
    refine ⟨by omega, by omega, ?_⟩
    exact ih (s + d + P) (s + o) (fun x hx => hall x (by simp [hx])) (by omega) (by simp at hod; omega)

/-- the two together: a driver whose period plus twice its worst handler time is below the server's
    timeout keeps its entry alive over any number of periods -/
theorem driver_keeps_alive (P D T : Nat) (h : P + 2 * D < T) (hs : List (Nat × Nat)) (c : Nat)
    (hall : ∀ x ∈ hs, x.1 ≤ x.2 ∧ x.2 ≤ D) :
    ∃ last, entry T (some (c + T)) (driver P (c + P) hs) = some (last + T) := by
  exact ⟨_, refresh_keeps_alive T (P + 2 * D) h _ c (driver_gaps P D hs (c + P) c hall (by omega) (by omega))⟩

/-! ## 3. the server side of the composed model -/

/-- a request carrying a nonce inside the window, for a live allocation, is accepted and re-arms exactly
    the timers the method is meant to re-arm -/
theorem srv_refresh (s : St) (t lt nonce e : Nat) (hn : minuteOf t - nonce ≤ nonceWindow) (he : s.allocExp = some e) (hl : t < e)
    (hlt : 0 < lt) : srvProc s t (.rf lt) nonce = ({ s with allocExp := some (t + lt) }, .ok) := by
  unfold srvProc
  have h1 : ¬ (minuteOf t - nonce > nonceWindow) := by omega
  have h2 : allocLive s t = true := by simp [allocLive, he, hl]
  simp only [h1, if_false, h2, Bool.not_true, Bool.false_eq_true]
  cases lt with
  | zero => omega
  | succ n => rfl

theorem srv_create_permission (s : St) (t nonce e : Nat) (hn : minuteOf t - nonce ≤ nonceWindow) (he : s.allocExp = some e) (hl : t < e) :
    srvProc s t .cp nonce = ({ s with permExp := List.replicate s.cfg.peers (t + s.cfg.permT) }, .ok) := by
  unfold srvProc
  have h1 : ¬ (minuteOf t - nonce > nonceWindow) := by omega
  have h2 : allocLive s t = true := by simp [allocLive, he, hl]
  simp only [h1, if_false, h2, Bool.not_true, Bool.false_eq_true]

theorem srv_channel_bind (s : St) (t p nonce e : Nat) (hn : minuteOf t - nonce ≤ nonceWindow) (he : s.allocExp = some e) (hl : t < e) :
    srvProc s t (.cb p) nonce =
      ({ s with chanExp := s.chanExp.set p (t + s.cfg.chanT), permExp := s.permExp.set p (t + s.cfg.permT) }, .ok) := by
  unfold srvProc
  have h1 : ¬ (minuteOf t - nonce > nonceWindow) := by omega
  have h2 : allocLive s t = true := by simp [allocLive, he, hl]
  simp only [h1, if_false, h2, Bool.not_true, Bool.false_eq_true]

/-- a stale nonce is answered 438 whatever the request, and changes nothing at the server -/
theorem srv_stale (s : St) (t nonce : Nat) (k : Kind) (hn : nonceWindow < minuteOf t - nonce) : srvProc s t k nonce = (s, .stale) := by
  unfold srvProc; simp [hn]

/-- **stale-nonce recovery**: the nonce handed out with a 438 at `t` is accepted for the next hour, so the
    retry — which starts at `t` and is answered within `dTx` — is never stale again -/
theorem retry_not_stale (t t' : Nat) (h1 : t ≤ t') (h2 : t' ≤ t + 3600000) : minuteOf t' - minuteOf t ≤ nonceWindow := by
  unfold minuteOf nonceWindow; omega

/-! ## 4. Close -/

/-- **close_deletes_partial**: the first copy of Close's Refresh(0) that reaches the server — carrying a
    nonce inside the server's window, for a live allocation — removes the allocation at that very instant -/
theorem close_deletes_partial (s : St) (x : Txn) (e : Nat) (he : s.allocExp = some e) (hl : x.due < e)
    (hn : minuteOf x.due - x.nonce ≤ nonceWindow) (hi : x.i = x.pat.a) :
    (fireCloseTx s x).1.allocExp = none := by
  have hlive : allocLive { s with closeTx := none } x.due = true := by simp [allocLive, he, hl]
  have h1 : ¬ (minuteOf x.due - x.nonce > nonceWindow) := by omega
  have hproc : srvProc { s with closeTx := none } x.due (.rf 0) x.nonce = ({ s with closeTx := none, allocExp := none }, .ok) := by
    simp only [srvProc, h1, if_false, hlive, Bool.not_true, Bool.false_eq_true]
  have hdead : srvProc { s with closeTx := none, allocExp := none } x.due (.rf 0) x.nonce = ({ s with closeTx := none, allocExp := none }, .dead) := by
    simp [srvProc, h1, allocLive]
  have hia : ¬ x.i < x.pat.a := by omega
  have hexp : (transmit { s with closeTx := none } (.rf 0) x).1.allocExp = none := by
    rw [transmit_allocExp _ _ _ hia, hproc]
    split
    · rw [hdead]
    · rfl
  unfold fireCloseTx
  generalize transmit { s with closeTx := none } (.rf 0) x = T at hexp
  obtain ⟨s1, outs, r⟩ := T
  simp only at hexp ⊢
  match r with
  | some .ok => exact hexp
  | some .stale => exact hexp
  | some .dead => simp only; split <;> exact hexp
  | none => simp only; split <;> exact hexp

/-- …and on the default configuration, end to end: Close right after allocating, first copy lost, removes
    the allocation by the retransmission 200 ms later -/
def lossyClose : St × List Out :=
  run (init { defaults 1 [] [] [] with lossRf0 := [⟨1, 0, false⟩] }) [.adv 60000, .close, .count, .adv 200, .count]
theorem close_retransmits : lossyClose.2 = [Out.count 1, Out.resp 60200 (.rf 0) .ok, Out.count 0] := by
  set_option maxRecDepth 100000 in decide

/-- the full statement ("Close removes the allocation at once", always) is FALSE of the model — and of the
    code (finding F13): 61.5 minutes after allocating, with no peer and hence no refresh since minute 60,
    the nonce is stale, every copy of the Refresh(0) is answered 438 and nothing acts on it -/
def staleClose : St × List Out := run (init (defaults 0 [] [] [])) [.adv 3690000, .close, .adv 10000, .count]
theorem close_with_stale_nonce_keeps_allocation :
    Out.count 1 ∈ staleClose.2 ∧ Out.resp 3690000 (.rf 0) .stale ∈ staleClose.2 ∧ staleClose.1.tainted = false := by
  set_option maxRecDepth 100000 in decide

/-! ## 5. the allocation never dies: an invariant of the composed model, for runs of any length -/

/-- no transaction loses all seven of its transmissions -/
def PatsOK (c : Cfg) : Prop :=
  (∀ p ∈ c.lossRf, p.a + p.b ≤ maxIdx) ∧ (∀ p ∈ c.lossCp, p.a + p.b ≤ maxIdx) ∧ (∀ p ∈ c.lossCb, p.a + p.b ≤ maxIdx)

theorem pick_ok (tbl : List Pat) (h : ∀ p ∈ tbl, p.a + p.b ≤ maxIdx) (i : Nat) : (pick tbl i).a + (pick tbl i).b ≤ maxIdx := by
  unfold pick
  split
  · simp
  · rename_i hne
    have hlen : 0 < tbl.length := by
      cases tbl with
      | nil => simp at hne
      | cons _ _ => simp
    have hlt : i % tbl.length < tbl.length := Nat.mod_lt _ hlen
    rw [List.getD_eq_getElem?_getD, List.getElem?_eq_getElem hlt]
    exact h _ (List.getElem_mem hlt)

end Turn.C14

namespace Turn.C14
open Turn.KeepAlive

/-- the in-flight Refresh of the allocation handler is on schedule to be accepted before `e` -/
def TxOK (c : Cfg) (e : Nat) (x : Txn) : Prop :=
  x.pat.a + x.pat.b ≤ maxIdx ∧ x.i ≤ x.pat.a + x.pat.b ∧ x.attempt < maxAttempts ∧
  x.start + (maxAttempts - x.attempt) * dTx < e ∧ (1 ≤ x.attempt → minuteOf x.start ≤ x.nonce) ∧ e ≤ x.due + c.life

/-- the allocation is live, and its handler is either waiting for a timer that fires early enough or in the
    middle of a Refresh that will be accepted early enough -/
def AllocInv (s : St) : Prop :=
  s.dead = false ∧ s.closed = false ∧ s.closeTx = none ∧ ∃ e, s.allocExp = some e ∧ s.now < e ∧
    ((∃ w, s.allocWake = some w ∧ s.allocTx = none ∧ w + dH < e ∧ e ≤ w + s.cfg.life) ∨
     (∃ x, s.allocWake = none ∧ s.allocTx = some x ∧ TxOK s.cfg e x))

theorem TxOK.due_le {c : Cfg} {e : Nat} {x : Txn} (h : TxOK c e x) : x.due ≤ x.start + dTx := by
  obtain ⟨h2, h3, _⟩ := h
  have := off_le_dTx x.i (by omega)
  unfold Txn.due; omega

theorem TxOK.due_lt {c : Cfg} {e : Nat} {x : Txn} (h : TxOK c e x) : x.due < e := by
  have hle := h.due_le
  obtain ⟨_, _, h4, h5, _⟩ := h
  unfold maxAttempts at h4 h5
  have : dTx ≤ (3 - x.attempt) * dTx := Nat.le_mul_of_pos_left _ (by omega)
  omega

theorem allocInv_same {s s' : St} (h : Same s s') (hi : AllocInv s) : AllocInv s' := by
  obtain ⟨c1, c2, c3, c4, c5, c6, c7, c8⟩ := h
  obtain ⟨i1, i2, i0, e, i3, i4, i5⟩ := hi
  refine ⟨c2.trans i1, c3.trans i2, c8.trans i0, e, c4.trans i3, by rw [c5]; exact i4, ?_⟩
  rw [c6, c7, c1]; exact i5

/-- the allocation handler always has an event in the queue, and it is due before the expiry -/
theorem alloc_root_before_expiry {s : St} (hi : AllocInv s) : ∃ e, s.allocExp = some e ∧ ∃ m ∈ roots s, m.1 < e := by
  obtain ⟨_, _, _, e, he, _, h | h⟩ := hi
  · obtain ⟨w, hw, _, h1, _⟩ := h
    have hd : 0 ≤ dH := Nat.zero_le _
    exact ⟨e, he, (w, .alloc), alloc_root_mem s w hw, by simp; omega⟩
  · obtain ⟨x, _, hx, hok⟩ := h
    exact ⟨e, he, (x.due, .allocTx), allocTx_root_mem s x hx, hok.due_lt⟩

theorem off_succ_ge (i : Nat) : off i ≤ off (i + 1) := by simp [off]

theorem init_inv (c : Cfg) (hc : Compatible c) : AllocInv (init c) := by
  obtain ⟨h1, _, _, h4, _⟩ := hc
  refine ⟨rfl, rfl, rfl, c.life, rfl, ?_, Or.inl ⟨c.life / 2, rfl, rfl, h1, ?_⟩⟩
  · show 0 < c.life; omega
  · show c.life ≤ c.life / 2 + c.life; omega

/-- a timer firing: the handler starts its first Refresh attempt -/
theorem fireAlloc_inv (s : St) (t : Nat) (hp : PatsOK s.cfg) (hi : AllocInv s) (hw : s.allocWake = some t) :
    AllocInv (startAlloc { s with allocWake := none } t 0) := by
  obtain ⟨i1, i2, i0, e, he, hnow, h | h⟩ := hi
  · obtain ⟨w, hw', htx, h1, h2⟩ := h
    rw [hw] at hw'; cases hw'
    refine ⟨i1, i2, i0, e, he, hnow, Or.inr ⟨_, rfl, rfl, ?_⟩⟩
    refine ⟨pick_ok _ hp.1 _, Nat.zero_le _, by show 0 < maxAttempts; decide, ?_, by intro h; simp [newTxn] at h, ?_⟩
    · show t + (maxAttempts - 0) * dTx < e
      unfold dH at h1; simpa using h1
    · show e ≤ (t + off 0) + s.cfg.life
      simp [off]; exact h2
  · obtain ⟨x, hnone, _, _⟩ := h
    rw [hw] at hnone; cases hnone

/-- one transmission of the handler's Refresh -/
theorem fireAllocTx_inv (s : St) (x : Txn) (hc : Compatible s.cfg) (hp : PatsOK s.cfg) (hi : AllocInv s) (hx : s.allocTx = some x) :
    AllocInv (fireAllocTx s x).1 := by
  obtain ⟨i1, i2, i0, e, he, hnow, h | h⟩ := hi
  · obtain ⟨_, _, htx, _⟩ := h; rw [hx] at htx; cases htx
  obtain ⟨x', hwake, hx', hok⟩ := h
  rw [hx] at hx'; cases hx'
  have hlife : 0 < s.cfg.life := by obtain ⟨_, _, _, h4, _⟩ := hc; omega
  have hdue := hok.due_lt
  have hdle := hok.due_le
  obtain ⟨k1, k2, k3, k4, k5, k6⟩ := hok
  obtain ⟨f1, f2, f3, f4, f5, f6, f7⟩ := transmit_same_but_exp { s with allocTx := none } (.rf s.cfg.life) x
  have hcase := transmit_rf { s with allocTx := none } s.cfg.life x e hlife he hdue
  unfold fireAllocTx
  generalize hT : transmit { s with allocTx := none } (.rf s.cfg.life) x = T at f1 f2 f3 f4 f5 f6 f7 hcase
  obtain ⟨s1, outs, r⟩ := T
  simp only at f1 f2 f3 f4 f5 f6 f7 hcase ⊢
  rcases hcase with ⟨hr, hlt, hexp⟩ | ⟨hr, hexp⟩ | ⟨hr, hexp, hst⟩
  · -- the response is lost (or the request was): the transaction goes on to its next transmission
    subst hr
    have hd' : x.due ≤ (next x).due := by simp [next, Txn.due]; exact off_succ_ge x.i
    have hok' : ∀ e', e ≤ e' → e' ≤ x.due + s.cfg.life → TxOK s1.cfg e' (next x) := by
      intro e' h1 h2
      refine ⟨k1, by simp [next]; omega, k3, by simp [next]; omega, k5, ?_⟩
      rw [f1]; omega
    rcases hexp with hexp | hexp
    · exact ⟨f2.trans i1, f3.trans i2, f7.trans i0, e, hexp, by rw [f4]; exact hnow,
        Or.inr ⟨next x, f5.trans hwake, rfl, hok' e (Nat.le_refl _) k6⟩⟩
    · exact ⟨f2.trans i1, f3.trans i2, f7.trans i0, _, hexp, by rw [f4]; show s.now < x.due + s.cfg.life; omega,
        Or.inr ⟨next x, f5.trans hwake, rfl, hok' _ k6 (Nat.le_refl _)⟩⟩
  · -- accepted: the handler returns and the next period starts now
    subst hr
    have hcl : s1.closed = false := f3.trans i2
    simp only [hcl, Bool.false_eq_true, if_false]
    obtain ⟨c1, _⟩ := hc
    refine ⟨f2.trans i1, by first | exact hcl | rfl, f7.trans i0, _, hexp, by rw [f4]; show s.now < x.due + s.cfg.life; omega,
      Or.inl ⟨_, rfl, f6, ?_, ?_⟩⟩
    · rw [f1]; show x.due + s.cfg.life / 2 + dH < x.due + s.cfg.life; omega
    · rw [f1]; show x.due + s.cfg.life ≤ x.due + s.cfg.life / 2 + s.cfg.life; omega
  · -- 438: take the new nonce and retry at once; a retry is never stale, so this was the first attempt
    subst hr
    have hatt : x.attempt = 0 := by
      cases ha : x.attempt with
      | zero => rfl
      | succ n =>
        exfalso
        have h5 := k5 (by omega)
        have hd : dTx = 6200 := by decide
        unfold minuteOf nonceWindow at *
        have : x.due / 60000 ≤ x.start / 60000 + 1 := by omega
        omega
    have hlt : x.attempt + 1 < maxAttempts := by rw [hatt]; decide
    simp only [hlt, if_true]
    refine ⟨f2.trans i1, f3.trans i2, f7.trans i0, e, hexp, by rw [f4]; exact hnow, Or.inr ⟨_, f5.trans hwake, rfl, ?_⟩⟩
    refine ⟨pick_ok _ (by rw [f1]; exact hp.1) _, Nat.zero_le _, hlt, ?_, ?_, ?_⟩
    · show x.due + (maxAttempts - (x.attempt + 1)) * dTx < e
      rw [hatt] at k4 ⊢
      have : (maxAttempts - 0) * dTx = dTx + (maxAttempts - (0 + 1)) * dTx := by decide
      omega
    · intro _; show minuteOf x.due ≤ minuteOf x.due; exact Nat.le_refl _
    · show e ≤ (x.due + off 0) + s1.cfg.life
      rw [f1]; simp [off]; exact k6

/-- the permission handler's transaction never disturbs the allocation (and is never told it is gone) -/
theorem firePermTx_same (s : St) (x : Txn) (e : Nat) (he : s.allocExp = some e) (ht : x.due < e) : Same s (firePermTx s x).1 := by
  obtain ⟨f1, f2, f3, f4, f5, f6, f7⟩ := transmit_same_but_exp { s with permTx := none } .cp x
  obtain ⟨g1, g2⟩ := transmit_other { s with permTx := none } .cp x e (by intro lt h; cases h) he ht
  unfold firePermTx
  generalize transmit { s with permTx := none } .cp x = T at f1 f2 f3 f4 f5 f6 f7 g1 g2
  obtain ⟨s1, outs, r⟩ := T
  simp only at f1 f2 f3 f4 f5 f6 f7 g1 g2 ⊢
  have base : Same s s1 := ⟨f1, f2, f3, g2.trans he.symm, f4, f5, f6, f7⟩
  match r with
  | none => exact Same.trans base ⟨rfl, rfl, rfl, rfl, rfl, rfl, rfl, rfl⟩
  | some .ok =>
    simp only
    split
    · exact base
    · exact Same.trans base ⟨rfl, rfl, rfl, rfl, rfl, rfl, rfl, rfl⟩
  | some .stale =>
    simp only
    split
    · exact Same.trans base ⟨rfl, rfl, rfl, rfl, rfl, rfl, rfl, rfl⟩
    · exact Same.trans base ⟨rfl, rfl, rfl, rfl, rfl, rfl, rfl, rfl⟩
  | some .dead => exact absurd rfl g1

theorem fireBindTx_same (s : St) (p : Nat) (x : Txn) (e : Nat) (he : s.allocExp = some e) (ht : x.due < e) :
    Same s (fireBindTx s p x).1 := by
  obtain ⟨f1, f2, f3, f4, f5, f6, f7⟩ := transmit_same_but_exp { s with bindTx := s.bindTx.set p none } (.cb p) x
  obtain ⟨g1, g2⟩ := transmit_other { s with bindTx := s.bindTx.set p none } (.cb p) x e (by intro lt h; cases h) he ht
  unfold fireBindTx
  generalize transmit { s with bindTx := s.bindTx.set p none } (.cb p) x = T at f1 f2 f3 f4 f5 f6 f7 g1 g2
  obtain ⟨s1, outs, r⟩ := T
  simp only at f1 f2 f3 f4 f5 f6 f7 g1 g2 ⊢
  have base : Same s s1 := ⟨f1, f2, f3, g2.trans he.symm, f4, f5, f6, f7⟩
  match r with
  | none => exact Same.trans base ⟨rfl, rfl, rfl, rfl, rfl, rfl, rfl, rfl⟩
  | some .ok => exact Same.trans base ⟨rfl, rfl, rfl, rfl, rfl, rfl, rfl, rfl⟩
  | some .stale =>
    simp only
    split
    · exact Same.trans base ⟨rfl, rfl, rfl, rfl, rfl, rfl, rfl, rfl⟩
    · exact Same.trans base ⟨rfl, rfl, rfl, rfl, rfl, rfl, rfl, rfl⟩
  | some .dead => exact absurd rfl g1

/-- **one event**: whatever is due first — any of the three timers, any transmission of any transaction —
    leaves the allocation live and its handler on schedule -/
theorem fire_inv (s : St) (t : Nat) (r : Root) (hc : Compatible s.cfg) (hp : PatsOK s.cfg) (hi : AllocInv s)
    (hm : (t, r) ∈ roots s) (hle : ∀ x ∈ roots s, t ≤ x.1) :
    AllocInv (fire { s with now := max s.now t } t r).1 ∧ (fire { s with now := max s.now t } t r).1.cfg = s.cfg := by
  obtain ⟨e, he, m, hmem, hlt⟩ := alloc_root_before_expiry hi
  have hte : t < e := Nat.lt_of_le_of_lt (hle m hmem) hlt
  have hi' : AllocInv { s with now := max s.now t } := by
    obtain ⟨i1, i2, i0, e', he', hnow, h⟩ := hi
    rw [he] at he'; cases he'
    exact ⟨i1, i2, i0, e, he, by show max s.now t < e; omega, h⟩
  rcases roots_inv s t r hm with ⟨hr, hw⟩ | ⟨hr, x, hx, hd⟩ | ⟨hr, hw⟩ | ⟨hr, x, hx, hd⟩ | ⟨hr, hw⟩ | ⟨p, x, hr, hx, hd⟩ | ⟨_, x, hx, _⟩
  rotate_right
  · exfalso; have := hi.2.2.1; rw [hx] at this; cases this
  · subst hr
    exact ⟨fireAlloc_inv { s with now := max s.now t } t hp hi' hw, rfl⟩
  · subst hr
    have : fire { s with now := max s.now t } t .allocTx = fireAllocTx { s with now := max s.now t } x := by simp [fire, hx]
    rw [this]
    refine ⟨fireAllocTx_inv { s with now := max s.now t } x hc hp hi' hx, ?_⟩
    -- cfg is never written
    unfold fireAllocTx
    obtain ⟨f1, _⟩ := transmit_same_but_exp { s with now := max s.now t, allocTx := none } (.rf s.cfg.life) x
    generalize transmit { s with now := max s.now t, allocTx := none } (.rf s.cfg.life) x = T at f1
    obtain ⟨s1, outs, r⟩ := T
    simp only at f1 ⊢
    match r with
    | none => exact f1
    | some .ok => simp only; split <;> exact f1
    | some .stale => simp only; split <;> exact f1
    | some .dead => exact f1
  · subst hr
    simp only [fire]
    split
    · exact ⟨allocInv_same ⟨rfl, rfl, rfl, rfl, rfl, rfl, rfl, rfl⟩ hi', rfl⟩
    · exact ⟨allocInv_same ⟨rfl, rfl, rfl, rfl, rfl, rfl, rfl, rfl⟩ hi', rfl⟩
  · subst hr
    have : fire { s with now := max s.now t } t .permTx = firePermTx { s with now := max s.now t } x := by simp [fire, hx]
    rw [this]
    have hs := firePermTx_same { s with now := max s.now t } x e he (by rw [hd]; exact hte)
    exact ⟨allocInv_same hs hi', hs.1⟩
  · subst hr
    simp only [fire, forPeers]
    have hs := forPeers_same t (List.range s.cfg.peers) { s with now := max s.now t, bindWake := some (t + s.cfg.bindP) }
    exact ⟨allocInv_same (Same.trans ⟨rfl, rfl, rfl, rfl, rfl, rfl, rfl, rfl⟩ hs) hi', hs.1⟩
  · subst hr
    have : fire { s with now := max s.now t } t (.bindTx p) = fireBindTx { s with now := max s.now t } p x := by
      show (match s.bindTx.getD p none with | some x => fireBindTx { s with now := max s.now t } p x | none => _) = _
      rw [hx]
    rw [this]
    have hs := fireBindTx_same { s with now := max s.now t } p x e he (by rw [hd]; exact hte)
    exact ⟨allocInv_same hs hi', hs.1⟩

/-- any amount of time -/
theorem advanceTo_inv (c : Cfg) (hc : Compatible c) (hp : PatsOK c) (target : Nat) : ∀ (fuel : Nat) (s : St) (acc : List Out),
    s.cfg = c → AllocInv s → (advanceTo target fuel s acc).1.cfg = c ∧ AllocInv (advanceTo target fuel s acc).1 := by
  intro fuel
  induction fuel with
  | zero => intro s acc h1 h2; exact ⟨h1, allocInv_same ⟨rfl, rfl, rfl, rfl, rfl, rfl, rfl, rfl⟩ h2⟩
  | succ n ih =>
    intro s acc h1 h2
    unfold advanceTo
    obtain ⟨e, he, m, hmem, hlt⟩ := alloc_root_before_expiry h2
    cases hE : earliest (roots s) with
    | none => rw [earliest_none _ hE] at hmem; cases hmem
    | some tr =>
      obtain ⟨t, r⟩ := tr
      simp only
      have hm := earliest_mem _ _ hE
      have hle := earliest_le _ _ hE
      split
      · have hf := fire_inv s t r (h1 ▸ hc) (h1 ▸ hp) h2 hm hle
        exact ih _ _ (hf.2.trans h1) hf.1
      · rename_i hgt
        refine ⟨h1, ?_⟩
        obtain ⟨i1, i2, i0, e', he', _, h⟩ := h2
        rw [he] at he'; cases he'
        have : t ≤ m.1 := hle m hmem
        exact ⟨i1, i2, i0, e, he, by show target < e; omega, h⟩

def noClose : Op → Prop
  | .close => False
  | _ => True

theorem step_inv (c : Cfg) (hc : Compatible c) (hp : PatsOK c) (s : St) (op : Op) (hop : noClose op) (h1 : s.cfg = c) (h2 : AllocInv s) :
    (step s op).1.cfg = c ∧ AllocInv (step s op).1 := by
  cases op with
  | adv dt => exact advanceTo_inv c hc hp _ _ s [] h1 h2
  | wr p =>
    simp only [step]
    split
    · exact ⟨h1, allocInv_same ⟨rfl, rfl, rfl, rfl, rfl, rfl, rfl, rfl⟩ h2⟩
    · exact ⟨h1, h2⟩
  | pw p =>
    simp only [step]
    split
    · exact ⟨h1, allocInv_same ⟨rfl, rfl, rfl, rfl, rfl, rfl, rfl, rfl⟩ h2⟩
    · exact ⟨h1, h2⟩
  | close => exact absurd hop (by simp [noClose])
  | count => exact ⟨h1, h2⟩

theorem run_inv (c : Cfg) (hc : Compatible c) (hp : PatsOK c) : ∀ (ops : List Op) (s : St), (∀ op ∈ ops, noClose op) →
    s.cfg = c → AllocInv s → AllocInv (run s ops).1 := by
  intro ops
  induction ops with
  | nil => intro s _ _ h; exact h
  | cons op ops ih =>
    intro s hops h1 h2
    have hs := step_inv c hc hp s op (hops op (by simp)) h1 h2
    simp only [run]
    exact ih _ (fun o ho => hops o (by simp [ho])) hs.1 hs.2

/-- **the allocation never dies.**  For every server configuration compatible with the client's refresh
    cadence, every loss / response-loss / duplication pattern that leaves each transaction one answered
    transmission, any number of peers, every traffic pattern and ANY duration — any sequence of time steps
    and probes of any length — the allocation is live at the server at the end (and so at every prefix):
    no request of the client is ever answered "no allocation", across the nonce horizon included (a 438 is
    followed by one retry that is accepted). -/
theorem alloc_never_dies (c : Cfg) (hc : Compatible c) (hp : PatsOK c) (ops : List Op) (hops : ∀ op ∈ ops, noClose op) :
    (run (init c) ops).1.dead = false ∧
    ∃ e, (run (init c) ops).1.allocExp = some e ∧ (run (init c) ops).1.now < e := by
  obtain ⟨h1, _, _, e, he, hnow, _⟩ := run_inv c hc hp ops (init c) hops rfl (init_inv c hc)
  exact ⟨h1, e, he, hnow⟩

/-! non-vacuity: the library defaults with the worst admissible loss meet the hypotheses, and a two-hour
    idle run really goes through two stale-nonce recoveries -/
def worst : Cfg := defaults 2 [⟨6, 0, false⟩] [⟨0, 6, false⟩] [⟨3, 3, true⟩]
example : Compatible worst ∧ PatsOK worst := by
  refine ⟨defaults_compatible _ _ _ _, ?_, ?_, ?_⟩ <;> intro p hp <;> simp [worst, defaults] at hp <;> subst hp <;> decide

end Turn.C14
