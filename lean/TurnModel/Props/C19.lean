/-
C19 — responses are correlated, truthful and idempotent under retransmission.
-/
import TurnModel.Props.C04
import TurnModel.Props.C06
import TurnModel.Props.C02
namespace Turn.C19
open Turn.Srv

/-- the transaction id of a request -/
def tidOf : Msg → Option Nat
  | .allocate t .. | .refresh t .. | .createPerm t .. | .chanBind t .. | .binding t | .connect t ..
  | .connBind t .. | .unknownAttr _ t => some t
  | _ => none

theorem authFail_tid (k m tid r) : ∀ o ∈ authFail k m tid r, ∃ ok code ra, o = Out.resp k m ok code tid ra := by
  intro o ho
  cases r <;> simp [authFail, errResp] at ho <;> subst ho <;> exact ⟨_, _, _, rfl⟩

theorem handle_resp (c : Cfg) (s : State) (k : Key) (m : Msg) (k' : Key) (me : String) (ok : Bool) (code tid' : Nat) (ra : RA)
    (h : Out.resp k' me ok code tid' ra ∈ (handle c s k m).outs) : k' = k ∧ tidOf m = some tid' := by
  have key : ∀ o ∈ (handle c s k m).outs, (∃ t, tidOf m = some t ∧ ∃ me ok code ra, o = Out.resp k me ok code t ra) ∨
      (∀ k' me ok code t ra, o ≠ Out.resp k' me ok code t ra) := by
    intro o ho
    cases m with
    | allocate tid cr lt tr df tok even fam env =>
      left; refine ⟨tid, rfl, ?_⟩
      simp only [handle, hAllocate] at ho
      split at ho
      · split at ho
        · split at ho <;> simp [okResp, errResp] at ho <;> subst ho <;> exact ⟨_, _, _, _, rfl⟩
        · split at ho
          · simp [errResp] at ho; subst ho; exact ⟨_, _, _, _, rfl⟩
          · split at ho
            · simp [errResp] at ho; subst ho; exact ⟨_, _, _, _, rfl⟩
            · split at ho <;> simp [okResp, errResp] at ho <;> subst ho <;> exact ⟨_, _, _, _, rfl⟩
      · obtain ⟨a, b, d, rfl⟩ := authFail_tid _ _ _ _ o ho; exact ⟨_, _, _, _, rfl⟩
    | refresh tid cr lt fam =>
      left; refine ⟨tid, rfl, ?_⟩
      simp only [handle, hRefresh] at ho
      split at ho
      · split at ho
        · simp at ho
        · split at ho
          · simp [errResp] at ho; subst ho; exact ⟨_, _, _, _, rfl⟩
          · split at ho <;> simp [okResp] at ho <;> subst ho <;> exact ⟨_, _, _, _, rfl⟩
      · obtain ⟨a, b, d, rfl⟩ := authFail_tid _ _ _ _ o ho; exact ⟨_, _, _, _, rfl⟩
    | createPerm tid cr peers =>
      left; refine ⟨tid, rfl, ?_⟩
      simp only [handle, hCreatePerm] at ho
      split at ho
      · split at ho
        · simp at ho
        · split at ho
          · simp [errResp] at ho; subst ho; exact ⟨_, _, _, _, rfl⟩
          · split at ho <;> simp [okResp, errResp] at ho <;> subst ho <;> exact ⟨_, _, _, _, rfl⟩
      · obtain ⟨a, b, d, rfl⟩ := authFail_tid _ _ _ _ o ho; exact ⟨_, _, _, _, rfl⟩
    | chanBind tid cr num peer =>
      left; refine ⟨tid, rfl, ?_⟩
      simp only [handle, hChanBind] at ho
      split at ho
      · split at ho
        · simp at ho
        · split at ho <;> simp [okResp, errResp] at ho <;> subst ho <;> exact ⟨_, _, _, _, rfl⟩
      · obtain ⟨a, b, d, rfl⟩ := authFail_tid _ _ _ _ o ho; exact ⟨_, _, _, _, rfl⟩
    | send data peer =>
      right
      simp only [handle, hSend] at ho
      split at ho; · simp at ho
      split at ho
      · split at ho
        · simp at ho; subst ho; intros; simp
        · simp at ho
      · simp at ho
    | chanData raw =>
      right
      simp only [handle, hChanData] at ho
      split at ho; · simp at ho
      split at ho; · simp at ho
      split at ho; · simp at ho
      split at ho
      · simp at ho
      · simp at ho; subst ho; intros; simp
    | binding tid => left; simp [handle, okResp] at ho; subst ho; exact ⟨tid, rfl, _, _, _, _, rfl⟩
    | connect tid cr peer dialOK cid =>
      simp only [handle, hConnect] at ho
      split at ho
      · split at ho
        · simp at ho
        · split at ho
          · simp at ho
          · left; simp [errResp] at ho; subst ho; exact ⟨tid, rfl, _, _, _, _, rfl⟩
          · simp [okResp] at ho
            rcases ho with rfl | rfl
            · right; intros; simp
            · left; exact ⟨tid, rfl, _, _, _, _, rfl⟩
      · left; obtain ⟨a, b, d, rfl⟩ := authFail_tid _ _ _ _ o ho; exact ⟨tid, rfl, _, _, _, _, rfl⟩
    | connBind => simp [handle] at ho
    | unknownAttr m tid => left; simp [handle, errResp] at ho; subst ho; exact ⟨tid, rfl, _, _, _, _, rfl⟩
    | junk => simp [handle] at ho
  rcases key _ h with ⟨t, ht, me', ok', code', ra', heq⟩ | hno
  · cases heq; exact ⟨rfl, ht⟩
  · exact absurd rfl (hno _ _ _ _ _ _)

/-- **every response carries the request's transaction id and goes to the request's source**, on
    success and on every error path (401/438 challenges, 400, 403, 420, 437, 440–447, 486, 508) -/
theorem resp_tid_dst (c : Cfg) (s : State) (k : Key) (sz : Nat) (m : Msg) (k' : Key) (me : String) (ok : Bool)
    (code tid' : Nat) (ra : RA) (h : Out.resp k' me ok code tid' ra ∈ (step c s (.msg k sz m)).2) :
    k' = k ∧ tidOf m = some tid' := by
  by_cases hcb : ∃ t cr cid, m = .connBind t cr cid
  · obtain ⟨t, cr, cid, rfl⟩ := hcb
    simp only [step] at h
    split at h; · simp at h
    split at h; · simp at h
    have hout : ∀ o ∈ (hConnBind c s k t cr cid).1, (∃ me ok code ra, o = Out.resp k me ok code t ra) ∨
        (∀ k' me ok code t ra, o ≠ Out.resp k' me ok code t ra) := by
      intro o ho
      unfold hConnBind at ho
      split at ho
      · split at ho
        · split at ho; · left; simp [errResp] at ho; subst ho; exact ⟨_, _, _, _, rfl⟩
          split at ho
          · left; simp [errResp] at ho; subst ho; exact ⟨_, _, _, _, rfl⟩
          · split at ho; · left; simp [errResp] at ho; subst ho; exact ⟨_, _, _, _, rfl⟩
            split at ho; · left; simp [errResp] at ho; subst ho; exact ⟨_, _, _, _, rfl⟩
            simp only [List.mem_cons] at ho
            rcases ho with rfl | ho
            · left; exact ⟨_, _, _, _, rfl⟩
            · right
              split at ho
              · simp at ho
              · simp at ho; subst ho; intros; simp
        · left; simp [errResp] at ho; subst ho; exact ⟨_, _, _, _, rfl⟩
      · left; obtain ⟨a, b, d, rfl⟩ := authFail_tid _ _ _ _ o ho; exact ⟨_, _, _, _, rfl⟩
    have hmem : Out.resp k' me ok code tid' ra ∈ (hConnBind c s k t cr cid).1 := by
      split at h <;> (rename_i heq; rw [heq]; exact h)
    rcases hout _ hmem with ⟨me', ok', code', ra', heq⟩ | hno
    · cases heq; exact ⟨rfl, rfl⟩
    · exact absurd rfl (hno _ _ _ _ _ _)
  · have hcb' : ∀ t cr cid, m ≠ .connBind t cr cid := fun t cr cid h => hcb ⟨t, cr, cid, h⟩
    obtain ⟨_, ho⟩ := step_msg_outs c s k sz m _ hcb' h
    rcases ho with ho | ho
    · exact handle_resp c s k m k' me ok code tid' ra ho
    · exact absurd ho (applyUpd_outs_not_resp _ _ _ _ _ _ _ _ _)

/-- a Binding response reports exactly the source address the request was seen from -/
theorem binding_truthful (c : Cfg) (s : State) (k : Key) (sz tid : Nat) (h : accepted c s k sz) :
    (step c s (.msg k sz (.binding tid))).2 = [Out.resp k "Binding" true 0 tid { mapped := some k.src }] := by
  rw [step_msg_accepted c s k sz _ h (by intro _ _ _ h; cases h)]
  simp [handle, applyUpd, okResp]

/-- an Allocate success reports the client's own address as mapped address and, as relayed address,
    the address of the allocation just created — an address no other live allocation has, and at
    which a peer's datagram reaches this allocation (and only it) -/
theorem allocate_truthful {c : Cfg} {s : State} (hr : Reach c s) (k : Key) (sz tid : Nat) (cr : Cred) (lt tr : Attr Nat)
    (df : Bool) (tok : Attr String) (even : Attr Bool) (fam : Attr Nat) (env : AllocEnv) (ra : RA) (tid' : Nat)
    (me : String) (k' : Key) (code : Nat) (hfree : findAlloc s k = none)
    (h : Out.resp k' me true code tid' ra ∈ (step c s (.msg k sz (.allocate tid cr lt tr df tok even fam env))).2) :
    ∃ a, a ∈ (step c s (.msg k sz (.allocate tid cr lt tr df tok even fam env))).1.allocs ∧ a.key = k ∧
      ra.mapped = some k.src ∧ ra.relay = some a.relay ∧ ra.lt = some (lifetimeOf c lt / sec) ∧
      ∀ b ∈ (step c s (.msg k sz (.allocate tid cr lt tr df tok even fam env))).1.allocs,
        b.relay = a.relay → b.tcp = a.tcp → b = a := by
  obtain ⟨a, ha, _, _, hlt, hrel, hmap, _, _⟩ := C06.allocate_success c s k sz tid cr lt tr df tok even fam env ra tid' me k' code hfree h
  have hm := findAlloc_some ha
  refine ⟨a, hm.1, hm.2, hmap, hrel, hlt, ?_⟩
  intro b hb h1 h2
  exact C02.relay_owner_unique (reach_step hr _) hb hm.1 h1 h2

/-- **retransmission is idempotent**: an Allocate repeating the transaction id of the request that
    created the allocation is answered with the same success (same relayed address, lifetime and
    mapped address as first reported) and changes nothing -/
theorem retransmit_idempotent (c : Cfg) (s : State) (k : Key) (sz tid : Nat) (cr : Cred) (lt tr : Attr Nat) (df : Bool)
    (tok : Attr String) (even : Attr Bool) (fam : Attr Nat) (env : AllocEnv) (u : String) (a : Alloc)
    (hacc : accepted c s k sz) (hauth : authenticate c cr = .ok u) (ha : findAlloc s k = some a) (htid : a.cacheTid = tid) :
    step c s (.msg k sz (.allocate tid cr lt tr df tok even fam env)) =
      (s, [Out.resp k "Allocate" true 0 tid
            { lt := some a.cacheLt, relay := some a.relay, mapped := some k.src, token := a.cacheTok }]) := by
  rw [step_msg_accepted c s k sz _ hacc (by intro _ _ _ h; cases h)]
  simp [handle, hAllocate, hauth, ha, htid, applyUpd, okResp]

/-- **a different Allocate on a 5-tuple that already holds an allocation gets 437 and changes nothing** -/
theorem mismatch_437 (c : Cfg) (s : State) (k : Key) (sz tid : Nat) (cr : Cred) (lt tr : Attr Nat) (df : Bool)
    (tok : Attr String) (even : Attr Bool) (fam : Attr Nat) (env : AllocEnv) (u : String) (a : Alloc)
    (hacc : accepted c s k sz) (hauth : authenticate c cr = .ok u) (ha : findAlloc s k = some a) (htid : a.cacheTid ≠ tid) :
    step c s (.msg k sz (.allocate tid cr lt tr df tok even fam env)) = (s, [Out.resp k "Allocate" false 437 tid {}]) := by
  rw [step_msg_accepted c s k sz _ hacc (by intro _ _ _ h; cases h)]
  simp [handle, hAllocate, hauth, ha, htid, applyUpd, errResp]

/-- the cached response is the one first sent: the allocation created by an Allocate success stores
    the request's transaction id and the reported lifetime -/
theorem cache_is_first_response (c : Cfg) (s : State) (k : Key) (tid : Nat) (cr : Cred) (lt tr : Attr Nat) (df : Bool)
    (tok : Attr String) (even : Attr Bool) (fam : Attr Nat) (env : AllocEnv) (a : Alloc)
    (h : (hAllocate c s k tid cr lt tr df tok even fam env).upd = .set a) :
    a.cacheTid = tid ∧ a.cacheLt = lifetimeOf c lt / sec ∨ False := by
  unfold hAllocate at h
  split at h
  · split at h
    · split at h <;> simp at h
    · split at h
      · simp at h
      · rename_i hchk
        obtain ⟨hg, _⟩ := allocChecks_ok hchk
        split at h
        · simp at h
        · split at h
          · simp at h
          · simp at h; subst h; subst hg; exact Or.inl ⟨rfl, rfl⟩
  · simp at h

end Turn.C19
