import TurnModel.Model.FiveTuple
namespace Turn.C04Key
open Turn.FT

theorem to16_len {ip : Bytes} (h : ip.length = 4 ∨ ip.length = 16) : (to16 ip).length = 16 := by
  unfold to16 v4prefix
  rcases h with h | h
  · simp [h]
  · simp [h]

theorem copy16_id {b : Bytes} (h : b.length = 16) : copy16 b = b := by
  unfold copy16
  rw [List.take_append_of_le_length (by omega)]
  exact List.take_of_length_le (by omega)

/-- **the key is injective on addresses**: two valid addresses have the same fingerprint exactly when they are
    the same address (up to the two spellings of an IPv4 address) — so no two distinct 5-tuples share an
    allocation slot, whatever the mix of IPv4, IPv4-mapped and IPv6 addresses -/
theorem fpAddr_injective (a b : Addr) (ha : a.Valid) (hb : b.Valid) : fpAddr a = fpAddr b ↔ canon a = canon b := by
  unfold fpAddr canon
  rw [copy16_id (to16_len ha.1), copy16_id (to16_len hb.1), Nat.mod_eq_of_lt ha.2, Nat.mod_eq_of_lt hb.2]

theorem equal_iff (s t : Tuple) (h1 : s.src.Valid) (h2 : s.dst.Valid) (h3 : t.src.Valid) (h4 : t.dst.Valid) :
    equal s t = true ↔ s.proto = t.proto ∧ canon s.src = canon t.src ∧ canon s.dst = canon t.dst := by
  unfold equal fingerprint
  rw [beq_iff_eq, Prod.mk.injEq, Prod.mk.injEq, fpAddr_injective _ _ h1 h3, fpAddr_injective _ _ h2 h4]

/-- a 4-byte address never collides with a genuine IPv6 address: only with its own mapped spelling -/
theorem v4_meets_only_its_mapped_form (a b : Addr) (ha : a.ip.length = 4) (hb : b.ip.length = 16)
    (hpa : a.port < 65536) (hpb : b.port < 65536) :
    fpAddr a = fpAddr b ↔ b.ip = v4prefix ++ a.ip ∧ a.port = b.port := by
  rw [fpAddr_injective a b ⟨Or.inl ha, hpa⟩ ⟨Or.inr hb, hpb⟩]
  unfold canon to16
  simp [ha, hb]
  intro _; exact eq_comm

/-- two spellings of one IPv4 address are one key -/
theorem mapped_same_key (ip : Bytes) (port : Nat) (h : ip.length = 4) :
    fpAddr ⟨ip, port⟩ = fpAddr ⟨v4prefix ++ ip, port⟩ := by
  unfold fpAddr to16 v4prefix; simp [h]

/-- `net.IP.Equal` decides the same relation as the key: same address up to the two spellings of IPv4 — so the
    lookups by peer address (`AddrEqual`: channel bindings) and by key (`Fingerprint`: allocations; permissions are
    keyed by `IP.String()`, compared with this relation by the harness) agree on what "the same address" is -/
theorem ipEqual_iff (a b : Bytes) (ha : a.length = 4 ∨ a.length = 16) (hb : b.length = 4 ∨ b.length = 16) :
    ipEqual a b = true ↔ to16 a = to16 b := by
  unfold ipEqual to16
  rcases ha with ha | ha <;> rcases hb with hb | hb <;> simp [ha, hb]
  exact eq_comm

theorem addrEqual_iff_same_key (a b : Addr) (ha : a.Valid) (hb : b.Valid) :
    addrEqual a b = true ↔ fpAddr a = fpAddr b := by
  rw [fpAddr_injective a b ha hb]
  unfold addrEqual canon
  rw [Bool.and_eq_true, ipEqual_iff _ _ ha.1 hb.1, beq_iff_eq, Prod.mk.injEq]

/-- why `To16` matters (the shape of seeded change C04i): copying the unpadded 4-byte form into the key would
    make 10.0.0.2 and a00:2:: one client -/
example : copy16 [10, 0, 0, 2] = copy16 [10, 0, 0, 2, 0, 0, 0, 0, 0, 0, 0, 0, 0, 0, 0, 0] := by decide
example : fpAddr ⟨[10, 0, 0, 2], 4000⟩ ≠ fpAddr ⟨[10, 0, 0, 2, 0, 0, 0, 0, 0, 0, 0, 0, 0, 0, 0, 0], 4000⟩ := by decide
example : (⟨[10, 0, 0, 2], 4000⟩ : Addr).Valid := ⟨Or.inl rfl, by decide⟩

end Turn.C04Key
