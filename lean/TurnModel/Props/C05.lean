/-
C05 — relayed payloads arrive intact, exactly once, with truthful peer attribution.
Composes M4 (who gets what) with M1 (ChannelData / XOR address codecs) and M2 (stream framing).
-/
import TurnModel.Props.C01
import TurnModel.Props.C02
import TurnModel.Props.C10
import TurnModel.Props.C11
import TurnModel.Lemmas.ServerHandlers
import TurnModel.Gen.Consts
namespace Turn.C05
open Turn.Srv

/-- client → peer, Send indication: the datagram leaving the relay carries exactly the DATA value -/
theorem relay_out_payload_send {c : Cfg} (hc : CfgOK c) {s : State} (hr : Reach c s) (k : Key) (sz : Nat)
    (data : Option Bytes) (peer : Attr Addr) (r d : Addr) (q : Bytes)
    (h : Out.toPeer r d q ∈ (step c s (.msg k sz (.send data peer))).2) : data = some q ∧ peer = .val d := by
  obtain ⟨a, _, _, _, hp, hd, _⟩ := C01.send_gated hc hr k sz data peer r d q h
  exact ⟨hd, hp⟩

/-- client → peer, ChannelData: the datagram carries exactly the declared bytes — for a message built by
    the encoder from payload `d` (any length < 65536, padding ignored) that is `d` itself -/
theorem relay_out_payload_chandata {c : Cfg} (hc : CfgOK c) {s : State} (hr : Reach c s) (k : Key) (sz : Nat)
    (num : Nat) (d : Bytes) (hn : chanValid num = true) (hd : d.length < 65536) (r dst : Addr) (q : Bytes)
    (h : Out.toPeer r dst q ∈ (step c s (.msg k sz (.chanData (encodeCD num d)))).2) : q = d := by
  obtain ⟨a, n, ch, hdec, _⟩ := C01.chandata_gated hc hr k sz _ r dst q h
  rw [C11.cd_decode_encode num d hn hd] at hdec
  cases hdec; rfl

/-- peer → client: a forwarded datagram carries the peer's bytes unchanged, whichever encapsulation,
    and names the real source: the Data indication's peer address is the datagram's source, the
    ChannelData number is the one bound to exactly that source address -/
theorem relay_in_payload {c : Cfg} (hc : CfgOK c) {s : State} (hr : Reach c s) (relay frm : Addr) (data : Bytes) (o : Out)
    (h : o ∈ (step c s (.peerData relay frm data)).2) :
    data.length ≤ c.rtpMTU ∧
    ((∃ a ch, a ∈ s.allocs ∧ a.relay = relay ∧ ch ∈ a.chans ∧ ch.peer = frm ∧ o = .chanData a.key ch.num data) ∨
     (∃ a, a ∈ s.allocs ∧ a.relay = relay ∧ o = .dataInd a.key frm data)) := by
  obtain ⟨_, h2⟩ := C02.udp_gated hc hr relay frm data
  rcases h2 with h2 | ⟨a, ha, hrel, _, hlen, h2⟩
  · rw [h2] at h; simp at h
  · refine ⟨hlen, ?_⟩
    rcases h2 with ⟨ch, hch, hp, _, heq⟩ | ⟨_, p, _, _, _, heq⟩
    · rw [heq] at h; simp at h
      exact Or.inl ⟨a, ch, ha, hrel, hch, hp, h⟩
    · rw [heq] at h; simp at h
      exact Or.inr ⟨a, ha, hrel, h⟩

/-- a datagram too large to be relayed whole (more than the relay buffer) is dropped, never delivered cut -/
theorem relay_in_oversize_dropped (c : Cfg) (s : State) (relay frm : Addr) (data : Bytes) (h : c.rtpMTU < data.length) :
    (step c s (.peerData relay frm data)).2 = [] := by
  simp only [step, hPeerData]
  split; · rfl
  simp [h]

/-- an inbound client datagram (or stream frame) of `inMTU` bytes or more is dropped whole: no state
    change, no output, for every MTU setting -/
theorem inbound_mtu_rule (c : Cfg) (s : State) (k : Key) (sz : Nat) (m : Msg) (h : c.inMTU ≤ sz) :
    step c s (.msg k sz m) = (s, []) :=
  step_msg_dropped c s k sz m (fun ha => by have := ha.2; omega)

def isRelayed : Out → Bool
  | .toPeer .. | .dataInd .. | .chanData .. => true
  | _ => false

/-- at most once: a relay-side datagram produces at most one forwarded message -/
theorem peer_datagram_once (c : Cfg) (s : State) (relay frm : Addr) (data : Bytes) :
    (step c s (.peerData relay frm data)).2.length ≤ 1 := by
  simp only [step, hPeerData]
  split; · simp
  split; · simp
  split; · simp
  split <;> simp

/-- at most once: a Send indication / ChannelData produces at most one relayed datagram -/
theorem client_datagram_once (c : Cfg) (s : State) (k : Key) (sz : Nat) :
    (∀ data peer, (step c s (.msg k sz (.send data peer))).2.length ≤ 1) ∧
    (∀ raw, (step c s (.msg k sz (.chanData raw))).2.length ≤ 1) := by
  constructor
  · intro data peer
    simp only [step]
    split; · simp
    split; · simp
    simp only [handle, hSend]
    split; · simp [applyUpd]
    split
    · split <;> simp [applyUpd]
    · simp [applyUpd]
  · intro raw
    simp only [step]
    split; · simp
    split; · simp
    simp only [handle, hChanData]
    split; · simp [applyUpd]
    split; · simp [applyUpd]
    split; · simp [applyUpd]
    split <;> simp [applyUpd]

/-- the address in a Data indication survives the wire: XOR-PEER-ADDRESS decodes to the address that
    was encoded, for every IPv4 address, port and transaction id (IPv6: `C11.xoraddr_get_add_v6`) -/
theorem attribution_on_wire (tid ip : Bytes) (port : Nat) (ht : tid.length = 12) (hip : ip.length = 4) (hp : port < 65536) :
    ∃ v, xorAddrAdd tid ip port = .ok v ∧ xorAddrGet tid (some v) = .ok (ip, port) :=
  C11.xoraddr_get_add_v4 tid ip port ht hip hp

/-- ChannelData toward the client: length field = payload length, zero padding to a multiple of 4 -/
theorem chandata_pad (num : Nat) (d : Bytes) (hnum : num < 65536) (hd : d.length < 65536) :
    ∃ a b c e k, encodeCD num d = [a, b, c, e] ++ d ++ List.replicate k 0 ∧ be16 c e = d.length ∧ k < 4 ∧
      (encodeCD num d).length % 4 = 0 := by
  obtain ⟨a, b, c, e, k, h1, _, h3, h4, h5, _⟩ := C11.cd_encode_shape num d hnum hd
  exact ⟨a, b, c, e, k, h1, h3, h4, h5⟩

/-- stream transports: whatever sequence of ChannelData messages the server writes on a TCP control
    connection, and however TCP segments it, the receiving packetiser returns exactly those messages,
    whole and in order (composition with C10) -/
theorem stream_preserves_frames (msgs : List (Nat × Bytes)) (hv : ∀ m ∈ msgs, chanValid m.1 = true ∧ m.2.length < 65536)
    (chunks : List Bytes) (h : chunks.flatten = (msgs.map (fun m => encodeCD m.1 m.2)).flatten) :
    (readN msgs.length chunks []).1 = msgs.map (fun m => encodeCD m.1 m.2) := by
  have hwf : ∀ f ∈ msgs.map (fun m => encodeCD m.1 m.2), WF f := by
    intro f hf
    simp only [List.mem_map] at hf
    obtain ⟨m, hm, rfl⟩ := hf
    exact Or.inl (encodeCD_WF _ _ (hv m hm).1 (hv m hm).2)
  obtain ⟨r, c', h1, _⟩ := C10.framer_roundtrip _ hwf chunks [] [] (by simpa using h)
  simp only [List.length_map] at h1
  rw [h1]


/-- regenerated: the relay reader drops above 1600 bytes and reads into a buffer that is larger than that (so a
    1601-byte datagram is recognised as oversize instead of being cut) — in fact as large as the largest UDP payload, so that
    no transport has to cut a read short, which some report as an error; the default inbound MTU is 1600 -/
theorem relay_buffer_regenerated :
    Gen.Consts.relay_dropAbove = 1600 ∧ Gen.Consts.relay_dropAbove < Gen.Consts.relay_bufferSize ∧ Gen.Consts.relay_bufferSize = 65535 ∧
    Gen.Consts.allocation_rtpMTU = 1600 ∧ Gen.Consts.default_inboundMTU = 1600 := by decide

end Turn.C05
