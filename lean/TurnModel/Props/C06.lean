/-
C06 — allocation lifetime, refresh and deletion are exact.
-/
import TurnModel.Lemmas.ServerInv
import TurnModel.Lemmas.ServerUniq
import TurnModel.Lemmas.ServerHandlers
import TurnModel.Gen.Consts
namespace Turn.C06
open Turn.Srv

/-- the granted lifetime: the requested one (whole seconds) when the attribute decodes and is below
    the one-hour maximum, the configured default otherwise (absent, malformed, ≥ 1 h) -/
theorem granted_lifetime (c : Cfg) (lt : Attr Nat) :
    lifetimeOf c lt = match lt with
      | .val l => if l * sec < c.maxLife then l * sec else c.lifeT
      | _ => c.lifeT := by
  cases lt <;> rfl

/-- the LIFETIME attribute (whole seconds) reports a requested lifetime exactly -/
theorem reported_exact (c : Cfg) (l : Nat) (h : l * sec < c.maxLife) :
    lifetimeOf c (.val l) / sec = l ∧ lifetimeOf c (.val l) / sec * sec = lifetimeOf c (.val l) := by
  simp only [lifetimeOf, h, if_true]
  have : 0 < sec := by decide
  rw [Nat.mul_div_cancel _ this]
  exact ⟨rfl, rfl⟩

theorem findAlloc_set_self (s : State) (k : Key) (a : Alloc) :
    (applyUpd s k (.set a)).1.allocs.find? (fun b => b.key == k) = some { a with key := k } := by
  simp [applyUpd, setAlloc]

theorem findAlloc_del_self (s : State) (k : Key) : (applyUpd s k .del).1.allocs.find? (fun b => b.key == k) = none := by
  simp only [applyUpd, delAlloc]
  rw [List.find?_eq_none]
  intro x hx
  simp only [List.mem_filter] at hx
  simpa using hx.2

theorem msg_ne_connBind_alloc {tid cr lt tr df tok even fam env} :
    ∀ t c' cid, Msg.allocate tid cr lt tr df tok even fam env ≠ .connBind t c' cid := by intro _ _ _ h; cases h
theorem msg_ne_connBind_refresh {tid cr lt fam} : ∀ t c' cid, Msg.refresh tid cr lt fam ≠ .connBind t c' cid := by
  intro _ _ _ h; cases h

/-- an Allocate success on a free 5-tuple creates the allocation with expiry = now + granted lifetime
    and reports exactly that lifetime (in whole seconds), the allocation's relayed address and the
    client's own address -/
theorem allocate_success (c : Cfg) (s : State) (k : Key) (sz tid : Nat) (cr : Cred) (lt tr : Attr Nat) (df : Bool)
    (tok : Attr String) (even : Attr Bool) (fam : Attr Nat) (env : AllocEnv) (ra : RA) (tid' : Nat) (me : String)
    (k' : Key) (code : Nat) (hfree : findAlloc s k = none)
    (h : Out.resp k' me true code tid' ra ∈ (step c s (.msg k sz (.allocate tid cr lt tr df tok even fam env))).2) :
    ∃ a, findAlloc (step c s (.msg k sz (.allocate tid cr lt tr df tok even fam env))).1 k = some a ∧
      a.expiry = s.now + lifetimeOf c lt ∧ 0 < lifetimeOf c lt ∧ ra.lt = some (lifetimeOf c lt / sec) ∧
      ra.relay = some a.relay ∧ ra.mapped = some k.src ∧ tid' = tid ∧ k' = k := by
  obtain ⟨hacc, ho⟩ := step_msg_outs c s k sz _ _ msg_ne_connBind_alloc h
  rcases ho with ho | ho
  · simp only [handle] at ho
    obtain ⟨u, _, hk', _, _, htid, hcase⟩ := hAllocate_success_inv ho
    rcases hcase with ⟨a, ha, _⟩ | ⟨_, tcp, reqPort, newTok, f, g, p, hchk, _, _, hra, hupd, _⟩
    · rw [hfree] at ha; cases ha
    · obtain ⟨hg, hpos, _, _⟩ := allocChecks_ok hchk
      rw [step_msg_accepted c s k sz _ hacc msg_ne_connBind_alloc]
      simp only [handle, hupd, findAlloc]
      refine ⟨_, findAlloc_set_self s k _, ?_⟩
      subst hg hra
      exact ⟨rfl, hpos, rfl, rfl, rfl, htid, hk'⟩
  · exact absurd ho (applyUpd_outs_not_resp _ _ _ _ _ _ _ _ _)

/-- a Refresh success restarts the lifetime: the allocation's expiry becomes now + granted lifetime,
    everything else about it is unchanged, and exactly that lifetime is reported; a granted
    lifetime of 0 (LIFETIME 0) removes the allocation in the same step -/
theorem refresh_success (c : Cfg) (s : State) (k : Key) (sz tid : Nat) (cr : Cred) (lt fam : Attr Nat) (ra : RA)
    (tid' : Nat) (me : String) (k' : Key) (code : Nat)
    (h : Out.resp k' me true code tid' ra ∈ (step c s (.msg k sz (.refresh tid cr lt fam))).2) :
    ∃ a, findAlloc s k = some a ∧ ra.lt = some (lifetimeOf c lt / sec) ∧ k' = k ∧ tid' = tid ∧
      (lifetimeOf c lt = 0 → findAlloc (step c s (.msg k sz (.refresh tid cr lt fam))).1 k = none) ∧
      (lifetimeOf c lt ≠ 0 → findAlloc (step c s (.msg k sz (.refresh tid cr lt fam))).1 k =
          some { a with expiry := s.now + lifetimeOf c lt }) := by
  obtain ⟨hacc, ho⟩ := step_msg_outs c s k sz _ _ msg_ne_connBind_refresh h
  rcases ho with ho | ho
  · simp only [handle] at ho
    obtain ⟨u, a, _, hown, _, hk', _, _, htid, hra, _, hupd⟩ := hRefresh_success_inv ho
    obtain ⟨hf, _⟩ := ownAlloc_some hown
    have hk := (findAlloc_some hf).2
    rw [step_msg_accepted c s k sz _ hacc msg_ne_connBind_refresh]
    simp only [handle, hupd, findAlloc]
    subst hra
    refine ⟨a, by simpa [findAlloc] using hf, rfl, hk', htid, ?_, ?_⟩
    · intro hz; simp only [hz, beq_self_eq_true, if_true]; exact findAlloc_del_self s k
    · intro hz
      have : (lifetimeOf c lt == 0) = false := by simpa using hz
      simp only [this, Bool.false_eq_true, if_false]
      rw [findAlloc_set_self]
      congr 1
      cases a; simp_all
  · exact absurd ho (applyUpd_outs_not_resp _ _ _ _ _ _ _ _ _)

/-- an Allocate whose granted lifetime would be zero creates nothing -/
theorem allocate_zero_rejected (c : Cfg) (s : State) (k : Key) (lt tr : Attr Nat) (df : Bool) (tok : Attr String)
    (even : Attr Bool) (fam : Attr Nat) (env : AllocEnv) (hz : lifetimeOf c lt = 0) :
    ∀ r, allocChecks c s k lt tr df tok even fam env ≠ .ok r := by
  intro r hr
  obtain ⟨tcp, reqPort, newTok, f, g⟩ := r
  obtain ⟨hg, hpos, _, _⟩ := allocChecks_ok hr
  omega

theorem find_filter_some {α} (p q : α → Bool) (l : List α) (a : α) (h : l.find? p = some a) (hq : q a = true) :
    (l.filter q).find? p = some a := by
  induction l with
  | nil => simp at h
  | cons x xs ih =>
    simp only [List.find?_cons] at h
    split at h
    · rename_i hp
      cases h
      simp [List.filter_cons, hq, hp]
    · rename_i hp
      simp only [List.filter_cons]
      split
      · simp only [List.find?_cons, hp]; exact ih h
      · exact ih h

/-- **alive iff**: when time advances by `dt`, the allocation of 5-tuple `k` is still there iff
    `now + dt < expiry` — it exists until exactly the granted lifetime has elapsed, and no longer -/
theorem alive_iff {c : Cfg} {s : State} (hr : Reach c s) (k : Key) (a : Alloc) (dt : Nat) (ha : findAlloc s k = some a) :
    (s.now + dt < a.expiry → findAlloc (step c s (.adv dt)).1 k = some (purgeAlloc (s.now + dt) a).1) ∧
    (a.expiry ≤ s.now + dt → findAlloc (step c s (.adv dt)).1 k = none) := by
  have hu := (unique_reach hr).1
  obtain ⟨hm, hk⟩ := findAlloc_some ha
  constructor
  · intro hl
    simp only [step, advance, findAlloc, List.map_map]
    rw [List.find?_map]
    have hcomp : ((fun a => a.key == k) ∘ (fun x => x.1) ∘ purgeAlloc (s.now + dt)) = (fun a : Alloc => a.key == k) := by
      funext x; rfl
    rw [hcomp, find_filter_some _ _ _ a ha (by simpa using hl)]
    rfl
  · intro hd
    simp only [step, advance, findAlloc, List.map_map]
    rw [List.find?_eq_none]
    intro x hx
    simp only [List.mem_map, List.mem_filter] at hx
    obtain ⟨b, ⟨hb, hbl⟩, rfl⟩ := hx
    simp only [Function.comp, purgeAlloc, beq_iff_eq]
    intro hbk
    have : b = a := eq_of_key_eq hu hb hm (by rw [hbk, hk])
    subst this
    have hbl' : s.now + dt < b.expiry := by simpa using hbl
    exact Nat.lt_irrefl _ (Nat.lt_of_lt_of_le hbl' hd)

/-- **dead is silent**: once a 5-tuple has no allocation, its Send indications and ChannelData relay
    nothing, and datagrams to a relayed address no allocation holds are discarded -/
theorem dead_is_silent (c : Cfg) (s : State) (k : Key) (sz : Nat) (hk : findAlloc s k = none) :
    (∀ data peer, (step c s (.msg k sz (.send data peer))).2 = []) ∧
    (∀ raw, (step c s (.msg k sz (.chanData raw))).2 = []) ∧
    (∀ relay frm data, findByRelay s relay false = none → (step c s (.peerData relay frm data)).2 = []) := by
  refine ⟨?_, ?_, ?_⟩
  · intro data peer
    simp only [step]
    split; · rfl
    split; · rfl
    simp [handle, hSend, hk, applyUpd]
  · intro raw
    simp only [step]
    split; · rfl
    split; · rfl
    simp only [handle, hChanData, hk]
    split <;> simp [applyUpd]
  · intro relay frm data h
    simp [step, hPeerData, h]

/-! non-vacuity: granted 2 s; alive after 1 s, gone after 2 s; Refresh 0 deletes at once -/
def cfg0 : Cfg :=
  { permT := 300 * sec, chanT := 600 * sec, lifeT := 600 * sec, maxLife := 3600 * sec, rtpMTU := 1600
    inMTU := 1600, bindT := 30 * sec, resvT := 30 * sec, strict := false, hasAuth := true, hasQuota := false
    relay4 := ⟨false, 1⟩, relay6 := ⟨true, 1⟩, lis := [⟨false, 1, false, [], []⟩] }
def okCred : Cred := ⟨true, true, true, true, true, true, true, "alice"⟩
def k0 : Key := ⟨0, ⟨⟨false, 7⟩, 4000⟩⟩
def alloc2s : Op := .msg k0 100 (.allocate 1 okCred (.val 2) (.val 17) false .absent .absent .absent ⟨some 50001, true, none, ""⟩)
set_option maxRecDepth 8000 in
example : (run cfg0 init [alloc2s, .adv (2 * sec - 1)]).1.allocs.length = 1 := by decide
set_option maxRecDepth 8000 in
example : (run cfg0 init [alloc2s, .adv (2 * sec)]).1.allocs.length = 0 := by decide
set_option maxRecDepth 8000 in
example : (run cfg0 init [alloc2s, .msg k0 100 (.refresh 2 okCred (.val 0) .absent)]).1.allocs.length = 0 := by decide
example : lifetimeOf cfg0 (.val 3600) = 600 * sec ∧ lifetimeOf cfg0 (.val 3599) = 3599 * sec := by decide


/-- regenerated: the maximum requestable lifetime in today's source is one hour ("below one hour") and the
    default lifetime NewServer applies is the documented 10 minutes -/
theorem max_lifetime_regenerated :
    Gen.Consts.server_maximumAllocationLifetime = 3600 * 1000000000 ∧ Gen.Consts.default_allocationLifetime = 600 * 1000000000 := by
  decide

end Turn.C06
