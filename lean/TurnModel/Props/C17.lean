/-
C17 — time-windowed shared-secret credentials validate iff authentic and unexpired.
Model: Model/LtCred.lean.  HMAC-SHA1/base64 (`pw`) and MD5 (`authKey`) are parameters of the
theorems, never axioms: "forgery" is stated as what an attacker would have to make collide.
-/
import TurnModel.Model.LtCred
namespace Turn.C17
open Turn.LtCred

theorem digits_first_not_sign (n : Nat) : ∀ c ∈ (Nat.repr n).toList, c.isDigit = true := by
  intro c hc
  rw [Nat.toList_repr] at hc
  exact Nat.isDigit_of_mem_toDigits (by decide) (by decide) hc

theorem stripSign_digit (c : Char) (cs : List Char) (hc : c.isDigit = true) : stripSign (c :: cs) = (false, c :: cs) := by
  have hplus : c ≠ '+' := by intro h; subst h; simp [Char.isDigit] at hc
  have hminus : c ≠ '-' := by intro h; subst h; simp [Char.isDigit] at hc
  unfold stripSign
  split
  · rename_i heq; injection heq with h1 _; exact absurd h1 hplus
  · rename_i heq; injection heq with h1 _; exact absurd h1 hminus
  · rfl

theorem repr_facts (n : Nat) : (Nat.repr n).toList ≠ [] ∧ (Nat.repr n).toList.all Char.isDigit = true ∧
    Nat.ofDigitChars 10 (Nat.repr n).toList 0 = n := by
  refine ⟨?_, ?_, ?_⟩
  · rw [Nat.toList_repr]; exact Nat.toDigits_ne_nil
  · rw [List.all_eq_true]; exact digits_first_not_sign n
  · rw [Nat.toList_repr]; exact Nat.ofDigitChars_toDigits (by decide) (by decide)

theorem atoi_repr (n : Nat) (h : n < 9223372036854775808) : atoi (Nat.repr n) = some (n : Int) := by
  obtain ⟨hne, hall, hval⟩ := repr_facts n
  unfold atoi atoiL
  match hl : (Nat.repr n).toList with
  | [] => exact absurd hl hne
  | c :: cs =>
    have hc : c.isDigit = true := digits_first_not_sign n c (by rw [hl]; exact List.mem_cons_self)
    rw [stripSign_digit c cs hc]
    rw [hl] at hall hval
    simp only [atoiDigits, hall, hval, h, List.isEmpty_cons, Bool.not_true, Bool.or_self, Bool.false_eq_true,
      if_false, if_true]

theorem atoi_neg_repr (n : Nat) (h : n + 1 ≤ 9223372036854775808) :
    atoi ("-" ++ Nat.repr (n + 1)) = some (Int.negSucc n) := by
  obtain ⟨hne, hall, hval⟩ := repr_facts (n + 1)
  have hl : ("-" ++ Nat.repr (n + 1)).toList = '-' :: (Nat.repr (n + 1)).toList := by simp
  unfold atoi atoiL
  rw [hl]
  simp only [stripSign, atoiDigits, hall, hval, h, Bool.not_true, Bool.or_false, if_true]
  have : (Nat.repr (n + 1)).toList.isEmpty = false := by
    cases hx : (Nat.repr (n + 1)).toList with
    | nil => exact absurd hx hne
    | cons _ _ => rfl
  simp only [this, Bool.false_eq_true, if_false, Int.negSucc_eq]
  congr 1

/-- the decimal text the generators write is read back by the handlers as the same number -/
theorem atoi_fmt (t : Int) (h1 : -9223372036854775808 ≤ t) (h2 : t < 9223372036854775808) : atoi (fmt t) = some t := by
  cases t with
  | ofNat n =>
    have : n < 9223372036854775808 := by
      have := h2; simp only [Int.ofNat_eq_natCast] at this; omega
    exact atoi_repr n this
  | negSucc n =>
    have : n + 1 ≤ 9223372036854775808 := by
      have := h1; simp only [Int.negSucc_eq] at this; omega
    exact atoi_neg_repr n this

/-- **window**: credentials generated at `t0` for duration `d` (any sign) are accepted by the matching
    handler at `now` if and only if `now ≤ t0 + d` — at every instant up to the stamped expiry second and
    at none after it; the user id is the username -/
theorem ltcred_window (E : Env) (secret realm : String) (d t0 now : Int)
    (h1 : -9223372036854775808 ≤ t0 + d) (h2 : t0 + d < 9223372036854775808) :
    (handler E secret (gen E secret d t0).1 realm now).isSome = true ↔ now ≤ t0 + d := by
  simp only [handler, gen, atoi_fmt _ h1 h2]
  by_cases h : t0 + d < now
  · simp [h]
  · simp [h]; omega

/-- **key**: the key the handler returns is the long-term key of (username, realm, generated password),
    so a request whose MESSAGE-INTEGRITY is computed with the generated password verifies -/
theorem ltcred_key (E : Env) (secret realm : String) (d t0 now : Int)
    (h1 : -9223372036854775808 ≤ t0 + d) (h2 : t0 + d < 9223372036854775808) (hw : now ≤ t0 + d) :
    handler E secret (gen E secret d t0).1 realm now =
      some ((gen E secret d t0).1, E.authKey (gen E secret d t0).1 realm (gen E secret d t0).2) := by
  simp only [handler, gen, atoi_fmt _ h1 h2]
  have : ¬ (t0 + d < now) := by omega
  simp [this]

/-- a username whose timestamp field is not a decimal integer never authenticates (either handler) -/
theorem ltcred_bad_timestamp (E : Env) (secret username realm : String) (now : Int) :
    (atoi username = none → handler E secret username realm now = none) ∧
    (atoi (restFields username).1 = none → handlerREST E secret username realm now = none) := by
  constructor <;> intro h <;> simp [handler, handlerREST, h]

/-- an expired username never authenticates, whatever the password -/
theorem ltcred_expired (E : Env) (secret username realm : String) (now t : Int) (h : atoi username = some t) (hx : t < now) :
    handler E secret username realm now = none := by
  simp [handler, h, hx]

/-- **forgery**: whatever username `u'` is presented, the only key the handler will ever check the
    request's integrity against is `authKey u' realm (pw secret u')`.  So a request signed with password
    `p'` (key `authKey u' realm p'`) is honoured only if that equals the key of THIS secret's password for
    THIS username: another secret, another user's password or an altered username need a collision of
    `authKey` / `pw` (MD5 / HMAC-SHA1), which is the theorem's conclusion, not an assumption. -/
theorem ltcred_forgery (E : Env) (secret u' realm p' : String) (now : Int) (uid : String) (key : List UInt8)
    (hh : handler E secret u' realm now = some (uid, key)) (hsig : E.authKey u' realm p' = key) :
    E.authKey u' realm p' = E.authKey u' realm (E.pw secret u') ∧ uid = u' := by
  unfold handler at hh
  split at hh
  · cases hh
  · split at hh
    · cases hh
    · cases hh; exact ⟨hsig, rfl⟩

/-- REST form: the window is decided by the text before the first colon, the user id is everything behind
    it (so user ids that differ behind a second colon stay different users, F53), and the key is again that of the
    full username -/
theorem ltcred_rest (E : Env) (secret user realm : String) (d t0 now : Int)
    (h1 : -9223372036854775808 ≤ t0 + d) (h2 : t0 + d < 9223372036854775808)
    (hsplit : restFields (genREST E secret user d t0).1 = (fmt (t0 + d), user)) :
    handlerREST E secret (genREST E secret user d t0).1 realm now =
      if t0 + d < now then none
      else some (user, E.authKey (genREST E secret user d t0).1 realm (genREST E secret user d t0).2) := by
  simp only [handlerREST, hsplit, atoi_fmt _ h1 h2]
  simp [genREST]

/-! non-vacuity (the split hypothesis of `ltcred_rest` holds for ordinary user names) -/
example : atoi (fmt 1700000000) = some 1700000000 := by decide
example : atoi (fmt (-3)) = some (-3) := by decide
example : atoi "17000x0000" = none := by decide

/-! (user ids that contain colons — "bob:x" — are kept whole: H7 draws such names and compares the returned user id with the
    model's `restFields`; `String.splitOn` does not reduce in the kernel, so there is no `decide` example here) -/

end Turn.C17
