/-
C01 — client data leaves the relay only toward peers that client authorised.
Model: Model/Server.lean (M4).  `Reach c s`: `s` is reachable from the empty server by ANY
operation history (any number of clients, any elapsed times, any policy / timeout configuration `c`).
-/
import TurnModel.Lemmas.ServerInv
namespace Turn.C01
open Turn.Srv

/-- A Send indication relays only from the sender's own allocation's relayed address, to the peer
    named in it, the payload submitted, and only if that allocation holds an unexpired permission
    for the peer's IP. -/
theorem send_gated {c : Cfg} (hc : CfgOK c) {s : State} (hr : Reach c s) (k : Key) (sz : Nat)
    (data : Option Bytes) (peer : Attr Addr) (r d : Addr) (q : Bytes)
    (h : Out.toPeer r d q ∈ (step c s (.msg k sz (.send data peer))).2) :
    ∃ a, findAlloc s k = some a ∧ a.tcp = false ∧ r = a.relay ∧ peer = .val d ∧ data = some q ∧
      ∃ p ∈ a.perms, p.ip = d.ip ∧ s.now < p.expiry := by
  simp only [step] at h
  split at h; · simp at h
  split at h; · simp at h
  simp only [handle, hSend] at h
  split at h
  · simp [applyUpd] at h
  · rename_i a ha
    split at h
    · rename_i d' p'
      split at h
      · rename_i hp
        simp only [applyUpd, List.append_nil, List.mem_singleton, Out.toPeer.injEq] at h
        obtain ⟨rfl, rfl, rfl⟩ := h
        simp only [Bool.and_eq_true, Bool.not_eq_true'] at hp
        obtain ⟨p, hpm, hpi⟩ := hasPerm_iff.mp hp.1
        have hl := (reach_inv (live_point hc) hr) a (findAlloc_some ha).1
        exact ⟨a, ha, hp.2, rfl, rfl, rfl, p, hpm, hpi, hl.2.1 p hpm⟩
      · simp [applyUpd] at h
    · simp [applyUpd] at h

/-- A ChannelData message relays only through the unexpired binding it names, from the sender's own
    relayed address, to the bound peer, with exactly the declared payload bytes. -/
theorem chandata_gated {c : Cfg} (hc : CfgOK c) {s : State} (hr : Reach c s) (k : Key) (sz : Nat)
    (raw : Bytes) (r d : Addr) (q : Bytes)
    (h : Out.toPeer r d q ∈ (step c s (.msg k sz (.chanData raw))).2) :
    ∃ a n ch, decodeCD raw = .ok (n, q) ∧ findAlloc s k = some a ∧ a.tcp = false ∧ r = a.relay ∧
      ch ∈ a.chans ∧ ch.num = n ∧ ch.peer = d ∧ s.now < ch.expiry := by
  simp only [step] at h
  split at h; · simp at h
  split at h; · simp at h
  simp only [handle, hChanData] at h
  split at h
  · simp [applyUpd] at h
  · rename_i n q' hdec
    split at h
    · simp [applyUpd] at h
    · rename_i a ha
      split at h
      · simp [applyUpd] at h
      · rename_i ch hch
        split at h
        · simp [applyUpd] at h
        · rename_i htcp
          simp only [applyUpd, List.append_nil, List.mem_singleton, Out.toPeer.injEq] at h
          obtain ⟨rfl, rfl, rfl⟩ := h
          obtain ⟨hm, hn⟩ := chanByNum_some hch
          have hl := (reach_inv (live_point hc) hr) a (findAlloc_some ha).1
          exact ⟨a, n, ch, hdec, ha, by simpa using htcp, rfl, hm, hn, rfl, hl.2.2 ch hm⟩

theorem closeOuts_no_toPeer (a : Alloc) (r d : Addr) (q : Bytes) : Out.toPeer r d q ∉ closeOuts a := by
  simp only [closeOuts, List.mem_flatMap, not_exists, not_and]
  intro t _ h
  split at h <;> simp at h

theorem authFail_no_toPeer (k m tid r' r d q) : Out.toPeer r d q ∉ authFail k m tid r' := by
  cases r' <;> simp [authFail, errResp]

/-- Nothing but a Send indication or a ChannelData message ever makes the server emit a datagram from
    a relayed address: every other request, every relay-side event, every timer and teardown emits
    nothing toward any peer. -/
theorem only_these_emit (c : Cfg) (s : State) (op : Op) (r d : Addr) (q : Bytes)
    (h : Out.toPeer r d q ∈ (step c s op).2) :
    ∃ k sz, (∃ data peer, op = .msg k sz (.send data peer)) ∨ (∃ raw, op = .msg k sz (.chanData raw)) := by
  cases op with
  | adv dt =>
    simp only [step, advance, List.mem_append, List.mem_flatMap] at h
    rcases h with ⟨a, _, h⟩ | ⟨pr, hpr, h⟩
    · exact absurd h (closeOuts_no_toPeer a r d q)
    · simp only [List.mem_map] at hpr
      obtain ⟨b, _, rfl⟩ := hpr
      simp only [purgeAlloc, List.mem_map] at h
      obtain ⟨t, _, ht⟩ := h
      cases ht
  | msg k sz m =>
    cases m with
    | send data peer => exact ⟨k, sz, Or.inl ⟨data, peer, rfl⟩⟩
    | chanData raw => exact ⟨k, sz, Or.inr ⟨raw, rfl⟩⟩
    | allocate tid cr lt tr df tok even fam env =>
      exfalso
      simp only [step] at h
      split at h; · simp at h
      split at h; · simp at h
      simp only [handle, hAllocate] at h
      split at h
      · split at h
        · split at h <;> simp [applyUpd, okResp, errResp] at h
        · split at h
          · simp [applyUpd, errResp] at h
          · split at h
            · simp [applyUpd, errResp] at h
            · split at h <;> simp [applyUpd, errResp, okResp, setAlloc] at h
      · simp only [applyUpd, List.append_nil] at h
        exact authFail_no_toPeer _ _ _ _ _ _ _ h
    | refresh tid cr lt fam =>
      exfalso
      simp only [step] at h
      split at h; · simp at h
      split at h; · simp at h
      simp only [handle, hRefresh] at h
      split at h
      · split at h
        · simp [applyUpd] at h
        · split at h
          · simp [applyUpd, errResp] at h
          · split at h
            · simp only [applyUpd, okResp, List.mem_append, List.mem_singleton, reduceCtorEq, false_or] at h
              split at h
              · exact closeOuts_no_toPeer _ _ _ _ h
              · simp at h
            · simp [applyUpd, okResp] at h
      · simp only [applyUpd, List.append_nil] at h
        exact authFail_no_toPeer _ _ _ _ _ _ _ h
    | createPerm tid cr peers =>
      exfalso
      simp only [step] at h
      split at h; · simp at h
      split at h; · simp at h
      simp only [handle, hCreatePerm] at h
      split at h
      · split at h
        · simp [applyUpd] at h
        · split at h
          · simp [applyUpd, errResp] at h
          · split at h <;> simp [applyUpd, errResp, okResp] at h
      · simp only [applyUpd, List.append_nil] at h
        exact authFail_no_toPeer _ _ _ _ _ _ _ h
    | chanBind tid cr num peer =>
      exfalso
      simp only [step] at h
      split at h; · simp at h
      split at h; · simp at h
      simp only [handle, hChanBind] at h
      split at h
      · split at h
        · simp [applyUpd] at h
        · split at h <;> simp [applyUpd, errResp, okResp] at h
      · simp only [applyUpd, List.append_nil] at h
        exact authFail_no_toPeer _ _ _ _ _ _ _ h
    | binding tid =>
      exfalso
      simp only [step] at h
      split at h; · simp at h
      split at h; · simp at h
      simp [handle, applyUpd, okResp] at h
    | connect tid cr peer dialOK cid =>
      exfalso
      simp only [step] at h
      split at h; · simp at h
      split at h; · simp at h
      simp only [handle, hConnect] at h
      split at h
      · split at h
        · simp [applyUpd] at h
        · split at h <;> simp [applyUpd, errResp, okResp] at h
      · simp only [applyUpd, List.append_nil] at h
        exact authFail_no_toPeer _ _ _ _ _ _ _ h
    | connBind tid cr cid =>
      exfalso
      simp only [step] at h
      split at h; · simp at h
      split at h; · simp at h
      have hcb : ∀ o ∈ (hConnBind c s k tid cr cid).1, o ≠ Out.toPeer r d q := by
        intro o ho
        unfold hConnBind at ho
        split at ho
        · split at ho
          · split at ho; · simp [errResp] at ho; subst ho; simp
            split at ho
            · simp [errResp] at ho; subst ho; simp
            · split at ho; · simp [errResp] at ho; subst ho; simp
              split at ho; · simp [errResp] at ho; subst ho; simp
              simp only [List.mem_cons] at ho
              rcases ho with rfl | ho
              · simp [okResp]
              · split at ho
                · simp at ho
                · simp at ho; subst ho; simp
          · simp [errResp] at ho; subst ho; simp
        · intro heq; subst heq; exact authFail_no_toPeer _ _ _ _ _ _ _ ho
      split at h
      · rename_i outs a heq
        exact hcb _ (by rw [heq]; exact h) rfl
      · rename_i outs heq
        exact hcb _ (by rw [heq]; exact h) rfl
    | unknownAttr m tid =>
      exfalso
      simp only [step] at h
      split at h; · simp at h
      split at h; · simp at h
      simp [handle, applyUpd, errResp] at h
    | junk =>
      exfalso
      simp only [step] at h
      split at h; · simp at h
      split at h; · simp at h
      simp [handle, applyUpd] at h
  | peerData relay frm data =>
    exfalso
    simp only [step, hPeerData] at h
    split at h; · simp at h
    split at h; · simp at h
    split at h; · simp at h
    split at h <;> simp at h
  | peerConn relay frm cid =>
    exfalso
    simp only [step] at h
    split at h; · simp at h
    split at h; · simp at h
    split at h <;> simp at h
  | ctrlClose k =>
    exfalso
    simp only [step] at h
    split at h
    · exact closeOuts_no_toPeer _ _ _ _ h
    · simp at h
  | relayErr rl =>
    exfalso
    simp only [step] at h
    split at h
    · exact closeOuts_no_toPeer _ _ _ _ h
    · simp at h
  | pipeC2P k dt =>
    exfalso
    simp only [step] at h
    split at h <;> simp at h
  | pipeP2C lid cid dt =>
    exfalso
    simp only [step] at h
    split at h
    · split at h
      · split at h <;> simp at h
      · simp at h
    · simp at h
  | pipeCloseC k =>
    exfalso
    simp only [step] at h
    split at h <;> simp at h
  | pipeCloseP lid cid =>
    exfalso
    simp only [step] at h
    split at h
    · split at h
      · split at h <;> simp at h
      · simp at h
    · simp at h
  | close =>
    exfalso
    simp only [step, List.mem_flatMap] at h
    obtain ⟨a, _, h⟩ := h
    exact closeOuts_no_toPeer _ _ _ _ h

/-- **policy invariant** — in every reachable state every permission, every channel binding and every
    outbound TCP connect target of every allocation is a peer the operator's permission handler
    granted to that listener, and permissions and bindings are of the allocation's address family. -/
theorem policy_inv {c : Cfg} {s : State} (hr : Reach c s) : ∀ a ∈ s.allocs,
    (∀ p ∈ a.perms, granted c a.key p.ip = true ∧ famOK p.ip a.fam = true) ∧
    (∀ ch ∈ a.chans, granted c a.key ch.peer.ip = true ∧ famOK ch.peer.ip a.fam = true) ∧
    (∀ t ∈ a.conns, t.inbound = false → granted c a.key t.peer.ip = true) :=
  reach_inv (policy_point c) hr

/-- a peer address the operator's permission handler refuses never receives relayed data: from the
    empty server, no history makes any client's Send or ChannelData reach it -/
theorem refused_never_receives {c : Cfg} (hc : CfgOK c) {s : State} (hr : Reach c s) (op : Op) (r d : Addr) (q : Bytes)
    (h : Out.toPeer r d q ∈ (step c s op).2) :
    ∃ k sz m, op = .msg k sz m ∧ granted c k d.ip = true := by
  obtain ⟨k, sz, ⟨data, peer, rfl⟩ | ⟨raw, rfl⟩⟩ := only_these_emit c s op r d q h
  · obtain ⟨a, ha, _, _, _, _, p, hp, hpi, _⟩ := send_gated hc hr k sz data peer r d q h
    have := (policy_inv hr a (findAlloc_some ha).1).1 p hp
    rw [(findAlloc_some ha).2, hpi] at this
    exact ⟨k, sz, _, rfl, this.1⟩
  · obtain ⟨a, n, ch, _, ha, _, _, hch, _, hpe, _⟩ := chandata_gated hc hr k sz raw r d q h
    have := (policy_inv hr a (findAlloc_some ha).1).2.1 ch hch
    rw [(findAlloc_some ha).2, hpe] at this
    exact ⟨k, sz, _, rfl, this.1⟩

/-- the same for TCP connect targets: the server dials a peer only if the handler granted it -/
theorem dial_granted (c : Cfg) (s : State) (k : Key) (sz tid : Nat) (cr : Cred) (peer : Attr Addr) (dialOK : Bool)
    (cid : Nat) (r d : Addr) (n : Nat)
    (h : Out.dial r d n ∈ (step c s (.msg k sz (.connect tid cr peer dialOK cid))).2) :
    granted c k d.ip = true := by
  simp only [step] at h
  split at h; · simp at h
  split at h; · simp at h
  simp only [handle, hConnect] at h
  split at h
  · split at h
    · simp [applyUpd] at h
    · split at h
      · simp [applyUpd] at h
      · simp [applyUpd, errResp] at h
      · rename_i p hcc
        simp only [applyUpd, List.append_nil, List.mem_cons, Out.dial.injEq, okResp, reduceCtorEq,
          List.not_mem_nil, or_false] at h
        obtain ⟨_, rfl, _⟩ := h
        exact (connectChecks_ok hcc).2.1
  · simp only [applyUpd, List.append_nil, authFail] at h
    split at h <;> simp [errResp] at h

/-! non-vacuity: a concrete history that does relay, under a configuration satisfying `CfgOK` -/
def cfg0 : Cfg :=
  { permT := 300 * sec, chanT := 600 * sec, lifeT := 600 * sec, maxLife := 3600 * sec, rtpMTU := 1600
    inMTU := 1600, bindT := 30 * sec, resvT := 30 * sec, strict := false, hasAuth := true, hasQuota := false
    relay4 := ⟨false, 1⟩, relay6 := ⟨true, 1⟩, lis := [⟨false, 1, false, [⟨false, 99⟩], []⟩] }
def okCred : Cred := ⟨true, true, true, true, true, true, true, "alice"⟩
def k0 : Key := ⟨0, ⟨⟨false, 7⟩, 4000⟩⟩
def peer0 : Addr := ⟨⟨false, 9⟩, 9000⟩
def hist0 : List Op := [
  .msg k0 100 (.allocate 1 okCred .absent (.val 17) false .absent .absent .absent ⟨some 50001, true, none, ""⟩),
  .msg k0 100 (.createPerm 2 okCred [some peer0]),
  .adv (299 * sec)]

example : CfgOK cfg0 := ⟨by decide, by decide⟩
set_option maxRecDepth 8000 in
example : (step cfg0 (run cfg0 init hist0).1 (.msg k0 30 (.send (some [1, 2, 3]) (.val peer0)))).2 =
    [Out.toPeer ⟨⟨false, 1⟩, 50001⟩ peer0 [1, 2, 3]] := by decide
-- …and one second later the permission has lapsed and nothing is emitted
set_option maxRecDepth 8000 in
example : (step cfg0 (run cfg0 init (hist0 ++ [.adv sec])).1 (.msg k0 30 (.send (some [1, 2, 3]) (.val peer0)))).2 = [] := by
  decide

end Turn.C01
