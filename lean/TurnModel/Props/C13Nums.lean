/-
C13 (channel numbers): the numbering invariant is preserved by every operation, so over ANY history in which
the client has written to at most 16384 distinct peers, the channel numbers it uses are pairwise distinct,
inside 0x4000–0x7FFF, and never change for a peer.
-/
import TurnModel.Props.C13
namespace Turn.C13
open Turn.Cli
open Turn.Srv (IP Addr)

/-- what the numbering depends on: the numbers, the peers (in creation order) and the next free number -/
def Sig (s : State) : List Nat × List Addr × Nat := (s.binds.map (·.num), s.binds.map (·.addr), s.next)

theorem eq_of_addr_eq : ∀ (l : List Bind), (l.map (·.addr)).Nodup → ∀ x ∈ l, ∀ b ∈ l, x.addr = b.addr → x = b := by
  intro l
  induction l with
  | nil => intro _ x hx; cases hx
  | cons a as ih =>
    intro hnd x hx b hb hab
    simp only [List.map_cons, List.nodup_cons, List.mem_map, not_exists, not_and] at hnd
    rcases List.mem_cons.mp hx with rfl | hx' <;> rcases List.mem_cons.mp hb with rfl | hb'
    · rfl
    · exact absurd hab.symm (hnd.1 b hb')
    · exact absurd hab (hnd.1 x hx')
    · exact ih hnd.2 x hx' b hb' hab

theorem maybeBind_sig (s : State) (b : Bind) (rx : List Rx) (hb : b ∈ s.binds) (hnd : (s.binds.map (·.addr)).Nodup) :
    Sig (maybeBind s b rx).1 = Sig s := by
  have h1 := maybeBind_nums s b rx (fun x hx hab => by rw [eq_of_addr_eq s.binds hnd x hx b hb hab])
  have h2 := maybeBind_binds_addrs s b rx
  unfold Sig
  rw [h1.1, h1.2, h2.1]

theorem checkBindings_sig (s : State) (rx : List Rx) (hnd : (s.binds.map (·.addr)).Nodup) : Sig (checkBindings s rx).1 = Sig s := by
  unfold checkBindings
  have : ∀ (l : List Bind) (acc : State × List Out), Sig acc.1 = Sig s →
      Sig (l.foldl (fun (acc : State × List Out) b =>
        match findBind acc.1 b.addr with
        | some cur => let r := maybeBind acc.1 cur rx; (r.1, acc.2 ++ r.2)
        | none => acc) acc).1 = Sig s := by
    intro l
    induction l with
    | nil => intro acc h; exact h
    | cons b bs ih =>
      intro acc h
      simp only [List.foldl_cons]
      apply ih
      split
      · rename_i cur hc
        have hnd' : (acc.1.binds.map (·.addr)).Nodup := by
          have : acc.1.binds.map (·.addr) = s.binds.map (·.addr) := congrArg (·.2.1) h
          rw [this]; exact hnd
        rw [← h]
        exact maybeBind_sig acc.1 cur rx (findBind_mem hc).1 hnd'
      · exact h
  exact this s.binds (s, []) rfl

theorem advTicks_sig : ∀ (f : Nat) (s : State) (lim : Nat), (s.binds.map (·.addr)).Nodup → Sig (advTicks f s lim).1 = Sig s := by
  intro f
  induction f with
  | zero => intro s lim _; rfl
  | succ f ih =>
    intro s lim hnd
    simp only [advTicks]
    split
    · rfl
    · split
      · have h1 := checkBindings_sig { s with now := s.nextTick, nextTick := s.nextTick + bindCheck } [] hnd
        have hnd' : ((checkBindings { s with now := s.nextTick, nextTick := s.nextTick + bindCheck } []).1.binds.map (·.addr)).Nodup := by
          have : (checkBindings { s with now := s.nextTick, nextTick := s.nextTick + bindCheck } []).1.binds.map (·.addr) = s.binds.map (·.addr) :=
            congrArg (·.2.1) h1
          rw [this]; exact hnd
        rw [ih _ lim hnd', h1]; rfl
      · rfl

theorem enqueue_sig (s : State) (f : Addr) (d : Bytes) : Sig (enqueue s f d) = Sig s := by
  unfold enqueue; split <;> rfl

theorem handleInbound_sig (s : State) (m : Inbound) : Sig (handleInbound s m).1 = Sig s := by
  cases m <;> simp only [handleInbound]
  · split
    · rfl
    · exact enqueue_sig _ _ _
  · split
    · rfl
    · split
      · rfl
      · split
        · exact enqueue_sig _ _ _
        · rfl

theorem readFrom_sig (s : State) : Sig (readFrom s).1 = Sig s := by
  unfold readFrom
  split
  · rfl
  · split <;> rfl

/-- `WriteTo` either leaves the numbering alone or — first write to a new peer — appends the next number -/
theorem writeTo_sig (s : State) (peer : Addr) (data : Bytes) (prx brx : List Rx) (hnd : (s.binds.map (·.addr)).Nodup) :
    Sig (writeTo s peer data prx brx).1 = Sig s ∨
    (peer ∉ s.binds.map (·.addr) ∧ s.binds.length < chanCount ∧
      Sig (writeTo s peer data prx brx).1 = (s.binds.map (·.num) ++ [s.next], s.binds.map (·.addr) ++ [peer], nextNum s.next)) := by
  unfold writeTo
  split
  · exact Or.inl rfl
  · simp only
    split
    · generalize hg : (if (permState s peer.ip != some true) = true then
          { s with perms := (peer.ip, true) :: s.perms.filter (fun p => !(p.1 == peer.ip)), permOK := peer.ip :: s.permOK }
        else s) = s1
      have hsig : Sig s1 = Sig s := by rw [← hg]; split <;> rfl
      have hb1 : s1.binds = s.binds := by rw [← hg]; split <;> rfl
      have hn1 : s1.next = s.next := by rw [← hg]; split <;> rfl
      have hnd1 : (s1.binds.map (·.addr)).Nodup := by rw [hb1]; exact hnd
      cases hfb : findBind s1 peer with
      | some b =>
        simp only [bindFor, hfb]
        left
        split
        · exact hsig
        · rw [maybeBind_sig s1 b brx (findBind_mem hfb).1 hnd1]; exact hsig
      | none =>
        simp only [bindFor, hfb]
        by_cases hfull : s1.binds.length < chanCount
        case neg => simp only [hfull, if_false]; exact Or.inl hsig
        simp only [hfull, if_true]
        right
        have hnot : peer ∉ s.binds.map (·.addr) := by
          intro hm
          simp only [List.mem_map] at hm
          obtain ⟨x, hx, hxa⟩ := hm
          unfold findBind at hfb
          rw [hb1] at hfb
          have := List.find?_eq_none.mp hfb x hx
          simp [hxa] at this
        refine ⟨hnot, by rw [← hb1]; exact hfull, ?_⟩
        have hnd2 : ((s1.binds ++ [(⟨peer, s1.next, .idle, s1.now, false⟩ : Bind)]).map (·.addr)).Nodup := by
          rw [List.map_append, hb1]
          simp only [List.map_cons, List.map_nil]
          rw [List.nodup_append]
          exact ⟨hnd, by simp, by intro a ha b hb; simp at hb; subst hb; intro h; subst h; exact hnot ha⟩
        have hsig2 : Sig { s1 with binds := s1.binds ++ [⟨peer, s1.next, .idle, s1.now, false⟩], next := nextNum s1.next } =
            (s.binds.map (·.num) ++ [s.next], s.binds.map (·.addr) ++ [peer], nextNum s.next) := by
          simp [Sig, hb1, hn1]
        split
        · exact hsig2
        · rw [maybeBind_sig _ _ brx (by simp) hnd2]; exact hsig2
    · left; rfl

/-- the numbering invariant is preserved by every operation (a new binding is only made while numbers are left) -/
theorem step_numInv (s : State) (op : Op) (h : NumInv s) : NumInv (step s op).1 := by
  have keep : ∀ s', Sig s' = Sig s → NumInv s' := by
    intro s' hs
    have h1 : s'.binds.map (·.num) = s.binds.map (·.num) := congrArg (·.1) hs
    have h2 : s'.binds.map (·.addr) = s.binds.map (·.addr) := congrArg (·.2.1) hs
    have h3 : s'.next = s.next := congrArg (·.2.2) hs
    have hlen : s'.binds.length = s.binds.length := by
      have := congrArg List.length h1; simpa using this
    exact ⟨by rw [h1, hlen]; exact h.nums, by rw [hlen, h3]; exact h.next, by rw [h2]; exact h.addrs⟩
  cases op with
  | write p d prx brx =>
    rcases writeTo_sig s p d prx brx h.addrs with hs | ⟨hnot, hlt, hs⟩
    · exact keep _ hs
    · have h1 : (step s (.write p d prx brx)).1.binds.map (·.num) = s.binds.map (·.num) ++ [s.next] := congrArg (·.1) hs
      have h2 : (step s (.write p d prx brx)).1.binds.map (·.addr) = s.binds.map (·.addr) ++ [p] := congrArg (·.2.1) hs
      have h3 : (step s (.write p d prx brx)).1.next = nextNum s.next := congrArg (·.2.2) hs
      have hlen : (step s (.write p d prx brx)).1.binds.length = s.binds.length + 1 := by
        have := congrArg List.length h1; simpa using this
      have hlt : s.binds.length < 16384 := hlt
      have hnext := h.next hlt
      refine ⟨?_, ?_, ?_⟩
      · rw [h1, hlen, List.range_succ, List.map_append, h.nums, hnext]; rfl
      · intro hl2
        rw [h3, hlen, hnext]
        have hne : (minChan + s.binds.length == maxChan) = false := by
          unfold minChan maxChan; simp; omega
        simp only [nextNum, hne]
        unfold minChan; simp; omega
      · rw [h2, List.nodup_append]
        exact ⟨h.addrs, by simp, by intro a ha b hb; simp at hb; subst hb; intro h'; subst h'; exact hnot ha⟩
  | tick rx =>
    simp only [step]
    split
    · exact h
    · exact keep _ (checkBindings_sig s rx h.addrs)
  | inbound m => exact keep _ (handleInbound_sig s m)
  | read => exact keep _ (readFrom_sig s)
  | adv dt => exact keep _ (advTicks_sig _ s _ h.addrs)
  | close =>
    simp only [step]
    split
    · exact h
    · exact keep _ rfl

theorem numInv_init : NumInv init := ⟨by simp [init], by intro _; simp [init], by simp [init]⟩

/-! the binding table only ever grows (no operation removes a binding), whatever its state -/

theorem checkBindings_addrs (s : State) (rx : List Rx) : (checkBindings s rx).1.binds.map (·.addr) = s.binds.map (·.addr) := by
  unfold checkBindings
  have : ∀ (l : List Bind) (acc : State × List Out), acc.1.binds.map (·.addr) = s.binds.map (·.addr) →
      (l.foldl (fun (acc : State × List Out) b =>
        match findBind acc.1 b.addr with
        | some cur => let r := maybeBind acc.1 cur rx; (r.1, acc.2 ++ r.2)
        | none => acc) acc).1.binds.map (·.addr) = s.binds.map (·.addr) := by
    intro l
    induction l with
    | nil => intro acc h; exact h
    | cons b bs ih =>
      intro acc h
      simp only [List.foldl_cons]
      apply ih
      split
      · rw [(maybeBind_binds_addrs acc.1 _ rx).1]; exact h
      · exact h
  exact this s.binds (s, []) rfl

theorem advTicks_addrs : ∀ (f : Nat) (s : State) (lim : Nat), (advTicks f s lim).1.binds.map (·.addr) = s.binds.map (·.addr) := by
  intro f
  induction f with
  | zero => intro s lim; rfl
  | succ f ih =>
    intro s lim
    simp only [advTicks]
    split
    · rfl
    · split
      · rw [ih, checkBindings_addrs]
      · rfl

theorem step_len_mono (s : State) (op : Op) : s.binds.length ≤ (step s op).1.binds.length := by
  have keep : ∀ s' : State, s'.binds.map (·.addr) = s.binds.map (·.addr) → s.binds.length ≤ s'.binds.length := by
    intro s' h
    have := congrArg List.length h
    simp at this; omega
  cases op with
  | write p d prx brx =>
    simp only [step]
    unfold writeTo
    split
    · exact Nat.le_refl _
    · simp only
      split
      · generalize hg : (if (permState s p.ip != some true) = true then
            { s with perms := (p.ip, true) :: s.perms.filter (fun q => !(q.1 == p.ip)), permOK := p.ip :: s.permOK }
          else s) = s1
        have hb1 : s1.binds = s.binds := by rw [← hg]; split <;> rfl
        cases hfb : findBind s1 p with
        | some b =>
          simp only [bindFor, hfb]
          split
          · rw [hb1]; exact Nat.le_refl _
          · exact keep _ (by rw [(maybeBind_binds_addrs s1 b brx).1, hb1])
        | none =>
          simp only [bindFor, hfb]
          by_cases hfull : s1.binds.length < chanCount
          case neg => simp only [hfull, if_false]; rw [hb1]; exact Nat.le_refl _
          simp only [hfull, if_true]
          split
          · simp [hb1]
          · have hl : (maybeBind { s1 with binds := s1.binds ++ [⟨p, s1.next, .idle, s1.now, false⟩], next := nextNum s1.next }
                ⟨p, s1.next, .idle, s1.now, false⟩ brx).1.binds.length = s1.binds.length + 1 := by
              have := congrArg List.length (maybeBind_binds_addrs
                { s1 with binds := s1.binds ++ [⟨p, s1.next, .idle, s1.now, false⟩], next := nextNum s1.next } ⟨p, s1.next, .idle, s1.now, false⟩ brx).1
              simpa using this
            have hl1 : s1.binds.length = s.binds.length := by rw [hb1]
            show s.binds.length ≤ (maybeBind _ _ brx).1.binds.length
            rw [hl]; omega
      · exact Nat.le_refl _
  | tick rx =>
    simp only [step]
    split
    · exact Nat.le_refl _
    · exact keep _ (checkBindings_addrs s rx)
  | inbound m => exact keep _ (congrArg (·.2.1) (handleInbound_sig s m))
  | read => exact keep _ (congrArg (·.2.1) (readFrom_sig s))
  | adv dt => exact keep _ (advTicks_addrs _ s _)
  | close => simp only [step]; split <;> exact Nat.le_refl _

theorem run_len_mono : ∀ (ops : List Op) (s : State), s.binds.length ≤ (run s ops).1.binds.length := by
  intro ops
  induction ops with
  | nil => intro s; exact Nat.le_refl _
  | cons o os ih => intro s; simp only [run]; exact Nat.le_trans (step_len_mono s o) (ih _)

/-- the table never holds more bindings than there are channel numbers -/
theorem step_len_le (s : State) (op : Op) (hnd : (s.binds.map (·.addr)).Nodup) (hl : s.binds.length ≤ chanCount) :
    (step s op).1.binds.length ≤ chanCount := by
  have keep : ∀ s' : State, Sig s' = Sig s → s'.binds.length ≤ chanCount := by
    intro s' hs
    have h1 : s'.binds.map (·.num) = s.binds.map (·.num) := congrArg (·.1) hs
    have := congrArg List.length h1
    simp at this; omega
  cases op with
  | write p d prx brx =>
    rcases writeTo_sig s p d prx brx hnd with hs | ⟨_, hlt, hs⟩
    · exact keep _ hs
    · have h1 : (step s (.write p d prx brx)).1.binds.map (·.num) = s.binds.map (·.num) ++ [s.next] := congrArg (·.1) hs
      have := congrArg List.length h1
      simp at this; omega
  | tick rx =>
    simp only [step]
    split
    · exact hl
    · exact keep _ (checkBindings_sig s rx hnd)
  | inbound m => exact keep _ (handleInbound_sig s m)
  | read => exact keep _ (readFrom_sig s)
  | adv dt => exact keep _ (advTicks_sig _ s _ hnd)
  | close =>
    simp only [step]
    split
    · exact hl
    · exact keep _ rfl

theorem run_numInv : ∀ (ops : List Op) (s : State), NumInv s → s.binds.length ≤ chanCount →
    NumInv (run s ops).1 ∧ (run s ops).1.binds.length ≤ chanCount := by
  intro ops
  induction ops with
  | nil => intro s h hl; exact ⟨h, hl⟩
  | cons o os ih =>
    intro s h hl
    simp only [run]
    exact ih _ (step_numInv s o h) (step_len_le s o h.addrs hl)

/-- **over ANY history** of writes (with any server reactions), inbound messages, reads, timer ticks, time
    steps and Close, to any number of peers: the channel numbers of the client's bindings are pairwise distinct and
    inside 0x4000–0x7FFF, the k-th peer that got a binding has number 0x4000 + k for good, no peer has two bindings,
    and there are never more bindings than channel numbers (a peer beyond the 16384th is served with Send
    indications: finding F28 was that it got a number still held by another peer) -/
theorem channel_numbers_any_history (ops : List Op) :
    ((run init ops).1.binds.map (·.num)).Nodup ∧ (∀ b ∈ (run init ops).1.binds, chanValid b.num = true) ∧
    (run init ops).1.binds.map (·.num) = (List.range (run init ops).1.binds.length).map (minChan + ·) ∧
    ((run init ops).1.binds.map (·.addr)).Nodup ∧ (run init ops).1.binds.length ≤ chanCount := by
  obtain ⟨h, hl⟩ := run_numInv ops init numInv_init (by simp [init, chanCount])
  obtain ⟨h1, h2⟩ := nums_distinct_in_range _ h hl
  exact ⟨h1, h2, h.nums, h.addrs, hl⟩

end Turn.C13
