/-
C07 — trace form: a permission / channel binding that exists now with expiry ≥ e is still there, with an
expiry ≥ e, after ANY history of operations (any requests of any client, peer traffic, connection events,
time steps) as long as the clock is still below e and the allocation itself has not ended on the way.
Together with `create_permission_installs` / `channel_bind_installs` (the entry gets exactly one full
timeout) and `entries_bounded` (never more than one full timeout, never an expired entry) this is
"lives one full timeout past its last refresh" for every history, not one step.
-/
import TurnModel.Props.C07
import TurnModel.Lemmas.ServerUniq
namespace Turn.C07
open Turn.Srv

def HoldsPerm (s : State) (k : Key) (ip : IP) (e : Nat) : Prop :=
  ∃ a, findAlloc s k = some a ∧ ∃ p ∈ a.perms, p.ip = ip ∧ e ≤ p.expiry

def HoldsChan (s : State) (k : Key) (n : Nat) (peer : Addr) (e : Nat) : Prop :=
  ∃ a, findAlloc s k = some a ∧ ∃ ch ∈ a.chans, ch.num = n ∧ ch.peer = peer ∧ e ≤ ch.expiry

/-- entries of `a` reappear in `b` with the same identity and an expiry that is not earlier -/
def Mono (a b : Alloc) : Prop :=
  (∀ p ∈ a.perms, ∃ p' ∈ b.perms, p'.ip = p.ip ∧ p.expiry ≤ p'.expiry) ∧
  (∀ ch ∈ a.chans, ∃ ch' ∈ b.chans, ch'.num = ch.num ∧ ch'.peer = ch.peer ∧ ch.expiry ≤ ch'.expiry)

theorem Mono.refl (a : Alloc) : Mono a a :=
  ⟨fun p hp => ⟨p, hp, rfl, Nat.le_refl _⟩, fun ch hch => ⟨ch, hch, rfl, rfl, Nat.le_refl _⟩⟩

theorem Mono.trans {a b d : Alloc} (h1 : Mono a b) (h2 : Mono b d) : Mono a d := by
  refine ⟨?_, ?_⟩
  · intro p hp
    obtain ⟨p1, hp1, e1, l1⟩ := h1.1 p hp
    obtain ⟨p2, hp2, e2, l2⟩ := h2.1 p1 hp1
    exact ⟨p2, hp2, e2.trans e1, Nat.le_trans l1 l2⟩
  · intro ch hch
    obtain ⟨c1, hc1, n1, q1, l1⟩ := h1.2 ch hch
    obtain ⟨c2, hc2, n2, q2, l2⟩ := h2.2 c1 hc1
    exact ⟨c2, hc2, n2.trans n1, q2.trans q1, Nat.le_trans l1 l2⟩

/-- a whole chain of changes (one request can make several) never shortens or removes an entry -/
theorem changes_monotone {c : Cfg} (hc : CfgOK c) {now : Nat} {a b : Alloc} (h : Changes c now a b) :
    Bounded c now a → ChanBij 0 a → Mono a b := by
  induction h with
  | refl a => intro _ _; exact Mono.refl a
  | step h _ ih =>
    intro hb hbij
    have m1 := change_monotone hb hbij h
    have hb' := (bounded_point hc).change _ _ _ hb h
    have hbij' : ChanBij 0 _ := (chanbij_point c).change now _ _ hbij h
    exact Mono.trans m1 (ih hb' hbij')

theorem key_unique {s : State} (hu : (keys s).Nodup) {a b : Alloc} (ha : a ∈ s.allocs) (hb : b ∈ s.allocs)
    (h : a.key = b.key) : a = b := by
  have : ∀ (l : List Alloc), (l.map (·.key)).Nodup → ∀ a ∈ l, ∀ b ∈ l, a.key = b.key → a = b := by
    intro l
    induction l with
    | nil => intro _ a ha; cases ha
    | cons x xs ih =>
      intro hnd a ha b hb hab
      simp only [List.map_cons, List.nodup_cons, List.mem_map, not_exists, not_and] at hnd
      rcases List.mem_cons.mp ha with rfl | ha'
      · rcases List.mem_cons.mp hb with rfl | hb'
        · rfl
        · exact absurd hab.symm (hnd.1 b hb')
      · rcases List.mem_cons.mp hb with rfl | hb'
        · exact absurd hab (hnd.1 a ha')
        · exact ih hnd.2 a ha' b hb' hab
  exact this s.allocs hu a ha b hb h

/-- one step: the allocation of `k` after the step, if there is one, still carries every entry of the allocation
    of `k` before the step whose expiry lies beyond the new clock -/
theorem step_keeps {c : Cfg} (hc : CfgOK c) {s : State} (hr : Reach c s) (op : Op) (k : Key) (a a' : Alloc)
    (ha : findAlloc s k = some a) (ha' : findAlloc (step c s op).1 k = some a') :
    (∀ p ∈ a.perms, (step c s op).1.now < p.expiry → ∃ p' ∈ a'.perms, p'.ip = p.ip ∧ p.expiry ≤ p'.expiry) ∧
    (∀ ch ∈ a.chans, (step c s op).1.now < ch.expiry →
      ∃ ch' ∈ a'.chans, ch'.num = ch.num ∧ ch'.peer = ch.peer ∧ ch.expiry ≤ ch'.expiry) := by
  obtain ⟨ham, hak⟩ := findAlloc_some ha
  obtain ⟨ham', hak'⟩ := findAlloc_some ha'
  have hu := (unique_reach hr).1
  have hb : Bounded c s.now a := entries_bounded hc hr a ham
  have hbij : ChanBij 0 a := reach_inv (chanbij_point c) hr a ham
  have fromMono : Mono a a' →
      (∀ p ∈ a.perms, (step c s op).1.now < p.expiry → ∃ p' ∈ a'.perms, p'.ip = p.ip ∧ p.expiry ≤ p'.expiry) ∧
      (∀ ch ∈ a.chans, (step c s op).1.now < ch.expiry →
        ∃ ch' ∈ a'.chans, ch'.num = ch.num ∧ ch'.peer = ch.peer ∧ ch.expiry ≤ ch'.expiry) :=
    fun m => ⟨fun p hp _ => m.1 p hp, fun ch hch _ => m.2 ch hch⟩
  cases step_allocs c s op a' ham' with
  | same h =>
    have : a' = a := key_unique hu h ham (hak'.trans hak.symm)
    subst this
    exact fromMono (Mono.refl _)
  | changed a0 h0 hch =>
    have hk0 : a0.key = a.key := by rw [← (Changes.key hch).1, hak', hak]
    have : a0 = a := key_unique hu h0 ham hk0
    subst this
    exact fromMono (changes_monotone hc hch hb hbij)
  | fresh k' hf =>
    have : k' = k := hf.key.symm.trans hak'
    subst this
    rw [hf.none] at ha
    cases ha
  | purged a0 dt h0 hop hl he =>
    subst hop
    have hk0 : a0.key = a.key := by
      have : a'.key = a0.key := by rw [he]; rfl
      rw [← this, hak', hak]
    have : a0 = a := key_unique hu h0 ham hk0
    subst this
    have hnow : (step c s (.adv dt)).1.now = s.now + dt := rfl
    rw [hnow, he]
    refine ⟨?_, ?_⟩
    · intro p hp hlt
      exact ⟨p, ((expires_exactly (s.now + dt) a0).1 p).mpr ⟨hp, hlt⟩, rfl, Nat.le_refl _⟩
    · intro ch hch hlt
      exact ⟨ch, ((expires_exactly (s.now + dt) a0).2 ch).mpr ⟨hch, hlt⟩, rfl, rfl, Nat.le_refl _⟩

theorem step_now_mono (c : Cfg) (s : State) (op : Op) : s.now ≤ (step c s op).1.now := by
  have := step_now c s op
  cases op <;> simp only at this <;> omega

theorem run_now_mono (c : Cfg) : ∀ (ops : List Op) (s : State), s.now ≤ (run c s ops).1.now := by
  intro ops
  induction ops with
  | nil => intro s; exact Nat.le_refl _
  | cons o os ih => intro s; simp only [run]; exact Nat.le_trans (step_now_mono c s o) (ih _)

/-- **perm_lives_full_timeout / chan_lives_full_timeout**: from any reachable state, over ANY history during
    which the allocation of `k` does not end, a permission for `ip` (a binding number ↦ peer) with expiry ≥ e is still
    held, with expiry ≥ e, in every state whose clock is below e. -/
theorem entry_lives {c : Cfg} (hc : CfgOK c) (k : Key) (e : Nat) : ∀ (ops : List Op) (s : State), Reach c s →
    (∀ n ≤ ops.length, findAlloc (run c s (ops.take n)).1 k ≠ none) →
    (run c s ops).1.now < e →
    (∀ ip, HoldsPerm s k ip e → HoldsPerm (run c s ops).1 k ip e) ∧
    (∀ n peer, HoldsChan s k n peer e → HoldsChan (run c s ops).1 k n peer e) := by
  intro ops
  induction ops with
  | nil => intro s _ _ _; exact ⟨fun _ h => h, fun _ _ h => h⟩
  | cons op ops ih =>
    intro s hr hlive hnow
    simp only [run] at hnow ⊢
    have hr1 := reach_step hr op
    have hlive1 : ∀ n ≤ ops.length, findAlloc (run c (step c s op).1 (ops.take n)).1 k ≠ none := by
      intro n hn
      have := hlive (n + 1) (by simp only [List.length_cons]; omega)
      simpa only [List.take_succ_cons, run] using this
    have hfirst : findAlloc (step c s op).1 k ≠ none := by
      have := hlive1 0 (Nat.zero_le _)
      simpa only [List.take_zero, run] using this
    have hnow1 : (step c s op).1.now < e := Nat.lt_of_le_of_lt (run_now_mono c ops _) hnow
    have ih' := ih (step c s op).1 hr1 hlive1 hnow
    cases hfa' : findAlloc (step c s op).1 k with
    | none => exact absurd hfa' hfirst
    | some a' =>
      refine ⟨?_, ?_⟩
      · intro ip h
        obtain ⟨a, hfa, p, hp, hip, hle⟩ := h
        obtain ⟨p', hp', hip', hle'⟩ := (step_keeps hc hr op k a a' hfa hfa').1 p hp (Nat.lt_of_lt_of_le hnow1 hle)
        exact ih'.1 ip ⟨a', hfa', p', hp', hip'.trans hip, Nat.le_trans hle hle'⟩
      · intro n peer h
        obtain ⟨a, hfa, ch, hch, hn, hpe, hle⟩ := h
        obtain ⟨ch', hch', hn', hpe', hle'⟩ := (step_keeps hc hr op k a a' hfa hfa').2 ch hch (Nat.lt_of_lt_of_le hnow1 hle)
        exact ih'.2 n peer ⟨a', hfa', ch', hch', hn'.trans hn, hpe'.trans hpe, Nat.le_trans hle hle'⟩

/-- while it is held the permission does what it is for: a Send indication to that IP is relayed (UDP allocation) -/
theorem held_perm_relays (s : State) (k : Key) (ip : IP) (e : Nat) (h : HoldsPerm s k ip e) (d : Bytes) (port : Nat) :
    ∃ a, findAlloc s k = some a ∧ (a.tcp = false → (hSend s k (some d) (.val ⟨ip, port⟩)).outs = [.toPeer a.relay ⟨ip, port⟩ d]) := by
  obtain ⟨a, hfa, p, hp, hip, _⟩ := h
  refine ⟨a, hfa, ?_⟩
  intro ht
  have : hasPerm a ip = true := hasPerm_iff.mpr ⟨p, hp, hip⟩
  simp [hSend, hfa, this, ht]

/-! non-vacuity: the hypotheses of `entry_lives` are met by a concrete history in which another client works on
    the same peer and channel number and time passes to one nanosecond before the permission's expiry -/
def holdsPermB (s : State) (k : Key) (ip : IP) (e : Nat) : Bool :=
  match findAlloc s k with
  | some a => a.perms.any (fun p => p.ip == ip && decide (e ≤ p.expiry))
  | none => false

theorem holdsPerm_of_b {s k ip e} (h : holdsPermB s k ip e = true) : HoldsPerm s k ip e := by
  unfold holdsPermB at h
  split at h
  · rename_i a ha
    simp only [List.any_eq_true, Bool.and_eq_true, beq_iff_eq, decide_eq_true_eq] at h
    obtain ⟨p, hp, hip, hle⟩ := h
    exact ⟨a, ha, p, hp, hip, hle⟩
  · cases h

def k1 : Key := ⟨0, ⟨⟨false, 7⟩, 4001⟩⟩
def s0 : State := (run cfg0 init hist0).1
def later : List Op := [
  .msg k1 100 (.allocate 1 okCred .absent (.val 17) false .absent .absent .absent ⟨some 50002, true, none, ""⟩),
  .adv (200 * sec),
  .msg k1 100 (.chanBind 2 okCred (.val 0x4000) (.val peer0)),
  .msg k0 100 (.send (some [1]) (.val peer0)),
  .msg k1 100 (.refresh 3 okCred (.val 0) .absent),
  .adv (100 * sec - 1)]
set_option maxRecDepth 16000 in
example : HoldsPerm (run cfg0 s0 later).1 k0 peer0.ip (540 * sec) :=
  (entry_lives (c := cfg0) ⟨by decide, by decide⟩ k0 (540 * sec) later s0 ⟨hist0, rfl⟩ (by decide) (by decide)).1 _
    (holdsPerm_of_b (by decide))

end Turn.C07
