/-
C04 — non-interference (two-run / purge form).

Whatever the other 5-tuples send — any requests, with any credentials, transaction ids, channel numbers
or peers — the client on 5-tuple `k` sees exactly what it would see if they had sent nothing: the same
responses, the same relayed data, the same data indications, and its allocation evolves identically.

Formally (Goguen–Meseguer): for any history `ops` made of
  * `own`   : `adv dt`, messages from `k` that act on an existing allocation (`localMsg`), peer datagrams
              arriving at any relayed address,
  * `other` : any request from any other 5-tuple (except ConnectionBind, see `connbind_frame`) and the
              closing of another client's control connection,
and any two states that agree on `k`'s view (clock, closed flag, `k`'s allocation), running `ops` from the
first and `purge k ops` (the history with every `other` operation deleted) from the second gives the same
final view of `k` and the same trace of observations of `k`.
-/
import TurnModel.Props.C04
namespace Turn.C04
open Turn.Srv

/-- what the handling of `k`'s own messages can depend on -/
def view (s : State) (k : Key) : Nat × Bool × Option Alloc := (s.now, s.closed, findAlloc s k)

/-- messages whose handler reads nothing but the caller's own allocation.  Allocate (relay ports, tokens,
    quota are shared resources), Connect (connection ids are unique per server) and ConnectionBind are
    excluded -/
def localMsg : Msg → Bool
  | .refresh .. | .createPerm .. | .chanBind .. | .send .. | .chanData .. | .binding .. | .unknownAttr .. | .junk => true
  | _ => false

def isOther (k : Key) : Op → Bool
  | .msg k' _ m => k' != k && ownOp m
  | .ctrlClose k' => k' != k
  | _ => false

def isOwn (k : Key) : Op → Bool
  | .adv _ => true
  | .msg k' _ m => k' == k && localMsg m
  | .peerData .. => true
  | _ => false

def purge (k : Key) (ops : List Op) : List Op := ops.filter (fun op => !isOther k op)

/-- messages the server sends to a client over its control 5-tuple -/
def ctlAddressee : Out → Option Key
  | .resp k .. => some k
  | .dataInd k .. => some k
  | .chanData k .. => some k
  | .connAttempt k .. => some k
  | _ => none

/-- what `k` observes of one step: everything its own request produced (responses and the datagrams sent
    to peers from its relayed address); of any other step the messages addressed to `k` -/
def obs (k : Key) (op : Op) (outs : List Out) : List Out :=
  match op with
  | .msg k' _ _ => if k' == k then outs else outs.filter (fun o => ctlAddressee o == some k)
  | .adv _ => []
  | _ => outs.filter (fun o => ctlAddressee o == some k)

def trace (k : Key) : List Op → List (List Out) → List (List Out)
  | op :: ops, o :: os => obs k op o :: trace k ops os
  | _, _ => []

/-! ### the view after each kind of step -/

theorem applyUpd_now (s : State) (k : Key) (u : Upd) : (applyUpd s k u).1.now = s.now ∧ (applyUpd s k u).1.closed = s.closed := by
  cases u <;> exact ⟨rfl, rfl⟩

theorem find_none_filter (l : List Alloc) (k : Key) : (l.filter (fun b => !(b.key == k))).find? (fun a => a.key == k) = none := by
  rw [List.find?_eq_none]
  intro x hx hk
  simp only [List.mem_filter] at hx
  simp [hk] at hx

theorem findAlloc_applyUpd_self (s : State) (k : Key) (u : Upd) :
    findAlloc (applyUpd s k u).1 k = (match u with | .keep => findAlloc s k | .set a => some { a with key := k } | .del => none) := by
  cases u with
  | keep => rfl
  | set a => simp [applyUpd, findAlloc, setAlloc]
  | del => simp only [applyUpd, findAlloc, delAlloc]; exact find_none_filter _ _

theorem applyUpd_outs (s : State) (k : Key) (u : Upd) :
    (applyUpd s k u).2 = (match u with | .del => (match findAlloc s k with | some a => closeOuts a | none => []) | _ => []) := by
  cases u <;> rfl

theorem closeOuts_ctl (a : Alloc) : ∀ o ∈ closeOuts a, ctlAddressee o = none := by
  intro o ho
  simp only [closeOuts, List.mem_flatMap] at ho
  obtain ⟨t, _, ht⟩ := ho
  simp only [List.mem_cons] at ht
  rcases ht with rfl | ht
  · rfl
  · split at ht
    · simp at ht; subst ht; rfl
    · simp at ht

theorem ctl_addressee (o : Out) (k : Key) (h : ctlAddressee o = some k) : addressee o = some k := by
  cases o <;> simp [ctlAddressee] at h <;> simp [addressee, h]

/-- a local message of `k`: outputs and next view are a function of the view -/
theorem local_handle_eq (c : Cfg) (s1 s2 : State) (k : Key) (m : Msg) (hm : localMsg m = true)
    (hn : s1.now = s2.now) (hf : findAlloc s1 k = findAlloc s2 k) : handle c s1 k m = handle c s2 k m := by
  cases m <;> simp only [localMsg, Bool.false_eq_true] at hm <;>
    simp only [handle, hRefresh, hCreatePerm, hChanBind, hSend, hChanData, ownAlloc, hn, hf]

theorem step_local (c : Cfg) (s : State) (k : Key) (sz : Nat) (m : Msg) (hm : localMsg m = true) :
    step c s (.msg k sz m) =
      if s.closed && !(getLis c k.lid).stream then (s, [])
      else if sz ≥ c.inMTU then (s, [])
      else ({ (applyUpd s k (handle c s k m).upd).1 with
                resvs := match (handle c s k m).resv with
                  | some rv => rv :: (applyUpd s k (handle c s k m).upd).1.resvs
                  | none => (applyUpd s k (handle c s k m).upd).1.resvs },
            (handle c s k m).outs ++ (applyUpd s k (handle c s k m).upd).2) := by
  cases m <;> simp only [localMsg, Bool.false_eq_true] at hm <;> rfl

theorem own_msg_step (c : Cfg) (s1 s2 : State) (k : Key) (sz : Nat) (m : Msg) (hm : localMsg m = true)
    (hv : view s1 k = view s2 k) :
    (step c s1 (.msg k sz m)).2 = (step c s2 (.msg k sz m)).2 ∧
    view (step c s1 (.msg k sz m)).1 k = view (step c s2 (.msg k sz m)).1 k := by
  simp only [view, Prod.mk.injEq] at hv
  obtain ⟨hn, hc, hf⟩ := hv
  rw [step_local c s1 k sz m hm, step_local c s2 k sz m hm, hc, local_handle_eq c s1 s2 k m hm hn hf]
  by_cases h1 : (s2.closed && !(getLis c k.lid).stream) = true
  · simp only [if_pos h1, view, hn, hc, hf, and_self]
  · simp only [if_neg h1]
    by_cases h2 : sz ≥ c.inMTU
    · simp only [if_pos h2, view, hn, hc, hf, and_self]
    · simp only [if_neg h2]
      refine ⟨?_, ?_⟩
      · rw [applyUpd_outs, applyUpd_outs, hf]
      · simp only [view, Prod.mk.injEq]
        refine ⟨?_, ?_, ?_⟩
        · show (applyUpd s1 k _).1.now = (applyUpd s2 k _).1.now
          rw [(applyUpd_now s1 k _).1, (applyUpd_now s2 k _).1, hn]
        · show (applyUpd s1 k _).1.closed = (applyUpd s2 k _).1.closed
          rw [(applyUpd_now s1 k _).2, (applyUpd_now s2 k _).2, hc]
        · show findAlloc (applyUpd s1 k _).1 k = findAlloc (applyUpd s2 k _).1 k
          rw [findAlloc_applyUpd_self, findAlloc_applyUpd_self, hf]

/-! ### time -/

theorem find_key_none_of_notin (l : List Alloc) (k : Key) (h : k ∉ l.map (·.key)) : l.find? (fun a => a.key == k) = none := by
  rw [List.find?_eq_none]
  intro x hx hk
  exact h (List.mem_map.mpr ⟨x, hx, by simpa using hk⟩)

theorem find_advance (now : Nat) (k : Key) : ∀ (l : List Alloc), (l.map (·.key)).Nodup →
    ((((l.filter (fun a => now < a.expiry)).map (purgeAlloc now)).map (·.1)).find? (fun a => a.key == k)) =
    (match l.find? (fun a => a.key == k) with
     | some a => if now < a.expiry then some (purgeAlloc now a).1 else none
     | none => none) := by
  intro l
  induction l with
  | nil => intro _; rfl
  | cons x xs ih =>
    intro hnd
    simp only [List.map_cons, List.nodup_cons] at hnd
    have ih' := ih hnd.2
    by_cases hk : x.key = k
    · have hxs : xs.find? (fun a => a.key == k) = none := find_key_none_of_notin xs k (hk ▸ hnd.1)
      by_cases hl : now < x.expiry
      · simp [hl, hk, purgeAlloc]
      · simp only [List.filter_cons, hl, decide_false, Bool.false_eq_true, if_false, List.find?_cons, hk, beq_self_eq_true]
        rw [ih', hxs]
    · have hk' : (x.key == k) = false := by simpa using hk
      by_cases hl : now < x.expiry
      · simp only [List.filter_cons, hl, decide_true, if_true, List.map_cons, List.find?_cons, hk']
        have : ((purgeAlloc now x).1.key == k) = false := hk'
        simp only [this]
        exact ih'
      · simp only [List.filter_cons, hl, decide_false, Bool.false_eq_true, if_false, List.find?_cons, hk']
        exact ih'

theorem findAlloc_advance (s : State) (dt : Nat) (k : Key) (hu : (keys s).Nodup) :
    findAlloc (advance s dt).1 k =
    (match findAlloc s k with
     | some a => if s.now + dt < a.expiry then some (purgeAlloc (s.now + dt) a).1 else none
     | none => none) := by
  simp only [findAlloc, advance]
  exact find_advance (s.now + dt) k s.allocs hu

theorem adv_step (c : Cfg) (s1 s2 : State) (k : Key) (dt : Nat) (h1 : Unique s1) (h2 : Unique s2)
    (hv : view s1 k = view s2 k) : view (step c s1 (.adv dt)).1 k = view (step c s2 (.adv dt)).1 k := by
  simp only [view, Prod.mk.injEq] at hv
  obtain ⟨hn, hc, hf⟩ := hv
  simp only [view, step, Prod.mk.injEq]
  refine ⟨?_, ?_, ?_⟩
  · show s1.now + dt = s2.now + dt
    rw [hn]
  · exact hc
  · rw [findAlloc_advance s1 dt k h1.1, findAlloc_advance s2 dt k h2.1, hn, hf]

/-! ### traffic arriving at a relayed address -/

theorem findAlloc_mem {s : State} {k : Key} {a : Alloc} (h : findAlloc s k = some a) : a ∈ s.allocs ∧ a.key = k := by
  simp only [findAlloc] at h
  exact ⟨List.mem_of_find?_eq_some h, by simpa using List.find?_some h⟩

theorem findByRelay_mem {s : State} {r : Addr} {t : Bool} {a : Alloc} (h : findByRelay s r t = some a) :
    a ∈ s.allocs ∧ a.relay = r ∧ a.tcp = t := by
  simp only [findByRelay] at h
  have := List.find?_some h
  simp only [Bool.and_eq_true, beq_iff_eq] at this
  exact ⟨List.mem_of_find?_eq_some h, this.1, this.2⟩

theorem nodup_map_inj {α β} (f : α → β) : ∀ (l : List α), (l.map f).Nodup → ∀ a ∈ l, ∀ b ∈ l, f a = f b → a = b := by
  intro l
  induction l with
  | nil => intro _ a ha; cases ha
  | cons x xs ih =>
    intro hnd a ha b hb hab
    simp only [List.map_cons, List.nodup_cons, List.mem_map, not_exists, not_and] at hnd
    rcases List.mem_cons.mp ha with rfl | ha'
    · rcases List.mem_cons.mp hb with rfl | hb'
      · rfl
      · exact absurd hab.symm (hnd.1 b hb')
    · rcases List.mem_cons.mp hb with rfl | hb'
      · exact absurd hab (hnd.1 a ha')
      · exact ih hnd.2 a ha' b hb' hab

/-- the datagram is handled on behalf of `k` iff `k`'s allocation owns the relayed address -/
theorem peerData_obs (c : Cfg) (s : State) (k : Key) (relay frm : Addr) (data : Bytes) (hu : Unique s) :
    (hPeerData c s relay frm data).filter (fun o => ctlAddressee o == some k) =
    (match findAlloc s k with
     | some a =>
       if a.relay == relay && a.tcp == false then
         (if data.length > c.rtpMTU then []
          else match chanByAddr a frm with
            | some ch => [.chanData a.key ch.num data]
            | none => if hasPerm a frm.ip then [.dataInd a.key frm data] else [])
       else []
     | none => []) := by
  have outs_of : ∀ (b : Alloc), ∀ o ∈ (if data.length > c.rtpMTU then ([] : List Out)
          else match chanByAddr b frm with
            | some ch => [Out.chanData b.key ch.num data]
            | none => if hasPerm b frm.ip then [Out.dataInd b.key frm data] else []), ctlAddressee o = some b.key := by
    intro b o ho
    split at ho; · simp at ho
    split at ho
    · simp at ho; subst ho; rfl
    · split at ho
      · simp at ho; subst ho; rfl
      · simp at ho
  cases hfr : findByRelay s relay false with
  | none =>
    simp only [hPeerData, hfr, List.filter_nil]
    cases hfa : findAlloc s k with
    | none => rfl
    | some a =>
      obtain ⟨ham, _⟩ := findAlloc_mem hfa
      simp only
      split
      · rename_i hrel
        simp only [Bool.and_eq_true, beq_iff_eq] at hrel
        simp only [findByRelay] at hfr
        rw [List.find?_eq_none] at hfr
        exact absurd (by simp [hrel.1, hrel.2]) (hfr a ham)
      · rfl
  | some b =>
    obtain ⟨hbm, hbr, hbt⟩ := findByRelay_mem hfr
    simp only [hPeerData, hfr]
    cases hfa : findAlloc s k with
    | none =>
      simp only
      rw [List.filter_eq_nil_iff]
      intro o ho
      have := outs_of b o ho
      rw [this]
      intro heq
      have hbk : b.key = k := by simpa using heq
      simp only [findAlloc] at hfa
      rw [List.find?_eq_none] at hfa
      exact hfa b hbm (by simp [hbk])
    | some a =>
      obtain ⟨ham, hak⟩ := findAlloc_mem hfa
      simp only
      by_cases hrel : (a.relay == relay && a.tcp == false) = true
      · have hrel' := hrel
        simp only [Bool.and_eq_true, beq_iff_eq] at hrel'
        have hab : a = b := nodup_map_inj _ _ hu.2 a ham b hbm (by rw [hrel'.1, hrel'.2, hbr, hbt])
        subst hab
        simp only [hrel, if_true]
        refine List.filter_eq_self.mpr ?_
        intro o ho
        rw [outs_of _ o ho, hak]
        simp
      · simp only [hrel, Bool.false_eq_true, if_false]
        rw [List.filter_eq_nil_iff]
        intro o ho
        rw [outs_of b o ho]
        intro heq
        have hbk : b.key = k := by simpa using heq
        have hab : a = b := nodup_map_inj _ _ hu.1 a ham b hbm (by rw [hak, hbk])
        subst hab
        exact hrel (by simp [hbr, hbt])

/-! ### steps of the others -/

theorem other_step_view (c : Cfg) (s : State) (k : Key) (op : Op) (ho : isOther k op = true) :
    view (step c s op).1 k = view s k := by
  cases op with
  | msg k' sz m =>
    simp only [isOther, Bool.and_eq_true, bne_iff_ne, ne_eq] at ho
    have hfr := frame c s k' k sz m ho.2 (Ne.symm ho.1)
    simp only [view, Prod.mk.injEq]
    refine ⟨?_, ?_, hfr⟩
    all_goals
      simp only [step]
      split; · rfl
      split; · rfl
      split
      · split <;> rfl
      · first
        | exact (applyUpd_now s k' _).1
        | exact (applyUpd_now s k' _).2
  | ctrlClose k' =>
    simp only [isOther, bne_iff_ne, ne_eq] at ho
    have hfr := control_close_local c s k' k (Ne.symm ho)
    simp only [view, Prod.mk.injEq]
    refine ⟨?_, ?_, hfr⟩ <;> (simp only [step]; split <;> rfl)
  | _ => simp [isOther] at ho

theorem other_step_obs (c : Cfg) (s : State) (k : Key) (op : Op) (ho : isOther k op = true) :
    obs k op (step c s op).2 = [] := by
  cases op with
  | msg k' sz m =>
    simp only [isOther, Bool.and_eq_true, bne_iff_ne, ne_eq] at ho
    have hkk : (k' == k) = false := by simpa using ho.1
    simp only [obs, hkk, Bool.false_eq_true, if_false]
    rw [List.filter_eq_nil_iff]
    intro o hmem hk
    have hk' : ctlAddressee o = some k := by simpa using hk
    simp only [step] at hmem
    split at hmem; · simp at hmem
    split at hmem; · simp at hmem
    split at hmem
    · simp [ownOp] at ho
    · simp only [List.mem_append] at hmem
      rcases hmem with hmem | hmem
      · exact ho.1 (replies_to_sender c s k' m o hmem k (ctl_addressee o k hk')).symm
      · rw [applyUpd_outs] at hmem
        split at hmem
        · split at hmem
          · rw [closeOuts_ctl _ o hmem] at hk'; cases hk'
          · simp at hmem
        · simp at hmem
  | ctrlClose k' =>
    simp only [obs]
    rw [List.filter_eq_nil_iff]
    intro o hmem hk
    have hk' : ctlAddressee o = some k := by simpa using hk
    simp only [step] at hmem
    split at hmem
    · rw [closeOuts_ctl _ o hmem] at hk'; cases hk'
    · simp at hmem
  | _ => simp [isOther] at ho

/-! ### the theorem -/

/-- one own step from two states with the same view of `k`: same observation, same next view -/
theorem own_step (c : Cfg) (s1 s2 : State) (k : Key) (op : Op) (ho : isOwn k op = true)
    (h1 : Unique s1) (h2 : Unique s2) (hv : view s1 k = view s2 k) :
    obs k op (step c s1 op).2 = obs k op (step c s2 op).2 ∧ view (step c s1 op).1 k = view (step c s2 op).1 k := by
  cases op with
  | adv dt => exact ⟨rfl, adv_step c s1 s2 k dt h1 h2 hv⟩
  | msg k' sz m =>
    simp only [isOwn, Bool.and_eq_true, beq_iff_eq] at ho
    obtain ⟨rfl, hm⟩ := ho
    have := own_msg_step c s1 s2 k' sz m hm hv
    simp only [obs, beq_self_eq_true, if_true]
    exact this
  | peerData relay frm data =>
    refine ⟨?_, hv⟩
    simp only [view, Prod.mk.injEq] at hv
    simp only [obs, step]
    rw [peerData_obs c s1 k relay frm data h1, peerData_obs c s2 k relay frm data h2, hv.2.2]
  | _ => simp [isOwn] at ho

/-- **noninterference**: deleting every operation of the other 5-tuples from a history changes neither
    what `k` observes nor the state of `k`'s allocation, from any two states that agree on `k`'s view. -/
theorem noninterference (c : Cfg) (k : Key) : ∀ (ops : List Op) (s1 s2 : State),
    Unique s1 → Unique s2 → view s1 k = view s2 k →
    (∀ op ∈ ops, isOwn k op = true ∨ isOther k op = true) →
    view (run c s1 ops).1 k = view (run c s2 (purge k ops)).1 k ∧
    (trace k ops (run c s1 ops).2).filter (fun o => !o.isEmpty) =
      (trace k (purge k ops) (run c s2 (purge k ops)).2).filter (fun o => !o.isEmpty) := by
  intro ops
  induction ops with
  | nil => intro s1 s2 _ _ hv _; exact ⟨hv, rfl⟩
  | cons op ops ih =>
    intro s1 s2 h1 h2 hv hall
    have hrest : ∀ o ∈ ops, isOwn k o = true ∨ isOther k o = true := fun o ho => hall o (List.mem_cons_of_mem _ ho)
    by_cases hoth : isOther k op = true
    · have hp : purge k (op :: ops) = purge k ops := by simp [purge, hoth]
      rw [hp]
      have hv' : view (step c s1 op).1 k = view s2 k := (other_step_view c s1 k op hoth).trans hv
      have := ih (step c s1 op).1 s2 (unique_step s1 op h1) h2 hv' hrest
      simp only [run, trace]
      refine ⟨this.1, ?_⟩
      rw [List.filter_cons, other_step_obs c s1 k op hoth]
      simp only [List.isEmpty_nil, Bool.not_true, Bool.false_eq_true, if_false]
      exact this.2
    · have hown : isOwn k op = true := by
        rcases hall op List.mem_cons_self with h | h
        · exact h
        · exact absurd h hoth
      have hp : purge k (op :: ops) = op :: purge k ops := by simp [purge, hoth]
      rw [hp]
      obtain ⟨hobs, hv'⟩ := own_step c s1 s2 k op hown h1 h2 hv
      have := ih (step c s1 op).1 (step c s2 op).1 (unique_step s1 op h1) (unique_step s2 op h2) hv' hrest
      simp only [run, trace]
      refine ⟨this.1, ?_⟩
      rw [List.filter_cons, List.filter_cons, hobs, this.2]

/-- two-run form: two histories with the same own operations, interleaved with arbitrary operations of
    other 5-tuples, are indistinguishable to `k` -/
theorem noninterference_two_runs (c : Cfg) (k : Key) (ops ops' : List Op) (s s' : State)
    (hu : Unique s) (hu' : Unique s') (hv : view s k = view s' k)
    (hall : ∀ op ∈ ops, isOwn k op = true ∨ isOther k op = true)
    (hall' : ∀ op ∈ ops', isOwn k op = true ∨ isOther k op = true)
    (hp : purge k ops = purge k ops') :
    view (run c s ops).1 k = view (run c s' ops').1 k ∧
    (trace k ops (run c s ops).2).filter (fun o => !o.isEmpty) =
      (trace k ops' (run c s' ops').2).filter (fun o => !o.isEmpty) := by
  have a := noninterference c k ops s s hu hu rfl hall
  have b := noninterference c k ops' s' s hu' hu hv.symm hall'
  rw [hp] at a
  exact ⟨a.1.trans b.1.symm, a.2.trans b.2.symm⟩

/-! non-vacuity: client B floods the server with requests that reuse A's channel number, peer, transaction
    ids and credentials, between A's own operations; A's trace is that of the purged history and is not empty -/
def peerX : Addr := ⟨⟨false, 9⟩, 9000⟩
def sA : State := (run cfg0 init [.msg kA 100 (.allocate 1 okCred .absent (.val 17) false .absent .absent .absent ⟨some 50001, true, none, ""⟩)]).1
def histNI : List Op := [
  .msg kB 100 (.allocate 1 okCred .absent (.val 17) false .absent .absent .absent ⟨some 50002, true, none, ""⟩),
  .msg kA 100 (.chanBind 2 okCred (.val 0x4000) (.val peerX)),
  .msg kB 100 (.chanBind 2 okCred (.val 0x4000) (.val peerX)),
  .adv (200 * sec),
  .msg kB 100 (.refresh 3 okCred (.val 0) .absent),
  .peerData ⟨⟨false, 1⟩, 50001⟩ peerX [1, 2, 3],
  .msg kA 100 (.chanData [0x40, 0x00, 0x00, 0x01, 0x07, 0, 0, 0]),
  .ctrlClose kB]
set_option maxRecDepth 8000 in
example : (histNI.all (fun op => isOwn kA op || isOther kA op)) = true ∧ (purge kA histNI).length = 4 ∧
    ((trace kA histNI (run cfg0 sA histNI).2).filter (fun o => !o.isEmpty)).length = 3 := by decide

end Turn.C04
