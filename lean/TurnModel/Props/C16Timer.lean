/-
C16 — "can be bound … only within 30 seconds, after which the peer connection is closed": the bind deadline and a
ConnectionBind race for the same peer connection.  `Props/C16.lean` proves on the server model (whose steps are atomic)
that the deadline closes unbound connections only (`deadline_closes`).  In the code the two are separate goroutines
that meet at the manager's mutex; this file proves, over ALL interleavings of their atomic blocks, that a bind which
was granted is never undone by the deadline — provided the timer callback decides under the lock — and ties that
proviso to today's source through the regenerated fact `Gen.Facts.bindTimer_decides_under_lock`.
-/
import TurnModel.Gen.Facts
namespace Turn.C16Timer

inductive Act
  | check        -- timer callback: read isBound, remember the decision
  | remove       -- timer callback: close and forget the connection if the decision was "not bound"
  | bind         -- GetTCPConnection under the manager's lock: grant iff registered and not bound yet
  | holder       -- somebody else's critical section (a slow lifecycle callback): changes nothing here
deriving DecidableEq, Repr

structure St where
  registered : Bool := true
  bound : Bool := false
  granted : Bool := false
  decided : Bool := false    -- the callback found the connection unbound
  fault : Bool := false      -- a granted connection was closed by the deadline
deriving DecidableEq, Repr

def act (s : St) : Act → St
  | .check => { s with decided := !s.bound }
  | .remove =>
    if s.decided && s.registered then { s with registered := false, fault := s.fault || s.granted } else s
  | .bind =>
    if s.registered && !s.bound then { s with bound := true, granted := true } else s
  | .holder => s

/-- the timer callback's atomic blocks: with `underLock` the decision and the removal are ONE critical section of the
    manager's mutex; otherwise the decision is taken outside and the removal waits for the mutex -/
def timer (underLock : Bool) : List (List Act) :=
  if underLock then [[.check, .remove]] else [[.check], [.remove]]

/-- ConnectionBind, possibly queued behind another holder of the mutex -/
def binder : List (List Act) := [[.holder], [.bind]]

/-- all interleavings of two sequences of atomic blocks -/
def interleavingsF : Nat → List (List Act) → List (List Act) → List (List Act)
  | 0, as, bs => [as.flatten ++ bs.flatten]
  | _ + 1, [], bs => [bs.flatten]
  | _ + 1, as, [] => [as.flatten]
  | n + 1, a :: as, b :: bs =>
    (interleavingsF n as (b :: bs)).map (a ++ ·) ++ (interleavingsF n (a :: as) bs).map (b ++ ·)

def interleavings (as bs : List (List Act)) : List (List Act) := interleavingsF (as.length + bs.length) as bs

def run (il : List Act) : St := il.foldl act {}

/-- general form, not only the schedules enumerated above: whatever happened before (any state in which the connection is
    registered or not, bound or not), one critical section `check; remove` never closes a granted connection that it
    did not find unbound — i.e. the fault flag is not raised by an atomic `check; remove` -/
theorem atomic_timer_never_faults (s : St) (hg : s.granted = true → s.bound = true) :
    (act (act s .check) .remove).fault = s.fault := by
  cases s with
  | mk r b g d f =>
    cases r <;> cases b <;> cases g <;> simp_all [act]

/-- the invariant `granted → bound` holds along every schedule -/
theorem granted_bound (il : List Act) (s : St) (h : s.granted = true → s.bound = true) :
    (il.foldl act s).granted = true → (il.foldl act s).bound = true := by
  induction il generalizing s with
  | nil => simpa using h
  | cons a il ih =>
    apply ih
    cases a <;> simp only [act] <;> (try split) <;> simp_all

/-- the repaired code's steps: the timer callback is ONE step (decision and removal inside one critical section) -/
inductive Step | timer | bind
deriving DecidableEq, Repr

def stepU (s : St) : Step → St
  | .timer => act (act s .check) .remove
  | .bind => act s .bind

def invU (s : St) : Bool := !s.fault && (s.granted → s.bound)

theorem invU_step (s : St) (a : Step) (h : invU s = true) : invU (stepU s a) = true := by
  obtain ⟨registered, bound, granted, decided, fault⟩ := s
  cases a <;> cases registered <;> cases bound <;> cases granted <;> cases decided <;> cases fault <;> simp_all [invU, stepU, act]

/-- **unbounded form**: after ANY sequence of deadline callbacks and ConnectionBind attempts (repeated, late, in any order) no
    granted connection has been closed by the deadline -/
theorem never_faults_any_schedule (il : List Step) : (il.foldl stepU {}).fault = false := by
  have hinv : ∀ (il : List Step) (s : St), invU s = true → invU (il.foldl stepU s) = true := by
    intro il
    induction il with
    | nil => intro s h; simpa using h
    | cons a il ih => intro s h; exact ih _ (invU_step s a h)
  have h := hinv il {} (by decide)
  generalize il.foldl stepU {} = s at h
  obtain ⟨registered, bound, granted, decided, fault⟩ := s
  cases fault <;> simp_all [invU]

/-- with the decision under the lock, no interleaving of the deadline with a ConnectionBind (queued behind any other lock
    holder) closes a connection whose bind was granted -/
theorem bind_vs_deadline_model : (interleavings (timer true) binder).all (fun il => !(run il).fault) = true := by decide

/-- in every such interleaving exactly one of the two wins: the bind is granted and the connection stays, or the
    deadline removes it and the bind is refused -/
theorem bind_xor_deadline : (interleavings (timer true) binder).all
    (fun il => (run il).granted != !(run il).registered) = true := by decide

/-- the historical callback (decide first, lock later) does undo a granted bind: finding F39 -/
theorem bind_vs_deadline_stale_decision_faults : (interleavings (timer false) binder).any (fun il => (run il).fault) = true := by decide

/-- regenerated obligation: today's bind timer callback takes the manager's lock before it looks at isBound and stays
    inside that critical section until the connection is removed -/
theorem bind_timer_under_lock : Gen.Facts.bindTimer_decides_under_lock = true := by decide

theorem bind_vs_deadline :
    (interleavings (timer Gen.Facts.bindTimer_decides_under_lock) binder).all (fun il => !(run il).fault) = true := by
  rw [bind_timer_under_lock]; exact bind_vs_deadline_model

/-! non-vacuity: both outcomes occur -/
example : (interleavings (timer true) binder).any (fun il => (run il).granted) = true := by decide
example : (interleavings (timer true) binder).any (fun il => !(run il).registered) = true := by decide

end Turn.C16Timer
