/-
C07 — "a permission / channel binding installed or refreshed by a success response lives … from that response": the refresh of an
entry and the entry's expiry race for it.  `Props/C07.lean` proves the timing law on the server model, whose steps are atomic.
In the code the entry's timer fires in the runtime and its callback removes the entry later, under the entry list's lock; the
request handler refreshes under the same lock.  This file proves over ALL interleavings that a refresh answered with success is
never followed by the removal it came just in time for — provided lookup+refresh are one critical section and the callback
re-examines the entry inside its own — and ties the proviso to today's source (`Gen.Facts.entryExpiry_decides_under_lock`).
-/
import TurnModel.Gen.Facts
namespace Turn.C07Timer

inductive Act
  | fire       -- the runtime fires the entry's timer (the callback is started)
  | decide     -- historical callback: nothing to decide, it will remove whatever the address / number names
  | remove     -- callback: remove (repaired: only if still listed by identity and not refreshed since it fired)
  | lookup     -- handler: find the entry
  | refresh    -- handler: extend the expiry, re-arm the timer, answer success; or install a new entry when there is none
deriving DecidableEq, Repr

structure St where
  fired : Bool := false        -- the timer has fired: a callback may be pending
  listed : Bool := true        -- an entry for the peer is listed
  fresh : Bool := false        -- that entry was refreshed (or installed) after the timer fired
  found : Bool := false
  success : Bool := false
  legit : Bool := false        -- the timer fired AFTER the last success: that is the promised lifetime running out
deriving DecidableEq, Repr

def act (repaired : Bool) (s : St) : Act → St
  | .fire => { s with fired := true, fresh := false, legit := s.success }
  | .decide => s
  | .remove =>
    if !s.fired || !s.listed then s
    else if repaired && s.fresh then s            -- refreshed, or replaced by a new entry: stand down
    else { s with listed := false }
  | .lookup => { s with found := s.listed }
  | .refresh =>
    if repaired || !s.found then { s with listed := true, fresh := s.fired, success := true, legit := false }   -- current lookup / new entry
    else { s with fresh := s.fired, success := true, legit := false }                                            -- refreshes the object found earlier

/-- a request was answered with success and the peer has no entry, although the promised lifetime has not run out -/
def broken (s : St) : Bool := s.success && !s.listed && !s.legit

def expiry : List (List Act) := [[.fire], [.decide, .remove]]
def handler (repaired : Bool) : List (List Act) := if repaired then [[.lookup, .refresh]] else [[.lookup], [.refresh]]

def interleavingsF : Nat → List (List Act) → List (List Act) → List (List Act)
  | 0, as, bs => [as.flatten ++ bs.flatten]
  | _ + 1, [], bs => [bs.flatten]
  | _ + 1, as, [] => [as.flatten]
  | n + 1, a :: as, b :: bs =>
    (interleavingsF n as (b :: bs)).map (a ++ ·) ++ (interleavingsF n (a :: as) bs).map (b ++ ·)

def interleavings (as bs : List (List Act)) : List (List Act) := interleavingsF (as.length + bs.length) as bs

def run (repaired : Bool) (il : List Act) : St := il.foldl (act repaired) {}

/-- the repaired steps as the code takes them: the handler's lookup+refresh is one step, the callback's decision+removal another -/
inductive Step | fire | expire | request
deriving DecidableEq, Repr

def stepU (s : St) : Step → St
  | .fire => act true s .fire
  | .expire => act true (act true s .decide) .remove
  | .request => act true (act true s .lookup) .refresh

/-- invariant of the repaired code: while a success stands whose lifetime has not run out, the entry is listed and, if a
    callback may be pending, marked fresh -/
def invU (s : St) : Bool := (s.success && !s.legit) → (s.listed && (s.fired → s.fresh))

theorem invU_step (s : St) (a : Step) (h : invU s = true) : invU (stepU s a) = true := by
  obtain ⟨fired, listed, fresh, found, success, legit⟩ := s
  cases a <;> cases fired <;> cases listed <;> cases fresh <;> cases found <;> cases success <;> cases legit <;> simp_all [invU, stepU, act]

/-- **unbounded form**: after ANY sequence of timer firings, callbacks (late, repeated or missing) and requests, a request that
    was answered with success still has its entry until the lifetime it was promised has run out -/
theorem never_broken_any_schedule (il : List Step) : broken (il.foldl stepU {}) = false := by
  have hinv : ∀ (il : List Step) (s : St), invU s = true → invU (il.foldl stepU s) = true := by
    intro il
    induction il with
    | nil => intro s h; simpa using h
    | cons a il ih => intro s h; exact ih _ (invU_step s a h)
  have h := hinv il {} (by decide)
  generalize il.foldl stepU {} = s at h
  obtain ⟨fired, listed, fresh, found, success, legit⟩ := s
  cases listed <;> cases success <;> cases legit <;> simp_all [invU, broken]

/-- with lookup+refresh in one critical section and the callback deciding inside its own, no interleaving of one expiry with one
    request ends with a success and no entry -/
theorem refresh_vs_expiry_model : (interleavings expiry (handler true)).all (fun il => !broken (run true il)) = true := by decide

/-- the historical shape (read-locked lookup, unlocked Reset, removal by address) does lose a refreshed entry: finding F46 -/
theorem unlocked_refresh_breaks : (interleavings expiry (handler false)).any (fun il => broken (run false il)) = true := by decide

/-- regenerated obligation: today's AddPermission / AddChannelBind refresh inside the write-locked section, and the timers'
    callbacks (expirePermission / expireChannelBind) take the lock first and check identity and expiry time inside it -/
theorem entry_expiry_under_lock : Gen.Facts.entryExpiry_decides_under_lock = true := by decide

theorem refresh_vs_expiry :
    (interleavings expiry (handler Gen.Facts.entryExpiry_decides_under_lock)).all
      (fun il => !broken (run Gen.Facts.entryExpiry_decides_under_lock il)) = true := by
  rw [entry_expiry_under_lock]; exact refresh_vs_expiry_model

/-! non-vacuity: in some schedules the entry is refreshed, in others it expires first and is installed anew -/
example : (interleavings expiry (handler true)).all (fun il => (run true il).success) = true := by decide
example : (interleavings expiry (handler true)).any (fun il => (run true il).fresh) = true := by decide
example : (interleavings expiry (handler true)).any (fun il => !(run true il).fresh) = true := by decide

end Turn.C07Timer
