/-
C14 (second part) — the data path stays open: on the composed model (Model/KeepAlive.lean) every channel
binding is refreshed before it expires, so probes in both directions are delivered for any duration.
-/
import TurnModel.Props.C14
import TurnModel.Lemmas.KeepAliveChan
namespace Turn.C14
open Turn.KeepAlive

/-- the in-flight ChannelBind of a bindChannel goroutine is on schedule to be accepted before `ce` -/
def BTxOK (ce : Nat) (x : Txn) : Prop :=
  x.pat.a + x.pat.b ≤ maxIdx ∧ x.i ≤ x.pat.a + x.pat.b ∧ x.attempt < maxAttempts ∧
  x.start + (maxAttempts - x.attempt) * dTx < ce ∧ (1 ≤ x.attempt → minuteOf x.start ≤ x.nonce)

/-- peer `p`'s binding is live at the server; at the client it is either ready and the bindings timer will
    look at it early enough, or being refreshed by a transaction that will be accepted early enough -/
def ChanInv (s : St) (p : Nat) : Prop :=
  ∃ ce, s.chanExp[p]? = some ce ∧ s.now < ce ∧
   ((∃ ra w, s.bnds[p]? = some ⟨true, ra⟩ ∧ s.bindTx[p]? = some none ∧ ra + s.cfg.chanT ≤ ce ∧
        s.bindWake = some w ∧ w ≤ ra + s.cfg.bindAge + s.cfg.bindP) ∨
    (∃ ra x, s.bnds[p]? = some ⟨false, ra⟩ ∧ s.bindTx[p]? = some (some x) ∧ s.now ≤ x.due ∧ BTxOK ce x))

/-- the bindings timer is armed, not in the past, and at most one period ahead -/
def WakeInv (s : St) : Prop := ∃ w, s.bindWake = some w ∧ s.now ≤ w ∧ w ≤ s.now + s.cfg.bindP

/-- the fields these two invariants read -/
def SameBind (s s' : St) : Prop :=
  s'.cfg = s.cfg ∧ s'.now = s.now ∧ s'.chanExp = s.chanExp ∧ s'.bnds = s.bnds ∧ s'.bindTx = s.bindTx ∧ s'.bindWake = s.bindWake

theorem SameBind.refl (s : St) : SameBind s s := ⟨rfl, rfl, rfl, rfl, rfl, rfl⟩
theorem SameBind.trans {a b c : St} (h1 : SameBind a b) (h2 : SameBind b c) : SameBind a c := by
  obtain ⟨a1, a2, a3, a4, a5, a6⟩ := h1
  obtain ⟨b1, b2, b3, b4, b5, b6⟩ := h2
  exact ⟨b1.trans a1, b2.trans a2, b3.trans a3, b4.trans a4, b5.trans a5, b6.trans a6⟩

theorem chanInv_same {s s' : St} (h : SameBind s s') (p : Nat) (hi : ChanInv s p) : ChanInv s' p := by
  obtain ⟨c1, c2, c3, c4, c5, c6⟩ := h
  unfold ChanInv
  rw [c1, c2, c3, c4, c5, c6]; exact hi

theorem wakeInv_same {s s' : St} (h : SameBind s s') (hi : WakeInv s) : WakeInv s' := by
  obtain ⟨c1, c2, _, _, _, c6⟩ := h
  unfold WakeInv
  rw [c1, c2, c6]; exact hi

theorem BTxOK.due_le {ce : Nat} {x : Txn} (h : BTxOK ce x) : x.due ≤ x.start + dTx := by
  obtain ⟨h2, h3, _⟩ := h
  have := off_le_dTx x.i (by omega)
  unfold Txn.due; omega

theorem BTxOK.due_lt {ce : Nat} {x : Txn} (h : BTxOK ce x) : x.due < ce := by
  have hle := h.due_le
  obtain ⟨_, _, h4, h5, _⟩ := h
  unfold maxAttempts at h4 h5
  have : dTx ≤ (3 - x.attempt) * dTx := Nat.le_mul_of_pos_left _ (by omega)
  omega

/-- peer `p`'s binding always has an event in the queue that is due before the binding expires -/
theorem chan_root_before_expiry {s : St} {p : Nat} (hc : Compatible s.cfg) (hi : ChanInv s p) :
    ∃ ce, s.chanExp[p]? = some ce ∧ ∃ m ∈ roots s, m.1 < ce := by
  obtain ⟨ce, he, _, h | h⟩ := hi
  · obtain ⟨ra, w, _, _, h1, hw, h2⟩ := h
    obtain ⟨_, _, c3, _⟩ := hc
    exact ⟨ce, he, (w, .bind), bind_root_mem s w hw, by simp; omega⟩
  · obtain ⟨ra, x, _, hx, _, hok⟩ := h
    exact ⟨ce, he, (x.due, .bindTx p), bindTx_root_mem s p x hx, hok.due_lt⟩

/-- moving the clock to the next event keeps both invariants -/
theorem chanInv_advance {s : St} {p t : Nat} (hc : Compatible s.cfg) (hi : ChanInv s p) (hle : ∀ x ∈ roots s, t ≤ x.1) :
    ChanInv { s with now := max s.now t } p := by
  obtain ⟨ce, he, m, hm, hlt⟩ := chan_root_before_expiry hc hi
  have hte : t < ce := Nat.lt_of_le_of_lt (hle m hm) hlt
  obtain ⟨ce', he', hnow, h | h⟩ := hi
  · rw [he] at he'; cases he'
    exact ⟨ce, he, by show max s.now t < ce; omega, Or.inl h⟩
  · rw [he] at he'; cases he'
    obtain ⟨ra, x, h1, hx, hd, hok⟩ := h
    have : t ≤ x.due := hle _ (bindTx_root_mem s p x hx)
    exact ⟨ce, he, by show max s.now t < ce; omega, Or.inr ⟨ra, x, h1, hx, by show max s.now t ≤ x.due; omega, hok⟩⟩

theorem wakeInv_advance {s : St} {t : Nat} (hi : WakeInv s) (hle : ∀ x ∈ roots s, t ≤ x.1) :
    WakeInv { s with now := max s.now t } := by
  obtain ⟨w, hw, h1, h2⟩ := hi
  have : t ≤ w := hle _ (bind_root_mem s w hw)
  exact ⟨w, hw, by show max s.now t ≤ w; omega, by show w ≤ max s.now t + s.cfg.bindP; omega⟩

/-! ### the allocation and permission handlers do not touch the binding machinery -/

theorem transmit_sameBind (s : St) (k : Kind) (x : Txn) (hk : ∀ p, k ≠ .cb p) : SameBind s (transmit s k x).1 := by
  obtain ⟨f1, f2, f3, f4, f5, _, _⟩ := transmit_same_bind s k x
  exact ⟨f1, f2, transmit_chanExp_other s k x hk, f3, f4, f5⟩

theorem fireAllocTx_sameBind (s : St) (x : Txn) : SameBind s (fireAllocTx s x).1 := by
  have hT := transmit_sameBind { s with allocTx := none } (.rf s.cfg.life) x (by intro p h; cases h)
  unfold fireAllocTx
  generalize transmit { s with allocTx := none } (.rf s.cfg.life) x = T at hT
  obtain ⟨s1, outs, r⟩ := T
  simp only at hT ⊢
  have base : SameBind s s1 := SameBind.trans ⟨rfl, rfl, rfl, rfl, rfl, rfl⟩ hT
  match r with
  | none => exact SameBind.trans base ⟨rfl, rfl, rfl, rfl, rfl, rfl⟩
  | some .ok => simp only; split <;> first | exact base | exact SameBind.trans base ⟨rfl, rfl, rfl, rfl, rfl, rfl⟩
  | some .stale => simp only; split <;> exact SameBind.trans base ⟨rfl, rfl, rfl, rfl, rfl, rfl⟩
  | some .dead => exact SameBind.trans base ⟨rfl, rfl, rfl, rfl, rfl, rfl⟩

theorem firePermTx_sameBind (s : St) (x : Txn) : SameBind s (firePermTx s x).1 := by
  have hT := transmit_sameBind { s with permTx := none } .cp x (by intro p h; cases h)
  unfold firePermTx
  generalize transmit { s with permTx := none } .cp x = T at hT
  obtain ⟨s1, outs, r⟩ := T
  simp only at hT ⊢
  have base : SameBind s s1 := SameBind.trans ⟨rfl, rfl, rfl, rfl, rfl, rfl⟩ hT
  match r with
  | none => exact SameBind.trans base ⟨rfl, rfl, rfl, rfl, rfl, rfl⟩
  | some .ok => simp only; split <;> first | exact base | exact SameBind.trans base ⟨rfl, rfl, rfl, rfl, rfl, rfl⟩
  | some .stale => simp only; split <;> exact SameBind.trans base ⟨rfl, rfl, rfl, rfl, rfl, rfl⟩
  | some .dead => exact SameBind.trans base ⟨rfl, rfl, rfl, rfl, rfl, rfl⟩

/-! ### the bindings timer -/

/-- `ChanInv` with the timer clause replaced by "the check happening now, at `t`, is early enough" -/
def ChanPre (s : St) (t p : Nat) : Prop :=
  ∃ ce, s.chanExp[p]? = some ce ∧ s.now < ce ∧
   ((∃ ra, s.bnds[p]? = some ⟨true, ra⟩ ∧ s.bindTx[p]? = some none ∧ ra + s.cfg.chanT ≤ ce ∧ t ≤ ra + s.cfg.bindAge + s.cfg.bindP) ∨
    (∃ ra x, s.bnds[p]? = some ⟨false, ra⟩ ∧ s.bindTx[p]? = some (some x) ∧ s.now ≤ x.due ∧ BTxOK ce x))

/-- `maybeBind` for another peer leaves peer `p`'s entries alone -/
theorem maybeBind_other (s : St) (t p q : Nat) (h : q ≠ p) :
    (maybeBind s t q).cfg = s.cfg ∧ (maybeBind s t q).now = s.now ∧ (maybeBind s t q).bindWake = s.bindWake ∧
    (maybeBind s t q).chanExp = s.chanExp ∧ (maybeBind s t q).bnds[p]? = s.bnds[p]? ∧ (maybeBind s t q).bindTx[p]? = s.bindTx[p]? := by
  unfold maybeBind
  split
  · split
    · refine ⟨rfl, rfl, rfl, rfl, ?_, ?_⟩
      · show (s.bnds.set q _)[p]? = _; exact getElem?_set_ne' h
      · show (s.bindTx.set q _)[p]? = _; exact getElem?_set_ne' h
    · exact ⟨rfl, rfl, rfl, rfl, rfl, rfl⟩
  · exact ⟨rfl, rfl, rfl, rfl, rfl, rfl⟩

theorem chanPre_other (s : St) (t p q : Nat) (h : q ≠ p) (hi : ChanPre s t p) : ChanPre (maybeBind s t q) t p := by
  obtain ⟨f1, f2, _, f4, f5, f6⟩ := maybeBind_other s t p q h
  unfold ChanPre
  rw [f1, f2, f4, f5, f6]; exact hi

theorem chanInv_other (s : St) (t p q : Nat) (h : q ≠ p) (hi : ChanInv s p) : ChanInv (maybeBind s t q) p := by
  obtain ⟨f1, f2, f3, f4, f5, f6⟩ := maybeBind_other s t p q h
  unfold ChanInv
  rw [f1, f2, f3, f4, f5, f6]; exact hi

/-- the check of peer `p` itself: nothing to do yet (the next tick is still early enough), or the refresh
    starts now and has time for all its attempts -/
theorem maybeBind_self (s : St) (t p : Nat) (hc : Compatible s.cfg) (hp : PatsOK s.cfg) (hw : s.bindWake = some (t + s.cfg.bindP))
    (hnow : s.now ≤ t) (hi : ChanPre s t p) : ChanInv (maybeBind s t p) p := by
  obtain ⟨ce, he, hlt, h | h⟩ := hi
  · obtain ⟨ra, hb, htx, h1, h2⟩ := h
    unfold maybeBind
    rw [hb]
    simp only [Bool.true_and]
    by_cases htr : t - ra > s.cfg.bindAge
    · -- refresh starts now
      simp only [htr, decide_true, if_true]
      obtain ⟨_, _, c3, _⟩ := hc
      refine ⟨ce, he, hlt, Or.inr ⟨ra, newTxn { s with bnds := s.bnds.set p ⟨false, ra⟩ } t (.cb p) 0, ?_, ?_, ?_, ?_⟩⟩
      · show (s.bnds.set p _)[p]? = _; exact getElem?_set_self' hb
      · show (s.bindTx.set p _)[p]? = _; exact getElem?_set_self' htx
      · show s.now ≤ t + off 0; simp [off]; exact hnow
      · refine ⟨pick_ok _ hp.2.2 _, Nat.zero_le _, by show 0 < maxAttempts; decide, ?_, by intro h; simp [newTxn] at h⟩
        show t + (maxAttempts - 0) * dTx < ce
        unfold dH at c3; simp only [Nat.sub_zero]; omega
    · simp only [htr, decide_false, Bool.false_eq_true, if_false]
      exact ⟨ce, he, hlt, Or.inl ⟨ra, _, hb, htx, h1, hw, by omega⟩⟩
  · obtain ⟨ra, x, hb, htx, hd, hok⟩ := h
    have : maybeBind s t p = s := by
      unfold maybeBind; rw [hb]; simp
    rw [this]
    exact ⟨ce, he, hlt, Or.inr ⟨ra, x, hb, htx, hd, hok⟩⟩

theorem maybeBind_globals (s : St) (t q : Nat) :
    (maybeBind s t q).cfg = s.cfg ∧ (maybeBind s t q).now = s.now ∧ (maybeBind s t q).bindWake = s.bindWake := by
  unfold maybeBind
  split
  · split <;> exact ⟨rfl, rfl, rfl⟩
  · exact ⟨rfl, rfl, rfl⟩

/-- the timer's loop over all bindings: afterwards every peer's binding is back in the invariant -/
theorem fold_maybeBind (t N : Nat) : ∀ (n : Nat) (s : St), Compatible s.cfg → PatsOK s.cfg → s.bindWake = some (t + s.cfg.bindP) → s.now ≤ t →
    (∀ p < N, ChanPre s t p) →
    ((List.range n).foldl (fun s p => maybeBind s t p) s).cfg = s.cfg ∧
    ((List.range n).foldl (fun s p => maybeBind s t p) s).now = s.now ∧
    ((List.range n).foldl (fun s p => maybeBind s t p) s).bindWake = s.bindWake ∧
    (∀ p < N, (p < n → ChanInv ((List.range n).foldl (fun s p => maybeBind s t p) s) p) ∧
              (n ≤ p → ChanPre ((List.range n).foldl (fun s p => maybeBind s t p) s) t p)) := by
  intro n
  induction n with
  | zero => intro s _ _ _ _ h; exact ⟨rfl, rfl, rfl, fun p hp => ⟨fun h0 => absurd h0 (Nat.not_lt_zero _), fun _ => h p hp⟩⟩
  | succ n ih =>
    intro s hc hp hw hnow hpre
    obtain ⟨i1, i2, i3, i4⟩ := ih s hc hp hw hnow hpre
    rw [List.range_succ, List.foldl_append]
    simp only [List.foldl_cons, List.foldl_nil]
    generalize (List.range n).foldl (fun s p => maybeBind s t p) s = s' at i1 i2 i3 i4
    obtain ⟨g1, g2, g3⟩ := maybeBind_globals s' t n
    refine ⟨g1.trans i1, g2.trans i2, g3.trans i3, ?_⟩
    intro p hpN
    obtain ⟨j1, j2⟩ := i4 p hpN
    constructor
    · intro hlt
      rcases Nat.lt_or_ge p n with h | h
      · exact chanInv_other s' t p n (by omega) (j1 h)
      · have : p = n := by omega
        subst this
        exact maybeBind_self s' t p (i1 ▸ hc) (i1 ▸ hp) (by rw [i3, i1]; exact hw) (by rw [i2]; exact hnow) (j2 (Nat.le_refl _))
    · intro hge
      exact chanPre_other s' t p n (by omega) (j2 (by omega))

/-! ### one transmission of a ChannelBind -/

/-- the part of the state the invariant of peer `p` reads -/
def SameAt (p : Nat) (s s' : St) : Prop :=
  s'.cfg = s.cfg ∧ s'.now = s.now ∧ s'.bindWake = s.bindWake ∧ s'.chanExp[p]? = s.chanExp[p]? ∧
  s'.bnds[p]? = s.bnds[p]? ∧ s'.bindTx[p]? = s.bindTx[p]?

theorem chanInv_sameAt {p : Nat} {s s' : St} (h : SameAt p s s') (hi : ChanInv s p) : ChanInv s' p := by
  obtain ⟨c1, c2, c3, c4, c5, c6⟩ := h
  unfold ChanInv
  rw [c1, c2, c3, c4, c5, c6]; exact hi

/-- what every outcome of `fireBindTx` looks like, in terms of the transmission's result -/
theorem fireBindTx_shape (s : St) (q : Nat) (x : Txn) (e : Nat) (he : s.allocExp = some e) (ht : x.due < e) :
    let T := transmit { s with bindTx := s.bindTx.set q none } (.cb q) x
    (T.2.2 = none ∧ (fireBindTx s q x).1 = { T.1 with bindTx := T.1.bindTx.set q (some (next x)) }) ∨
    (T.2.2 = some .ok ∧ (fireBindTx s q x).1 = { T.1 with bnds := T.1.bnds.set q ⟨true, x.due⟩ }) ∨
    (T.2.2 = some .stale ∧ (fireBindTx s q x).1 =
        (if x.attempt + 1 < maxAttempts then startBind { T.1 with nonce := minuteOf x.due } x.due q (x.attempt + 1)
         else { T.1 with nonce := minuteOf x.due, tainted := true, why := 4 })) := by
  have hnd := (transmit_other { s with bindTx := s.bindTx.set q none } (.cb q) x e (by intro lt h; cases h) he ht).1
  unfold fireBindTx
  generalize transmit { s with bindTx := s.bindTx.set q none } (.cb q) x = T at hnd
  obtain ⟨s1, outs, r⟩ := T
  simp only at hnd ⊢
  match r with
  | none => exact Or.inl ⟨rfl, rfl⟩
  | some .ok => exact Or.inr (Or.inl ⟨rfl, rfl⟩)
  | some .stale => exact Or.inr (Or.inr ⟨rfl, rfl⟩)
  | some .dead => exact absurd rfl hnd

theorem fireBindTx_other (s : St) (p q : Nat) (x : Txn) (e : Nat) (hq : q ≠ p) (he : s.allocExp = some e) (ht : x.due < e) :
    SameAt p s (fireBindTx s q x).1 := by
  obtain ⟨f1, f2, f3, f4, f5, f6, f7⟩ := transmit_same_bind { s with bindTx := s.bindTx.set q none } (.cb q) x
  have hce : (transmit { s with bindTx := s.bindTx.set q none } (.cb q) x).1.chanExp[p]? = s.chanExp[p]? := by
    rcases transmit_cb { s with bindTx := s.bindTx.set q none } q x e he ht with ⟨_, _, h | h⟩ | ⟨_, h⟩ | ⟨_, h, _⟩
    · rw [h]
    · rw [h]; exact getElem?_set_ne' hq
    · rw [h]; exact getElem?_set_ne' hq
    · rw [h]
  have hbt : (s.bindTx.set q none)[p]? = s.bindTx[p]? := getElem?_set_ne' hq
  rcases fireBindTx_shape s q x e he ht with ⟨_, h⟩ | ⟨_, h⟩ | ⟨_, h⟩
  · rw [h]
    refine ⟨f1, f2, f5, hce, by rw [f3], ?_⟩
    show (_ : List (Option Txn))[p]? = _
    rw [getElem?_set_ne' hq, f4]; exact hbt
  · rw [h]
    refine ⟨f1, f2, f5, hce, ?_, by rw [f4]; exact hbt⟩
    show (_ : List Bnd)[p]? = _
    rw [getElem?_set_ne' hq, f3]
  · rw [h]
    split
    · refine ⟨f1, f2, f5, hce, by show (transmit _ _ _).1.bnds[p]? = _; rw [f3], ?_⟩
      show (List.set _ q _)[p]? = _
      rw [getElem?_set_ne' hq, f4]; exact hbt
    · exact ⟨f1, f2, f5, hce, by show (transmit _ _ _).1.bnds[p]? = _; rw [f3], by show (transmit _ _ _).1.bindTx[p]? = _; rw [f4]; exact hbt⟩

/-- one transmission of peer `p`'s own ChannelBind -/
theorem fireBindTx_self (s : St) (p : Nat) (x : Txn) (e : Nat) (hc : Compatible s.cfg) (hp : PatsOK s.cfg)
    (he : s.allocExp = some e) (ht : x.due < e) (hw : WakeInv s) (hx : s.bindTx[p]? = some (some x)) (hi : ChanInv s p) :
    ChanInv (fireBindTx s p x).1 p := by
  obtain ⟨ce, hce, hnow, h | h⟩ := hi
  · obtain ⟨_, _, _, htx, _⟩ := h; rw [hx] at htx; cases htx
  obtain ⟨ra, x', hb, hx', hdue, hok⟩ := h
  rw [hx] at hx'; cases hx'
  have hdle := hok.due_le
  obtain ⟨k1, k2, k3, k4, k5⟩ := hok
  obtain ⟨w, hwk, hw1, hw2⟩ := hw
  obtain ⟨_, _, c3, _⟩ := hc
  have hdH : dH = maxAttempts * dTx := rfl
  have hstart : x.start ≤ x.due := by unfold Txn.due; omega
  obtain ⟨f1, f2, f3, f4, f5, f6, f7⟩ := transmit_same_bind { s with bindTx := s.bindTx.set p none } (.cb p) x
  have hslot : (s.bindTx.set p none)[p]? = some none := getElem?_set_self' hx
  have hbound : (maxAttempts - x.attempt) * dTx ≤ dH := by
    rw [hdH]; exact Nat.mul_le_mul_right _ (Nat.sub_le _ _)
  rcases fireBindTx_shape s p x e he ht with ⟨hr, h⟩ | ⟨hr, h⟩ | ⟨hr, h⟩
  · -- lost on the way, or answered but the answer is lost: next transmission
    rw [h]
    have hd' : x.due ≤ (next x).due := by simp [next, Txn.due]; exact off_succ_ge x.i
    rcases transmit_cb { s with bindTx := s.bindTx.set p none } p x e he ht with ⟨_, hlt, hexp⟩ | ⟨h2, _⟩ | ⟨h2, _⟩
    · have hshape : ∀ ce', (ce' = ce ∨ ce' = x.due + s.cfg.chanT) →
          (transmit { s with bindTx := s.bindTx.set p none } (.cb p) x).1.chanExp[p]? = some ce' →
          ChanInv { (transmit { s with bindTx := s.bindTx.set p none } (.cb p) x).1 with
            bindTx := (transmit { s with bindTx := s.bindTx.set p none } (.cb p) x).1.bindTx.set p (some (next x)) } p := by
        intro ce' hce' hget
        refine ⟨ce', hget, ?_, Or.inr ⟨ra, next x, ?_, ?_, ?_, ?_⟩⟩
        · show (transmit _ _ _).1.now < ce'; rw [f2]; show s.now < ce'
          rcases hce' with h | h <;> omega
        · show (transmit _ _ _).1.bnds[p]? = _; rw [f3]; exact hb
        · show (List.set _ p _)[p]? = _
          rw [f4]; exact getElem?_set_self' hslot
        · show (transmit _ _ _).1.now ≤ _; rw [f2]; show s.now ≤ (next x).due; omega
        · refine ⟨k1, by simp [next]; omega, k3, ?_, k5⟩
          show x.start + (maxAttempts - x.attempt) * dTx < ce'
          rcases hce' with h | h <;> omega
      rcases hexp with hexp | hexp
      · exact hshape ce (Or.inl rfl) (by rw [hexp]; exact hce)
      · exact hshape _ (Or.inr rfl) (by rw [hexp]; exact getElem?_set_self' hce)
    · rw [hr] at h2; cases h2
    · rw [hr] at h2; cases h2
  · -- accepted: the binding is ready again, refreshed now
    rw [h]
    rcases transmit_cb { s with bindTx := s.bindTx.set p none } p x e he ht with ⟨h2, _⟩ | ⟨_, hexp⟩ | ⟨h2, _⟩
    · rw [hr] at h2; cases h2
    · refine ⟨x.due + s.cfg.chanT, ?_, ?_, Or.inl ⟨x.due, w, ?_, ?_, by show x.due + (transmit _ _ _).1.cfg.chanT ≤ _; rw [f1]; exact Nat.le_refl _, ?_, ?_⟩⟩
      · show (transmit _ _ _).1.chanExp[p]? = _; rw [hexp]; exact getElem?_set_self' hce
      · show (transmit _ _ _).1.now < _; rw [f2]; show s.now < _; omega
      · show (List.set _ p _)[p]? = _; rw [f3]; exact getElem?_set_self' hb
      · show (transmit _ _ _).1.bindTx[p]? = _; rw [f4]; exact hslot
      · show (transmit _ _ _).1.bindWake = _; rw [f5]; exact hwk
      · show w ≤ x.due + (transmit _ _ _).1.cfg.bindAge + (transmit _ _ _).1.cfg.bindP
        rw [f1]; show w ≤ x.due + s.cfg.bindAge + s.cfg.bindP; omega
    · rw [hr] at h2; cases h2
  · -- 438: new nonce, retry at once; a retry is never stale, so this was the first attempt
    rw [h]
    rcases transmit_cb { s with bindTx := s.bindTx.set p none } p x e he ht with ⟨h2, _⟩ | ⟨h2, _⟩ | ⟨_, hexp, hst⟩
    · rw [hr] at h2; cases h2
    · rw [hr] at h2; cases h2
    · have hatt : x.attempt = 0 := by
        cases ha : x.attempt with
        | zero => rfl
        | succ n =>
          exfalso
          have h5 := k5 (by omega)
          have hd : dTx = 6200 := by decide
          unfold minuteOf nonceWindow at *
          have : x.due / 60000 ≤ x.start / 60000 + 1 := by omega
          omega
      have hlt : x.attempt + 1 < maxAttempts := by rw [hatt]; decide
      simp only [hlt, if_true]
      refine ⟨ce, ?_, ?_, Or.inr ⟨ra, newTxn { (transmit { s with bindTx := s.bindTx.set p none } (.cb p) x).1 with nonce := minuteOf x.due }
        x.due (.cb p) (x.attempt + 1), ?_, ?_, ?_, ?_⟩⟩
      · show (transmit _ _ _).1.chanExp[p]? = _; rw [hexp]; exact hce
      · show (transmit _ _ _).1.now < ce; rw [f2]; exact hnow
      · show (transmit _ _ _).1.bnds[p]? = _; rw [f3]; exact hb
      · show (List.set _ p _)[p]? = _; rw [f4]; exact getElem?_set_self' hslot
      · show (transmit _ _ _).1.now ≤ x.due + off 0; rw [f2]; show s.now ≤ x.due + off 0; simp [off]; exact hdue
      · refine ⟨pick_ok _ (by rw [f1]; exact hp.2.2) _, Nat.zero_le _, hlt, ?_, ?_⟩
        · show x.due + (maxAttempts - (x.attempt + 1)) * dTx < ce
          rw [hatt] at k4 ⊢
          have : (maxAttempts - 0) * dTx = dTx + (maxAttempts - (0 + 1)) * dTx := by decide
          omega
        · intro _; show minuteOf x.due ≤ minuteOf x.due; exact Nat.le_refl _

/-! ### all together -/

/-- the allocation, the bindings timer and every peer's binding are in their invariants -/
def DataInv (s : St) : Prop := AllocInv s ∧ WakeInv s ∧ ∀ p < s.cfg.peers, ChanInv s p

theorem getD_some {l : List (Option Txn)} {q : Nat} {x : Txn} (h : l.getD q none = some x) : l[q]? = some (some x) := by
  rw [List.getD_eq_getElem?_getD] at h
  cases hq : l[q]? with
  | none => rw [hq] at h; simp at h
  | some v => rw [hq] at h; simp at h; rw [h]

theorem fire_data_inv (s : St) (t : Nat) (r : Root) (hc : Compatible s.cfg) (hp : PatsOK s.cfg) (hi : DataInv s)
    (hm : (t, r) ∈ roots s) (hle : ∀ x ∈ roots s, t ≤ x.1) :
    DataInv (fire { s with now := max s.now t } t r).1 ∧ (fire { s with now := max s.now t } t r).1.cfg = s.cfg := by
  obtain ⟨hA, hW, hC⟩ := hi
  obtain ⟨hA', hcfg⟩ := fire_inv s t r hc hp hA hm hle
  refine ⟨⟨hA', ?_⟩, hcfg⟩
  rw [hcfg]
  obtain ⟨e, he, m, hmem, hlt⟩ := alloc_root_before_expiry hA
  have hte : t < e := Nat.lt_of_le_of_lt (hle m hmem) hlt
  have hW0 : WakeInv { s with now := max s.now t } := wakeInv_advance hW hle
  have hC0 : ∀ p < s.cfg.peers, ChanInv { s with now := max s.now t } p := fun p hp' => chanInv_advance hc (hC p hp') hle
  have frame : ∀ s', SameBind { s with now := max s.now t } s' → WakeInv s' ∧ ∀ p < s.cfg.peers, ChanInv s' p :=
    fun s' h => ⟨wakeInv_same h hW0, fun p hp' => chanInv_same h p (hC0 p hp')⟩
  rcases roots_inv s t r hm with ⟨hr, hw⟩ | ⟨hr, x, hx, hd⟩ | ⟨hr, hw⟩ | ⟨hr, x, hx, hd⟩ | ⟨hr, hw⟩ | ⟨q, x, hr, hx, hd⟩ | ⟨_, x, hx, _⟩
  rotate_right
  · exfalso; have := hA.2.2.1; rw [hx] at this; cases this
  · subst hr; exact frame _ ⟨rfl, rfl, rfl, rfl, rfl, rfl⟩
  · subst hr
    have : fire { s with now := max s.now t } t .allocTx = fireAllocTx { s with now := max s.now t } x := by simp [fire, hx]
    rw [this]; exact frame _ (fireAllocTx_sameBind _ x)
  · subst hr
    simp only [fire]
    split <;> exact frame _ ⟨rfl, rfl, rfl, rfl, rfl, rfl⟩
  · subst hr
    have : fire { s with now := max s.now t } t .permTx = firePermTx { s with now := max s.now t } x := by simp [fire, hx]
    rw [this]; exact frame _ (firePermTx_sameBind _ x)
  · -- the bindings timer
    subst hr
    obtain ⟨w, hwk, hw1, hw2⟩ := hW
    rw [hw] at hwk; cases hwk
    have hmax : max s.now t = t := by omega
    simp only [fire, forPeers]
    have hpre : ∀ p < s.cfg.peers, ChanPre { s with now := max s.now t, bindWake := some (t + s.cfg.bindP) } t p := by
      intro p hp'
      obtain ⟨ce, h1, h2, h3 | h3⟩ := hC0 p hp'
      · obtain ⟨ra, w', hb, htx, h4, hwk', h5⟩ := h3
        have : w' = t := by
          have : s.bindWake = some w' := hwk'
          rw [hw] at this; cases this; rfl
        subst this
        exact ⟨ce, h1, h2, Or.inl ⟨ra, hb, htx, h4, h5⟩⟩
      · exact ⟨ce, h1, h2, Or.inr h3⟩
    obtain ⟨g1, g2, g3, g4⟩ := fold_maybeBind t s.cfg.peers s.cfg.peers
      { s with now := max s.now t, bindWake := some (t + s.cfg.bindP) } hc hp rfl (by show max s.now t ≤ t; omega) hpre
    refine ⟨⟨t + s.cfg.bindP, ?_, ?_, ?_⟩, fun p hp' => (g4 p hp').1 hp'⟩
    · rw [g3]
    · rw [g2]; show max s.now t ≤ t + s.cfg.bindP; omega
    · rw [g2, g1]; show t + s.cfg.bindP ≤ max s.now t + s.cfg.bindP; omega
  · -- one transmission of peer q's ChannelBind
    subst hr
    have hxq : s.bindTx[q]? = some (some x) := getD_some hx
    have : fire { s with now := max s.now t } t (.bindTx q) = fireBindTx { s with now := max s.now t } q x := by
      show (match s.bindTx.getD q none with | some x => fireBindTx { s with now := max s.now t } q x | none => _) = _
      rw [hx]
    rw [this]
    have htd : x.due < e := by rw [hd]; exact hte
    have hglob := fireBindTx_other { s with now := max s.now t } (q + 1) q x e (by omega) he htd
    refine ⟨?_, ?_⟩
    · obtain ⟨w, h1, h2, h3⟩ := hW0
      obtain ⟨c1, c2, c3, _⟩ := hglob
      exact ⟨w, c3.trans h1, by rw [c2]; exact h2, by rw [c2, c1]; exact h3⟩
    · intro p hp'
      by_cases hpq : q = p
      · subst hpq
        exact fireBindTx_self { s with now := max s.now t } q x e hc hp he htd hW0 hxq (hC0 q hp')
      · exact chanInv_sameAt (fireBindTx_other { s with now := max s.now t } p q x e hpq he htd) (hC0 p hp')

theorem advanceTo_data_inv (c : Cfg) (hc : Compatible c) (hp : PatsOK c) (target : Nat) : ∀ (fuel : Nat) (s : St) (acc : List Out),
    s.cfg = c → s.now ≤ target → DataInv s →
    (advanceTo target fuel s acc).1.cfg = c ∧ DataInv (advanceTo target fuel s acc).1 := by
  intro fuel
  induction fuel with
  | zero =>
    intro s acc h1 _ h2
    obtain ⟨hA, hW, hC⟩ := h2
    exact ⟨h1, allocInv_same ⟨rfl, rfl, rfl, rfl, rfl, rfl, rfl, rfl⟩ hA, wakeInv_same ⟨rfl, rfl, rfl, rfl, rfl, rfl⟩ hW,
      fun p hp' => chanInv_same ⟨rfl, rfl, rfl, rfl, rfl, rfl⟩ p (hC p hp')⟩
  | succ n ih =>
    intro s acc h1 hnt h2
    unfold advanceTo
    obtain ⟨e, he, m, hmem, hlt⟩ := alloc_root_before_expiry h2.1
    cases hE : earliest (roots s) with
    | none => rw [earliest_none _ hE] at hmem; cases hmem
    | some tr =>
      obtain ⟨t, r⟩ := tr
      simp only
      have hm := earliest_mem _ _ hE
      have hle := earliest_le _ _ hE
      split
      · rename_i htt
        have hf := fire_data_inv s t r (h1 ▸ hc) (h1 ▸ hp) h2 hm hle
        have hnow' : (fire { s with now := max s.now t } t r).1.now ≤ target := by
          -- the handlers never move the clock
          obtain ⟨_, hW', _⟩ := hf.1
          obtain ⟨hA0, hW0, hC0⟩ := h2
          have : WakeInv { s with now := max s.now t } := wakeInv_advance hW0 hle
          -- read the clock off the allocation invariant's frame: every branch of `fire` keeps `now`
          have hk : (fire { s with now := max s.now t } t r).1.now = max s.now t := by
            rcases roots_inv s t r hm with ⟨hr, hw⟩ | ⟨hr, x, hx, hd⟩ | ⟨hr, hw⟩ | ⟨hr, x, hx, hd⟩ | ⟨hr, hw⟩ | ⟨q, x, hr, hx, hd⟩ | ⟨_, x, hx, _⟩
            rotate_right
            · exfalso; have := hA0.2.2.1; rw [hx] at this; cases this
            · subst hr; rfl
            · subst hr
              have : fire { s with now := max s.now t } t .allocTx = fireAllocTx { s with now := max s.now t } x := by simp [fire, hx]
              rw [this]; exact (fireAllocTx_sameBind _ x).2.1
            · subst hr; simp only [fire]; split <;> rfl
            · subst hr
              have : fire { s with now := max s.now t } t .permTx = firePermTx { s with now := max s.now t } x := by simp [fire, hx]
              rw [this]; exact (firePermTx_sameBind _ x).2.1
            · subst hr
              simp only [fire, forPeers]
              exact (forPeers_same t (List.range s.cfg.peers) _).2.2.2.2.1
            · subst hr
              have : fire { s with now := max s.now t } t (.bindTx q) = fireBindTx { s with now := max s.now t } q x := by
                show (match s.bindTx.getD q none with | some x => fireBindTx { s with now := max s.now t } q x | none => _) = _
                rw [hx]
              rw [this]
              obtain ⟨e', he', m', hm', hlt'⟩ := alloc_root_before_expiry hA0
              have : x.due < e' := by rw [hd]; exact Nat.lt_of_le_of_lt (hle m' hm') hlt'
              exact (fireBindTx_other { s with now := max s.now t } (q + 1) q x e' (by omega) he' this).2.1
          rw [hk]; omega
        exact ih _ _ (hf.2.trans h1) hnow' hf.1
      · rename_i hgt
        refine ⟨h1, ?_⟩
        obtain ⟨hA, hW, hC⟩ := h2
        have hlt' : target < t := by omega
        refine ⟨?_, ?_, ?_⟩
        · obtain ⟨i1, i2, i0, e', he', _, h⟩ := hA
          rw [he] at he'; cases he'
          have : t ≤ m.1 := hle m hmem
          exact ⟨i1, i2, i0, e, he, by show target < e; omega, h⟩
        · obtain ⟨w, hw, h3, h4⟩ := hW
          have : t ≤ w := hle _ (bind_root_mem s w hw)
          exact ⟨w, hw, by show target ≤ w; omega, by show w ≤ target + s.cfg.bindP; omega⟩
        · intro p hp'
          obtain ⟨ce, hce, m', hm', hlt''⟩ := chan_root_before_expiry (h1 ▸ hc) (hC p hp')
          have htm : t ≤ m'.1 := hle m' hm'
          obtain ⟨ce', hce', _, h | h⟩ := hC p hp'
          · rw [hce] at hce'; cases hce'
            exact ⟨ce, hce, by show target < ce; omega, Or.inl h⟩
          · rw [hce] at hce'; cases hce'
            obtain ⟨ra, x, hb, hx, hd, hok⟩ := h
            have : t ≤ x.due := hle _ (bindTx_root_mem s p x hx)
            exact ⟨ce, hce, by show target < ce; omega, Or.inr ⟨ra, x, hb, hx, by show target ≤ x.due; omega, hok⟩⟩

theorem init_data_inv (c : Cfg) (hc : Compatible c) : DataInv (init c) := by
  refine ⟨init_inv c hc, ⟨c.bindP, rfl, Nat.zero_le _, by show c.bindP ≤ 0 + c.bindP; omega⟩, ?_⟩
  intro p hp
  obtain ⟨_, _, c3, _⟩ := hc
  have hp' : p < c.peers := hp
  refine ⟨c.chanT, ?_, by show 0 < c.chanT; omega, Or.inl ⟨0, c.bindP, ?_, ?_, by show 0 + c.chanT ≤ c.chanT; omega, rfl, by show c.bindP ≤ 0 + c.bindAge + c.bindP; omega⟩⟩
  · show (List.replicate c.peers c.chanT)[p]? = _; simp [List.getElem?_replicate, hp']
  · show (List.replicate c.peers (⟨true, 0⟩ : Bnd))[p]? = _; simp [List.getElem?_replicate, hp']
  · show (List.replicate c.peers (none : Option Txn))[p]? = _; simp [List.getElem?_replicate, hp']

theorem step_data_inv (c : Cfg) (hc : Compatible c) (hp : PatsOK c) (s : St) (op : Op) (hop : noClose op) (h1 : s.cfg = c) (h2 : DataInv s) :
    (step s op).1.cfg = c ∧ DataInv (step s op).1 := by
  cases op with
  | adv dt => exact advanceTo_data_inv c hc hp _ _ s [] h1 (Nat.le_add_right _ _) h2
  | wr p =>
    obtain ⟨hA, hW, hC⟩ := h2
    simp only [step]
    split
    · exact ⟨h1, allocInv_same ⟨rfl, rfl, rfl, rfl, rfl, rfl, rfl, rfl⟩ hA, wakeInv_same ⟨rfl, rfl, rfl, rfl, rfl, rfl⟩ hW,
        fun q hq => chanInv_same ⟨rfl, rfl, rfl, rfl, rfl, rfl⟩ q (hC q hq)⟩
    · exact ⟨h1, hA, hW, hC⟩
  | pw p =>
    obtain ⟨hA, hW, hC⟩ := h2
    simp only [step]
    split
    · exact ⟨h1, allocInv_same ⟨rfl, rfl, rfl, rfl, rfl, rfl, rfl, rfl⟩ hA, wakeInv_same ⟨rfl, rfl, rfl, rfl, rfl, rfl⟩ hW,
        fun q hq => chanInv_same ⟨rfl, rfl, rfl, rfl, rfl, rfl⟩ q (hC q hq)⟩
    · exact ⟨h1, hA, hW, hC⟩
  | close => exact absurd hop (by simp [noClose])
  | count => exact ⟨h1, h2⟩

theorem run_data_inv (c : Cfg) (hc : Compatible c) (hp : PatsOK c) : ∀ (ops : List Op) (s : St), (∀ op ∈ ops, noClose op) →
    s.cfg = c → DataInv s → (run s ops).1.cfg = c ∧ DataInv (run s ops).1 := by
  intro ops
  induction ops with
  | nil => intro s _ h1 h; exact ⟨h1, h⟩
  | cons op ops ih =>
    intro s hops h1 h2
    have hs := step_data_inv c hc hp s op (hops op (by simp)) h1 h2
    simp only [run]
    exact ih _ (fun o ho => hops o (by simp [ho])) hs.1 hs.2

/-- a probe in either direction is delivered in any state that satisfies the invariants -/
theorem probes_delivered_of_inv (s : St) (p : Nat) (hp : p < s.cfg.peers) (hi : DataInv s) :
    Out.dp s.now p ∈ (step s (.wr p)).2 ∧ Out.dc s.now p ∈ (step s (.pw p)).2 := by
  obtain ⟨⟨_, _, _, e, he, hnow, _⟩, _, hC⟩ := hi
  obtain ⟨ce, hce, hlt, _⟩ := hC p hp
  have hal : allocLive s s.now = true := by simp [allocLive, he, hnow]
  have hcl : chanLive s p s.now = true := by
    unfold chanLive
    rw [List.getD_eq_getElem?_getD, hce]; simp [hlt]
  constructor
  · simp [step, hal, hcl]
  · simp [step, hal, hcl]

/-- **data keeps flowing, for any duration.**  For every server configuration compatible with the client's
    refresh cadence, every loss / response-loss / duplication pattern that leaves each transaction one answered
    transmission, any number of peers and ANY sequence of time steps and earlier probes (idle for hours or
    busy), a datagram written by the application to any of its peers is relayed to that peer, and a datagram
    from any of those peers reaches the application: the binding (and the allocation) is live at that instant. -/
theorem data_keeps_flowing (c : Cfg) (hc : Compatible c) (hp : PatsOK c) (ops : List Op) (hops : ∀ op ∈ ops, noClose op)
    (p : Nat) (hpp : p < c.peers) :
    Out.dp (run (init c) ops).1.now p ∈ (step (run (init c) ops).1 (.wr p)).2 ∧
    Out.dc (run (init c) ops).1.now p ∈ (step (run (init c) ops).1 (.pw p)).2 := by
  obtain ⟨h1, h2⟩ := run_data_inv c hc hp ops (init c) hops rfl (init_data_inv c hc)
  exact probes_delivered_of_inv _ p (by rw [h1]; exact hpp) h2

/-- every channel binding is unexpired at the server at the end of every such run (hence of every prefix) -/
theorem bindings_never_expire (c : Cfg) (hc : Compatible c) (hp : PatsOK c) (ops : List Op) (hops : ∀ op ∈ ops, noClose op)
    (p : Nat) (hpp : p < c.peers) : chanLive (run (init c) ops).1 p (run (init c) ops).1.now = true := by
  obtain ⟨h1, _, _, hC⟩ := run_data_inv c hc hp ops (init c) hops rfl (init_data_inv c hc)
  obtain ⟨ce, hce, hlt, _⟩ := hC p (by rw [h1]; exact hpp)
  unfold chanLive
  rw [List.getD_eq_getElem?_getD, hce]; simp [hlt]

end Turn.C14
