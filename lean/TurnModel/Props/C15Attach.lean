/-
C15 — "when an allocation ends for any reason … everything it owned is released exactly once": a request handler that attaches
something to an allocation (a permission, a channel binding, a peer TCP connection) races with the allocation's teardown.
`Props/C15.lean` proves the conservation law on the server model, whose steps are atomic: a handler never holds an allocation
across a teardown.  In the code it does — it looks the allocation up, runs user callbacks or dials a peer, then attaches.
Teardown marks the allocation closed, takes a snapshot of what is listed, and removes that.  This file proves over all
interleavings, and over any sequence of steps, that nothing stays attached to an allocation whose teardown has finished —
provided the attach step looks at the closed mark inside the critical section in which it inserts — and ties that proviso to
today's source (`Gen.Facts.attach_checks_closed_under_lock`).  Historical shape: findings F40, F43.
-/
import TurnModel.Gen.Facts
namespace Turn.C15Attach

inductive Act
  | setClosed     -- teardown, step 1: close(a.closed)
  | snapshot      -- teardown, step 2: list what is attached (under the list's lock)
  | sweep         -- teardown, step 3: remove what the snapshot named
  | attach        -- the handler, inside the list's critical section: (check the closed mark,) insert
deriving DecidableEq, Repr

structure St where
  closed : Bool := false
  listed : Bool := false       -- the handler's entry is attached
  snap : Bool := false         -- teardown has taken its snapshot
  seen : Bool := false         -- … and the snapshot contains the entry
  swept : Bool := false        -- teardown has finished
  refused : Bool := false
deriving DecidableEq, Repr

/-- teardown's steps take effect in their order only: the snapshot after the mark, the sweep after the snapshot -/
def act (checked : Bool) (s : St) : Act → St
  | .setClosed => { s with closed := true }
  | .snapshot => if s.closed then { s with snap := true, seen := s.listed } else s
  | .sweep => if s.snap then { s with listed := s.listed && !s.seen, swept := true } else s
  | .attach => if checked && s.closed then { s with refused := true } else { s with listed := true }

/-- something is attached to an allocation whose teardown has finished: nobody will ever release it -/
def leaked (s : St) : Bool := s.swept && s.listed

def teardown : List (List Act) := [[.setClosed], [.snapshot], [.sweep]]
def handler : List (List Act) := [[.attach]]

def interleavingsF : Nat → List (List Act) → List (List Act) → List (List Act)
  | 0, as, bs => [as.flatten ++ bs.flatten]
  | _ + 1, [], bs => [bs.flatten]
  | _ + 1, as, [] => [as.flatten]
  | n + 1, a :: as, b :: bs =>
    (interleavingsF n as (b :: bs)).map (a ++ ·) ++ (interleavingsF n (a :: as) bs).map (b ++ ·)

def interleavings (as bs : List (List Act)) : List (List Act) := interleavingsF (as.length + bs.length) as bs

def run (checked : Bool) (il : List Act) : St := il.foldl (act checked) {}

/-- invariant of the repaired attach: after the snapshot everything listed is in it (nothing is inserted once the mark is set),
    and after the sweep nothing is listed -/
def inv (s : St) : Bool := (s.snap → s.closed) && ((s.snap && s.listed) → s.seen) && (s.swept → (s.snap && !s.listed))

theorem inv_step (s : St) (a : Act) (h : inv s = true) : inv (act true s a) = true := by
  obtain ⟨closed, listed, snap, seen, swept, refused⟩ := s
  cases a <;> cases closed <;> cases listed <;> cases snap <;> cases seen <;> cases swept <;> simp_all [inv, act]

/-- **unbounded form**: after ANY sequence of teardown steps and attach attempts (any number of handlers, any order, teardown
    steps repeated) nothing is attached to an allocation whose teardown has finished -/
theorem never_leaked_any_schedule (il : List Act) : leaked (il.foldl (act true) {}) = false := by
  have hinv : ∀ (il : List Act) (s : St), inv s = true → inv (il.foldl (act true) s) = true := by
    intro il
    induction il with
    | nil => intro s h; simpa using h
    | cons a il ih => intro s h; exact ih _ (inv_step s a h)
  have h := hinv il {} (by decide)
  generalize il.foldl (act true) {} = s at h
  obtain ⟨closed, listed, snap, seen, swept, refused⟩ := s
  cases listed <;> cases swept <;> simp_all [inv, leaked]

/-- one step, any state: once the allocation is marked closed, a checked attach changes nothing but the refusal flag -/
theorem attach_after_close_refused (s : St) (h : s.closed = true) : (act true s .attach).listed = s.listed := by
  simp [act, h]

/-- no interleaving of one teardown with one handler leaves the handler's entry attached to the dead allocation -/
theorem nothing_left_model : (interleavings teardown handler).all (fun il => !leaked (run true il)) = true := by decide

/-- the same with two handlers attaching concurrently -/
theorem nothing_left_two_handlers : (interleavings teardown [[.attach], [.attach]]).all (fun il => !leaked (run true il)) = true := by decide

/-- the historical attach (no look at the closed mark) does leak: findings F40 (peer connection), F43 (permission, binding) -/
theorem unchecked_attach_leaks : (interleavings teardown handler).any (fun il => leaked (run false il)) = true := by decide

/-- regenerated obligation: AddPermission, AddChannelBind and addTCPConnection look at the allocation's closed mark after they
    have taken the lock under which they insert -/
theorem attach_checked : Gen.Facts.attach_checks_closed_under_lock = true := by decide

theorem nothing_left : (interleavings teardown handler).all
    (fun il => !leaked (run Gen.Facts.attach_checks_closed_under_lock il)) = true := by
  rw [attach_checked]; exact nothing_left_model

/-! non-vacuity: the attach succeeds and is swept in some schedules, is refused in others -/
example : (interleavings teardown handler).any (fun il => (run true il).refused) = true := by decide
example : (interleavings teardown handler).any (fun il => !(run true il).refused && (run true il).seen) = true := by decide

end Turn.C15Attach
