/-
C20 — relay address generators honour their configuration.
The port expression is REGENERATED from the Go source (Gen/Expr.lean, Go uint16 = BitVec 16).
Assumption of `no_shared_port`: the network refuses to bind a port in use — true for UDP sockets, and
NOT true for the TCP listeners the bundled generators open with SO_REUSEPORT (finding F18).
-/
import TurnModel.Model.PortRange
import TurnModel.Gen.Expr
namespace Turn.C20
open Turn.PortRange

/-- for ALL MinPort ≤ MaxPort (MinPort ≥ 1): the argument passed to `Intn` is the size of the range —
    positive, 1 for a single-port range, correct also for MaxPort = 65535 where `MaxPort+1` wraps — and
    for every `k` below it the chosen port lies inside [MinPort, MaxPort] without wrapping.
    (Both generators' expressions, as regenerated from today's source.) -/
theorem port_in_range (min max : BitVec 16) (k : Nat) (h1 : 1 ≤ min.toNat) (h2 : min.toNat ≤ max.toNat) :
    Gen.Expr.intn_AllocatePacketConn min max = max.toNat - min.toNat + 1 ∧
    Gen.Expr.intn_AllocateListener min max = max.toNat - min.toNat + 1 ∧
    (k < max.toNat - min.toNat + 1 →
      Gen.Expr.port_AllocatePacketConn min max k = min.toNat + k ∧
      Gen.Expr.port_AllocateListener min max k = min.toNat + k ∧
      min.toNat ≤ min.toNat + k ∧ min.toNat + k ≤ max.toNat) := by
  have hmin := min.isLt
  have hmax := max.isLt
  refine ⟨?_, ?_, ?_⟩
  · simp only [Gen.Expr.intn_AllocatePacketConn, BitVec.toNat_sub, BitVec.toNat_add, BitVec.toNat_ofNat]; omega
  · simp only [Gen.Expr.intn_AllocateListener, BitVec.toNat_sub, BitVec.toNat_add, BitVec.toNat_ofNat]; omega
  · intro hk
    refine ⟨?_, ?_, by omega, by omega⟩
    · simp only [Gen.Expr.port_AllocatePacketConn, BitVec.toNat_add, BitVec.toNat_ofNat]; omega
    · simp only [Gen.Expr.port_AllocateListener, BitVec.toNat_add, BitVec.toNat_ofNat]; omega

/-- the executable model's arithmetic is the regenerated expression -/
theorem model_matches_source (min max : BitVec 16) (k : Nat) :
    intnArg min.toNat max.toNat = Gen.Expr.intn_AllocatePacketConn min max ∧
    portOf min.toNat k = Gen.Expr.port_AllocatePacketConn min max k ∧
    Gen.Expr.port_AllocateListener min max k = Gen.Expr.port_AllocatePacketConn min max k ∧
    Gen.Expr.intn_AllocateListener min max = Gen.Expr.intn_AllocatePacketConn min max := by
  have hmin := min.isLt
  have hmax := max.isLt
  refine ⟨?_, ?_, rfl, rfl⟩
  · simp only [intnArg, Gen.Expr.intn_AllocatePacketConn, BitVec.toNat_sub, BitVec.toNat_add, BitVec.toNat_ofNat]; omega
  · simp only [portOf, Gen.Expr.port_AllocatePacketConn, BitVec.toNat_add, BitVec.toNat_ofNat]; omega

theorem loop_ok (c : Cfg) (used : List Nat) : ∀ (t : Nat) (ks : List Nat) (n p a : Nat),
    loop c used t ks n = .ok p a → p ∉ used ∧ (∃ k ∈ ks, p = portOf c.min k) ∧ a ≤ n + t := by
  intro t
  induction t with
  | zero => intro ks n p a h; simp [loop] at h
  | succ t ih =>
    intro ks n p a h
    cases ks with
    | nil => simp [loop] at h
    | cons k ks =>
      simp only [loop] at h
      split at h
      · obtain ⟨h1, ⟨k', hk', hp⟩, h3⟩ := ih ks (n + 1) p a h
        exact ⟨h1, ⟨k', List.mem_cons_of_mem _ hk', hp⟩, by omega⟩
      · rename_i hfree
        cases h
        exact ⟨by simpa using hfree, ⟨k, List.mem_cons_self, rfl⟩, by omega⟩

theorem loop_err (c : Cfg) (used : List Nat) : ∀ (t : Nat) (ks : List Nat) (n a : Nat), t ≤ ks.length →
    loop c used t ks n = .err a → a = n + t := by
  intro t
  induction t with
  | zero => intro ks n a _ h; simp [loop] at h; omega
  | succ t ih =>
    intro ks n a hl h
    cases ks with
    | nil => simp at hl
    | cons k ks =>
      simp only [loop] at h
      split at h
      · have := ih ks (n + 1) a (by simpa using hl) h; omega
      · cases h

/-- the port handed out is the one actually bound: a free port — inside [MinPort, MaxPort] when none was
    requested, the requested one otherwise -/
theorem alloc_ok (c : Cfg) (used : List Nat) (req : Nat) (rands : List Nat) (p a : Nat)
    (hmin : 1 ≤ c.min) (hmm : c.min ≤ c.max) (hmax : c.max < 65536)
    (hr : ∀ k ∈ rands, k < c.max - c.min + 1) (h : alloc c used req rands = .ok p a) :
    p ∉ used ∧ (req ≠ 0 → p = req) ∧ (req = 0 → c.min ≤ p ∧ p ≤ c.max ∧ a ≤ c.retries) := by
  unfold alloc at h
  split at h
  · rename_i hreq
    split at h
    · cases h
    · rename_i hfree; cases h
      exact ⟨by simpa using hfree, fun _ => rfl, fun h0 => by simp [h0] at hreq⟩
  · rename_i hreq
    have hreq0 : req = 0 := by simpa using hreq
    obtain ⟨h1, ⟨k, hk, hp⟩, h3⟩ := loop_ok c used c.retries rands 0 p a h
    refine ⟨h1, fun hne => absurd hreq0 hne, fun _ => ?_⟩
    have := hr k hk
    subst hp
    simp only [portOf]
    refine ⟨?_, ?_, by omega⟩ <;> omega

/-- **fail clean**: when no attempt binds, the generator reports an error after exactly `MaxRetries`
    attempts and nothing was bound -/
theorem alloc_fail_clean (c : Cfg) (used : List Nat) (rands : List Nat) (a : Nat) (hl : c.retries ≤ rands.length)
    (h : alloc c used 0 rands = .err a) : a = c.retries ∧ stepUsed c used (.alloc 0 rands) = used := by
  have h' : loop c used c.retries rands 0 = .err a := by simpa [alloc] using h
  have := loop_err c used c.retries rands 0 a hl h'
  exact ⟨by omega, by simp [stepUsed, h]⟩

/-- **no shared port**: on a network that refuses to bind a port in use, over every history of
    allocations and closes two live allocations never hold the same port -/
theorem no_shared_port (c : Cfg) : ∀ (evs : List Ev) (used : List Nat), used.Nodup → (runUsed c used evs).Nodup := by
  intro evs
  induction evs with
  | nil => intro used h; exact h
  | cons e es ih =>
    intro used h
    simp only [runUsed]
    apply ih
    cases e with
    | alloc req rands =>
      simp only [stepUsed]
      split
      · rename_i p a hres
        have hfree : p ∉ used := by
          unfold alloc at hres
          split at hres
          · split at hres
            · cases hres
            · rename_i hf; cases hres; simpa using hf
          · exact (loop_ok c used c.retries rands 0 p a hres).1
        exact List.nodup_cons.mpr ⟨hfree, h⟩
      · exact h
    | close p => exact h.filter _

/-! non-vacuity, incl. MaxPort = 65535 and a single-port range -/
example : Gen.Expr.intn_AllocatePacketConn 1#16 65535#16 = 65535 := by decide
example : Gen.Expr.intn_AllocatePacketConn 49152#16 65535#16 = 16384 := by decide
example : Gen.Expr.intn_AllocateListener 7#16 7#16 = 1 := by decide
example : alloc ⟨100, 101, 3⟩ [100] 0 [0, 0, 1] = .ok 101 3 := by decide
example : alloc ⟨100, 101, 3⟩ [100, 101] 0 [0, 1, 0] = .err 3 := by decide

end Turn.C20
