/-
C16 — TCP relay (RFC 6062): peer connections bind once, to their owner, within the deadline, and the
pipe copies bytes unmodified.  PARTIAL: `io.Copy` and TCP itself are the runtime's; in the model the
two directions of a bound pipe are identity maps on byte strings (what the harness observes).
The lock-release clause ("a second Connect is answered 446 while the server keeps serving") is
C18's `all_functions_balanced` over the regenerated skeleton of `CreateTCPConnection`.
-/
import TurnModel.Lemmas.ServerInv
import TurnModel.Lemmas.ServerHandlers
import TurnModel.Lemmas.ServerCid
import TurnModel.Props.C03
import TurnModel.Gen.Consts
namespace Turn.C16
open Turn.Srv

/-- every unbound peer connection is within its bind deadline, which is at most `bindT` (30 s) away -/
def ConnOK (c : Cfg) (now : Nat) (a : Alloc) : Prop :=
  ∀ t ∈ a.conns, t.bound = none → now < t.deadline ∧ t.deadline ≤ now + c.bindT

theorem connok_point {c : Cfg} (hb : 0 < c.bindT) : PointInv c (ConnOK c) where
  fresh := by intro s k a hf; simp [ConnOK, hf.conns]
  change := by
    intro now a b h hch
    cases hch with
    | refresh e _ => exact h
    | perm ip hg hf => exact h
    | chan n p hv hf hg hcf => exact h
    | connOut cid p hg hd =>
      intro t ht hu
      simp only [List.mem_cons] at ht
      rcases ht with rfl | ht
      · exact ⟨Nat.lt_add_of_pos_right hb, Nat.le_refl _⟩
      · exact h t ht hu
    | connIn cid p hp hd =>
      intro t ht hu
      simp only [List.mem_cons] at ht
      rcases ht with rfl | ht
      · exact ⟨Nat.lt_add_of_pos_right hb, Nat.le_refl _⟩
      · exact h t ht hu
    | bound cid dk =>
      intro t ht hu
      simp only [markBound, List.mem_map] at ht
      obtain ⟨u, hum, rfl⟩ := ht
      by_cases hcid : (u.id == cid) = true
      · simp [hcid] at hu
      · simp only [hcid] at hu ⊢
        exact h u hum hu
    | drop cid =>
      intro t ht hu
      simp only [dropConn, List.mem_filter] at ht
      exact h t ht.1 hu
    | pend cid d =>
      intro t ht hu
      simp only [List.mem_map] at ht
      obtain ⟨u, hum, rfl⟩ := ht
      by_cases hcid : (u.id == cid) = true
      · simp only [hcid, if_true] at hu ⊢
        exact h u hum hu
      · simp only [hcid] at hu ⊢
        exact h u hum hu
  purge := by
    intro now dt a h _ t ht hu
    simp only [purgeAlloc, List.mem_filter, Bool.not_eq_true', Bool.and_eq_false_iff, Option.isNone_iff_eq_none,
      decide_eq_false_iff_not, Nat.not_le] at ht
    have := h t ht.1 hu
    rcases ht.2 with h2 | h2
    · simp [hu] at h2
    · exact ⟨h2, by omega⟩

/-- in every reachable state an unbound peer connection is younger than the bind deadline; so a
    ConnectionBind can only ever succeed within `bindT` of the connection's creation -/
theorem unbound_within_deadline {c : Cfg} (hb : 0 < c.bindT) {s : State} (hr : Reach c s) :
    ∀ a ∈ s.allocs, ∀ t ∈ a.conns, t.bound = none → s.now < t.deadline ∧ t.deadline ≤ s.now + c.bindT :=
  reach_inv (connok_point hb) hr

/-- at the deadline an unbound connection is closed and removed (and a bound one is not) -/
theorem deadline_closes (now : Nat) (a : Alloc) (t : TConn) (ht : t ∈ a.conns) :
    (t.bound = none → t.deadline ≤ now → t ∉ (purgeAlloc now a).1.conns ∧
        Out.connClosed a.key.lid t.id t.peer ∈ (purgeAlloc now a).2) ∧
    ((t.bound ≠ none ∨ now < t.deadline) → t ∈ (purgeAlloc now a).1.conns) := by
  constructor
  · intro hu hd
    constructor
    · simp [purgeAlloc, hu, hd]
    · simp only [purgeAlloc, List.mem_map, List.mem_filter]
      exact ⟨t, ⟨ht, by simp [hu, hd]⟩, rfl⟩
  · intro h
    simp only [purgeAlloc, List.mem_filter]
    refine ⟨ht, ?_⟩
    rcases h with h | h
    · cases hb : t.bound <;> simp_all
    · simp only [Bool.not_eq_true', Bool.and_eq_false_iff, decide_eq_false_iff_not, Nat.not_le]
      exact Or.inr h

/-- what a successful ConnectionBind implies: the request was authenticated as the user that owns
    the connection, arrived on a stream listener, the connection existed in this manager and was
    not bound before; afterwards it is bound to exactly this data connection -/
theorem bind_success_inv (c : Cfg) (s : State) (k : Key) (tid : Nat) (cr : Cred) (cid : Attr Nat) (outs : List Out) (a' : Alloc)
    (h : hConnBind c s k tid cr cid = (outs, some a')) :
    ∃ u id a, authenticate c cr = .ok u ∧ cid = .val id ∧ (getLis c k.lid).stream = true ∧
      connOwner s k.lid id = some a ∧ a.user = u ∧
      (∀ t ∈ a.conns, t.id = id → t.bound = none) ∧ a' = markBound a id k := by
  unfold hConnBind at h
  split at h
  · rename_i u hu
    split at h
    · rename_i id
      split at h; · cases h
      rename_i hs
      split at h
      · cases h
      · rename_i a ho
        split at h; · cases h
        rename_i hau
        split at h; · cases h
        rename_i hbd
        cases h
        refine ⟨u, id, a, hu, rfl, by simpa using hs, ho, by simpa using hau, ?_, rfl⟩
        intro t ht hid
        simp only [List.any_eq_true, not_exists, not_and, Bool.and_eq_true, beq_iff_eq] at hbd
        cases hb : t.bound with
        | none => rfl
        | some dk => exact absurd (by simp [hb]) (hbd t ht hid)
    · cases h
  · cases h

/-- **bind once**: a connection that is already bound cannot be bound again — the request gets 400 and
    the state is unchanged -/
theorem bind_once (c : Cfg) (s : State) (k : Key) (sz tid : Nat) (cr : Cred) (id : Nat) (a : Alloc) (t : TConn)
    (ho : connOwner s k.lid id = some a) (ht : t ∈ a.conns) (hid : t.id = id) (hb : t.bound ≠ none) :
    (step c s (.msg k sz (.connBind tid cr (.val id)))).1 = s ∧
    ∀ o ∈ (step c s (.msg k sz (.connBind tid cr (.val id)))).2, ∀ k' me tid' ra, o ≠ Out.resp k' me true 0 tid' ra := by
  have hany : a.conns.any (fun t => t.id == id && t.bound.isSome) = true := by
    simp only [List.any_eq_true, Bool.and_eq_true, beq_iff_eq]
    refine ⟨t, ht, hid, ?_⟩
    cases h : t.bound with
    | none => exact absurd h hb
    | some _ => rfl
  have hnone : (hConnBind c s k tid cr (.val id)).2 = none ∧
      ∀ o ∈ (hConnBind c s k tid cr (.val id)).1, ∀ k' me tid' ra, o ≠ Out.resp k' me true 0 tid' ra := by
    cases hauth : authenticate c cr with
    | ok u =>
      by_cases hs : (getLis c k.lid).stream = true
      · by_cases hu : a.user = u <;> simp [hConnBind, hauth, hs, ho, hu, hany, errResp]
      · simp [hConnBind, hauth, hs, errResp]
    | challenge code => simp [hConnBind, hauth, authFail]
    | reject => simp [hConnBind, hauth, authFail, errResp]
  simp only [step]
  split; · exact ⟨rfl, by simp⟩
  split; · exact ⟨rfl, by simp⟩
  split
  · rename_i outs a' heq
    rw [heq] at hnone; simp at hnone
  · rename_i outs heq
    rw [heq] at hnone
    exact ⟨rfl, hnone.2⟩

/-- **a ConnectionBind that cannot succeed is harmless**: over a packet (UDP) listener the request is
    answered 400 and nothing — in particular not the connection's bind timer or bound flag — changes -/
theorem bind_reject_harmless (c : Cfg) (s : State) (k : Key) (sz tid : Nat) (cr : Cred) (cid : Attr Nat)
    (hl : (getLis c k.lid).stream = false) :
    (step c s (.msg k sz (.connBind tid cr cid))).1 = s := by
  have : (hConnBind c s k tid cr cid).2 = none := by
    unfold hConnBind
    split
    · split
      · simp [hl]
      · rfl
    · rfl
  simp only [step]
  split; · rfl
  split; · rfl
  split
  · rename_i outs a' heq; rw [heq] at this; cases this
  · rfl

/-- **duplicate Connect**: a Connect to a peer the allocation already has a connection with is
    answered 446 and changes nothing -/
theorem dupe_446 (c : Cfg) (s : State) (lid : Nat) (a : Alloc) (p : Addr) (dialOK : Bool) (cid : Nat)
    (hg : granted c k p.ip = true) (hp : p.port ≠ 0) (hd : dupeConn a p = true) :
    connectChecks c s k a (.val p) dialOK cid = some (.error 446) := by
  simp [connectChecks, hg, hp, hd]

/-- a Connect success registers an id no allocation of this listener's manager uses, for a peer the
    operator granted and the allocation is not yet connected to -/
theorem connect_fresh_id {c s k a peer dialOK cid p} (h : connectChecks c s k a peer dialOK cid = some (.ok p)) :
    cidUsed s k.lid cid = false ∧ granted c k p.ip = true ∧ dupeConn a p = false :=
  ⟨(connectChecks_ok h).2.2.2.1, (connectChecks_ok h).2.1, (connectChecks_ok h).2.2.1⟩

/-- **a connection id names exactly one peer connection**: in every reachable state, two peer connections held
    by allocations of the same listener (= the same allocation manager) with the same id are the same connection
    of the same allocation — so a Connect success / ConnectionAttempt indication names a unique connection and a
    ConnectionBind can only ever refer to that one -/
theorem conn_id_unique {c : Cfg} {s : State} (hr : Reach c s) {a b : Alloc} (ha : a ∈ s.allocs) (hb : b ∈ s.allocs)
    {t u : TConn} (ht : t ∈ a.conns) (hu : u ∈ b.conns) (hl : a.key.lid = b.key.lid) (hid : t.id = u.id) : a = b ∧ t = u := by
  obtain ⟨h1, h2⟩ := cidUniq_reach hr
  have hk : a.key = b.key := by
    apply Classical.byContradiction
    intro hne
    exact h2 a ha b hb hne hl t.id (List.mem_map.mpr ⟨t, ht, rfl⟩) (List.mem_map.mpr ⟨u, hu, hid.symm⟩)
  have hab : a = b := eq_of_key_eq (unique_reach hr).1 ha hb hk
  subst hab
  exact ⟨rfl, inj_of_nodup_map (fun (x : TConn) => x.id) (l := a.conns) (h1 a ha) ht hu hid⟩

/-- an inbound peer connection is announced only under an id nobody at that listener is using -/
theorem peerconn_fresh_id (c : Cfg) (s : State) (relay frm : Addr) (cid : Nat) (k : Key)
    (h : Out.connAttempt k frm cid ∈ (step c s (.peerConn relay frm cid)).2) : cidUsed s k.lid cid = false := by
  simp only [step] at h
  split at h
  · cases h
  · rename_i a ha
    split at h
    · simp at h
    · split at h
      · simp at h
      · rename_i hp hd
        simp only [List.mem_singleton] at h
        injection h with hk
        simp only [Bool.or_eq_true, not_or] at hd
        subst hk; simpa using hd.1

/-- **pipe identity**: once bound, bytes from the client's data connection go to exactly that peer
    connection unmodified, and bytes from the peer go to exactly that data connection unmodified -/
theorem pipe_identity (c : Cfg) (s : State) :
    (∀ k data, (step c s (.pipeC2P k data)).2 = [] ∨
        ∃ a t, pipeOf s k = some (a, t) ∧ (step c s (.pipeC2P k data)).2 = [.pipeToPeer a.key.lid t.id data]) ∧
    (∀ lid cid data, (step c s (.pipeP2C lid cid data)).2 = [] ∨
        ∃ dk, (step c s (.pipeP2C lid cid data)).2 = [.pipeToClient dk data]) := by
  constructor
  · intro k data
    simp only [step]
    split
    · rename_i a t h; exact Or.inr ⟨a, t, h, rfl⟩
    · exact Or.inl rfl
  · intro lid cid data
    simp only [step]
    split
    · split
      · split
        · rename_i dk _; exact Or.inr ⟨dk, rfl⟩
        · exact Or.inl rfl
      · exact Or.inl rfl
    · exact Or.inl rfl

/-! non-vacuity: Connect, ConnectionBind by the owner, bytes both ways; a second bind is refused -/
def cfg0 : Cfg :=
  { permT := 300 * sec, chanT := 600 * sec, lifeT := 600 * sec, maxLife := 3600 * sec, rtpMTU := 1600
    inMTU := 1600, bindT := 30 * sec, resvT := 30 * sec, strict := false, hasAuth := true, hasQuota := false
    relay4 := ⟨false, 1⟩, relay6 := ⟨true, 1⟩, lis := [⟨true, 1, false, [], []⟩] }
def okCred : Cred := ⟨true, true, true, true, true, true, true, "alice"⟩
def k0 : Key := ⟨0, ⟨⟨false, 7⟩, 4000⟩⟩
def kd : Key := ⟨0, ⟨⟨false, 7⟩, 7001⟩⟩
def peer0 : Addr := ⟨⟨false, 9⟩, 9000⟩
def hist0 : List Op := [
  .msg k0 100 (.allocate 1 okCred .absent (.val 6) false .absent .absent .absent ⟨some 50001, true, none, ""⟩),
  .msg k0 100 (.connect 2 okCred (.val peer0) true 0),
  .msg kd 100 (.connBind 3 okCred (.val 0))]
set_option maxRecDepth 8000 in
example : (step cfg0 (run cfg0 init hist0).1 (.pipeC2P kd [1, 2, 3])).2 = [.pipeToPeer 0 0 [1, 2, 3]] := by decide
set_option maxRecDepth 8000 in
example : (step cfg0 (run cfg0 init hist0).1 (.msg ⟨0, ⟨⟨false, 7⟩, 7002⟩⟩ 100 (.connBind 4 okCred (.val 0)))).2 =
    [.resp ⟨0, ⟨⟨false, 7⟩, 7002⟩⟩ "ConnectionBind" false 400 4 {}] := by decide


/-- regenerated: the ConnectionBind deadline in today's source is 30 seconds -/
theorem bind_timeout_regenerated : Gen.Consts.allocation_defaultTCPConnectionBindTimeout = 30 * 1000000000 := by decide

end Turn.C16

namespace Turn.C16
open Turn.Srv
/-- **TCP allocations exist on stream listeners only** (RFC 6062 5.1): an Allocate that asks for a TCP relay is granted only
    when it arrived over a TCP/TLS control connection, so no Connect — whose dial may take as long as the peer likes — ever
    runs on a datagram listener's single read loop, where it would hold up every other client (finding F41) -/
theorem tcp_allocation_over_stream_only {c s k lt tr df tok even fam env reqPort newTok f g}
    (h : allocChecks c s k lt tr df tok even fam env = .ok (true, reqPort, newTok, f, g)) :
    (getLis c k.lid).stream = true := by
  unfold allocChecks at h
  split at h
  · cases h
  · cases h
  · rename_i t
    split at h; · cases h
    split at h; · cases h
    rename_i h442 h400
    split at h; · cases h
    split at h; · cases h
    split at h; · cases h
    split at h; · cases h
    split at h; · cases h
    split at h; · cases h
    split at h; · cases h
    simp only [Except.ok.injEq, Prod.mk.injEq] at h
    obtain ⟨ht, _⟩ := h
    simp_all

/-! non-vacuity: granted over the stream listener of `cfg0`, refused with 400 over a datagram listener -/
example : (allocChecks cfg0 init k0 .absent (.val 6) false .absent .absent .absent ⟨some 50001, true, none, ""⟩).isOk = true := by decide
example : allocChecks { cfg0 with lis := [⟨false, 1, false, [], []⟩] } init k0 .absent (.val 6) false .absent .absent .absent
    ⟨some 50001, true, none, ""⟩ = .error 400 := by decide
end Turn.C16
