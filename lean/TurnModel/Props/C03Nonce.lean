/-
C03 (nonce part) — which nonces this server instance accepts.  Model: Model/Nonce.lean (M3).
The MAC is a parameter: the guarantees below hold for every MAC; forging a nonce is exactly
producing `take hmacLen (mac ts)` for a timestamp inside the window.
Resolution note: the short nonce stamps whole minutes, so "within the last hour" is "stamped at most 60
whole minutes ago" (age < 61 min); the long nonce is exact to the millisecond.
-/
import TurnModel.Lemmas.Nonce
import TurnModel.Gen.Consts
namespace Turn.C03
open Turn.Nonce

/-- short nonce, EVERY truncation length 2…32, every MAC: a nonce minted by this instance at second `t`
    is accepted at second `t'` exactly when 0 ≤ ⌊t'/60⌋ − ⌊t/60⌋ ≤ 60 — throughout the window after a
    401/438 challenge, never before it was minted, never after the window -/
theorem nonce_short_accept_iff (p : Params) (hp : MacOK p) (t t' : Nat) (ht : t / 60 < 4294967296) :
    validate p (mint p t) t' = true ↔ (t / 60 ≤ t' / 60 ∧ t' / 60 - t / 60 ≤ 60) := by
  have hd := decode_mint p hp t
  have hlen : (natToBytes (ofDigits 36 (mint p t))).length ≤ 4 + p.hmacLen := by
    have h1 := congrArg List.length hd
    rw [raw_len p hp] at h1
    simp only [padLeft, List.length_append, List.length_replicate] at h1
    omega
  unfold validate
  simp only [Nat.not_lt.mpr hlen, if_false, hd]
  have htake : (ts4 (t / 60) ++ (p.mac (ts4 (t / 60))).take p.hmacLen).take 4 = ts4 (t / 60) := by
    simp [ts4]
  have hdrop : (ts4 (t / 60) ++ (p.mac (ts4 (t / 60))).take p.hmacLen).drop 4 = (p.mac (ts4 (t / 60))).take p.hmacLen := by
    simp [ts4]
  rw [htake, hdrop, ts4Val_ts4 _ ht]
  by_cases h1 : t' / 60 < t / 60
  · simp [h1]; omega
  · by_cases h2 : t' / 60 - t / 60 > 60
    · simp [h1, h2]; omega
    · simp [h1, h2]; omega

/-- the nonce in a challenge is accepted by the same instance at once and for the whole hour -/
theorem challenge_accepted (p : Params) (hp : MacOK p) (t dt : Nat) (ht : t / 60 < 4294967296) (hdt : dt ≤ 3600) :
    validate p (mint p t) (t + dt) = true := by
  rw [nonce_short_accept_iff p hp t (t + dt) ht]
  constructor <;> omega

/-- what `Validate` decodes from the nonce text: base-36 → big-endian bytes, left-padded with zeros -/
def dec (p : Params) (digits : List Nat) : List Nat := padLeft (4 + p.hmacLen) (natToBytes (ofDigits 36 digits))

/-- **only minted nonces are accepted**: whatever text is accepted at `now` decodes (with the leading-zero
    padding) to a timestamp inside the window followed by this instance's MAC of that timestamp, truncated —
    so a mutated, truncated, future-dated, expired or foreign nonce is accepted only by hitting the MAC -/
theorem nonce_accept_only_minted (p : Params) (digits : List Nat) (now : Nat) (h : validate p digits now = true) :
    ts4Val ((dec p digits).take 4) ≤ now / 60 ∧ now / 60 - ts4Val ((dec p digits).take 4) ≤ 60 ∧
    (dec p digits).drop 4 = (p.mac ((dec p digits).take 4)).take p.hmacLen := by
  unfold validate at h
  simp only at h
  unfold dec
  by_cases h0 : (natToBytes (ofDigits 36 digits)).length > 4 + p.hmacLen
  · simp [h0] at h
  · simp only [h0, if_false] at h
    by_cases h1 : now / 60 < ts4Val ((padLeft (4 + p.hmacLen) (natToBytes (ofDigits 36 digits))).take 4)
    · simp [h1] at h
    · by_cases h2 : now / 60 - ts4Val ((padLeft (4 + p.hmacLen) (natToBytes (ofDigits 36 digits))).take 4) > 60
      · simp [h1, h2] at h
      · simp only [h1, h2, if_false, decide_eq_true_eq] at h
        exact ⟨by omega, by omega, h⟩

/-- text outside the base-36 alphabet is never accepted -/
theorem nonce_bad_text_rejected (p : Params) (s : String) (now : Nat) (h : textDigits s = none) :
    validateText p s now = false := by
  simp [validateText, h]

theorem ts8_length (ms : Nat) : (ts8 ms).length = 8 := by simp [ts8]

/-- long nonce: a nonce minted at millisecond `t` is accepted at `t'` exactly when it is not older than
    the lifetime (a clock that moved backwards does not invalidate it) -/
theorem nonce_long_accept_iff (mac : List Nat → List Nat) (hm : ∀ x, (mac x).length = 32) (life t t' : Nat)
    (ht : t < 18446744073709551616) :
    validateLong mac life (mintLong mac t) t' = true ↔ t' ≤ t + life := by
  have hv := ts8Val_ts8 t ht
  have hlen : (mintLong mac t).length = 40 := by simp [mintLong, ts8_length, hm]
  have htake : (mintLong mac t).take 8 = ts8 t := by simp [mintLong, ts8_length]
  have hdrop : (mintLong mac t).drop 8 = mac (ts8 t) := by simp [mintLong, ts8_length]
  unfold validateLong
  simp only [hlen, bne_self_eq_false, Bool.false_eq_true, if_false, htake, hdrop, hv]
  by_cases h : t' > t + life
  · simp [h]
  · simp [h]; omega

/-- an accepted long nonce carries this instance's MAC of its timestamp -/
theorem nonce_long_only_minted (mac : List Nat → List Nat) (life : Nat) (bytes : List Nat) (now : Nat)
    (h : validateLong mac life bytes now = true) :
    bytes.length = 40 ∧ now ≤ ts8Val (bytes.take 8) + life ∧ bytes.drop 8 = mac (bytes.take 8) := by
  unfold validateLong at h
  split at h; · cases h
  rename_i hl
  simp only at h
  split at h; · cases h
  rename_i ha
  exact ⟨by simpa using hl, by omega, by simpa using h⟩

/-- regenerated: both nonce lifetimes are one hour, the short nonce has a 4-byte timestamp and accepts
    truncation lengths 2…32 (default 12) in today's source -/
theorem nonce_consts_regenerated :
    Gen.Consts.server_nonceLifetime = 3600 * 1000000000 ∧ Gen.Consts.server_shortNonceLifetime = 3600 * 1000000000 ∧
    Gen.Consts.server_shortNonceTimestampLen = 4 ∧ Gen.Consts.server_shortNonceMinHMACLen = 2 ∧
    Gen.Consts.server_shortNonceMaxHMACLen = 32 ∧ Gen.Consts.server_defaultNonceHMACLen = 12 ∧
    Gen.Consts.server_nonceLength = 40 := by decide

/-! non-vacuity with a toy MAC (32 constant bytes) -/
def toy : Params := ⟨fun _ => List.replicate 32 7, 12⟩
theorem toyOK : MacOK toy := ⟨fun _ => by simp [toy], fun _ b hb => by simp [toy] at hb; omega, by decide⟩
example : validate toy (mint toy 1000000) (1000000 + 3600) = true :=
  (nonce_short_accept_iff toy toyOK _ _ (by decide)).mpr (by decide)
example : validate toy (mint toy 1000000) (1000000 + 3700) = false := by
  cases h : validate toy (mint toy 1000000) (1000000 + 3700) with
  | false => rfl
  | true => exact absurd ((nonce_short_accept_iff toy toyOK 1000000 (1000000 + 3700) (by decide)).mp h) (by decide)

end Turn.C03
