/-
C09 — no input can crash, wedge or spin an endpoint (PARTIAL: panics inside pion/stun and the Go
runtime are outside any Lean model; the harness's hostile streams are the evidence for those).
This file: the framer never reports progress without consuming, and the stream read loop
terminates on every finite input.
-/
import TurnModel.Lemmas.Framer
import TurnModel.Props.C13
namespace Turn.C09

/-- `consumeSingleTURNFrame` never returns `(0, nil)` and never more than it was given -/
theorem consume_progress (b : Bytes) (n : Nat) (h : consume b = .ok n) : 0 < n ∧ n ≤ b.length := by
  obtain ⟨h1, h2⟩ := consume_ok_bounds h; exact ⟨by omega, h2⟩

/-- the server's read loop over a stream cannot spin: on any finite input (any chunks, any bytes) it
    stops with a definite reason (garbage or end of stream) within `total bytes + 1` iterations —
    `readAll` never runs out of the fuel `buff.length + chunks.flatten.length + 1`. -/
theorem readloop_terminates : ∀ (fuel : Nat) (chunks : List Bytes) (buff : Bytes),
    buff.length + chunks.flatten.length < fuel → (readAll fuel chunks buff).2 ≠ none := by
  intro fuel
  induction fuel with
  | zero => intro _ _ h; omega
  | succ k ih =>
    intro chunks buff hlt
    simp only [readAll]
    split
    · rename_i f c heq
      obtain ⟨h1, h2⟩ := readFrom_frame_consumes chunks buff f c heq
      have hl := congrArg List.length h1
      simp only [List.length_append] at hl
      exact ih c.chunks c.buff (by omega)
    · simp

/-- every frame handed to the request handler by the loop is a non-empty slice of the input -/
theorem readloop_frames_nonempty : ∀ (fuel : Nat) (chunks : List Bytes) (buff : Bytes),
    ∀ f ∈ (readAll fuel chunks buff).1, 4 ≤ f.length := by
  intro fuel
  induction fuel with
  | zero => intro _ _ f hf; simp [readAll] at hf
  | succ k ih =>
    intro chunks buff f hf
    simp only [readAll] at hf
    split at hf
    · rename_i g c heq
      obtain ⟨_, h2⟩ := readFrom_frame_consumes chunks buff g c heq
      simp only [List.mem_cons] at hf
      rcases hf with rfl | hf
      · exact h2
      · exact ih _ _ f hf
    · simp at hf

/-! non-vacuity / the historical spin inputs: the four ChannelData lengths 0xFFF9–0xFFFC and STUN
    length 0xFFEC (finding F1) are "incomplete" in the model, not `ok 0`. -/
example : consume [0x40, 0, 0xFF, 0xF9, 1, 2, 3, 4, 5] = .incomplete := by decide
example : consume ([0, 1, 0xFF, 0xEC] ++ cookie ++ List.replicate 12 0) = .incomplete := by decide
example : (readAll 10 [[0x40, 0, 0, 1], [9, 0, 0, 0]] []) = ([[0x40, 0, 0, 1, 9, 0, 0, 0]], some .eof) := by decide

/-! ### client side (M6): the read loop's handler never waits for the application -/

/-- over ANY history of writes, inbound messages, reads, ticks and Close, the client's receive queue never
    holds more than `maxReadQueueSize` datagrams … -/
theorem client_queue_bounded (ops : List Turn.Cli.Op) : (Turn.Cli.run Turn.Cli.init ops).1.queue.length ≤ Turn.Cli.qcap :=
  (Turn.C13.inv_run ops Turn.Cli.init Turn.C13.inv_init).queue

/-- … because a datagram arriving at a full queue is dropped on the spot (the handler returns; it does
    not wait for room), whatever the datagram -/
theorem client_full_queue_drops (s : Turn.Cli.State) (f : Turn.Srv.Addr) (d : Bytes) (h : Turn.Cli.qcap ≤ s.queue.length) :
    Turn.Cli.enqueue s f d = s := by
  have : ¬ s.queue.length < Turn.Cli.qcap := by omega
  simp [Turn.Cli.enqueue, this]

end Turn.C09
