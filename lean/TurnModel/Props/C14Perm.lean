/-
C14 (third part) — every permission is refreshed before it expires: on the composed model the IP-wide
permission of every peer is live after any run (so "every piece of server-side state" — allocation,
bindings, permissions — survives for any duration).
-/
import TurnModel.Props.C14Data
namespace Turn.C14
open Turn.KeepAlive

/-! ### what one transmission does to the permission table -/

theorem transmit_permExp (s : St) (k : Kind) (x : Txn) (h : ¬ x.i < x.pat.a) :
    (transmit s k x).1.permExp =
      (if (!decide (x.i < x.pat.a + x.pat.b)) && x.pat.dup then (srvProc (srvProc s x.due k x.nonce).1 x.due k x.nonce).1
       else (srvProc s x.due k x.nonce).1).permExp := by
  unfold transmit
  simp only [h, if_false]
  split <;> split <;> rfl

theorem srvProc_perm_cases (s : St) (t : Nat) (k : Kind) (n : Nat) :
    (srvProc s t k n).1.permExp = s.permExp ∨
    (k = .cp ∧ (srvProc s t k n).1.permExp = List.replicate s.cfg.peers (t + s.cfg.permT)) ∨
    (∃ q, k = .cb q ∧ (srvProc s t k n).1.permExp = s.permExp.set q (t + s.cfg.permT)) := by
  unfold srvProc
  split
  · exact Or.inl rfl
  · split
    · exact Or.inl rfl
    · split
      · exact Or.inl rfl
      · exact Or.inl rfl
      · exact Or.inr (Or.inl ⟨rfl, rfl⟩)
      · rename_i q; exact Or.inr (Or.inr ⟨q, rfl, rfl⟩)

theorem srvProc_cfg (s : St) (t : Nat) (k : Kind) (n : Nat) : (srvProc s t k n).1.cfg = s.cfg := by
  obtain ⟨a, p, c, h⟩ := srvProc_frame s t k n
  rw [h]

/-- after one transmission the permission table is the old one, or (CreatePermission) all peers re-armed
    at `due + permT`, or (ChannelBind q) peer q re-armed at `due + permT` -/
theorem transmit_perm_cases (s : St) (k : Kind) (x : Txn) :
    (transmit s k x).1.permExp = s.permExp ∨
    (k = .cp ∧ (transmit s k x).1.permExp = List.replicate s.cfg.peers (x.due + s.cfg.permT)) ∨
    (∃ q, k = .cb q ∧ (transmit s k x).1.permExp = s.permExp.set q (x.due + s.cfg.permT)) := by
  by_cases hia : x.i < x.pat.a
  · left
    have : transmit s k x = (s, [], none) := by unfold transmit; simp [hia]
    rw [this]
  · rw [transmit_permExp s k x hia]
    rcases srvProc_perm_cases s x.due k x.nonce with h1 | ⟨hk, h1⟩ | ⟨q, hk, h1⟩
    · split
      · rcases srvProc_perm_cases (srvProc s x.due k x.nonce).1 x.due k x.nonce with h2 | ⟨hk, h2⟩ | ⟨q, hk, h2⟩
        · left; rw [h2, h1]
        · right; left; rw [h2, srvProc_cfg]; exact ⟨hk, rfl⟩
        · right; right; rw [h2, h1, srvProc_cfg]; exact ⟨q, hk, rfl⟩
      · left; exact h1
    · split
      · rcases srvProc_perm_cases (srvProc s x.due k x.nonce).1 x.due k x.nonce with h2 | ⟨_, h2⟩ | ⟨q, hk', _⟩
        · right; left; rw [h2, h1]; exact ⟨hk, rfl⟩
        · right; left; rw [h2, srvProc_cfg]; exact ⟨hk, rfl⟩
        · rw [hk] at hk'; cases hk'
      · right; left; exact ⟨hk, h1⟩
    · split
      · rcases srvProc_perm_cases (srvProc s x.due k x.nonce).1 x.due k x.nonce with h2 | ⟨hk', _⟩ | ⟨q', hk', h2⟩
        · right; right; rw [h2, h1]; exact ⟨q, hk, rfl⟩
        · rw [hk] at hk'; cases hk'
        · right; right
          rw [hk] at hk'; cases hk'
          rw [h2, h1, srvProc_cfg]
          exact ⟨q, hk, by simp [List.set_set]⟩
      · right; right; exact ⟨q, hk, h1⟩

theorem srvProc_cp (s : St) (t n e : Nat) (he : s.allocExp = some e) (ht : t < e) :
    (srvProc s t .cp n = (s, .stale) ∧ nonceWindow < minuteOf t - n) ∨
    (srvProc s t .cp n = ({ s with permExp := List.replicate s.cfg.peers (t + s.cfg.permT) }, .ok) ∧ minuteOf t - n ≤ nonceWindow) := by
  unfold srvProc
  have hl : allocLive s t = true := by simp [allocLive, he, ht]
  by_cases h : minuteOf t - n > nonceWindow
  · left; simp [h]
  · right; simp only [h, if_false, hl, Bool.not_true, Bool.false_eq_true]; exact ⟨trivial, by omega⟩

/-- a CreatePermission transmission while the allocation is live: lost, or stale, or accepted -/
theorem transmit_cp (s : St) (x : Txn) (e : Nat) (he : s.allocExp = some e) (ht : x.due < e) :
    ((transmit s .cp x).2.2 = none ∧ x.i < x.pat.a + x.pat.b) ∨
    ((transmit s .cp x).2.2 = some .ok ∧ (transmit s .cp x).1.permExp = List.replicate s.cfg.peers (x.due + s.cfg.permT)) ∨
    ((transmit s .cp x).2.2 = some .stale ∧ (transmit s .cp x).1.permExp = s.permExp ∧ nonceWindow < minuteOf x.due - x.nonce) := by
  by_cases hia : x.i < x.pat.a
  · left
    have : transmit s .cp x = (s, [], none) := by unfold transmit; simp [hia]
    rw [this]
    exact ⟨rfl, by omega⟩
  · rw [transmit_code s _ x hia, transmit_permExp s _ x hia]
    rcases srvProc_cp s x.due x.nonce e he ht with ⟨h1, hst⟩ | ⟨h1, _⟩
    · rw [h1]
      simp only [h1, ite_self]
      by_cases hl : x.i < x.pat.a + x.pat.b
      · left; simp only [hl, if_true]; exact ⟨trivial, trivial⟩
      · right; right; simp only [hl, if_false]; exact ⟨trivial, trivial, hst⟩
    · rw [h1]
      simp only
      have hexp : (if (!decide (x.i < x.pat.a + x.pat.b)) && x.pat.dup then
            (srvProc { s with permExp := List.replicate s.cfg.peers (x.due + s.cfg.permT) } x.due .cp x.nonce).1
          else { s with permExp := List.replicate s.cfg.peers (x.due + s.cfg.permT) }).permExp
            = List.replicate s.cfg.peers (x.due + s.cfg.permT) := by
        split
        · rcases srvProc_cp { s with permExp := List.replicate s.cfg.peers (x.due + s.cfg.permT) } x.due x.nonce e he ht with ⟨h2, _⟩ | ⟨h2, _⟩ <;> rw [h2]
        · rfl
      rw [hexp]
      by_cases hl : x.i < x.pat.a + x.pat.b
      · left; simp only [hl, if_true]; exact ⟨trivial, trivial⟩
      · right; left; simp only [hl, if_false]; exact ⟨trivial, trivial⟩

/-! ### the invariants -/

/-- the permission driver: waiting for its timer (armed, not in the past, at most one period ahead), or in
    the middle of a CreatePermission that started in the past and is still within its transmissions -/
def PermDrv (s : St) : Prop :=
  (∃ w, s.permWake = some w ∧ s.permTx = none ∧ s.now ≤ w ∧ w ≤ s.now + s.cfg.permP) ∨
  (∃ x, s.permWake = none ∧ s.permTx = some x ∧ x.start ≤ s.now ∧ s.now ≤ x.due ∧
     x.pat.a + x.pat.b ≤ maxIdx ∧ x.i ≤ x.pat.a + x.pat.b ∧ x.attempt < maxAttempts ∧ (1 ≤ x.attempt → minuteOf x.start ≤ x.nonce))

/-- peer `p`'s permission is live, and whatever the driver is doing will reach the server before it expires -/
def PermOK (s : St) (p : Nat) : Prop :=
  ∃ pe, s.permExp[p]? = some pe ∧ s.now < pe ∧ (∀ w, s.permWake = some w → w + dH < pe) ∧
    (∀ x, s.permTx = some x → x.start + (maxAttempts - x.attempt) * dTx < pe)

/-- the fields these read -/
def SamePerm (s s' : St) : Prop :=
  s'.cfg = s.cfg ∧ s'.now = s.now ∧ s'.permExp = s.permExp ∧ s'.permWake = s.permWake ∧ s'.permTx = s.permTx

theorem SamePerm.trans {a b c : St} (h1 : SamePerm a b) (h2 : SamePerm b c) : SamePerm a c := by
  obtain ⟨a1, a2, a3, a4, a5⟩ := h1
  obtain ⟨b1, b2, b3, b4, b5⟩ := h2
  exact ⟨b1.trans a1, b2.trans a2, b3.trans a3, b4.trans a4, b5.trans a5⟩

theorem permDrv_same {s s' : St} (h : SamePerm s s') (hi : PermDrv s) : PermDrv s' := by
  obtain ⟨c1, c2, _, c4, c5⟩ := h
  unfold PermDrv; rw [c1, c2, c4, c5]; exact hi

theorem permOK_same {s s' : St} (h : SamePerm s s') (p : Nat) (hi : PermOK s p) : PermOK s' p := by
  obtain ⟨c1, c2, c3, c4, c5⟩ := h
  unfold PermOK; rw [c2, c3, c4, c5]; exact hi

theorem perm_root_mem (s : St) (w : Nat) (h : s.permWake = some w) : (w, Root.perm) ∈ roots s := by
  simp [roots, optRoot, h]
theorem permTx_root_mem (s : St) (x : Txn) (h : s.permTx = some x) : (x.due, Root.permTx) ∈ roots s := by
  simp [roots, optRoot, h]

theorem permDrv_advance {s : St} {t : Nat} (hi : PermDrv s) (hle : ∀ x ∈ roots s, t ≤ x.1) : PermDrv { s with now := max s.now t } := by
  rcases hi with ⟨w, hw, htx, h1, h2⟩ | ⟨x, hw, hx, h1, h2, h3⟩
  · have : t ≤ w := hle _ (perm_root_mem s w hw)
    exact Or.inl ⟨w, hw, htx, by show max s.now t ≤ w; omega, by show w ≤ max s.now t + s.cfg.permP; omega⟩
  · have : t ≤ x.due := hle _ (permTx_root_mem s x hx)
    exact Or.inr ⟨x, hw, hx, by show x.start ≤ max s.now t; omega, by show max s.now t ≤ x.due; omega, h3⟩

theorem permOK_advance {s : St} {p t : Nat} (hd : PermDrv s) (hi : PermOK s p) (hle : ∀ x ∈ roots s, t ≤ x.1) :
    PermOK { s with now := max s.now t } p := by
  obtain ⟨pe, he, hnow, h1, h2⟩ := hi
  refine ⟨pe, he, ?_, h1, h2⟩
  show max s.now t < pe
  rcases hd with ⟨w, hw, _, _, _⟩ | ⟨x, _, hx, _, _, k1, k2, k3, _⟩
  · have : t ≤ w := hle _ (perm_root_mem s w hw)
    have := h1 w hw
    omega
  · have : t ≤ x.due := hle _ (permTx_root_mem s x hx)
    have hb := h2 x hx
    have := off_le_dTx x.i (by omega)
    unfold maxAttempts at k3 hb
    have : dTx ≤ (3 - x.attempt) * dTx := Nat.le_mul_of_pos_left _ (by omega)
    unfold Txn.due at *
    omega

/-! ### frames -/

theorem transmit_same_perm (s : St) (k : Kind) (x : Txn) :
    (transmit s k x).1.cfg = s.cfg ∧ (transmit s k x).1.now = s.now ∧ (transmit s k x).1.permWake = s.permWake ∧
    (transmit s k x).1.permTx = s.permTx ∧ (transmit s k x).1.closed = s.closed := by
  obtain ⟨ae, pe, ce, tn, wy, h⟩ := transmit_frame s k x
  rw [h]; exact ⟨rfl, rfl, rfl, rfl, rfl⟩

theorem transmit_rf_permExp (s : St) (lt : Nat) (x : Txn) : (transmit s (.rf lt) x).1.permExp = s.permExp := by
  rcases transmit_perm_cases s (.rf lt) x with h | ⟨hk, _⟩ | ⟨q, hk, _⟩
  · exact h
  · cases hk
  · cases hk

theorem fireAllocTx_samePerm (s : St) (x : Txn) : SamePerm s (fireAllocTx s x).1 := by
  obtain ⟨f1, f2, f3, f4, _⟩ := transmit_same_perm { s with allocTx := none } (.rf s.cfg.life) x
  have f5 := transmit_rf_permExp { s with allocTx := none } s.cfg.life x
  unfold fireAllocTx
  generalize transmit { s with allocTx := none } (.rf s.cfg.life) x = T at f1 f2 f3 f4 f5
  obtain ⟨s1, outs, r⟩ := T
  simp only at f1 f2 f3 f4 f5 ⊢
  have base : SamePerm s s1 := ⟨f1, f2, f5, f3, f4⟩
  match r with
  | none => exact SamePerm.trans base ⟨rfl, rfl, rfl, rfl, rfl⟩
  | some .ok => simp only; split <;> first | exact base | exact SamePerm.trans base ⟨rfl, rfl, rfl, rfl, rfl⟩
  | some .stale => simp only; split <;> exact SamePerm.trans base ⟨rfl, rfl, rfl, rfl, rfl⟩
  | some .dead => exact SamePerm.trans base ⟨rfl, rfl, rfl, rfl, rfl⟩

theorem maybeBind_samePerm (s : St) (t q : Nat) : SamePerm s (maybeBind s t q) := by
  unfold maybeBind
  split
  · split <;> exact ⟨rfl, rfl, rfl, rfl, rfl⟩
  · exact ⟨rfl, rfl, rfl, rfl, rfl⟩

theorem fold_maybeBind_samePerm (t : Nat) : ∀ (l : List Nat) (s : St), SamePerm s (l.foldl (fun s p => maybeBind s t p) s) := by
  intro l
  induction l with
  | nil => intro s; exact ⟨rfl, rfl, rfl, rfl, rfl⟩
  | cons p ps ih => intro s; exact SamePerm.trans (maybeBind_samePerm s t p) (ih _)

/-- what every outcome of `firePermTx` looks like -/
theorem firePermTx_shape (s : St) (x : Txn) (e : Nat) (he : s.allocExp = some e) (ht : x.due < e) :
    let T := transmit { s with permTx := none } .cp x
    (T.2.2 = none ∧ (firePermTx s x).1 = { T.1 with permTx := some (next x) }) ∨
    (T.2.2 = some .ok ∧ (firePermTx s x).1 = (if T.1.closed then T.1 else { T.1 with permWake := some (x.due + T.1.cfg.permP) })) ∨
    (T.2.2 = some .stale ∧ (firePermTx s x).1 =
        (if x.attempt + 1 < maxAttempts then startPerm { T.1 with nonce := minuteOf x.due } x.due (x.attempt + 1)
         else { T.1 with nonce := minuteOf x.due, tainted := true, why := 4 })) := by
  have hnd := (transmit_other { s with permTx := none } .cp x e (by intro lt h; cases h) he ht).1
  unfold firePermTx
  generalize transmit { s with permTx := none } .cp x = T at hnd
  obtain ⟨s1, outs, r⟩ := T
  simp only at hnd ⊢
  match r with
  | none => exact Or.inl ⟨rfl, rfl⟩
  | some .ok => exact Or.inr (Or.inl ⟨rfl, rfl⟩)
  | some .stale => exact Or.inr (Or.inr ⟨rfl, rfl⟩)
  | some .dead => exact absurd rfl hnd

theorem getElem?_replicate_lt {α} (n p : Nat) (v : α) (h : p < n) : (List.replicate n v)[p]? = some v := by
  simp [List.getElem?_replicate, h]

/-! ### the slot table keeps its length -/

def LenInv (s : St) : Prop := s.bindTx.length = s.cfg.peers

theorem maybeBind_len (s : St) (t q : Nat) : (maybeBind s t q).bindTx.length = s.bindTx.length ∧ (maybeBind s t q).cfg = s.cfg := by
  unfold maybeBind
  split
  · split
    · exact ⟨by simp [startBind], rfl⟩
    · exact ⟨rfl, rfl⟩
  · exact ⟨rfl, rfl⟩

theorem fold_maybeBind_len (t : Nat) : ∀ (l : List Nat) (s : St),
    (l.foldl (fun s p => maybeBind s t p) s).bindTx.length = s.bindTx.length ∧ (l.foldl (fun s p => maybeBind s t p) s).cfg = s.cfg := by
  intro l
  induction l with
  | nil => intro s; exact ⟨rfl, rfl⟩
  | cons p ps ih =>
    intro s
    obtain ⟨a1, a2⟩ := maybeBind_len s t p
    obtain ⟨b1, b2⟩ := ih (maybeBind s t p)
    exact ⟨b1.trans a1, b2.trans a2⟩

theorem fireBindTx_len (s : St) (q : Nat) (x : Txn) (e : Nat) (he : s.allocExp = some e) (ht : x.due < e) :
    (fireBindTx s q x).1.bindTx.length = s.bindTx.length := by
  obtain ⟨_, _, _, f4, _⟩ := transmit_same_bind { s with bindTx := s.bindTx.set q none } (.cb q) x
  rcases fireBindTx_shape s q x e he ht with ⟨_, h⟩ | ⟨_, h⟩ | ⟨_, h⟩
  · rw [h]; show (List.set _ q _).length = _; rw [List.length_set, f4]; simp
  · rw [h]; show (transmit _ _ _).1.bindTx.length = _; rw [f4]; simp
  · rw [h]
    split
    · show (List.set _ q _).length = _; rw [List.length_set]; show (transmit _ _ _).1.bindTx.length = _; rw [f4]; simp
    · show (transmit _ _ _).1.bindTx.length = _; rw [f4]; simp

/-! ### one event -/

def PermAll (s : St) : Prop := PermDrv s ∧ ∀ p < s.cfg.peers, PermOK s p

theorem fire_perm_inv (s : St) (t : Nat) (r : Root) (hc : Compatible s.cfg) (hp : PatsOK s.cfg) (hD : DataInv s) (hL : LenInv s)
    (hP : PermAll s) (hm : (t, r) ∈ roots s) (hle : ∀ x ∈ roots s, t ≤ x.1) :
    PermAll (fire { s with now := max s.now t } t r).1 ∧ LenInv (fire { s with now := max s.now t } t r).1 := by
  have hcfg := (fire_data_inv s t r hc hp hD hm hle).2
  obtain ⟨hA, hW, hC⟩ := hD
  obtain ⟨hPD, hPO⟩ := hP
  obtain ⟨e, he, m, hmem, hlt⟩ := alloc_root_before_expiry hA
  have hte : t < e := Nat.lt_of_le_of_lt (hle m hmem) hlt
  have hcl : s.closed = false := hA.2.1
  have hPD0 : PermDrv { s with now := max s.now t } := permDrv_advance hPD hle
  have hPO0 : ∀ p < s.cfg.peers, PermOK { s with now := max s.now t } p := fun p hp' => permOK_advance hPD (hPO p hp') hle
  obtain ⟨_, c2, _, _⟩ := hc
  have hdH : dH = maxAttempts * dTx := rfl
  have frame : ∀ s', SamePerm { s with now := max s.now t } s' → s'.bindTx.length = s.bindTx.length →
      (PermDrv s' ∧ ∀ p < s'.cfg.peers, PermOK s' p) ∧ LenInv s' := by
    intro s' h hl
    refine ⟨⟨permDrv_same h hPD0, fun p hp' => permOK_same h p (hPO0 p (by rw [h.1] at hp'; exact hp'))⟩, ?_⟩
    unfold LenInv; rw [hl, h.1]; exact hL
  rcases roots_inv s t r hm with ⟨hr, hw⟩ | ⟨hr, x, hx, hd⟩ | ⟨hr, hw⟩ | ⟨hr, x, hx, hd⟩ | ⟨hr, hw⟩ | ⟨q, x, hr, hx, hd⟩ | ⟨_, x, hx, _⟩
  rotate_right
  · exfalso; have := hA.2.2.1; rw [hx] at this; cases this
  · subst hr; exact frame _ ⟨rfl, rfl, rfl, rfl, rfl⟩ rfl
  · subst hr
    have : fire { s with now := max s.now t } t .allocTx = fireAllocTx { s with now := max s.now t } x := by simp [fire, hx]
    rw [this]
    exact frame _ (fireAllocTx_samePerm _ x) (congrArg List.length (fireAllocTx_sameBind { s with now := max s.now t } x).2.2.2.2.1)
  · -- the permission timer fires
    subst hr
    rcases hPD with ⟨w, hw', htx, h1, h2⟩ | ⟨x, hw', _⟩
    · rw [hw] at hw'; cases hw'
      have hmax : max s.now t = t := by omega
      simp only [fire]
      by_cases hz : (s.cfg.peers == 0) = true
      · rw [if_pos hz]
        have hz' : s.cfg.peers = 0 := by simpa using hz
        refine ⟨⟨Or.inl ⟨t + s.cfg.permP, rfl, htx, by show max s.now t ≤ _; omega, by show _ ≤ max s.now t + s.cfg.permP; omega⟩, ?_⟩, hL⟩
        intro p hp'; have : p < s.cfg.peers := hp'; omega
      · rw [if_neg hz]
        refine ⟨⟨Or.inr ⟨newTxn { s with now := max s.now t, permWake := none } t .cp 0, rfl, rfl, by show t ≤ max s.now t; omega,
            by show max s.now t ≤ t + off 0; simp [off]; omega, pick_ok _ hp.2.1 _, Nat.zero_le _, by show 0 < maxAttempts; decide,
            by intro h; simp [newTxn] at h⟩, ?_⟩, hL⟩
        intro p hp'
        obtain ⟨pe, hpe, hnow, g1, _⟩ := hPO0 p hp'
        refine ⟨pe, hpe, hnow, ?_, ?_⟩
        · intro w hw2; cases hw2
        intro y hy
        have : y = newTxn { s with now := max s.now t, permWake := none } t .cp 0 := by
          have : some y = some (newTxn { s with now := max s.now t, permWake := none } t .cp 0) := hy.symm.trans rfl
          exact (Option.some.inj this)
        subst this
        show t + (maxAttempts - 0) * dTx < pe
        have := g1 t hw
        rw [hdH] at this; simpa using this
    · rw [hw] at hw'; cases hw'
  · -- one transmission of the CreatePermission
    subst hr
    have : fire { s with now := max s.now t } t .permTx = firePermTx { s with now := max s.now t } x := by simp [fire, hx]
    rw [this]
    rcases hPD with ⟨w, _, htx, _⟩ | ⟨x', hwk, hx', k0, k1, k2, k3, k4, k5⟩
    · rw [hx] at htx; cases htx
    rw [hx] at hx'; cases hx'
    have hmax : max s.now t = t := by omega
    have htd : x.due < e := by rw [hd]; exact hte
    have hstart : x.start ≤ x.due := by unfold Txn.due; omega
    have hdle : x.due ≤ x.start + dTx := by have := off_le_dTx x.i (by omega); unfold Txn.due; omega
    obtain ⟨f1, f2, f3, f4, f5⟩ := transmit_same_perm { s with now := max s.now t, permTx := none } .cp x
    have hbt := (transmit_same_bind { s with now := max s.now t, permTx := none } .cp x).2.2.2.1
    have hbound : ∀ (y : Txn), (maxAttempts - y.attempt) * dTx ≤ dH := fun y => by
      rw [hdH]; exact Nat.mul_le_mul_right _ (Nat.sub_le _ _)
    have hcases := transmit_perm_cases { s with now := max s.now t, permTx := none } .cp x
    rcases firePermTx_shape { s with now := max s.now t } x e he htd with ⟨hr, h⟩ | ⟨hr, h⟩ | ⟨hr, h⟩
    · rw [h]
      rcases transmit_cp { s with now := max s.now t, permTx := none } x e he htd with ⟨_, hlt'⟩ | ⟨h2, _⟩ | ⟨h2, _⟩
      · have hd' : x.due ≤ (next x).due := by simp [next, Txn.due]; exact off_succ_ge x.i
        refine ⟨⟨Or.inr ⟨next x, f3.trans hwk, rfl, by show x.start ≤ (transmit _ _ _).1.now; rw [f2]; show x.start ≤ max s.now t; omega,
            by show (transmit _ _ _).1.now ≤ _; rw [f2]; show max s.now t ≤ (next x).due; omega, k2, by simp [next]; omega, k4, k5⟩, ?_⟩, ?_⟩
        · intro p hp'
          have hp'' : p < s.cfg.peers := by rw [f1] at hp'; exact hp'
          obtain ⟨pe, hpe, hnow, _, g2⟩ := hPO0 p hp''
          have hb := g2 x hx
          rcases hcases with hc1 | ⟨_, hc1⟩ | ⟨q, hk, _⟩
          · refine ⟨pe, by show (transmit _ _ _).1.permExp[p]? = _; rw [hc1]; exact hpe, by show (transmit _ _ _).1.now < pe; rw [f2]; exact hnow, ?_, ?_⟩
            · intro w hw2
              have : (transmit { s with now := max s.now t, permTx := none } .cp x).1.permWake = some w := hw2
              rw [f3, hwk] at this; cases this
            · intro y hy; cases hy; exact hb
          · refine ⟨x.due + s.cfg.permT, by show (transmit _ _ _).1.permExp[p]? = _; rw [hc1]; exact getElem?_replicate_lt _ _ _ hp'',
              by show (transmit _ _ _).1.now < _; rw [f2]; show max s.now t < _; omega, ?_, ?_⟩
            · intro w hw2
              have : (transmit { s with now := max s.now t, permTx := none } .cp x).1.permWake = some w := hw2
              rw [f3, hwk] at this; cases this
            intro y hy; cases hy
            show x.start + (maxAttempts - x.attempt) * dTx < x.due + s.cfg.permT
            have := hbound x; omega
          · cases hk
        · unfold LenInv; show (transmit _ _ _).1.bindTx.length = (transmit _ _ _).1.cfg.peers; rw [hbt, f1]; exact hL
      · rw [hr] at h2; cases h2
      · rw [hr] at h2; cases h2
    · rw [h]
      rcases transmit_cp { s with now := max s.now t, permTx := none } x e he htd with ⟨h2, _⟩ | ⟨_, hexp⟩ | ⟨h2, _⟩
      · rw [hr] at h2; cases h2
      · have hclosed : (transmit { s with now := max s.now t, permTx := none } .cp x).1.closed = false := f5.trans hcl
        simp only [hclosed, Bool.false_eq_true, if_false]
        refine ⟨⟨Or.inl ⟨x.due + (transmit _ _ _).1.cfg.permP, rfl, f4, by show (transmit _ _ _).1.now ≤ _; rw [f2]; show max s.now t ≤ _; omega,
            by show _ ≤ (transmit _ _ _).1.now + (transmit _ _ _).1.cfg.permP; rw [f2]; show _ ≤ max s.now t + _; omega⟩, ?_⟩, ?_⟩
        · intro p hp'
          have hp'' : p < s.cfg.peers := by rw [f1] at hp'; exact hp'
          refine ⟨x.due + s.cfg.permT, by show (transmit _ _ _).1.permExp[p]? = _; rw [hexp]; exact getElem?_replicate_lt _ _ _ hp'',
            by show (transmit _ _ _).1.now < _; rw [f2]; show max s.now t < _; omega, ?_, ?_⟩
          · intro w hw2
            have : w = x.due + (transmit { s with now := max s.now t, permTx := none } .cp x).1.cfg.permP := (Option.some.inj hw2).symm
            rw [this, f1]; show x.due + s.cfg.permP + dH < x.due + s.cfg.permT; omega
          · intro y hy
            have : (transmit { s with now := max s.now t, permTx := none } .cp x).1.permTx = some y := hy
            rw [f4] at this; cases this
        · unfold LenInv; show (transmit _ _ _).1.bindTx.length = (transmit _ _ _).1.cfg.peers; rw [hbt, f1]; exact hL
      · rw [hr] at h2; cases h2
    · rw [h]
      rcases transmit_cp { s with now := max s.now t, permTx := none } x e he htd with ⟨h2, _⟩ | ⟨h2, _⟩ | ⟨_, hexp, hst⟩
      · rw [hr] at h2; cases h2
      · rw [hr] at h2; cases h2
      · have hatt : x.attempt = 0 := by
          cases ha : x.attempt with
          | zero => rfl
          | succ n =>
            exfalso
            have h5 := k5 (by omega)
            have hdv : dTx = 6200 := by decide
            unfold minuteOf nonceWindow at *
            have : x.due / 60000 ≤ x.start / 60000 + 1 := by omega
            omega
        have hlt2 : x.attempt + 1 < maxAttempts := by rw [hatt]; decide
        simp only [hlt2, if_true]
        refine ⟨⟨Or.inr ⟨newTxn { (transmit { s with now := max s.now t, permTx := none } .cp x).1 with nonce := minuteOf x.due } x.due .cp (x.attempt + 1),
            f3.trans hwk, rfl, by show x.due ≤ (transmit _ _ _).1.now; rw [f2]; show x.due ≤ max s.now t; omega,
            by show (transmit _ _ _).1.now ≤ x.due + off 0; rw [f2]; show max s.now t ≤ x.due + off 0; simp [off]; omega,
            pick_ok _ (by rw [f1]; exact hp.2.1) _, Nat.zero_le _, hlt2, by intro _; show minuteOf x.due ≤ minuteOf x.due; exact Nat.le_refl _⟩, ?_⟩, ?_⟩
        · intro p hp'
          have hp'' : p < s.cfg.peers := by
            have : (startPerm { (transmit { s with now := max s.now t, permTx := none } .cp x).1 with nonce := minuteOf x.due } x.due (x.attempt + 1)).cfg
                = (transmit { s with now := max s.now t, permTx := none } .cp x).1.cfg := rfl
            rw [this, f1] at hp'; exact hp'
          obtain ⟨pe, hpe, hnow, _, g2⟩ := hPO0 p hp''
          have hb := g2 x hx
          refine ⟨pe, by show (transmit _ _ _).1.permExp[p]? = _; rw [hexp]; exact hpe, by show (transmit _ _ _).1.now < pe; rw [f2]; exact hnow, ?_, ?_⟩
          · intro w hw2
            have : (transmit { s with now := max s.now t, permTx := none } .cp x).1.permWake = some w := hw2
            rw [f3, hwk] at this; cases this
          intro y hy
          have : y = newTxn { (transmit { s with now := max s.now t, permTx := none } .cp x).1 with nonce := minuteOf x.due } x.due .cp (x.attempt + 1) :=
            (Option.some.inj hy).symm
          subst this
          show x.due + (maxAttempts - (x.attempt + 1)) * dTx < pe
          rw [hatt] at hb ⊢
          have : (maxAttempts - 0) * dTx = dTx + (maxAttempts - (0 + 1)) * dTx := by decide
          omega
        · unfold LenInv; show (transmit _ _ _).1.bindTx.length = (transmit _ _ _).1.cfg.peers; rw [hbt, f1]; exact hL
  · -- the bindings timer
    subst hr
    simp only [fire, forPeers]
    have h1 := fold_maybeBind_samePerm t (List.range s.cfg.peers) { s with now := max s.now t, bindWake := some (t + s.cfg.bindP) }
    have h2 := (fold_maybeBind_len t (List.range s.cfg.peers) { s with now := max s.now t, bindWake := some (t + s.cfg.bindP) }).1
    exact frame _ (SamePerm.trans ⟨rfl, rfl, rfl, rfl, rfl⟩ h1) h2
  · -- one transmission of peer q's ChannelBind: it also re-arms q's permission
    subst hr
    have hxq : s.bindTx[q]? = some (some x) := getD_some hx
    have hq : q < s.cfg.peers := by rw [← hL]; exact lt_length_of_getElem? hxq
    have : fire { s with now := max s.now t } t (.bindTx q) = fireBindTx { s with now := max s.now t } q x := by
      show (match s.bindTx.getD q none with | some x => fireBindTx { s with now := max s.now t } q x | none => _) = _
      rw [hx]
    rw [this]
    have htd : x.due < e := by rw [hd]; exact hte
    have hnowq : s.now ≤ x.due := by
      obtain ⟨ce, _, _, h | h⟩ := hC q hq
      · obtain ⟨_, _, _, htx, _⟩ := h; rw [hxq] at htx; cases htx
      · obtain ⟨_, x', _, hx', hd', _⟩ := h; rw [hxq] at hx'; cases hx'; exact hd'
    have hmax : max s.now t = t := by omega
    obtain ⟨f1, f2, f3, f4, _⟩ := transmit_same_perm { s with now := max s.now t, bindTx := s.bindTx.set q none } (.cb q) x
    have hcases := transmit_perm_cases { s with now := max s.now t, bindTx := s.bindTx.set q none } (.cb q) x
    have hlen := fireBindTx_len { s with now := max s.now t } q x e he htd
    -- whatever the outcome, the permission-related fields of the result are those of the transmission
    have hres : (fireBindTx { s with now := max s.now t } q x).1.cfg = s.cfg ∧ (fireBindTx { s with now := max s.now t } q x).1.now = max s.now t ∧
        (fireBindTx { s with now := max s.now t } q x).1.permWake = s.permWake ∧ (fireBindTx { s with now := max s.now t } q x).1.permTx = s.permTx ∧
        (fireBindTx { s with now := max s.now t } q x).1.permExp =
          (transmit { s with now := max s.now t, bindTx := s.bindTx.set q none } (.cb q) x).1.permExp := by
      rcases fireBindTx_shape { s with now := max s.now t } q x e he htd with ⟨_, h⟩ | ⟨_, h⟩ | ⟨_, h⟩
      · rw [h]; exact ⟨f1, f2, f3, f4, rfl⟩
      · rw [h]; exact ⟨f1, f2, f3, f4, rfl⟩
      · rw [h]; split <;> exact ⟨f1, f2, f3, f4, rfl⟩
    obtain ⟨r1, r2, r3, r4, r5⟩ := hres
    refine ⟨⟨?_, ?_⟩, ?_⟩
    · unfold PermDrv; rw [r1, r2, r3, r4]; exact hPD0
    · intro p hp'
      have hp'' : p < s.cfg.peers := by rw [r1] at hp'; exact hp'
      obtain ⟨pe, hpe, hnow, g1, g2⟩ := hPO0 p hp''
      unfold PermOK
      rw [r2, r3, r4, r5]
      rcases hcases with hc1 | ⟨hk, _⟩ | ⟨q', hk, hc1⟩
      · rw [hc1]; exact ⟨pe, hpe, hnow, g1, g2⟩
      · cases hk
      · cases hk
        rw [hc1]
        by_cases hpq : q = p
        · subst hpq
          refine ⟨x.due + s.cfg.permT, getElem?_set_self' hpe, by show max s.now t < _; omega, ?_, ?_⟩
          · intro w hw2
            rcases hPD with ⟨w', hw', _, _, hb⟩ | ⟨_, hw', _⟩
            · rw [hw2] at hw'; cases hw'; omega
            · rw [hw2] at hw'; cases hw'
          · intro y hy
            rcases hPD with ⟨_, _, htx, _⟩ | ⟨y', _, hy', hs, _⟩
            · rw [hy] at htx; cases htx
            · rw [hy] at hy'; cases hy'
              have : (maxAttempts - y.attempt) * dTx ≤ dH := by rw [hdH]; exact Nat.mul_le_mul_right _ (Nat.sub_le _ _)
              omega
        · exact ⟨pe, by rw [getElem?_set_ne' hpq]; exact hpe, hnow, g1, g2⟩
    · unfold LenInv; rw [hlen, r1]; exact hL

/-! ### any run -/

/-- the handlers never move the clock -/
theorem fire_now (s : St) (t : Nat) (r : Root) (hA : AllocInv s) (hm : (t, r) ∈ roots s) (hle : ∀ x ∈ roots s, t ≤ x.1) :
    (fire { s with now := max s.now t } t r).1.now = max s.now t := by
  rcases roots_inv s t r hm with ⟨hr, hw⟩ | ⟨hr, x, hx, hd⟩ | ⟨hr, hw⟩ | ⟨hr, x, hx, hd⟩ | ⟨hr, hw⟩ | ⟨q, x, hr, hx, hd⟩ | ⟨_, x, hx, _⟩
  rotate_right
  · exfalso; have := hA.2.2.1; rw [hx] at this; cases this
  · subst hr; rfl
  · subst hr
    have : fire { s with now := max s.now t } t .allocTx = fireAllocTx { s with now := max s.now t } x := by simp [fire, hx]
    rw [this]; exact (fireAllocTx_sameBind _ x).2.1
  · subst hr; simp only [fire]; split <;> rfl
  · subst hr
    have : fire { s with now := max s.now t } t .permTx = firePermTx { s with now := max s.now t } x := by simp [fire, hx]
    rw [this]; exact (firePermTx_sameBind _ x).2.1
  · subst hr
    simp only [fire, forPeers]
    exact (forPeers_same t (List.range s.cfg.peers) _).2.2.2.2.1
  · subst hr
    have : fire { s with now := max s.now t } t (.bindTx q) = fireBindTx { s with now := max s.now t } q x := by
      show (match s.bindTx.getD q none with | some x => fireBindTx { s with now := max s.now t } q x | none => _) = _
      rw [hx]
    rw [this]
    obtain ⟨e', he', m', hm', hlt'⟩ := alloc_root_before_expiry hA
    have : x.due < e' := by rw [hd]; exact Nat.lt_of_le_of_lt (hle m' hm') hlt'
    exact (fireBindTx_other { s with now := max s.now t } (q + 1) q x e' (by omega) he' this).2.1

/-- allocation, bindings timer, every binding, permission driver and every permission are in their invariants -/
def FullInv (s : St) : Prop := DataInv s ∧ LenInv s ∧ PermAll s

theorem advanceTo_full_inv (c : Cfg) (hc : Compatible c) (hp : PatsOK c) (target : Nat) : ∀ (fuel : Nat) (s : St) (acc : List Out),
    s.cfg = c → s.now ≤ target → FullInv s →
    (advanceTo target fuel s acc).1.cfg = c ∧ FullInv (advanceTo target fuel s acc).1 := by
  intro fuel
  induction fuel with
  | zero =>
    intro s acc h1 _ h2
    obtain ⟨⟨hA, hW, hC⟩, hL, hPD, hPO⟩ := h2
    refine ⟨h1, ⟨allocInv_same ⟨rfl, rfl, rfl, rfl, rfl, rfl, rfl, rfl⟩ hA, wakeInv_same ⟨rfl, rfl, rfl, rfl, rfl, rfl⟩ hW,
      fun p hp' => chanInv_same ⟨rfl, rfl, rfl, rfl, rfl, rfl⟩ p (hC p hp')⟩, hL,
      permDrv_same ⟨rfl, rfl, rfl, rfl, rfl⟩ hPD, fun p hp' => permOK_same ⟨rfl, rfl, rfl, rfl, rfl⟩ p (hPO p hp')⟩
  | succ n ih =>
    intro s acc h1 hnt h2
    obtain ⟨hD, hL, hP⟩ := h2
    obtain ⟨e, he, m, hmem, hlt⟩ := alloc_root_before_expiry hD.1
    have hdata := advanceTo_data_inv c hc hp target (n + 1) s acc h1 hnt hD
    unfold advanceTo at hdata ⊢
    cases hE : earliest (roots s) with
    | none => rw [earliest_none _ hE] at hmem; cases hmem
    | some tr =>
      obtain ⟨t, r⟩ := tr
      rw [hE] at hdata
      simp only at hdata ⊢
      have hm := earliest_mem _ _ hE
      have hle := earliest_le _ _ hE
      by_cases htt : t ≤ target
      · simp only [htt, if_true] at hdata ⊢
        have hf := fire_data_inv s t r (h1 ▸ hc) (h1 ▸ hp) hD hm hle
        have hfp := fire_perm_inv s t r (h1 ▸ hc) (h1 ▸ hp) hD hL hP hm hle
        have hnow' : (fire { s with now := max s.now t } t r).1.now ≤ target := by
          rw [fire_now s t r hD.1 hm hle]; omega
        exact ih _ _ (hf.2.trans h1) hnow' ⟨hf.1, hfp.2, hfp.1⟩
      · simp only [htt, if_false] at hdata ⊢
        refine ⟨h1, hdata.2, hL, ?_⟩
        obtain ⟨hPD, hPO⟩ := hP
        have hlt' : target < t := by omega
        have hPD' : PermDrv { s with now := target } := by
          rcases hPD with ⟨w, hw, htx, g1, g2⟩ | ⟨x, hw, hx, g1, g2, g3⟩
          · have : t ≤ w := hle _ (perm_root_mem s w hw)
            exact Or.inl ⟨w, hw, htx, by show target ≤ w; omega, by show w ≤ target + s.cfg.permP; omega⟩
          · have : t ≤ x.due := hle _ (permTx_root_mem s x hx)
            exact Or.inr ⟨x, hw, hx, by show x.start ≤ target; omega, by show target ≤ x.due; omega, g3⟩
        refine ⟨hPD', ?_⟩
        intro p hp'
        obtain ⟨pe, hpe, _, g1, g2⟩ := hPO p hp'
        refine ⟨pe, hpe, ?_, g1, g2⟩
        show target < pe
        rcases hPD with ⟨w, hw, _, _, _⟩ | ⟨x, _, hx, _, _, k1, k2, k3, _⟩
        · have : t ≤ w := hle _ (perm_root_mem s w hw)
          have := g1 w hw
          omega
        · have : t ≤ x.due := hle _ (permTx_root_mem s x hx)
          have hb := g2 x hx
          have := off_le_dTx x.i (by omega)
          unfold maxAttempts at k3 hb
          have : dTx ≤ (3 - x.attempt) * dTx := Nat.le_mul_of_pos_left _ (by omega)
          unfold Txn.due at *
          omega

theorem init_full_inv (c : Cfg) (hc : Compatible c) : FullInv (init c) := by
  refine ⟨init_data_inv c hc, by simp [LenInv, init], ?_, ?_⟩
  · exact Or.inl ⟨c.permP, rfl, rfl, Nat.zero_le _, by show c.permP ≤ 0 + c.permP; omega⟩
  · intro p hp'
    obtain ⟨_, c2, _, _⟩ := hc
    have hp'' : p < c.peers := hp'
    refine ⟨c.permT, by show (List.replicate c.peers c.permT)[p]? = _; exact getElem?_replicate_lt _ _ _ hp'', by show 0 < c.permT; omega, ?_, ?_⟩
    · intro w hw; have : w = c.permP := (Option.some.inj hw).symm; rw [this]; exact c2
    · intro x hx; cases hx

theorem step_full_inv (c : Cfg) (hc : Compatible c) (hp : PatsOK c) (s : St) (op : Op) (hop : noClose op) (h1 : s.cfg = c) (h2 : FullInv s) :
    (step s op).1.cfg = c ∧ FullInv (step s op).1 := by
  cases op with
  | adv dt => exact advanceTo_full_inv c hc hp _ _ s [] h1 (Nat.le_add_right _ _) h2
  | wr p =>
    obtain ⟨hD, hL, hPD, hPO⟩ := h2
    have hd := step_data_inv c hc hp s (.wr p) hop h1 hD
    refine ⟨hd.1, hd.2, ?_, ?_⟩
    · simp only [step]; split <;> exact hL
    · simp only [step]
      split
      · exact ⟨permDrv_same ⟨rfl, rfl, rfl, rfl, rfl⟩ hPD, fun q hq => permOK_same ⟨rfl, rfl, rfl, rfl, rfl⟩ q (hPO q hq)⟩
      · exact ⟨hPD, hPO⟩
  | pw p =>
    obtain ⟨hD, hL, hPD, hPO⟩ := h2
    have hd := step_data_inv c hc hp s (.pw p) hop h1 hD
    refine ⟨hd.1, hd.2, ?_, ?_⟩
    · simp only [step]; split <;> exact hL
    · simp only [step]
      split
      · exact ⟨permDrv_same ⟨rfl, rfl, rfl, rfl, rfl⟩ hPD, fun q hq => permOK_same ⟨rfl, rfl, rfl, rfl, rfl⟩ q (hPO q hq)⟩
      · exact ⟨hPD, hPO⟩
  | close => exact absurd hop (by simp [noClose])
  | count => exact ⟨h1, h2⟩

theorem run_full_inv (c : Cfg) (hc : Compatible c) (hp : PatsOK c) : ∀ (ops : List Op) (s : St), (∀ op ∈ ops, noClose op) →
    s.cfg = c → FullInv s → (run s ops).1.cfg = c ∧ FullInv (run s ops).1 := by
  intro ops
  induction ops with
  | nil => intro s _ h1 h; exact ⟨h1, h⟩
  | cons op ops ih =>
    intro s hops h1 h2
    have hs := step_full_inv c hc hp s op (hops op (by simp)) h1 h2
    simp only [run]
    exact ih _ (fun o ho => hops o (by simp [ho])) hs.1 hs.2

/-- **every piece of server-side state survives, for any duration**: after ANY run (any time steps and probes,
    any admissible loss pattern, any number of peers, any Compatible configuration) the allocation, every
    channel binding and every permission are unexpired at the server -/
theorem nothing_expires (c : Cfg) (hc : Compatible c) (hp : PatsOK c) (ops : List Op) (hops : ∀ op ∈ ops, noClose op)
    (p : Nat) (hpp : p < c.peers) :
    allocLive (run (init c) ops).1 (run (init c) ops).1.now = true ∧
    chanLive (run (init c) ops).1 p (run (init c) ops).1.now = true ∧
    permLive (run (init c) ops).1 p (run (init c) ops).1.now = true := by
  obtain ⟨h1, ⟨⟨_, _, _, e, he, hnow, _⟩, _, hC⟩, _, _, hPO⟩ := run_full_inv c hc hp ops (init c) hops rfl (init_full_inv c hc)
  have hp' : p < (run (init c) ops).1.cfg.peers := by rw [h1]; exact hpp
  obtain ⟨ce, hce, hlt, _⟩ := hC p hp'
  obtain ⟨pe, hpe, hlt2, _⟩ := hPO p hp'
  refine ⟨by simp [allocLive, he, hnow], ?_, ?_⟩
  · unfold chanLive; rw [List.getD_eq_getElem?_getD, hce]; simp [hlt]
  · unfold permLive; rw [List.getD_eq_getElem?_getD, hpe]; simp [hlt2]

end Turn.C14
