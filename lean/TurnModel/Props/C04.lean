/-
C04 — allocations are isolated by 5-tuple.
`Key` = (listener, client address): the listener fixes server address and transport.
-/
import TurnModel.Lemmas.ServerInv
import TurnModel.Lemmas.ServerUniq
namespace Turn.C04
open Turn.Srv

/-- in every reachable state there is at most one allocation per 5-tuple -/
theorem unique_key {c : Cfg} {s : State} (hr : Reach c s) : (s.allocs.map (·.key)).Nodup := (unique_reach hr).1

/-- …and at most one allocation per relayed address -/
theorem unique_relay {c : Cfg} {s : State} (hr : Reach c s) : (s.allocs.map (fun a => (a.relay, a.tcp))).Nodup :=
  (unique_reach hr).2

/-- a request is any client message except ConnectionBind (which by design of RFC 6062 arrives on a new
    connection and names a connection id; see `connbind_frame`) -/
def ownOp : Msg → Bool
  | .connBind .. => false
  | _ => true

theorem find_filter {α} (p q : α → Bool) (l : List α) (h : ∀ x ∈ l, p x = true → q x = true) :
    (l.filter q).find? p = l.find? p := by
  induction l with
  | nil => rfl
  | cons x xs ih =>
    have ih' := ih (fun y hy => h y (List.mem_cons_of_mem _ hy))
    simp only [List.filter_cons]
    by_cases hq : q x = true
    · simp only [hq, if_true, List.find?_cons]
      split <;> simp [ih']
    · have hp : p x = false := by
        cases hpx : p x
        · rfl
        · exact absurd (h x List.mem_cons_self hpx) hq
      simp [hq, hp, ih']

theorem findAlloc_applyUpd_other (s : State) (k k2 : Key) (u : Upd) (hne : k2 ≠ k) :
    findAlloc (applyUpd s k u).1 k2 = findAlloc s k2 := by
  have hfilt : (s.allocs.filter (fun b => !(b.key == k))).find? (fun a => a.key == k2) = s.allocs.find? (fun a => a.key == k2) := by
    apply find_filter
    intro x _ hx
    have : x.key = k2 := by simpa using hx
    simp [this, hne]
  cases u with
  | keep => rfl
  | del => simp only [applyUpd, findAlloc, delAlloc]; exact hfilt
  | set a =>
    simp only [applyUpd, findAlloc, setAlloc, List.find?_cons]
    have : ((k == k2) = false) := by simpa using (fun h => hne h.symm)
    simp only [this]
    exact hfilt

/-- **frame**: a request arriving on 5-tuple `k` leaves the allocation of every other 5-tuple exactly as
    it was (same lifetime, permissions, channels, connections — the very same value) -/
theorem frame (c : Cfg) (s : State) (k k2 : Key) (sz : Nat) (m : Msg) (hm : ownOp m = true) (hne : k2 ≠ k) :
    findAlloc (step c s (.msg k sz m)).1 k2 = findAlloc s k2 := by
  simp only [step]
  split; · rfl
  split; · rfl
  split
  · simp [ownOp] at hm
  · simp only [findAlloc] at *
    exact findAlloc_applyUpd_other s k k2 _ hne

/-- over any history made only of requests from other 5-tuples, `k2`'s allocation is untouched:
    no sequence of messages from other clients can create, refresh, delete or alter it -/
theorem others_cannot_touch (c : Cfg) (k2 : Key) : ∀ (ops : List Op) (s : State),
    (∀ op ∈ ops, ∃ k sz m, op = .msg k sz m ∧ k ≠ k2 ∧ ownOp m = true) →
    findAlloc (run c s ops).1 k2 = findAlloc s k2 := by
  intro ops
  induction ops with
  | nil => intro s _; rfl
  | cons op ops ih =>
    intro s h
    simp only [run]
    obtain ⟨k, sz, m, rfl, hk, hm⟩ := h op List.mem_cons_self
    rw [ih _ (fun o ho => h o (List.mem_cons_of_mem _ ho))]
    exact frame c s k k2 sz m hm (Ne.symm hk)

def addressee : Out → Option Key
  | .resp k .. => some k
  | .dataInd k .. => some k
  | .chanData k .. => some k
  | .connAttempt k .. => some k
  | .pipeToClient k _ => some k
  | .dataClosed k => some k
  | _ => none

theorem authFail_addr (k m tid r) : ∀ o ∈ authFail k m tid r, addressee o = some k := by
  intro o ho
  cases r <;> simp [authFail, errResp] at ho <;> subst ho <;> rfl

/-- every message the server sends to a client in answer to a request goes to the 5-tuple the request
    arrived on (success, every error path, challenges) -/
theorem replies_to_sender (c : Cfg) (s : State) (k : Key) (m : Msg) :
    ∀ o ∈ (handle c s k m).outs, ∀ k', addressee o = some k' → k' = k := by
  intro o ho k' hk'
  have key : addressee o = some k ∨ addressee o = none := by
    cases m with
    | allocate tid cr lt tr df tok even fam env =>
      simp only [handle, hAllocate] at ho
      split at ho
      · split at ho
        · split at ho <;> simp [okResp, errResp] at ho <;> subst ho <;> exact Or.inl rfl
        · split at ho
          · simp [errResp] at ho; subst ho; exact Or.inl rfl
          · split at ho
            · simp [errResp] at ho; subst ho; exact Or.inl rfl
            · split at ho <;> simp [okResp, errResp] at ho <;> subst ho <;> exact Or.inl rfl
      · exact Or.inl (authFail_addr _ _ _ _ o ho)
    | refresh tid cr lt fam =>
      simp only [handle, hRefresh] at ho
      split at ho
      · split at ho
        · simp at ho
        · split at ho
          · simp [errResp] at ho; subst ho; exact Or.inl rfl
          · split at ho <;> simp [okResp] at ho <;> subst ho <;> exact Or.inl rfl
      · exact Or.inl (authFail_addr _ _ _ _ o ho)
    | createPerm tid cr peers =>
      simp only [handle, hCreatePerm] at ho
      split at ho
      · split at ho
        · simp at ho
        · split at ho
          · simp [errResp] at ho; subst ho; exact Or.inl rfl
          · split at ho <;> simp [okResp, errResp] at ho <;> subst ho <;> exact Or.inl rfl
      · exact Or.inl (authFail_addr _ _ _ _ o ho)
    | chanBind tid cr num peer =>
      simp only [handle, hChanBind] at ho
      split at ho
      · split at ho
        · simp at ho
        · split at ho <;> simp [okResp, errResp] at ho <;> subst ho <;> exact Or.inl rfl
      · exact Or.inl (authFail_addr _ _ _ _ o ho)
    | send data peer =>
      simp only [handle, hSend] at ho
      split at ho; · simp at ho
      split at ho
      · split at ho
        · simp at ho; subst ho; exact Or.inr rfl
        · simp at ho
      · simp at ho
    | chanData raw =>
      simp only [handle, hChanData] at ho
      split at ho; · simp at ho
      split at ho; · simp at ho
      split at ho; · simp at ho
      split at ho
      · simp at ho
      · simp at ho; subst ho; exact Or.inr rfl
    | binding tid => simp [handle, okResp] at ho; subst ho; exact Or.inl rfl
    | connect tid cr peer dialOK cid =>
      simp only [handle, hConnect] at ho
      split at ho
      · split at ho
        · simp at ho
        · split at ho
          · simp at ho
          · simp [errResp] at ho; subst ho; exact Or.inl rfl
          · simp [okResp] at ho
            rcases ho with rfl | rfl
            · exact Or.inr rfl
            · exact Or.inl rfl
      · exact Or.inl (authFail_addr _ _ _ _ o ho)
    | connBind => simp [handle] at ho
    | unknownAttr m tid => simp [handle, errResp] at ho; subst ho; exact Or.inl rfl
    | junk => simp [handle] at ho
  rcases key with h | h
  · rw [h] at hk'; cases hk'; rfl
  · rw [h] at hk'; cases hk'

/-- ConnectionBind is the one request that acts on another 5-tuple's allocation: it can only mark a
    peer connection of an allocation *of the same authenticated user* as bound to this data
    connection; every other allocation is untouched. -/
theorem connbind_frame (c : Cfg) (s : State) (k : Key) (sz tid : Nat) (cr : Cred) (cid : Attr Nat) (a' : Alloc)
    (h : a' ∈ (step c s (.msg k sz (.connBind tid cr cid))).1.allocs) :
    a' ∈ s.allocs ∨ ∃ b id u, b ∈ s.allocs ∧ authenticate c cr = .ok u ∧ b.user = u ∧ a' = markBound b id k := by
  simp only [step] at h
  split at h; · exact Or.inl h
  split at h; · exact Or.inl h
  split at h
  · rename_i outs a hcb
    rcases mem_replaceAlloc h with h | ⟨rfl, _⟩
    · exact Or.inl h
    · right
      unfold hConnBind at hcb
      split at hcb
      · rename_i u hu
        split at hcb
        · split at hcb; · cases hcb
          split at hcb
          · cases hcb
          · rename_i b ho
            split at hcb; · cases hcb
            rename_i hbu
            split at hcb; · cases hcb
            cases hcb
            exact ⟨b, _, u, connOwner_mem ho, hu, by simpa using hbu, rfl⟩
        · cases hcb
      · cases hcb
  · exact Or.inl h

/-- closing a stream control connection deletes only the allocation of its own 5-tuple -/
theorem control_close_local (c : Cfg) (s : State) (k k2 : Key) (hne : k2 ≠ k) :
    findAlloc (step c s (.ctrlClose k)).1 k2 = findAlloc s k2 := by
  simp only [step]
  split
  · exact findAlloc_applyUpd_other s k k2 .del hne
  · rfl

/-! non-vacuity: two clients sharing IP, user, channel number and transaction id keep separate state -/
def cfg0 : Cfg :=
  { permT := 300 * sec, chanT := 600 * sec, lifeT := 600 * sec, maxLife := 3600 * sec, rtpMTU := 1600
    inMTU := 1600, bindT := 30 * sec, resvT := 30 * sec, strict := false, hasAuth := true, hasQuota := false
    relay4 := ⟨false, 1⟩, relay6 := ⟨true, 1⟩, lis := [⟨false, 1, false, [], []⟩] }
def okCred : Cred := ⟨true, true, true, true, true, true, true, "alice"⟩
def kA : Key := ⟨0, ⟨⟨false, 7⟩, 4000⟩⟩
def kB : Key := ⟨0, ⟨⟨false, 7⟩, 4001⟩⟩
def hist0 : List Op := [
  .msg kA 100 (.allocate 1 okCred .absent (.val 17) false .absent .absent .absent ⟨some 50001, true, none, ""⟩),
  .msg kB 100 (.allocate 1 okCred .absent (.val 17) false .absent .absent .absent ⟨some 50002, true, none, ""⟩),
  .msg kA 100 (.chanBind 2 okCred (.val 0x4000) (.val ⟨⟨false, 9⟩, 9000⟩)),
  .msg kB 100 (.refresh 3 okCred (.val 0) .absent)]
set_option maxRecDepth 8000 in
example : ((run cfg0 init hist0).1.allocs.map (fun a => (a.key, a.chans.length))) = [(kA, 1)] := by decide

end Turn.C04
