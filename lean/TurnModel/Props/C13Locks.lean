/-
C13 (atomicity of the modelled steps): M6 treats "check the permission state, run the CreatePermission
transaction, record the outcome" and "start a binding transaction if eligible" as atomic steps.  That is
justified by the per-permission mutex and the per-binding mutex being taken unconditionally on entry and
held until return.  Regenerated from today's source (Gen/Locks.lean) and re-checked on every run.
-/
import TurnModel.Lemmas.SkelSound
import TurnModel.Gen.Locks
namespace Turn.C13
open Skel

/-- the function's first action is to take a mutex (blocking `Lock`, not `TryLock`) and its release is deferred -/
def entryLocked : Stmt → Bool
  | .seq (.acq l) (.seq (.deferRel l') _) => l == l'
  | _ => false

def skeletonOf (name : String) : Option Stmt := (Gen.Locks.all.find? (fun p => p.1 == name)).map (·.2)

/-- `allocation.createPermission` serialises callers for the same permission: a second writer waits for the
    first writer's CreatePermission to finish instead of going ahead without a permission -/
theorem createPermission_serialised : (skeletonOf "client.allocation.createPermission").map entryLocked = some true := by decide

/-- `UDPConn.maybeBind` serialises callers for the same binding -/
theorem maybeBind_serialised : (skeletonOf "client.UDPConn.maybeBind").map entryLocked = some true := by decide

/-- …and both are accepted by the verified checker (every path releases what it took) -/
theorem step_functions_balanced :
    (skeletonOf "client.allocation.createPermission").map balanced = some true ∧
    (skeletonOf "client.UDPConn.maybeBind").map balanced = some true := by decide

end Turn.C13
