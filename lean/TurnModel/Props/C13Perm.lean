/-
C13 — concurrent writers and the client's permission map.  `Props/C13.lean` proves on the sequential model M6 that data follows a
granted permission.  In the code several WriteTo calls to one peer are goroutines that meet at the permission entry's mutex and at
the map's mutex; a writer whose CreatePermission fails removes the entry, a writer whose request is granted (re-)inserts its own.
This file proves over ALL interleavings of their atomic blocks that a granted permission is never left without a map entry — the
periodic refresh names the peers of the map's entries — provided a writer that gives up removes the entry only if it still is ITS
object and that object has not been granted meanwhile (`deleteIf`, later `deleteIfIdle`); the proviso is tied to today's source by the regenerated fact `Gen.Facts.clientPerm_delete_conditional`.
-/
import TurnModel.Gen.Facts
namespace Turn.C13Perm

inductive Obj | A | B
deriving DecidableEq, Repr

inductive Act
  | giveUp (o : Obj)     -- a writer holding object `o`: its request failed (403, or 438 three times); forget the entry
  | find                 -- the third writer: look the peer up, make a fresh object `B` if there is no entry (one critical section)
  | grant                -- the third writer's CreatePermission succeeded: mark its object permitted, (re-)insert it
deriving DecidableEq, Repr

structure St where
  entry : Option Obj := some .A      -- the object stored for the peer
  permA : Bool := false
  permB : Bool := false
  held : Option Obj := none          -- the object the third writer works with
deriving DecidableEq, Repr

def St.perm (s : St) : Obj → Bool
  | .A => s.permA
  | .B => s.permB

def act (conditional : Bool) (s : St) : Act → St
  | .giveUp o =>
    if s.perm o then s                                  -- a permitted object sends no request: nothing to give up
    else if conditional then (if s.entry = some o then { s with entry := none } else s)
    else { s with entry := none }
  | .find =>
    match s.entry with
    | some o => { s with held := some o }
    | none => { s with entry := some .B, held := some .B }
  | .grant =>
    match s.held with
    | some .A => { s with permA := true, entry := some .A }
    | some .B => { s with permB := true, entry := some .B }
    | none => s

/-- somebody was granted the peer, yet the map has no entry for it: the refresh will never name the peer again -/
def forgotten (s : St) : Bool := (s.permA || s.permB) && s.entry.isNone

/-- two writers share object `A` and both give up, one after the other -/
def losers : List (List Act) := [[.giveUp .A], [.giveUp .A]]
/-- the third writer: lookup-or-create, then (after the server's answer) the grant -/
def winner : List (List Act) := [[.find], [.grant]]

def interleavingsF : Nat → List (List Act) → List (List Act) → List (List Act)
  | 0, as, bs => [as.flatten ++ bs.flatten]
  | _ + 1, [], bs => [bs.flatten]
  | _ + 1, as, [] => [as.flatten]
  | n + 1, a :: as, b :: bs =>
    (interleavingsF n as (b :: bs)).map (a ++ ·) ++ (interleavingsF n (a :: as) bs).map (b ++ ·)

def interleavings (as bs : List (List Act)) : List (List Act) := interleavingsF (as.length + bs.length) as bs

def run (conditional : Bool) (il : List Act) : St := il.foldl (act conditional) {}

/-- general one-step form (any state, any object): with the conditional delete a give-up never empties an entry that holds
    ANOTHER object, and never touches an entry whose own object is permitted -/
theorem giveUp_keeps_foreign_entry (s : St) (o o' : Obj) (h : s.entry = some o') (hne : o' ≠ o) :
    (act true s (.giveUp o)).entry = some o' := by
  simp only [act]
  split
  · exact h
  · simp [h, hne]

/-- invariant of the repaired map: while exactly one object is permitted the entry is that object; while any is, there is one -/
def inv (s : St) : Bool :=
  ((s.permA || s.permB) → s.entry.isSome) && ((s.permB && !s.permA) → s.entry == some .B) && ((s.permA && !s.permB) → s.entry == some .A)

theorem inv_step (s : St) (a : Act) (h : inv s = true) : inv (act true s a) = true := by
  obtain ⟨entry, pa, pb, held⟩ := s
  cases a with
  | giveUp o => cases o <;> cases pa <;> cases pb <;> (rcases entry with _ | _ | _) <;> simp_all [inv, act, St.perm]
  | find => cases pa <;> cases pb <;> (rcases entry with _ | _ | _) <;> simp_all [inv, act]
  | grant => (rcases held with _ | _ | _) <;> cases pa <;> cases pb <;> (rcases entry with _ | _ | _) <;> simp_all [inv, act]

/-- **unbounded form**: after ANY sequence of give-ups (on either object, any number of writers), lookups and grants — not only
    the schedules enumerated below — a granted permission still has its map entry -/
theorem never_forgotten_any_schedule (il : List Act) : forgotten (il.foldl (act true) {}) = false := by
  have hinv : ∀ (il : List Act) (s : St), inv s = true → inv (il.foldl (act true) s) = true := by
    intro il
    induction il with
    | nil => intro s h; simpa using h
    | cons a il ih => intro s h; exact ih _ (inv_step s a h)
  have h := hinv il {} (by decide)
  generalize il.foldl (act true) {} = s at h
  obtain ⟨entry, pa, pb, held⟩ := s
  cases pa <;> cases pb <;> (rcases entry with _ | _ | _) <;> simp_all [inv, forgotten]

theorem never_forgotten_model : (interleavings losers winner).all (fun il => !forgotten (run true il)) = true := by decide

/-- the historical map (`delete(addr)`, whoever owns the entry) does lose a granted permission: finding F19d -/
theorem unconditional_delete_forgets : (interleavings losers winner).any (fun il => forgotten (run false il)) = true := by decide

/-- regenerated obligation: in today's source a writer that gives up removes the entry through `deleteIf(addr, perm)` / `deleteIfIdle(addr, perm)` only -/
theorem delete_is_conditional : Gen.Facts.clientPerm_delete_conditional = true := by decide

theorem never_forgotten :
    (interleavings losers winner).all (fun il => !forgotten (run Gen.Facts.clientPerm_delete_conditional il)) = true := by
  rw [delete_is_conditional]; exact never_forgotten_model

/-! non-vacuity: the third writer is granted in every schedule, on `A` in some and on a fresh `B` in others -/
example : (interleavings losers winner).all (fun il => (run true il).permA || (run true il).permB) = true := by decide
example : (interleavings losers winner).any (fun il => (run true il).permB) = true := by decide
example : (interleavings losers winner).any (fun il => (run true il).permA) = true := by decide

end Turn.C13Perm
