namespace Skel

abbrev LockId := Nat

inductive Stmt
  | skip
  | acq (l : LockId)
  | rel (l : LockId)
  | deferRel (l : LockId)
  | call (f : Nat)
  | need (l : LockId)          -- the code at this point requires l to be held / guard l to have been passed
  | ret | brk | cont
  | seq (a b : Stmt)
  | alt (a b : Stmt)
  | loop (body : Stmt)
deriving DecidableEq, Repr

inductive Outcome | norm | ret | brk | cont
deriving DecidableEq, Repr

/-- state: held locks (a list used as multiset), deferred releases (LIFO) -/
structure St where
  held : List LockId
  defers : List LockId
deriving DecidableEq, Repr

/-- big-step path semantics; `none` result = fault (release of a lock not held) is modelled by `Fault` -/
inductive Exec : Stmt → St → Outcome → St → Prop
  | skip (σ) : Exec .skip σ .norm σ
  | acq (l σ) : Exec (.acq l) σ .norm { σ with held := l :: σ.held }
  | rel (l σ) (h : l ∈ σ.held) : Exec (.rel l) σ .norm { σ with held := σ.held.erase l }
  | deferRel (l σ) : Exec (.deferRel l) σ .norm { σ with defers := l :: σ.defers }
  | call (f σ) : Exec (.call f) σ .norm σ
  | need (l σ) (h : l ∈ σ.held) : Exec (.need l) σ .norm σ
  | ret (σ) : Exec .ret σ .ret σ
  | brk (σ) : Exec .brk σ .brk σ
  | cont (σ) : Exec .cont σ .cont σ
  | seqNorm {a b σ σ' o σ''} : Exec a σ .norm σ' → Exec b σ' o σ'' → Exec (.seq a b) σ o σ''
  | seqStop {a b σ o σ'} : Exec a σ o σ' → o ≠ .norm → Exec (.seq a b) σ o σ'
  | altL {a b σ o σ'} : Exec a σ o σ' → Exec (.alt a b) σ o σ'
  | altR {a b σ o σ'} : Exec b σ o σ' → Exec (.alt a b) σ o σ'
  | loopExit {b σ} : Exec (.loop b) σ .norm σ
  | loopIter {b σ σ' o o' σ''} : Exec b σ o σ' → (o = .norm ∨ o = .cont) → Exec (.loop b) σ' o' σ'' → Exec (.loop b) σ o' σ''
  | loopBrk {b σ σ'} : Exec b σ .brk σ' → Exec (.loop b) σ .norm σ'
  | loopRet {b σ σ'} : Exec b σ .ret σ' → Exec (.loop b) σ .ret σ'

/-- a release of an unheld lock is a fault: reachable if some path gets stuck there -/
inductive Fault : Stmt → St → Prop
  | rel (l σ) (h : l ∉ σ.held) : Fault (.rel l) σ
  | need (l σ) (h : l ∉ σ.held) : Fault (.need l) σ
  | seqL {a b σ} : Fault a σ → Fault (.seq a b) σ
  | seqR {a b σ σ'} : Exec a σ .norm σ' → Fault b σ' → Fault (.seq a b) σ
  | altL {a b σ} : Fault a σ → Fault (.alt a b) σ
  | altR {a b σ} : Fault b σ → Fault (.alt a b) σ
  | loopNow {b σ} : Fault b σ → Fault (.loop b) σ
  | loopLater {b σ σ' o} : Exec b σ o σ' → (o = .norm ∨ o = .cont) → Fault (.loop b) σ' → Fault (.loop b) σ

/-- canonical form of held multiset: sorted -/
def ins (l : LockId) : List LockId → List LockId
  | [] => [l]
  | x :: xs => if l ≤ x then l :: x :: xs else x :: ins l xs

/-- abstract interpreter: all possible (outcome, state) results, or none = reject -/
def chk : Stmt → St → Option (List (Outcome × St))
  | .skip, σ => some [(.norm, σ)]
  | .acq l, σ => some [(.norm, { σ with held := l :: σ.held })]
  | .rel l, σ => if l ∈ σ.held then some [(.norm, { σ with held := σ.held.erase l })] else none
  | .deferRel l, σ => some [(.norm, { σ with defers := l :: σ.defers })]
  | .call _, σ => some [(.norm, σ)]
  | .need l, σ => if l ∈ σ.held then some [(.norm, σ)] else none
  | .ret, σ => some [(.ret, σ)]
  | .brk, σ => some [(.brk, σ)]
  | .cont, σ => some [(.cont, σ)]
  | .seq a b, σ => do
      let ra ← chk a σ
      let parts ← ra.mapM (fun (o, σ') => if o = .norm then chk b σ' else some [(o, σ')])
      pure parts.flatten
  | .alt a b, σ => do
      let ra ← chk a σ
      let rb ← chk b σ
      pure (ra ++ rb)
  | .loop b, σ => do
      let rb ← chk b σ
      -- loop invariant: every back edge returns to exactly the entry state
      if rb.all (fun (o, σ') => (o = .norm ∨ o = .cont) → σ' = σ) then
        pure ((.norm, σ) :: rb.filterMap (fun (o, σ') =>
          if o = .brk then some (.norm, σ') else if o = .ret then some (.ret, σ') else none))
      else none

end Skel
