/-
The client's reading of the ConnectionBind reply on a fresh data connection
(internal/client/tcp_alloc.go, TCPAllocation.BindConnection): read exactly the 20-byte STUN header, then
exactly the body it announces; everything after belongs to the application.
The connection is a list of chunks, one per successful Read when the caller's buffer is large enough.
-/
import TurnModel.Model.Wire
namespace Turn.BindConn
open Turn

/-- `io.ReadFull`: take exactly `n` bytes across reads; `none` when the stream ends first.
    Returns the bytes and the rest of the connection. -/
def readFull : List Bytes → Nat → Option (Bytes × List Bytes)
  | [], n => if n = 0 then some ([], []) else none
  | c :: cs, n =>
    if n = 0 then some ([], c :: cs)
    else if c.length = 0 then readFull cs n
    else if n ≤ c.length then some (c.take n, c.drop n :: cs)
    else match readFull cs (n - c.length) with
      | some (b, rest) => some (c ++ b, rest)
      | none => none

def cookie : Bytes := [0x21, 0x12, 0xA4, 0x42]

/-- `stun.IsMessage` on the 20 header bytes -/
def isStunHeader (h : Bytes) : Bool := h.length ≥ 20 && (h.drop 4).take 4 == cookie

inductive Res
  | short                       -- the stream ended inside the reply
  | invalid                     -- the first 20 bytes are not a STUN header
  | msg (raw : Bytes)           -- the complete reply (handed to the STUN decoder)
  deriving Repr, DecidableEq

def bodyLen (b : Bytes) : Nat := (b.getD 2 0).toNat * 256 + (b.getD 3 0).toNat

/-- header, then body; returns what is left on the connection for the application -/
def readReply (cs : List Bytes) : Res × List Bytes :=
  match readFull cs 20 with
  | none => (.short, [])
  | some (h, rest) =>
    if !isStunHeader h then (.invalid, rest)
    else match readFull rest (bodyLen h) with
      | none => (.short, [])
      | some (b, rest') => (.msg (h ++ b), rest')

end Turn.BindConn
