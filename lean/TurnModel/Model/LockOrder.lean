/-
Lock order: which mutex is taken while which other mutex is held, over all control-flow paths of the lock
skeletons (Model/Skel.lean), including the mutexes a statically resolved callee may take.  A cycle in this
graph (in particular taking a mutex that is already held) is a potential lock-up.
-/
import TurnModel.Model.Skel
namespace Skel

def lookupD {β} (tbl : List (Nat × β)) (k : Nat) (d : β) : β := ((tbl.find? (fun p => p.1 == k)).map (·.2)).getD d

/-- like `chk`, additionally collecting the pairs (mutex held, mutex taken) met on the way.
    `mo` maps a lock id to its mutex, `acq` a function id to the mutexes a call to it may take. -/
def edges (mo : List (Nat × Nat)) (acq : List (Nat × List Nat)) : Stmt → St → Option (List (Outcome × St) × List (Nat × Nat))
  | .skip, σ => some ([(.norm, σ)], [])
  | .acq l, σ => some ([(.norm, { σ with held := l :: σ.held })], σ.held.map (fun h => (lookupD mo h h, lookupD mo l l)))
  | .rel l, σ => if l ∈ σ.held then some ([(.norm, { σ with held := σ.held.erase l })], []) else none
  | .deferRel l, σ => some ([(.norm, { σ with defers := l :: σ.defers })], [])
  | .call f, σ => some ([(.norm, σ)], σ.held.flatMap (fun h => (lookupD acq f []).map (fun m => (lookupD mo h h, m))))
  | .need l, σ => if l ∈ σ.held then some ([(.norm, σ)], []) else none
  | .ret, σ => some ([(.ret, σ)], [])
  | .brk, σ => some ([(.brk, σ)], [])
  | .cont, σ => some ([(.cont, σ)], [])
  | .seq a b, σ =>
    match edges mo acq a σ with
    | none => none
    | some (ra, ea) =>
      match ra.mapM (fun (p : Outcome × St) => if p.1 = Outcome.norm then edges mo acq b p.2 else some ([(p.1, p.2)], ([] : List (Nat × Nat)))) with
      | none => none
      | some parts => some ((parts.map (fun q => q.1)).flatten, ea ++ (parts.map (fun q => q.2)).flatten)
  | .alt a b, σ =>
    match edges mo acq a σ, edges mo acq b σ with
    | some (ra, ea), some (rb, eb) => some (ra ++ rb, ea ++ eb)
    | _, _ => none
  | .loop b, σ =>
    match edges mo acq b σ with
    | none => none
    | some (rb, eb) =>
      if rb.all (fun (p : Outcome × St) => decide ((p.1 = Outcome.norm ∨ p.1 = Outcome.cont) → p.2 = σ)) then
        some ((.norm, σ) :: rb.filterMap (fun (p : Outcome × St) =>
          if p.1 = Outcome.brk then some (Outcome.norm, p.2) else if p.1 = Outcome.ret then some (Outcome.ret, p.2) else none), eb)
      else none

/-- all lock-order pairs of a set of skeletons -/
def allEdges (mo : List (Nat × Nat)) (acq : List (Nat × List Nat)) (fs : List (String × Stmt)) : List (Nat × Nat) :=
  (fs.flatMap fun p => match edges mo acq p.2 ⟨[], []⟩ with | some r => r.2 | none => []).eraseDups

/-- one round of transitive closure -/
def closeOnce (es : List (Nat × Nat)) : List (Nat × Nat) :=
  (es ++ es.flatMap (fun ab => (es.filter (fun bc => bc.1 == ab.2)).map (fun bc => (ab.1, bc.2)))).eraseDups

def closure : Nat → List (Nat × Nat) → List (Nat × Nat)
  | 0, es => es
  | n + 1, es => closure n (closeOnce es)

/-- no mutex is (transitively) ordered before itself -/
def acyclic (n : Nat) (es : List (Nat × Nat)) : Bool := (closure n es).all (fun ab => ab.1 != ab.2)

end Skel
