/-
M2 — the stream packetiser: `consumeSingleTURNFrame` and `STUNConn.ReadFrom`
(internal/proto/stun_conn.go) over a scripted connection = list of chunks that successive
`Read` calls return.  Core Lean only.
-/
import TurnModel.Model.Wire
namespace Turn

inductive FrameRes | ok (n : Nat) | incomplete | invalid
deriving DecidableEq, Repr

/-- `consumeSingleTURNFrame`: classify from the first 4 bytes; sizes computed in `int`. -/
def consume (b : Bytes) : FrameRes :=
  match b with
  | b0 :: b1 :: b2 :: b3 :: rest =>
    let l := be16 b2 b3
    if chanValid (be16 b0 b1) then
      if b.length < 4 + nearestPadded l then .incomplete else .ok (4 + nearestPadded l)
    else if b.length < 20 then .incomplete
    else if rest.take 4 = cookie then
      if b.length < 20 + l then .incomplete else .ok (20 + l)
    else .invalid
  | _ => .incomplete

structure Conn where
  buff : Bytes
  chunks : List Bytes

inductive ReadRes | frame (f : Bytes) | invalid | eof
deriving DecidableEq, Repr

/-- `STUNConn.ReadFrom`: serve from the buffer if it holds a whole frame; fail on garbage; otherwise
    `Read` the next chunk, append, retry.  An exhausted chunk list is the connection's EOF. -/
def readFrom : List Bytes → Bytes → ReadRes × Conn
  | [], buff =>
    match consume buff with
    | .ok n => (.frame (buff.take n), ⟨buff.drop n, []⟩)
    | .invalid => (.invalid, ⟨buff, []⟩)
    | .incomplete => (.eof, ⟨buff, []⟩)
  | ch :: rest, buff =>
    match consume buff with
    | .ok n => (.frame (buff.take n), ⟨buff.drop n, ch :: rest⟩)
    | .invalid => (.invalid, ⟨buff, ch :: rest⟩)
    | .incomplete => readFrom rest (buff ++ ch)

/-- call `readFrom` up to `k` times, stopping at the first non-frame result -/
def readN : Nat → List Bytes → Bytes → List Bytes × ReadRes × Conn
  | 0, chunks, buff => ([], .eof, ⟨buff, chunks⟩)
  | k+1, chunks, buff =>
    match readFrom chunks buff with
    | (.frame f, c) => let (fs, r, c') := readN k c.chunks c.buff; (f :: fs, r, c')
    | (r, c) => ([], r, c)

/-- the server's read loop on a stream (server.go `readLoop` over a STUNConn): keep reading until the
    connection reports an error; returns the frames handed to the request handler and the reason
    the loop ended.  `fuel` bounds the number of iterations; `readAll_fuel_enough` (C09) proves that
    `bytes + 1` iterations always suffice, i.e. the loop cannot spin. -/
def readAll : Nat → List Bytes → Bytes → List Bytes × Option ReadRes
  | 0, _, _ => ([], none)
  | k+1, chunks, buff =>
    match readFrom chunks buff with
    | (.frame f, c) => let (fs, r) := readAll k c.chunks c.buff; (f :: fs, r)
    | (r, _) => ([], some r)

end Turn
