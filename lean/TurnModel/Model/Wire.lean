/-
M1 — wire codecs of pion/turn (internal/proto/*.go) as total functions on byte lists.
Core Lean only (no Mathlib): this file is linked into the compiled driver.
-/
namespace Turn

abbrev Bytes := List UInt8

deriving instance DecidableEq for Except

def be16 (hi lo : UInt8) : Nat := hi.toNat * 256 + lo.toNat
def hi8 (n : Nat) : UInt8 := UInt8.ofNat (n / 256)
def lo8 (n : Nat) : UInt8 := UInt8.ofNat (n % 256)

/-- big-endian 4 bytes of `n % 2^32` (Go: `binary.BigEndian.PutUint32`) -/
def enc32 (n : Nat) : Bytes :=
  [UInt8.ofNat (n / 16777216), UInt8.ofNat (n / 65536), UInt8.ofNat (n / 256), UInt8.ofNat n]
def be32 (a b c d : UInt8) : Nat := ((a.toNat * 256 + b.toNat) * 256 + c.toNat) * 256 + d.toNat

/-- `nearestPaddedValueLength` (chandata.go) -/
def nearestPadded (l : Nat) : Nat :=
  let n := 4 * (l / 4)
  if n < l then n + 4 else n

def padLen (l : Nat) : Nat := nearestPadded l - l

/-- `isChannelNumberValid` (chann.go); the two bounds are re-read from the source by xlate (Gen.Consts). -/
def chanValid (n : Nat) : Bool := 0x4000 ≤ n && n ≤ 0x7FFF

/-- `ChannelData.Encode`: header, data, zero padding up to a multiple of 4.
    The length field is `uint16(len(Data))`, i.e. the length modulo 65536. -/
def encodeCD (num : Nat) (d : Bytes) : Bytes :=
  [hi8 num, lo8 num, hi8 (d.length % 65536), lo8 (d.length % 65536)] ++ d
    ++ List.replicate (padLen (4 + d.length)) 0

inductive DecErr | eof | badNumber | badLength
deriving DecidableEq, Repr

/-- `ChannelData.Decode` -/
def decodeCD : Bytes → Except DecErr (Nat × Bytes)
  | a :: b :: c :: d :: rest =>
    let num := be16 a b
    let l := be16 c d
    if !chanValid num then .error .badNumber
    else if l > rest.length then .error .badLength
    else .ok (num, rest.take l)
  | _ => .error .eof

/-- `IsChannelData` -/
def isChannelData : Bytes → Bool
  | a :: b :: c :: d :: rest => if be16 c d > rest.length then false else chanValid (be16 a b)
  | _ => false

/-! ### Attribute value codecs.  The STUN TLV layer (pion/stun) is abstract: `getFrom` takes
`none` when the attribute is absent and `some v` with the raw value of its first occurrence. -/

inductive AErr | notFound | badSize | badValue | eof | badFamily | overflow | badIPLen
deriving DecidableEq, Repr

/-- LIFETIME: seconds as uint32 -/
def lifetimeAdd (secs : Nat) : Bytes := enc32 secs
def lifetimeGet : Option Bytes → Except AErr Nat
  | none => .error .notFound
  | some [a, b, c, d] => .ok (be32 a b c d)
  | some _ => .error .badSize

/-- CHANNEL-NUMBER: uint16 + 16 bits RFFU -/
def chanNumAdd (n : Nat) : Bytes := [hi8 (n % 65536), lo8 (n % 65536), 0, 0]
def chanNumGet : Option Bytes → Except AErr Nat
  | none => .error .notFound
  | some [a, b, _, _] => .ok (be16 a b)
  | some _ => .error .badSize

/-- REQUESTED-TRANSPORT -/
def reqTransAdd (p : UInt8) : Bytes := [p, 0, 0, 0]
def reqTransGet : Option Bytes → Except AErr UInt8
  | none => .error .notFound
  | some [a, _, _, _] => .ok a
  | some _ => .error .badSize

/-- REQUESTED-ADDRESS-FAMILY -/
def reqFamAdd (f : UInt8) : Bytes := [f, 0, 0, 0]
def reqFamGet : Option Bytes → Except AErr UInt8
  | none => .error .notFound
  | some [a, _, _, _] => if a = 1 ∨ a = 2 then .ok a else .error .badValue
  | some _ => .error .badSize

/-- EVEN-PORT (RFC 5766 §14.6): the R flag is the most significant bit of the one value byte, the other seven bits are
    reserved (zero when sent, ignored when received).  (Finding F37: the source had `firstBitSet = (1<<8)-1 = 0xFF`.) -/
def evenPortAdd (r : Bool) : Bytes := [if r then 0x80 else 0]
def evenPortGet : Option Bytes → Except AErr Bool
  | none => .error .notFound
  | some [a] => .ok (a &&& 0x80 != 0)
  | some _ => .error .badSize

/-- RESERVATION-TOKEN: 8 opaque bytes; AddTo itself checks the size -/
def rsrvTokenAdd (t : Bytes) : Except AErr Bytes := if t.length = 8 then .ok t else .error .badSize
def rsrvTokenGet : Option Bytes → Except AErr Bytes
  | none => .error .notFound
  | some v => if v.length = 8 then .ok v else .error .badSize

/-- CONNECTION-ID: uint32 -/
def connIdAdd (n : Nat) : Bytes := enc32 n
def connIdGet : Option Bytes → Except AErr Nat
  | none => .error .notFound
  | some [a, b, c, d] => .ok (be32 a b c d)
  | some _ => .error .badSize

/-- DONT-FRAGMENT: empty value -/
def dontFragAdd : Bytes := []
def dontFragGet : Option Bytes → Except AErr Unit
  | none => .error .notFound
  | some [] => .ok ()
  | some _ => .error .badSize
def dontFragIsSet (v : Option Bytes) : Bool := v.isSome

/-- DATA: the raw value -/
def dataAdd (d : Bytes) : Bytes := d
def dataGet : Option Bytes → Except AErr Bytes
  | none => .error .notFound
  | some v => .ok v

/-! XOR-PEER-ADDRESS / XOR-RELAYED-ADDRESS / XOR-MAPPED-ADDRESS (pion/stun `XORMappedAddress`) -/

def cookie : Bytes := [0x21, 0x12, 0xA4, 0x42]
def xorKey (tid : Bytes) : Bytes := cookie ++ tid

/-- `xor.XorBytes(dst, a, b)`: n = min of the lengths -/
def xorBytes : Bytes → Bytes → Bytes
  | a :: as, b :: bs => (a ^^^ b) :: xorBytes as bs
  | _, _ => []

def isV4Mapped (ip : Bytes) : Bool :=
  decide (ip.take 10 = List.replicate 10 0) && decide ((ip.drop 10).take 2 = [0xff, 0xff])

/-- the (family, address bytes) that AddToAs puts on the wire for a Go `net.IP` of 4 or 16 bytes -/
def canonIP (ip : Bytes) : Except AErr (Nat × Bytes) :=
  if ip.length = 16 then
    if isV4Mapped ip then .ok (1, ip.drop 12) else .ok (2, ip)
  else if ip.length = 4 then .ok (1, ip)
  else .error .badIPLen

def xorAddrAdd (tid ip : Bytes) (port : Nat) : Except AErr Bytes :=
  match canonIP ip with
  | .error e => .error e
  | .ok (fam, a) =>
    let xp := (port ^^^ 0x2112) % 65536
    .ok ([hi8 fam, lo8 fam, hi8 xp, lo8 xp] ++ xorBytes a (xorKey tid))

def padRight (n : Nat) (b : Bytes) : Bytes := b ++ List.replicate (n - b.length) 0

def xorAddrGet (tid : Bytes) : Option Bytes → Except AErr (Bytes × Nat)
  | none => .error .notFound
  | some (f0 :: f1 :: p0 :: p1 :: r0 :: rest) =>
    let fam := be16 f0 f1
    if fam ≠ 1 ∧ fam ≠ 2 then .error .badFamily
    else
      let ipLen := if fam = 2 then 16 else 4
      if (r0 :: rest).length > ipLen then .error .overflow
      else .ok (padRight ipLen (xorBytes (r0 :: rest) (xorKey tid)), be16 p0 p1 ^^^ 0x2112)
  | some _ => .error .eof

end Turn
