/-
M4 ledger: lifecycle events and the resource ledger are *derived* — the difference between the
entities owned by the live allocations before and after a step (DESIGN.md §5 (v)).
`stepE` = `step` + those events; the correspondence run compares them with the real EventHandler
callbacks and with the open/close log of the simulated network.  Core Lean only.
-/
import TurnModel.Model.Server
namespace Turn.Srv

/-- things a live allocation owns: itself (with its relay socket / listener, its lifetime timer and its
    relay-reader goroutine), each permission (with its timer), each channel binding (with its timer) -/
inductive Ent
  | alloc (k : Key) (relay : Addr) (tcp : Bool)
  | perm (k : Key) (ip : IP)
  | chan (k : Key) (num : Nat) (peer : Addr)
deriving DecidableEq, Repr

def entsOf (a : Alloc) : List Ent :=
  .alloc a.key a.relay a.tcp :: (a.perms.map (fun p => .perm a.key p.ip) ++ a.chans.map (fun c => .chan a.key c.num c.peer))

def ents (s : State) : List Ent := s.allocs.flatMap entsOf

inductive Ev
  | created (e : Ent)    -- OnAllocationCreated / OnPermissionCreated / OnChannelCreated (+ relay socket opened)
  | deleted (e : Ent)    -- On…Deleted (+ relay socket closed)
deriving DecidableEq, Repr

def events (s s' : State) : List Ev :=
  ((ents s').filter (fun e => !(ents s).contains e)).map .created ++
  ((ents s).filter (fun e => !(ents s').contains e)).map .deleted

def stepE (c : Cfg) (s : State) (op : Op) : State × List Out × List Ev :=
  let r := step c s op
  (r.1, r.2, events s r.1)

/-- the event log of a whole history -/
def runE (c : Cfg) (s : State) : List Op → State × List Ev
  | [] => (s, [])
  | op :: ops =>
    let r := stepE c s op
    let t := runE c r.1 ops
    (t.1, r.2.2 ++ t.2)

end Turn.Srv
