/-
M5 — the client's transaction table: client.go (PerformTransaction, handleSTUNMessage, onRtxTimeout,
Close) and internal/client/transaction.go.  Time in milliseconds.  Core Lean only.
The table is changed through `react`, a per-key reaction returning the entry afterwards, at most one
completion and whether a datagram was sent: at-most-once per step is true by construction and
exactly-once over histories is a conservation law (Props/C12.lean).
-/
namespace Turn.Txn

structure Tr where
  key : Nat
  nRtx : Nat            -- timer firings so far
  interval : Nat        -- current retransmission interval
  fireAt : Nat          -- when the retransmission timer fires next
  failAt : Option Nat   -- environment: the transmission (0 = first) whose socket write fails
deriving Repr, DecidableEq

structure St where
  now : Nat
  trs : List Tr
deriving Repr

inductive Res | response | allFailed | writeFailed | closed
deriving Repr, DecidableEq

/-- events that concern one transaction -/
inductive KEv
  | start (rto : Nat) (failAt : Option Nat)   -- PerformTransaction
  | resp                                      -- a response carrying this transaction id arrives
  | fire                                      -- the retransmission timer fires
deriving Repr

inductive Ev
  | on (key : Nat) (e : KEv)
  | close
  | adv (dt : Nat)
deriving Repr

inductive Out
  | sent (key time : Nat)
  | done (key : Nat) (r : Res) (time : Nat)
deriving Repr, DecidableEq

/-- `maxRtxCount` and `maxRtxInterval` (tied to the source by Gen.Consts in Props/C12.lean) -/
def maxRtx : Nat := 7
def cap : Nat := 1600

/-- what the code does with the table entry of one key: (entry afterwards, completion, datagram sent) -/
def react (now k : Nat) : Option Tr → KEv → Option Tr × Option Res × Bool
  | none, .start rto failAt =>
    if failAt == some 0 then (none, some .writeFailed, false)       -- first write fails: entry removed again
    else (some ⟨k, 0, rto, now + rto, failAt⟩, none, true)
  | some t, .start _ _ => (some t, none, false)
  | none, .resp => (none, none, false)                              -- no such transaction: ignored
  | some _, .resp => (none, some .response, false)
  | none, .fire => (none, none, false)                              -- already gone
  | some t, .fire =>
    if t.nRtx + 1 == maxRtx then (none, some .allFailed, false)
    else if t.failAt == some (t.nRtx + 1) then (none, some .writeFailed, false)
    else (some ⟨k, t.nRtx + 1, min (t.interval * 2) cap, now + min (t.interval * 2) cap, t.failAt⟩, none, true)

def find (s : St) (k : Nat) : Option Tr := s.trs.find? (·.key == k)
def others (s : St) (k : Nat) : List Tr := s.trs.filter (fun t => !(t.key == k))

def step (s : St) : Ev → St × List Out
  | .adv dt => ({ s with now := s.now + dt }, [])
  | .on k e =>
    let r := react s.now k (find s k) e
    ({ s with trs := r.1.toList ++ others s k },
     (if r.2.2 then [.sent k s.now] else []) ++ (match r.2.1 with | some res => [.done k res s.now] | none => []))
  | .close => ({ s with trs := [] }, s.trs.map (fun t => .done t.key .closed s.now))

def run (s : St) : List Ev → St × List Out
  | [] => (s, [])
  | e :: es => ((run (step s e).1 es).1, (step s e).2 ++ (run (step s e).1 es).2)

/-! the scheduler: which timer events virtual time produces (used by the driver; the theorems quantify
    over ALL event sequences, including every sequence this scheduler can produce) -/

def earliest : List Tr → Option Tr
  | [] => none
  | t :: ts => match earliest ts with
    | none => some t
    | some u => if t.fireAt < u.fireAt || (t.fireAt == u.fireAt && t.key ≤ u.key) then some t else some u

/-- advance the clock to `limit`, firing due timers in order -/
def advanceTo : Nat → St → Nat → St × List Out
  | 0, s, limit => ({ s with now := max s.now limit }, [])
  | fuel + 1, s, limit =>
    match earliest s.trs with
    | none => ({ s with now := max s.now limit }, [])
    | some t =>
      if t.fireAt ≤ limit then
        let s1 := { s with now := max s.now t.fireAt }
        let r := step s1 (.on t.key .fire)
        let r2 := advanceTo fuel r.1 limit
        (r2.1, r.2 ++ r2.2)
      else ({ s with now := max s.now limit }, [])

end Turn.Txn
