/-
The identity of a 5-tuple: internal/allocation/five_tuple.go (`netAddrIPAndPort`, `Fingerprint`, `Equal`).
An IP is the byte slice Go holds (4 bytes, 16 bytes, or anything else = not an address); `net.IP.To16`
turns 4 bytes into the IPv4-mapped 16-byte form and leaves 16 bytes alone (nil otherwise); the
fingerprint copies that into a zeroed [16]byte and keeps the port as uint16.  Core Lean only.
-/
import TurnModel.Model.Wire
namespace Turn.FT

def v4prefix : Bytes := [0, 0, 0, 0, 0, 0, 0, 0, 0, 0, 0xff, 0xff]

/-- `net.IP.To16` -/
def to16 (ip : Bytes) : Bytes :=
  if ip.length = 4 then v4prefix ++ ip else if ip.length = 16 then ip else []

/-- `copy(fp.ip[:], src)` into a zeroed `[16]byte` -/
def copy16 (src : Bytes) : Bytes := (src ++ List.replicate 16 0).take 16

structure Addr where
  ip : Bytes
  port : Nat
deriving DecidableEq, Repr

structure Tuple where
  proto : Nat
  src : Addr
  dst : Addr
deriving DecidableEq, Repr

/-- `Fingerprint` -/
def fpAddr (a : Addr) : Bytes × Nat := (copy16 (to16 a.ip), a.port % 65536)
def fingerprint (t : Tuple) : Nat × (Bytes × Nat) × (Bytes × Nat) := (t.proto, fpAddr t.src, fpAddr t.dst)

/-- `Equal` -/
def equal (a b : Tuple) : Bool := fingerprint a == fingerprint b

/-- a real address: 4 or 16 bytes, a 16-bit port -/
def Addr.Valid (a : Addr) : Prop := (a.ip.length = 4 ∨ a.ip.length = 16) ∧ a.port < 65536

/-- the address itself, whichever of its two spellings was used (`a.b.c.d` = `::ffff:a.b.c.d`) -/
def canon (a : Addr) : Bytes × Nat := (to16 a.ip, a.port)

/-- `net.IP.Equal` (used by `ipnet.AddrEqual`: channel bindings are looked up by peer address with it) -/
def ipEqual (a b : Bytes) : Bool :=
  if a.length = b.length then a == b
  else if a.length = 4 ∧ b.length = 16 then b == v4prefix ++ a
  else if a.length = 16 ∧ b.length = 4 then a == v4prefix ++ b
  else false

/-- `ipnet.AddrEqual` on two addresses of the same Go type -/
def addrEqual (a b : Addr) : Bool := ipEqual a.ip b.ip && a.port == b.port

end Turn.FT
