/-
M9 — the relay address generators (relay_address_generator_{range,static,none}.go) over an
abstract network in which binding a port succeeds iff the port is free (`used`).  Core Lean only.
-/
namespace Turn.PortRange

structure Cfg where
  min : Nat
  max : Nat
  retries : Nat
deriving Repr

/-- Go's `uint16` arithmetic of the port-range generator (the regenerated `Gen.Expr.port_*` /
    `Gen.Expr.intn_*` are proved equal to these in Props/C20.lean) -/
def intnArg (min max : Nat) : Nat := ((max + 1) % 65536 + 65536 - min % 65536) % 65536
def portOf (min k : Nat) : Nat := (min % 65536 + k % 65536) % 65536

inductive Res | ok (port : Nat) (attempts : Nat) | err (attempts : Nat)
deriving DecidableEq, Repr

/-- the retry loop: `rands` are the successive results of `Rand.Intn` -/
def loop (c : Cfg) (used : List Nat) : Nat → List Nat → Nat → Res
  | 0, _, n => .err n
  | _ + 1, [], n => .err n            -- (script exhausted: not reachable when `rands.length ≥ retries`)
  | t + 1, k :: ks, n =>
    let p := portOf c.min k
    if used.contains p then loop c used t ks (n + 1) else .ok p (n + 1)

/-- `AllocatePacketConn` / `AllocateListener`: a requested port is bound as is, otherwise the loop -/
def alloc (c : Cfg) (used : List Nat) (req : Nat) (rands : List Nat) : Res :=
  if req != 0 then (if used.contains req then .err 1 else .ok req 1)
  else loop c used c.retries rands 0

/-- a history of allocations and closes on one generator -/
inductive Ev | alloc (req : Nat) (rands : List Nat) | close (port : Nat)

def stepUsed (c : Cfg) (used : List Nat) : Ev → List Nat
  | .alloc req rands => match alloc c used req rands with
                        | .ok p _ => p :: used
                        | .err _ => used
  | .close p => used.filter (· != p)

def runUsed (c : Cfg) : List Nat → List Ev → List Nat
  | used, [] => used
  | used, e :: es => runUsed c (stepUsed c used e) es

end Turn.PortRange
