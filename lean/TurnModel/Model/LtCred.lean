/-
M3 (credentials) — lt_cred.go: the two time-windowed shared-secret credential schemes.
HMAC-SHA1/base64 (`pw`) and MD5 (`authKey`) are parameters.  Time is Unix seconds (`Int`).
Core Lean only.
-/
namespace Turn.LtCred

def stripSign : List Char → Bool × List Char
  | '+' :: r => (false, r)
  | '-' :: r => (true, r)
  | r => (false, r)

def atoiDigits (neg : Bool) (ds : List Char) : Option Int :=
  if ds.isEmpty || !ds.all Char.isDigit then none
  else if neg then (if Nat.ofDigitChars 10 ds 0 ≤ 9223372036854775808 then some (-(Nat.ofDigitChars 10 ds 0 : Int)) else none)
  else (if Nat.ofDigitChars 10 ds 0 < 9223372036854775808 then some (Nat.ofDigitChars 10 ds 0 : Int) else none)

/-- `strconv.Atoi` on a 64-bit platform: optional sign, at least one decimal digit, nothing else,
    value within int64 -/
def atoiL (cs : List Char) : Option Int := atoiDigits (stripSign cs).1 (stripSign cs).2

def atoi (s : String) : Option Int := atoiL s.toList

/-- `strconv.FormatInt(t, 10)` -/
def fmt (t : Int) : String :=
  match t with
  | .ofNat n => Nat.repr n
  | .negSucc n => "-" ++ Nat.repr (n + 1)

structure Env where
  pw : String → String → String                -- base64(HMAC-SHA1(secret, username))
  authKey : String → String → String → List UInt8   -- MD5(username ":" realm ":" password)

/-- `GenerateLongTermCredentials(secret, d)` at time `t0` -/
def gen (E : Env) (secret : String) (d t0 : Int) : String × String :=
  let u := fmt (t0 + d)
  (u, E.pw secret u)

/-- `GenerateLongTermTURNRESTCredentials(secret, user, d)` at time `t0` -/
def genREST (E : Env) (secret user : String) (d t0 : Int) : String × String :=
  let u := fmt (t0 + d) ++ ":" ++ user
  (u, E.pw secret u)

/-- `NewLongTermAuthHandler(secret)` at time `now`: (userID, key) or refusal -/
def handler (E : Env) (secret : String) (username realm : String) (now : Int) : Option (String × List UInt8) :=
  match atoi username with
  | none => none
  | some t => if t < now then none else some (username, E.authKey username realm (E.pw secret username))

/-- the part of a REST username before the first colon, and the user id (everything behind that colon, or the
    whole username when there is no colon) — `strings.SplitN(username, ":", 2)` -/
def restFields (username : String) : String × String :=
  match username.splitOn ":" with
  | [] => ("", username)
  | [a] => (a, username)
  | a :: rest => (a, ":".intercalate rest)

/-- `LongTermTURNRESTAuthHandler(secret)` at time `now` -/
def handlerREST (E : Env) (secret : String) (username realm : String) (now : Int) : Option (String × List UInt8) :=
  match atoi (restFields username).1 with
  | none => none
  | some t => if t < now then none else some ((restFields username).2, E.authKey username realm (E.pw secret username))

end Turn.LtCred
