/-
M6 — the client's relayed socket: internal/client/{udp_conn,binding,permission,allocation}.go and the
inbound demultiplexer of client.go.  One step per application call / inbound message / timer check;
the TURN server's reactions to the requests a step issues are part of the operation (`Rx`), so
"for all server reactions" is an ordinary ∀.  Time in seconds.  Core Lean only.
-/
import TurnModel.Model.Server
namespace Turn.Cli
open Turn.Srv (IP Addr)

/-- the server's reaction to one request transaction -/
inductive Rx | ok | code (c : Nat) | silent
deriving DecidableEq, Repr

inductive BState | idle | request | unknown | readyUnknown | ready | refresh | failed
deriving DecidableEq, Repr

/-- `binding.ok()` -/
def BState.isOk : BState → Bool
  | .ready | .refresh | .readyUnknown => true
  | _ => false

/-- `bindingStateWasReady` -/
def BState.wasReady : BState → Bool
  | .ready | .readyUnknown => true
  | _ => false

structure Bind where
  addr : Addr
  num : Nat
  st : BState
  refreshedAt : Nat
  confirmed : Bool      -- ghost: a ChannelBind success for exactly (num, addr) has been received
deriving DecidableEq, Repr

structure State where
  now : Nat
  perms : List (IP × Bool)       -- permission entries by peer IP; `true` = permitted
  permOK : List IP               -- ghost: IPs covered by a CreatePermission success so far
  binds : List Bind              -- never removed (deleteBy* are unused outside tests)
  next : Nat                     -- next channel number
  queue : List (Addr × Bytes)    -- readCh (capacity `qcap`)
  closed : Bool
  nextTick : Nat                 -- when the bindings-check timer fires next
deriving Repr

def qcap : Nat := 1024
def minChan : Nat := 0x4000
def maxChan : Nat := 0x7FFF
/-- how many channel numbers there are -/
def chanCount : Nat := 16384
def maxTries : Nat := 3
def bindRefresh : Nat := 300     -- defaultBindingRefreshInterval, seconds
def bindCheck : Nat := 30        -- defaultBindingCheckInterval, seconds

def init : State := ⟨0, [], [], [], minChan, [], false, bindCheck⟩

/-- what the client puts on the wire toward the TURN server, and what the calls return -/
inductive Out
  | createPerm (peers : List Addr)
  | chanBind (num : Nat) (peer : Addr)
  | sendInd (peer : Addr) (data : Bytes)
  | chanData (num : Nat) (data : Bytes)
  | refresh (lifetime : Nat)
  | wrote (n : Nat)                 -- WriteTo returned n, nil
  | writeErr (kind : String)        -- WriteTo returned an error
  | read (frm : Addr) (data : Bytes)
  | readErr (kind : String)
  | inboundErr (kind : String)      -- HandleInbound returned (true, error)
  | unhandled                       -- HandleInbound returned (false, nil)
deriving DecidableEq, Repr

/-- outcome of a request that is retried on 438 (CreatePermission / ChannelBind / Refresh): the requests sent
    and how it ended.  `mk` builds the wire message of one attempt. -/
inductive TxnEnd | ok | code (c : Nat) | txnFailed | staleOut
deriving DecidableEq, Repr

def attempts (mk : Out) : Nat → List Rx → List Out × TxnEnd
  | 0, _ => ([], .staleOut)
  | n + 1, rx =>
    match rx with
    | [] => ([mk], .ok)                         -- a script that runs out answers success
    | .ok :: _ => ([mk], .ok)
    | .silent :: _ => ([mk], .txnFailed)
    | .code 438 :: rest => let r := attempts mk n rest; (mk :: r.1, r.2)
    | .code c :: _ => ([mk], .code c)

def findBind (s : State) (a : Addr) : Option Bind := s.binds.find? (fun b => b.addr == a)
def findBindNum (s : State) (n : Nat) : Option Bind := s.binds.find? (fun b => b.num == n)
def setBind (s : State) (b : Bind) : State := { s with binds := s.binds.map (fun x => if x.addr == b.addr then b else x) }

/-- `assignChannelNumber` -/
def nextNum (n : Nat) : Nat := if n == maxChan then minChan else n + 1

/-- `startBinding`: the state a bind transaction starts from, if one is to be started -/
def startBinding (now : Nat) (b : Bind) : Option (BState × Bind) :=
  match b.st with
  | .idle | .unknown => some (b.st, { b with st := .request })
  | .readyUnknown => some (b.st, { b with st := .refresh })
  | .ready => if now - b.refreshedAt > bindRefresh then some (b.st, { b with st := .refresh }) else none
  | _ => none

/-- `bindChannel` + `handleBindChannelError`, given how the ChannelBind transaction(s) ended -/
def bindEnd (now : Nat) (start : BState) (b : Bind) : TxnEnd → Bind × Bool   -- (binding afterwards, close the allocation?)
  | .ok => ({ b with st := .ready, refreshedAt := now, confirmed := true }, false)
  | .code c =>
    if c == 400 then (if start.wasReady then ({ b with st := .ready }, false) else ({ b with st := .failed }, true))
    else ({ b with st := .failed }, false)
  | .txnFailed => ({ b with st := if start.wasReady then .readyUnknown else .unknown }, false)
  | .staleOut => ({ b with st := .failed }, false)

/-- `maybeBind` run to completion with the given server reactions -/
def maybeBind (s : State) (b : Bind) (rx : List Rx) : State × List Out :=
  match startBinding s.now b with
  | none => (s, [])
  | some (start, b1) =>
    let r := attempts (.chanBind b.num b.addr) maxTries rx
    let e := bindEnd s.now start b1 r.2
    let s1 := setBind s e.1
    if e.2 then ({ s1 with closed := true }, r.1 ++ [.refresh 0]) else (s1, r.1)

def permState (s : State) (ip : IP) : Option Bool := (s.perms.find? (fun p => p.1 == ip)).map (·.2)

/-- the binding `WriteTo` uses for `peer`: the existing one, a new one with the next number, or none when every number
    is held (bindings are never given up) -/
def bindFor (s : State) (peer : Addr) : Option (State × Bind) :=
  match findBind s peer with
  | some b => some (s, b)
  | none =>
    if s.binds.length < chanCount then
      some ({ s with binds := s.binds ++ [⟨peer, s.next, .idle, s.now, false⟩], next := nextNum s.next },
            ⟨peer, s.next, .idle, s.now, false⟩)
    else none

/-- `UDPConn.WriteTo` -/
def writeTo (s : State) (peer : Addr) (data : Bytes) (permRx bindRx : List Rx) : State × List Out :=
  if s.closed then (s, [.writeErr "closed"])
  else
    -- permission for the peer's IP
    let needPerm := permState s peer.ip != some true
    let pr := if needPerm then attempts (.createPerm [peer]) maxTries permRx else ([], TxnEnd.ok)
    match pr.2 with
    | .ok =>
      let s1 := if needPerm then
          { s with perms := (peer.ip, true) :: s.perms.filter (fun p => !(p.1 == peer.ip)), permOK := peer.ip :: s.permOK }
        else s
      -- binding for the peer's transport address; bindings are never given up, so once all `chanCount` numbers are
      -- held a new peer gets none and is served with Send indications for good
      match bindFor s1 peer with
      | some (s2, b) =>
        if b.st.isOk then (s2, pr.1 ++ [.chanData b.num data, .wrote data.length])
        else
          let m := maybeBind s2 b bindRx
          (m.1, pr.1 ++ m.2 ++ [.sendInd peer data, .wrote data.length])
      | none => (s1, pr.1 ++ [.sendInd peer data, .wrote data.length])
    | e =>
      -- the permission entry is forgotten again; nothing is sent toward the peer
      ({ s with perms := s.perms.filter (fun p => !(p.1 == peer.ip)) },
       pr.1 ++ [.writeErr (match e with | .code c => s!"turn{c}" | .txnFailed => "txnfailed" | _ => "tryagain")])

/-- the bindings timer: `maybeBind` for every binding -/
def checkBindings (s : State) (rx : List Rx) : State × List Out :=
  s.binds.foldl (fun (acc : State × List Out) b =>
    match findBind acc.1 b.addr with
    | some cur => let r := maybeBind acc.1 cur rx; (r.1, acc.2 ++ r.2)
    | none => acc) (s, [])

/-- what arrives on the client's socket from the TURN server address, as `HandleInbound` classifies it -/
inductive Inbound
  | dataInd (peer : Addr) (data : Bytes)
  | chanData (raw : Bytes)
  | stunRequest
  | stunBad                     -- looks like STUN but does not decode
  | stunOther                   -- response without transaction / unsupported indication: ignored
  | garbageFromServer
  | garbageFromOther
  | relayedFromOther            -- a Data indication or ChannelData whose source is not the TURN server
deriving Repr

def enqueue (s : State) (frm : Addr) (d : Bytes) : State :=
  if s.queue.length < qcap then { s with queue := s.queue ++ [(frm, d)] } else s

/-- `Client.HandleInbound` (ChannelData is recognised by its channel number first) -/
def handleInbound (s : State) : Inbound → State × List Out
  | .dataInd p d => if s.closed then (s, []) else (enqueue s p d, [])   -- no relayed socket any more: discarded
  | .chanData raw =>
    match decodeCD raw with
    | .error _ => (s, [.inboundErr "decode"])
    | .ok (n, d) =>
      if s.closed then (s, []) else
      match findBindNum s n with
      | some b => (enqueue s b.addr d, [])
      | none => (s, [.inboundErr "nochannel"])
  | .stunRequest => (s, [.inboundErr "request"])
  | .stunBad => (s, [.inboundErr "decode"])
  | .stunOther => (s, [])
  | .garbageFromServer => (s, [.inboundErr "nonstun"])
  | .garbageFromOther => (s, [.unhandled])
  | .relayedFromOther => (s, [.inboundErr "stranger"])   -- only the TURN server relays: nothing is queued (finding F33)

/-- `UDPConn.ReadFrom` when something is queued or the socket is closed (blocking otherwise) -/
def readFrom (s : State) : State × List Out :=
  if s.closed then (s, [.readErr "closed"])      -- (Go's select may also hand out a queued datagram first)
  else match s.queue with
    | (f, d) :: rest => ({ s with queue := rest }, [.read f d])
    | [] => (s, [.readErr "wouldblock"])

/-- virtual time passes: the bindings-check timer fires every `bindCheck` seconds (the next period starts
    when the handler returns; with an answering server the handler takes no time) -/
def advTicks : Nat → State → Nat → State × List Out
  | 0, s, lim => ({ s with now := lim }, [])
  | f + 1, s, lim =>
    if s.closed then ({ s with now := lim }, [])
    else if s.nextTick ≤ lim then
      let s1 := { s with now := s.nextTick, nextTick := s.nextTick + bindCheck }
      let r := checkBindings s1 []
      let t := advTicks f r.1 lim
      (t.1, r.2 ++ t.2)
    else ({ s with now := lim }, [])

inductive Op
  | write (peer : Addr) (data : Bytes) (permRx bindRx : List Rx)
  | tick (rx : List Rx)
  | inbound (m : Inbound)
  | read
  | adv (dt : Nat)
  | close

def step (s : State) : Op → State × List Out
  | .write p d prx brx => writeTo s p d prx brx
  | .tick rx => if s.closed then (s, []) else checkBindings s rx
  | .inbound m => handleInbound s m
  | .read => readFrom s
  | .adv dt => advTicks (dt / bindCheck + 2) s (s.now + dt)
  | .close => if s.closed then (s, []) else ({ s with closed := true }, [.refresh 0])

def run (s : State) : List Op → State × List (List Out)
  | [] => (s, [])
  | o :: os => let r := step s o; let t := run r.1 os; (t.1, r.2 :: t.2)

end Turn.Cli
