/-
M3 (nonces) — internal/server/{short_nonce,base36,nonce}.go.  The MAC (HMAC-SHA256 under the server
instance's random key) is a parameter `mac : bytes → 32 bytes`; time is whole seconds (short nonce)
or milliseconds (long nonce) since the epoch.  Bytes are `Nat < 256` here.  Core Lean only.
-/
namespace Turn.Nonce

/-- big-endian digits of n in base b (most significant first); 0 ↦ [] (as `big.Int.Bytes`) -/
def toDigits (b : Nat) (hb : 1 < b) (n : Nat) : List Nat :=
  if h : n = 0 then [] else toDigits b hb (n / b) ++ [n % b]
termination_by n
decreasing_by exact Nat.div_lt_self (Nat.pos_of_ne_zero h) hb

def ofDigits (b : Nat) : List Nat → Nat := List.foldl (fun acc d => acc * b + d) 0

/-- `big.Int.SetBytes` / `big.Int.Bytes` -/
def bytesToNat (bs : List Nat) : Nat := ofDigits 256 bs
def natToBytes (n : Nat) : List Nat := toDigits 256 (by decide) n

/-- Validate's left padding with zeros to the expected length -/
def padLeft (len : Nat) (bs : List Nat) : List Nat := List.replicate (len - bs.length) 0 ++ bs

/-- 4 big-endian bytes of the minute counter (`binary.BigEndian.PutUint64(…)[4:]`) -/
def ts4 (m : Nat) : List Nat := [m / 16777216 % 256, m / 65536 % 256, m / 256 % 256, m % 256]
def ts4Val : List Nat → Nat
  | [a, b, c, d] => a * 16777216 + b * 65536 + c * 256 + d
  | _ => 0

structure Params where
  mac : List Nat → List Nat
  hmacLen : Nat

/-- `ShortNonceHash.Generate` at second `now`: base-36 digits, most significant first (`encodeBase36`) -/
def mint (p : Params) (now : Nat) : List Nat :=
  let ts := ts4 (now / 60)
  let raw := ts ++ (p.mac ts).take p.hmacLen
  if bytesToNat raw = 0 then [0] else toDigits 36 (by decide) (bytesToNat raw)

/-- `ShortNonceHash.Validate` at second `now` on base-36 digits -/
def validate (p : Params) (digits : List Nat) (now : Nat) : Bool :=
  let bytes := natToBytes (ofDigits 36 digits)
  let want := 4 + p.hmacLen
  if bytes.length > want then false
  else
    let padded := padLeft want bytes
    let ts := padded.take 4
    let tag := padded.drop 4
    let m := ts4Val ts
    let cur := now / 60
    if cur < m then false
    else if cur - m > 60 then false
    else decide (tag = (p.mac ts).take p.hmacLen)

/-- `decodeBase36`'s alphabet after `strings.ToUpper` -/
def charDigit (c : Char) : Option Nat :=
  let u := c.toUpper
  if '0' ≤ u ∧ u ≤ '9' then some (u.toNat - '0'.toNat)
  else if 'A' ≤ u ∧ u ≤ 'Z' then some (u.toNat - 'A'.toNat + 10)
  else none

/-- text → digits; `none` when a character is outside the alphabet (Validate then rejects) -/
def textDigits (s : String) : Option (List Nat) := s.toList.mapM charDigit

def validateText (p : Params) (s : String) (now : Nat) : Bool :=
  match textDigits s with
  | none => false
  | some ds => validate p ds now

/-! long nonce (nonce.go): 8 bytes of Unix milliseconds ++ HMAC-SHA256 (32 bytes), hex encoded -/

def ts8 (ms : Nat) : List Nat := (List.range 8).reverse.map (fun i => ms / 256 ^ i % 256)
def ts8Val (bs : List Nat) : Nat := ofDigits 256 bs

def mintLong (mac : List Nat → List Nat) (nowMs : Nat) : List Nat := ts8 nowMs ++ mac (ts8 nowMs)

/-- `NonceHash.Validate` on the decoded bytes (hex decoding failure and wrong length are `false`);
    `time.Since(ts) > nonceLifetime` is the only age test: a timestamp in the future passes it -/
def validateLong (mac : List Nat → List Nat) (lifeMs : Nat) (bytes : List Nat) (nowMs : Nat) : Bool :=
  if bytes.length != 40 then false
  else
    let ts := bytes.take 8
    if nowMs > ts8Val ts + lifeMs then false
    else decide (bytes.drop 8 = mac ts)

end Turn.Nonce
