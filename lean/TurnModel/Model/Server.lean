/-
M4 — executable model of the TURN server: internal/server/{server,turn,stun,util}.go,
internal/allocation/*.go and the listener loops of server.go.

One `step` per request / relay-side event / time advance.  Every decision the Go code takes is a
named function here, in the same order (the correspondence run compares responses, so the order of
the checks is observable).  Core Lean only.

Conventions (DESIGN.md §4, §5):
* time is `Nat` nanoseconds; timers are stored expiries; `adv dt` purges eagerly everything whose
  expiry is `≤ now + dt`, so every stored entry is live and liveness tests are membership tests;
* environment choices (relay address handed out by the generator, quota answer, random connection
  id, dial success) are part of the operation;
* credentials are abstract facts (`Cred`); M3 proves what they mean at byte level;
* a request handler returns an update of the caller's own allocation (`Upd`), applied by `applyUpd`.
-/
import TurnModel.Model.Wire
namespace Turn.Srv

abbrev Time := Nat
def sec : Nat := 1000000000

/-- canonical IP: an IPv4-mapped IPv6 address is stored as IPv4 (what `net.IP.Equal`, `To4()` and the
    `String()` fingerprint all factor through) -/
structure IP where
  v6 : Bool
  n : Nat
deriving DecidableEq, Repr

structure Addr where
  ip : IP
  port : Nat
deriving DecidableEq, Repr

/-- the 5-tuple: listener (fixes server address and transport) and client address -/
structure Key where
  lid : Nat
  src : Addr
deriving DecidableEq, Repr

def IP.fam (ip : IP) : Nat := if ip.v6 then 2 else 1

/-- `ipMatchesFamily` -/
def famOK (ip : IP) (fam : Nat) : Bool := ip.fam == fam

structure Perm where
  ip : IP
  expiry : Nat
deriving DecidableEq, Repr

structure Chan where
  num : Nat
  peer : Addr
  expiry : Nat
deriving DecidableEq, Repr

/-- a peer TCP connection of a TCP allocation (RFC 6062) -/
structure TConn where
  id : Nat
  peer : Addr
  inbound : Bool
  bound : Option Key      -- the data connection it is piped to, once ConnectionBind succeeded
  deadline : Nat         -- bind deadline (meaningful while unbound)
  pend : Bytes            -- bytes the peer sent before the connection was bound (buffered by TCP)
deriving DecidableEq, Repr

structure Alloc where
  key : Key
  user : String
  relay : Addr
  tcp : Bool              -- REQUESTED-TRANSPORT was TCP: relay is a listener, not a datagram socket
  fam : Nat               -- 1 = IPv4, 2 = IPv6
  expiry : Nat
  perms : List Perm
  chans : List Chan
  conns : List TConn
  cacheTid : Nat
  cacheLt : Nat           -- LIFETIME (seconds) of the cached success response
  cacheTok : Option String
deriving DecidableEq, Repr

structure Lis where
  stream : Bool           -- ListenerConfig (TCP/TLS control connections) vs PacketConnConfig
  fam : Nat               -- family of the listening address
  unspec : Bool           -- listening on the wildcard address
  vetoed : List IP        -- peer IPs this listener's PermissionHandler refuses for every client
  vetoedFor : List (IP × IP) := []   -- (client IP, peer IP) pairs it refuses for that client only
deriving DecidableEq, Repr

structure Cfg where
  permT : Nat
  chanT : Nat
  lifeT : Nat             -- configured default allocation lifetime
  maxLife : Nat           -- maximumAllocationLifetime (Gen.Consts)
  rtpMTU : Nat            -- relay read buffer (Gen.Consts)
  inMTU : Nat             -- inbound MTU
  bindT : Nat             -- ConnectionBind deadline (Gen.Consts)
  resvT : Nat             -- reservation lifetime
  strict : Bool
  hasAuth : Bool
  hasQuota : Bool
  relay4 : IP             -- the address the relay address generator advertises for IPv4 / IPv6 allocations
  relay6 : IP
  lis : List Lis
deriving Repr

structure Resv where
  lid : Nat
  token : String
  port : Nat
  expiry : Nat
deriving DecidableEq, Repr

structure State where
  now : Nat
  allocs : List Alloc
  resvs : List Resv
  closed : Bool
deriving Repr

def init : State := ⟨0, [], [], false⟩

/-! ### inputs -/

inductive Attr (α : Type) | absent | bad | val (a : α)
deriving DecidableEq, Repr

/-- what the request's credentials look like to `authenticateRequest` -/
structure Cred where
  mi : Bool        -- MESSAGE-INTEGRITY present
  nonce : Bool     -- NONCE present
  nonceOK : Bool   -- …and validated by this server's NonceManager now
  realm : Bool
  uname : Bool
  known : Bool     -- the auth handler returns a key for (username, realm)
  macOK : Bool     -- integrity verifies under that key
  user : String    -- user id the handler returns
deriving DecidableEq, Repr

structure AllocEnv where
  port : Option Nat       -- the port the relay address generator binds when none is requested (none = error)
  quota : Bool            -- QuotaHandler's answer
  evenPort : Option Nat   -- GetRandomEvenPort (none = error)
  newToken : String       -- the random reservation token
deriving DecidableEq, Repr

inductive Msg
  | allocate (tid : Nat) (c : Cred) (lt : Attr Nat) (tr : Attr Nat) (df : Bool) (tok : Attr String)
      (even : Attr Bool) (fam : Attr Nat) (env : AllocEnv)
  | refresh (tid : Nat) (c : Cred) (lt : Attr Nat) (fam : Attr Nat)
  | createPerm (tid : Nat) (c : Cred) (peers : List (Option Addr))
  | chanBind (tid : Nat) (c : Cred) (num : Attr Nat) (peer : Attr Addr)
  | send (data : Option Bytes) (peer : Attr Addr)
  | chanData (raw : Bytes)
  | binding (tid : Nat)
  | connect (tid : Nat) (c : Cred) (peer : Attr Addr) (dialOK : Bool) (cid : Nat)
  | connBind (tid : Nat) (c : Cred) (cid : Attr Nat)
  | unknownAttr (method : String) (tid : Nat)
  | junk
deriving Repr

inductive Op
  | adv (dt : Nat)
  | msg (k : Key) (sz : Nat) (m : Msg)
  | peerData (relay : Addr) (frm : Addr) (data : Bytes)
  | peerConn (relay : Addr) (frm : Addr) (cid : Nat)
  | ctrlClose (k : Key)
  | relayErr (relay : Addr)
  | pipeC2P (k : Key) (data : Bytes)
  | pipeP2C (lid : Nat) (cid : Nat) (data : Bytes)
  | pipeCloseC (k : Key)
  | pipeCloseP (lid : Nat) (cid : Nat)
  | close
deriving Repr

/-! ### outputs -/

structure RA where       -- attributes of a response the properties talk about
  nonce : Bool := false
  lt : Option Nat := none
  relay : Option Addr := none
  mapped : Option Addr := none
  cid : Option Nat := none
  token : Option String := none
deriving DecidableEq, Repr

inductive Out
  | resp (to : Key) (method : String) (ok : Bool) (code : Nat) (tid : Nat) (a : RA)
  | dataInd (to : Key) (frm : Addr) (data : Bytes)
  | chanData (to : Key) (num : Nat) (data : Bytes)
  | connAttempt (to : Key) (frm : Addr) (cid : Nat)
  | toPeer (relay : Addr) (dst : Addr) (data : Bytes)
  | dial (relay : Addr) (dst : Addr) (cid : Nat)      -- outbound peer TCP connection registered
  | connClosed (lid : Nat) (cid : Nat) (peer : Addr)  -- peer TCP connection closed by the server
  | pipeToPeer (lid : Nat) (cid : Nat) (data : Bytes)
  | pipeToClient (k : Key) (data : Bytes)
  | dataClosed (k : Key)                              -- bound data connection closed by the server
deriving DecidableEq, Repr

/-! ### lookups -/

def findAlloc (s : State) (k : Key) : Option Alloc := s.allocs.find? (fun a => a.key == k)

def findByRelay (s : State) (r : Addr) (tcp : Bool) : Option Alloc :=
  s.allocs.find? (fun a => a.relay == r && a.tcp == tcp)

def hasPerm (a : Alloc) (ip : IP) : Bool := a.perms.any (fun p => p.ip == ip)

def chanByNum (a : Alloc) (n : Nat) : Option Chan := a.chans.find? (fun c => c.num == n)

def chanByAddr (a : Alloc) (p : Addr) : Option Chan := a.chans.find? (fun c => c.peer == p)

def getLis (c : Cfg) (lid : Nat) : Lis := c.lis.getD lid ⟨false, 1, false, [], []⟩

/-- `Manager.GrantPermission` with this listener's permission handler: PermissionHandler(clientAddr, peerIP) -/
def granted (c : Cfg) (k : Key) (ip : IP) : Bool :=
  !(getLis c k.lid).vetoed.contains ip && !(getLis c k.lid).vetoedFor.contains (k.src.ip, ip)

/-- `allocationLifeTime`: requested·1 s when the attribute decodes and is below the maximum, else the
    configured default -/
def lifetimeOf (c : Cfg) (lt : Attr Nat) : Nat :=
  match lt with
  | .val l => if l * sec < c.maxLife then l * sec else c.lifeT
  | _ => c.lifeT

/-- `defaultAllocationAddressFamily` -/
def defaultFam (c : Cfg) (k : Key) : Nat :=
  if c.strict then 1
  else if (getLis c k.lid).unspec then k.src.ip.fam
  else (getLis c k.lid).fam

/-! ### authentication (order of the checks as in `authenticateRequest`) -/

inductive AuthRes | challenge (code : Nat) | reject | ok (user : String)
deriving DecidableEq, Repr

def authenticate (c : Cfg) (cr : Cred) : AuthRes :=
  if !cr.mi then .challenge 401
  else if !c.hasAuth then .reject
  else if !cr.nonce then .reject
  else if !cr.nonceOK then .challenge 438
  else if !cr.realm || !cr.uname then .reject
  else if !cr.known then .reject
  else if !cr.macOK then .reject
  else .ok cr.user

def errResp (k : Key) (m : String) (code tid : Nat) : Out := .resp k m false code tid {}
def okResp (k : Key) (m : String) (tid : Nat) (a : RA := {}) : Out := .resp k m true 0 tid a

def authFail (k : Key) (m : String) (tid : Nat) : AuthRes → List Out
  | .challenge code => [.resp k m false code tid { nonce := true }]
  | .reject => [errResp k m 400 tid]
  | .ok _ => []

/-! ### state updates on the caller's own allocation -/

inductive Upd | keep | set (a : Alloc) | del
deriving Repr

def addPerm (now : Nat) (t : Nat) (ip : IP) (a : Alloc) : Alloc :=
  { a with perms := ⟨ip, now + t⟩ :: a.perms.filter (fun p => !(p.ip == ip)) }

/-- the ForEach loop of CreatePermission: returns the allocation with the permissions installed so far
    and the error code if a peer failed (`none` = every peer was accepted) -/
def permLoop (c : Cfg) (now : Nat) (k : Key) : List (Option Addr) → Alloc → Alloc × Option Nat
  | [], a => (a, none)
  | none :: _, a => (a, some 400)
  | some p :: ps, a =>
    if !famOK p.ip a.fam then (a, some 443)
    else if !granted c k p.ip then (a, some 403)
    else permLoop c now k ps (addPerm now c.permT p.ip a)

/-- `AddChannelBind`'s two conflict tests -/
def bindConflict (a : Alloc) (num : Nat) (peer : Addr) : Bool :=
  (match chanByAddr a peer with | some ch => ch.num != num | none => false) ||
  (match chanByNum a num with | some ch => !(ch.peer == peer) | none => false)

def addChan (now : Nat) (c : Cfg) (num : Nat) (peer : Addr) (a : Alloc) : Alloc :=
  addPerm now c.permT peer.ip
    { a with chans := ⟨num, peer, now + c.chanT⟩ :: a.chans.filter (fun ch => !(ch.num == num)) }

def dupeConn (a : Alloc) (peer : Addr) : Bool := a.conns.any (fun t => t.peer == peer)

/-- connection ids are unique per allocation manager (= per listener) -/
def cidUsed (s : State) (lid : Nat) (cid : Nat) : Bool :=
  s.allocs.any (fun a => a.key.lid == lid && a.conns.any (fun t => t.id == cid))

def findResv (s : State) (lid : Nat) (tok : String) : Option Resv :=
  s.resvs.find? (fun r => r.lid == lid && r.token == tok)

/-! ### request handlers -/

structure HRes where
  upd : Upd := .keep
  outs : List Out := []
  resv : Option Resv := none
deriving Repr

/-- RESERVATION-TOKEN: an error code, or the port to request (0 = any) -/
def tokRes (s : State) (lid : Nat) (tok : Attr String) (even : Attr Bool) : Except Nat Nat :=
  match tok with
  | .val tk =>
    match even with
    | .val _ => .error 400
    | _ => match findResv s lid tk with
           | none => .error 508
           | some r => .ok (r.port + 1)
  | _ => .ok 0

/-- EVEN-PORT: an error code, or the port to request and the reservation token to hand out -/
def evenRes (even : Attr Bool) (env : AllocEnv) (port0 : Nat) : Except Nat (Nat × Option String) :=
  match even with
  | .val _ => match env.evenPort with
              | none => .error 508
              | some p => .ok (p, some env.newToken)
  | _ => .ok (port0, none)

/-- REQUESTED-ADDRESS-FAMILY -/
def famRes (c : Cfg) (k : Key) (fam : Attr Nat) : Except Nat Nat :=
  match fam with
  | .absent => .ok (defaultFam c k)
  | .bad => .error 400
  | .val f => if f == 1 || f == 2 then .ok f else .error 440

/-- everything `handleAllocateRequest` checks between authentication and `CreateAllocation`:
    an error code, or (requested transport is TCP, requested port, new token, family, lifetime) -/
def allocChecks (c : Cfg) (s : State) (k : Key) (lt : Attr Nat) (tr : Attr Nat) (df : Bool) (tok : Attr String)
    (even : Attr Bool) (fam : Attr Nat) (env : AllocEnv) : Except Nat (Bool × Nat × Option String × Nat × Nat) :=
  match tr with
  | .absent | .bad => .error 400
  | .val t =>
    if t != 17 && t != 6 then .error 442
    else if t == 6 && !(getLis c k.lid).stream then .error 400   -- RFC 6062 5.1: TCP allocations over TCP/TLS only
    else if df then .error 420
    else match tokRes s k.lid tok even with
      | .error code => .error code
      | .ok port0 =>
        match evenRes even env port0 with
        | .error code => .error code
        | .ok (reqPort, newTok) =>
          match famRes c k fam with
          | .error code => .error code
          | .ok f =>
            if tok != .absent && fam != .absent then .error 400
            else if c.hasQuota && !env.quota then .error 486
            else if lifetimeOf c lt == 0 then .error 508
            else .ok (t == 6, reqPort, newTok, f, lifetimeOf c lt)

def relayOf (c : Cfg) (f reqPort p : Nat) : Addr :=
  ⟨if f == 2 then c.relay6 else c.relay4, if reqPort != 0 then reqPort else p⟩

/-- the generator binds a fresh socket: a port already held by a live relay cannot be bound -/
def relayBusy (s : State) (relay : Addr) (tcp : Bool) : Bool :=
  s.allocs.any (fun b => b.relay == relay && b.tcp == tcp)

def hAllocate (c : Cfg) (s : State) (k : Key) (tid : Nat) (cr : Cred) (lt : Attr Nat) (tr : Attr Nat)
    (df : Bool) (tok : Attr String) (even : Attr Bool) (fam : Attr Nat) (env : AllocEnv) : HRes :=
  match authenticate c cr with
  | .ok user =>
    match findAlloc s k with
    | some a =>
      if a.cacheTid == tid then
        { outs := [okResp k "Allocate" tid { lt := some a.cacheLt, relay := some a.relay, mapped := some k.src, token := a.cacheTok }] }
      else { outs := [errResp k "Allocate" 437 tid] }
    | none =>
      match allocChecks c s k lt tr df tok even fam env with
      | .error code => { outs := [errResp k "Allocate" code tid] }
      | .ok (tcp, reqPort, newTok, f, g) =>
        match env.port with
        | none => { outs := [errResp k "Allocate" 508 tid] }
        | some p =>
          if relayBusy s (relayOf c f reqPort p) tcp then { outs := [errResp k "Allocate" 508 tid] }
          else
            { upd := .set ⟨k, user, relayOf c f reqPort p, tcp, f, s.now + g, [], [], [], tid, g / sec, newTok⟩,
              outs := [okResp k "Allocate" tid { lt := some (g / sec), relay := some (relayOf c f reqPort p),
                                                  mapped := some k.src, token := newTok }],
              resv := newTok.map (fun tk => ⟨k.lid, tk, (relayOf c f reqPort p).port, s.now + c.resvT⟩) }
  | r => { outs := authFail k "Allocate" tid r }

/-- lookup by 5-tuple *and* user (`GetAllocationForUserID`) -/
def ownAlloc (s : State) (k : Key) (user : String) : Option Alloc :=
  match findAlloc s k with
  | some a => if a.user == user then some a else none
  | none => none

/-- REQUESTED-ADDRESS-FAMILY on Refresh must equal the allocation's -/
def refreshFamErr (fam : Attr Nat) (afam : Nat) : Option Nat :=
  match fam with
  | .absent => none
  | .bad => some 400
  | .val f => if (f == 1 || f == 2) && f == afam then none else some 443

def hRefresh (c : Cfg) (s : State) (k : Key) (tid : Nat) (cr : Cred) (lt : Attr Nat) (fam : Attr Nat) : HRes :=
  match authenticate c cr with
  | .ok user =>
    match ownAlloc s k user with
    | none => {}
    | some a =>
      match refreshFamErr fam a.fam with
      | some code => { outs := [errResp k "Refresh" code tid] }
      | none =>
        if lifetimeOf c lt == 0 then { upd := .del, outs := [okResp k "Refresh" tid { lt := some 0 }] }
        else { upd := .set { a with expiry := s.now + lifetimeOf c lt },
               outs := [okResp k "Refresh" tid { lt := some (lifetimeOf c lt / sec) }] }
  | r => { outs := authFail k "Refresh" tid r }

def hCreatePerm (c : Cfg) (s : State) (k : Key) (tid : Nat) (cr : Cred) (peers : List (Option Addr)) : HRes :=
  match authenticate c cr with
  | .ok user =>
    match ownAlloc s k user with
    | none => {}
    | some a =>
      match (permLoop c s.now k peers a).2 with
      | some code => { outs := [errResp k "CreatePermission" code tid] }   -- nothing is installed unless every peer was accepted
      | none =>
        if peers.isEmpty then { outs := [errResp k "CreatePermission" 400 tid] }
        else { upd := .set (permLoop c s.now k peers a).1, outs := [okResp k "CreatePermission" tid] }
  | r => { outs := authFail k "CreatePermission" tid r }

/-- the checks of `handleChannelBindRequest` after the allocation lookup: an error code or (number, peer) -/
def bindChecks (c : Cfg) (k : Key) (a : Alloc) (num : Attr Nat) (peer : Attr Addr) : Except Nat (Nat × Addr) :=
  match num with
  | .val n =>
    if !chanValid n then .error 400
    else match peer with
      | .val p =>
        if !famOK p.ip a.fam then .error 443
        else if !granted c k p.ip then .error 401
        else if bindConflict a n p then .error 400
        else .ok (n, p)
      | _ => .error 400
  | _ => .error 400

def hChanBind (c : Cfg) (s : State) (k : Key) (tid : Nat) (cr : Cred) (num : Attr Nat) (peer : Attr Addr) : HRes :=
  match authenticate c cr with
  | .ok user =>
    match ownAlloc s k user with
    | none => {}
    | some a =>
      match bindChecks c k a num peer with
      | .error code => { outs := [errResp k "ChannelBind" code tid] }
      | .ok (n, p) => { upd := .set (addChan s.now c n p a), outs := [okResp k "ChannelBind" tid] }
  | r => { outs := authFail k "ChannelBind" tid r }

def hSend (s : State) (k : Key) (data : Option Bytes) (peer : Attr Addr) : HRes :=
  match findAlloc s k with
  | none => {}
  | some a =>
    match data, peer with
    | some d, .val p =>
      if hasPerm a p.ip && !a.tcp then { outs := [.toPeer a.relay p d] } else {}
    | _, _ => {}

def hChanData (s : State) (k : Key) (raw : Bytes) : HRes :=
  match decodeCD raw with
  | .error _ => {}
  | .ok (n, d) =>
    match findAlloc s k with
    | none => {}
    | some a =>
      match chanByNum a n with
      | none => {}
      | some ch => if a.tcp then {} else { outs := [.toPeer a.relay ch.peer d] }

/-- the checks of `handleConnectRequest`/`CreateTCPConnection`: `none` = silently dropped, an error code,
    or the peer to register -/
def connectChecks (c : Cfg) (s : State) (k : Key) (a : Alloc) (peer : Attr Addr) (dialOK : Bool) (cid : Nat) :
    Option (Except Nat Addr) :=
  match peer with
  | .val p =>
    if !granted c k p.ip then some (.error 403)
    else if p.port == 0 then none
    else if dupeConn a p then some (.error 446)
    else if !dialOK then some (.error 447)
    else if cidUsed s k.lid cid then none      -- id collision: connection closed again, no response
    else some (.ok p)
  | _ => some (.error 400)

def hConnect (c : Cfg) (s : State) (k : Key) (tid : Nat) (cr : Cred) (peer : Attr Addr) (dialOK : Bool) (cid : Nat) : HRes :=
  match authenticate c cr with
  | .ok user =>
    match ownAlloc s k user with
    | none => {}
    | some a =>
      match connectChecks c s k a peer dialOK cid with
      | none => {}
      | some (.error code) => { outs := [errResp k "Connect" code tid] }
      | some (.ok p) =>
        { upd := .set { a with conns := ⟨cid, p, false, none, s.now + c.bindT, []⟩ :: a.conns },
          outs := [.dial a.relay p cid, okResp k "Connect" tid { cid := some cid }] }
  | r => { outs := authFail k "Connect" tid r }

/-- `GetTCPConnection(userID, id)`: the allocation of this manager that holds `cid` -/
def connOwner (s : State) (lid : Nat) (cid : Nat) : Option Alloc :=
  s.allocs.find? (fun a => a.key.lid == lid && a.conns.any (fun t => t.id == cid))

def markBound (a : Alloc) (cid : Nat) (dk : Key) : Alloc :=
  { a with conns := a.conns.map (fun t => if t.id == cid then { t with bound := some dk, pend := [] } else t) }

def pendOf (a : Alloc) (cid : Nat) : Bytes :=
  match a.conns.find? (fun t => t.id == cid) with
  | some t => t.pend
  | none => []

/-- ConnectionBind arrives on a *new* connection `k`; on success it changes the allocation that owns
    the connection id (returned separately: this is the one handler that acts across 5-tuples, and
    only for the same authenticated user). -/
def hConnBind (c : Cfg) (s : State) (k : Key) (tid : Nat) (cr : Cred) (cid : Attr Nat) : List Out × Option Alloc :=
  let M := "ConnectionBind"
  match authenticate c cr with
  | .ok user =>
    match cid with
    | .val id =>
      if !(getLis c k.lid).stream then ([errResp k M 400 tid], none)
      else match connOwner s k.lid id with
        | none => ([errResp k M 400 tid], none)
        | some a =>
          if a.user != user then ([errResp k M 400 tid], none)
          else if a.conns.any (fun t => t.id == id && t.bound.isSome) then ([errResp k M 400 tid], none)
          else (okResp k M tid { cid := some id } ::
                  (if (pendOf a id).isEmpty then [] else [.pipeToClient k (pendOf a id)]), some (markBound a id k))
    | _ => ([errResp k M 400 tid], none)
  | r => (authFail k M tid r, none)

def handle (c : Cfg) (s : State) (k : Key) : Msg → HRes
  | .allocate tid cr lt tr df tok even fam env => hAllocate c s k tid cr lt tr df tok even fam env
  | .refresh tid cr lt fam => hRefresh c s k tid cr lt fam
  | .createPerm tid cr peers => hCreatePerm c s k tid cr peers
  | .chanBind tid cr num peer => hChanBind c s k tid cr num peer
  | .send data peer => hSend s k data peer
  | .chanData raw => hChanData s k raw
  | .binding tid => { outs := [okResp k "Binding" tid { mapped := some k.src }] }
  | .connect tid cr peer dialOK cid => hConnect c s k tid cr peer dialOK cid
  | .connBind .. => {}     -- handled in `step` (acts on another 5-tuple's allocation)
  | .unknownAttr m tid => { outs := [errResp k m 420 tid] }
  | .junk => {}

/-! ### applying updates; teardown -/

def closeOuts (a : Alloc) : List Out :=
  a.conns.flatMap (fun t =>
    .connClosed a.key.lid t.id t.peer :: (match t.bound with | some dk => [.dataClosed dk] | none => []))

def setAlloc (s : State) (a : Alloc) : State :=
  { s with allocs := a :: s.allocs.filter (fun b => !(b.key == a.key)) }

def delAlloc (s : State) (k : Key) : State :=
  { s with allocs := s.allocs.filter (fun b => !(b.key == k)) }

/-- the only place a request changes the allocation table: under the caller's own key -/
def applyUpd (s : State) (k : Key) : Upd → State × List Out
  | .keep => (s, [])
  | .set a => (setAlloc s { a with key := k }, [])
  | .del => (delAlloc s k, match findAlloc s k with | some a => closeOuts a | none => [])

def replaceAlloc (s : State) (a : Alloc) : State :=
  { s with allocs := s.allocs.map (fun b => if b.key == a.key then a else b) }

/-! ### time -/

def purgeAlloc (now : Nat) (a : Alloc) : Alloc × List Out :=
  let dead := a.conns.filter (fun t => t.bound.isNone && t.deadline ≤ now)
  ({ a with perms := a.perms.filter (fun p => now < p.expiry),
            chans := a.chans.filter (fun ch => now < ch.expiry),
            conns := a.conns.filter (fun t => !(t.bound.isNone && t.deadline ≤ now)) },
   dead.map (fun t => .connClosed a.key.lid t.id t.peer))

def advance (s : State) (dt : Nat) : State × List Out :=
  let now := s.now + dt
  let gone := s.allocs.filter (fun a => a.expiry ≤ now)
  let kept := (s.allocs.filter (fun a => now < a.expiry)).map (purgeAlloc now)
  ({ s with now := now, allocs := kept.map (·.1), resvs := s.resvs.filter (fun r => now < r.expiry) },
   gone.flatMap closeOuts ++ kept.flatMap (·.2))

/-! ### relay side -/

def hPeerData (c : Cfg) (s : State) (relay frm : Addr) (data : Bytes) : List Out :=
  match findByRelay s relay false with
  | none => []
  | some a =>
    if data.length > c.rtpMTU then []
    else match chanByAddr a frm with
      | some ch => [.chanData a.key ch.num data]
      | none => if hasPerm a frm.ip then [.dataInd a.key frm data] else []

def findConn (a : Alloc) (cid : Nat) : Option TConn := a.conns.find? (fun t => t.id == cid)

def dropConn (a : Alloc) (cid : Nat) : Alloc := { a with conns := a.conns.filter (fun t => !(t.id == cid)) }

/-- the data connection `k` is one end of a bound pipe: find the allocation and connection -/
def pipeOf (s : State) (k : Key) : Option (Alloc × TConn) :=
  match s.allocs.find? (fun a => a.conns.any (fun t => t.bound == some k)) with
  | none => none
  | some a => match a.conns.find? (fun t => t.bound == some k) with
              | none => none
              | some t => some (a, t)

def step (c : Cfg) (s : State) : Op → State × List Out
  | .adv dt => advance s dt
  | .msg k sz m =>
    if s.closed && !(getLis c k.lid).stream then (s, [])
    else if sz ≥ c.inMTU then (s, [])      -- readLoop: `n >= inboundMTU` is dropped whole (datagram or frame)
    else match m with
      | .connBind tid cr cid =>
        match hConnBind c s k tid cr cid with
        | (outs, some a) => (replaceAlloc s a, outs)
        | (outs, none) => (s, outs)
      | _ =>
        let r := handle c s k m
        let (s1, o1) := applyUpd s k r.upd
        ({ s1 with resvs := match r.resv with | some rv => rv :: s1.resvs | none => s1.resvs }, r.outs ++ o1)
  | .peerData relay frm data => (s, hPeerData c s relay frm data)
  | .peerConn relay frm cid =>
    match findByRelay s relay true with
    | none => (s, [])
    | some a =>
      if !hasPerm a frm.ip then (s, [.connClosed a.key.lid cid frm])
      else if cidUsed s a.key.lid cid || dupeConn a frm then (s, [.connClosed a.key.lid cid frm])
      else (replaceAlloc s { a with conns := ⟨cid, frm, true, none, s.now + c.bindT, []⟩ :: a.conns },
            [.connAttempt a.key frm cid])
  | .ctrlClose k =>
    match findAlloc s k with
    | some a => (delAlloc s k, closeOuts a)
    | none => (s, [])
  | .relayErr relay =>
    match s.allocs.find? (fun a => a.relay == relay) with
    | some a => (delAlloc s a.key, closeOuts a)
    | none => (s, [])
  | .pipeC2P k data =>
    match pipeOf s k with
    | some (a, t) => (s, [.pipeToPeer a.key.lid t.id data])
    | none => (s, [])
  | .pipeP2C lid cid data =>
    match connOwner s lid cid with
    | some a => match findConn a cid with
                | some t => match t.bound with
                            | some dk => (s, [.pipeToClient dk data])
                            | none => (replaceAlloc s { a with conns := a.conns.map (fun u =>
                                        if u.id == cid then { u with pend := u.pend ++ data } else u) }, [])
                | none => (s, [])
    | none => (s, [])
  | .pipeCloseC k =>
    match pipeOf s k with
    | some (a, t) => (replaceAlloc s (dropConn a t.id), [.connClosed a.key.lid t.id t.peer])
    | none => (s, [])
  | .pipeCloseP lid cid =>
    match connOwner s lid cid with
    | some a => match findConn a cid with
                | some t => match t.bound with
                            | some dk => (replaceAlloc s (dropConn a cid), [.dataClosed dk])
                            | none => (s, [])    -- nobody reads an unbound connection: it stays until its deadline
                | none => (s, [])
    | none => (s, [])
  | .close =>
    -- Server.Close closes the listening sockets; each listener's loop then closes its allocation
    -- manager, which tears down every allocation.  (Already-accepted stream control connections are
    -- not closed and keep being served: finding F14.)
    ({ s with allocs := [], closed := true }, s.allocs.flatMap closeOuts)

def run (c : Cfg) (s : State) : List Op → State × List (List Out)
  | [] => (s, [])
  | op :: ops =>
    let (s1, o) := step c s op
    let (s2, os) := run c s1 ops
    (s2, o :: os)

end Turn.Srv
