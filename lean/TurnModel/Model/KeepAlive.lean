/-
M7 — keep-alive: the client's refresh drivers composed with the server's expiry timers and nonce window.
Time is in milliseconds of protocol time since the client allocated; the network has zero delay, so the
only delays are the client's retransmission timer (M5) and the three periodic drivers.

Code modelled: internal/client/{allocation.go (onRefreshTimers, refreshAllocation, refreshPermissions,
setNonceFromMsg), periodic_timer.go, udp_conn.go (NewUDPConn timers, maybeBind/startBinding/bindChannel,
Close)}, client.go + internal/client/transaction.go (retransmission offsets), and on the server side
internal/server/{turn.go,util.go} (nonce check first, Refresh/CreatePermission/ChannelBind set expiries,
data needs permission / binding), internal/allocation (timers delete exactly at expiry).

A history stops being compared (`tainted`) when two independent activities fall on the same millisecond
and one of them changes the nonce, when an action falls exactly on an expiry instant, or once the
allocation has died: the real order of goroutines is then not determined by the inputs.
-/
namespace Turn.KeepAlive

/-- retransmission interval after transmission `i` (RTO 200 ms doubling, capped at 1600 ms) -/
def interval (i : Nat) : Nat := min (200 * 2 ^ i) 1600
/-- offset of transmission `i` from the start of its transaction -/
def off : Nat → Nat
  | 0 => 0
  | i + 1 => off i + interval i

/-- fate of one transaction: the first `a` transmissions are lost on the way to the server, the next `b`
    are processed but their responses are lost, transmission `a+b` is answered; `dup` delivers that
    last request twice -/
structure Pat where
  a : Nat
  b : Nat
  dup : Bool
  deriving Repr, DecidableEq, Inhabited

structure Cfg where
  life : Nat      -- server: allocation lifetime granted (ms)
  permT : Nat     -- server: permission timeout
  chanT : Nat     -- server: channel binding timeout
  permP : Nat     -- client: permission refresh interval
  bindAge : Nat   -- client: binding refresh interval
  bindP : Nat     -- client: binding check interval
  peers : Nat
  lossRf : List Pat
  lossCp : List Pat
  lossCb : List Pat
  lossRf0 : List Pat := []   -- fate of Close's Refresh(0)
  deriving Repr, Inhabited

inductive Kind | rf (lt : Nat) | cp | cb (p : Nat)
  deriving Repr, DecidableEq, Inhabited

inductive Code | ok | stale | dead
  deriving Repr, DecidableEq, Inhabited

structure Txn where
  start : Nat
  i : Nat
  pat : Pat
  nonce : Nat      -- minute in which the nonce carried by the request was minted
  attempt : Nat
  deriving Repr, Inhabited

def Txn.due (x : Txn) : Nat := x.start + off x.i

structure Bnd where
  ready : Bool       -- false: a refresh is in flight (the binding is still used for ChannelData)
  refreshedAt : Nat
  deriving Repr, Inhabited

structure St where
  cfg : Cfg
  now : Nat := 0
  dead : Bool := false
  closed : Bool := false
  tainted : Bool := false
  why : Nat := 0                   -- why the history stopped being determined: 1 expiry edge, 2 nonce race, 3 fuel, 4 attempts, 5 close while busy
  -- client
  nonce : Nat := 0
  allocWake : Option Nat := none   -- none while the handler runs
  allocTx : Option Txn := none     -- the Refresh transaction of the running handler
  permWake : Option Nat := none
  permTx : Option Txn := none
  bindWake : Option Nat := none
  bnds : List Bnd := []
  bindTx : List (Option Txn) := [] -- per peer: the ChannelBind transaction of the running bindChannel goroutine
  closeTx : Option Txn := none     -- Close's Refresh(0): nobody waits for its result, but it is retransmitted like any other
  rfIdx : Nat := 0
  cpIdx : Nat := 0
  cbIdx : List Nat := []
  -- server
  allocExp : Option Nat := none
  permExp : List Nat := []         -- per peer, 0 = none
  chanExp : List Nat := []
  deriving Repr, Inhabited

inductive Out
  | resp (t : Nat) (k : Kind) (c : Code)
  | dp (t p : Nat)             -- the peer received a datagram from the client
  | dc (t p : Nat)             -- the client read a datagram from the peer
  | wd (t p : Nat) (ok : Bool) -- WriteTo returned
  | count (n : Nat)
  deriving Repr, DecidableEq

def minuteOf (t : Nat) : Nat := t / 60000
def nonceWindow : Nat := 60

def init (c : Cfg) : St :=
  { cfg := c, nonce := 0, allocWake := some (c.life / 2), permWake := some c.permP, bindWake := some c.bindP,
    bnds := List.replicate c.peers ⟨true, 0⟩, bindTx := List.replicate c.peers none, cbIdx := List.replicate c.peers 0,
    allocExp := some c.life, permExp := List.replicate c.peers c.permT, chanExp := List.replicate c.peers c.chanT }

def pick (tbl : List Pat) (i : Nat) : Pat := if tbl.isEmpty then ⟨0, 0, false⟩ else tbl.getD (i % tbl.length) ⟨0, 0, false⟩

def allocLive (s : St) (t : Nat) : Bool := match s.allocExp with | some e => t < e | none => false
def permLive (s : St) (p t : Nat) : Bool := t < s.permExp.getD p 0
def chanLive (s : St) (p t : Nat) : Bool := t < s.chanExp.getD p 0

/-- an action at `t` that lands exactly on an expiry instant races with the server's timer -/
def onEdge (s : St) (t : Nat) : Bool :=
  s.allocExp == some t || s.permExp.contains t || s.chanExp.contains t

/-- the server processes one request (authentication — hence the nonce — first) -/
def srvProc (s : St) (t : Nat) (k : Kind) (nonce : Nat) : St × Code :=
  if minuteOf t - nonce > nonceWindow then (s, .stale)
  else if !allocLive s t then (s, .dead)
  else match k with
    | .rf 0 => ({ s with allocExp := none }, .ok)
    | .rf lt => ({ s with allocExp := some (t + lt) }, .ok)
    | .cp => ({ s with permExp := List.replicate s.cfg.peers (t + s.cfg.permT) }, .ok)
    | .cb p => ({ s with chanExp := s.chanExp.set p (t + s.cfg.chanT), permExp := s.permExp.set p (t + s.cfg.permT) }, .ok)

/-- a fresh transaction of the given kind, with the fate the loss tables assign to it -/
def newTxn (s : St) (t : Nat) (k : Kind) (attempt : Nat) : Txn :=
  match k with
  | .rf _ => ⟨t, 0, pick s.cfg.lossRf s.rfIdx, s.nonce, attempt⟩
  | .cp => ⟨t, 0, pick s.cfg.lossCp s.cpIdx, s.nonce, attempt⟩
  | .cb p => ⟨t, 0, pick s.cfg.lossCb (s.cbIdx.getD p 0 + 3 * p), s.nonce, attempt⟩

def startAlloc (s : St) (t attempt : Nat) : St :=
  { s with allocTx := some (newTxn s t (.rf s.cfg.life) attempt), rfIdx := s.rfIdx + 1 }
def startPerm (s : St) (t attempt : Nat) : St :=
  { s with permTx := some (newTxn s t .cp attempt), cpIdx := s.cpIdx + 1 }
def startBind (s : St) (t p attempt : Nat) : St :=
  { s with bindTx := s.bindTx.set p (some (newTxn s t (.cb p) attempt)), cbIdx := s.cbIdx.set p (s.cbIdx.getD p 0 + 1) }

/-- udp_conn.go maybeBind/startBinding for an established binding -/
def maybeBind (s : St) (t p : Nat) : St :=
  match s.bnds[p]? with
  | some b => if b.ready && t - b.refreshedAt > s.cfg.bindAge
              then startBind { s with bnds := s.bnds.set p { b with ready := false } } t p 0
              else s
  | none => s

def maxAttempts : Nat := 3

/-- the client transmits a request 7 times (indices 0…6) and gives up at `off 7`; a transaction that is
    answered at all is therefore answered within `dTx` of its start -/
def maxIdx : Nat := 6

inductive Root | alloc | allocTx | perm | permTx | bind | bindTx (p : Nat) | closeTx
  deriving Repr, DecidableEq

def optRoot (o : Option Nat) (r : Root) : List (Nat × Root) := match o with | some w => [(w, r)] | none => []

def roots (s : St) : List (Nat × Root) :=
  optRoot s.allocWake .alloc ++ optRoot (s.allocTx.map Txn.due) .allocTx ++
  optRoot s.permWake .perm ++ optRoot (s.permTx.map Txn.due) .permTx ++
  optRoot s.bindWake .bind ++
  (s.bindTx.zipIdx.flatMap fun (x, p) => optRoot (x.map Txn.due) (.bindTx p)) ++
  optRoot (s.closeTx.map Txn.due) .closeTx

def earliest : List (Nat × Root) → Option (Nat × Root)
  | [] => none
  | r :: rs => match earliest rs with
    | some m => if m.1 < r.1 then some m else some r
    | none => some r

def startsAt (t : Nat) : Option Txn → Bool
  | some x => x.start == t
  | none => false

/-- would another goroutine build a new request at instant `t`?  (A retransmission carries the nonce it was
    built with, so only transactions that start at `t` depend on the order in which a 438 is handled.) -/
def buildsAt (s : St) (t : Nat) : Bool :=
  s.allocWake == some t || (s.permWake == some t && s.cfg.peers != 0) ||
  (s.bindWake == some t && s.bnds.any (fun b => b.ready && t - b.refreshedAt > s.cfg.bindAge)) ||
  startsAt t s.allocTx || startsAt t s.permTx || s.bindTx.any (startsAt t)

/-- one transmission of transaction `x` of kind `k` (whose slot has been cleared in `s`): the new state, what
    the server answered, and the response code if this transmission completes the transaction -/
def transmit (s : St) (k : Kind) (x : Txn) : St × List Out × Option Code :=
  let t := x.due
  if x.i < x.pat.a then (s, [], none)
  else
    let r1 := srvProc s t k x.nonce
    let last := !(x.i < x.pat.a + x.pat.b)
    let twice := last && x.pat.dup
    let r2 := if twice then srvProc r1.1 t k x.nonce else r1
    let outs := if twice then [Out.resp t k r1.2, Out.resp t k r2.2] else [Out.resp t k r1.2]
    let edge := onEdge s t
    let racy := edge || (r1.2 == .stale && buildsAt r2.1 t)
    (if racy then { r2.1 with tainted := true, why := if edge then 1 else 2 } else r2.1, outs, if last then some r1.2 else none)

def next (x : Txn) : Txn := { x with i := x.i + 1 }

/-- allocation.go onRefreshTimers(timerIDRefreshAlloc) around one transmission of its Refresh -/
def fireAllocTx (s : St) (x : Txn) : St × List Out :=
  let (s1, outs, r) := transmit { s with allocTx := none } (.rf s.cfg.life) x
  match r with
  | none => ({ s1 with allocTx := some (next x) }, outs)
  | some .ok => (if s1.closed then s1 else { s1 with allocWake := some (x.due + s1.cfg.life / 2) }, outs)
  | some .stale =>
    let s2 := { s1 with nonce := minuteOf x.due }
    (if x.attempt + 1 < maxAttempts then startAlloc s2 x.due (x.attempt + 1) else { s2 with tainted := true, why := 4 }, outs)
  | some .dead => ({ s1 with dead := true }, outs)

def firePermTx (s : St) (x : Txn) : St × List Out :=
  let (s1, outs, r) := transmit { s with permTx := none } .cp x
  match r with
  | none => ({ s1 with permTx := some (next x) }, outs)
  | some .ok => (if s1.closed then s1 else { s1 with permWake := some (x.due + s1.cfg.permP) }, outs)
  | some .stale =>
    let s2 := { s1 with nonce := minuteOf x.due }
    (if x.attempt + 1 < maxAttempts then startPerm s2 x.due (x.attempt + 1) else { s2 with tainted := true, why := 4 }, outs)
  | some .dead => ({ s1 with dead := true }, outs)

def fireBindTx (s : St) (p : Nat) (x : Txn) : St × List Out :=
  let (s1, outs, r) := transmit { s with bindTx := s.bindTx.set p none } (.cb p) x
  match r with
  | none => ({ s1 with bindTx := s1.bindTx.set p (some (next x)) }, outs)
  | some .ok => ({ s1 with bnds := s1.bnds.set p ⟨true, x.due⟩ }, outs)
  | some .stale =>
    let s2 := { s1 with nonce := minuteOf x.due }
    (if x.attempt + 1 < maxAttempts then startBind s2 x.due p (x.attempt + 1) else { s2 with tainted := true, why := 4 }, outs)
  | some .dead => ({ s1 with dead := true }, outs)

/-- Close's Refresh(0): fire-and-forget for the caller, but the transaction keeps its retransmission timer.
    A 438 is not acted upon (finding F13); a request that finds no allocation gets no answer at all, so the
    client keeps retransmitting until it has sent all seven copies. -/
def fireCloseTx (s : St) (x : Txn) : St × List Out :=
  let (s1, outs, r) := transmit { s with closeTx := none } (.rf 0) x
  match r with
  | some .ok => (s1, outs)
  | some .stale => (s1, outs)
  | _ => (if x.i < maxIdx then { s1 with closeTx := some (next x) } else s1, outs)

def forPeers (n : Nat) (f : St → Nat → St) (s : St) : St := (List.range n).foldl f s

def fire (s : St) (t : Nat) : Root → St × List Out
  | .alloc => (startAlloc { s with allocWake := none } t 0, [])
  | .perm =>
    if s.cfg.peers == 0 then ({ s with permWake := some (t + s.cfg.permP) }, [])
    else (startPerm { s with permWake := none } t 0, [])
  | .bind => (forPeers s.cfg.peers (fun s p => maybeBind s t p) { s with bindWake := some (t + s.cfg.bindP) }, [])
  | .allocTx => match s.allocTx with | some x => fireAllocTx s x | none => (s, [])
  | .permTx => match s.permTx with | some x => firePermTx s x | none => (s, [])
  | .bindTx p => match s.bindTx.getD p none with | some x => fireBindTx s p x | none => (s, [])
  | .closeTx => match s.closeTx with | some x => fireCloseTx s x | none => (s, [])

/-- run every driver and transaction event due up to and including `target` -/
def advanceTo (target : Nat) : Nat → St → List Out → St × List Out
  | 0, s, acc => ({ s with tainted := true, why := 3 }, acc)
  | fuel + 1, s, acc =>
    match earliest (roots s) with
    | none => ({ s with now := target }, acc)
    | some (t, r) =>
      if t ≤ target then
        let (s', o) := fire { s with now := max s.now t } t r   -- (queue entries are never in the past, so this is t)
        advanceTo target fuel s' (acc ++ o)
      else ({ s with now := target }, acc)

inductive Op
  | adv (dt : Nat)
  | wr (p : Nat)      -- the application writes a datagram to peer p
  | pw (p : Nat)      -- peer p writes a datagram to the relayed address
  | close
  | count      -- Server.AllocationCount
  deriving Repr

def step (s : St) : Op → St × List Out
  | .adv dt => advanceTo (s.now + dt) ((dt / 100 + 16) * (s.cfg.peers + 4)) s []
  | .wr p =>
    let t := s.now
    -- an established binding (ready or being refreshed) carries the data as ChannelData; only the timer refreshes it
    let s1 := if onEdge s t then { s with tainted := true, why := 1 } else s
    (s1, [Out.wd t p true] ++ (if allocLive s t && chanLive s p t then [Out.dp t p] else []))
  | .pw p =>
    let t := s.now
    let s1 := if onEdge s t then { s with tainted := true, why := 1 } else s
    -- a peer with a live channel binding is relayed as ChannelData without a permission lookup (allocation.go)
    (s1, if allocLive s t && (chanLive s p t || permLive s p t) then [Out.dc t p] else [])
  | .close =>
    let t := s.now
    let busy := s.allocTx.isSome || s.permTx.isSome || s.bindTx.any Option.isSome
    let s0 := { s with closed := true, allocWake := none, permWake := none, bindWake := none,
                       closeTx := some ⟨t, 0, pick s.cfg.lossRf0 0, s.nonce, 0⟩ }
    let s0 := if onEdge s t || busy then { s0 with tainted := true, why := 5 } else s0
    advanceTo t 16 s0 []
  | .count => (s, [Out.count (if allocLive s s.now then 1 else 0)])

def dTx : Nat := off maxIdx
/-- a handler makes at most `maxAttempts` attempts -/
def dH : Nat := maxAttempts * dTx

/-- server timeouts compatible with the client's refresh cadence -/
def Compatible (c : Cfg) : Prop :=
  c.life / 2 + dH < c.life ∧ c.permP + dH < c.permT ∧ c.bindAge + c.bindP + dH < c.chanT ∧
  0 < c.life / 2 ∧ 0 < c.permP ∧ 0 < c.bindP
instance (c : Cfg) : Decidable (Compatible c) := by unfold Compatible; infer_instance

def run (s : St) : List Op → St × List Out
  | [] => (s, [])
  | op :: ops => let (s1, o1) := step s op; let (s2, o2) := run s1 ops; (s2, o1 ++ o2)

end Turn.KeepAlive
