def hello := "world"
