/-
Global (list-level) invariants of the server model: one allocation per 5-tuple, one allocation per
relayed address.
-/
import TurnModel.Lemmas.Server
namespace Turn.Srv

def keys (s : State) : List Key := s.allocs.map (·.key)

/-- an attribute of an allocation that no `Change` and no purge alters (key, relay address, …) -/
structure Stable (c : Cfg) {β : Type} (f : Alloc → β) : Prop where
  change : ∀ now a b, Change c now a b → f b = f a
  purge : ∀ t a, f (purgeAlloc t a).1 = f a

theorem Stable.changes {c β} {f : Alloc → β} (hf : Stable c f) {now a b} (h : Changes c now a b) : f b = f a := by
  induction h with
  | refl => rfl
  | step h _ ih => rw [ih, hf.change _ _ _ h]

theorem stable_key (c : Cfg) : Stable c (·.key) where
  change := fun _ _ _ h => h.key.1
  purge := fun _ _ => rfl

theorem stable_relay (c : Cfg) : Stable c (fun a => (a.relay, a.tcp)) where
  change := fun _ _ _ h => by simp [h.key.2.2.2.1, h.key.2.2.2.2]
  purge := fun _ _ => rfl

theorem nodup_map_filter {α β} (f : α → β) (p : α → Bool) (l : List α) (h : (l.map f).Nodup) :
    ((l.filter p).map f).Nodup := by
  induction l with
  | nil => simp
  | cons x xs ih =>
    simp only [List.map_cons, List.nodup_cons] at h
    simp only [List.filter_cons]
    split
    · simp only [List.map_cons, List.nodup_cons]
      refine ⟨?_, ih h.2⟩
      intro hm
      apply h.1
      simp only [List.mem_map, List.mem_filter] at hm ⊢
      obtain ⟨y, ⟨hy, _⟩, hfy⟩ := hm
      exact ⟨y, hy, hfy⟩
    · exact ih h.2

theorem inj_of_nodup_map {α β} (f : α → β) {l : List α} (h : (l.map f).Nodup) {a b : α} (ha : a ∈ l) (hb : b ∈ l)
    (hf : f a = f b) : a = b := by
  induction l with
  | nil => cases ha
  | cons x xs ih =>
    simp only [List.map_cons, List.nodup_cons, List.mem_map, not_exists, not_and] at h
    simp only [List.mem_cons] at ha hb
    rcases ha with rfl | ha <;> rcases hb with rfl | hb
    · rfl
    · exact absurd hf.symm (h.1 b hb)
    · exact absurd hf (h.1 a ha)
    · exact ih h.2 ha hb

/-- with unique keys, two stored allocations with the same key are the same allocation -/
theorem eq_of_key_eq {l : List Alloc} (h : (l.map (·.key)).Nodup) {a b : Alloc} (ha : a ∈ l) (hb : b ∈ l)
    (hk : a.key = b.key) : a = b := by
  induction l with
  | nil => cases ha
  | cons x xs ih =>
    simp only [List.map_cons, List.nodup_cons, List.mem_map, not_exists, not_and] at h
    simp only [List.mem_cons] at ha hb
    rcases ha with rfl | ha <;> rcases hb with rfl | hb
    · rfl
    · exact absurd hk.symm (h.1 b hb)
    · exact absurd hk (h.1 a ha)
    · exact ih h.2 ha hb

theorem map_replace_eq {β} (f : Alloc → β) (l : List Alloc) (hk : (l.map (·.key)).Nodup) (a b : Alloc) (hb : b ∈ l)
    (hkey : a.key = b.key) (hf : f a = f b) :
    (l.map (fun x => if x.key == a.key then a else x)).map f = l.map f := by
  rw [List.map_map]
  apply List.map_congr_left
  intro x hx
  simp only [Function.comp]
  split
  · rename_i hxk
    have : x = b := eq_of_key_eq hk hx hb (by rw [← hkey]; simpa using hxk)
    rw [this, hf]
  · rfl

/-- the generic list-level step lemma: the `f`-images of the stored allocations stay pairwise distinct -/
theorem nodup_step {c : Cfg} {β : Type} (f : Alloc → β) (hf : Stable c f)
    (hfresh : ∀ s k a, Fresh c s k a → f a ∉ s.allocs.map f)
    (s : State) (op : Op) (hk : (keys s).Nodup) (hn : (s.allocs.map f).Nodup) :
    ((step c s op).1.allocs.map f).Nodup := by
  have hrep : ∀ (a b : Alloc), b ∈ s.allocs → Changes c s.now b a →
      ((replaceAlloc s a).allocs.map f).Nodup := by
    intro a b hb hc
    simp only [replaceAlloc]
    rw [map_replace_eq f s.allocs hk a b hb ((stable_key c).changes hc) (hf.changes hc)]
    exact hn
  cases op with
  | adv dt =>
    simp only [step, advance, List.map_map]
    have : (List.map (f ∘ (fun x => x.1) ∘ purgeAlloc (s.now + dt)) (List.filter (fun a => decide (s.now + dt < a.expiry)) s.allocs))
        = (List.filter (fun a => decide (s.now + dt < a.expiry)) s.allocs).map f := by
      apply List.map_congr_left
      intro x _
      exact hf.purge _ _
    rw [this]
    exact nodup_map_filter f _ _ hn
  | msg k sz m =>
    simp only [step]
    split; · exact hn
    split; · exact hn
    split
    · split
      · rename_i outs a hcb
        obtain ⟨b, id, hb, rfl⟩ := hConnBind_ok hcb
        exact hrep _ b hb (.one (.bound b id k))
      · exact hn
    · simp only
      have hu := handle_ok c s k m
      cases hupd : (handle c s k m).upd with
      | keep => simpa [applyUpd] using hn
      | del => simp only [applyUpd, delAlloc]; exact nodup_map_filter f _ _ hn
      | set a =>
        rw [hupd] at hu
        simp only [applyUpd, setAlloc, List.map_cons, List.nodup_cons]
        rcases hu with hfr | ⟨b, hb, hc⟩
        · rw [key_eta a k hfr.key]
          refine ⟨?_, nodup_map_filter f _ _ hn⟩
          intro hm
          apply hfresh s k a hfr
          simp only [List.mem_map, List.mem_filter] at hm ⊢
          obtain ⟨y, ⟨hy, _⟩, hfy⟩ := hm
          exact ⟨y, hy, hfy⟩
        · have hbk := findAlloc_some hb
          have hak : a.key = k := by rw [(stable_key c).changes hc]; exact hbk.2
          rw [key_eta a k hak]
          refine ⟨?_, nodup_map_filter f _ _ hn⟩
          -- f a = f b, and b (the only allocation with key k) was filtered out
          intro hm
          simp only [List.mem_map, List.mem_filter] at hm
          obtain ⟨y, ⟨hy, hyk⟩, hfy⟩ := hm
          rw [hf.changes hc] at hfy
          have hyb : y ≠ b := by
            intro h; subst h; simp [hbk.2] at hyk
          -- two different members with the same f-image contradict Nodup
          exact hyb (inj_of_nodup_map f hn hy hbk.1 hfy)
  | peerData => exact hn
  | peerConn relay frm cid =>
    simp only [step]
    split; · exact hn
    rename_i a ha
    split; · exact hn
    split; · exact hn
    rename_i hp hd
    simp only [Bool.or_eq_true, not_or] at hd
    exact hrep _ a (List.mem_of_find?_eq_some ha) (.one (.connIn a cid frm (by simpa using hp) (by simpa using hd.2)))
  | ctrlClose k =>
    simp only [step]
    split
    · simp only [delAlloc]; exact nodup_map_filter f _ _ hn
    · exact hn
  | relayErr r =>
    simp only [step]
    split
    · simp only [delAlloc]; exact nodup_map_filter f _ _ hn
    · exact hn
  | pipeC2P k d => simp only [step]; split <;> exact hn
  | pipeP2C lid cid d =>
    simp only [step]
    split
    · rename_i a ha
      split
      · split
        · exact hn
        · exact hrep _ a (connOwner_mem ha) (.one (.pend a cid d))
      · exact hn
    · exact hn
  | pipeCloseC k =>
    simp only [step]
    split
    · rename_i a t hp
      exact hrep _ a (pipeOf_mem hp) (.one (.drop a t.id))
    · exact hn
  | pipeCloseP lid cid =>
    simp only [step]
    split
    · rename_i a ha
      split
      · split
        · exact hrep _ a (connOwner_mem ha) (.one (.drop a cid))
        · exact hn
      · exact hn
    · exact hn
  | close => simp [step]

theorem fresh_key_notin {c : Cfg} (s : State) (k : Key) (a : Alloc) (h : Fresh c s k a) :
    a.key ∉ s.allocs.map (·.key) := by
  intro hm
  simp only [List.mem_map] at hm
  obtain ⟨b, hb, hbk⟩ := hm
  have hnone := h.none
  unfold findAlloc at hnone
  rw [List.find?_eq_none] at hnone
  have := hnone b hb
  rw [h.key] at hbk
  simp [hbk] at this

theorem fresh_relay_notin {c : Cfg} (s : State) (k : Key) (a : Alloc) (h : Fresh c s k a) :
    (a.relay, a.tcp) ∉ s.allocs.map (fun a => (a.relay, a.tcp)) := by
  intro hm
  simp only [List.mem_map, Prod.mk.injEq] at hm
  obtain ⟨b, hb, hbr, hbt⟩ := hm
  have := h.relayFree
  simp only [relayBusy, List.any_eq_false, Bool.and_eq_true, beq_iff_eq, not_and] at this
  exact this b hb hbr hbt

/-- never more than one allocation per 5-tuple, never two allocations on one relayed address -/
def Unique (s : State) : Prop := (keys s).Nodup ∧ (s.allocs.map (fun a => (a.relay, a.tcp))).Nodup

theorem unique_step {c : Cfg} (s : State) (op : Op) (h : Unique s) : Unique (step c s op).1 :=
  ⟨nodup_step (·.key) (stable_key c) fresh_key_notin s op h.1 h.1,
   nodup_step _ (stable_relay c) fresh_relay_notin s op h.1 h.2⟩

theorem unique_reach {c : Cfg} {s : State} (h : Reach c s) : Unique s := by
  obtain ⟨ops, rfl⟩ := h
  have : ∀ (ops : List Op) (s0 : State), Unique s0 → Unique (run c s0 ops).1 := by
    intro ops
    induction ops with
    | nil => intro s0 h; exact h
    | cons o os ih => intro s0 h; simp only [run]; exact ih _ (unique_step s0 o h)
  exact this ops init ⟨by simp [keys, init], by simp [init]⟩

end Turn.Srv
