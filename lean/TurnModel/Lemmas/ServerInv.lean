/-
Pointwise invariants of the server model shared by several properties:
`Live` (every stored entry is unexpired), `PolicyOK` (operator policy and address family),
`ChanBij` (channel bindings one-to-one, numbers in range).
-/
import TurnModel.Lemmas.Server
namespace Turn.Srv

theorem hasPerm_iff {a : Alloc} {ip : IP} : hasPerm a ip = true ↔ ∃ p ∈ a.perms, p.ip = ip := by
  simp [hasPerm]

theorem chanByNum_some {a : Alloc} {n : Nat} {ch : Chan} (h : chanByNum a n = some ch) : ch ∈ a.chans ∧ ch.num = n := by
  unfold chanByNum at h
  exact ⟨List.mem_of_find?_eq_some h, by simpa using List.find?_some h⟩

theorem chanByAddr_some {a : Alloc} {p : Addr} {ch : Chan} (h : chanByAddr a p = some ch) : ch ∈ a.chans ∧ ch.peer = p := by
  unfold chanByAddr at h
  exact ⟨List.mem_of_find?_eq_some h, by simpa using List.find?_some h⟩

/-- timeouts are positive (NewServer replaces zero values by the defaults) -/
structure CfgOK (c : Cfg) : Prop where
  perm : 0 < c.permT
  chan : 0 < c.chanT

/-- every stored entry is unexpired -/
def Live (now : Nat) (a : Alloc) : Prop :=
  now < a.expiry ∧ (∀ p ∈ a.perms, now < p.expiry) ∧ (∀ ch ∈ a.chans, now < ch.expiry)

theorem mem_addPerm {now t ip} {a : Alloc} {p : Perm} (h : p ∈ (addPerm now t ip a).perms) :
    p = ⟨ip, now + t⟩ ∨ (p ∈ a.perms ∧ p.ip ≠ ip) := by
  simp only [addPerm, List.mem_cons, List.mem_filter] at h
  rcases h with h | ⟨h1, h2⟩
  · exact Or.inl h
  · exact Or.inr ⟨h1, by simpa using h2⟩

theorem mem_addChan_chans {now c n p} {a : Alloc} {ch : Chan} (h : ch ∈ (addChan now c n p a).chans) :
    ch = ⟨n, p, now + c.chanT⟩ ∨ (ch ∈ a.chans ∧ ch.num ≠ n) := by
  simp only [addChan, addPerm, List.mem_cons, List.mem_filter] at h
  rcases h with h | ⟨h1, h2⟩
  · exact Or.inl h
  · exact Or.inr ⟨h1, by simpa using h2⟩

theorem mem_addChan_perms {now c n p} {a : Alloc} {q : Perm} (h : q ∈ (addChan now c n p a).perms) :
    q = ⟨p.ip, now + c.permT⟩ ∨ (q ∈ a.perms ∧ q.ip ≠ p.ip) := by
  simp only [addChan] at h
  exact mem_addPerm h

theorem live_point {c : Cfg} (hc : CfgOK c) : PointInv c Live where
  fresh := by
    intro s k a hf
    exact ⟨hf.live, by simp [hf.perms], by simp [hf.chans]⟩
  change := by
    intro now a b ⟨h1, h2, h3⟩ hch
    cases hch with
    | refresh e h => exact ⟨h, h2, h3⟩
    | perm ip hg hf =>
      refine ⟨h1, ?_, h3⟩
      intro p hp
      rcases mem_addPerm hp with rfl | ⟨hp, _⟩
      · exact Nat.lt_add_of_pos_right hc.perm
      · exact h2 p hp
    | chan n p hv hf hg hcf =>
      refine ⟨h1, ?_, ?_⟩
      · intro q hq
        rcases mem_addChan_perms hq with rfl | ⟨hq, _⟩
        · exact Nat.lt_add_of_pos_right hc.perm
        · exact h2 q hq
      · intro ch hch
        rcases mem_addChan_chans hch with rfl | ⟨hch, _⟩
        · exact Nat.lt_add_of_pos_right hc.chan
        · exact h3 ch hch
    | connOut => exact ⟨h1, h2, h3⟩
    | connIn => exact ⟨h1, h2, h3⟩
    | bound => exact ⟨h1, h2, h3⟩
    | drop => exact ⟨h1, h2, h3⟩
    | pend => exact ⟨h1, h2, h3⟩
  purge := by
    intro now dt a _ hl
    refine ⟨hl, ?_, ?_⟩
    · intro p hp
      simp only [purgeAlloc, List.mem_filter] at hp
      simpa using hp.2
    · intro ch hch
      simp only [purgeAlloc, List.mem_filter] at hch
      simpa using hch.2

/-- every installed permission, binding and outbound TCP peer is one the operator's permission handler
    granted, and permissions and bindings are of the allocation's address family -/
def PolicyOK (c : Cfg) (_ : Nat) (a : Alloc) : Prop :=
  (∀ p ∈ a.perms, granted c a.key p.ip = true ∧ famOK p.ip a.fam = true) ∧
  (∀ ch ∈ a.chans, granted c a.key ch.peer.ip = true ∧ famOK ch.peer.ip a.fam = true) ∧
  (∀ t ∈ a.conns, t.inbound = false → granted c a.key t.peer.ip = true)

theorem policy_point (c : Cfg) : PointInv c (PolicyOK c) where
  fresh := by
    intro s k a hf
    exact ⟨by simp [hf.perms], by simp [hf.chans], by simp [hf.conns]⟩
  change := by
    intro now a b ⟨h1, h2, h3⟩ hch
    cases hch with
    | refresh e h => exact ⟨h1, h2, h3⟩
    | perm ip hg hf =>
      refine ⟨?_, h2, h3⟩
      intro p hp
      rcases mem_addPerm hp with rfl | ⟨hp, _⟩
      · exact ⟨hg, hf⟩
      · exact h1 p hp
    | chan n p hv hf hg hcf =>
      refine ⟨?_, ?_, h3⟩
      · intro q hq
        rcases mem_addChan_perms hq with rfl | ⟨hq, _⟩
        · exact ⟨hg, hf⟩
        · exact h1 q hq
      · intro ch hch
        rcases mem_addChan_chans hch with rfl | ⟨hch, _⟩
        · exact ⟨hg, hf⟩
        · exact h2 ch hch
    | connOut cid p hg hd =>
      refine ⟨h1, h2, ?_⟩
      intro t ht hin
      simp only [List.mem_cons] at ht
      rcases ht with rfl | ht
      · exact hg
      · exact h3 t ht hin
    | connIn cid p hp hd =>
      refine ⟨h1, h2, ?_⟩
      intro t ht hin
      simp only [List.mem_cons] at ht
      rcases ht with rfl | ht
      · simp at hin
      · exact h3 t ht hin
    | bound cid dk =>
      refine ⟨h1, h2, ?_⟩
      intro t ht hin
      simp only [markBound, List.mem_map] at ht
      obtain ⟨u, hu, rfl⟩ := ht
      split at hin <;> split <;> simp_all <;> exact h3 u hu (by simpa using hin)
    | drop cid =>
      refine ⟨h1, h2, ?_⟩
      intro t ht hin
      simp only [dropConn, List.mem_filter] at ht
      exact h3 t ht.1 hin
    | pend cid d =>
      refine ⟨h1, h2, ?_⟩
      intro t ht hin
      simp only [List.mem_map] at ht
      obtain ⟨u, hu, rfl⟩ := ht
      split at hin <;> split <;> simp_all <;> exact h3 u hu (by simpa using hin)
  purge := by
    intro now dt a ⟨h1, h2, h3⟩ _
    refine ⟨?_, ?_, ?_⟩
    · intro p hp
      simp only [purgeAlloc, List.mem_filter] at hp
      exact h1 p hp.1
    · intro ch hch
      simp only [purgeAlloc, List.mem_filter] at hch
      exact h2 ch hch.1
    · intro t ht hin
      simp only [purgeAlloc, List.mem_filter] at ht
      exact h3 t ht.1 hin

/-- channel bindings of an allocation: numbers pairwise distinct, peers pairwise distinct, all numbers
    in the valid range -/
def ChanBij (_ : Nat) (a : Alloc) : Prop :=
  (a.chans.map (·.num)).Nodup ∧ (a.chans.map (·.peer)).Nodup ∧ ∀ ch ∈ a.chans, chanValid ch.num = true

theorem nodup_map_filter' {α β} (f : α → β) (p : α → Bool) (l : List α) (h : (l.map f).Nodup) :
    ((l.filter p).map f).Nodup := by
  induction l with
  | nil => simp
  | cons x xs ih =>
    simp only [List.map_cons, List.nodup_cons] at h
    simp only [List.filter_cons]
    split
    · simp only [List.map_cons, List.nodup_cons]
      refine ⟨?_, ih h.2⟩
      intro hm
      apply h.1
      simp only [List.mem_map, List.mem_filter] at hm ⊢
      obtain ⟨y, ⟨hy, _⟩, hfy⟩ := hm
      exact ⟨y, hy, hfy⟩
    · exact ih h.2

theorem inj_of_nodup {α β} (f : α → β) {l : List α} (h : (l.map f).Nodup) {a b : α} (ha : a ∈ l) (hb : b ∈ l)
    (hf : f a = f b) : a = b := by
  induction l with
  | nil => cases ha
  | cons x xs ih =>
    simp only [List.map_cons, List.nodup_cons, List.mem_map, not_exists, not_and] at h
    simp only [List.mem_cons] at ha hb
    rcases ha with rfl | ha <;> rcases hb with rfl | hb
    · rfl
    · exact absurd hf.symm (h.1 b hb)
    · exact absurd hf (h.1 a ha)
    · exact ih h.2 ha hb

/-- with distinct numbers and no conflict, a stored binding with the requested number has the
    requested peer; with distinct peers, one with the requested peer has the requested number -/
theorem no_conflict_same {a : Alloc} {n : Nat} {p : Addr} (hbij : ChanBij 0 a) (hc : bindConflict a n p = false)
    {ch : Chan} (hch : ch ∈ a.chans) : (ch.num = n → ch.peer = p) ∧ (ch.peer = p → ch.num = n) := by
  simp only [bindConflict, Bool.or_eq_false_iff] at hc
  constructor
  · intro hn
    cases hfind : chanByNum a n with
    | none =>
      unfold chanByNum at hfind
      rw [List.find?_eq_none] at hfind
      have := hfind ch hch
      simp [hn] at this
    | some ch0 =>
      have h2 := hc.2
      rw [hfind] at h2
      obtain ⟨h0m, h0n⟩ := chanByNum_some hfind
      have : ch = ch0 := inj_of_nodup (·.num) hbij.1 hch h0m (by simp [hn, h0n])
      rw [this]; simpa using h2
  · intro hp
    cases hfind : chanByAddr a p with
    | none =>
      unfold chanByAddr at hfind
      rw [List.find?_eq_none] at hfind
      have := hfind ch hch
      simp [hp] at this
    | some ch0 =>
      have h1 := hc.1
      rw [hfind] at h1
      obtain ⟨h0m, h0p⟩ := chanByAddr_some hfind
      have : ch = ch0 := inj_of_nodup (·.peer) hbij.2.1 hch h0m (by simp [hp, h0p])
      rw [this]; simpa using h1

theorem chanbij_point (c : Cfg) : PointInv c ChanBij where
  fresh := by intro s k a hf; simp [ChanBij, hf.chans]
  change := by
    intro now a b hb hch
    cases hch with
    | refresh e h => exact hb
    | perm ip hg hf => exact hb
    | chan n p hv hf hg hcf =>
      have hsame := fun ch hch => no_conflict_same (a := a) hb hcf (ch := ch) hch
      obtain ⟨h1, h2, h3⟩ := hb
      refine ⟨?_, ?_, ?_⟩
      · simp only [addChan, addPerm, List.map_cons, List.nodup_cons]
        refine ⟨?_, nodup_map_filter' _ _ _ h1⟩
        simp only [List.mem_map, List.mem_filter, not_exists, not_and]
        intro ch ⟨_, hne⟩ heq
        simp [heq] at hne
      · simp only [addChan, addPerm, List.map_cons, List.nodup_cons]
        refine ⟨?_, nodup_map_filter' _ _ _ h2⟩
        simp only [List.mem_map, List.mem_filter, not_exists, not_and]
        intro ch ⟨hm, hne⟩ heq
        have := (hsame ch hm).2 heq
        simp [this] at hne
      · intro ch hch
        rcases mem_addChan_chans hch with rfl | ⟨hch, _⟩
        · exact hv
        · exact h3 ch hch
    | connOut => exact hb
    | connIn => exact hb
    | bound => exact hb
    | drop => exact hb
    | pend => exact hb
  purge := by
    intro now dt a ⟨h1, h2, h3⟩ _
    refine ⟨nodup_map_filter' _ _ _ h1, nodup_map_filter' _ _ _ h2, ?_⟩
    intro ch hch
    simp only [purgeAlloc, List.mem_filter] at hch
    exact h3 ch hch.1

end Turn.Srv
