/-
Step analysis of the server model: how `step` can change the allocation table.
Every pointwise invariant of Props/C0x is proved from `step_allocs` below.
-/
import TurnModel.Model.Server
namespace Turn.Srv

theorem findAlloc_some {s : State} {k : Key} {a : Alloc} (h : findAlloc s k = some a) :
    a ∈ s.allocs ∧ a.key = k := by
  unfold findAlloc at h
  exact ⟨List.mem_of_find?_eq_some h, by simpa using List.find?_some h⟩

theorem ownAlloc_some {s : State} {k : Key} {u : String} {a : Alloc} (h : ownAlloc s k u = some a) :
    findAlloc s k = some a ∧ a.user = u := by
  unfold ownAlloc at h
  split at h
  · rename_i b hb
    split at h
    · rename_i hu; cases h; exact ⟨hb, by simpa using hu⟩
    · cases h
  · cases h

theorem mem_setAlloc {s : State} {a x : Alloc} :
    x ∈ (setAlloc s a).allocs ↔ x = a ∨ (x ∈ s.allocs ∧ x.key ≠ a.key) := by
  simp [setAlloc]

theorem mem_delAlloc {s : State} {k : Key} {x : Alloc} :
    x ∈ (delAlloc s k).allocs ↔ x ∈ s.allocs ∧ x.key ≠ k := by
  simp [delAlloc]

theorem mem_replaceAlloc {s : State} {a x : Alloc} (h : x ∈ (replaceAlloc s a).allocs) :
    x ∈ s.allocs ∨ (x = a ∧ ∃ b ∈ s.allocs, b.key = a.key) := by
  simp only [replaceAlloc, List.mem_map] at h
  obtain ⟨b, hb, rfl⟩ := h
  split
  · rename_i hk; exact Or.inr ⟨rfl, b, hb, by simpa using hk⟩
  · exact Or.inl hb

/-- the changes a request or a relay-side event can make to one existing allocation -/
inductive Change (c : Cfg) (now : Nat) : Alloc → Alloc → Prop
  | refresh (a : Alloc) (e : Nat) (h : now < e) : Change c now a { a with expiry := e }
  | perm (a : Alloc) (ip : IP) (hg : granted c a.key ip = true) (hf : famOK ip a.fam = true) :
      Change c now a (addPerm now c.permT ip a)
  | chan (a : Alloc) (n : Nat) (p : Addr) (hv : chanValid n = true) (hf : famOK p.ip a.fam = true)
      (hg : granted c a.key p.ip = true) (hc : bindConflict a n p = false) :
      Change c now a (addChan now c n p a)
  | connOut (a : Alloc) (cid : Nat) (p : Addr) (hg : granted c a.key p.ip = true)
      (hd : dupeConn a p = false) :
      Change c now a { a with conns := ⟨cid, p, false, none, now + c.bindT, []⟩ :: a.conns }
  | connIn (a : Alloc) (cid : Nat) (p : Addr) (hp : hasPerm a p.ip = true) (hd : dupeConn a p = false) :
      Change c now a { a with conns := ⟨cid, p, true, none, now + c.bindT, []⟩ :: a.conns }
  | bound (a : Alloc) (cid : Nat) (dk : Key) : Change c now a (markBound a cid dk)
  | drop (a : Alloc) (cid : Nat) : Change c now a (dropConn a cid)
  | pend (a : Alloc) (cid : Nat) (d : Bytes) :
      Change c now a { a with conns := a.conns.map (fun u => if u.id == cid then { u with pend := u.pend ++ d } else u) }

inductive Changes (c : Cfg) (now : Nat) : Alloc → Alloc → Prop
  | refl (a : Alloc) : Changes c now a a
  | step {a b d : Alloc} (h : Change c now a b) (t : Changes c now b d) : Changes c now a d

theorem Changes.one {c now a b} (h : Change c now a b) : Changes c now a b := .step h (.refl b)

theorem Change.key {c now a b} (h : Change c now a b) : b.key = a.key ∧ b.fam = a.fam ∧ b.user = a.user ∧
    b.relay = a.relay ∧ b.tcp = a.tcp := by
  cases h <;> simp [addPerm, addChan, markBound, dropConn]

theorem Changes.key {c now a b} (h : Changes c now a b) : b.key = a.key ∧ b.fam = a.fam ∧ b.user = a.user ∧
    b.relay = a.relay ∧ b.tcp = a.tcp := by
  induction h with
  | refl => simp
  | step h _ ih => have := h.key; simp_all

/-- a brand-new allocation, as created by a successful Allocate -/
structure Fresh (c : Cfg) (s : State) (k : Key) (a : Alloc) : Prop where
  key : a.key = k
  none : findAlloc s k = none
  perms : a.perms = []
  chans : a.chans = []
  conns : a.conns = []
  live : s.now < a.expiry
  relayFree : relayBusy s a.relay a.tcp = false

theorem permLoop_changes (c : Cfg) (now : Nat) (k : Key) :
    ∀ (peers : List (Option Addr)) (a : Alloc), a.key = k →
      Changes c now a (permLoop c now k peers a).1 := by
  intro peers
  induction peers with
  | nil => intro a _; exact .refl a
  | cons p ps ih =>
    intro a hl
    cases p with
    | none => exact .refl a
    | some p =>
      simp only [permLoop]
      split
      · exact .refl a
      · split
        · exact .refl a
        · rename_i hf hg
          have hg' : granted c a.key p.ip = true := by rw [hl]; simpa using hg
          exact .step (.perm a p.ip hg' (by simpa using hf)) (ih _ (by simpa [addPerm] using hl))

end Turn.Srv

namespace Turn.Srv

/-- what a handler's update may be: nothing, a deletion of the caller's allocation, or the caller's
    allocation after a chain of `Change`s, or a fresh allocation on a free 5-tuple -/
def UpdOK (c : Cfg) (s : State) (k : Key) : Upd → Prop
  | .keep => True
  | .del => ∃ a, findAlloc s k = some a
  | .set a' => Fresh c s k a' ∨ ∃ a, findAlloc s k = some a ∧ Changes c s.now a a'

theorem lifetimeOf_pos_of_ne {c : Cfg} {lt : Attr Nat} (h : (lifetimeOf c lt == 0) = false) : 0 < lifetimeOf c lt := by
  have : lifetimeOf c lt ≠ 0 := by simpa using h
  omega

theorem hRefresh_ok (c s k tid cr lt fam) : UpdOK c s k (hRefresh c s k tid cr lt fam).upd := by
  unfold hRefresh
  split
  · split
    · trivial
    · rename_i a ha
      obtain ⟨hf, _⟩ := ownAlloc_some ha
      split
      · trivial
      · split
        · exact ⟨a, hf⟩
        · rename_i hg
          have hpos := lifetimeOf_pos_of_ne (c := c) (lt := lt) (by simpa using hg)
          exact Or.inr ⟨a, hf, .one (.refresh a (s.now + lifetimeOf c lt) (Nat.lt_add_of_pos_right hpos))⟩
  · trivial

theorem hCreatePerm_ok (c s k tid cr peers) : UpdOK c s k (hCreatePerm c s k tid cr peers).upd := by
  unfold hCreatePerm
  split
  · split
    · trivial
    · rename_i a ha
      obtain ⟨hf, _⟩ := ownAlloc_some ha
      have hk := (findAlloc_some hf).2
      have hc := permLoop_changes c s.now k peers a hk
      split
      · trivial
      · split
        · trivial
        · exact Or.inr ⟨a, hf, hc⟩
  · trivial

theorem bindChecks_ok {c k a num peer n p} (h : bindChecks c k a num peer = .ok (n, p)) :
    chanValid n = true ∧ famOK p.ip a.fam = true ∧ granted c k p.ip = true ∧ bindConflict a n p = false := by
  cases num with
  | absent => simp [bindChecks] at h
  | bad => simp [bindChecks] at h
  | val n' =>
    cases peer with
    | absent => simp only [bindChecks] at h; split at h <;> cases h
    | bad => simp only [bindChecks] at h; split at h <;> cases h
    | val p' =>
      by_cases hv : chanValid n' = true <;> by_cases hf : famOK p'.ip a.fam = true <;>
        by_cases hg : granted c k p'.ip = true <;> by_cases hc : bindConflict a n' p' = true <;>
        simp [bindChecks, hv, hf, hg, hc] at h
      obtain ⟨rfl, rfl⟩ := h
      exact ⟨hv, hf, hg, by simpa using hc⟩

theorem hChanBind_ok (c s k tid cr num peer) : UpdOK c s k (hChanBind c s k tid cr num peer).upd := by
  unfold hChanBind
  split
  · split
    · trivial
    · rename_i a ha
      obtain ⟨hf, _⟩ := ownAlloc_some ha
      have hk := (findAlloc_some hf).2
      split
      · trivial
      · rename_i n p hb
        obtain ⟨hv, hfam, hg, hc⟩ := bindChecks_ok hb
        exact Or.inr ⟨a, hf, .one (.chan a n p hv hfam (by rw [hk]; exact hg) hc)⟩
  · trivial

theorem connectChecks_ok {c s k a peer dialOK cid p} (h : connectChecks c s k a peer dialOK cid = some (.ok p)) :
    peer = .val p ∧ granted c k p.ip = true ∧ dupeConn a p = false ∧ cidUsed s k.lid cid = false ∧ p.port ≠ 0 := by
  cases peer with
  | absent => simp [connectChecks] at h
  | bad => simp [connectChecks] at h
  | val p' =>
    by_cases hg : granted c k p'.ip = true <;> by_cases hp : p'.port = 0 <;>
      by_cases hd : dupeConn a p' = true <;> by_cases hdl : dialOK = true <;>
      by_cases hu : cidUsed s k.lid cid = true <;>
      simp [connectChecks, hg, hp, hd, hdl, hu] at h
    subst h
    exact ⟨rfl, hg, by simpa using hd, by simpa using hu, hp⟩

theorem hConnect_ok (c s k tid cr peer dialOK cid) : UpdOK c s k (hConnect c s k tid cr peer dialOK cid).upd := by
  unfold hConnect
  split
  · split
    · trivial
    · rename_i a ha
      obtain ⟨hf, _⟩ := ownAlloc_some ha
      have hk := (findAlloc_some hf).2
      split
      · trivial
      · trivial
      · rename_i p hcc
        obtain ⟨_, hg, hd, _, _⟩ := connectChecks_ok hcc
        exact Or.inr ⟨a, hf, .one (.connOut a cid p (by rw [hk]; exact hg) hd)⟩
  · trivial

theorem famRes_ok {c k fam f} (h : famRes c k fam = .ok f) : f = 1 ∨ f = 2 ∨ (c.strict = false ∧ f = (getLis c k.lid).fam) := by
  cases fam with
  | absent =>
    simp only [famRes] at h
    cases h
    unfold defaultFam IP.fam
    split; · simp
    split
    · split <;> simp
    · simp_all
  | bad => simp [famRes] at h
  | val f' =>
    simp only [famRes] at h
    split at h
    · rename_i hf; cases h
      rcases (by simpa using hf : f = 1 ∨ f = 2) with h | h <;> simp [h]
    · cases h

theorem allocChecks_ok {c s k lt tr df tok even fam env tcp reqPort newTok f g}
    (h : allocChecks c s k lt tr df tok even fam env = .ok (tcp, reqPort, newTok, f, g)) :
    g = lifetimeOf c lt ∧ 0 < g ∧ famRes c k fam = .ok f ∧ (c.hasQuota = true → env.quota = true) := by
  unfold allocChecks at h
  split at h
  · cases h
  · cases h
  · split at h; · cases h
    split at h; · cases h
    split at h; · cases h
    split at h; · cases h
    split at h; · cases h
    split at h; · cases h
    rename_i hfam
    split at h; · cases h
    split at h; · cases h
    split at h; · cases h
    rename_i hq hl
    cases h
    refine ⟨rfl, lifetimeOf_pos_of_ne (by simpa using hl), hfam, ?_⟩
    intro hq'; simpa [hq'] using hq

theorem hAllocate_ok (c s k tid cr lt tr df tok even fam env) :
    UpdOK c s k (hAllocate c s k tid cr lt tr df tok even fam env).upd := by
  unfold hAllocate
  split
  · split
    · split <;> trivial
    · rename_i hnone
      split
      · trivial
      · rename_i tcp reqPort newTok f g hchk
        obtain ⟨_, hg, _, _⟩ := allocChecks_ok hchk
        split
        · trivial
        · split
          · trivial
          · rename_i hb
            exact Or.inl ⟨rfl, hnone, rfl, rfl, rfl, Nat.lt_add_of_pos_right hg, by simpa using hb⟩
  · trivial

theorem handle_ok (c : Cfg) (s : State) (k : Key) (m : Msg) : UpdOK c s k (handle c s k m).upd := by
  cases m with
  | allocate => exact hAllocate_ok ..
  | refresh => exact hRefresh_ok ..
  | createPerm => exact hCreatePerm_ok ..
  | chanBind => exact hChanBind_ok ..
  | send data peer =>
    simp only [handle, hSend]
    split; · trivial
    split
    · split <;> trivial
    · trivial
  | chanData raw =>
    simp only [handle, hChanData]
    split; · trivial
    split; · trivial
    split; · trivial
    split <;> trivial
  | binding => trivial
  | connect => exact hConnect_ok ..
  | connBind => trivial
  | unknownAttr => trivial
  | junk => trivial

/-- where an allocation found in the state after a step comes from -/
inductive Origin (c : Cfg) (s : State) (op : Op) (a' : Alloc) : Prop
  | same (h : a' ∈ s.allocs)
  | changed (a : Alloc) (h : a ∈ s.allocs) (hc : Changes c s.now a a')
  | fresh (k : Key) (h : Fresh c s k a')
  | purged (a : Alloc) (dt : Nat) (h : a ∈ s.allocs) (hop : op = .adv dt) (hl : s.now + dt < a.expiry)
      (he : a' = (purgeAlloc (s.now + dt) a).1)

theorem connOwner_mem {s : State} {lid cid : Nat} {a : Alloc} (h : connOwner s lid cid = some a) : a ∈ s.allocs :=
  List.mem_of_find?_eq_some h

theorem hConnBind_ok {c s k tid cr cid outs a'} (h : hConnBind c s k tid cr cid = (outs, some a')) :
    ∃ a id, a ∈ s.allocs ∧ a' = markBound a id k := by
  unfold hConnBind at h
  split at h
  · split at h
    · split at h; · cases h
      split at h
      · cases h
      · rename_i a ho
        split at h; · cases h
        split at h; · cases h
        cases h
        exact ⟨a, _, connOwner_mem ho, rfl⟩
    · cases h
  · cases h

theorem key_eta (a : Alloc) (k : Key) (h : a.key = k) : { a with key := k } = a := by
  cases a; simp_all

theorem applyUpd_origin {c : Cfg} {s : State} {k : Key} {u : Upd} {op : Op} (hu : UpdOK c s k u) {a' : Alloc}
    (h : a' ∈ (applyUpd s k u).1.allocs) : Origin c s op a' := by
  cases u with
  | keep => exact .same h
  | del => simp only [applyUpd] at h; exact .same (mem_delAlloc.mp h).1
  | set a =>
    simp only [applyUpd] at h
    rcases mem_setAlloc.mp h with rfl | ⟨h1, _⟩
    · rcases hu with hf | ⟨b, hb, hc⟩
      · rw [key_eta a k hf.key]; exact .fresh k hf
      · have hk : a.key = k := by rw [hc.key.1]; exact (findAlloc_some hb).2
        rw [key_eta a k hk]; exact .changed b (findAlloc_some hb).1 hc
    · exact .same h1

theorem pipeOf_mem {s : State} {k : Key} {a : Alloc} {t : TConn} (h : pipeOf s k = some (a, t)) : a ∈ s.allocs := by
  unfold pipeOf at h
  split at h
  · cases h
  · rename_i b hb
    split at h
    · cases h
    · cases h; exact List.mem_of_find?_eq_some hb

theorem replace_origin {c : Cfg} {s : State} {op : Op} {a b a' : Alloc} (hb : b ∈ s.allocs)
    (hc : Changes c s.now b a) (h : a' ∈ (replaceAlloc s a).allocs) : Origin c s op a' := by
  rcases mem_replaceAlloc h with h | ⟨rfl, _⟩
  · exact .same h
  · exact .changed b hb hc

/-- **step analysis**: every allocation after a step is an old one, an old one after a chain of
    `Change`s, a fresh one, or (time advance) a surviving old one purged of its expired entries -/
theorem step_allocs (c : Cfg) (s : State) (op : Op) (a' : Alloc) (h : a' ∈ (step c s op).1.allocs) :
    Origin c s op a' := by
  cases op with
  | adv dt =>
    simp only [step, advance, List.map_map, List.mem_map, List.mem_filter] at h
    obtain ⟨a, ⟨ha, hl⟩, rfl⟩ := h
    exact .purged a dt ha rfl (by simpa using hl) rfl
  | msg k sz m =>
    simp only [step] at h
    split at h; · exact .same h
    split at h; · exact .same h
    split at h
    · split at h
      · rename_i outs a hcb
        obtain ⟨b, id, hb, rfl⟩ := hConnBind_ok hcb
        exact replace_origin hb (.one (.bound b id k)) h
      · exact .same h
    · simp only at h
      exact applyUpd_origin (handle_ok c s k m) h
  | peerData => exact .same h
  | peerConn relay frm cid =>
    simp only [step] at h
    split at h; · exact .same h
    rename_i a ha
    have hm : a ∈ s.allocs := List.mem_of_find?_eq_some ha
    split at h; · exact .same h
    split at h; · exact .same h
    rename_i hp hd
    refine replace_origin hm (.one (.connIn a cid frm (by simpa using hp) ?_)) h
    simp only [Bool.or_eq_true, not_or] at hd
    simpa using hd.2
  | ctrlClose k =>
    simp only [step] at h
    split at h
    · exact .same (mem_delAlloc.mp h).1
    · exact .same h
  | relayErr r =>
    simp only [step] at h
    split at h
    · exact .same (mem_delAlloc.mp h).1
    · exact .same h
  | pipeC2P k d =>
    simp only [step] at h
    split at h <;> exact .same h
  | pipeP2C lid cid d =>
    simp only [step] at h
    split at h
    · rename_i a ha
      split at h
      · split at h
        · exact .same h
        · exact replace_origin (connOwner_mem ha) (.one (.pend a cid d)) h
      · exact .same h
    · exact .same h
  | pipeCloseC k =>
    simp only [step] at h
    split at h
    · rename_i a t hp
      exact replace_origin (pipeOf_mem hp) (.one (.drop a t.id)) h
    · exact .same h
  | pipeCloseP lid cid =>
    simp only [step] at h
    split at h
    · rename_i a ha
      split at h
      · split at h
        · exact replace_origin (connOwner_mem ha) (.one (.drop a cid)) h
        · exact .same h
      · exact .same h
    · exact .same h
  | close => simp [step] at h

theorem applyUpd_now (s : State) (k : Key) (u : Upd) : (applyUpd s k u).1.now = s.now := by
  cases u <;> simp [applyUpd, setAlloc, delAlloc]

theorem step_now (c : Cfg) (s : State) (op : Op) :
    (step c s op).1.now = match op with | .adv dt => s.now + dt | _ => s.now := by
  cases op with
  | adv dt => simp [step, advance]
  | msg k sz m =>
    simp only [step]
    split; · rfl
    split; · rfl
    split
    · split <;> simp [replaceAlloc]
    · simp [applyUpd_now]
  | peerData => rfl
  | peerConn => simp only [step]; split; · rfl
                split; · rfl
                split <;> simp [replaceAlloc]
  | ctrlClose => simp only [step]; split <;> simp [delAlloc]
  | relayErr => simp only [step]; split <;> simp [delAlloc]
  | pipeC2P => simp only [step]; split <;> rfl
  | pipeP2C => simp only [step]; split <;> (try split) <;> (try split) <;> simp [replaceAlloc]
  | pipeCloseC => simp only [step]; split <;> simp [replaceAlloc]
  | pipeCloseP => simp only [step]; split <;> (try split) <;> (try split) <;> simp [replaceAlloc]
  | close => simp [step]

/-- a property of single allocations that every way of creating or changing one preserves -/
structure PointInv (c : Cfg) (P : Nat → Alloc → Prop) : Prop where
  fresh : ∀ s k a, Fresh c s k a → P s.now a
  change : ∀ now a b, P now a → Change c now a b → P now b
  purge : ∀ now dt a, P now a → now + dt < a.expiry → P (now + dt) (purgeAlloc (now + dt) a).1

theorem PointInv.changes {c P} (hP : PointInv c P) {now a b} (h : Changes c now a b) (ha : P now a) : P now b := by
  induction h with
  | refl => exact ha
  | step h _ ih => exact ih (hP.change _ _ _ ha h)

def AllInv (P : Nat → Alloc → Prop) (s : State) : Prop := ∀ a ∈ s.allocs, P s.now a

theorem inv_step {c : Cfg} {P} (hP : PointInv c P) (s : State) (op : Op) (hs : AllInv P s) :
    AllInv P (step c s op).1 := by
  intro a' ha'
  have hn := step_now c s op
  cases step_allocs c s op a' ha' with
  | same h =>
    cases op with
    | adv dt => -- `same` cannot arise from adv except through `purged`; handle by the purge law with the filter
      simp only [step, advance, List.map_map, List.mem_map, List.mem_filter] at ha'
      obtain ⟨b, ⟨hb, hl⟩, rfl⟩ := ha'
      rw [hn]; exact hP.purge _ _ _ (hs b hb) (by simpa using hl)
    | _ => rw [hn]; exact hs a' h
  | changed a h hc =>
    cases op with
    | adv dt =>
      simp only [step, advance, List.map_map, List.mem_map, List.mem_filter] at ha'
      obtain ⟨b, ⟨hb, hl⟩, rfl⟩ := ha'
      rw [hn]; exact hP.purge _ _ _ (hs b hb) (by simpa using hl)
    | _ => rw [hn]; exact hP.changes hc (hs a h)
  | fresh k h =>
    cases op with
    | adv dt =>
      simp only [step, advance, List.map_map, List.mem_map, List.mem_filter] at ha'
      obtain ⟨b, ⟨hb, hl⟩, rfl⟩ := ha'
      rw [hn]; exact hP.purge _ _ _ (hs b hb) (by simpa using hl)
    | _ => rw [hn]; exact hP.fresh s k a' h
  | purged a dt h hop hl he =>
    subst hop; subst he
    rw [hn]; exact hP.purge _ _ _ (hs a h) hl

theorem inv_run {c : Cfg} {P} (hP : PointInv c P) : ∀ (ops : List Op) (s : State), AllInv P s → AllInv P (run c s ops).1 := by
  intro ops
  induction ops with
  | nil => intro s hs; exact hs
  | cons op ops ih =>
    intro s hs
    simp only [run]
    exact ih _ (inv_step hP s op hs)

/-- states reachable from the empty server by any operation history -/
def Reach (c : Cfg) (s : State) : Prop := ∃ ops, s = (run c init ops).1

theorem reach_inv {c : Cfg} {P} (hP : PointInv c P) {s : State} (h : Reach c s) : AllInv P s := by
  obtain ⟨ops, rfl⟩ := h
  exact inv_run hP ops init (by intro a ha; simp [init] at ha)

theorem reach_step {c : Cfg} {s : State} (h : Reach c s) (op : Op) : Reach c (step c s op).1 := by
  obtain ⟨ops, rfl⟩ := h
  refine ⟨ops ++ [op], ?_⟩
  have : ∀ (ops : List Op) (s0 : State), (run c s0 (ops ++ [op])).1 = (step c (run c s0 ops).1 op).1 := by
    intro ops
    induction ops with
    | nil => intro s0; simp [run]
    | cons o os ih => intro s0; simp only [List.cons_append, run]; exact ih _
  exact (this ops init).symm

end Turn.Srv
