import TurnModel.Model.Nonce
namespace Turn.Nonce

theorem ofDigits_append (b : Nat) (l : List Nat) (d : Nat) : ofDigits b (l ++ [d]) = ofDigits b l * b + d := by
  simp [ofDigits, List.foldl_append]

theorem ofDigits_toDigits (b : Nat) (hb : 1 < b) (n : Nat) : ofDigits b (toDigits b hb n) = n := by
  induction n using Nat.strongRecOn with
  | _ n ih =>
    unfold toDigits
    split
    · rename_i h; simp [ofDigits, h]
    · rename_i h
      rw [ofDigits_append, ih (n / b) (Nat.div_lt_self (Nat.pos_of_ne_zero h) hb)]
      exact Nat.div_add_mod' n b

theorem toDigits_zero (b hb) : toDigits b hb 0 = [] := by unfold toDigits; simp

theorem toDigits_snoc (b : Nat) (hb : 1 < b) (m d : Nat) (hd : d < b) (hne : m * b + d ≠ 0) :
    toDigits b hb (m * b + d) = toDigits b hb m ++ [d] := by
  rw [toDigits]
  simp only [hne, dite_false]
  have h1 : (m * b + d) / b = m := by
    rw [Nat.mul_comm, Nat.mul_add_div (by omega), Nat.div_eq_of_lt hd, Nat.add_zero]
  have h2 : (m * b + d) % b = d := by
    rw [Nat.mul_comm, Nat.mul_add_mod, Nat.mod_eq_of_lt hd]
  rw [h1, h2]

theorem snocInd {α} {P : List α → Prop} (h0 : P []) (h1 : ∀ l x, P l → P (l ++ [x])) (l : List α) : P l := by
  have : ∀ r : List α, P r.reverse := by
    intro r
    induction r with
    | nil => simpa using h0
    | cons x r ih => simpa using h1 _ x ih
  simpa using this l.reverse

/-- decoding what was encoded gives the bytes back, once padded to their known length (this is exactly
    `Validate`'s treatment of leading zero bytes that the big-integer round trip strips) -/
theorem padLeft_natToBytes_bytesToNat (bs : List Nat) (hb : ∀ x ∈ bs, x < 256) :
    padLeft bs.length (natToBytes (bytesToNat bs)) = bs := by
  revert hb
  refine snocInd (P := fun bs => (∀ x ∈ bs, x < 256) → padLeft bs.length (natToBytes (bytesToNat bs)) = bs) ?_ ?_ bs
  · intro _; simp [padLeft, natToBytes, bytesToNat, ofDigits, toDigits_zero]
  · intro bs x ih hb
    have hx : x < 256 := hb x (by simp)
    have hbs : ∀ y ∈ bs, y < 256 := fun y hy => hb y (by simp [hy])
    have ih' := ih hbs
    simp only [bytesToNat, ofDigits_append, natToBytes] at *
    by_cases hz : ofDigits 256 bs * 256 + x = 0
    · have hx0 : x = 0 := by omega
      have hm0 : ofDigits 256 bs = 0 := by omega
      rw [hm0, toDigits_zero] at ih'
      subst hx0
      simp only [hm0, Nat.zero_mul, Nat.add_zero, toDigits_zero, padLeft, List.length_nil, Nat.sub_zero,
        List.append_nil, List.length_append, List.length_singleton] at ih' ⊢
      rw [List.replicate_succ', ih']
    · rw [toDigits_snoc 256 (by decide) _ x hx hz]
      simp only [padLeft, List.length_append, List.length_singleton] at ih' ⊢
      have hlen : (toDigits 256 (by decide) (ofDigits 256 bs)).length ≤ bs.length := by
        have := congrArg List.length ih'
        simp only [List.length_append, List.length_replicate] at this
        omega
      rw [show bs.length + 1 - ((toDigits 256 (by decide) (ofDigits 256 bs)).length + 1) =
            bs.length - (toDigits 256 (by decide) (ofDigits 256 bs)).length by omega]
      rw [← List.append_assoc, ih']

theorem ts4Val_ts4 (m : Nat) (h : m < 4294967296) : ts4Val (ts4 m) = m := by
  simp only [ts4, ts4Val]; omega

theorem ts4_lt (m : Nat) : ∀ x ∈ ts4 m, x < 256 := by
  intro x hx; simp only [ts4, List.mem_cons, List.mem_nil_iff, or_false] at hx
  rcases hx with rfl | rfl | rfl | rfl <;> exact Nat.mod_lt _ (by decide)

/-- what the proofs need to know about the MAC: 32 bytes -/
structure MacOK (p : Params) : Prop where
  mac_len : ∀ x, (p.mac x).length = 32
  mac_lt : ∀ x, ∀ b ∈ p.mac x, b < 256
  len_ok : 2 ≤ p.hmacLen ∧ p.hmacLen ≤ 32

theorem raw_len (p : Params) (hp : MacOK p) (m : Nat) : (ts4 m ++ (p.mac (ts4 m)).take p.hmacLen).length = 4 + p.hmacLen := by
  simp [ts4, hp.mac_len, Nat.min_eq_left hp.len_ok.2]; omega

theorem raw_lt (p : Params) (hp : MacOK p) (m : Nat) : ∀ x ∈ ts4 m ++ (p.mac (ts4 m)).take p.hmacLen, x < 256 := by
  intro x hx
  rcases List.mem_append.mp hx with h | h
  · exact ts4_lt m x h
  · exact hp.mac_lt _ x (List.mem_of_mem_take h)

theorem decode_mint (p : Params) (hp : MacOK p) (now : Nat) :
    padLeft (4 + p.hmacLen) (natToBytes (ofDigits 36 (mint p now))) =
      ts4 (now / 60) ++ (p.mac (ts4 (now / 60))).take p.hmacLen := by
  have hlen := raw_len p hp (now / 60)
  have hpad := padLeft_natToBytes_bytesToNat _ (raw_lt p hp (now / 60))
  rw [hlen] at hpad
  unfold mint
  simp only
  split
  · rename_i h0
    rw [h0] at hpad
    simpa [ofDigits] using hpad
  · rw [ofDigits_toDigits]; exact hpad

theorem ts8Val_ts8 (t : Nat) (h : t < 18446744073709551616) : ts8Val (ts8 t) = t := by
  simp only [ts8, ts8Val, ofDigits, List.range, List.range.loop, List.reverse, List.reverseAux, List.map, List.foldl]
  have e7 : 256 ^ 7 = 72057594037927936 := by decide
  have e6 : 256 ^ 6 = 281474976710656 := by decide
  have e5 : 256 ^ 5 = 1099511627776 := by decide
  have e4 : 256 ^ 4 = 4294967296 := by decide
  have e3 : 256 ^ 3 = 16777216 := by decide
  have e2 : 256 ^ 2 = 65536 := by decide
  simp only [e7, e6, e5, e4, e3, e2, Nat.pow_one, Nat.pow_zero, Nat.div_one]
  omega

end Turn.Nonce
