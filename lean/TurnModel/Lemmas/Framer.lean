import TurnModel.Model.Framer
import TurnModel.Lemmas.Wire
namespace Turn

/-- a ChannelData frame: valid number, then exactly the padded declared length -/
def WFChan (f : Bytes) : Prop :=
  ∃ b0 b1 b2 b3 rest, f = b0 :: b1 :: b2 :: b3 :: rest ∧ chanValid (be16 b0 b1) = true ∧
    rest.length = nearestPadded (be16 b2 b3)

/-- a STUN frame: 20-byte header carrying the magic cookie, length field = body length -/
def WFStun (f : Bytes) : Prop :=
  ∃ b0 b1 b2 b3 body, f = b0 :: b1 :: b2 :: b3 :: (cookie ++ body) ∧ chanValid (be16 b0 b1) = false ∧
    body.length = 12 + be16 b2 b3

def WF (f : Bytes) : Prop := WFChan f ∨ WFStun f

theorem WF_len_pos {f} (h : WF f) : 4 ≤ f.length := by
  rcases h with ⟨_,_,_,_,_,rfl,_,_⟩ | ⟨_,_,_,_,_,rfl,_,_⟩ <;> simp <;> omega

/-- what `ChannelData.Encode` produces is a well-formed frame (ties M2's `WF` to M1's encoder) -/
theorem encodeCD_WF (num : Nat) (d : Bytes) (hn : chanValid num = true) (hd : d.length < 65536) :
    WFChan (encodeCD num d) := by
  have hnum : num < 65536 := by simp [chanValid] at hn; omega
  refine ⟨hi8 num, lo8 num, hi8 (d.length % 65536), lo8 (d.length % 65536),
    d ++ List.replicate (padLen (4 + d.length)) 0, by simp [encodeCD], ?_, ?_⟩
  · rw [be16_hi_lo _ hnum]; exact hn
  · rw [Nat.mod_eq_of_lt hd, be16_hi_lo _ hd]
    simp [padLen, nearestPadded]
    split <;> split <;> omega

theorem consume_exact {f} (h : WF f) (rest : Bytes) : consume (f ++ rest) = .ok f.length := by
  rcases h with ⟨b0,b1,b2,b3,r,rfl,hv,hl⟩ | ⟨b0,b1,b2,b3,body,rfl,hv,hl⟩
  · simp only [List.cons_append, consume, hv, if_true, List.length_cons, List.length_append]
    rw [if_neg (by omega)]; congr 1; omega
  · have hc : (cookie ++ body ++ rest).take 4 = cookie := by simp [cookie]
    simp only [List.cons_append, consume, hv, List.length_cons, List.length_append, hc]
    have hcl : cookie.length = 4 := rfl
    rw [if_neg (by simp), if_neg (by omega), if_pos trivial, if_neg (by omega)]
    congr 1; omega

theorem take4_of_append {pr t body : Bytes} (h : cookie ++ body = pr ++ t) (hl : 4 ≤ pr.length) :
    pr.take 4 = cookie := by
  have : (cookie ++ body).take 4 = (pr ++ t).take 4 := by rw [h]
  rw [List.take_append_of_le_length hl] at this
  simpa [cookie] using this.symm

theorem consume_prefix {f} (h : WF f) (p t : Bytes) (hp : f = p ++ t) (ht : t ≠ []) :
    consume p = .incomplete := by
  have htl : 0 < t.length := List.length_pos_iff.mpr ht
  rcases h with ⟨b0,b1,b2,b3,r,hf,hv,hl⟩ | ⟨b0,b1,b2,b3,body,hf,hv,hl⟩
  · match p, hp with
    | [], _ => simp [consume]
    | [_], _ => simp [consume]
    | [_,_], _ => simp [consume]
    | [_,_,_], _ => simp [consume]
    | p0 :: p1 :: p2 :: p3 :: pr, hp =>
      rw [hf] at hp
      simp only [List.cons_append, List.cons.injEq] at hp
      obtain ⟨rfl, rfl, rfl, rfl, hr⟩ := hp
      have : r.length = pr.length + t.length := by rw [hr]; simp
      simp only [consume, hv, if_true, List.length_cons]
      rw [if_pos (by omega)]
  · match p, hp with
    | [], _ => simp [consume]
    | [_], _ => simp [consume]
    | [_,_], _ => simp [consume]
    | [_,_,_], _ => simp [consume]
    | p0 :: p1 :: p2 :: p3 :: pr, hp =>
      rw [hf] at hp
      simp only [List.cons_append, List.cons.injEq] at hp
      obtain ⟨rfl, rfl, rfl, rfl, hr⟩ := hp
      have hlen : (cookie ++ body).length = pr.length + t.length := by rw [hr]; simp
      have hcl : cookie.length = 4 := rfl
      simp only [List.length_append, hcl] at hlen
      simp only [consume, hv, List.length_cons]
      by_cases h20 : pr.length + 1 + 1 + 1 + 1 < 20
      · simp [h20]
      · have hck : pr.take 4 = cookie := take4_of_append hr (by omega)
        simp only [Bool.false_eq_true, if_false, h20, hck, if_true]
        rw [if_pos (by omega)]

theorem consume_ok_bounds {b : Bytes} {n : Nat} (h : consume b = .ok n) : 4 ≤ n ∧ n ≤ b.length := by
  match b, h with
  | [], h | [_], h | [_,_], h | [_,_,_], h => simp [consume] at h
  | b0 :: b1 :: b2 :: b3 :: rest, h =>
    simp only [consume] at h
    split at h
    · split at h
      · cases h
      · cases h; omega
    · split at h; · cases h
      split at h
      · split at h
        · cases h
        · cases h; omega
      · cases h

theorem prefix_of_ge {buff x f rest : Bytes} (heq : buff ++ x = f ++ rest) (hlen : f.length ≤ buff.length) :
    ∃ t, buff = f ++ t := by
  rcases List.append_eq_append_iff.mp heq with ⟨a', h1, _⟩ | ⟨c', h1, _⟩
  · have hl := congrArg List.length h1
    simp only [List.length_append] at hl
    have : a' = [] := List.eq_nil_of_length_eq_zero (by omega)
    subst this
    exact ⟨[], by simpa using h1.symm⟩
  · exact ⟨c', h1⟩

theorem prefix_of_lt {buff x f rest : Bytes} (heq : buff ++ x = f ++ rest) (hlen : ¬ f.length ≤ buff.length) :
    ∃ t, f = buff ++ t ∧ t ≠ [] := by
  rcases List.append_eq_append_iff.mp heq with ⟨a', h1, _⟩ | ⟨c', h1, _⟩
  · refine ⟨a', h1, ?_⟩
    intro hn; subst hn; simp at h1; subst h1; omega
  · have hl := congrArg List.length h1
    simp only [List.length_append] at hl; omega

/-- one call: the next well-formed frame comes out whole, whatever the segmentation; the chunks left
    unread are a suffix of the chunks offered, and a chunk is read only if the buffer does not yet
    hold the whole frame (promptness). -/
theorem readFrom_one {f} (h : WF f) :
    ∀ (chunks : List Bytes) (buff rest : Bytes), buff ++ chunks.flatten = f ++ rest →
      ∃ c', readFrom chunks buff = (.frame f, c') ∧ c'.buff ++ c'.chunks.flatten = rest ∧
        ∃ used, chunks = used ++ c'.chunks ∧
          (∀ u, used = u ++ [used.getLast?.getD []] → (buff ++ u.flatten).length < f.length ∨ used = []) := by
  intro chunks
  induction chunks with
  | nil =>
    intro buff rest heq
    simp only [List.flatten_nil, List.append_nil] at heq
    subst heq
    exact ⟨⟨rest, []⟩, by simp [readFrom, consume_exact h], by simp, [], by simp, fun _ _ => Or.inr rfl⟩
  | cons ch chs ih =>
    intro buff rest heq
    by_cases hlen : f.length ≤ buff.length
    · obtain ⟨t, ht⟩ := prefix_of_ge heq hlen
      subst ht
      simp only [readFrom, consume_exact h]
      refine ⟨⟨t, ch :: chs⟩, by simp, ?_, [], by simp, fun _ _ => Or.inr rfl⟩
      simp only [List.append_assoc] at heq ⊢
      exact List.append_cancel_left heq
    · obtain ⟨t, ht, htne⟩ := prefix_of_lt heq hlen
      simp only [readFrom, consume_prefix h buff t ht htne]
      obtain ⟨c', h1, h2, used, h3, h4⟩ := ih (buff ++ ch) rest (by simpa using heq)
      refine ⟨c', h1, h2, ch :: used, by simp [h3], ?_⟩
      intro u hu
      left
      match used, u, hu with
      | [], [], _ => simpa using Nat.lt_of_not_le hlen
      | [], _ :: _, hu => simp at hu
      | _ :: _, [], hu => simp at hu
      | u0 :: us, x :: u', hu =>
        simp only [List.cons_append, List.cons.injEq] at hu
        obtain ⟨hx, hu'⟩ := hu
        subst hx
        have hlast : (ch :: u0 :: us).getLast?.getD [] = (u0 :: us).getLast?.getD [] := by
          simp [List.getLast?_cons_cons]
        rw [hlast] at hu'
        rcases h4 u' hu' with h5 | h5
        · simpa [List.append_assoc] using h5
        · cases h5

theorem readFrom_frame_consumes :
    ∀ (chunks : List Bytes) (buff f : Bytes) (c' : Conn), readFrom chunks buff = (.frame f, c') →
      buff ++ chunks.flatten = f ++ (c'.buff ++ c'.chunks.flatten) ∧ 4 ≤ f.length := by
  intro chunks
  induction chunks with
  | nil =>
    intro buff f c' h
    simp only [readFrom] at h
    split at h
    · rename_i n hn
      obtain ⟨h4, hle⟩ := consume_ok_bounds hn
      cases h
      simp [List.length_take, Nat.min_eq_left hle, h4]
    · cases h
    · cases h
  | cons ch chs ih =>
    intro buff f c' h
    simp only [readFrom] at h
    split at h
    · rename_i n hn
      obtain ⟨h4, hle⟩ := consume_ok_bounds hn
      cases h
      simp only [List.length_take, Nat.min_eq_left hle]
      refine ⟨?_, h4⟩
      rw [← List.append_assoc, List.take_append_drop]
    · cases h
    · obtain ⟨h1, h2⟩ := ih _ _ _ h
      exact ⟨by simpa using h1, h2⟩

end Turn
