/-
Lemmas about M7 (Model/KeepAlive.lean): the event queue, frame properties of the handlers, and the
invariant that keeps the allocation alive.
-/
import TurnModel.Model.KeepAlive
namespace Turn.KeepAlive

/-! ### the event queue -/

theorem earliest_mem : ∀ (l : List (Nat × Root)) (m : Nat × Root), earliest l = some m → m ∈ l := by
  intro l
  induction l with
  | nil => intro m h; simp [earliest] at h
  | cons r rs ih =>
    intro m h
    unfold earliest at h
    cases he : earliest rs with
    | none => rw [he] at h; simp at h; simp [h]
    | some m' =>
      rw [he] at h
      simp only at h
      split at h
      · cases h; exact List.mem_cons_of_mem _ (ih _ he)
      · cases h; exact List.mem_cons_self

theorem earliest_le : ∀ (l : List (Nat × Root)) (m : Nat × Root), earliest l = some m → ∀ x ∈ l, m.1 ≤ x.1 := by
  intro l
  induction l with
  | nil => intro m h; simp [earliest] at h
  | cons r rs ih =>
    intro m h x hx
    unfold earliest at h
    cases he : earliest rs with
    | none =>
      rw [he] at h; simp at h; subst h
      have : rs = [] := by
        cases rs with
        | nil => rfl
        | cons a as =>
          unfold earliest at he
          cases h2 : earliest as <;> rw [h2] at he <;> simp at he
          split at he <;> cases he
      subst this
      simp at hx; subst hx; exact Nat.le_refl _
    | some m' =>
      rw [he] at h
      simp only at h
      have ih' := ih m' he
      rcases List.mem_cons.mp hx with hx | hx
      · subst hx
        split at h
        · cases h; omega
        · cases h; exact Nat.le_refl _
      · have := ih' x hx
        split at h
        · cases h; exact this
        · cases h; omega

theorem earliest_none (l : List (Nat × Root)) (h : earliest l = none) : l = [] := by
  cases l with
  | nil => rfl
  | cons a as =>
    unfold earliest at h
    cases h2 : earliest as <;> rw [h2] at h <;> simp at h
    split at h <;> cases h

theorem alloc_root_mem (s : St) (w : Nat) (h : s.allocWake = some w) : (w, Root.alloc) ∈ roots s := by
  simp [roots, optRoot, h]

theorem allocTx_root_mem (s : St) (x : Txn) (h : s.allocTx = some x) : (x.due, Root.allocTx) ∈ roots s := by
  simp [roots, optRoot, h]

theorem optRoot_mem {o : Option Nat} {r r' : Root} {t : Nat} (h : (t, r') ∈ optRoot o r) : r' = r ∧ o = some t := by
  cases o with
  | none => simp [optRoot] at h
  | some w => simp [optRoot] at h; exact ⟨h.2, by rw [h.1]⟩

theorem bindTx_roots_mem {l : List (Option Txn)} {t : Nat} {r : Root}
    (h : (t, r) ∈ l.zipIdx.flatMap fun (x, p) => optRoot (x.map Txn.due) (.bindTx p)) :
    ∃ p x, r = .bindTx p ∧ l.getD p none = some x ∧ x.due = t := by
  rw [List.mem_flatMap] at h
  obtain ⟨⟨ox, p⟩, hm, hr⟩ := h
  have := optRoot_mem hr
  obtain ⟨h1, h2⟩ := this
  cases ox with
  | none => simp at h2
  | some x =>
    simp at h2
    refine ⟨p, x, h1, ?_, h2⟩
    have hz := List.mem_zipIdx hm
    simp at hz
    rw [List.getD_eq_getElem?_getD]
    obtain ⟨hlt, heq⟩ := hz
    rw [List.getElem?_eq_getElem hlt]
    simp [heq]

/-- what a root in the queue stands for -/
theorem roots_inv (s : St) (t : Nat) (r : Root) (h : (t, r) ∈ roots s) :
    (r = .alloc ∧ s.allocWake = some t) ∨ (r = .allocTx ∧ ∃ x, s.allocTx = some x ∧ x.due = t) ∨
    (r = .perm ∧ s.permWake = some t) ∨ (r = .permTx ∧ ∃ x, s.permTx = some x ∧ x.due = t) ∨
    (r = .bind ∧ s.bindWake = some t) ∨ (∃ p x, r = .bindTx p ∧ s.bindTx.getD p none = some x ∧ x.due = t) ∨
    (r = .closeTx ∧ ∃ x, s.closeTx = some x ∧ x.due = t) := by
  unfold roots at h
  simp only [List.mem_append] at h
  rcases h with (((((h | h) | h) | h) | h) | h) | h
  · exact Or.inl (optRoot_mem h)
  · have := optRoot_mem h
    refine Or.inr (Or.inl ⟨this.1, ?_⟩)
    cases hx : s.allocTx with
    | none => rw [hx] at this; simp at this
    | some x => rw [hx] at this; simp at this; exact ⟨x, rfl, this.2⟩
  · exact Or.inr (Or.inr (Or.inl (optRoot_mem h)))
  · have := optRoot_mem h
    refine Or.inr (Or.inr (Or.inr (Or.inl ⟨this.1, ?_⟩)))
    cases hx : s.permTx with
    | none => rw [hx] at this; simp at this
    | some x => rw [hx] at this; simp at this; exact ⟨x, rfl, this.2⟩
  · exact Or.inr (Or.inr (Or.inr (Or.inr (Or.inl (optRoot_mem h)))))
  · exact Or.inr (Or.inr (Or.inr (Or.inr (Or.inr (Or.inl (bindTx_roots_mem h))))))
  · have := optRoot_mem h
    refine Or.inr (Or.inr (Or.inr (Or.inr (Or.inr (Or.inr ⟨this.1, ?_⟩)))))
    cases hx : s.closeTx with
    | none => rw [hx] at this; simp at this
    | some x => rw [hx] at this; simp at this; exact ⟨x, rfl, this.2⟩

/-! ### frames: which fields a handler can touch -/

/-- the fields the allocation invariant reads -/
def Same (s s' : St) : Prop :=
  s'.cfg = s.cfg ∧ s'.dead = s.dead ∧ s'.closed = s.closed ∧ s'.allocExp = s.allocExp ∧ s'.now = s.now ∧
  s'.allocWake = s.allocWake ∧ s'.allocTx = s.allocTx ∧ s'.closeTx = s.closeTx

theorem Same.refl (s : St) : Same s s := ⟨rfl, rfl, rfl, rfl, rfl, rfl, rfl, rfl⟩
theorem Same.trans {a b c : St} (h1 : Same a b) (h2 : Same b c) : Same a c := by
  obtain ⟨a1, a2, a3, a4, a5, a6, a7, a8⟩ := h1
  obtain ⟨b1, b2, b3, b4, b5, b6, b7, b8⟩ := h2
  exact ⟨b1.trans a1, b2.trans a2, b3.trans a3, b4.trans a4, b5.trans a5, b6.trans a6, b7.trans a7, b8.trans a8⟩

theorem maybeBind_same (s : St) (t p : Nat) : Same s (maybeBind s t p) := by
  unfold maybeBind
  split
  · split
    · exact ⟨rfl, rfl, rfl, rfl, rfl, rfl, rfl, rfl⟩
    · exact Same.refl s
  · exact Same.refl s

theorem forPeers_same (t : Nat) : ∀ (l : List Nat) (s : St), Same s (l.foldl (fun s p => maybeBind s t p) s) := by
  intro l
  induction l with
  | nil => intro s; exact Same.refl s
  | cons p ps ih => intro s; exact Same.trans (maybeBind_same s t p) (ih _)

/-- the server touches only its own three tables -/
theorem srvProc_frame (s : St) (t : Nat) (k : Kind) (n : Nat) :
    ∃ ae pe ce, (srvProc s t k n).1 = { s with allocExp := ae, permExp := pe, chanExp := ce } := by
  unfold srvProc
  split
  · exact ⟨s.allocExp, s.permExp, s.chanExp, rfl⟩
  · split
    · exact ⟨s.allocExp, s.permExp, s.chanExp, rfl⟩
    · split
      · exact ⟨none, s.permExp, s.chanExp, rfl⟩
      · exact ⟨_, s.permExp, s.chanExp, rfl⟩
      · exact ⟨s.allocExp, _, s.chanExp, rfl⟩
      · exact ⟨s.allocExp, _, _, rfl⟩

/-- a request other than Refresh, for a live allocation, is never answered "no allocation" and leaves the
    allocation's expiry alone -/
theorem srvProc_other (s : St) (t : Nat) (k : Kind) (n e : Nat) (hk : ∀ lt, k ≠ .rf lt) (he : s.allocExp = some e) (ht : t < e) :
    (srvProc s t k n).2 ≠ .dead ∧ (srvProc s t k n).1.allocExp = some e := by
  unfold srvProc
  have hl : allocLive s t = true := by simp [allocLive, he, ht]
  split
  · exact ⟨by simp, he⟩
  · simp only [hl, Bool.not_true, Bool.false_eq_true, if_false]
    split
    · exact absurd rfl (hk 0)
    · rename_i lt _; exact absurd rfl (hk lt)
    · exact ⟨by simp, he⟩
    · exact ⟨by simp, he⟩

/-- a Refresh with a positive lifetime for a live allocation: stale (nothing changes) or accepted -/
theorem srvProc_rf (s : St) (t lt n e : Nat) (hlt : 0 < lt) (he : s.allocExp = some e) (ht : t < e) :
    (srvProc s t (.rf lt) n = (s, .stale) ∧ nonceWindow < minuteOf t - n) ∨
    (srvProc s t (.rf lt) n = ({ s with allocExp := some (t + lt) }, .ok) ∧ minuteOf t - n ≤ nonceWindow) := by
  unfold srvProc
  have hl : allocLive s t = true := by simp [allocLive, he, ht]
  by_cases h : minuteOf t - n > nonceWindow
  · left; simp [h]
  · right
    simp only [h, if_false, hl, Bool.not_true, Bool.false_eq_true]
    cases lt with
    | zero => omega
    | succ m => exact ⟨rfl, by omega⟩

/-- one transmission touches only the server's tables and the "undetermined" marker -/
theorem transmit_frame (s : St) (k : Kind) (x : Txn) :
    ∃ ae pe ce tn wy, (transmit s k x).1 = { s with allocExp := ae, permExp := pe, chanExp := ce, tainted := tn, why := wy } := by
  unfold transmit
  split
  · exact ⟨s.allocExp, s.permExp, s.chanExp, s.tainted, s.why, rfl⟩
  · obtain ⟨a1, p1, c1, h1⟩ := srvProc_frame s x.due k x.nonce
    obtain ⟨a2, p2, c2, h2⟩ := srvProc_frame (srvProc s x.due k x.nonce).1 x.due k x.nonce
    simp only
    split <;> split
    · rw [h2, h1]; exact ⟨_, _, _, _, _, rfl⟩
    · rw [h2, h1]; exact ⟨_, _, _, s.tainted, s.why, rfl⟩
    · rw [h1]; exact ⟨_, _, _, _, _, rfl⟩
    · rw [h1]; exact ⟨_, _, _, s.tainted, s.why, rfl⟩

theorem transmit_same_but_exp (s : St) (k : Kind) (x : Txn) :
    (transmit s k x).1.cfg = s.cfg ∧ (transmit s k x).1.dead = s.dead ∧ (transmit s k x).1.closed = s.closed ∧
    (transmit s k x).1.now = s.now ∧ (transmit s k x).1.allocWake = s.allocWake ∧ (transmit s k x).1.allocTx = s.allocTx ∧
    (transmit s k x).1.closeTx = s.closeTx := by
  obtain ⟨ae, pe, ce, tn, wy, h⟩ := transmit_frame s k x
  rw [h]; exact ⟨rfl, rfl, rfl, rfl, rfl, rfl, rfl⟩

/-- CreatePermission / ChannelBind transmissions while the allocation is live -/
theorem transmit_other (s : St) (k : Kind) (x : Txn) (e : Nat) (hk : ∀ lt, k ≠ .rf lt) (he : s.allocExp = some e) (ht : x.due < e) :
    (transmit s k x).2.2 ≠ some .dead ∧ (transmit s k x).1.allocExp = some e := by
  have h1 := srvProc_other s x.due k x.nonce e hk he ht
  have h2 := srvProc_other (srvProc s x.due k x.nonce).1 x.due k x.nonce e hk h1.2 ht
  unfold transmit
  split
  · exact ⟨by simp, he⟩
  · simp only
    refine ⟨?_, ?_⟩
    · split
      · intro h; injection h with h; exact h1.1 h
      · simp
    · split <;> split <;> first | exact h2.2 | exact h1.2

theorem transmit_code (s : St) (k : Kind) (x : Txn) (h : ¬ x.i < x.pat.a) :
    (transmit s k x).2.2 = if x.i < x.pat.a + x.pat.b then none else some (srvProc s x.due k x.nonce).2 := by
  unfold transmit
  simp only [h, if_false]
  by_cases hl : x.i < x.pat.a + x.pat.b <;> simp [hl]

theorem transmit_allocExp (s : St) (k : Kind) (x : Txn) (h : ¬ x.i < x.pat.a) :
    (transmit s k x).1.allocExp =
      (if (!decide (x.i < x.pat.a + x.pat.b)) && x.pat.dup then (srvProc (srvProc s x.due k x.nonce).1 x.due k x.nonce).1
       else (srvProc s x.due k x.nonce).1).allocExp := by
  unfold transmit
  simp only [h, if_false]
  split <;> split <;> rfl

/-- a Refresh transmission while the allocation is live: lost on the way, or stale, or accepted -/
theorem transmit_rf (s : St) (lt : Nat) (x : Txn) (e : Nat) (hlt : 0 < lt) (he : s.allocExp = some e) (ht : x.due < e) :
    ((transmit s (.rf lt) x).2.2 = none ∧ x.i < x.pat.a + x.pat.b ∧
      ((transmit s (.rf lt) x).1.allocExp = some e ∨ (transmit s (.rf lt) x).1.allocExp = some (x.due + lt))) ∨
    ((transmit s (.rf lt) x).2.2 = some .ok ∧ (transmit s (.rf lt) x).1.allocExp = some (x.due + lt)) ∨
    ((transmit s (.rf lt) x).2.2 = some .stale ∧ (transmit s (.rf lt) x).1.allocExp = some e ∧ nonceWindow < minuteOf x.due - x.nonce) := by
  by_cases hia : x.i < x.pat.a
  · left
    have : transmit s (.rf lt) x = (s, [], none) := by unfold transmit; simp [hia]
    rw [this]
    exact ⟨rfl, by omega, Or.inl he⟩
  · rw [transmit_code s _ x hia, transmit_allocExp s _ x hia]
    have hlive : x.due < x.due + lt := by omega
    rcases srvProc_rf s x.due lt x.nonce e hlt he ht with ⟨h1, hst⟩ | ⟨h1, _⟩
    · -- stale: the duplicate is stale too, nothing changes
      rw [h1]
      simp only [h1, ite_self]
      by_cases hl : x.i < x.pat.a + x.pat.b
      · left; simp only [hl, if_true]; exact ⟨trivial, trivial, Or.inl he⟩
      · right; right; simp only [hl, if_false]; exact ⟨trivial, he, hst⟩
    · rw [h1]
      simp only
      have hexp : (if (!decide (x.i < x.pat.a + x.pat.b)) && x.pat.dup then
            (srvProc { s with allocExp := some (x.due + lt) } x.due (.rf lt) x.nonce).1
          else { s with allocExp := some (x.due + lt) }).allocExp = some (x.due + lt) := by
        split
        · rcases srvProc_rf { s with allocExp := some (x.due + lt) } x.due lt x.nonce (x.due + lt) hlt rfl hlive with ⟨h2, _⟩ | ⟨h2, _⟩ <;> rw [h2]
        · rfl
      rw [hexp]
      by_cases hl : x.i < x.pat.a + x.pat.b
      · left; simp only [hl, if_true]; exact ⟨trivial, trivial, Or.inr trivial⟩
      · right; left; simp only [hl, if_false]; exact ⟨trivial, trivial⟩

end Turn.KeepAlive
