import TurnModel.Model.Wire
namespace Turn

theorem toNat_ofNat_lt {n : Nat} (h : n < 256) : (UInt8.ofNat n).toNat = n := by
  simp [Nat.mod_eq_of_lt h]

theorem be16_hi_lo (n : Nat) (h : n < 65536) : be16 (hi8 n) (lo8 n) = n := by
  unfold be16 hi8 lo8
  rw [toNat_ofNat_lt (by omega), toNat_ofNat_lt (by omega)]; omega

theorem be16_lt (a b : UInt8) : be16 a b < 65536 := by
  unfold be16
  have := a.toNat_lt; have := b.toNat_lt; omega

theorem hi_lo_be16 (a b : UInt8) : hi8 (be16 a b) = a ∧ lo8 (be16 a b) = b := by
  unfold be16 hi8 lo8
  have ha := a.toNat_lt; have hb := b.toNat_lt
  constructor
  · have : (a.toNat * 256 + b.toNat) / 256 = a.toNat := by omega
    rw [this]; simp
  · have : (a.toNat * 256 + b.toNat) % 256 = b.toNat := by omega
    rw [this]; simp

theorem be32_enc32 (n : Nat) (h : n < 4294967296) :
    ∃ a b c d, enc32 n = [a, b, c, d] ∧ be32 a b c d = n := by
  refine ⟨_, _, _, _, rfl, ?_⟩
  unfold be32
  simp
  omega

theorem nearestPadded_ge (l : Nat) : l ≤ nearestPadded l := by
  unfold nearestPadded; simp only; split <;> omega

theorem nearestPadded_mod (l : Nat) : nearestPadded l % 4 = 0 := by
  unfold nearestPadded; simp only; split <;> omega

theorem nearestPadded_lt (l : Nat) : nearestPadded l < l + 4 := by
  unfold nearestPadded; simp only; split <;> omega

theorem padLen_lt (l : Nat) : padLen l < 4 := by
  unfold padLen; have := nearestPadded_lt l; have := nearestPadded_ge l; omega

theorem padLen_mod (l : Nat) : (l + padLen l) % 4 = 0 := by
  unfold padLen; have := nearestPadded_ge l; have := nearestPadded_mod l
  have : l + (nearestPadded l - l) = nearestPadded l := by omega
  rw [this]; assumption

theorem xor_cancel8 (a k : UInt8) : (a ^^^ k) ^^^ k = a := by
  rw [UInt8.xor_assoc, UInt8.xor_self, UInt8.xor_zero]

theorem xorBytes_length : ∀ (a k : Bytes), a.length ≤ k.length → (xorBytes a k).length = a.length
  | [], _, _ => by simp [xorBytes]
  | _ :: _, [], h => by simp at h
  | a :: as, k :: ks, h => by
    simp only [xorBytes, List.length_cons] at *
    rw [xorBytes_length as ks (by omega)]

theorem xorBytes_cancel : ∀ (a k : Bytes), a.length ≤ k.length → xorBytes (xorBytes a k) k = a
  | [], _, _ => by simp [xorBytes]
  | _ :: _, [], h => by simp at h
  | a :: as, k :: ks, h => by
    simp only [xorBytes, List.length_cons] at *
    rw [xor_cancel8, xorBytes_cancel as ks (by omega)]

end Turn
