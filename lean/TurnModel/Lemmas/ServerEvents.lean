/-
Event / ledger lemmas: the entity list of a reachable state has no duplicates, and the derived
events of a step account exactly for the change of the entity set.
-/
import TurnModel.Model.ServerEvents
import TurnModel.Lemmas.ServerInv
import TurnModel.Lemmas.ServerUniq
namespace Turn.Srv

/-- one permission per peer IP within an allocation -/
def PermUniq (_ : Nat) (a : Alloc) : Prop := (a.perms.map (·.ip)).Nodup

theorem permuniq_point (c : Cfg) : PointInv c PermUniq where
  fresh := by intro s k a hf; simp [PermUniq, hf.perms]
  change := by
    intro now a b h hch
    have hadd : ∀ ip t, ((addPerm now t ip a).perms.map (·.ip)).Nodup := by
      intro ip t
      simp only [addPerm, List.map_cons, List.nodup_cons]
      refine ⟨?_, nodup_map_filter' _ _ _ h⟩
      simp only [List.mem_map, List.mem_filter, not_exists, not_and]
      intro p ⟨_, hne⟩ heq
      simp [heq] at hne
    cases hch with
    | refresh e _ => exact h
    | perm ip hg hf => exact hadd ip _
    | chan n p hv hf hg hcf =>
      simp only [PermUniq, addChan, addPerm, List.map_cons, List.nodup_cons]
      refine ⟨?_, nodup_map_filter' _ _ _ h⟩
      simp only [List.mem_map, List.mem_filter, not_exists, not_and]
      intro q ⟨_, hne⟩ heq
      simp [heq] at hne
    | connOut => exact h
    | connIn => exact h
    | bound => exact h
    | drop => exact h
    | pend => exact h
  purge := by
    intro now dt a h _
    exact nodup_map_filter' _ _ _ h

def entKey : Ent → Key
  | .alloc k .. => k
  | .perm k _ => k
  | .chan k .. => k

theorem entsOf_key (a : Alloc) : ∀ e ∈ entsOf a, entKey e = a.key := by
  intro e he
  simp only [entsOf, List.mem_cons, List.mem_append, List.mem_map] at he
  rcases he with rfl | ⟨p, _, rfl⟩ | ⟨ch, _, rfl⟩ <;> rfl

theorem nodup_map_of {α β γ} (f : α → β) (g : α → γ) (l : List α) (h : (l.map g).Nodup)
    (hfg : ∀ a ∈ l, ∀ b ∈ l, f a = f b → g a = g b) : (l.map f).Nodup := by
  induction l with
  | nil => simp
  | cons x xs ih =>
    simp only [List.map_cons, List.nodup_cons, List.mem_map, not_exists, not_and] at h ⊢
    refine ⟨?_, ih h.2 (fun a ha b hb => hfg a (List.mem_cons_of_mem _ ha) b (List.mem_cons_of_mem _ hb))⟩
    intro y hy heq
    exact h.1 y hy (hfg y (List.mem_cons_of_mem _ hy) x List.mem_cons_self heq)

theorem entsOf_nodup (a : Alloc) (hp : (a.perms.map (·.ip)).Nodup) (hc : (a.chans.map (·.num)).Nodup) :
    (entsOf a).Nodup := by
  simp only [entsOf, List.nodup_cons]
  refine ⟨?_, ?_⟩
  · intro hm
    simp only [List.mem_append, List.mem_map] at hm
    rcases hm with ⟨_, _, h⟩ | ⟨_, _, h⟩ <;> cases h
  rw [List.nodup_append]
  refine ⟨?_, ?_, ?_⟩
  · exact nodup_map_of _ (·.ip) _ hp (by intro x _ y _ h; injection h)
  · exact nodup_map_of _ (·.num) _ hc (by intro x _ y _ h; injection h)
  · intro x hx y hy
    simp only [List.mem_map] at hx hy
    obtain ⟨_, _, rfl⟩ := hx
    obtain ⟨_, _, rfl⟩ := hy
    intro h; cases h

theorem ents_nodup_of (l : List Alloc) (hk : (l.map (·.key)).Nodup)
    (hp : ∀ a ∈ l, (a.perms.map (·.ip)).Nodup) (hc : ∀ a ∈ l, (a.chans.map (·.num)).Nodup) :
    (l.flatMap entsOf).Nodup := by
  induction l with
  | nil => simp
  | cons a as ih =>
    simp only [List.map_cons, List.nodup_cons, List.mem_map, not_exists, not_and] at hk
    simp only [List.flatMap_cons]
    rw [List.nodup_append]
    refine ⟨entsOf_nodup a (hp a List.mem_cons_self) (hc a List.mem_cons_self),
      ih hk.2 (fun b hb => hp b (List.mem_cons_of_mem _ hb)) (fun b hb => hc b (List.mem_cons_of_mem _ hb)), ?_⟩
    intro x hx y hy heq
    subst heq
    simp only [List.mem_flatMap] at hy
    obtain ⟨b, hb, hyb⟩ := hy
    have h1 := entsOf_key a x hx
    have h2 := entsOf_key b x hyb
    exact hk.1 b hb (by rw [← h2, h1])

/-- in every reachable state no entity is listed twice -/
theorem ents_nodup {c : Cfg} {s : State} (hr : Reach c s) : (ents s).Nodup :=
  ents_nodup_of s.allocs (unique_reach hr).1 (reach_inv (permuniq_point c) hr)
    (fun a ha => (reach_inv (chanbij_point c) hr a ha).1)

/-! ### accounting -/

def netCount (e : Ent) (evs : List Ev) : Int := (evs.count (.created e) : Int) - (evs.count (.deleted e) : Int)

def ind (e : Ent) (l : List Ent) : Int := if e ∈ l then 1 else 0

theorem count_map_created (e : Ent) (l : List Ent) : (l.map Ev.created).count (.created e) = l.count e := by
  induction l with
  | nil => rfl
  | cons x xs ih =>
    simp only [List.map_cons, List.count_cons, ih]
    congr 1
    by_cases h : x = e <;> simp [h]

theorem count_map_deleted (e : Ent) (l : List Ent) : (l.map Ev.deleted).count (.deleted e) = l.count e := by
  induction l with
  | nil => rfl
  | cons x xs ih =>
    simp only [List.map_cons, List.count_cons, ih]
    congr 1
    by_cases h : x = e <;> simp [h]

theorem count_created_in_deleted (e : Ent) (l : List Ent) : (l.map Ev.deleted).count (.created e) = 0 := by
  induction l with
  | nil => rfl
  | cons x xs ih => simp [List.count_cons, ih]

theorem count_deleted_in_created (e : Ent) (l : List Ent) : (l.map Ev.created).count (.deleted e) = 0 := by
  induction l with
  | nil => rfl
  | cons x xs ih => simp [List.count_cons, ih]

theorem count_filter_nodup (e : Ent) (p : Ent → Bool) (l : List Ent) (h : l.Nodup) :
    (l.filter p).count e = if e ∈ l ∧ p e = true then 1 else 0 := by
  have hn : (l.filter p).Nodup := h.filter _
  rw [hn.count]
  simp [List.mem_filter]

/-- the events of one step account exactly for the change in the set of live entities -/
theorem events_net (s s' : State) (h : (ents s).Nodup) (h' : (ents s').Nodup) (e : Ent) :
    netCount e (events s s') = ind e (ents s') - ind e (ents s) := by
  simp only [netCount, events, List.count_append, count_map_created, count_map_deleted,
    count_created_in_deleted, count_deleted_in_created, Nat.add_zero, Nat.zero_add]
  rw [count_filter_nodup e _ _ h', count_filter_nodup e _ _ h]
  simp only [ind, List.contains_iff_mem, Bool.not_eq_true', decide_eq_false_iff_not]
  by_cases h1 : e ∈ ents s <;> by_cases h2 : e ∈ ents s' <;> simp [h1, h2]

theorem netCount_append (e : Ent) (a b : List Ev) : netCount e (a ++ b) = netCount e a + netCount e b := by
  simp only [netCount, List.count_append]; omega

theorem runE_state (c : Cfg) : ∀ (ops : List Op) (s : State), (runE c s ops).1 = (run c s ops).1 := by
  intro ops
  induction ops with
  | nil => intro s; rfl
  | cons o os ih => intro s; simp only [runE, run, stepE]; exact ih _

/-- **balance over any history**: for every entity, (number of created events) − (number of deleted
    events) over the whole event log equals (is it live at the end) − (was it live at the start) -/
theorem run_balance {c : Cfg} (e : Ent) : ∀ (ops : List Op) (s : State), Reach c s →
    netCount e (runE c s ops).2 = ind e (ents (runE c s ops).1) - ind e (ents s) := by
  intro ops
  induction ops with
  | nil => intro s _; simp [runE, netCount]
  | cons o os ih =>
    intro s hr
    simp only [runE, stepE]
    rw [netCount_append, ih _ (reach_step hr o), events_net s _ (ents_nodup hr) (ents_nodup (reach_step hr o))]
    omega

end Turn.Srv
