/-
Connection ids (RFC 6062): over every reachable state, no two peer connections held by allocations of one
listener (= one allocation manager) have the same id.
-/
import TurnModel.Lemmas.ServerUniq
namespace Turn.Srv

def ids (a : Alloc) : List Nat := a.conns.map (·.id)

theorem cidUsed_false_iff (s : State) (lid cid : Nat) :
    cidUsed s lid cid = false ↔ ∀ a ∈ s.allocs, a.key.lid = lid → cid ∉ ids a := by
  unfold cidUsed ids
  rw [Bool.eq_false_iff]
  constructor
  · intro h a ha hl hm
    apply h
    simp only [List.mem_map] at hm
    obtain ⟨t, ht, hid⟩ := hm
    rw [List.any_eq_true]
    exact ⟨a, ha, by simp [hl]; exact ⟨t, ht, hid⟩⟩
  · intro h hu
    rw [List.any_eq_true] at hu
    obtain ⟨a, ha, hx⟩ := hu
    simp only [Bool.and_eq_true, beq_iff_eq, List.any_eq_true] at hx
    obtain ⟨hl, t, ht, hid⟩ := hx
    exact h a ha hl (List.mem_map.mpr ⟨t, ht, hid⟩)

/-- what a handler's table update does to the connection ids of the caller's allocation -/
def UpdIds (s : State) (k : Key) : Upd → Prop
  | .keep => True
  | .del => True
  | .set a' => a'.conns = [] ∨ (∃ a, findAlloc s k = some a ∧ ids a' = ids a) ∨
               (∃ a t, findAlloc s k = some a ∧ a'.conns = t :: a.conns ∧ cidUsed s k.lid t.id = false)

theorem permLoop_conns (c : Cfg) (now : Nat) (k : Key) : ∀ (peers : List (Option Addr)) (a : Alloc),
    (permLoop c now k peers a).1.conns = a.conns := by
  intro peers
  induction peers with
  | nil => intro a; rfl
  | cons p ps ih =>
    intro a
    cases p with
    | none => rfl
    | some p =>
      simp only [permLoop]
      split
      · rfl
      · split
        · rfl
        · rw [ih]; rfl

theorem handle_ids (c : Cfg) (s : State) (k : Key) (m : Msg) : UpdIds s k (handle c s k m).upd := by
  cases m with
  | allocate tid cr lt tr df tok even fam env =>
    simp only [handle]
    unfold hAllocate
    split
    · split
      · split <;> trivial
      · split
        · trivial
        · split
          · trivial
          · split
            · trivial
            · exact Or.inl rfl
    · trivial
  | refresh tid cr lt fam =>
    simp only [handle]
    unfold hRefresh
    split
    · split
      · trivial
      · rename_i a ha
        obtain ⟨hf, _⟩ := ownAlloc_some ha
        split
        · trivial
        · split
          · trivial
          · exact Or.inr (Or.inl ⟨a, hf, rfl⟩)
    · trivial
  | createPerm tid cr peers =>
    simp only [handle]
    unfold hCreatePerm
    split
    · split
      · trivial
      · rename_i a ha
        obtain ⟨hf, _⟩ := ownAlloc_some ha
        have hc : ids (permLoop c s.now k peers a).1 = ids a := by unfold ids; rw [permLoop_conns]
        split
        · trivial
        · split
          · trivial
          · exact Or.inr (Or.inl ⟨a, hf, hc⟩)
    · trivial
  | chanBind tid cr num peer =>
    simp only [handle]
    unfold hChanBind
    split
    · split
      · trivial
      · rename_i a ha
        obtain ⟨hf, _⟩ := ownAlloc_some ha
        split
        · trivial
        · exact Or.inr (Or.inl ⟨a, hf, rfl⟩)
    · trivial
  | send data peer =>
    simp only [handle, hSend]
    split; · trivial
    split
    · split <;> trivial
    · trivial
  | chanData raw =>
    simp only [handle, hChanData]
    split; · trivial
    split; · trivial
    split; · trivial
    split <;> trivial
  | binding => trivial
  | connect tid cr peer dialOK cid =>
    simp only [handle]
    unfold hConnect
    split
    · split
      · trivial
      · rename_i a ha
        obtain ⟨hf, _⟩ := ownAlloc_some ha
        split
        · trivial
        · trivial
        · rename_i p hcc
          obtain ⟨_, _, _, hu, _⟩ := connectChecks_ok hcc
          exact Or.inr (Or.inr ⟨a, _, hf, rfl, hu⟩)
    · trivial
  | connBind => trivial
  | unknownAttr => trivial
  | junk => trivial

/-! ### how one step transforms the table, as far as connection ids are concerned -/

/-- the allocation has no connections, or it descends from a stored allocation with the same key and has
    no connection id that one did not have -/
def Kept (s : State) (a' : Alloc) : Prop := ids a' = [] ∨ ∃ a ∈ s.allocs, a.key = a'.key ∧ (ids a').Sublist (ids a)

/-- the allocation (the one with key `k0`) gained exactly one connection, whose id no allocation of that
    listener was using -/
def Added (s : State) (k0 : Key) (a' : Alloc) : Prop :=
  a'.key = k0 ∧ ∃ a ∈ s.allocs, a.key = a'.key ∧ ∃ cid, ids a' = cid :: ids a ∧ cidUsed s a.key.lid cid = false

theorem kept_self {s : State} {a : Alloc} (h : a ∈ s.allocs) : Kept s a := Or.inr ⟨a, h, rfl, List.Sublist.refl _⟩

theorem ids_map_same (l : List TConn) (f : TConn → TConn) (h : ∀ t, (f t).id = t.id) : (l.map f).map (·.id) = l.map (·.id) := by
  rw [List.map_map]; apply List.map_congr_left; intro t _; exact h t

theorem ids_filter_sublist (l : List TConn) (p : TConn → Bool) : ((l.filter p).map (·.id)).Sublist (l.map (·.id)) :=
  List.Sublist.map _ List.filter_sublist

theorem ids_markBound (a : Alloc) (cid : Nat) (dk : Key) : ids (markBound a cid dk) = ids a := by
  unfold ids markBound
  exact ids_map_same _ _ (by intro t; split <;> rfl)

theorem ids_dropConn (a : Alloc) (cid : Nat) : (ids (dropConn a cid)).Sublist (ids a) := ids_filter_sublist _ _

theorem ids_purge (now : Nat) (a : Alloc) : (ids (purgeAlloc now a).1).Sublist (ids a) := ids_filter_sublist _ _

theorem kept_replace {s : State} {b a2 x : Alloc} (hb : b ∈ s.allocs) (hk : a2.key = b.key) (hs : (ids a2).Sublist (ids b))
    (hx : x ∈ (replaceAlloc s a2).allocs) : Kept s x := by
  rcases mem_replaceAlloc hx with h | ⟨rfl, _⟩
  · exact kept_self h
  · exact Or.inr ⟨b, hb, hk.symm, hs⟩

theorem step_ids (c : Cfg) (s : State) (op : Op) : ∃ k0, ∀ a' ∈ (step c s op).1.allocs, Kept s a' ∨ Added s k0 a' := by
  cases op with
  | adv dt =>
    refine ⟨⟨0, ⟨⟨false, 0⟩, 0⟩⟩, fun a' h => Or.inl ?_⟩
    simp only [step, advance, List.map_map, List.mem_map, List.mem_filter] at h
    obtain ⟨a, ⟨ha, _⟩, rfl⟩ := h
    exact Or.inr ⟨a, ha, rfl, ids_purge _ a⟩
  | msg k sz m =>
    refine ⟨k, fun a' h => ?_⟩
    simp only [step] at h
    split at h; · exact Or.inl (kept_self h)
    split at h; · exact Or.inl (kept_self h)
    split at h
    · split at h
      · rename_i outs a hcb
        obtain ⟨b, id, hb, rfl⟩ := hConnBind_ok hcb
        exact Or.inl (kept_replace (a2 := markBound b id k) hb rfl (by rw [ids_markBound]; exact List.Sublist.refl _) h)
      · exact Or.inl (kept_self h)
    · simp only at h
      have hu := handle_ids c s k m
      generalize (handle c s k m).upd = u at hu h
      cases u with
      | keep => exact Or.inl (kept_self h)
      | del =>
        simp only [applyUpd] at h
        exact Or.inl (kept_self (mem_delAlloc.mp h).1)
      | set a1 =>
        simp only [applyUpd] at h
        rcases mem_setAlloc.mp h with rfl | ⟨hm, _⟩
        · rcases hu with h0 | ⟨a, hf, hid⟩ | ⟨a, t, hf, hcons, hfresh⟩
          · exact Or.inl (Or.inl (by unfold ids; simp only; rw [h0]; rfl))
          · obtain ⟨ham, hak⟩ := findAlloc_some hf
            exact Or.inl (Or.inr ⟨a, ham, hak, by show (ids a1).Sublist _; rw [hid]; exact List.Sublist.refl _⟩)
          · obtain ⟨ham, hak⟩ := findAlloc_some hf
            refine Or.inr ⟨rfl, a, ham, hak, t.id, ?_, by rw [hak]; exact hfresh⟩
            show a1.conns.map (·.id) = _
            rw [hcons]; rfl
        · exact Or.inl (kept_self hm)
  | peerData => exact ⟨⟨0, ⟨⟨false, 0⟩, 0⟩⟩, fun a' h => Or.inl (kept_self h)⟩
  | peerConn relay frm cid =>
    simp only [step]
    split
    · exact ⟨⟨0, ⟨⟨false, 0⟩, 0⟩⟩, fun a' h => Or.inl (kept_self h)⟩
    · rename_i a ha
      have hm : a ∈ s.allocs := List.mem_of_find?_eq_some ha
      split
      · exact ⟨a.key, fun a' h => Or.inl (kept_self h)⟩
      · split
        · exact ⟨a.key, fun a' h => Or.inl (kept_self h)⟩
        · rename_i hp hd
          refine ⟨a.key, fun a' h => ?_⟩
          rcases mem_replaceAlloc h with h | ⟨rfl, _⟩
          · exact Or.inl (kept_self h)
          · simp only [Bool.or_eq_true, not_or] at hd
            exact Or.inr ⟨rfl, a, hm, rfl, cid, rfl, by simpa using hd.1⟩
  | ctrlClose k =>
    refine ⟨k, fun a' h => Or.inl ?_⟩
    simp only [step] at h
    split at h
    · exact kept_self (mem_delAlloc.mp h).1
    · exact kept_self h
  | relayErr r =>
    refine ⟨⟨0, ⟨⟨false, 0⟩, 0⟩⟩, fun a' h => Or.inl ?_⟩
    simp only [step] at h
    split at h
    · exact kept_self (mem_delAlloc.mp h).1
    · exact kept_self h
  | pipeC2P k d =>
    refine ⟨k, fun a' h => Or.inl ?_⟩
    simp only [step] at h
    split at h <;> exact kept_self h
  | pipeP2C lid cid d =>
    refine ⟨⟨0, ⟨⟨false, 0⟩, 0⟩⟩, fun a' h => Or.inl ?_⟩
    simp only [step] at h
    split at h
    · rename_i a ha
      split at h
      · split at h
        · exact kept_self h
        · refine kept_replace (b := a) (a2 := { a with conns := a.conns.map (fun u =>
              if u.id == cid then { u with pend := u.pend ++ d } else u) }) (connOwner_mem ha) rfl ?_ h
          have : ids { a with conns := a.conns.map (fun u => if u.id == cid then { u with pend := u.pend ++ d } else u) } = ids a := by
            unfold ids
            exact ids_map_same _ _ (by intro t; split <;> rfl)
          rw [this]; exact List.Sublist.refl _
      · exact kept_self h
    · exact kept_self h
  | pipeCloseC k =>
    refine ⟨k, fun a' h => Or.inl ?_⟩
    simp only [step] at h
    split at h
    · rename_i a t hp
      exact kept_replace (a2 := dropConn a t.id) (pipeOf_mem hp) rfl (ids_dropConn a t.id) h
    · exact kept_self h
  | pipeCloseP lid cid =>
    refine ⟨⟨0, ⟨⟨false, 0⟩, 0⟩⟩, fun a' h => Or.inl ?_⟩
    simp only [step] at h
    split at h
    · rename_i a ha
      split at h
      · split at h
        · exact kept_replace (a2 := dropConn a cid) (connOwner_mem ha) rfl (ids_dropConn a cid) h
        · exact kept_self h
      · exact kept_self h
    · exact kept_self h
  | close => exact ⟨⟨0, ⟨⟨false, 0⟩, 0⟩⟩, fun a' h => by simp [step] at h⟩

/-! ### the invariant -/

/-- within one allocation the connection ids are distinct, and two allocations of one listener share none -/
def CidUniq (s : State) : Prop :=
  (∀ a ∈ s.allocs, (ids a).Nodup) ∧
  (∀ a ∈ s.allocs, ∀ b ∈ s.allocs, a.key ≠ b.key → a.key.lid = b.key.lid → ∀ i ∈ ids a, i ∉ ids b)

/-- where an id of an allocation of the new table comes from: the same-key allocation of the old table
    already had it, or it is the one id this step added, which nobody at that listener was using -/
theorem id_source {s : State} {k0 : Key} {a' : Alloc} (h : Kept s a' ∨ Added s k0 a') {i : Nat} (hi : i ∈ ids a') :
    (∃ a ∈ s.allocs, a.key = a'.key ∧ i ∈ ids a) ∨
    (a'.key = k0 ∧ ∃ a ∈ s.allocs, a.key = a'.key ∧ cidUsed s a.key.lid i = false) := by
  rcases h with (h0 | ⟨a, ha, hk, hs⟩) | ⟨hk0, a, ha, hk, cid, hc, hf⟩
  · rw [h0] at hi; cases hi
  · exact Or.inl ⟨a, ha, hk, hs.subset hi⟩
  · rw [hc] at hi
    rcases List.mem_cons.mp hi with rfl | hi'
    · exact Or.inr ⟨hk0, a, ha, hk, hf⟩
    · exact Or.inl ⟨a, ha, hk, hi'⟩

theorem cidUniq_step (c : Cfg) (s : State) (op : Op) (h : CidUniq s) : CidUniq (step c s op).1 := by
  obtain ⟨k0, hstep⟩ := step_ids c s op
  obtain ⟨h1, h2⟩ := h
  constructor
  · intro a' ha'
    rcases hstep a' ha' with (h0 | ⟨a, ha, _, hs⟩) | ⟨_, a, ha, _, cid, hc, hf⟩
    · rw [h0]; exact List.nodup_nil
    · exact (h1 a ha).sublist hs
    · rw [hc, List.nodup_cons]
      exact ⟨(cidUsed_false_iff s a.key.lid cid).mp hf a ha rfl, h1 a ha⟩
  · intro a' ha' b' hb' hne hl i hia hib
    rcases id_source (hstep a' ha') hia with ⟨a, ha, hka, hi1⟩ | ⟨hka0, a, ha, hka, hfa⟩ <;>
      rcases id_source (hstep b' hb') hib with ⟨b, hb, hkb, hi2⟩ | ⟨hkb0, b, hb, hkb, hfb⟩
    · exact h2 a ha b hb (by rw [hka, hkb]; exact hne) (by rw [hka, hkb]; exact hl) i hi1 hi2
    · exact (cidUsed_false_iff s b.key.lid i).mp hfb a ha (by rw [hka, hkb]; exact hl) hi1
    · exact (cidUsed_false_iff s a.key.lid i).mp hfa b hb (by rw [hka, hkb]; exact hl.symm) hi2
    · exact hne (hka0.trans hkb0.symm)

/-- **connection ids are unique** over every reachable state of the server -/
theorem cidUniq_reach {c : Cfg} {s : State} (h : Reach c s) : CidUniq s := by
  obtain ⟨ops, rfl⟩ := h
  have : ∀ (ops : List Op) (s0 : State), CidUniq s0 → CidUniq (run c s0 ops).1 := by
    intro ops
    induction ops with
    | nil => intro s0 h; exact h
    | cons o os ih => intro s0 h; simp only [run]; exact ih _ (cidUniq_step c s0 o h)
  exact this ops init ⟨by simp [init], by simp [init]⟩

end Turn.Srv
