import TurnModel.Model.Skel
namespace Skel

theorem mapM_some_mem {α β} (f : α → Option β) :
    ∀ (l : List α) (r : List β), l.mapM f = some r → ∀ a ∈ l, ∃ b ∈ r, f a = some b := by
  intro l
  induction l with
  | nil => intro r _ a ha; cases ha
  | cons x xs ih =>
    intro r h a ha
    simp only [List.mapM_cons, Option.bind_eq_bind] at h
    cases hx : f x with
    | none => simp [hx] at h
    | some y =>
      simp only [hx, Option.bind_some] at h
      cases hxs : xs.mapM f with
      | none => simp [hxs] at h
      | some ys =>
        simp only [hxs, Option.bind_some, Option.pure_def, Option.some.injEq] at h
        subst h
        cases ha with
        | head => exact ⟨y, List.mem_cons_self, hx⟩
        | tail _ ha' =>
          obtain ⟨b, hb, hfb⟩ := ih ys hxs a ha'
          exact ⟨b, List.mem_cons_of_mem _ hb, hfb⟩

theorem chk_sound : ∀ {s σ o σ'}, Exec s σ o σ' → ∀ R, chk s σ = some R → (o, σ') ∈ R := by
  intro s σ o σ' h
  induction h with
  | skip σ => intro R hR; simp [chk] at hR; subst hR; simp
  | acq l σ => intro R hR; simp [chk] at hR; subst hR; simp
  | rel l σ hm => intro R hR; simp [chk, hm] at hR; subst hR; simp
  | deferRel l σ => intro R hR; simp [chk] at hR; subst hR; simp
  | call f σ => intro R hR; simp [chk] at hR; subst hR; simp
  | need l σ hm => intro R hR; simp [chk, hm] at hR; subst hR; simp
  | ret σ => intro R hR; simp [chk] at hR; subst hR; simp
  | brk σ => intro R hR; simp [chk] at hR; subst hR; simp
  | cont σ => intro R hR; simp [chk] at hR; subst hR; simp
  | @seqNorm a b σ σ1 o σ2 _ _ iha ihb =>
    intro R hR
    simp only [chk, Option.bind_eq_bind] at hR
    cases hra : chk a σ with
    | none => simp [hra] at hR
    | some ra =>
      simp only [hra, Option.bind_some] at hR
      cases hp : ra.mapM (fun (x : Outcome × St) => if x.1 = Outcome.norm then chk b x.2 else some [(x.1, x.2)]) with
      | none => simp [hp] at hR
      | some parts =>
        simp only [hp, Option.bind_some, Option.pure_def, Option.some.injEq] at hR
        subst hR
        have hmem := iha ra hra
        obtain ⟨rb, hrb, hf⟩ := mapM_some_mem _ ra parts hp _ hmem
        simp only [if_true] at hf
        exact List.mem_flatten.mpr ⟨rb, hrb, ihb rb hf⟩
  | @seqStop a b σ o σ1 _ hne iha =>
    intro R hR
    simp only [chk, Option.bind_eq_bind] at hR
    cases hra : chk a σ with
    | none => simp [hra] at hR
    | some ra =>
      simp only [hra, Option.bind_some] at hR
      cases hp : ra.mapM (fun (x : Outcome × St) => if x.1 = Outcome.norm then chk b x.2 else some [(x.1, x.2)]) with
      | none => simp [hp] at hR
      | some parts =>
        simp only [hp, Option.bind_some, Option.pure_def, Option.some.injEq] at hR
        subst hR
        have hmem := iha ra hra
        obtain ⟨rb, hrb, hf⟩ := mapM_some_mem _ ra parts hp _ hmem
        simp only [hne, if_false, Option.some.injEq] at hf
        subst hf
        exact List.mem_flatten.mpr ⟨_, hrb, by simp⟩
  | @altL a b σ o σ1 _ iha =>
    intro R hR
    simp only [chk, Option.bind_eq_bind] at hR
    cases hra : chk a σ with
    | none => simp [hra] at hR
    | some ra =>
      cases hrb : chk b σ with
      | none => simp [hra, hrb] at hR
      | some rb =>
        simp [hra, hrb] at hR; subst hR
        exact List.mem_append_left _ (iha ra hra)
  | @altR a b σ o σ1 _ ihb =>
    intro R hR
    simp only [chk, Option.bind_eq_bind] at hR
    cases hra : chk a σ with
    | none => simp [hra] at hR
    | some ra =>
      cases hrb : chk b σ with
      | none => simp [hra, hrb] at hR
      | some rb =>
        simp [hra, hrb] at hR; subst hR
        exact List.mem_append_right _ (ihb rb hrb)
  | @loopExit b σ =>
    intro R hR
    simp only [chk, Option.bind_eq_bind] at hR
    cases hrb : chk b σ with
    | none => simp [hrb] at hR
    | some rb =>
      simp only [hrb, Option.bind_some] at hR
      split at hR
      · simp at hR; subst hR; simp
      · simp at hR
  | @loopIter b σ σ1 o o' σ2 _ ho _ ihb ihl =>
    intro R hR
    have hR0 := hR
    simp only [chk, Option.bind_eq_bind] at hR
    cases hrb : chk b σ with
    | none => simp [hrb] at hR
    | some rb =>
      simp only [hrb, Option.bind_some] at hR
      split at hR
      · rename_i hall
        have hm := ihb rb hrb
        have := List.all_eq_true.mp hall _ hm
        simp only [decide_eq_true_eq] at this
        have hσ : σ1 = σ := this ho
        subst hσ
        exact ihl R hR0
      · simp at hR
  | @loopBrk b σ σ1 _ ihb =>
    intro R hR
    simp only [chk, Option.bind_eq_bind] at hR
    cases hrb : chk b σ with
    | none => simp [hrb] at hR
    | some rb =>
      simp only [hrb, Option.bind_some] at hR
      split at hR
      · simp only [Option.pure_def, Option.some.injEq] at hR; subst hR
        refine List.mem_cons_of_mem _ (List.mem_filterMap.mpr ⟨_, ihb rb hrb, ?_⟩)
        simp
      · simp at hR
  | @loopRet b σ σ1 _ ihb =>
    intro R hR
    simp only [chk, Option.bind_eq_bind] at hR
    cases hrb : chk b σ with
    | none => simp [hrb] at hR
    | some rb =>
      simp only [hrb, Option.bind_some] at hR
      split at hR
      · simp only [Option.pure_def, Option.some.injEq] at hR; subst hR
        refine List.mem_cons_of_mem _ (List.mem_filterMap.mpr ⟨_, ihb rb hrb, ?_⟩)
        simp
      · simp at hR

/-- if the checker accepts, no execution gets stuck at a `rel`/`need` whose lock is not held -/
theorem chk_no_fault : ∀ {s σ}, Fault s σ → ∀ R, chk s σ ≠ some R := by
  intro s σ h
  induction h with
  | rel l σ hn => intro R hR; simp [chk, hn] at hR
  | need l σ hn => intro R hR; simp [chk, hn] at hR
  | @seqL a b σ _ ih =>
    intro R hR
    simp only [chk, Option.bind_eq_bind] at hR
    cases hra : chk a σ with
    | none => simp [hra] at hR
    | some ra => exact ih ra hra
  | @seqR a b σ σ1 hex _ ih =>
    intro R hR
    simp only [chk, Option.bind_eq_bind] at hR
    cases hra : chk a σ with
    | none => simp [hra] at hR
    | some ra =>
      simp only [hra, Option.bind_some] at hR
      cases hp : ra.mapM (fun (x : Outcome × St) => if x.1 = Outcome.norm then chk b x.2 else some [(x.1, x.2)]) with
      | none => simp [hp] at hR
      | some parts =>
        obtain ⟨rb, _, hf⟩ := mapM_some_mem _ ra parts hp _ (chk_sound hex ra hra)
        simp only [if_true] at hf
        exact ih rb hf
  | @altL a b σ _ ih =>
    intro R hR
    simp only [chk, Option.bind_eq_bind] at hR
    cases hra : chk a σ with
    | none => simp [hra] at hR
    | some ra => exact ih ra hra
  | @altR a b σ _ ih =>
    intro R hR
    simp only [chk, Option.bind_eq_bind] at hR
    cases hra : chk a σ with
    | none => simp [hra] at hR
    | some ra =>
      cases hrb : chk b σ with
      | none => simp [hra, hrb] at hR
      | some rb => exact ih rb hrb
  | @loopNow b σ _ ih =>
    intro R hR
    simp only [chk, Option.bind_eq_bind] at hR
    cases hrb : chk b σ with
    | none => simp [hrb] at hR
    | some rb => exact ih rb hrb
  | @loopLater b σ σ1 o hex ho _ ih =>
    intro R hR
    have hR0 := hR
    simp only [chk, Option.bind_eq_bind] at hR
    cases hrb : chk b σ with
    | none => simp [hrb] at hR
    | some rb =>
      simp only [hrb, Option.bind_some] at hR
      split at hR
      · rename_i hall
        have := List.all_eq_true.mp hall _ (chk_sound hex rb hrb)
        simp only [decide_eq_true_eq] at this
        have hσ : σ1 = σ := this ho
        subst hσ
        exact ih R hR0
      · simp at hR

/-- run deferred releases (LIFO); none if one is not held -/
def runDefers : List LockId → List LockId → Option (List LockId)
  | held, [] => some held
  | held, d :: ds => if d ∈ held then runDefers (held.erase d) ds else none

/-- function-level verdict: every way of leaving the function ends with no lock held -/
def balanced (s : Stmt) : Bool :=
  match chk s ⟨[], []⟩ with
  | none => false
  | some R => R.all (fun (o, σ) => (o = .norm ∨ o = .ret) && runDefers σ.held σ.defers == some [])

theorem balanced_sound (s : Stmt) (hb : balanced s = true) :
    ∀ o σ', Exec s ⟨[], []⟩ o σ' → runDefers σ'.held σ'.defers = some [] := by
  intro o σ' hex
  unfold balanced at hb
  split at hb
  · simp at hb
  · rename_i R hR
    have := List.all_eq_true.mp hb _ (chk_sound hex R hR)
    simp at this
    exact this.2

/-- guard-before-effect: `instrument req s` puts `need g` (for every guard `g` that `req f` lists) in front of every `call f` -/
def instrument (req : Nat → List Nat) : Stmt → Stmt
  | .call f => (req f).foldr (fun g s => .seq (.need g) s) (.call f)
  | .seq a b => .seq (instrument req a) (instrument req b)
  | .alt a b => .alt (instrument req a) (instrument req b)
  | .loop b => .loop (instrument req b)
  | s => s

/-- the checker accepts the instrumented skeleton started with the guards in `ctx` already passed -/
def guardedFrom (req : Nat → List Nat) (ctx : List Nat) (s : Stmt) : Bool := (chk (instrument req s) ⟨ctx, []⟩).isSome

/-- every execution of an accepted handler reaches each effect only after its guards -/
theorem guarded_sound (req : Nat → List Nat) (ctx : List Nat) (s : Stmt) (h : guardedFrom req ctx s = true) :
    ¬ Fault (instrument req s) ⟨ctx, []⟩ := by
  intro hf
  unfold guardedFrom at h
  cases hc : chk (instrument req s) ⟨ctx, []⟩ with
  | none => simp [hc] at h
  | some R => exact chk_no_fault hf R hc

end Skel
