/-
Inversion lemmas: what a success response of each request handler implies.
-/
import TurnModel.Lemmas.Server
namespace Turn.Srv

theorem authFail_no_ok' (k m tid r) (k' : Key) (me : String) (code tid' : Nat) (ra : RA) :
    Out.resp k' me true code tid' ra ∉ authFail k m tid r := by
  cases r <;> simp [authFail, errResp]

theorem hAllocate_success_inv {c s k tid cr lt tr df tok even fam env k' me code tid' ra}
    (h : Out.resp k' me true code tid' ra ∈ (hAllocate c s k tid cr lt tr df tok even fam env).outs) :
    ∃ u, authenticate c cr = .ok u ∧ k' = k ∧ me = "Allocate" ∧ code = 0 ∧ tid' = tid ∧
    ((∃ a, findAlloc s k = some a ∧ a.cacheTid = tid ∧
        ra = { lt := some a.cacheLt, relay := some a.relay, mapped := some k.src, token := a.cacheTok } ∧
        (hAllocate c s k tid cr lt tr df tok even fam env).upd = .keep ∧
        (hAllocate c s k tid cr lt tr df tok even fam env).resv = none) ∨
     (findAlloc s k = none ∧ ∃ tcp reqPort newTok f g p,
        allocChecks c s k lt tr df tok even fam env = .ok (tcp, reqPort, newTok, f, g) ∧ env.port = some p ∧
        relayBusy s (relayOf c f reqPort p) tcp = false ∧
        ra = { lt := some (g / sec), relay := some (relayOf c f reqPort p), mapped := some k.src, token := newTok } ∧
        (hAllocate c s k tid cr lt tr df tok even fam env).upd =
          .set ⟨k, u, relayOf c f reqPort p, tcp, f, s.now + g, [], [], [], tid, g / sec, newTok⟩ ∧
        (hAllocate c s k tid cr lt tr df tok even fam env).resv =
          newTok.map (fun tk => ⟨k.lid, tk, (relayOf c f reqPort p).port, s.now + c.resvT⟩))) := by
  unfold hAllocate at h
  split at h
  · rename_i u hu
    refine ⟨u, hu, ?_⟩
    split at h
    · rename_i a ha
      split at h
      · rename_i htid
        simp only [okResp, List.mem_singleton, Out.resp.injEq] at h
        obtain ⟨rfl, rfl, _, rfl, rfl, rfl⟩ := h
        refine ⟨rfl, rfl, rfl, rfl, Or.inl ⟨a, ha, by simpa using htid, rfl, ?_, ?_⟩⟩ <;>
          simp [hAllocate, hu, ha, htid]
      · simp [errResp] at h
    · rename_i hnone
      split at h
      · simp [errResp] at h
      · rename_i tcp reqPort newTok f g hchk
        split at h
        · simp [errResp] at h
        · rename_i p hp
          split at h
          · simp [errResp] at h
          · rename_i hb
            simp only [okResp, List.mem_singleton, Out.resp.injEq] at h
            obtain ⟨rfl, rfl, _, rfl, rfl, rfl⟩ := h
            refine ⟨rfl, rfl, rfl, rfl, Or.inr ⟨hnone, tcp, reqPort, newTok, f, g, p, hchk, hp, by simpa using hb, rfl, ?_, ?_⟩⟩ <;>
              simp [hAllocate, hu, hnone, hchk, hp, hb]
  · exact absurd h (authFail_no_ok' _ _ _ _ _ _ _ _ _)

theorem hRefresh_success_inv {c s k tid cr lt fam k' me code tid' ra}
    (h : Out.resp k' me true code tid' ra ∈ (hRefresh c s k tid cr lt fam).outs) :
    ∃ u a, authenticate c cr = .ok u ∧ ownAlloc s k u = some a ∧ refreshFamErr fam a.fam = none ∧
      k' = k ∧ me = "Refresh" ∧ code = 0 ∧ tid' = tid ∧ ra = { lt := some (lifetimeOf c lt / sec) } ∧
      (hRefresh c s k tid cr lt fam).resv = none ∧
      (hRefresh c s k tid cr lt fam).upd =
        if lifetimeOf c lt == 0 then .del else .set { a with expiry := s.now + lifetimeOf c lt } := by
  unfold hRefresh at h
  split at h
  · rename_i u hu
    split at h
    · simp at h
    · rename_i a ha
      split at h
      · simp [errResp] at h
      · rename_i hfe
        refine ⟨u, a, hu, ha, hfe, ?_⟩
        split at h
        · rename_i hz
          simp only [okResp, List.mem_singleton, Out.resp.injEq] at h
          obtain ⟨rfl, rfl, _, rfl, rfl, rfl⟩ := h
          have hz' : lifetimeOf c lt = 0 := by simpa using hz
          refine ⟨rfl, rfl, rfl, rfl, by simp [hz'], ?_, ?_⟩ <;> simp [hRefresh, hu, ha, hfe, hz]
        · rename_i hz
          simp only [okResp, List.mem_singleton, Out.resp.injEq] at h
          obtain ⟨rfl, rfl, _, rfl, rfl, rfl⟩ := h
          refine ⟨rfl, rfl, rfl, rfl, rfl, ?_, ?_⟩ <;> simp [hRefresh, hu, ha, hfe, hz]
  · exact absurd h (authFail_no_ok' _ _ _ _ _ _ _ _ _)

theorem hCreatePerm_success_inv {c s k tid cr peers k' me code tid' ra}
    (h : Out.resp k' me true code tid' ra ∈ (hCreatePerm c s k tid cr peers).outs) :
    ∃ u a, authenticate c cr = .ok u ∧ ownAlloc s k u = some a ∧ (permLoop c s.now k peers a).2 = none ∧
      peers ≠ [] ∧ k' = k ∧ tid' = tid ∧ code = 0 ∧
      (hCreatePerm c s k tid cr peers).upd = .set (permLoop c s.now k peers a).1 ∧
      (hCreatePerm c s k tid cr peers).resv = none := by
  unfold hCreatePerm at h
  split at h
  · rename_i u hu
    split at h
    · simp at h
    · rename_i a ha
      split at h
      · simp [errResp] at h
      · rename_i hl
        split at h
        · simp [errResp] at h
        · rename_i he
          simp only [okResp, List.mem_singleton, Out.resp.injEq] at h
          obtain ⟨rfl, _, _, rfl, rfl, _⟩ := h
          refine ⟨u, a, hu, ha, hl, by intro h; simp [h] at he, rfl, rfl, rfl, ?_, ?_⟩ <;>
            simp [hCreatePerm, hu, ha, hl, he]
  · exact absurd h (authFail_no_ok' _ _ _ _ _ _ _ _ _)

theorem hChanBind_success_inv {c s k tid cr num peer k' me code tid' ra}
    (h : Out.resp k' me true code tid' ra ∈ (hChanBind c s k tid cr num peer).outs) :
    ∃ u a n p, authenticate c cr = .ok u ∧ ownAlloc s k u = some a ∧ bindChecks c k a num peer = .ok (n, p) ∧
      k' = k ∧ tid' = tid ∧ code = 0 ∧
      (hChanBind c s k tid cr num peer).upd = .set (addChan s.now c n p a) ∧
      (hChanBind c s k tid cr num peer).resv = none := by
  unfold hChanBind at h
  split at h
  · rename_i u hu
    split at h
    · simp at h
    · rename_i a ha
      split at h
      · simp [errResp] at h
      · rename_i n p hb
        simp only [okResp, List.mem_singleton, Out.resp.injEq] at h
        obtain ⟨rfl, _, _, rfl, rfl, _⟩ := h
        refine ⟨u, a, n, p, hu, ha, hb, rfl, rfl, rfl, ?_, ?_⟩ <;> simp [hChanBind, hu, ha, hb]
  · exact absurd h (authFail_no_ok' _ _ _ _ _ _ _ _ _)

/-- a ChannelBind that is answered with an error changes nothing -/
theorem hChanBind_error_keep {c s k tid cr num peer k' me code tid' ra}
    (h : Out.resp k' me false code tid' ra ∈ (hChanBind c s k tid cr num peer).outs) :
    (hChanBind c s k tid cr num peer).upd = .keep ∧ (hChanBind c s k tid cr num peer).resv = none := by
  unfold hChanBind at h ⊢
  split at h
  · split at h
    · simp at h
    · split at h
      · simp
      · simp [okResp] at h
  · simp

end Turn.Srv

namespace Turn.Srv

/-- a client message is processed (not dropped by the closed-socket or MTU rule) -/
def accepted (c : Cfg) (s : State) (k : Key) (sz : Nat) : Prop :=
  (s.closed && !(getLis c k.lid).stream) = false ∧ sz < c.inMTU

theorem step_msg_dropped (c : Cfg) (s : State) (k : Key) (sz : Nat) (m : Msg) (h : ¬ accepted c s k sz) :
    step c s (.msg k sz m) = (s, []) := by
  simp only [step]
  by_cases h1 : (s.closed && !(getLis c k.lid).stream) = true
  · simp [h1]
  · by_cases h2 : sz ≥ c.inMTU
    · simp [h1, h2]
    · exact absurd ⟨by simpa using h1, by omega⟩ h

theorem step_msg_accepted (c : Cfg) (s : State) (k : Key) (sz : Nat) (m : Msg) (h : accepted c s k sz)
    (hm : ∀ tid cr cid, m ≠ .connBind tid cr cid) :
    step c s (.msg k sz m) =
      ({ (applyUpd s k (handle c s k m).upd).1 with
          resvs := match (handle c s k m).resv with
                   | some rv => rv :: (applyUpd s k (handle c s k m).upd).1.resvs
                   | none => (applyUpd s k (handle c s k m).upd).1.resvs },
       (handle c s k m).outs ++ (applyUpd s k (handle c s k m).upd).2) := by
  have h2 : ¬ sz ≥ c.inMTU := by have := h.2; omega
  cases m with
  | connBind tid cr cid => exact (hm tid cr cid rfl).elim
  | _ => simp only [step, h.1, h2, if_false, Bool.false_eq_true] <;> rfl

/-- outputs of a processed client message: produced by the handler, or by tearing down the caller's
    own allocation -/
theorem step_msg_outs (c : Cfg) (s : State) (k : Key) (sz : Nat) (m : Msg) (o : Out)
    (hm : ∀ tid cr cid, m ≠ .connBind tid cr cid) (h : o ∈ (step c s (.msg k sz m)).2) :
    accepted c s k sz ∧ (o ∈ (handle c s k m).outs ∨ o ∈ (applyUpd s k (handle c s k m).upd).2) := by
  by_cases ha : accepted c s k sz
  · rw [step_msg_accepted c s k sz m ha hm] at h
    exact ⟨ha, List.mem_append.mp h⟩
  · rw [step_msg_dropped c s k sz m ha] at h
    simp at h

theorem applyUpd_outs_not_resp (s : State) (k : Key) (u : Upd) (k' : Key) (me : String) (ok : Bool) (code tid : Nat) (ra : RA) :
    Out.resp k' me ok code tid ra ∉ (applyUpd s k u).2 := by
  cases u with
  | keep => simp [applyUpd]
  | set a => simp [applyUpd]
  | del =>
    simp only [applyUpd]
    split
    · simp only [closeOuts, List.mem_flatMap, not_exists, not_and]
      intro t _ h
      split at h <;> simp at h
    · simp

end Turn.Srv
