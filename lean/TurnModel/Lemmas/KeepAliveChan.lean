/-
Lemmas about M7 for the channel-binding driver: the per-peer invariant that keeps every binding (and so
the data path in both directions) alive.
-/
import TurnModel.Lemmas.KeepAlive
namespace Turn.KeepAlive

theorem lt_length_of_getElem? {α} {l : List α} {i : Nat} {v : α} (h : l[i]? = some v) : i < l.length := by
  rcases Nat.lt_or_ge i l.length with h1 | h1
  · exact h1
  · rw [List.getElem?_eq_none h1] at h; cases h

theorem getElem?_set_self' {α} {l : List α} {i : Nat} {v a : α} (h : l[i]? = some v) : (l.set i a)[i]? = some a := by
  rw [List.getElem?_set]; simp [lt_length_of_getElem? h]

theorem getElem?_set_ne' {α} {l : List α} {i j : Nat} {a : α} (h : i ≠ j) : (l.set i a)[j]? = l[j]? := by
  rw [List.getElem?_set]; simp [h]

theorem bindTx_root_mem (s : St) (p : Nat) (x : Txn) (h : s.bindTx[p]? = some (some x)) : (x.due, Root.bindTx p) ∈ roots s := by
  unfold roots
  simp only [List.mem_append]
  left; right
  rw [List.mem_flatMap]
  exact ⟨(some x, p), List.mk_mem_zipIdx_iff_getElem?.mpr h, by simp [optRoot]⟩

theorem bind_root_mem (s : St) (w : Nat) (h : s.bindWake = some w) : (w, Root.bind) ∈ roots s := by
  simp [roots, optRoot, h]

/-! ### the server side for ChannelBind -/

theorem srvProc_cb (s : St) (t p n e : Nat) (he : s.allocExp = some e) (ht : t < e) :
    (srvProc s t (.cb p) n = (s, .stale) ∧ nonceWindow < minuteOf t - n) ∨
    (srvProc s t (.cb p) n = ({ s with chanExp := s.chanExp.set p (t + s.cfg.chanT), permExp := s.permExp.set p (t + s.cfg.permT) }, .ok) ∧
      minuteOf t - n ≤ nonceWindow) := by
  unfold srvProc
  have hl : allocLive s t = true := by simp [allocLive, he, ht]
  by_cases h : minuteOf t - n > nonceWindow
  · left; simp [h]
  · right; simp only [h, if_false, hl, Bool.not_true, Bool.false_eq_true]; exact ⟨trivial, by omega⟩

/-- requests other than ChannelBind leave the channel table alone -/
theorem srvProc_chanExp_other (s : St) (t : Nat) (k : Kind) (n : Nat) (hk : ∀ p, k ≠ .cb p) : (srvProc s t k n).1.chanExp = s.chanExp := by
  unfold srvProc
  split
  · rfl
  · split
    · rfl
    · split
      · rfl
      · rfl
      · rfl
      · rename_i p; exact absurd rfl (hk p)

theorem transmit_chanExp (s : St) (k : Kind) (x : Txn) (h : ¬ x.i < x.pat.a) :
    (transmit s k x).1.chanExp =
      (if (!decide (x.i < x.pat.a + x.pat.b)) && x.pat.dup then (srvProc (srvProc s x.due k x.nonce).1 x.due k x.nonce).1
       else (srvProc s x.due k x.nonce).1).chanExp := by
  unfold transmit
  simp only [h, if_false]
  split <;> split <;> rfl

theorem transmit_chanExp_other (s : St) (k : Kind) (x : Txn) (hk : ∀ p, k ≠ .cb p) : (transmit s k x).1.chanExp = s.chanExp := by
  by_cases hia : x.i < x.pat.a
  · have : transmit s k x = (s, [], none) := by unfold transmit; simp [hia]
    rw [this]
  · rw [transmit_chanExp s k x hia]
    split
    · rw [srvProc_chanExp_other _ _ _ _ hk, srvProc_chanExp_other _ _ _ _ hk]
    · rw [srvProc_chanExp_other _ _ _ _ hk]

/-- the fields the binding invariant reads besides the channel table -/
theorem transmit_same_bind (s : St) (k : Kind) (x : Txn) :
    (transmit s k x).1.cfg = s.cfg ∧ (transmit s k x).1.now = s.now ∧ (transmit s k x).1.bnds = s.bnds ∧
    (transmit s k x).1.bindTx = s.bindTx ∧ (transmit s k x).1.bindWake = s.bindWake ∧ (transmit s k x).1.nonce = s.nonce ∧
    (transmit s k x).1.cbIdx = s.cbIdx := by
  obtain ⟨ae, pe, ce, tn, wy, h⟩ := transmit_frame s k x
  rw [h]; exact ⟨rfl, rfl, rfl, rfl, rfl, rfl, rfl⟩

/-- a ChannelBind transmission while the allocation is live: lost, or stale, or accepted -/
theorem transmit_cb (s : St) (p : Nat) (x : Txn) (e : Nat) (he : s.allocExp = some e) (ht : x.due < e) :
    ((transmit s (.cb p) x).2.2 = none ∧ x.i < x.pat.a + x.pat.b ∧
      ((transmit s (.cb p) x).1.chanExp = s.chanExp ∨ (transmit s (.cb p) x).1.chanExp = s.chanExp.set p (x.due + s.cfg.chanT))) ∨
    ((transmit s (.cb p) x).2.2 = some .ok ∧ (transmit s (.cb p) x).1.chanExp = s.chanExp.set p (x.due + s.cfg.chanT)) ∨
    ((transmit s (.cb p) x).2.2 = some .stale ∧ (transmit s (.cb p) x).1.chanExp = s.chanExp ∧ nonceWindow < minuteOf x.due - x.nonce) := by
  by_cases hia : x.i < x.pat.a
  · left
    have : transmit s (.cb p) x = (s, [], none) := by unfold transmit; simp [hia]
    rw [this]
    exact ⟨rfl, by omega, Or.inl rfl⟩
  · rw [transmit_code s _ x hia, transmit_chanExp s _ x hia]
    rcases srvProc_cb s x.due p x.nonce e he ht with ⟨h1, hst⟩ | ⟨h1, _⟩
    · rw [h1]
      simp only [h1, ite_self]
      by_cases hl : x.i < x.pat.a + x.pat.b
      · left; simp only [hl, if_true]; exact ⟨trivial, trivial, Or.inl trivial⟩
      · right; right; simp only [hl, if_false]; exact ⟨trivial, trivial, hst⟩
    · rw [h1]
      simp only
      have hexp : (if (!decide (x.i < x.pat.a + x.pat.b)) && x.pat.dup then
            (srvProc { s with chanExp := s.chanExp.set p (x.due + s.cfg.chanT), permExp := s.permExp.set p (x.due + s.cfg.permT) } x.due (.cb p) x.nonce).1
          else { s with chanExp := s.chanExp.set p (x.due + s.cfg.chanT), permExp := s.permExp.set p (x.due + s.cfg.permT) }).chanExp
            = s.chanExp.set p (x.due + s.cfg.chanT) := by
        split
        · rcases srvProc_cb { s with chanExp := s.chanExp.set p (x.due + s.cfg.chanT), permExp := s.permExp.set p (x.due + s.cfg.permT) }
              x.due p x.nonce e he ht with ⟨h2, _⟩ | ⟨h2, _⟩ <;> rw [h2]
          simp [List.set_set]
        · rfl
      rw [hexp]
      by_cases hl : x.i < x.pat.a + x.pat.b
      · left; simp only [hl, if_true]; exact ⟨trivial, trivial, Or.inr trivial⟩
      · right; left; simp only [hl, if_false]; exact ⟨trivial, trivial⟩

end Turn.KeepAlive
