//go:build verif

package allocation

// H12 (C16, C15): the allocation manager's TCP peer-connection bookkeeping under schedules that the virtual-time
// harnesses cannot produce (a goroutine waiting for the manager's mutex is invisible to virtual time) and with a bind
// deadline short enough to run in real time (the manager's own `tcpConnectionBindTimeout` setting):
//   * a ConnectionBind that reaches the manager BEFORE the deadline while the manager is busy (a slow lifecycle callback
//     holds its lock across the deadline): a bind that is granted is never undone by the deadline;
//   * an allocation that ends while the peer is still being dialled: nothing is attached to a dead allocation;
//   * bind exactly at / after the deadline, repeated bind, bind by another user (real manager, real loopback sockets).

import (
	"net"
	"sync"
	"sync/atomic"
	"testing"
	"time"

	"github.com/pion/logging"
	"github.com/pion/turn/v5/internal/proto"
)

type h12Env struct {
	vt        *vhT
	m         *Manager
	turnSock  net.PacketConn
	dialDelay atomic.Int64 // nanoseconds the next outgoing dial takes
	permDel   atomic.Int64 // nanoseconds OnPermissionDeleted takes (it runs with the manager's lock held)
	entered   chan struct{}
	peerLn    net.Listener
	mu        sync.Mutex
	accepted  []net.Conn
	port      int
	events    atomic.Int64 // permission / channel lifecycle events seen
	slowPeer  atomic.Value // net.IP: OnPermissionDeleted / OnChannelDeleted for this peer take slowFor (they run under the entry list's lock)
	slowFor   atomic.Int64
	permNew   atomic.Int64 // nanoseconds OnPermissionCreated takes
	permMade  atomic.Int64 // OnPermissionCreated events
	connClose atomic.Int64 // nanoseconds Close of an outgoing peer connection takes
}

// slowCloseConn: a peer connection whose Close takes a while (a TLS shutdown, a lingering socket)
type slowCloseConn struct {
	net.Conn
	e *h12Env
}

func (c *slowCloseConn) Close() error {
	if d := time.Duration(c.e.connClose.Load()); d > 0 {
		time.Sleep(d)
	}

	return c.Conn.Close()
}

func (e *h12Env) slowIf(ip net.IP) {
	if sp, _ := e.slowPeer.Load().(net.IP); sp != nil && sp.Equal(ip) {
		time.Sleep(time.Duration(e.slowFor.Load()))
	}
}

func newH12Env(vt *vhT, bindTimeout time.Duration) *h12Env {
	e := &h12Env{vt: vt, entered: make(chan struct{}, 16), port: 5000}
	m, err := NewManager(ManagerConfig{
		LeveledLogger: logging.NewDefaultLoggerFactory().NewLogger("h12"),
		AllocatePacketConn: func(AllocateListenerConfig) (net.PacketConn, net.Addr, error) {
			c, err := net.ListenPacket("udp4", "127.0.0.1:0")
			if err != nil {
				return nil, nil, err
			}

			return c, c.LocalAddr(), nil
		},
		AllocateListener: func(AllocateListenerConfig) (net.Listener, net.Addr, error) {
			l, err := net.Listen("tcp4", "127.0.0.1:0")
			if err != nil {
				return nil, nil, err
			}

			return l, l.Addr(), nil
		},
		AllocateConn: func(info AllocateConnConfig) (net.Conn, error) {
			if d := time.Duration(e.dialDelay.Load()); d > 0 {
				time.Sleep(d)
			}
			d := net.Dialer{Timeout: 3 * time.Second}
			c, err := d.Dial(info.Network, info.RemoteAddr.String())
			if err != nil {
				return nil, err
			}

			return &slowCloseConn{Conn: c, e: e}, nil
		},
		EventHandler: EventHandler{
			OnPermissionCreated: func(_, _ net.Addr, _, _, _ string, _ net.Addr, peer net.IP) {
				e.events.Add(1)
				e.permMade.Add(1)
				if d := time.Duration(e.permNew.Load()); d > 0 {
					time.Sleep(d)
				}
			},
			OnChannelCreated:    func(net.Addr, net.Addr, string, string, string, net.Addr, net.Addr, uint16) { e.events.Add(1) },
			OnChannelDeleted: func(_, _ net.Addr, _, _, _ string, _, peer net.Addr, _ uint16) {
				e.events.Add(1)
				if u, ok := peer.(*net.UDPAddr); ok {
					e.slowIf(u.IP)
				}
			},
			OnPermissionDeleted: func(_, _ net.Addr, _, _, _ string, _ net.Addr, peer net.IP) {
				e.events.Add(1)
				e.slowIf(peer)
				if d := time.Duration(e.permDel.Load()); d > 0 {
					select {
					case e.entered <- struct{}{}:
					default:
					}
					time.Sleep(d)
				}
			},
		},
		tcpConnectionBindTimeout: bindTimeout,
	})
	if err != nil {
		vt.Alarm("h12-setup", "NewManager: %v", err)

		return nil
	}
	e.m = m
	e.turnSock, _ = net.ListenPacket("udp4", "127.0.0.1:0")
	e.peerLn, err = net.Listen("tcp4", "127.0.0.1:0")
	if err != nil {
		vt.Alarm("h12-setup", "peer listener: %v", err)

		return nil
	}
	go func() {
		for {
			c, err := e.peerLn.Accept()
			if err != nil {
				return
			}
			e.mu.Lock()
			e.accepted = append(e.accepted, c)
			e.mu.Unlock()
		}
	}()

	return e
}

func (e *h12Env) close() {
	_ = e.m.Close()
	_ = e.peerLn.Close()
	_ = e.turnSock.Close()
	e.mu.Lock()
	for _, c := range e.accepted {
		_ = c.Close()
	}
	e.mu.Unlock()
}

func (e *h12Env) tuple() *FiveTuple {
	e.port++

	return &FiveTuple{
		SrcAddr:  &net.TCPAddr{IP: net.IPv4(127, 0, 0, 1), Port: e.port},
		DstAddr:  &net.TCPAddr{IP: net.IPv4(127, 0, 0, 1), Port: 3478},
		Protocol: TCP,
	}
}

func (e *h12Env) alloc(user string, transport proto.Protocol, lifetime time.Duration) (*Allocation, *FiveTuple) {
	ft := e.tuple()
	a, err := e.m.CreateAllocation(ft, e.turnSock, transport, 0, lifetime, user, "", proto.RequestedFamilyIPv4)
	if err != nil {
		e.vt.Alarm("h12-setup", "CreateAllocation: %v", err)

		return nil, ft
	}

	return a, ft
}

func (e *h12Env) peerAddr() proto.PeerAddress {
	ta, _ := e.peerLn.Addr().(*net.TCPAddr)

	return proto.PeerAddress{IP: ta.IP, Port: ta.Port}
}

// lastPeer returns the peer side of the most recent connection made to the peer listener
func (e *h12Env) lastPeer(wait time.Duration) net.Conn {
	end := time.Now().Add(wait)
	for time.Now().Before(end) {
		e.mu.Lock()
		n := len(e.accepted)
		var c net.Conn
		if n > 0 {
			c = e.accepted[n-1]
		}
		e.mu.Unlock()
		if c != nil {
			return c
		}
		time.Sleep(2 * time.Millisecond)
	}

	return nil
}

// stillOpen: the peer side sees neither EOF nor a reset within d
func stillOpen(peer net.Conn, d time.Duration) bool {
	_ = peer.SetReadDeadline(time.Now().Add(d))
	_, err := peer.Read(make([]byte, 1))
	if err == nil {
		return true
	}
	ne, ok := err.(net.Error) //nolint:errorlint

	return ok && ne.Timeout()
}

// a bind that arrives before the deadline while the manager's lock is held across the deadline by a slow callback
func runH12BindVsTimer(vt *vhT, bindAt, holdFrom, holdFor, timeout time.Duration) {
	vt.OpSync("slowcb bind-vs-deadline bind@%d hold@%d+%d deadline@%d", bindAt.Milliseconds(), holdFrom.Milliseconds(), holdFor.Milliseconds(), timeout.Milliseconds())
	e := newH12Env(vt, timeout)
	if e == nil {
		vt.Obs("ok")

		return
	}
	defer e.close()
	alice, _ := e.alloc("alice", proto.ProtoTCP, time.Minute)
	bob, bobTuple := e.alloc("bob", proto.ProtoUDP, time.Minute)
	if alice == nil || bob == nil {
		vt.Obs("ok")

		return
	}
	bob.AddPermission(NewPermission(&net.UDPAddr{IP: net.IPv4(127, 0, 0, 9), Port: 1}, e.m.log, time.Minute))
	t0 := time.Now()
	cid, err := e.m.CreateTCPConnection(alice, e.peerAddr())
	if err != nil {
		vt.Alarm("h12-setup", "CreateTCPConnection: %v", err)
		vt.Obs("ok")

		return
	}
	peer := e.lastPeer(time.Second)
	if peer == nil {
		vt.Alarm("h12-setup", "the peer listener saw no connection")
		vt.Obs("ok")

		return
	}
	e.permDel.Store(int64(holdFor))
	time.Sleep(time.Until(t0.Add(holdFrom)))
	go e.m.DeleteAllocation(bobTuple) // OnPermissionDeleted now holds the manager's lock for holdFor
	select {
	case <-e.entered:
	case <-time.After(time.Second):
	}
	time.Sleep(time.Until(t0.Add(bindAt)))
	arrived := time.Since(t0)
	got := e.m.GetTCPConnection("alice", cid) // what ConnectionBind does; waits for the lock
	if arrived >= timeout {
		vt.Note("bind arrived late (%v), scenario void", arrived)
		vt.Obs("ok")

		return
	}
	if got == nil {
		// the deadline won although the request came in time: tolerated only when the lock was busy (it was) - but then the
		// deadline must really have won: exactly one of the two gets the connection, a refused one is closed and forgotten
		vt.Stat("h12.bind.refused")
		closed := false
		for end := time.Now().Add(3 * time.Second); time.Now().Before(end) && !closed; {
			closed = !stillOpen(peer, 100*time.Millisecond)
		}
		e.m.lock.Lock()
		_, there := alice.tcpConnections[cid]
		e.m.lock.Unlock()
		if !closed || there {
			vt.Alarm("bind-refused-but-connection-kept", "ConnectionBind arrived %v after Connect (deadline %v) and was REFUSED, yet the peer connection is neither closed (closed=%v) "+
				"nor forgotten (registered=%v): nobody can ever bind it and the peer cannot be connected to again", arrived.Round(time.Millisecond), timeout, closed, there)
		}
		vt.Obs("ok")

		return
	}
	vt.Stat("h12.bind.granted")
	// granted: the server now answers success and starts the pipe; the deadline must leave the connection alone
	if !stillOpen(peer, 300*time.Millisecond) {
		vt.Alarm("bound-connection-closed-by-bind-timer", "ConnectionBind arrived %v after Connect (deadline %v) while a lifecycle callback held the manager's lock; it was granted, "+
			"then the bind timer closed the peer connection", arrived.Round(time.Millisecond), timeout)
	} else if _, werr := got.Write([]byte("x")); werr != nil {
		vt.Alarm("bound-connection-closed-by-bind-timer", "write on the granted connection: %v", werr)
	}
	e.m.lock.Lock()
	_, there := alice.tcpConnections[cid]
	e.m.lock.Unlock()
	if !there {
		vt.Alarm("bound-connection-closed-by-bind-timer", "the granted connection id is no longer registered with its allocation")
	}
	vt.Obs("ok")
}

// an allocation that ends (expiry or deletion) while the peer is still being dialled
func runH12DialOutlivesAllocation(vt *vhT, cause string) {
	vt.OpSync("slowcb Connect-dial allocation-%s 1", cause)
	e := newH12Env(vt, 2*time.Second)
	if e == nil {
		vt.Obs("ok")

		return
	}
	defer e.close()
	life := time.Minute
	if cause == "expiry" {
		life = 200 * time.Millisecond
	}
	alice, ft := e.alloc("alice", proto.ProtoTCP, life)
	if alice == nil {
		vt.Obs("ok")

		return
	}
	e.dialDelay.Store(int64(500 * time.Millisecond))
	if cause == "delete" {
		go func() {
			time.Sleep(200 * time.Millisecond)
			e.m.DeleteAllocation(ft)
		}()
	}
	cid, err := e.m.CreateTCPConnection(alice, e.peerAddr())
	gone := e.m.GetAllocation(ft) == nil
	if !gone {
		vt.Note("allocation still there after the dial, scenario void")
		vt.Obs("ok")

		return
	}
	if err == nil {
		vt.Alarm("connection-attached-to-dead-allocation", "the allocation ended (%s) while its Connect was dialling the peer: Connect still succeeds with connection id %d, "+
			"which nobody can bind", cause, cid)
		if peer := e.lastPeer(time.Second); peer != nil && stillOpen(peer, 300*time.Millisecond) {
			vt.Alarm("connection-attached-to-dead-allocation", "the peer connection made for the dead allocation stays open")
		}
	} else if peer := e.lastPeer(1500 * time.Millisecond); peer != nil { // the dial may still be under way when Connect has already failed
		closed := false
		for end := time.Now().Add(2 * time.Second); time.Now().Before(end) && !closed; {
			closed = !stillOpen(peer, 100*time.Millisecond)
		}
		if !closed {
			vt.Alarm("connection-attached-to-dead-allocation", "Connect failed (%v) but the peer connection it made stays open, owned by nobody", err)
		}
	}
	vt.Obs("ok")
}

// the plain rules on the real manager with a short deadline: once, by the owner, in time
func runH12Rules(vt *vhT) {
	vt.OpSync("slowcb bind-rules none 1")
	const timeout = 300 * time.Millisecond
	e := newH12Env(vt, timeout)
	if e == nil {
		vt.Obs("ok")

		return
	}
	defer e.close()
	alice, _ := e.alloc("alice", proto.ProtoTCP, time.Minute)
	if alice == nil {
		vt.Obs("ok")

		return
	}
	// 1. wrong user does not consume the id; the owner binds once; a second bind is refused
	cid, err := e.m.CreateTCPConnection(alice, e.peerAddr())
	if err != nil {
		vt.Alarm("h12-setup", "CreateTCPConnection: %v", err)
		vt.Obs("ok")

		return
	}
	peer := e.lastPeer(time.Second)
	if c := e.m.GetTCPConnection("bob", cid); c != nil {
		vt.Alarm("bind-rule-broken", "another user was given the peer connection")
	}
	if c := e.m.GetTCPConnection("alice", cid); c == nil {
		vt.Alarm("bind-rule-broken", "the owner was refused after a foreign attempt")
	}
	if c := e.m.GetTCPConnection("alice", cid); c != nil {
		vt.Alarm("bind-rule-broken", "a bound id was bound again")
	}
	time.Sleep(timeout + 150*time.Millisecond)
	if peer != nil && !stillOpen(peer, 100*time.Millisecond) {
		vt.Alarm("bound-connection-closed-by-bind-timer", "a connection bound at once was closed when the deadline passed")
	}
	e.m.RemoveTCPConnection(cid)
	// 2. never bound: closed at the deadline, the id is dead afterwards, and a new Connect to the same peer is possible
	cid2, err := e.m.CreateTCPConnection(alice, e.peerAddr())
	if err != nil {
		vt.Alarm("bind-rule-broken", "Connect to the same peer after the first connection ended: %v", err)
		vt.Obs("ok")

		return
	}
	peer2 := e.lastPeer(time.Second)
	if _, err := e.m.CreateTCPConnection(alice, e.peerAddr()); err == nil {
		vt.Alarm("bind-rule-broken", "a second Connect to a connected peer succeeded")
	}
	time.Sleep(timeout + 150*time.Millisecond)
	if peer2 != nil {
		closed := false
		for end := time.Now().Add(3 * time.Second); time.Now().Before(end) && !closed; { // a late timer under CPU load is no violation
			closed = !stillOpen(peer2, 100*time.Millisecond)
		}
		if !closed {
			vt.Alarm("bind-rule-broken", "an unbound peer connection is still open 3 s after the bind deadline")
		}
	}
	if c := e.m.GetTCPConnection("alice", cid2); c != nil {
		vt.Alarm("bind-rule-broken", "bind granted after the deadline")
	}
	vt.Obs("ok")
}

// what a request handler does after a slow user callback (PermissionHandler, AuthHandler): it still holds the *Allocation
// it looked up, and the allocation may have ended meanwhile - nothing may be attached to it, no timer started, no event fired
func runH12AttachToDeadAllocation(vt *vhT, cause string) {
	vt.OpSync("slowcb PermissionHandler allocation-%s 1", cause)
	e := newH12Env(vt, 2*time.Second)
	if e == nil {
		vt.Obs("ok")

		return
	}
	defer e.close()
	life := time.Minute
	if cause == "expiry" {
		life = 150 * time.Millisecond
	}
	alice, ft := e.alloc("alice", proto.ProtoUDP, life)
	if alice == nil {
		vt.Obs("ok")

		return
	}
	if cause == "delete" {
		e.m.DeleteAllocation(ft)
	}
	for end := time.Now().Add(2 * time.Second); e.m.GetAllocation(ft) != nil && time.Now().Before(end); {
		time.Sleep(10 * time.Millisecond)
	}
	if e.m.GetAllocation(ft) != nil {
		vt.Note("allocation still there, scenario void")
		vt.Obs("ok")

		return
	}
	before := e.events.Load()
	peer := &net.UDPAddr{IP: net.IPv4(127, 0, 0, 9), Port: 4444}
	alice.AddPermission(NewPermission(peer, e.m.log, time.Minute))
	if n := len(alice.ListPermissions()); n != 0 {
		vt.Alarm("state-attached-to-dead-allocation", "a permission added after the allocation ended (%s) is installed on it (%d listed) with a running timer", cause, n)
		alice.RemovePermission(peer)
	}
	err := alice.AddChannelBind(NewChannelBind(0x4000, &net.UDPAddr{IP: net.IPv4(127, 0, 0, 9), Port: 4445}, e.m.log), time.Minute, time.Minute)
	if n := len(alice.ListChannelBindings()); n != 0 || len(alice.ListPermissions()) != 0 {
		vt.Alarm("state-attached-to-dead-allocation", "a channel binding added after the allocation ended (%s) is installed on it (err=%v, %d bindings, %d permissions)",
			cause, err, n, len(alice.ListPermissions()))
		alice.RemoveChannelBind(0x4000)
		alice.RemovePermission(&net.UDPAddr{IP: net.IPv4(127, 0, 0, 9), Port: 4445})
	}
	if after := e.events.Load(); after != before {
		vt.Alarm("state-attached-to-dead-allocation", "%d lifecycle events were reported for an allocation that had already been reported deleted (%s)", after-before, cause)
	}
	vt.Obs("ok")
}

// a CreatePermission / ChannelBind that refreshes an entry in the instant its lifetime runs out, while the entry list's lock is
// busy (another entry of the same allocation is being removed and its slow deleted-callback runs under that lock): the request
// is answered with success, so the entry must live on
func runH12RefreshVsEntryExpiry(vt *vhT, kind string) {
	vt.OpSync("slowcb refresh-vs-%s-expiry none 1", kind)
	e := newH12Env(vt, 2*time.Second)
	if e == nil {
		vt.Obs("ok")

		return
	}
	defer e.close()
	alice, _ := e.alloc("alice", proto.ProtoUDP, time.Minute)
	if alice == nil {
		vt.Obs("ok")

		return
	}
	p1 := &net.UDPAddr{IP: net.IPv4(127, 0, 0, 11), Port: 1000}
	p2 := &net.UDPAddr{IP: net.IPv4(127, 0, 0, 12), Port: 2000}
	e.slowPeer.Store(p1.IP)
	e.slowFor.Store(int64(400 * time.Millisecond))
	t0 := time.Now()
	var err error
	if kind == "permission" {
		alice.AddPermission(NewPermission(p1, e.m.log, 200*time.Millisecond))
		alice.AddPermission(NewPermission(p2, e.m.log, 350*time.Millisecond))
	} else {
		err = alice.AddChannelBind(NewChannelBind(0x4001, p1, e.m.log), 200*time.Millisecond, time.Minute)
		if err == nil {
			err = alice.AddChannelBind(NewChannelBind(0x4002, p2, e.m.log), 350*time.Millisecond, time.Minute)
		}
	}
	if err != nil {
		vt.Alarm("h12-setup", "refresh-vs-%s-expiry: %v", kind, err)
		vt.Obs("ok")

		return
	}
	// t0+200: entry 1 expires, its deleted-callback holds the lock until t0+600; t0+350: entry 2's timer fires and queues;
	// t0+450: the refresh of entry 2 arrives and queues as well
	time.Sleep(time.Until(t0.Add(450 * time.Millisecond)))
	if kind == "permission" {
		alice.AddPermission(NewPermission(p2, e.m.log, time.Minute))
	} else {
		err = alice.AddChannelBind(NewChannelBind(0x4002, p2, e.m.log), time.Minute, time.Minute)
	}
	done := time.Since(t0)
	time.Sleep(400 * time.Millisecond)
	alive := alice.GetPermission(p2) != nil
	if kind == "channel" {
		alive = alice.GetChannelByNumber(0x4002) != nil
	}
	switch {
	case err != nil:
		vt.Stat("h12.refresh-vs-entry." + kind + ".refused") // nothing was promised
	case !alive:
		vt.Alarm("entry-refreshed-then-expired", "the %s of %s was refreshed (the request returned without error %v after it was installed with a lifetime of 350 ms, "+
			"while another entry's deleted-callback held the lock) and is gone 400 ms later", kind, p2, done.Round(10*time.Millisecond))
	default:
		vt.Stat("h12.refresh-vs-entry." + kind + ".kept")
	}
	vt.Obs("ok")
}

// the REFRESH of a channel binding whose permission has meanwhile run out re-installs the permission; the user's
// OnPermissionCreated callback then runs - it must not run with a hold on the bindings, which every relayed datagram reads
func runH12CallbackVsDataPath(vt *vhT) {
	vt.OpSync("slowcb OnPermissionCreated bind-refresh 1")
	e := newH12Env(vt, 2*time.Second)
	if e == nil {
		vt.Obs("ok")

		return
	}
	defer e.close()
	alice, _ := e.alloc("alice", proto.ProtoUDP, time.Minute)
	if alice == nil {
		vt.Obs("ok")

		return
	}
	p := &net.UDPAddr{IP: net.IPv4(127, 0, 0, 21), Port: 2100}
	if err := alice.AddChannelBind(NewChannelBind(0x4010, p, e.m.log), time.Minute, 100*time.Millisecond); err != nil {
		vt.Alarm("h12-setup", "callback-vs-data-path: %v", err)
		vt.Obs("ok")

		return
	}
	for end := time.Now().Add(2 * time.Second); alice.GetPermission(p) != nil && time.Now().Before(end); {
		time.Sleep(10 * time.Millisecond)
	}
	e.permNew.Store(int64(500 * time.Millisecond))
	done := make(chan struct{})
	go func() {
		_ = alice.AddChannelBind(NewChannelBind(0x4010, p, e.m.log), time.Minute, time.Minute) // the refresh; OnPermissionCreated sleeps 500 ms
		close(done)
	}()
	time.Sleep(100 * time.Millisecond)
	t0 := time.Now()
	found := alice.GetChannelByAddr(p) != nil // what the relay does for every datagram of this peer
	took := time.Since(t0)
	if took > 250*time.Millisecond {
		vt.Alarm("data-path-blocked-by-callback", "while OnPermissionCreated (500 ms) ran for the refresh of a channel binding, the relay's lookup GetChannelByAddr took %v (found=%v): "+
			"the callback runs with the bindings locked", took.Round(10*time.Millisecond), found)
	}
	<-done
	e.permNew.Store(0)
	vt.Obs("ok")
}

// an entry whose lifetime has run out no longer authorises anything, even while its removal is still queued behind a lock that
// a user callback holds: lookups decide by the expiry time, not by presence
func runH12ExpiredStillAuthorises(vt *vhT, kind string) {
	vt.OpSync("slowcb expired-%s-lookup none 1", kind)
	e := newH12Env(vt, 2*time.Second)
	if e == nil {
		vt.Obs("ok")

		return
	}
	defer e.close()
	alice, _ := e.alloc("alice", proto.ProtoUDP, time.Minute)
	if alice == nil {
		vt.Obs("ok")

		return
	}
	p1 := &net.UDPAddr{IP: net.IPv4(127, 0, 0, 31), Port: 1000}
	p2 := &net.UDPAddr{IP: net.IPv4(127, 0, 0, 32), Port: 2000}
	e.slowPeer.Store(p1.IP)
	e.slowFor.Store(int64(500 * time.Millisecond))
	t0 := time.Now()
	var err error
	if kind == "permission" {
		alice.AddPermission(NewPermission(p1, e.m.log, 150*time.Millisecond))
		alice.AddPermission(NewPermission(p2, e.m.log, 250*time.Millisecond))
	} else {
		err = alice.AddChannelBind(NewChannelBind(0x4021, p1, e.m.log), 150*time.Millisecond, time.Minute)
		if err == nil {
			err = alice.AddChannelBind(NewChannelBind(0x4022, p2, e.m.log), 250*time.Millisecond, time.Minute)
		}
	}
	if err != nil {
		vt.Alarm("h12-setup", "expired-%s-lookup: %v", kind, err)
		vt.Obs("ok")

		return
	}
	// t0+150: entry 1 expires, its deleted-callback holds the list's lock until t0+650; entry 2 expires at t0+250, its removal
	// queues; the relay's lookup for entry 2 at t0+400 queues too and is served when the lock is released
	time.Sleep(time.Until(t0.Add(400 * time.Millisecond)))
	var auth bool
	if kind == "permission" {
		auth = alice.GetPermission(p2) != nil
	} else {
		auth = alice.GetChannelByNumber(0x4022) != nil || alice.GetChannelByAddr(p2) != nil
	}
	at := time.Since(t0)
	if auth && at > 300*time.Millisecond {
		vt.Alarm("expired-entry-still-authorises", "the %s of %s (lifetime 250 ms) still authorises a lookup answered %v after it was installed: its removal was queued behind "+
			"another entry's deleted-callback", kind, p2, at.Round(10*time.Millisecond))
	}
	vt.Obs("ok")
}

// DeleteAllocation racing with a handler that attaches: whatever the interleaving, nothing stays attached to the dead allocation
func runH12AttachRacesDelete(vt *vhT, rounds int) {
	vt.OpSync("slowcb attach-vs-delete none %d", rounds)
	e := newH12Env(vt, 2*time.Second)
	if e == nil {
		vt.Obs("ok")

		return
	}
	defer e.close()
	left := 0
	for i := 0; i < rounds && left == 0; i++ {
		alice, ft := e.alloc("alice", proto.ProtoUDP, time.Minute)
		if alice == nil {
			break
		}
		p := &net.UDPAddr{IP: net.IPv4(127, 0, 1, byte(i)), Port: 3000}
		start := make(chan struct{})
		var wg sync.WaitGroup
		wg.Add(2)
		go func() { defer wg.Done(); <-start; e.m.DeleteAllocation(ft) }()
		made := e.permMade.Load()
		var bindErr error
		go func() {
			defer wg.Done()
			<-start
			if i%2 == 0 {
				bindErr = alice.AddChannelBind(NewChannelBind(0x4030, p, e.m.log), time.Minute, time.Minute)
			} else {
				alice.AddPermission(NewPermission(p, e.m.log, time.Minute))
			}
		}()
		close(start)
		wg.Wait()
		if i%2 == 0 && bindErr == nil && e.permMade.Load() == made && left == 0 {
			left++
			vt.Alarm("success-for-ended-allocation", "round %d: a new ChannelBind raced with DeleteAllocation: AddChannelBind reported success although the permission that goes with "+
				"the binding was refused (the allocation had ended): the request would be answered with success for nothing", i)
		}
		if n := len(alice.ListPermissions()) + len(alice.ListChannelBindings()); n != 0 {
			left++
			vt.Alarm("state-attached-to-dead-allocation", "round %d: DeleteAllocation raced with a handler attaching to the allocation: %d entries are left on the deleted allocation "+
				"(permissions %d, bindings %d), their timers running", i, n, len(alice.ListPermissions()), len(alice.ListChannelBindings()))
			for _, pm := range alice.ListPermissions() {
				alice.RemovePermission(pm.Addr)
			}
			for _, cb := range alice.ListChannelBindings() {
				alice.RemoveChannelBind(cb.Number)
			}
		}
	}
	vt.Obs("ok")
}

// the refresh of a permission while the allocation is being torn down: Close has marked it ended but has not reached the
// permissions yet (it is still closing a peer connection that takes its time) - the refresh must be refused like an insert
func runH12RefreshOnEndingAllocation(vt *vhT) {
	vt.OpSync("slowcb conn-Close permission-refresh 1")
	e := newH12Env(vt, 2*time.Second)
	if e == nil {
		vt.Obs("ok")

		return
	}
	defer e.close()
	alice, ft := e.alloc("alice", proto.ProtoTCP, time.Minute)
	if alice == nil {
		vt.Obs("ok")

		return
	}
	pa := e.peerAddr()
	p := &net.TCPAddr{IP: pa.IP, Port: pa.Port}
	alice.AddPermission(NewPermission(p, e.m.log, time.Minute))
	if _, err := e.m.CreateTCPConnection(alice, pa); err != nil {
		vt.Alarm("h12-setup", "refresh-on-ending-allocation: %v", err)
		vt.Obs("ok")

		return
	}
	e.connClose.Store(int64(400 * time.Millisecond))
	go e.m.DeleteAllocation(ft)
	time.Sleep(150 * time.Millisecond) // Close is now inside the slow close of the peer connection
	if !alice.isClosed() || alice.GetPermission(p) == nil {
		vt.Note("teardown not in the expected phase (closed=%v), scenario void", alice.isClosed())
		vt.Obs("ok")
		time.Sleep(400 * time.Millisecond)

		return
	}
	var res any = alice.AddPermission(NewPermission(p, e.m.log, time.Minute))
	if res == nil {
		vt.Alarm("success-for-ended-allocation", "the refresh of a permission on an allocation that Close had already marked ended (it was still closing a peer connection) "+
			"reported success: CreatePermission / ChannelBind would be answered with success for an allocation that is gone a moment later")
	}
	time.Sleep(400 * time.Millisecond)
	e.connClose.Store(0)
	vt.Obs("ok")
}


// runH12SlowCreatedVsTeardown: while the application's OnAllocationCreated handler is still running, the allocation it
// announces is already registered, so another goroutine can find it and end or refresh it (the manager is used from one
// goroutine per listener and per stream connection, and its methods are exported).  Whatever such a goroutine does must not
// crash on a half-initialised allocation, and the manager's lock must be free afterwards.
func runH12SlowCreatedVsTeardown(vt *vhT) {
	for _, how := range []string{"delete", "refresh", "close"} {
		vt.OpSync("slowcb OnAllocationCreated concurrent-%s 1", how)
		entered, release := make(chan struct{}, 1), make(chan struct{})
		m, err := NewManager(ManagerConfig{
			LeveledLogger: logging.NewDefaultLoggerFactory().NewLogger("h12"),
			AllocatePacketConn: func(AllocateListenerConfig) (net.PacketConn, net.Addr, error) {
				c, err := net.ListenPacket("udp4", "127.0.0.1:0")
				if err != nil {
					return nil, nil, err
				}

				return c, c.LocalAddr(), nil
			},
			AllocateListener: func(AllocateListenerConfig) (net.Listener, net.Addr, error) { return nil, nil, net.ErrClosed },
			AllocateConn:     func(AllocateConnConfig) (net.Conn, error) { return nil, net.ErrClosed },
			EventHandler: EventHandler{OnAllocationCreated: func(_, _ net.Addr, _, _, _ string, _ net.Addr, _ int) {
				entered <- struct{}{}
				<-release
			}},
		})
		if err != nil {
			vt.Alarm("h12-setup", "NewManager: %v", err)
			vt.Obs("ok")

			continue
		}
		sock, _ := net.ListenPacket("udp4", "127.0.0.1:0")
		ft := &FiveTuple{Protocol: UDP, SrcAddr: &net.UDPAddr{IP: net.IPv4(127, 0, 0, 1), Port: 40000}, DstAddr: sock.LocalAddr()}
		created := make(chan struct{})
		go func() {
			defer close(created)
			_, _ = m.CreateAllocation(ft, sock, proto.ProtoUDP, 0, time.Minute, "alice", "", proto.RequestedFamilyIPv4)
		}()
		select {
		case <-entered:
		case <-time.After(5 * time.Second):
			vt.Alarm("h12-setup", "OnAllocationCreated was not called")
			vt.Obs("ok")

			continue
		}
		panicked := make(chan any, 1)
		go func() {
			defer func() { panicked <- recover() }()
			switch how {
			case "delete":
				m.DeleteAllocation(ft)
			case "refresh":
				if a := m.GetAllocation(ft); a != nil {
					a.Refresh(time.Minute)
				}
			case "close":
				_ = m.Close()
			}
		}()
		select {
		case r := <-panicked:
			if r != nil {
				vt.Alarm("half-initialised-allocation-published", "%s of an allocation whose OnAllocationCreated handler was still running panicked: %v "+
					"(the allocation was registered before it was fully initialised)", how, r)
			}
		case <-time.After(5 * time.Second):
			vt.Alarm("lock-held-on-return", "%s of an allocation whose OnAllocationCreated handler was still running did not return within 5 s", how)
		}
		close(release)
		<-created
		locked := make(chan int, 1)
		go func() { locked <- m.AllocationCount() }()
		select {
		case <-locked:
			_ = m.Close()
		case <-time.After(5 * time.Second):
			vt.Alarm("lock-held-on-return", "the manager's lock is still held after %s raced a slow OnAllocationCreated", how)
		}
		_ = sock.Close()
		vt.Obs("ok")
	}
}


// runH12LookupStalledPastExpiry: peer A's permission expires into a slow OnPermissionDeleted handler (it runs under the
// permission lock); peer B, whose permission is still good, sends now, and its lookup waits for the lock until after B's own
// permission has run out.  Nothing may then reach the client: the lookup must judge the entry by the clock at lookup time.
func runH12LookupStalledPastExpiry(vt *vhT) {
	vt.OpSync("slowcb OnPermissionDeleted lookup-stalled-past-expiry 1")
	defer vt.Obs("ok")
	const lifeA, lifeB = 200 * time.Millisecond, 700 * time.Millisecond
	peerAIP := net.ParseIP("127.0.0.2")
	entered, release := make(chan struct{}), make(chan struct{})
	m, err := NewManager(ManagerConfig{
		LeveledLogger: logging.NewDefaultLoggerFactory().NewLogger("h12"),
		AllocatePacketConn: func(AllocateListenerConfig) (net.PacketConn, net.Addr, error) {
			c, err := net.ListenPacket("udp4", "0.0.0.0:0")
			if err != nil {
				return nil, nil, err
			}

			return c, c.LocalAddr(), nil
		},
		AllocateListener: func(AllocateListenerConfig) (net.Listener, net.Addr, error) { return nil, nil, net.ErrClosed },
		AllocateConn:     func(AllocateConnConfig) (net.Conn, error) { return nil, net.ErrClosed },
		EventHandler: EventHandler{OnPermissionDeleted: func(_, _ net.Addr, _, _, _ string, _ net.Addr, ip net.IP) {
			if ip.Equal(peerAIP) {
				close(entered)
				<-release
			}
		}},
	})
	if err != nil {
		vt.Alarm("h12-setup", "NewManager: %v", err)

		return
	}
	turnSock, e1 := net.ListenPacket("udp4", "127.0.0.1:0")
	client, e2 := net.ListenPacket("udp4", "127.0.0.1:0")
	peerB, e3 := net.ListenPacket("udp4", "127.0.0.3:0")
	if e1 != nil || e2 != nil || e3 != nil {
		vt.Note("lookup-stalled scenario void: sockets %v %v %v", e1, e2, e3)

		return
	}
	defer func() { _ = m.Close(); _ = client.Close(); _ = peerB.Close(); _ = turnSock.Close() }()
	got := make(chan int, 16)
	go func() {
		buf := make([]byte, 2048)
		for {
			n, _, err := client.ReadFrom(buf)
			if err != nil {
				return
			}
			got <- n
		}
	}()
	a, err := m.CreateAllocation(&FiveTuple{SrcAddr: client.LocalAddr(), DstAddr: turnSock.LocalAddr()}, turnSock, proto.ProtoUDP, 0, time.Minute, "", "", proto.RequestedFamilyIPv4)
	if err != nil {
		vt.Alarm("h12-setup", "CreateAllocation: %v", err)

		return
	}
	ra, _ := a.relayPacketConn.LocalAddr().(*net.UDPAddr)
	relay := &net.UDPAddr{IP: net.IPv4(127, 0, 0, 1), Port: ra.Port}
	start := time.Now()
	_ = a.AddPermission(NewPermission(&net.UDPAddr{IP: peerAIP, Port: 1}, m.log, lifeA))
	_ = a.AddPermission(NewPermission(peerB.LocalAddr(), m.log, lifeB))
	_, _ = peerB.WriteTo([]byte("early"), relay)
	select {
	case <-got:
	case <-time.After(3 * time.Second):
		vt.Note("lookup-stalled scenario void: a permitted peer was not relayed")

		return
	}
	select {
	case <-entered:
	case <-time.After(3 * time.Second):
		vt.Note("lookup-stalled scenario void: permission A did not expire")
		close(release)

		return
	}
	if time.Since(start) > lifeB-200*time.Millisecond {
		vt.Note("lookup-stalled scenario void: machine too slow for this schedule")
		close(release)

		return
	}
	_, _ = peerB.WriteTo([]byte("late"), relay) // B's permission is good for another ~0.4 s, but the lookup waits
	time.Sleep(time.Until(start.Add(lifeB + 500*time.Millisecond)))
	close(release)
	select {
	case n := <-got:
		vt.Alarm("expired-entry-still-authorises", "the client received %d bytes %v after the sender's permission had run out: the lookup that waited for the permission lock "+
			"judged the entry by a clock value taken before the wait", n, time.Since(start.Add(lifeB)).Round(time.Millisecond))
	case <-time.After(time.Second):
	}
	vt.Stat("h12.lookup-stalled")
}

func TestVerifH12(t *testing.T) {
	vt := vhOpen("h12")
	defer vt.Close()
	vt.Watchdog(60 * time.Second)
	runH12Rules(vt)
	vt.Flush()
	reps := 2
	if vt.Thorough() {
		reps = 10
	}
	for i := 0; i < reps; i++ {
		// the bind arrives at 50 % / 80 % of the deadline; the lock is held from before the bind until after the deadline
		runH12BindVsTimer(vt, 150*time.Millisecond, 100*time.Millisecond, 350*time.Millisecond, 300*time.Millisecond)
		runH12BindVsTimer(vt, 240*time.Millisecond, 50*time.Millisecond, 400*time.Millisecond, 300*time.Millisecond)
		vt.Flush()
	}
	for _, kind := range []string{"permission", "channel"} {
		runH12RefreshVsEntryExpiry(vt, kind)
		vt.Flush()
		runH12ExpiredStillAuthorises(vt, kind)
		vt.Flush()
	}
	runH12CallbackVsDataPath(vt)
	vt.Flush()
	runH12RefreshOnEndingAllocation(vt)
	vt.Flush()
	runH12SlowCreatedVsTeardown(vt)
	vt.Flush()
	runH12LookupStalledPastExpiry(vt)
	vt.Flush()
	rounds := 1500
	if vt.Thorough() {
		rounds = 20000
	}
	runH12AttachRacesDelete(vt, rounds)
	vt.Flush()
	for _, cause := range []string{"expiry", "delete"} {
		runH12DialOutlivesAllocation(vt, cause)
		vt.Flush()
		runH12AttachToDeadAllocation(vt, cause)
		vt.Flush()
	}
}
