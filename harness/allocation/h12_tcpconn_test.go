//go:build verif

package allocation

// H12 (C16, C15): the allocation manager's TCP peer-connection bookkeeping under schedules that the virtual-time
// harnesses cannot produce (a goroutine waiting for the manager's mutex is invisible to virtual time) and with a bind
// deadline short enough to run in real time (the manager's own `tcpConnectionBindTimeout` setting):
//   * a ConnectionBind that reaches the manager BEFORE the deadline while the manager is busy (a slow lifecycle callback
//     holds its lock across the deadline): a bind that is granted is never undone by the deadline;
//   * an allocation that ends while the peer is still being dialled: nothing is attached to a dead allocation;
//   * bind exactly at / after the deadline, repeated bind, bind by another user (real manager, real loopback sockets).

import (
	"net"
	"sync"
	"sync/atomic"
	"testing"
	"time"

	"github.com/pion/logging"
	"github.com/pion/turn/v5/internal/proto"
)

type h12Env struct {
	vt        *vhT
	m         *Manager
	turnSock  net.PacketConn
	dialDelay atomic.Int64 // nanoseconds the next outgoing dial takes
	permDel   atomic.Int64 // nanoseconds OnPermissionDeleted takes (it runs with the manager's lock held)
	entered   chan struct{}
	peerLn    net.Listener
	mu        sync.Mutex
	accepted  []net.Conn
	port      int
}

func newH12Env(vt *vhT, bindTimeout time.Duration) *h12Env {
	e := &h12Env{vt: vt, entered: make(chan struct{}, 16), port: 5000}
	m, err := NewManager(ManagerConfig{
		LeveledLogger: logging.NewDefaultLoggerFactory().NewLogger("h12"),
		AllocatePacketConn: func(AllocateListenerConfig) (net.PacketConn, net.Addr, error) {
			c, err := net.ListenPacket("udp4", "127.0.0.1:0")
			if err != nil {
				return nil, nil, err
			}

			return c, c.LocalAddr(), nil
		},
		AllocateListener: func(AllocateListenerConfig) (net.Listener, net.Addr, error) {
			l, err := net.Listen("tcp4", "127.0.0.1:0")
			if err != nil {
				return nil, nil, err
			}

			return l, l.Addr(), nil
		},
		AllocateConn: func(info AllocateConnConfig) (net.Conn, error) {
			if d := time.Duration(e.dialDelay.Load()); d > 0 {
				time.Sleep(d)
			}
			d := net.Dialer{Timeout: 3 * time.Second}

			return d.Dial(info.Network, info.RemoteAddr.String())
		},
		EventHandler: EventHandler{
			OnPermissionDeleted: func(net.Addr, net.Addr, string, string, string, net.Addr, net.IP) {
				if d := time.Duration(e.permDel.Load()); d > 0 {
					select {
					case e.entered <- struct{}{}:
					default:
					}
					time.Sleep(d)
				}
			},
		},
		tcpConnectionBindTimeout: bindTimeout,
	})
	if err != nil {
		vt.Alarm("h12-setup", "NewManager: %v", err)

		return nil
	}
	e.m = m
	e.turnSock, _ = net.ListenPacket("udp4", "127.0.0.1:0")
	e.peerLn, err = net.Listen("tcp4", "127.0.0.1:0")
	if err != nil {
		vt.Alarm("h12-setup", "peer listener: %v", err)

		return nil
	}
	go func() {
		for {
			c, err := e.peerLn.Accept()
			if err != nil {
				return
			}
			e.mu.Lock()
			e.accepted = append(e.accepted, c)
			e.mu.Unlock()
		}
	}()

	return e
}

func (e *h12Env) close() {
	_ = e.m.Close()
	_ = e.peerLn.Close()
	_ = e.turnSock.Close()
	e.mu.Lock()
	for _, c := range e.accepted {
		_ = c.Close()
	}
	e.mu.Unlock()
}

func (e *h12Env) tuple() *FiveTuple {
	e.port++

	return &FiveTuple{
		SrcAddr:  &net.TCPAddr{IP: net.IPv4(127, 0, 0, 1), Port: e.port},
		DstAddr:  &net.TCPAddr{IP: net.IPv4(127, 0, 0, 1), Port: 3478},
		Protocol: TCP,
	}
}

func (e *h12Env) alloc(user string, transport proto.Protocol, lifetime time.Duration) (*Allocation, *FiveTuple) {
	ft := e.tuple()
	a, err := e.m.CreateAllocation(ft, e.turnSock, transport, 0, lifetime, user, "", proto.RequestedFamilyIPv4)
	if err != nil {
		e.vt.Alarm("h12-setup", "CreateAllocation: %v", err)

		return nil, ft
	}

	return a, ft
}

func (e *h12Env) peerAddr() proto.PeerAddress {
	ta, _ := e.peerLn.Addr().(*net.TCPAddr)

	return proto.PeerAddress{IP: ta.IP, Port: ta.Port}
}

// lastPeer returns the peer side of the most recent connection made to the peer listener
func (e *h12Env) lastPeer(wait time.Duration) net.Conn {
	end := time.Now().Add(wait)
	for time.Now().Before(end) {
		e.mu.Lock()
		n := len(e.accepted)
		var c net.Conn
		if n > 0 {
			c = e.accepted[n-1]
		}
		e.mu.Unlock()
		if c != nil {
			return c
		}
		time.Sleep(2 * time.Millisecond)
	}

	return nil
}

// stillOpen: the peer side sees neither EOF nor a reset within d
func stillOpen(peer net.Conn, d time.Duration) bool {
	_ = peer.SetReadDeadline(time.Now().Add(d))
	_, err := peer.Read(make([]byte, 1))
	if err == nil {
		return true
	}
	ne, ok := err.(net.Error) //nolint:errorlint

	return ok && ne.Timeout()
}

// a bind that arrives before the deadline while the manager's lock is held across the deadline by a slow callback
func runH12BindVsTimer(vt *vhT, bindAt, holdFrom, holdFor, timeout time.Duration) {
	vt.OpSync("slowcb bind-vs-deadline bind@%d hold@%d+%d deadline@%d", bindAt.Milliseconds(), holdFrom.Milliseconds(), holdFor.Milliseconds(), timeout.Milliseconds())
	e := newH12Env(vt, timeout)
	if e == nil {
		vt.Obs("ok")

		return
	}
	defer e.close()
	alice, _ := e.alloc("alice", proto.ProtoTCP, time.Minute)
	bob, bobTuple := e.alloc("bob", proto.ProtoUDP, time.Minute)
	if alice == nil || bob == nil {
		vt.Obs("ok")

		return
	}
	bob.AddPermission(NewPermission(&net.UDPAddr{IP: net.IPv4(127, 0, 0, 9), Port: 1}, e.m.log, time.Minute))
	t0 := time.Now()
	cid, err := e.m.CreateTCPConnection(alice, e.peerAddr())
	if err != nil {
		vt.Alarm("h12-setup", "CreateTCPConnection: %v", err)
		vt.Obs("ok")

		return
	}
	peer := e.lastPeer(time.Second)
	if peer == nil {
		vt.Alarm("h12-setup", "the peer listener saw no connection")
		vt.Obs("ok")

		return
	}
	e.permDel.Store(int64(holdFor))
	time.Sleep(time.Until(t0.Add(holdFrom)))
	go e.m.DeleteAllocation(bobTuple) // OnPermissionDeleted now holds the manager's lock for holdFor
	select {
	case <-e.entered:
	case <-time.After(time.Second):
	}
	time.Sleep(time.Until(t0.Add(bindAt)))
	arrived := time.Since(t0)
	got := e.m.GetTCPConnection("alice", cid) // what ConnectionBind does; waits for the lock
	if arrived >= timeout {
		vt.Note("bind arrived late (%v), scenario void", arrived)
		vt.Obs("ok")

		return
	}
	if got == nil {
		// the deadline won although the request came in time: tolerated only when the lock was busy (it was)
		vt.Stat("h12.bind.refused")
		vt.Obs("ok")

		return
	}
	vt.Stat("h12.bind.granted")
	// granted: the server now answers success and starts the pipe; the deadline must leave the connection alone
	if !stillOpen(peer, 300*time.Millisecond) {
		vt.Alarm("bound-connection-closed-by-bind-timer", "ConnectionBind arrived %v after Connect (deadline %v) while a lifecycle callback held the manager's lock; it was granted, "+
			"then the bind timer closed the peer connection", arrived.Round(time.Millisecond), timeout)
	} else if _, werr := got.Write([]byte("x")); werr != nil {
		vt.Alarm("bound-connection-closed-by-bind-timer", "write on the granted connection: %v", werr)
	}
	e.m.lock.Lock()
	_, there := alice.tcpConnections[cid]
	e.m.lock.Unlock()
	if !there {
		vt.Alarm("bound-connection-closed-by-bind-timer", "the granted connection id is no longer registered with its allocation")
	}
	vt.Obs("ok")
}

// an allocation that ends (expiry or deletion) while the peer is still being dialled
func runH12DialOutlivesAllocation(vt *vhT, cause string) {
	vt.OpSync("slowcb Connect-dial allocation-%s 1", cause)
	e := newH12Env(vt, 2*time.Second)
	if e == nil {
		vt.Obs("ok")

		return
	}
	defer e.close()
	life := time.Minute
	if cause == "expiry" {
		life = 200 * time.Millisecond
	}
	alice, ft := e.alloc("alice", proto.ProtoTCP, life)
	if alice == nil {
		vt.Obs("ok")

		return
	}
	e.dialDelay.Store(int64(500 * time.Millisecond))
	if cause == "delete" {
		go func() {
			time.Sleep(200 * time.Millisecond)
			e.m.DeleteAllocation(ft)
		}()
	}
	cid, err := e.m.CreateTCPConnection(alice, e.peerAddr())
	gone := e.m.GetAllocation(ft) == nil
	if !gone {
		vt.Note("allocation still there after the dial, scenario void")
		vt.Obs("ok")

		return
	}
	if err == nil {
		vt.Alarm("connection-attached-to-dead-allocation", "the allocation ended (%s) while its Connect was dialling the peer: Connect still succeeds with connection id %d, "+
			"which nobody can bind", cause, cid)
		if peer := e.lastPeer(time.Second); peer != nil && stillOpen(peer, 300*time.Millisecond) {
			vt.Alarm("connection-attached-to-dead-allocation", "the peer connection made for the dead allocation stays open")
		}
	} else if peer := e.lastPeer(300 * time.Millisecond); peer != nil && stillOpen(peer, 300*time.Millisecond) {
		vt.Alarm("connection-attached-to-dead-allocation", "Connect failed (%v) but the peer connection it made stays open", err)
	}
	vt.Obs("ok")
}

// the plain rules on the real manager with a short deadline: once, by the owner, in time
func runH12Rules(vt *vhT) {
	vt.OpSync("slowcb bind-rules none 1")
	const timeout = 300 * time.Millisecond
	e := newH12Env(vt, timeout)
	if e == nil {
		vt.Obs("ok")

		return
	}
	defer e.close()
	alice, _ := e.alloc("alice", proto.ProtoTCP, time.Minute)
	if alice == nil {
		vt.Obs("ok")

		return
	}
	// 1. wrong user does not consume the id; the owner binds once; a second bind is refused
	cid, err := e.m.CreateTCPConnection(alice, e.peerAddr())
	if err != nil {
		vt.Alarm("h12-setup", "CreateTCPConnection: %v", err)
		vt.Obs("ok")

		return
	}
	peer := e.lastPeer(time.Second)
	if c := e.m.GetTCPConnection("bob", cid); c != nil {
		vt.Alarm("bind-rule-broken", "another user was given the peer connection")
	}
	if c := e.m.GetTCPConnection("alice", cid); c == nil {
		vt.Alarm("bind-rule-broken", "the owner was refused after a foreign attempt")
	}
	if c := e.m.GetTCPConnection("alice", cid); c != nil {
		vt.Alarm("bind-rule-broken", "a bound id was bound again")
	}
	time.Sleep(timeout + 150*time.Millisecond)
	if peer != nil && !stillOpen(peer, 100*time.Millisecond) {
		vt.Alarm("bound-connection-closed-by-bind-timer", "a connection bound at once was closed when the deadline passed")
	}
	e.m.RemoveTCPConnection(cid)
	// 2. never bound: closed at the deadline, the id is dead afterwards, and a new Connect to the same peer is possible
	cid2, err := e.m.CreateTCPConnection(alice, e.peerAddr())
	if err != nil {
		vt.Alarm("bind-rule-broken", "Connect to the same peer after the first connection ended: %v", err)
		vt.Obs("ok")

		return
	}
	peer2 := e.lastPeer(time.Second)
	if _, err := e.m.CreateTCPConnection(alice, e.peerAddr()); err == nil {
		vt.Alarm("bind-rule-broken", "a second Connect to a connected peer succeeded")
	}
	time.Sleep(timeout + 150*time.Millisecond)
	if peer2 != nil && stillOpen(peer2, 100*time.Millisecond) {
		vt.Alarm("bind-rule-broken", "an unbound peer connection is still open after the bind deadline")
	}
	if c := e.m.GetTCPConnection("alice", cid2); c != nil {
		vt.Alarm("bind-rule-broken", "bind granted after the deadline")
	}
	vt.Obs("ok")
}

func TestVerifH12(t *testing.T) {
	vt := vhOpen("h12")
	defer vt.Close()
	vt.Watchdog(60 * time.Second)
	runH12Rules(vt)
	vt.Flush()
	reps := 2
	if vt.Thorough() {
		reps = 10
	}
	for i := 0; i < reps; i++ {
		// the bind arrives at 50 % / 80 % of the deadline; the lock is held from before the bind until after the deadline
		runH12BindVsTimer(vt, 150*time.Millisecond, 100*time.Millisecond, 350*time.Millisecond, 300*time.Millisecond)
		runH12BindVsTimer(vt, 240*time.Millisecond, 50*time.Millisecond, 400*time.Millisecond, 300*time.Millisecond)
		vt.Flush()
	}
	for _, cause := range []string{"expiry", "delete"} {
		runH12DialOutlivesAllocation(vt, cause)
		vt.Flush()
	}
}
