//go:build verif

package turn

// H6 — keep-alive (C14): the real client against the real server on the simulated network for hours of
// virtual time. The server's timeouts, the client's refresh intervals, the number of peers, the traffic
// pattern and the fate of every transmission of every transaction (lost request, lost response, duplicate)
// are inputs; the millisecond at which the server answers each Refresh / CreatePermission / ChannelBind,
// the delivery of every probe datagram in both directions, and AllocationCount after Close are the outputs
// compared with the model (Model/KeepAlive.lean). Under testing/synctest the timeline is exact.

import (
	"fmt"
	"net"
	"sort"
	"strings"
	"sync"
	"testing"
	"testing/synctest"
	"time"

	"github.com/pion/logging"
	"github.com/pion/stun/v3"
	"github.com/pion/turn/v5/internal/proto"
)

type h6Pat struct {
	a, b int
	dup  bool
}

type h6Cfg struct {
	life, permT, chanT   int // server, ms (0 = library default)
	permP, bindAge, bindP int // client, ms (0 = library default)
	peers                int
	rf, cp, cb           []h6Pat
	rf0                  []h6Pat // fate of Close's Refresh(0)
	refused              bool    // the application also writes, once, to a peer the server refuses (403)
}

var h6RefusedPeer = &net.UDPAddr{IP: net.IPv4(10, 9, 9, 9).To4(), Port: 9000}

type h6Tx struct {
	kind string
	pat  h6Pat
	sent int
	resp int
}

type h6Ev struct {
	t int64
	s string
}

type h6World struct {
	nRefusedTx int
	vt     *vhT
	w      *h2World
	cfg    h6Cfg
	cpc    *simPC
	c      *Client
	conn   net.PacketConn
	peers  []*simPC
	born   time.Time
	mu     sync.Mutex
	evs    []h6Ev
	lossOn bool
	tx     map[[stun.TransactionIDSize]byte]*h6Tx
	rfIdx  int
	cpIdx  int
	cbIdx  []int
	dead   bool
	last0  string // response to the Refresh(0) of Close
}

func h6Eff(v, def int) int {
	if v == 0 {
		return def
	}
	return v
}

func (c h6Cfg) effective() h6Cfg {
	c.life = h6Eff(c.life, 600000)
	c.permT = h6Eff(c.permT, 300000)
	c.chanT = h6Eff(c.chanT, 600000)
	c.permP = h6Eff(c.permP, 120000)
	c.bindAge = h6Eff(c.bindAge, 300000)
	c.bindP = h6Eff(c.bindP, 30000)
	return c
}

// the hypothesis of the keep-alive theorem (Model/KeepAlive.lean `Compatible`)
func (c h6Cfg) compatible() bool {
	e := c.effective()
	const dH = 3 * 6200 // three attempts, each answered by its 7th transmission (offset 6.2 s) at the latest
	return e.life/2+dH < e.life && e.permP+dH < e.permT && e.bindAge+e.bindP+dH < e.chanT && e.life/2 > 0 && e.permP > 0 && e.bindP > 0
}

func h6Pats(p []h6Pat) string {
	if len(p) == 0 {
		return "-"
	}
	s := make([]string, len(p))
	for i, x := range p {
		d := 0
		if x.dup {
			d = 1
		}
		s[i] = fmt.Sprintf("%d.%d.%d", x.a, x.b, d)
	}
	return strings.Join(s, ",")
}

func h6Pick(tbl []h6Pat, i int) h6Pat {
	if len(tbl) == 0 {
		return h6Pat{}
	}
	return tbl[i%len(tbl)]
}

func (k *h6World) now() int64 { return int64(time.Since(k.born) / time.Millisecond) }

func (k *h6World) add(s string) {
	// a permission refresh may be sent as several CreatePermission requests (many peers): one refresh is one event
	if len(k.peers) > 50 && s == "cp ok" {
		for i := len(k.evs) - 1; i >= 0 && k.evs[i].t == k.now(); i-- {
			if k.evs[i].s == s {
				return
			}
		}
	}
	k.evs = append(k.evs, h6Ev{k.now(), s})
}

func (k *h6World) peerIndex(ip net.IP, port int) int {
	for i, p := range k.peers {
		if p.addr.IP.Equal(ip) && p.addr.Port == port {
			return i
		}
	}
	return -1
}

// decides the fate of every datagram between the client and the server
func (k *h6World) onDatagram(from, to net.Addr, b []byte) bool {
	k.mu.Lock()
	defer k.mu.Unlock()
	if !k.lossOn || !stun.IsMessage(b) {
		return false
	}
	srvAddr := k.w.lis[0].pc.addr.String()
	cliAddr := k.cpc.addr.String()
	m := &stun.Message{Raw: append([]byte{}, b...)}
	if m.Decode() != nil {
		return false
	}
	switch {
	case from.String() == cliAddr && to.String() == srvAddr && m.Type.Class == stun.ClassRequest:
		tx := k.tx[m.TransactionID]
		if tx == nil {
			tx = &h6Tx{}
			switch m.Type.Method {
			case stun.MethodRefresh:
				var lt proto.Lifetime
				_ = lt.GetFrom(m)
				if lt.Duration == 0 {
					tx.kind = "rf0"
					tx.pat = h6Pick(k.cfg.rf0, 0)
				} else {
					tx.kind = "rf"
					tx.pat = h6Pick(k.cfg.rf, k.rfIdx)
					k.rfIdx++
				}
			case stun.MethodCreatePermission:
				var pa proto.PeerAddress
				nPeers := 0
				_ = m.ForEach(stun.AttrXORPeerAddress, func(*stun.Message) error { nPeers++; return nil })
				if pa.GetFrom(m) == nil && pa.IP.Equal(h6RefusedPeer.IP) && nPeers == 1 {
					// the application's one write to the refused peer (a request naming that peer alone): outside the model's
					// timeline and the loss patterns.  A request that names it NEXT TO other peers is the client refreshing an
					// entry it should have dropped, and takes its place in the timeline like any other.
					k.nRefusedTx++
					return false
				}
				tx.kind = "cp"
				tx.pat = h6Pick(k.cfg.cp, k.cpIdx)
				k.cpIdx++
			case stun.MethodChannelBind:
				var pa proto.PeerAddress
				_ = pa.GetFrom(m)
				p := k.peerIndex(pa.IP, pa.Port)
				if p < 0 {
					return false
				}
				tx.kind = fmt.Sprintf("cb%d", p)
				tx.pat = h6Pick(k.cfg.cb, k.cbIdx[p]+3*p)
				k.cbIdx[p]++
			default:
				return false
			}
			k.tx[m.TransactionID] = tx
		}
		i := tx.sent
		tx.sent++
		if i < tx.pat.a {
			k.vt.Stat("h6.req-lost")
			return true
		}
		if i == tx.pat.a+tx.pat.b && tx.pat.dup {
			k.vt.Stat("h6.req-dup")
			select {
			case k.w.lis[0].pc.ch <- dgram{from: k.cpc.addr, data: append([]byte{}, b...)}:
			default:
			}
		}
		return false
	case from.String() == srvAddr && to.String() == cliAddr && (m.Type.Class == stun.ClassSuccessResponse || m.Type.Class == stun.ClassErrorResponse):
		tx := k.tx[m.TransactionID]
		if tx == nil {
			return false
		}
		code := "ok"
		if m.Type.Class == stun.ClassErrorResponse {
			var ec stun.ErrorCodeAttribute
			_ = ec.GetFrom(m)
			if ec.Code == stun.CodeStaleNonce {
				code = "438"
			} else {
				code = "dead"
			}
		}
		k.add(tx.kind + " " + code)
		k.vt.Stat("h6.resp." + strings.TrimRight(tx.kind, "0123456789") + "." + code)
		if tx.kind == "rf0" {
			k.last0 = code
		}
		j := tx.resp
		tx.resp++
		if j < tx.pat.b {
			k.vt.Stat("h6.resp-lost")
			return true
		}
	}
	return false
}

func newH6World(vt *vhT, cfg h6Cfg) *h6World {
	scfg := ServerConfig{AllocationLifetime: time.Duration(cfg.life) * time.Millisecond,
		PermissionTimeout: time.Duration(cfg.permT) * time.Millisecond, ChannelBindTimeout: time.Duration(cfg.chanT) * time.Millisecond}
	k := &h6World{vt: vt, cfg: cfg, tx: map[[stun.TransactionIDSize]byte]*h6Tx{}, cbIdx: make([]int, cfg.peers), born: time.Now()}
	l0 := &h2Listener{ip: net.ParseIP("10.0.0.1").To4()}
	if cfg.refused {
		l0.vetoed = []net.IP{h6RefusedPeer.IP}
	}
	k.w = newH2World(vt, scfg, []*h2Listener{l0}, true, false)
	k.w.n.dropWrite = k.onDatagram
	k.cpc, _ = k.w.n.listenUDP(net.ParseIP("10.0.0.2").To4(), 4000, true)
	for i := 0; i < cfg.peers; i++ {
		p, err := k.w.n.listenUDP(net.IPv4(10, 0, byte(1+i/200), byte(1+i%200)).To4(), 9000+i, true)
		if err != nil {
			panic(err)
		}
		k.peers = append(k.peers, p)
		idx := i
		go func() {
			buf := make([]byte, 2048)
			for {
				if _, _, err := p.ReadFrom(buf); err != nil {
					return
				}
				k.mu.Lock()
				k.add(fmt.Sprintf("dp%d", idx))
				k.mu.Unlock()
			}
		}()
	}
	lf := logging.NewDefaultLoggerFactory()
	lf.DefaultLogLevel = logging.LogLevelDisabled
	c, err := NewClient(&ClientConfig{STUNServerAddr: "10.0.0.1:3478", TURNServerAddr: "10.0.0.1:3478", Conn: k.cpc, LoggerFactory: lf,
		Username: "alice", Password: h2Users["alice"], Realm: "pion.ly",
		PermissionRefreshInterval: time.Duration(cfg.permP) * time.Millisecond,
		bindingRefreshInterval:    time.Duration(cfg.bindAge) * time.Millisecond,
		bindingCheckInterval:      time.Duration(cfg.bindP) * time.Millisecond})
	if err != nil {
		panic(err)
	}
	k.c = c
	if err := c.Listen(); err != nil {
		panic(err)
	}
	conn, err := c.Allocate()
	if err != nil {
		panic(err)
	}
	k.conn = conn
	go func() {
		buf := make([]byte, 2048)
		for {
			_, from, err := conn.ReadFrom(buf)
			if err != nil {
				return
			}
			ua, _ := from.(*net.UDPAddr)
			k.mu.Lock()
			if ua != nil {
				k.add(fmt.Sprintf("dc%d", k.peerIndex(ua.IP, ua.Port)))
			}
			k.mu.Unlock()
		}
	}()
	// establish the permission and the channel binding for every peer at t = 0, without loss
	for _, p := range k.peers {
		if _, err := conn.WriteTo([]byte("hello"), p.addr); err != nil {
			vt.Alarm("h6-setup", "first write to %s: %v", p.addr, err)
		}
		synctest.Wait()
	}
	synctest.Wait()
	k.mu.Lock()
	k.evs = nil
	k.lossOn = true
	k.mu.Unlock()
	if d := time.Since(k.born); d != 0 {
		vt.Alarm("h6-setup", "setup took %v of virtual time", d)
	}
	return k
}

// events since the last call, in canonical order, cut at the first sign that the allocation is gone
func (k *h6World) take() (string, []h6Ev) {
	synctest.Wait()
	k.mu.Lock()
	evs := k.evs
	k.evs = nil
	k.mu.Unlock()
	sort.SliceStable(evs, func(i, j int) bool {
		if evs[i].t != evs[j].t {
			return evs[i].t < evs[j].t
		}
		return evs[i].s < evs[j].s
	})
	var items []string
	for _, e := range evs {
		items = append(items, fmt.Sprintf("@%d %s", e.t, e.s))
		if strings.HasSuffix(e.s, " dead") {
			k.dead = true
			break
		}
	}
	if len(items) == 0 {
		return "-", evs
	}
	return strings.Join(items, ";"), evs
}

func h6Has(evs []h6Ev, s string) bool {
	for _, e := range evs {
		if e.s == s {
			return true
		}
	}
	return false
}

func (k *h6World) adv(ms int) {
	k.vt.OpSync("kadv %d", ms)
	time.Sleep(time.Duration(ms) * time.Millisecond)
	line, _ := k.take()
	k.vt.Obs("%s", line)
}

// the application writes a probe to peer p
func (k *h6World) wr(p int, compat bool) {
	k.vt.OpSync("kwr %d", p)
	_, err := k.conn.WriteTo([]byte("probe-c2p"), k.peers[p].addr)
	k.mu.Lock()
	if err == nil {
		k.add(fmt.Sprintf("wd%d ok", p))
	} else {
		k.add(fmt.Sprintf("wd%d err", p))
	}
	k.mu.Unlock()
	line, evs := k.take()
	k.vt.Obs("%s", line)
	if compat && !k.dead && !h6Has(evs, fmt.Sprintf("dp%d", p)) {
		k.vt.Alarm("probe-lost", "client->peer %d probe not delivered at t=%d ms (%s)", p, k.now(), line)
	}
}

// the application writes to a peer the server refuses: WriteTo must fail, and nothing else may change — in particular
// the refused peer must not stay in the client's permission table, where every later refresh would name it and be
// refused as a whole (the other peers would then lose their permissions: probe-lost)
func (k *h6World) wrRefused() {
	_, err := k.conn.WriteTo([]byte("probe-refused"), h6RefusedPeer)
	k.vt.Note("write to the refused peer at t=%d ms: err=%v", k.now(), err)
	if err == nil {
		k.vt.Alarm("refused-peer-written", "WriteTo a peer whose CreatePermission the server refused returned no error at t=%d ms", k.now())
	}
	k.vt.Stat("h6.refused-write")
}

// peer p writes a probe to the relayed address
func (k *h6World) pw(p int, compat bool) {
	k.vt.OpSync("kpw %d", p)
	_, _ = k.peers[p].WriteTo([]byte("probe-p2c"), k.conn.LocalAddr())
	line, evs := k.take()
	k.vt.Obs("%s", line)
	if compat && !k.dead && !h6Has(evs, fmt.Sprintf("dc%d", p)) {
		k.vt.Alarm("probe-lost", "peer %d->client probe not delivered at t=%d ms (%s)", p, k.now(), line)
	}
}

func (k *h6World) close(compat bool) {
	k.vt.OpSync("kclose")
	err := k.conn.Close()
	line, _ := k.take()
	k.vt.Obs("%s", line)
	// the Refresh(0) is retransmitted like any other request: give it its seven transmissions
	k.adv(10000)
	k.vt.OpSync("kcount")
	n := k.w.srv.AllocationCount()
	k.vt.Obs("count %d", n)
	if n != 0 {
		if k.last0 == "438" {
			k.vt.Alarm("close-ignored-438", "Close at t=%d ms (err=%v): the Refresh(0) was answered 438 Stale Nonce and not retried; AllocationCount=%d", k.now(), err, n)
		} else if compat {
			k.vt.Alarm("close-leaves-allocation", "Close at t=%d ms (err=%v, response %q): AllocationCount=%d", k.now(), err, k.last0, n)
		}
	}
}

func (k *h6World) finish() {
	_ = k.conn.Close()
	k.c.Close()
	for _, p := range k.peers {
		_ = p.Close()
	}
	_ = k.cpc.Close()
	k.w.shutdown()
	time.Sleep(20 * time.Second) // transactions still retransmitting give up
	synctest.Wait()
}

func (k *h6World) open(tag string) bool {
	c := k.cfg
	compat := c.compatible()
	cb := 0
	if compat {
		cb = 1
	}
	e := c.effective()
	k.vt.Op("k6 life=%d permT=%d chanT=%d permP=%d bindAge=%d bindP=%d peers=%d rf=%s cp=%s cb=%s rf0=%s compat=%d tag=%s",
		e.life, e.permT, e.chanT, e.permP, e.bindAge, e.bindP, c.peers, h6Pats(c.rf), h6Pats(c.cp), h6Pats(c.cb), h6Pats(c.rf0), cb, tag)
	k.vt.Obs("ok compat=%d", cb)
	k.vt.Stat(fmt.Sprintf("h6.compat.%d", cb))
	return compat
}

func h6RandPats(vt *vhT, n int, heavy bool) []h6Pat {
	var ps []h6Pat
	for i := 0; i < n; i++ {
		var p h6Pat
		switch r := vt.Rng.Intn(10); {
		case r < 4 && !heavy:
		case r < 7:
			p.a = vt.Rng.Intn(3)
			p.b = vt.Rng.Intn(2)
		case r < 9:
			p.a = vt.Rng.Intn(7)
			p.b = vt.Rng.Intn(7 - p.a)
		default:
			if vt.Rng.Intn(2) == 0 {
				p.a = 6
			} else {
				p.b = 6
			}
		}
		p.dup = vt.Rng.Intn(6) == 0
		ps = append(ps, p)
	}
	return ps
}

func h6RandCfg(vt *vhT) h6Cfg {
	r := vt.Rng
	pick := func(v ...int) int { return v[r.Intn(len(v))] }
	c := h6Cfg{}
	if r.Intn(3) != 0 { // otherwise: every default of the library
		c.life = pick(0, 0, 60000, 100000, 120000, 1800000, 3600000, 5400000, 7200000, 10800000, 47000, 30000, 10000, 12000)
		c.permT = pick(0, 0, 150011, 200011, 1000011, 100011, 130011, 138611)
		c.chanT = pick(0, 0, 360013, 2000013, 348613, 340013, 100013)
		c.permP = pick(0, 0, 40007, 120007)
		c.bindAge = pick(0, 0, 100000)
		c.bindP = pick(0, 0, 10003)
	}
	c.peers = pick(0, 1, 1, 2, 3, 5)
	if vt.Thorough() && r.Intn(8) == 0 {
		c.peers = 10 + r.Intn(41)
	}
	heavy := r.Intn(4) == 0
	if r.Intn(5) != 0 {
		c.rf = h6RandPats(vt, 1+r.Intn(5), heavy)
		c.cp = h6RandPats(vt, 1+r.Intn(5), heavy)
		c.cb = h6RandPats(vt, 1+r.Intn(7), heavy)
		c.rf0 = h6RandPats(vt, 1, heavy)
		c.rf0[0].dup = false
	}
	return c
}

func runH6History(t *testing.T, vt *vhT, cfg h6Cfg, tag string, totalMs int, busy bool, closeAt int) {
	synctest.Test(t, func(t *testing.T) {
		k := newH6World(vt, cfg)
		compat := k.open(tag)
		r := vt.Rng
		elapsed := 0
		closed := false
		didRefused := false
		for (elapsed < totalMs || closeAt > 0) && !closed {
			var d int
			if busy {
				d = []int{101, 1001, 4999, 10001, 29999, 31001}[r.Intn(6)]
			} else {
				d = []int{101, 1001, 29999, 61001, 125003, 301001, 599999, 1200001, 3660001}[r.Intn(9)]
			}
			if closeAt > 0 && elapsed < closeAt && elapsed+d >= closeAt {
				d = closeAt - elapsed
			}
			k.adv(d)
			elapsed += d
			if closeAt > 0 && elapsed >= closeAt {
				k.close(compat)
				closed = true
				break
			}
			if cfg.refused && !didRefused && elapsed >= 60000 {
				// only while the client's nonce is fresh: a stale nonce would be renewed by this extra transaction, which the
				// model's timeline does not know about
				if elapsed < 50*60000 {
					k.wr(0, compat)
					k.wrRefused()
				} else {
					k.vt.Note("refused write skipped: first step went past the nonce horizon (t=%d ms)", elapsed)
				}
				didRefused = true
			}
			if cfg.peers > 0 {
				for n := r.Intn(3); n > 0; n-- {
					p := r.Intn(cfg.peers)
					if r.Intn(2) == 0 {
						k.wr(p, compat)
					} else {
						k.pw(p, compat)
					}
				}
			}
		}
		if !closed {
			// every peer is still reachable in both directions, then Close releases the allocation
			for p := 0; p < cfg.peers && p < 8; p++ {
				k.wr(p, compat)
				k.pw(p, compat)
			}
			k.close(compat)
		}
		vt.StatN("h6.virtual-minutes", elapsed/60000)
		k.finish()
	})
	vt.Flush()
}

func TestVerifH6(t *testing.T) {
	vt := vhOpen("h6")
	defer vt.Close()
	min := 60000
	// directed: library defaults, idle and busy, across every horizon (allocation 10 min, permission 5 min,
	// binding 10 min, nonce 60 min)
	runH6History(t, vt, h6Cfg{peers: 2}, "defaults-idle", 75*min, false, 0)
	runH6History(t, vt, h6Cfg{peers: 1}, "defaults-busy", 65*min, true, 0)
	runH6History(t, vt, h6Cfg{peers: 3, rf: []h6Pat{{6, 0, false}}, cp: []h6Pat{{0, 6, false}}, cb: []h6Pat{{3, 3, true}}}, "defaults-worst-loss", 130*min, false, 0)
	// directed: a configured allocation lifetime above the one-hour maximum a client may ASK for: every Refresh asks for it and
	// must be granted the configured value again (2 h and 3 h, across two refresh periods)
	runH6History(t, vt, h6Cfg{life: 3 * 60 * min, peers: 1}, "life-3h", 5*60*min, false, 0)
	runH6History(t, vt, h6Cfg{life: 2 * 60 * min}, "life-2h", 3*60*min+30*min, false, 0)
	// directed: many peers (the permission refresh no longer fits one datagram of the server's inbound MTU)
	runH6History(t, vt, h6Cfg{peers: 150}, "many-peers", 13*min, false, 0)
	// directed: one write to a peer the server refuses, in the middle of ordinary keep-alive: the other peers stay reachable
	runH6History(t, vt, h6Cfg{peers: 2, refused: true}, "refused-peer", 25*min, false, 0)
	runH6History(t, vt, h6Cfg{peers: 1, refused: true}, "refused-peer-busy", 14*min, true, 0)
	// directed: Close while the client's nonce is stale (no peers: nothing refreshes between 60 and 65 min)
	runH6History(t, vt, h6Cfg{}, "close-stale-nonce", 0, false, 61*min+30000)
	runH6History(t, vt, h6Cfg{}, "close-fresh-nonce", 0, false, 59*min)
	// directed: the first copy of Close's Refresh(0) is lost / its answer is lost: it is retransmitted
	runH6History(t, vt, h6Cfg{peers: 1, rf0: []h6Pat{{1, 0, false}}}, "close-first-copy-lost", 0, false, 7*min)
	runH6History(t, vt, h6Cfg{peers: 1, rf0: []h6Pat{{3, 2, false}}}, "close-lossy", 0, false, 11*min)
	n, maxMin := 24, 130
	if vt.Thorough() {
		n, maxMin = 600, 400
	}
	if v := vhEnvInt("VERIF_HISTORIES", 0); v > 0 {
		n = int(v)
	}
	for h := 0; h < n; h++ {
		cfg := h6RandCfg(vt)
		total := (5 + vt.Rng.Intn(maxMin)) * min
		closeAt := 0
		if vt.Rng.Intn(3) == 0 {
			closeAt = 1 + vt.Rng.Intn(total)
		}
		runH6History(t, vt, cfg, fmt.Sprintf("rand%d", h), total, vt.Rng.Intn(4) == 0, closeAt)
	}
}
