//go:build verif

package turn

// H4 — the real turn.Client's transactions (C12) on a scripted socket under virtual time: every loss /
// delay / duplication / reordering pattern is "a response (or none) at some instant", plus foreign ids,
// write failures on any transmission, concurrent transactions and Close at any point.

import (
	"errors"
	"runtime"
	"fmt"
	"net"
	"sort"
	"strings"
	"sync"
	"sync/atomic"
	"testing"
	"testing/synctest"
	"time"

	"github.com/pion/logging"
	"github.com/pion/stun/v3"
)

type h4World struct {
	vt      *vhT
	n       *simNet
	srv     *simPC
	cpc     *simPC
	c       *Client
	t0      time.Time
	mu      sync.Mutex
	outs    []string
	sends   map[int]int // key -> transmissions seen so far
	failAt  map[int]int
	started map[int]bool
}

func (w *h4World) ms() int64 { return int64(time.Since(w.t0) / time.Millisecond) }

func (w *h4World) add(s string) {
	w.mu.Lock()
	w.outs = append(w.outs, s)
	w.mu.Unlock()
}

func (w *h4World) take() string {
	synctest.Wait()
	w.srv.drain()
	w.mu.Lock()
	defer w.mu.Unlock()
	o := w.outs
	w.outs = nil
	if len(o) == 0 {
		return "-"
	}
	sort.Strings(o)
	return strings.Join(o, " | ")
}

func newH4World(vt *vhT, rto time.Duration) *h4World {
	w := &h4World{vt: vt, n: newSimNet(), t0: time.Now(), sends: map[int]int{}, failAt: map[int]int{}, started: map[int]bool{}}
	w.srv, _ = w.n.listenUDP(net.ParseIP("10.0.0.1").To4(), 3478, true)
	w.cpc, _ = w.n.listenUDP(net.ParseIP("10.0.0.2").To4(), 4000, true)
	w.n.writeHook = func(from, to net.Addr, b []byte) error {
		if from.String() != w.cpc.addr.String() || !stun.IsMessage(b) {
			return nil
		}
		m := &stun.Message{Raw: append([]byte{}, b...)}
		if m.Decode() != nil {
			return nil
		}
		k := tidNum(m.TransactionID)
		w.mu.Lock()
		nth := w.sends[k]
		w.sends[k]++
		fa, hasFail := w.failAt[k]
		w.mu.Unlock()
		if hasFail && fa == nth {
			return errors.New("simnet: injected write error")
		}
		w.add(fmt.Sprintf("sent %d %d", k, w.ms()))
		return nil
	}
	lf := logging.NewDefaultLoggerFactory()
	lf.DefaultLogLevel = logging.LogLevelDisabled
	c, err := NewClient(&ClientConfig{STUNServerAddr: "10.0.0.1:3478", TURNServerAddr: "10.0.0.1:3478", Conn: w.cpc, RTO: rto, LoggerFactory: lf,
		Username: "alice", Password: "pw", Realm: "pion.ly"})
	if err != nil {
		panic(err)
	}
	w.c = c
	if err := c.Listen(); err != nil {
		panic(err)
	}
	return w
}

func (w *h4World) start(k int, failAt int) {
	if failAt >= 0 {
		w.mu.Lock()
		w.failAt[k] = failAt
		w.mu.Unlock()
	}
	w.started[k] = true
	msg, _ := stun.Build(stun.NewTransactionIDSetter(tidOf(k)), stun.BindingRequest)
	go func() {
		res, err := w.c.PerformTransaction(msg, w.srv.addr, false)
		kind := "response"
		switch {
		case err == nil:
			if tidNum(res.Msg.TransactionID) != k {
				w.vt.Alarm("txn-foreign-response", "transaction %d completed with the response of %d", k, tidNum(res.Msg.TransactionID))
			}
		case errors.Is(err, errAllRetransmissionsFailed):
			kind = "allfailed"
		case strings.Contains(err.Error(), "closed"):
			kind = "closed"
		default:
			kind = "writefailed"
		}
		w.add(fmt.Sprintf("done %d %s %d", k, kind, w.ms()))
	}()
}

// startNoWait: a fire-and-forget transaction (ignoreResult, as Close's Refresh(0)): the caller gets only the
// outcome of the first write; retransmissions, the response and the final time-out are handled with nobody waiting
func (w *h4World) startNoWait(k int, failAt int) {
	if failAt >= 0 {
		w.mu.Lock()
		w.failAt[k] = failAt
		w.mu.Unlock()
	}
	w.started[k] = true
	msg, _ := stun.Build(stun.NewTransactionIDSetter(tidOf(k)), stun.BindingRequest)
	if _, err := w.c.PerformTransaction(msg, w.srv.addr, true); err != nil {
		w.add(fmt.Sprintf("done %d writefailed %d", k, w.ms()))
	}
}

func (w *h4World) respond(k int) {
	m, _ := stun.Build(stun.NewTransactionIDSetter(tidOf(k)), stun.BindingSuccess, &stun.XORMappedAddress{IP: net.IPv4(10, 0, 0, 2), Port: 4000})
	_, _ = w.srv.WriteTo(m.Raw, w.cpc.addr)
}

func (w *h4World) op(line string, act func()) {
	w.vt.OpSync("%s", line)
	act()
	w.vt.Obs("%s", w.take())
	w.vt.Stat("op." + strings.Fields(line)[0])
}

func (w *h4World) size() {
	w.vt.Op("tsize")
	w.vt.Obs("%d", w.c.trMap.Size())
}

func (w *h4World) finish() {
	w.c.Close()
	_ = w.cpc.Close()
	_ = w.srv.Close()
	synctest.Wait()
}

func failS(f int) string {
	if f < 0 {
		return "-"
	}
	return fmt.Sprint(f)
}

func TestVerifH4(t *testing.T) {
	vt := vhOpen("h4")
	defer vt.Close()
	rng := vt.Rng
	rtos := []int{1, 100, 200, 800, 1600, 3000}
	// (a) one transaction, a response after transmission i at a delay straddling the next timer
	for _, rto := range rtos {
		iv := []int{rto}
		for len(iv) < 7 {
			x := iv[len(iv)-1] * 2
			if x > 1600 {
				x = 1600
			}
			iv = append(iv, x)
		}
		for i := 0; i < 7; i++ {
			for _, rel := range []int{1, -1, 0} { // 1 ms after send i; 1 ms before the next timer; exactly at it
				if !vt.Thorough() && rto != 200 && rel == 0 && i%2 == 1 {
					continue
				}
				synctest.Test(t, func(t *testing.T) {
					w := newH4World(vt, time.Duration(rto)*time.Millisecond)
					vt.Op("tnew")
					vt.Obs("ok")
					w.op(fmt.Sprintf("tstart 1 %d -", rto), func() { w.start(1, -1) })
					at := 0
					for j := 0; j < i; j++ {
						at += iv[j]
					}
					switch rel {
					case 1:
						at++
					case -1:
						at += iv[i] - 1
					case 0:
						at += iv[i]
					}
					w.op(fmt.Sprintf("tadv %d", at), func() { time.Sleep(time.Duration(at) * time.Millisecond) })
					w.op("tresp 1", func() { w.respond(1) })
					w.op("tresp 1", func() { w.respond(1) }) // duplicate
					w.size()
					w.op("tadv 20000", func() { time.Sleep(20 * time.Second) })
					w.size()
					w.finish()
				})
			}
		}
		// no response at all; write failure on each transmission
		for fail := -1; fail < 7; fail++ {
			synctest.Test(t, func(t *testing.T) {
				w := newH4World(vt, time.Duration(rto)*time.Millisecond)
				vt.Op("tnew")
				vt.Obs("ok")
				w.op(fmt.Sprintf("tstart 1 %d %s", rto, failS(fail)), func() { w.start(1, fail) })
				w.size()
				w.op("tadv 30000", func() { time.Sleep(30 * time.Second) })
				w.op("tresp 1", func() { w.respond(1) }) // late response: must be ignored and must not wedge the read loop
				w.op(fmt.Sprintf("tstart 2 %d -", rto), func() { w.start(2, -1) })
				w.op("tresp 2", func() { w.respond(2) })
				w.size()
				w.finish()
			})
		}
	}
	// (b) random histories: 1-4 concurrent transactions, interleaved / foreign / duplicate responses, Close at any point
	nh := 150
	if vt.Thorough() {
		nh = 4000
	}
	for h := 0; h < nh; h++ {
		rto := rtos[rng.Intn(len(rtos))]
		synctest.Test(t, func(t *testing.T) {
			w := newH4World(vt, time.Duration(rto)*time.Millisecond)
			vt.Op("tnew")
			vt.Obs("ok")
			next := 1
			closed := false
			nops := 10 + rng.Intn(25)
			for i := 0; i < nops && !closed; i++ {
				switch r := rng.Intn(100); {
				case r < 25 && next <= 6:
					fail := -1
					if rng.Intn(5) == 0 {
						fail = rng.Intn(8)
					}
					k := next
					next++
					if rng.Intn(4) == 0 {
						w.op(fmt.Sprintf("tstart %d %d %s nowait", k, rto, failS(fail)), func() { w.startNoWait(k, fail) })
					} else {
						w.op(fmt.Sprintf("tstart %d %d %s", k, rto, failS(fail)), func() { w.start(k, fail) })
					}
				case r < 55:
					k := 1 + rng.Intn(next+1) // pending, finished, or never started ids
					w.op(fmt.Sprintf("tresp %d", k), func() { w.respond(k) })
				case r < 92:
					dts := []int{1, rto - 1, rto, rto + 1, 150, 400, 1599, 1600, 1601, 3200, 9000}
					dt := dts[rng.Intn(len(dts))]
					if dt <= 0 {
						dt = 1
					}
					w.op(fmt.Sprintf("tadv %d", dt), func() { time.Sleep(time.Duration(dt) * time.Millisecond) })
				case r < 97:
					w.size()
				default:
					w.op("tclose", func() { w.c.Close() })
					closed = true
				}
			}
			w.op("tadv 30000", func() { time.Sleep(30 * time.Second) })
			w.size()
			w.finish()
		})
	}
	// directed: fire-and-forget transactions — never answered, answered on the 3rd copy, a failing retransmission
	for _, variant := range []string{"silent", "answered", "rtxfail", "firstfail"} {
		synctest.Test(t, func(t *testing.T) {
			w := newH4World(vt, 200*time.Millisecond)
			vt.Op("tnew")
			vt.Obs("ok")
			switch variant {
			case "silent":
				w.op("tstart 1 200 - nowait", func() { w.startNoWait(1, -1) })
			case "answered":
				w.op("tstart 1 200 - nowait", func() { w.startNoWait(1, -1) })
				w.op("tadv 700", func() { time.Sleep(700 * time.Millisecond) })
				w.op("tresp 1", func() { w.respond(1) })
			case "rtxfail":
				w.op("tstart 1 200 2 nowait", func() { w.startNoWait(1, 2) })
			case "firstfail":
				w.op("tstart 1 200 0 nowait", func() { w.startNoWait(1, 0) })
			}
			w.size()
			w.op("tadv 9000", func() { time.Sleep(9 * time.Second) })
			w.size()
			w.op("tresp 1", func() { w.respond(1) }) // a late / duplicate answer is ignored
			w.size()
			w.finish()
		})
	}
	// real time: something else completes the transaction while a retransmission's socket write is in progress
	for _, mode := range []string{"response", "close", "response", "close", "first-write-slow", "first-write-slow", "first-write-fails", "first-write-fails", "same-id-twice", "stuck-write-then-reuse"} {
		h4WriteRace(vt, mode)
	}
}

// h4WriteRace (C12 exactly-once, C18): a retransmission's WriteTo takes a while and then fails; while it is in
// progress the response arrives / the client is closed.  The transaction must be completed exactly once:
// no goroutine may be left blocked in WriteResult, and nothing may send on a closed result channel
// (that panic kills the process; the orchestrator reports the last flushed operation).
func h4WriteRace(vt *vhT, mode string) {
	vt.OpSync("trace %s", mode)
	n := newSimNet()
	srv, _ := n.listenUDP(net.ParseIP("10.0.0.1").To4(), 3478, true)
	cpc, _ := n.listenUDP(net.ParseIP("10.0.0.2").To4(), 4000, true)
	var c *Client
	var mu sync.Mutex
	var inboundDone atomic.Bool
	sends := 0
	n.writeHook = func(from, to net.Addr, b []byte) error {
		if from.String() != cpc.addr.String() || !stun.IsMessage(b) {
			return nil
		}
		mu.Lock()
		nth := sends
		sends++
		mu.Unlock()
		if mode == "same-id-twice" {
			return nil // every transmission is lost; nothing answers
		}
		if mode == "stuck-write-then-reuse" {
			// the first write of transaction 1 is stuck for 150 ms and then fails; its answer arrives meanwhile (the id is free
			// again) and the caller starts transaction 2 with the same message: the late failure of 1 must leave 2 alone
			if nth == 0 {
				m := &stun.Message{Raw: append([]byte{}, b...)}
				if m.Decode() == nil {
					resp, _ := stun.Build(stun.NewTransactionIDSetter(m.TransactionID), stun.BindingSuccess)
					go func() { _, _ = c.HandleInbound(resp.Raw, srv.addr) }()
				}
				time.Sleep(150 * time.Millisecond)

				return errors.New("simnet: injected write error")
			}

			return nil // transaction 2's transmissions are lost
		}
		if mode == "first-write-fails" {
			// the request got out and is answered (the read loop's goroutine delivers the answer), yet the transport reports an
			// error for that very write: PerformTransaction returns the error - and the read loop must not be left waiting for it
			if nth == 0 {
				m := &stun.Message{Raw: append([]byte{}, b...)}
				if m.Decode() == nil {
					resp, _ := stun.Build(stun.NewTransactionIDSetter(m.TransactionID), stun.BindingSuccess)
					go func() { _, _ = c.HandleInbound(resp.Raw, srv.addr); inboundDone.Store(true) }()
				}
				time.Sleep(80 * time.Millisecond)

				return errors.New("simnet: injected write error")
			}

			return nil
		}
		if mode == "first-write-slow" {
			// the FIRST transmission takes a while to leave the socket and its answer is handled (by the read loop's goroutine)
			// before WriteTo returns; every later transmission is lost: the transaction must complete with that answer
			if nth == 0 {
				m := &stun.Message{Raw: append([]byte{}, b...)}
				if m.Decode() == nil {
					resp, _ := stun.Build(stun.NewTransactionIDSetter(m.TransactionID), stun.BindingSuccess)
					go func() { _, _ = c.HandleInbound(resp.Raw, srv.addr) }()
				}
				time.Sleep(80 * time.Millisecond)
			}
			return nil
		}
		if nth != 1 {
			return nil
		}
		m := &stun.Message{Raw: append([]byte{}, b...)}
		if m.Decode() != nil {
			return nil
		}
		switch mode {
		case "response":
			resp, _ := stun.Build(stun.NewTransactionIDSetter(m.TransactionID), stun.BindingSuccess)
			go func() { _, _ = c.HandleInbound(resp.Raw, srv.addr) }()
		case "close":
			go c.Close()
		}
		time.Sleep(80 * time.Millisecond)
		return errors.New("simnet: injected write error")
	}
	lf := logging.NewDefaultLoggerFactory()
	lf.DefaultLogLevel = logging.LogLevelDisabled
	var err error
	c, err = NewClient(&ClientConfig{STUNServerAddr: "10.0.0.1:3478", TURNServerAddr: "10.0.0.1:3478", Conn: cpc, RTO: 20 * time.Millisecond, LoggerFactory: lf,
		Username: "alice", Password: "pw", Realm: "pion.ly"})
	if err != nil {
		panic(err)
	}
	msg, _ := stun.Build(stun.NewTransactionIDSetter(tidOf(7)), stun.BindingRequest)
	if mode == "stuck-write-then-reuse" {
		first := make(chan error, 1)
		go func() { _, err := c.PerformTransaction(msg, srv.addr, false); first <- err }()
		time.Sleep(60 * time.Millisecond)
		second := make(chan error, 1)
		go func() { _, err := c.PerformTransaction(msg, srv.addr, false); second <- err }()
		for name, ch := range map[string]chan error{"first": first, "second": second} {
			select {
			case <-ch:
			case <-time.After(4 * time.Second):
				vt.Alarm("txn-completion-race", "mode=%s: the %s transaction never returned (the first one's write failed late, after its answer had freed the id for the second)", mode, name)
			}
		}
		if sz := c.trMap.Size(); sz != 0 {
			vt.Alarm("txn-completion-race", "mode=%s: %d entries left in the transaction table", mode, sz)
		}
		vt.Obs("ok")
		c.Close()
		_ = cpc.Close()
		_ = srv.Close()

		return
	}
	if mode == "same-id-twice" {
		// two overlapping transactions with one id (a caller that reuses its message): whatever happens to the second, the first
		// still ends - by its timetable (7 transmissions, RTO 20 ms: about 0.8 s) - and the table is empty afterwards
		first := make(chan error, 1)
		go func() { _, err := c.PerformTransaction(msg, srv.addr, false); first <- err }()
		time.Sleep(5 * time.Millisecond)
		second := make(chan error, 1)
		go func() { _, err := c.PerformTransaction(msg, srv.addr, false); second <- err }()
		for name, ch := range map[string]chan error{"first": first, "second": second} {
			select {
			case <-ch:
			case <-time.After(4 * time.Second):
				vt.Alarm("txn-completion-race", "mode=%s: the %s of two overlapping transactions with the same id never returned", mode, name)
			}
		}
		if sz := c.trMap.Size(); sz != 0 {
			vt.Alarm("txn-completion-race", "mode=%s: %d entries left in the transaction table", mode, sz)
		}
		vt.Obs("ok")
		c.Close()
		_ = cpc.Close()
		_ = srv.Close()

		return
	}
	done := make(chan string, 1)
	go func() {
		_, err := c.PerformTransaction(msg, srv.addr, false)
		if err == nil {
			done <- "response"
		} else {
			done <- "error"
		}
	}()
	res := "hung"
	select {
	case res = <-done:
	case <-time.After(3 * time.Second):
		vt.Alarm("txn-completion-race", "mode=%s: PerformTransaction did not return", mode)
	}
	if mode == "first-write-slow" {
		mu.Lock()
		ns := sends
		mu.Unlock()
		if res != "response" || ns != 1 {
			vt.Alarm("txn-completion-race", "mode=%s: the answer to the first transmission arrived while it was being written: result=%s after %d transmissions (want response after 1)", mode, res, ns)
		}
	}
	time.Sleep(250 * time.Millisecond)
	if mode == "first-write-fails" && !inboundDone.Load() {
		vt.Alarm("txn-completion-race", "mode=%s result=%s: HandleInbound, delivering the answer to a request whose write then failed, has not returned: the read loop is stuck", mode, res)
	}
	buf := make([]byte, 1<<20)
	stacks := string(buf[:runtime.Stack(buf, true)])
	if strings.Contains(stacks, "Transaction).WriteResult") {
		vt.Alarm("txn-completion-race", "mode=%s result=%s: a goroutine is blocked in Transaction.WriteResult - the transaction was completed twice", mode, res)
	}
	if sz := c.trMap.Size(); sz != 0 {
		vt.Alarm("txn-completion-race", "mode=%s: %d entries left in the transaction table", mode, sz)
	}
	vt.Stat("h4.race." + mode + "." + res)
	vt.Obs("ok")
	c.Close()
	_ = cpc.Close()
	_ = srv.Close()
}
