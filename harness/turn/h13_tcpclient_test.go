//go:build verif

package turn

// H13 (C14): the keep-alive duties of the client that the UDP timeline harness H6 does not reach - permissions the APPLICATION
// asked for (Client.CreatePermission, the only way to admit peers to a TCP allocation that accepts), the refresh interval of a
// TCP allocation, stale-nonce recovery of Connect, and a second Close.  Scripted TURN server (h5DelayWorld), virtual time.

import (
	"fmt"
	"net"
	"strings"
	"testing"
	"testing/synctest"
	"time"
)

func h13Has(lines []string, what, peer string) bool {
	for _, l := range lines {
		if strings.Contains(l, " "+what) && (peer == "" || strings.Contains(l, peer)) {
			return true
		}
	}

	return false
}

func TestVerifH13(t *testing.T) {
	vt := vhOpen("h13")
	defer vt.Close()
	vt.Watchdog(60 * time.Second)
	peer := &net.UDPAddr{IP: net.IPv4(10, 0, 0, 9), Port: 9000}
	tpeer := &net.TCPAddr{IP: net.IPv4(10, 0, 0, 9), Port: 9000}
	ps := canonIPPort(peer.IP, peer.Port)

	// 1. a permission the application asked for is refreshed like any other, for both kinds of allocation
	for _, kind := range []string{"udp", "tcp"} {
		for _, interval := range []time.Duration{0, 30 * time.Second} {
			synctest.Test(t, func(t *testing.T) {
				vt.OpSync("trace app-permission-%s-interval-%d", kind, int(interval/time.Second))
				defer func() { vt.Obs("ok"); vt.Flush() }()
				w, err := newH5DelayWorld(interval)
				if err != nil {
					vt.Alarm("h13-setup", "world: %v", err)

					return
				}
				defer w.shutdown()
				var closer interface{ Close() error }
				if kind == "udp" {
					c, aerr := w.c.Allocate()
					closer, err = c, aerr
				} else {
					a, aerr := w.c.AllocateTCP()
					closer, err = a, aerr
				}
				if err != nil {
					vt.Alarm("h13-setup", "allocate %s: %v", kind, err)

					return
				}
				defer closer.Close() //nolint:errcheck
				var addr net.Addr = peer
				if kind == "tcp" {
					addr = tpeer
				}
				if err = w.c.CreatePermission(addr); err != nil {
					vt.Alarm("h13-setup", "CreatePermission: %v", err)

					return
				}
				synctest.Wait()
				first := w.take()
				if !h13Has(first, "cp", ps) {
					vt.Alarm("h13-setup", "no CreatePermission on the wire: %v", first)

					return
				}
				period := interval
				if period == 0 {
					period = 2 * time.Minute // the documented default
				}
				time.Sleep(period + period/4)
				synctest.Wait()
				later := w.take()
				if !h13Has(later, "cp", ps) {
					sig := "application-permission-not-refreshed"
					if interval != 0 && kind == "tcp" {
						// tell the two causes apart: does the allocation refresh at its default pace instead?
						time.Sleep(2 * time.Minute)
						synctest.Wait()
						if h13Has(w.take(), "cp", ps) {
							sig = "tcp-permission-interval-ignored"
						}
					}
					vt.Alarm(sig, "%s allocation, PermissionRefreshInterval=%v: the permission installed by Client.CreatePermission(%s) was not refreshed within %v: %v",
						kind, interval, ps, period+period/4, later)
				}
			})
		}
	}

	// 2. the second Close of a TCP allocation is for nobody: the client may hold a newer allocation by then
	synctest.Test(t, func(t *testing.T) {
		vt.OpSync("trace tcp-double-close")
		defer func() { vt.Obs("ok"); vt.Flush() }()
		w, err := newH5DelayWorld(0)
		if err != nil {
			vt.Alarm("h13-setup", "world: %v", err)

			return
		}
		defer w.shutdown()
		a1, err := w.c.AllocateTCP()
		if err != nil {
			vt.Alarm("h13-setup", "AllocateTCP: %v", err)

			return
		}
		_ = a1.Close()
		synctest.Wait()
		a2, err := w.c.AllocateTCP()
		if err != nil {
			vt.Alarm("h13-setup", "second AllocateTCP: %v", err)

			return
		}
		synctest.Wait()
		w.take()
		_ = a1.Close() // e.g. the deferred Close of the code that made a1
		synctest.Wait()
		wire := w.take()
		if h13Has(wire, "rf 0", "") {
			vt.Alarm("double-close-deallocates-again", "the second Close of an old TCP allocation sent Refresh(0) on the 5-tuple that now carries a newer allocation: %v", wire)
		}
		if w.c.getTCPAllocation() == nil {
			vt.Alarm("double-close-deallocates-again", "the second Close of an old TCP allocation unregistered the client's current TCP allocation")
		}
		_ = a2.Close()
	})

	// 3. Connect answered 438 is repeated with the new nonce, as every other request is
	synctest.Test(t, func(t *testing.T) {
		vt.OpSync("trace connect-stale-nonce")
		defer func() { vt.Obs("ok"); vt.Flush() }()
		w, err := newH5DelayWorld(0)
		if err != nil {
			vt.Alarm("h13-setup", "world: %v", err)

			return
		}
		defer w.shutdown()
		a, err := w.c.AllocateTCP()
		if err != nil {
			vt.Alarm("h13-setup", "AllocateTCP: %v", err)

			return
		}
		defer a.Close() //nolint:errcheck
		w.mu.Lock()
		w.rxConnect = []h5Rx{{438, 0}, {0, 0}}
		w.mu.Unlock()
		w.take()
		cid, cerr := a.Connect(tpeer)
		synctest.Wait()
		wire := w.take()
		n := 0
		for _, l := range wire {
			if strings.HasSuffix(l, " connect") {
				n++
			}
		}
		if cerr != nil || n != 2 {
			vt.Alarm("connect-stale-nonce-not-retried", "Connect answered 438 (stale nonce) once, then success: Connect returned cid=%d err=%v after %d request(s): %v",
				cid, cerr, n, wire)
		}
		// and the nonce of the 438 is kept for what follows
		w.mu.Lock()
		w.rxConnect = []h5Rx{{0, 0}}
		w.mu.Unlock()
		if _, err2 := a.Connect(&net.TCPAddr{IP: net.IPv4(10, 0, 0, 9), Port: 9001}); err2 != nil {
			vt.Alarm("connect-stale-nonce-not-retried", "the Connect after the recovered one failed: %v", err2)
		}
		_ = fmt.Sprint()
	})
}
