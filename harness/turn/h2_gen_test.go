//go:build verif

package turn

// H2 generator: random multi-client histories against the real server under virtual time.
// One transcript line per operation; the Lean server model (M4) replays the `>` lines.

import (
	"fmt"
	"math/rand"
	"net"
	"os"
	"sort"
	"strings"
	"testing"
	"testing/synctest"
	"time"

	"github.com/pion/stun/v3"
	"github.com/pion/turn/v5/internal/allocation"
	"github.com/pion/turn/v5/internal/ipnet"
	"github.com/pion/turn/v5/internal/proto"
)

type h2Cred struct {
	mi, nonce, nonceOK, realm, uname, known, macOK bool
	user                                           string
	nonceVal                                       string
	pass                                           string
}

func (c h2Cred) String() string {
	b := func(x bool) byte {
		if x {
			return '1'
		}
		return '0'
	}
	u := c.user
	if u == "" {
		u = "_"
	}
	return string([]byte{b(c.mi), b(c.nonce), b(c.nonceOK), b(c.realm), b(c.uname), b(c.known), b(c.macOK)}) + ":" + u
}

type h2Hist struct {
	w        *h2World
	vt       *vhT
	rng      *rand.Rand
	t0       time.Time
	tid      int
	keys     []h2Key
	oldNonce string
	oldAt    time.Time
	peers    []*net.UDPAddr
	cpool    []*net.UDPAddr
	lastTid  map[string]int    // key -> tid of its last successful Allocate (for retransmissions)
	owner    map[string]string // key -> user of its allocation
	relays   map[string]int    // canonical relay addr -> lid
	relayTCP map[string]bool
	nextPort int
	nextEven int
	dataPort int
	kinds    map[string]bool
	closed   bool
	active   [][2]int
	cidUser  map[int]string
	boundCid map[int]bool
	tcpMode  bool
	cidLid   map[int]int
	closedProbe bool
	lastAnswered bool
}

func (h *h2Hist) pick(xs ...int) int { return xs[h.rng.Intn(len(xs))] }

// mkCred draws credentials: mostly valid, otherwise one (sometimes two) of the defects of C03
func (h *h2Hist) mkCred(prefUser string) h2Cred {
	user := prefUser
	if user == "" || h.rng.Intn(12) == 0 {
		user = []string{"alice", "bob"}[h.rng.Intn(2)]
	}
	nonce, _ := h.w.srv.nonceHash.Generate()
	c := h2Cred{mi: true, nonce: true, nonceOK: true, realm: true, uname: true, known: true, macOK: true, user: user, nonceVal: nonce, pass: h2Users[user]}
	defects := 0
	if h.rng.Intn(100) < 9 {
		defects = 1 + h.rng.Intn(2)
	}
	for i := 0; i < defects; i++ {
		switch h.rng.Intn(9) {
		case 0:
			c.mi = false
		case 1:
			c.nonce = false
			c.nonceOK = false
		case 2: // a nonce this server never minted: every length class of both nonce formats, hostile alphabets
			junk := []string{"0123456789abcdef", "", "0", strings.Repeat("Z", 25), strings.Repeat("z", 24), strings.Repeat("z", 26),
				strings.Repeat("ab", 40), strings.Repeat("f", 39), strings.Repeat("f", 40), strings.Repeat("f", 41), strings.Repeat("9", 200),
				"!!!!", "zz zz", "\u00e9\u00e9\u00e9", strings.Repeat("0", 64), "-1", "+" + strings.Repeat("Z", 30)}
			c.nonceVal = junk[h.rng.Intn(len(junk))]
			c.nonceOK = false
		case 3: // aged nonce: valid iff stamped at most 60 whole minutes ago
			c.nonceVal = h.oldNonce
			age := time.Now().Unix()/60 - h.oldAt.Unix()/60
			c.nonceOK = age >= 0 && age <= 60
		case 4:
			c.realm = false
		case 5:
			c.uname = false
		case 6:
			c.user = "mallory"
			c.known = false
			c.pass = "x"
		case 7:
			c.pass = "wrong"
			c.macOK = false
		case 8: // flip one bit of the nonce
			if b := []byte(c.nonceVal); len(b) > 0 {
				b[h.rng.Intn(len(b))] ^= 1
				c.nonceVal = string(b)
			}
			c.nonceOK = false
		}
	}
	if !c.known {
		c.macOK = false
	}
	// what the nonce manager will say is decided by the final nonce string (two flips can cancel)
	switch {
	case !c.nonce:
		c.nonceOK = false
	case c.nonceVal == nonce:
		c.nonceOK = true
	case c.nonceVal == h.oldNonce:
		age := time.Now().Unix()/60 - h.oldAt.Unix()/60
		c.nonceOK = age >= 0 && age <= 60
	default:
		c.nonceOK = false
	}
	if c.nonce && !c.nonceOK || c.nonceVal == h.oldNonce {
		h.vt.Note("nonce %q ok=%v minted=%d now=%d", c.nonceVal, c.nonceOK, h.oldAt.Unix(), time.Now().Unix())
	}
	if !c.uname || !c.realm {
		// the handler is never consulted; flags below are irrelevant but kept canonical
		c.known = c.known && c.uname
	}
	return c
}

func (h *h2Hist) build(typ stun.MessageType, tid int, c *h2Cred, attrs ...stun.Setter) []byte {
	s := []stun.Setter{stun.NewTransactionIDSetter(tidOf(tid)), typ}
	s = append(s, attrs...)
	if c != nil {
		if c.uname {
			s = append(s, stun.NewUsername(c.user))
		}
		if c.realm {
			s = append(s, stun.NewRealm(h.w.realm))
		}
		if c.nonce {
			s = append(s, stun.NewNonce(c.nonceVal))
		}
		if c.mi {
			s = append(s, stun.MessageIntegrity(GenerateAuthKey(c.user, h.w.realm, c.pass)))
		}
	}
	m, err := stun.Build(s...)
	if err != nil {
		panic(err)
	}
	return m.Raw
}

type rawAttr struct {
	t stun.AttrType
	v []byte
}

func (r rawAttr) AddTo(m *stun.Message) error { m.Add(r.t, r.v); return nil }

// mappedPeerAttr puts an IPv4 peer on the wire as family 0x02 carrying ::ffff:a.b.c.d (pion/stun's own
// encoder never emits that form: it turns every 16-byte IPv4 address back into family 0x01).  The server
// must treat it as the same peer as the plain IPv4 encoding everywhere.
type mappedPeerAttr struct {
	ip4  net.IP
	port int
}

func (a mappedPeerAttr) AddTo(m *stun.Message) error {
	v := make([]byte, 4+16)
	v[1] = 0x02
	v[2], v[3] = byte(a.port>>8)^0x21, byte(a.port)^0x12
	x := append([]byte{0x21, 0x12, 0xA4, 0x42}, m.TransactionID[:]...)
	ip := a.ip4.To16()
	for i := 0; i < 16; i++ {
		v[4+i] = ip[i] ^ x[i]
	}
	m.Add(stun.AttrXORPeerAddress, v)
	return nil
}

func attrStr(present, bad bool, val string) string {
	if !present {
		return "-"
	}
	if bad {
		return "!"
	}
	return val
}

// do executes one operation: transcript line, action, observation, state listing
func (h *h2Hist) do(line string, act func()) {
	h.vt.OpSync("%s", line)
	act()
	outs := h.w.collect()
	h.lastAnswered = false
	for _, o := range outs {
		if strings.HasPrefix(o, "resp ") {
			h.lastAnswered = true
		}
	}
	if len(outs) == 0 {
		h.vt.Obs("-")
	} else {
		h.vt.Obs("%s", strings.Join(outs, " | "))
	}
	kind := strings.Fields(line)[0]
	if kind == "m" {
		kind = strings.Fields(line)[4]
	}
	for _, o := range outs {
		f := strings.Fields(o)
		tag := kind + ">" + f[0]
		if f[0] == "resp" && len(f) > 5 {
			tag += "." + f[4] + f[5]
		}
		if !h.kinds[tag] {
			h.kinds[tag] = true
			h.vt.Stat("branch." + tag)
		}
	}
	if len(outs) == 0 {
		h.vt.Stat("silent." + kind)
	}
	h.vt.Stat("op." + kind)
	// C15 monitor: the sockets opened while searching for an even port belong to no allocation and must be closed again
	for _, pc := range h.w.probes {
		select {
		case <-pc.closed:
		default:
			h.vt.Alarm("even-port-probe-left-open", "probe socket %s still open after %s", pc.addr, line[:min(len(line), 80)])
		}
	}
	h.w.probes = nil
	h.w.oddProbes = 0
	h.vt.Op("state")
	h.vt.Obs("%s", h.w.stateLine(h.keys))
}

func (h *h2Hist) addKey(lid int, a net.Addr) {
	for _, k := range h.keys {
		if k.lid == lid && canonAddr(k.addr) == canonAddr(a) {
			return
		}
	}
	h.keys = append(h.keys, h2Key{lid, a})
}

func (h *h2Hist) pickClient() *h2Client {
	// a history works with a small set of 5-tuples (plus the occasional stranger) so that state builds up
	if len(h.active) == 0 {
		n := 1 + h.rng.Intn(3)
		for i := 0; i < n; i++ {
			lid := 0
			if len(h.w.lis) > 1 && (h.rng.Intn(3) == 0 || (h.tcpMode && h.rng.Intn(4) != 0)) {
				lid = 1
			}
			h.active = append(h.active, [2]int{lid, h.rng.Intn(len(h.cpool))})
		}
	}
	pick := h.active[h.rng.Intn(len(h.active))]
	lid, ai := pick[0], pick[1]
	if h.rng.Intn(25) == 0 {
		lid, ai = h.rng.Intn(len(h.w.lis)), h.rng.Intn(len(h.cpool))
	}
	a := h.cpool[ai]
	c := h.w.client(lid, a.IP, a.Port)
	if c != nil {
		h.addKey(lid, c.srcAddr())
	}
	return c
}

// live returns the real allocation of a client (in-package access), used only to bias the generator
func (h *h2Hist) live(c *h2Client) *allocation.Allocation {
	return h.w.manager(c.lid).GetAllocation(&allocation.FiveTuple{SrcAddr: c.srcAddr(), DstAddr: h.w.lisAddr(c.lid), Protocol: allocation.UDP})
}

// goodPeer prefers a peer the client already holds a permission / binding for
func (h *h2Hist) goodPeer(c *h2Client, bound bool) *net.UDPAddr {
	if a := h.live(c); a != nil && h.rng.Intn(10) < 7 {
		if bound {
			if cbs := a.ListChannelBindings(); len(cbs) > 0 {
				u, _ := cbs[h.rng.Intn(len(cbs))].Peer.(*net.UDPAddr)
				for _, p := range h.peers {
					if p.IP.Equal(u.IP) && p.Port == u.Port {
						return p
					}
				}
			}
		}
		if ps := a.ListPermissions(); len(ps) > 0 {
			sort.Slice(ps, func(i, j int) bool { return ps[i].Addr.String() < ps[j].Addr.String() }) // map order is random
			u, _ := ps[h.rng.Intn(len(ps))].Addr.(*net.UDPAddr)
			var cands []*net.UDPAddr
			for _, p := range h.peers {
				if p.IP.Equal(u.IP) {
					cands = append(cands, p)
				}
			}
			if len(cands) > 0 {
				return cands[h.rng.Intn(len(cands))]
			}
		}
	}
	return h.peers[h.rng.Intn(len(h.peers))]
}

func (h *h2Hist) peerAttr(c *h2Client) (present, bad bool, addr *net.UDPAddr, s stun.Setter) {
	r := h.rng.Intn(40)
	switch {
	case r == 0:
		return false, false, nil, nil
	case r == 1:
		return true, true, nil, rawAttr{stun.AttrXORPeerAddress, []byte{0, 1, 2}}
	}
	p := h.goodPeer(c, false)
	ip := p.IP
	if v4 := ip.To4(); v4 != nil && h.rng.Intn(3) == 0 {
		return true, false, p, mappedPeerAttr{v4, p.Port} // IPv4-mapped form on the wire must behave identically
	}
	return true, false, p, proto.PeerAddress{IP: ip, Port: p.Port}
}

func (h *h2Hist) opAllocate(c *h2Client, retransmit bool) {
	k := c.key()
	cr := h.mkCred(h.owner[k])
	h.tid++
	tid := h.tid
	if retransmit && h.lastTid[k] != 0 {
		tid = h.lastTid[k]
	}
	var attrs []stun.Setter
	// LIFETIME
	ltS := "-"
	switch h.rng.Intn(16) {
	case 0, 1, 2, 3, 4, 5, 6, 7, 8:
	case 9:
		attrs = append(attrs, rawAttr{stun.AttrLifetime, []byte{0, 0, 1}})
		ltS = "!"
	default:
		v := []uint32{0, 1, 2, 30, 599, 600, 601, 3599, 3600, 3601, 86400, 4294967295}[h.rng.Intn(12)]
		attrs = append(attrs, proto.Lifetime{Duration: time.Duration(v) * time.Second})
		ltS = fmt.Sprint(v)
	}
	// REQUESTED-TRANSPORT
	trS := "17"
	switch h.rng.Intn(60) {
	case 0:
		trS = "-"
	case 1:
		attrs = append(attrs, rawAttr{stun.AttrRequestedTransport, []byte{17}})
		trS = "!"
	case 2:
		attrs = append(attrs, proto.RequestedTransport{Protocol: 99})
		trS = "99"
	case 3, 4, 5, 6, 7, 8, 9, 10:
		attrs = append(attrs, proto.RequestedTransport{Protocol: proto.ProtoTCP})
		trS = "6"
	default:
		if h.tcpMode && h.rng.Intn(5) != 0 {
			attrs = append(attrs, proto.RequestedTransport{Protocol: proto.ProtoTCP})
			trS = "6"
		} else {
			attrs = append(attrs, proto.RequestedTransport{Protocol: proto.ProtoUDP})
		}
	}
	df := h.rng.Intn(80) == 0
	if df {
		attrs = append(attrs, proto.DontFragment{})
	}
	// RESERVATION-TOKEN
	tokS := "-"
	switch r := h.rng.Intn(60); {
	case r == 0:
		attrs = append(attrs, rawAttr{stun.AttrReservationToken, []byte("short")})
		tokS = "!"
	case r == 1:
		attrs = append(attrs, proto.ReservationToken("UNKNOWN8"))
		tokS = "Kunknown"
	case r < 6 && len(h.w.tokReal) > 0:
		t := h.w.tokReal[h.rng.Intn(len(h.w.tokReal))]
		attrs = append(attrs, proto.ReservationToken(t))
		tokS = h.w.canonTok(t)
	}
	// EVEN-PORT
	evenS := "-"
	switch r := h.rng.Intn(30); {
	case r == 0:
		attrs = append(attrs, rawAttr{stun.AttrEvenPort, []byte{0x80, 0}})
		evenS = "!"
	case r < 4:
		rp := h.rng.Intn(2) == 0
		attrs = append(attrs, proto.EvenPort{ReservePort: rp})
		evenS = map[bool]string{true: "1", false: "0"}[rp]
	}
	// REQUESTED-ADDRESS-FAMILY
	famS := "-"
	switch r := h.rng.Intn(30); {
	case r == 0:
		attrs = append(attrs, rawAttr{stun.AttrRequestedAddressFamily, []byte{1, 0}})
		famS = "!"
	case r == 1:
		attrs = append(attrs, rawAttr{stun.AttrRequestedAddressFamily, []byte{3, 0, 0, 0}})
		famS = "3"
	case r < 5:
		attrs = append(attrs, proto.RequestedFamilyIPv4)
		famS = "1"
	case r < 8:
		attrs = append(attrs, proto.RequestedFamilyIPv6)
		famS = "2"
	}
	// environment
	h.nextPort++
	port := h.nextPort
	h.w.n.portPlan = []int{port}
	h.w.genFail = h.rng.Intn(60) == 0
	rportS := fmt.Sprint(port)
	if h.w.genFail {
		rportS = "-"
	}
	h.w.quotaAns = h.rng.Intn(40) != 0
	h.nextEven += 2
	h.w.evenPort = h.nextEven
	h.w.oddProbes = h.rng.Intn(3)
	evS := fmt.Sprint(h.nextEven)
	if h.rng.Intn(20) == 0 {
		h.w.evenPort = 0
		evS = "-"
	}
	raw := h.build(stun.NewType(stun.MethodAllocate, stun.ClassRequest), tid, &cr, attrs...)
	line := fmt.Sprintf("m %s %d alloc %d %s lt=%s tr=%s df=%s tok=%s even=%s fam=%s rport=%s quota=%s evenport=%s newtok=K%d",
		k, len(raw), tid, cr, ltS, trS, map[bool]string{true: "1", false: "0"}[df], tokS, evenS, famS, rportS,
		map[bool]string{true: "1", false: "0"}[h.w.quotaAns], evS, len(h.w.tokReal))
	h.do(line, func() { c.sendRaw(raw) })
	h.w.n.portPlan = nil
	// bookkeeping from the real state (never from the response): who owns what now
	if a := h.w.manager(c.lid).GetAllocation(&allocation.FiveTuple{SrcAddr: c.srcAddr(), DstAddr: h.w.lisAddr(c.lid), Protocol: allocation.UDP}); a != nil {
		if _, ok := h.owner[k]; !ok && cr.mi && cr.macOK && cr.nonceOK {
			h.owner[k] = cr.user
			h.lastTid[k] = tid
			h.relays[canonAddr(a.RelayAddr)] = c.lid
			h.relayTCP[canonAddr(a.RelayAddr)] = trS == "6"
		}
	} else {
		delete(h.owner, k)
	}
}


func (h *h2Hist) opRefresh(c *h2Client) {
	k := c.key()
	cr := h.mkCred(h.owner[k])
	h.tid++
	var attrs []stun.Setter
	ltS := "-"
	switch h.rng.Intn(10) {
	case 0, 1, 2:
	case 3:
		attrs = append(attrs, rawAttr{stun.AttrLifetime, []byte{0, 0, 0, 0, 1}})
		ltS = "!"
	case 4:
		attrs = append(attrs, proto.Lifetime{})
		ltS = "0"
	default:
		v := []uint32{1, 2, 30, 599, 600, 601, 3599, 3600, 3601, 4294967295}[h.rng.Intn(10)]
		attrs = append(attrs, proto.Lifetime{Duration: time.Duration(v) * time.Second})
		ltS = fmt.Sprint(v)
	}
	famS := "-"
	switch r := h.rng.Intn(30); {
	case r == 0:
		attrs = append(attrs, rawAttr{stun.AttrRequestedAddressFamily, []byte{1}})
		famS = "!"
	case r == 1:
		attrs = append(attrs, rawAttr{stun.AttrRequestedAddressFamily, []byte{7, 0, 0, 0}})
		famS = "7"
	case r < 4:
		attrs = append(attrs, proto.RequestedFamilyIPv4)
		famS = "1"
	case r < 6:
		attrs = append(attrs, proto.RequestedFamilyIPv6)
		famS = "2"
	}
	raw := h.build(stun.NewType(stun.MethodRefresh, stun.ClassRequest), h.tid, &cr, attrs...)
	h.do(fmt.Sprintf("m %s %d refresh %d %s lt=%s fam=%s", k, len(raw), h.tid, cr, ltS, famS), func() { c.sendRaw(raw) })
	if h.w.manager(c.lid).GetAllocation(&allocation.FiveTuple{SrcAddr: c.srcAddr(), DstAddr: h.w.lisAddr(c.lid), Protocol: allocation.UDP}) == nil {
		delete(h.owner, k)
	}
}

func (h *h2Hist) opPerm(c *h2Client) {
	k := c.key()
	cr := h.mkCred(h.owner[k])
	h.tid++
	var attrs []stun.Setter
	var ps []string
	n := h.pick(0, 1, 1, 1, 1, 2, 2, 3)
	for i := 0; i < n; i++ {
		present, bad, addr, s := h.peerAttr(c)
		if !present {
			continue
		}
		attrs = append(attrs, s)
		if bad {
			ps = append(ps, "!")
		} else {
			ps = append(ps, canonAddr(addr))
		}
	}
	raw := h.build(stun.NewType(stun.MethodCreatePermission, stun.ClassRequest), h.tid, &cr, attrs...)
	h.do(strings.TrimSpace(fmt.Sprintf("m %s %d perm %d %s %s", k, len(raw), h.tid, cr, strings.Join(ps, " "))), func() { c.sendRaw(raw) })
}

func (h *h2Hist) opBind(c *h2Client) {
	k := c.key()
	cr := h.mkCred(h.owner[k])
	h.tid++
	var attrs []stun.Setter
	numS := "-"
	switch r := h.rng.Intn(40); {
	case r == 0:
	case r == 1:
		attrs = append(attrs, rawAttr{stun.AttrChannelNumber, []byte{0x40, 0}})
		numS = "!"
	case r < 5:
		v := []uint16{0, 1, 0x3FFF, 0x8000, 0xFFFF}[h.rng.Intn(5)]
		attrs = append(attrs, proto.ChannelNumber(v))
		numS = fmt.Sprint(v)
	default:
		v := []uint16{0x4000, 0x4001, 0x4002, 0x7FFF}[h.rng.Intn(4)]
		attrs = append(attrs, proto.ChannelNumber(v))
		numS = fmt.Sprint(v)
	}
	present, bad, addr, s := h.peerAttr(c)
	peerS := "-"
	if present {
		attrs = append(attrs, s)
		peerS = "!"
		if !bad {
			peerS = canonAddr(addr)
		}
	}
	raw := h.build(stun.NewType(stun.MethodChannelBind, stun.ClassRequest), h.tid, &cr, attrs...)
	h.do(fmt.Sprintf("m %s %d bind %d %s num=%s peer=%s", k, len(raw), h.tid, cr, numS, peerS), func() { c.sendRaw(raw) })
}

func (h *h2Hist) payload() []byte {
	var l int
	switch h.rng.Intn(12) {
	case 0:
		l = 0
	case 1:
		l = h.pick(1595, 1596, 1597, 1598, 1599, 1600, 1601, 1602, 1603, 1604, 1605)
	case 2:
		l = h.w.srv.inboundMTU - 40 + h.rng.Intn(50)
		if l < 0 {
			l = 0
		}
	default:
		l = h.rng.Intn(9)
	}
	b := h.vt.Bytes(l)
	if l >= 8 && h.rng.Intn(3) == 0 { // payloads that look like STUN / ChannelData headers
		copy(b[4:], []byte{0x21, 0x12, 0xA4, 0x42})
		if h.rng.Intn(2) == 0 {
			b[0], b[1] = 0x40, 0x00
		} else {
			b[0], b[1] = 0x00, 0x01
		}
	}
	return b
}

func (h *h2Hist) opSend(c *h2Client) {
	k := c.key()
	h.tid++
	var attrs []stun.Setter
	dS := "-"
	if h.rng.Intn(30) != 0 {
		d := h.payload()
		attrs = append(attrs, proto.Data(d))
		dS = vhHex(d)
	}
	present, bad, addr, s := h.peerAttr(c)
	peerS := "-"
	if present {
		attrs = append(attrs, s)
		peerS = "!"
		if !bad {
			peerS = canonAddr(addr)
		}
	}
	raw := h.build(stun.NewType(stun.MethodSend, stun.ClassIndication), h.tid, nil, attrs...)
	h.do(fmt.Sprintf("m %s %d send %s %s", k, len(raw), dS, peerS), func() { c.sendRaw(raw) })
}

func (h *h2Hist) opChanData(c *h2Client) {
	k := c.key()
	num := []uint16{0x4000, 0x4001, 0x4002, 0x7FFF, 0x4003}[h.rng.Intn(5)]
	if a := h.live(c); a != nil && h.rng.Intn(10) < 8 {
		if cbs := a.ListChannelBindings(); len(cbs) > 0 {
			num = uint16(cbs[h.rng.Intn(len(cbs))].Number)
		}
	}
	cd := proto.ChannelData{Number: proto.ChannelNumber(num), Data: h.payload()}
	cd.Encode()
	raw := cd.Raw
	if c.conn == nil && h.rng.Intn(4) == 0 { // over UDP the padding may be omitted
		raw = raw[:4+len(cd.Data)]
	}
	h.do(fmt.Sprintf("m %s %d cdata %s", k, len(raw), vhHex(raw)), func() { c.sendRaw(raw) })
}

func (h *h2Hist) opBinding(c *h2Client) {
	k := c.key()
	h.tid++
	raw := h.build(stun.BindingRequest, h.tid, nil)
	h.do(fmt.Sprintf("m %s %d binding %d", k, len(raw), h.tid), func() { c.sendRaw(raw) })
	if h.closed && h.lastAnswered {
		h.vt.Alarm("server-close-leaves-control-connections", "a Binding request on stream control connection %s was answered after Server.Close", k)
	}
}

func (h *h2Hist) opUnknown(c *h2Client) {
	k := c.key()
	h.tid++
	meths := []stun.Method{stun.MethodAllocate, stun.MethodRefresh, stun.MethodCreatePermission, stun.MethodChannelBind, stun.MethodBinding, stun.MethodConnect, stun.MethodConnectionBind}
	m := meths[h.rng.Intn(len(meths))]
	raw := h.build(stun.NewType(m, stun.ClassRequest), h.tid, nil, rawAttr{stun.AttrType(0x7f00), []byte{1, 2, 3, 4}})
	h.do(fmt.Sprintf("m %s %d unk %s %d", k, len(raw), m, h.tid), func() { c.sendRaw(raw) })
}

func (h *h2Hist) opJunk(c *h2Client) {
	k := c.key()
	h.tid++
	var raw []byte
	var more [][]byte
	odd := false
	switch h.rng.Intn(6) {
	case 4, 5:
		odd = true
		// every (method, class) pair without a handler: indications other than Send, responses of any method
		meths := []stun.Method{stun.MethodBinding, stun.MethodAllocate, stun.MethodRefresh, stun.MethodCreatePermission, stun.MethodChannelBind,
			stun.MethodConnect, stun.MethodConnectionBind, stun.MethodConnectionAttempt, stun.MethodData, stun.MethodSend, stun.Method(0x0ff)}
		classes := []stun.MessageClass{stun.ClassIndication, stun.ClassSuccessResponse, stun.ClassErrorResponse}
		for {
			m, cl := meths[h.rng.Intn(len(meths))], classes[h.rng.Intn(len(classes))]
			if m == stun.MethodSend && cl == stun.ClassIndication {
				continue
			}
			h.vt.Stat(fmt.Sprintf("junk.%s.%s", strings.ReplaceAll(m.String(), " ", ""), strings.ReplaceAll(cl.String(), " ", "")))
			if raw == nil {
				raw = h.build(stun.NewType(m, cl), h.tid, nil)
				continue
			}
			h.tid++
			more = append(more, h.build(stun.NewType(m, cl), h.tid, nil))
			if len(more) == 3 {
				break
			}
		}
	case 0:
		raw = h.build(stun.NewType(stun.MethodData, stun.ClassIndication), h.tid, nil)
	case 1:
		raw = h.build(stun.NewType(stun.MethodAllocate, stun.ClassSuccessResponse), h.tid, nil)
	case 2:
		raw = h.build(stun.NewType(stun.MethodSend, stun.ClassRequest), h.tid, nil)
	default:
		raw = h.build(stun.NewType(stun.Method(0x0ff), stun.ClassRequest), h.tid, nil)
	}
	if !odd && c.conn == nil && h.rng.Intn(2) == 0 {
		raw = append([]byte{0x90, 0x00}, h.vt.Bytes(h.rng.Intn(30))...)
	}
	h.do(fmt.Sprintf("m %s %d junk", k, len(raw)), func() {
		c.sendRaw(raw)
		for _, r := range more {
			c.sendRaw(r)
		}
	})
}

func (h *h2Hist) opPeerData() {
	// to a known relay address (or a dead one), from any peer
	var relays []string
	for r, lid := range h.relays {
		_ = lid
		relays = append(relays, r)
	}
	if len(relays) == 0 {
		return
	}
	sortStrings(relays)
	rs := relays[h.rng.Intn(len(relays))]
	if h.relayTCP[rs] {
		return
	}
	p := h.peers[h.rng.Intn(len(h.peers))]
	for _, c := range h.w.sortedClients() {
		if a := h.live(c); a != nil && canonAddr(a.RelayAddr) == rs {
			p = h.goodPeer(c, h.rng.Intn(2) == 0)
		}
	}
	sock := h.w.peerUDPSock(p.IP, p.Port)
	d := h.payload()
	dst := parseCanon(rs)
	h.do(fmt.Sprintf("pdata %s %s %s", rs, canonAddr(p), vhHex(d)), func() { _, _ = sock.WriteTo(d, dst) })
}

func (h *h2Hist) opAdvance() {
	cfg := h.w.srv
	cands := []time.Duration{time.Millisecond, time.Second, 29 * time.Second, 31 * time.Second, 59 * time.Second, 61 * time.Second,
		cfg.permissionTimeout - time.Second, cfg.permissionTimeout + time.Second, cfg.permissionTimeout,
		cfg.channelBindTimeout - time.Second, cfg.channelBindTimeout + time.Second,
		cfg.allocationLifetime - time.Second, cfg.allocationLifetime + time.Second, cfg.allocationLifetime / 2,
		5 * time.Minute, 10 * time.Minute, 61 * time.Minute, 599 * time.Second, time.Duration(h.rng.Intn(400)) * time.Second}
	dt := cands[h.rng.Intn(len(cands))]
	if h.rng.Intn(5) < 3 {
		dt = time.Duration(1+h.rng.Intn(20)) * time.Second
	}
	if dt <= 0 {
		dt = time.Second
	}
	h.do(fmt.Sprintf("adv %d", int64(dt)), func() { time.Sleep(dt) })
	// forget relays of allocations that are gone
	var rkeys []string
	for r := range h.relays {
		rkeys = append(rkeys, r)
	}
	sortStrings(rkeys)
	for _, r := range rkeys {
		if _, ok := h.w.n.udp[parseCanon(r).String()]; !ok {
			if _, ok2 := h.w.n.lis[(&net.TCPAddr{IP: parseCanon(r).IP, Port: parseCanon(r).Port}).String()]; !ok2 {
				if h.rng.Intn(2) == 0 {
					delete(h.relays, r)
				}
			}
		}
	}
}

// ---- directed refresh-straddle macro (C07, C06): a refresh at mid-life, a probe between the old and the
// new expiry, a probe after the new expiry.  All requests carry valid credentials.

func (h *h2Hist) goodCred(user string) h2Cred {
	nonce, _ := h.w.srv.nonceHash.Generate()
	return h2Cred{mi: true, nonce: true, nonceOK: true, realm: true, uname: true, known: true, macOK: true, user: user, nonceVal: nonce, pass: h2Users[user]}
}

func (h *h2Hist) goodReq(c *h2Client, m stun.Method, word string, tail string, attrs ...stun.Setter) {
	k := c.key()
	user := h.owner[k]
	if user == "" {
		user = "alice"
	}
	cr := h.goodCred(user)
	h.tid++
	raw := h.build(stun.NewType(m, stun.ClassRequest), h.tid, &cr, attrs...)
	h.do(strings.TrimSpace(fmt.Sprintf("m %s %d %s %d %s %s", k, len(raw), word, h.tid, cr, tail)), func() { c.sendRaw(raw) })
}

func (h *h2Hist) sleepOp(dt time.Duration) {
	if dt <= 0 {
		return
	}
	h.do(fmt.Sprintf("adv %d", int64(dt)), func() { time.Sleep(dt) })
}

// opManyChannels (C15, C06): an allocation that holds several channel bindings ends (Refresh 0, expiry or closed control
// connection); everything it held goes with it at that moment - then time passes beyond every timeout so that anything left
// behind (a timer, a late event) shows.
func (h *h2Hist) opManyChannels(c *h2Client) {
	a := h.live(c)
	if a == nil {
		return
	}
	relay, _ := a.RelayAddr.(*net.UDPAddr)
	if relay == nil {
		return
	}
	ip := net.ParseIP("10.0.0.9").To4()
	if relay.IP.To4() == nil {
		ip = net.ParseIP("fd00::9")
	}
	n := 3 + h.rng.Intn(3)
	for i := 0; i < n; i++ {
		p := &net.UDPAddr{IP: ip, Port: 9100 + i}
		h.goodReq(c, stun.MethodChannelBind, "bind", fmt.Sprintf("num=%d peer=%s", 0x4100+i, canonAddr(p)), proto.ChannelNumber(0x4100+i), proto.PeerAddress{IP: p.IP, Port: p.Port})
	}
	switch h.rng.Intn(3) {
	case 0:
		h.goodReq(c, stun.MethodRefresh, "refresh", "lt=0 fam=-", proto.Lifetime{})
	case 1:
		if T := h.w.srv.allocationLifetime; T <= 20*time.Minute {
			h.sleepOp(T + time.Second)
		} else {
			h.goodReq(c, stun.MethodRefresh, "refresh", "lt=0 fam=-", proto.Lifetime{})
		}
	default:
		h.goodReq(c, stun.MethodRefresh, "refresh", "lt=1 fam=-", proto.Lifetime{Duration: time.Second})
		h.sleepOp(2 * time.Second)
	}
	if h.w.manager(c.lid).GetAllocation(&allocation.FiveTuple{SrcAddr: c.srcAddr(), DstAddr: h.w.lisAddr(c.lid), Protocol: allocation.UDP}) == nil {
		delete(h.owner, c.key())
	}
	if T := h.w.srv.channelBindTimeout; T <= 20*time.Minute {
		h.sleepOp(T + time.Second)
	}
}

// opForeignRefresh0 (C03, C04): another user, with his own valid credentials, sends Refresh(0) on this allocation's 5-tuple:
// it must be ignored (no answer, nothing deleted)
func (h *h2Hist) opForeignRefresh0(c *h2Client) {
	k := c.key()
	owner := h.owner[k]
	if owner == "" {
		return
	}
	other := "bob"
	if owner == "bob" {
		other = "alice"
	}
	cr := h.goodCred(other)
	h.tid++
	raw := h.build(stun.NewType(stun.MethodRefresh, stun.ClassRequest), h.tid, &cr, proto.Lifetime{})
	h.do(fmt.Sprintf("m %s %d refresh %d %s lt=0 fam=-", k, len(raw), h.tid, cr), func() { c.sendRaw(raw) })
}

// opChanRebind (C05, C08): a peer sends through its channel, the binding expires while the permission is kept alive, the
// number is bound to ANOTHER peer, and the first peer sends again with nobody else in between: its data must now come as a
// Data indication naming it, never as ChannelData on the number that is no longer (or no longer its) binding.
func (h *h2Hist) opChanRebind(c *h2Client) {
	a := h.live(c)
	if a == nil {
		return
	}
	relay, _ := a.RelayAddr.(*net.UDPAddr)
	if relay == nil {
		return
	}
	p, sib := h.peers[0], h.peers[1]
	if relay.IP.To4() == nil {
		p, sib = h.peers[4], h.peers[5]
	}
	srv := h.w.srv
	T, step := srv.channelBindTimeout, srv.permissionTimeout/2
	if T > 20*time.Minute || step < time.Second || T/step > 12 {
		return
	}
	for _, cb := range a.ListChannelBindings() { // only from a clean slate for both peers
		for _, q := range []*net.UDPAddr{p, sib} {
			if u, _ := cb.Peer.(*net.UDPAddr); u != nil && u.IP.Equal(q.IP) && u.Port == q.Port {
				return
			}
		}
		if cb.Number == 0x4200 {
			return
		}
	}
	h.vt.Stat("macro.chanrebind")
	rs := canonAddr(relay)
	pa := proto.PeerAddress{IP: p.IP, Port: p.Port}
	from := func(q *net.UDPAddr) {
		sock := h.w.peerUDPSock(q.IP, q.Port)
		d := h.payload()
		h.do(fmt.Sprintf("pdata %s %s %s", rs, canonAddr(q), vhHex(d)), func() { _, _ = sock.WriteTo(d, relay) })
	}
	keep := func() {
		h.goodReq(c, stun.MethodRefresh, "refresh", "lt=3600 fam=-", proto.Lifetime{Duration: time.Hour})
	}
	keep()
	h.goodReq(c, stun.MethodChannelBind, "bind", fmt.Sprintf("num=%d peer=%s", 0x4200, canonAddr(p)), proto.ChannelNumber(0x4200), pa)
	from(p)
	for el := time.Duration(0); el < T+time.Second; el += step {
		h.sleepOp(step)
		keep()
		h.goodReq(c, stun.MethodCreatePermission, "perm", canonAddr(p), pa)
	}
	from(p) // the binding has expired, the permission has not
	h.goodReq(c, stun.MethodChannelBind, "bind", fmt.Sprintf("num=%d peer=%s", 0x4200, canonAddr(sib)), proto.ChannelNumber(0x4200), proto.PeerAddress{IP: sib.IP, Port: sib.Port})
	from(p) // the number now belongs to the sibling port
	from(sib)
}

// opStreamOversize (C05, C10): over a stream transport one frame of inboundMTU bytes or more is dropped whole, and the frame
// right behind it is served as if nothing had happened
func (h *h2Hist) opStreamOversize(c *h2Client) bool {
	a := h.live(c)
	if a == nil || c.conn == nil || c.isData {
		return false
	}
	relay, _ := a.RelayAddr.(*net.UDPAddr)
	if relay == nil {
		return false
	}
	p := h.peers[0]
	if relay.IP.To4() == nil {
		p = h.peers[4]
	}
	h.vt.Stat("macro.streamoversize")
	pa := proto.PeerAddress{IP: p.IP, Port: p.Port}
	h.goodReq(c, stun.MethodCreatePermission, "perm", canonAddr(p), pa)
	k := c.key()
	big := h.vt.Bytes(h.w.srv.inboundMTU + h.rng.Intn(40))
	// the oversize payload itself looks like a sequence of small Send indications to the same peer
	h.tid++
	inner := h.build(stun.NewType(stun.MethodSend, stun.ClassIndication), h.tid, nil, proto.Data([]byte{0xde, 0xad}), pa)
	for off := 0; off+len(inner) <= len(big); off += len(inner) {
		copy(big[off:], inner)
	}
	h.tid++
	raw := h.build(stun.NewType(stun.MethodSend, stun.ClassIndication), h.tid, nil, proto.Data(big), pa)
	h.do(fmt.Sprintf("m %s %d send %s %s", k, len(raw), vhHex(big), canonAddr(p)), func() { c.sendRaw(raw) })
	d := h.payload()
	h.tid++
	raw2 := h.build(stun.NewType(stun.MethodSend, stun.ClassIndication), h.tid, nil, proto.Data(d), pa)
	h.do(fmt.Sprintf("m %s %d send %s %s", k, len(raw2), vhHex(d), canonAddr(p)), func() { c.sendRaw(raw2) })
	return true
}

func (h *h2Hist) opStraddle(c *h2Client) {
	a := h.live(c)
	if a == nil || c.conn != nil && false {
		return
	}
	if _, isTCP := a.RelayAddr.(*net.TCPAddr); isTCP {
		return
	}
	relay, _ := a.RelayAddr.(*net.UDPAddr)
	if relay == nil {
		return
	}
	// a peer of the allocation's family that the permission handler accepts, and its sibling port
	p, sib := h.peers[0], h.peers[1]
	if relay.IP.To4() == nil {
		p, sib = h.peers[4], h.peers[5]
	}
	srv := h.w.srv
	num := uint16(0x4000 + h.rng.Intn(3))
	for _, cb := range a.ListChannelBindings() {
		if u, _ := cb.Peer.(*net.UDPAddr); u != nil && u.IP.Equal(p.IP) && u.Port == p.Port {
			num = uint16(cb.Number)
		}
	}
	kind := h.rng.Intn(6)
	T := srv.permissionTimeout
	if kind == 2 || kind >= 4 {
		T = srv.channelBindTimeout
	}
	if kind == 3 {
		T = srv.allocationLifetime
	}
	if T > 20*time.Minute || T < 4*time.Second {
		return
	}
	keep := func() { // keep the allocation itself alive while the entry under test ages
		if kind != 3 {
			h.goodReq(c, stun.MethodRefresh, "refresh", "lt=3600 fam=-", proto.Lifetime{Duration: time.Hour})
		}
	}
	pa := proto.PeerAddress{IP: p.IP, Port: p.Port}
	establish := func() {
		switch kind {
		case 0:
			h.goodReq(c, stun.MethodCreatePermission, "perm", canonAddr(p), pa)
		case 1, 2:
			h.goodReq(c, stun.MethodChannelBind, "bind", fmt.Sprintf("num=%d peer=%s", num, canonAddr(p)), proto.ChannelNumber(num), pa)
		case 3:
			h.goodReq(c, stun.MethodRefresh, "refresh", "lt=- fam=-")
			h.goodReq(c, stun.MethodCreatePermission, "perm", canonAddr(p), pa)
		}
	}
	probes := func() {
		k := c.key()
		rs := canonAddr(relay)
		// client -> peer by Send indication (needs the permission), and by ChannelData (needs the binding)
		d := h.payload()
		h.tid++
		raw := h.build(stun.NewType(stun.MethodSend, stun.ClassIndication), h.tid, nil, proto.Data(d), proto.PeerAddress{IP: sib.IP, Port: sib.Port})
		h.do(fmt.Sprintf("m %s %d send %s %s", k, len(raw), vhHex(d), canonAddr(sib)), func() { c.sendRaw(raw) })
		if kind == 1 || kind == 2 {
			cd := proto.ChannelData{Number: proto.ChannelNumber(num), Data: h.payload()}
			cd.Encode()
			h.do(fmt.Sprintf("m %s %d cdata %s", k, len(cd.Raw), vhHex(cd.Raw)), func() { c.sendRaw(cd.Raw) })
		}
		// peer -> client from the bound address and from its sibling port (same IP: permission only)
		for _, from := range []*net.UDPAddr{p, sib} {
			sock := h.w.peerUDPSock(from.IP, from.Port)
			d := h.payload()
			h.do(fmt.Sprintf("pdata %s %s %s", rs, canonAddr(from), vhHex(d)), func() { _, _ = sock.WriteTo(d, relay) })
		}
	}
	h.vt.Stat(fmt.Sprintf("straddle.kind%d", kind))
	keep()
	if kind >= 4 {
		// a REJECTED request at mid-life must not extend anything: bind num->p, then at mid-life ask for the same
		// number with another peer (kind 4) or the same peer with another number (kind 5): 400, nothing changes
		h.goodReq(c, stun.MethodChannelBind, "bind", fmt.Sprintf("num=%d peer=%s", num, canonAddr(p)), proto.ChannelNumber(num), pa)
		h.sleepOp(T/2 + 3*time.Millisecond)
		keep()
		if kind == 4 {
			h.goodReq(c, stun.MethodChannelBind, "bind", fmt.Sprintf("num=%d peer=%s", num, canonAddr(sib)), proto.ChannelNumber(num), proto.PeerAddress{IP: sib.IP, Port: sib.Port})
		} else {
			other := uint16(0x4000 + (int(num)-0x4000+1)%3)
			h.goodReq(c, stun.MethodChannelBind, "bind", fmt.Sprintf("num=%d peer=%s", other, canonAddr(p)), proto.ChannelNumber(other), pa)
		}
		h.sleepOp(T/2 + time.Second)
		kind = 2
		probes() // the binding's (un-extended) timeout has passed
		return
	}
	establish()
	h.sleepOp(T/2 + 3*time.Millisecond)
	keep()
	establish() // the refresh at mid-life
	h.sleepOp(T/2 + time.Second)
	probes() // the original expiry has passed; the refreshed entry has not
	keep()
	h.sleepOp(T/2 + time.Second)
	probes() // now the refreshed entry has expired too (unless kept alive by another path)
}

func (h *h2Hist) opRelayErr() {
	var relays []string
	for r := range h.relays {
		relays = append(relays, r)
	}
	if len(relays) == 0 {
		return
	}
	sortStrings(relays)
	rs := relays[h.rng.Intn(len(relays))]
	a := parseCanon(rs)
	h.do("rerr "+rs, func() {
		h.w.n.mu.Lock()
		pc := h.w.n.udp[a.String()]
		ln := h.w.n.lis[(&net.TCPAddr{IP: a.IP, Port: a.Port}).String()]
		h.w.n.mu.Unlock()
		if pc != nil && !pc.quiet {
			select {
			case pc.readErr <- fmt.Errorf("simnet: injected read error"):
			default:
			}
		} else if ln != nil && !ln.quiet {
			select {
			case ln.accErr <- fmt.Errorf("simnet: injected accept error"):
			default:
			}
		}
	})
}

func (h *h2Hist) opCtrlClose() {
	var cs []*h2Client
	for _, c := range h.w.sortedClients() {
		if c.conn != nil && !c.isData {
			cs = append(cs, c)
		}
	}
	if len(cs) == 0 {
		return
	}
	sortClients(cs)
	c := cs[h.rng.Intn(len(cs))]
	k := c.key()
	h.do("cclose "+k, func() { c.close() })
	delete(h.owner, k)
}

func runH2History(t *testing.T, vt *vhT, seed int64, nOps int) {
	rng := rand.New(rand.NewSource(seed))
	synctest.Test(t, func(t *testing.T) {
		h := &h2Hist{vt: vt, rng: rng, t0: time.Now(), lastTid: map[string]int{}, owner: map[string]string{}, relays: map[string]int{},
			relayTCP: map[string]bool{}, cidUser: map[int]string{}, boundCid: map[int]bool{}, cidLid: map[int]int{}, nextPort: 50000, nextEven: 60000, dataPort: 7000, kinds: map[string]bool{}}
		d := func(xs ...time.Duration) time.Duration { return xs[rng.Intn(len(xs))] }
		cfg := ServerConfig{
			PermissionTimeout:   d(0, 0, 5*time.Minute, 30*time.Second, 12*time.Minute, 2*time.Second),
			ChannelBindTimeout:  d(0, 10*time.Minute, 60*time.Second, 3*time.Minute, 20*time.Minute),
			AllocationLifetime:  d(0, 0, 10*time.Minute, 10*time.Minute, 90*time.Second, 2*time.Hour, 30*time.Minute, time.Second, 1500*time.Millisecond),
			StrictAddressFamily: rng.Intn(4) == 0,
			InboundMTU:          []int{0, 0, 0, 0, 0, 0, 0, 1600, 9000, 9000, 576, 576, 200, 64}[rng.Intn(14)],
		}
		withAuth := rng.Intn(40) != 0
		withQuota := rng.Intn(3) == 0
		vetoed := []net.IP{net.ParseIP("10.9.9.9")}
		if rng.Intn(3) == 0 {
			vetoed = append(vetoed, net.ParseIP("10.0.0.8"))
		}
		var vetoedFor [][2]net.IP
		if rng.Intn(2) == 0 { // the handler's verdict may depend on who asks
			vetoedFor = [][2]net.IP{{net.ParseIP("10.0.0.3"), net.ParseIP("10.0.0.9")}, {net.ParseIP("fd00::2"), net.ParseIP("fd00::8")}}
		}
		l0 := &h2Listener{ip: net.ParseIP("10.0.0.1").To4(), vetoed: vetoed, vetoedFor: vetoedFor}
		switch rng.Intn(6) {
		case 0:
			l0.ip = net.ParseIP("fd00::1")
		case 1:
			l0.ip = net.IPv4zero.To4()
			l0.unspec = true
		case 2:
			l0.ip = net.IPv6unspecified
			l0.unspec = true
		}
		lis := []*h2Listener{l0}
		h.tcpMode = rng.Intn(4) == 0 || os.Getenv("VERIF_H2_MODE") == "tcp"
		if rng.Intn(2) == 0 || h.tcpMode {
			sl := &h2Listener{stream: true, ip: net.ParseIP("10.0.0.1").To4(), vetoed: vetoed[:1], vetoedFor: vetoedFor}
			if rng.Intn(3) == 0 { // bound to the wildcard address; clients still connect to 10.0.0.1
				sl.ip, sl.unspec, sl.dialIP = net.IPv4zero.To4(), true, net.ParseIP("10.0.0.1").To4()
			}
			lis = append(lis, sl)
		}
		w := newH2World(vt, cfg, lis, withAuth, withQuota)
		w.shortErr = rng.Intn(3) == 0 // what a too-long datagram looks like to the reader depends on the transport
		for _, l := range w.lis {
			if l.pc != nil {
				l.pc.shortErr = w.shortErr // ... also on the server's own listening socket
			}
		}
		h.w = w
		var lidOf int
		w.onCid = func(idx int, key string, bound bool) {
			if bound {
				h.boundCid[idx] = true
			} else if u, ok := h.owner[key]; ok {
				h.cidUser[idx] = u
				fmt.Sscan(key, &lidOf)
				h.cidLid[idx] = lidOf
			}
		}
		s := w.srv
		b := func(x bool) int {
			if x {
				return 1
			}
			return 0
		}
		vt.Op("cfg perm=%d chan=%d life=%d maxlife=%d rtp=%d inmtu=%d bind=%d resv=%d strict=%d auth=%d quota=%d relay4=%s relay6=%s",
			int64(s.permissionTimeout), int64(s.channelBindTimeout), int64(s.allocationLifetime), int64(time.Hour), 1600, s.inboundMTU,
			int64(30*time.Second), int64(30*time.Second), b(s.strictAddressFamily), b(withAuth), b(withQuota), canonIPStr(w.relayV4), canonIPStr(w.relayV6))
		vt.Obs("ok")
		for _, l := range lis {
			var vs []string
			for _, v := range l.vetoed {
				vs = append(vs, canonIPStr(v))
			}
			fam := 1
			if l.ip.To4() == nil {
				fam = 2
			}
			unspec := l.unspec
			if l.stream && l.dialIP != nil {
				// the handlers see the accepted connection's local address, which is the concrete address dialled
				unspec = false
				fam = 1
				if l.dialIP.To4() == nil {
					fam = 2
				}
			}
			vf := "-"
			if len(l.vetoedFor) > 0 {
				var ps []string
				for _, v := range l.vetoedFor {
					ps = append(ps, canonIPStr(v[0])+">"+canonIPStr(v[1]))
				}
				vf = strings.Join(ps, ",")
			}
			vt.Op("lis %d %d %d %s %s", b(l.stream), fam, b(unspec), strings.Join(vs, ","), vf)
			vt.Obs("ok")
		}
		h.cpool = []*net.UDPAddr{{IP: net.ParseIP("10.0.0.2").To4(), Port: 4000}, {IP: net.ParseIP("10.0.0.2").To4(), Port: 4001},
			{IP: net.ParseIP("10.0.0.3").To4(), Port: 4000}, {IP: net.ParseIP("fd00::2"), Port: 4000}, {IP: net.ParseIP("fd00::3"), Port: 4000},
			// the IPv6 address whose first four bytes are 10.0.0.2 and whose other bytes are zero, same port: a key built from
			// the unpadded IPv4 bytes would take it for the IPv4 client (both reach a listener bound to the wildcard address)
			{IP: net.ParseIP("a00:2::"), Port: 4000}}
		h.peers = []*net.UDPAddr{{IP: net.ParseIP("10.0.0.9").To4(), Port: 9000}, {IP: net.ParseIP("10.0.0.9").To4(), Port: 9001},
			{IP: net.ParseIP("10.0.0.8").To4(), Port: 9000}, {IP: net.ParseIP("10.9.9.9").To4(), Port: 9000}, {IP: net.ParseIP("fd00::9"), Port: 9000},
			{IP: net.ParseIP("fd00::9"), Port: 9001}, {IP: net.ParseIP("fd00::8"), Port: 9000}}
		for _, p := range h.peers {
			w.peerUDPSock(p.IP, p.Port)
			w.peerListener(p.IP, p.Port)
		}
		h.oldNonce, _ = s.nonceHash.Generate()
		h.oldAt = time.Now()
		// offset the clock so that operations never coincide with whole-second boundaries by construction
		time.Sleep(500 * time.Microsecond)
		vt.Op("adv 500000")
		vt.Obs("-")
		for i := 0; i < nOps && !h.closed; i++ {
			c := h.pickClient()
			if c == nil {
				continue
			}
			la := h.live(c)
			has := la != nil
			r := rng.Intn(100)
			if has && len(la.ListPermissions()) == 0 && rng.Intn(10) < 6 {
				r = 11 + rng.Intn(24) // CreatePermission or ChannelBind
			} else if has && h.tcpMode && rng.Intn(10) < 7 {
				r = 80 + rng.Intn(11) // Connect, ConnectionBind, inbound connection, pipe traffic
			}
			switch {
			case !has && r < 85:
				h.opAllocate(c, false)
			case r < 5:
				h.opAllocate(c, rng.Intn(2) == 0)
			case r < 11:
				h.opRefresh(c)
			case r < 23:
				h.opPerm(c)
			case r < 35:
				h.opBind(c)
			case r < 49:
				h.opSend(c)
			case r < 63:
				h.opChanData(c)
			case r < 65:
				h.opBinding(c)
			case r < 66:
				h.opUnknown(c)
			case r < 68:
				h.opJunk(c)
			case r < 80:
				h.opPeerData()
			case r < 84:
				if has {
					h.opConnect(c)
				}
			case r < 87:
				if h.tcpMode && rng.Intn(4) == 0 {
					h.opForeignBind()
				} else {
					h.opConnBind()
				}
			case r < 89:
				h.opPeerConn()
			case r < 91:
				h.opPipe()
			case r < 94:
				h.opAdvance()
			case r < 97:
				if has && !h.tcpMode {
					switch rng.Intn(6) {
					case 0:
						h.opManyChannels(c)
					case 1:
						h.opForeignRefresh0(c)
					case 2:
						h.opChanRebind(c)
					case 3:
						if !h.opStreamOversize(c) {
							h.opStraddle(c)
						}
					default:
						h.opStraddle(c)
					}
				} else {
					h.opAdvance()
				}
			case r < 98:
				h.opRelayErr()
			default:
				h.opCtrlClose()
			}
		}
		if rng.Intn(3) == 0 {
			if rng.Intn(2) == 0 { // one relay socket reports an error from Close: the others must be released all the same
				w.n.mu.Lock()
				var relays []string
				for k, pc := range w.n.udp {
					if !pc.quiet {
						relays = append(relays, k)
					}
				}
				sortStrings(relays)
				if len(relays) > 0 {
					w.n.udp[relays[rng.Intn(len(relays))]].closeErr = true
				}
				w.n.mu.Unlock()
			}
			h.do("close", func() { _ = w.srv.Close() })
			h.closed = true
			// C15 monitor: after Server.Close nothing should be served any more
			for _, c := range w.sortedClients() {
				if c.conn != nil && !c.isData {
					before := len(c.rawbuf)
					h.opBinding(c)
					c.mu.Lock()
					_ = before
					c.mu.Unlock()
					h.closedProbe = true
					break
				}
			}
		}
		w.shutdown()
		// C15 monitor: after shutdown nothing the server opened may remain open
		if left := w.n.openSockets(); len(left) > 0 {
			vt.Alarm("sockets-left-after-close", "%v", left)
		}
	})
}

func TestVerifH2(t *testing.T) {
	vt := vhOpen("h2")
	defer vt.Close()
	nHist, nOps := 300, 50
	if vt.Thorough() {
		nHist, nOps = 3000, 120
	}
	if v := vhEnvInt("VERIF_HISTORIES", 0); v > 0 {
		nHist = int(v)
	}
	only := vhEnvInt("VERIF_HIST", -1)
	vt.Watchdog(90 * time.Second)
	if only < 0 {
		h2Fingerprints(vt)
		vt.Flush()
		h2RealSockets(vt)
		vt.Flush()
		h2BindResponseLost(t, vt)
		vt.Flush()
		h2BindPipelined(t, vt)
		vt.Flush()
		h2SlowPermissionHandler(t, vt)
		h2StaleStreamTeardown(t, vt)
		h2UnsignedAttributes(t, vt)
	}
	for i := 0; i < nHist; i++ {
		if only >= 0 && int64(i) != only {
			continue
		}
		vt.Note("history %d", i)
		runH2History(t, vt, vt.Seed*1000003+int64(i), nOps)
		vt.Flush()
	}
}

// h2Fingerprints compares FiveTuple.Equal with the model's key (Model/FiveTuple.lean; fpAddr_injective) on every pair
// from a pool of addresses chosen to collide if the key were built carelessly: the two spellings of an IPv4 address,
// IPv6 addresses that share leading or trailing bytes with it, ports at the uint16 limits, both address types.
func h2Fingerprints(vt *vhT) {
	rng := rand.New(rand.NewSource(vt.Seed + 77)) // its own stream: the histories that follow keep theirs
	ips := []net.IP{
		net.IPv4(10, 0, 0, 2).To4(), net.IPv4(10, 0, 0, 2).To16(), net.ParseIP("a00:2::"), net.ParseIP("::a00:2"), net.ParseIP("::a00:2:0:0"),
		net.IPv4(10, 0, 0, 3).To4(), net.ParseIP("fd00::2"), net.ParseIP("::ffff:0:0"), net.IPv4zero.To4(), net.IPv6unspecified,
		net.ParseIP("ff:ff00::"), net.IPv4(0, 255, 255, 0).To4(),
	}
	ports := []int{0, 1, 4000, 4001, 65535}
	type ad struct {
		ip   net.IP
		port int
	}
	var pool []ad
	for _, ip := range ips {
		for _, p := range ports {
			pool = append(pool, ad{ip, p})
		}
	}
	mk := func(a ad, tcp bool) net.Addr {
		if tcp {
			return &net.TCPAddr{IP: a.ip, Port: a.port}
		}
		return &net.UDPAddr{IP: a.ip, Port: a.port}
	}
	hex := func(ip net.IP) string {
		if len(ip) == 0 {
			return "."
		}
		return fmt.Sprintf("%x", []byte(ip))
	}
	one := func(p1 allocation.Protocol, s1, d1 ad, p2 allocation.Protocol, s2, d2 ad) {
		t1 := &allocation.FiveTuple{Protocol: p1, SrcAddr: mk(s1, p1 == allocation.TCP), DstAddr: mk(d1, rng.Intn(2) == 0)}
		t2 := &allocation.FiveTuple{Protocol: p2, SrcAddr: mk(s2, p2 == allocation.TCP), DstAddr: mk(d2, rng.Intn(2) == 0)}
		vt.Op("fp %d %s %d %s %d %d %s %d %s %d", p1, hex(s1.ip), s1.port, hex(d1.ip), d1.port, p2, hex(s2.ip), s2.port, hex(d2.ip), d2.port)
		if t1.Equal(t2) {
			vt.Obs("eq")
		} else {
			vt.Obs("ne")
		}
	}
	// the two other notions of "the same address" the server uses: ipnet.AddrEqual (channel bindings by peer address) and
	// the permission key ipnet.FingerprintAddr (IP only) — both must be the relation the model proves the key to be
	for _, a := range pool {
		for _, b := range pool {
			tcp := rng.Intn(2) == 0
			vt.Op("aeq %s %d %s %d", hex(a.ip), a.port, hex(b.ip), b.port)
			vt.Obs("%v", ipnet.AddrEqual(mk(a, tcp), mk(b, tcp)))
		}
	}
	for _, a := range ips {
		for _, b := range ips {
			vt.Op("pkey %s %s", hex(a), hex(b))
			vt.Obs("%v", ipnet.FingerprintAddr(mk(ad{a, 1}, false)) == ipnet.FingerprintAddr(mk(ad{b, 2}, rng.Intn(2) == 0)))
		}
	}
	srv := ad{net.IPv6unspecified, 3478}
	// every pair of client addresses on one listener
	for _, a := range pool {
		for _, b := range pool {
			one(allocation.UDP, a, srv, allocation.UDP, b, srv)
		}
	}
	// random full tuples: the server side and the protocol vary too
	for i := 0; i < 4000; i++ {
		a, b := pool[rng.Intn(len(pool))], pool[rng.Intn(len(pool))]
		c, d := pool[rng.Intn(len(pool))], pool[rng.Intn(len(pool))]
		if rng.Intn(2) == 0 {
			c = a
		}
		if rng.Intn(2) == 0 {
			d = b
		}
		one(allocation.Protocol(rng.Intn(2)), a, b, allocation.Protocol(rng.Intn(2)), c, d)
	}
}
