//go:build verif

package turn

// H2 (real sockets): the simulated network of H2 is not a *net.UDPConn, so code paths that depend on the
// concrete socket type (fast paths, address reuse, OS behaviour) are invisible to it.  This directed scenario
// runs the real server on real loopback UDP sockets with two interleaved raw clients and one peer and checks
// the isolation / delivery / lifetime clauses end to end.  Real time, about two seconds.

import (
	"bytes"
	"fmt"
	"net"
	"time"

	"github.com/pion/logging"
	"github.com/pion/stun/v3"
	"github.com/pion/turn/v5/internal/proto"
)

type realCli struct {
	name  string
	pc    net.PacketConn
	srv   net.Addr
	user  string
	pass  string
	realm string
	nonce string
	tid   int
	resp  chan *stun.Message
	data  chan string // "ind <peer> <payload>" / "chan <num> <payload>"
}

func newRealCli(name, user, pass string, srv net.Addr) (*realCli, error) {
	pc, err := net.ListenPacket("udp4", "127.0.0.1:0")
	if err != nil {
		return nil, err
	}
	c := &realCli{name: name, pc: pc, srv: srv, user: user, pass: pass, resp: make(chan *stun.Message, 64), data: make(chan string, 64)}
	go func() {
		buf := make([]byte, 2048)
		for {
			n, _, err := pc.ReadFrom(buf)
			if err != nil {
				return
			}
			b := append([]byte(nil), buf[:n]...)
			if proto.IsChannelData(b) {
				cd := proto.ChannelData{Raw: b}
				if cd.Decode() == nil {
					c.data <- fmt.Sprintf("chan %d %s", cd.Number, cd.Data)
				}
				continue
			}
			m := &stun.Message{Raw: b}
			if m.Decode() != nil {
				continue
			}
			if m.Type.Class == stun.ClassIndication {
				var pa proto.PeerAddress
				var d proto.Data
				_ = pa.GetFrom(m)
				_ = d.GetFrom(m)
				c.data <- fmt.Sprintf("ind %s:%d %s", pa.IP, pa.Port, []byte(d))
				continue
			}
			c.resp <- m
		}
	}()
	return c, nil
}

// do sends one request (authenticated once realm/nonce are known; retries once on 401/438) and returns the response
func (c *realCli) do(method stun.Method, attrs ...stun.Setter) *stun.Message {
	for attempt := 0; attempt < 3; attempt++ {
		c.tid++
		s := []stun.Setter{stun.NewTransactionIDSetter(tidOf(c.tid)), stun.NewType(method, stun.ClassRequest)}
		s = append(s, attrs...)
		if c.nonce != "" {
			s = append(s, stun.NewUsername(c.user), stun.NewRealm(c.realm), stun.NewNonce(c.nonce),
				stun.MessageIntegrity(GenerateAuthKey(c.user, c.realm, c.pass)))
		}
		m, err := stun.Build(s...)
		if err != nil {
			return nil
		}
		if _, err = c.pc.WriteTo(m.Raw, c.srv); err != nil {
			return nil
		}
		select {
		case r := <-c.resp:
			if r.Type.Class == stun.ClassErrorResponse {
				var ec stun.ErrorCodeAttribute
				_ = ec.GetFrom(r)
				if ec.Code == stun.CodeUnauthorized || ec.Code == stun.CodeStaleNonce {
					var rl stun.Realm
					var nn stun.Nonce
					_ = rl.GetFrom(r)
					_ = nn.GetFrom(r)
					c.realm, c.nonce = string(rl), string(nn)
					continue
				}
			}
			return r
		case <-time.After(2 * time.Second):
			return nil
		}
	}
	return nil
}

func (c *realCli) expect(wait time.Duration) string {
	select {
	case d := <-c.data:
		return d
	case <-time.After(wait):
		return ""
	}
}

func okResp(m *stun.Message) bool { return m != nil && m.Type.Class == stun.ClassSuccessResponse }

func h2RealSockets(vt *vhT) {
	vt.Note("real-socket scenario")
	fail := func(sig, f string, a ...any) { vt.Alarm(sig, f, a...) }
	srvPC, err := net.ListenPacket("udp4", "127.0.0.1:0")
	if err != nil {
		vt.Note("real-socket scenario skipped: %v", err)
		return
	}
	lf := logging.NewDefaultLoggerFactory()
	lf.DefaultLogLevel = logging.LogLevelDisabled
	srv, err := NewServer(ServerConfig{
		Realm:         "pion.ly",
		LoggerFactory: lf,
		AuthHandler: func(ra *RequestAttributes) (string, []byte, bool) {
			pw, ok := h2Users[ra.Username]
			if !ok {
				return "", nil, false
			}
			return ra.Username, GenerateAuthKey(ra.Username, ra.Realm, pw), true
		},
		PacketConnConfigs: []PacketConnConfig{{PacketConn: srvPC,
			RelayAddressGenerator: &RelayAddressGeneratorStatic{RelayAddress: net.ParseIP("127.0.0.1"), Address: "127.0.0.1"}}},
	})
	if err != nil {
		_ = srvPC.Close()
		vt.Note("real-socket scenario skipped: %v", err)
		return
	}
	defer srv.Close() //nolint:errcheck
	var users []string
	for u := range h2Users {
		users = append(users, u)
	}
	sortStrings(users)
	a, err1 := newRealCli("A", users[0], h2Users[users[0]], srvPC.LocalAddr())
	b, err2 := newRealCli("B", users[len(users)-1], h2Users[users[len(users)-1]], srvPC.LocalAddr())
	peer, err3 := net.ListenPacket("udp4", "127.0.0.1:0")
	if err1 != nil || err2 != nil || err3 != nil {
		vt.Note("real-socket scenario skipped: sockets")
		return
	}
	defer a.pc.Close()  //nolint:errcheck
	defer b.pc.Close()  //nolint:errcheck
	defer peer.Close()  //nolint:errcheck
	peerAddr := peer.LocalAddr().(*net.UDPAddr) //nolint:forcetypeassert
	peerIn := make(chan string, 64)
	go func() {
		buf := make([]byte, 2048)
		for {
			n, from, err := peer.ReadFrom(buf)
			if err != nil {
				return
			}
			peerIn <- fmt.Sprintf("%s %s", from, buf[:n])
		}
	}()
	relayOf := func(c *realCli, lifetime time.Duration) *net.UDPAddr {
		r := c.do(stun.MethodAllocate, proto.RequestedTransport{Protocol: proto.ProtoUDP}, proto.Lifetime{Duration: lifetime})
		if !okResp(r) {
			fail("real-udp-setup", "%s Allocate failed: %v", c.name, r)
			return nil
		}
		var ra proto.RelayedAddress
		if ra.GetFrom(r) != nil {
			fail("real-udp-setup", "%s Allocate without relayed address", c.name)
			return nil
		}
		return &net.UDPAddr{IP: ra.IP, Port: ra.Port}
	}
	relayA, relayB := relayOf(a, 10*time.Minute), relayOf(b, 10*time.Minute)
	if relayA == nil || relayB == nil {
		return
	}
	pa := proto.PeerAddress{IP: peerAddr.IP, Port: peerAddr.Port}
	if !okResp(a.do(stun.MethodCreatePermission, pa)) || !okResp(b.do(stun.MethodCreatePermission, pa)) {
		fail("real-udp-setup", "CreatePermission failed")
		return
	}
	quiet := 150 * time.Millisecond
	deliver := func(to *realCli, other *realCli, relay *net.UDPAddr, payload, want string) {
		// the other client is the most recent sender on the listening socket
		if !okResp(other.do(stun.MethodBinding)) {
			fail("real-udp-setup", "%s Binding failed", other.name)
		}
		_, _ = peer.WriteTo([]byte(payload), relay)
		got := to.expect(time.Second)
		if got != want {
			fail("real-udp-misdelivery", "datagram %q for %s's relayed address %s: owner received %q, want %q", payload, to.name, relay, got, want)
		}
		if x := other.expect(quiet); x != "" {
			fail("real-udp-misdelivery", "datagram %q for %s's relayed address reached %s: %q", payload, to.name, other.name, x)
		}
	}
	pstr := fmt.Sprintf("%s:%d", peerAddr.IP, peerAddr.Port)
	deliver(a, b, relayA, "for-A", "ind "+pstr+" for-A")
	deliver(b, a, relayB, "for-B", "ind "+pstr+" for-B")
	// Send indications leave from the sender's own relayed address
	send := func(c *realCli, other *realCli, relay *net.UDPAddr, payload string) {
		_ = other.do(stun.MethodBinding)
		c.tid++
		m, _ := stun.Build(stun.NewTransactionIDSetter(tidOf(c.tid)), stun.NewType(stun.MethodSend, stun.ClassIndication), pa, proto.Data(payload))
		_, _ = c.pc.WriteTo(m.Raw, c.srv)
		select {
		case got := <-peerIn:
			if got != fmt.Sprintf("%s %s", relay, payload) {
				fail("real-udp-wrong-source", "Send from %s reached the peer as %q, want from %s", c.name, got, relay)
			}
		case <-time.After(time.Second):
			fail("real-udp-lost", "Send from %s never reached the peer", c.name)
		}
	}
	send(a, b, relayA, "from-A")
	send(b, a, relayB, "from-B")
	// channel data: A binds the peer, B uses the same number for the same peer
	ch := proto.ChannelNumber(0x4000)
	if !okResp(a.do(stun.MethodChannelBind, ch, pa)) || !okResp(b.do(stun.MethodChannelBind, ch, pa)) {
		fail("real-udp-setup", "ChannelBind failed")
	}
	deliver(a, b, relayA, "ch-A", "chan 16384 ch-A")
	deliver(b, a, relayB, "ch-B", "chan 16384 ch-B")
	cd := proto.ChannelData{Number: ch, Data: []byte("cd-from-A")}
	cd.Encode()
	_ = b.do(stun.MethodBinding)
	_, _ = a.pc.WriteTo(cd.Raw, a.srv)
	select {
	case got := <-peerIn:
		if !bytes.Equal([]byte(got), []byte(fmt.Sprintf("%s cd-from-A", relayA))) {
			fail("real-udp-wrong-source", "ChannelData from A reached the peer as %q, want from %s", got, relayA)
		}
	case <-time.After(time.Second):
		fail("real-udp-lost", "ChannelData from A never reached the peer")
	}
	// lifetimes: A's allocation runs out after one second while B is the last sender; B must survive, A must be gone
	if r := a.do(stun.MethodRefresh, proto.Lifetime{Duration: time.Second}); !okResp(r) {
		fail("real-udp-setup", "Refresh(1s) failed")
	}
	_ = b.do(stun.MethodBinding)
	time.Sleep(1300 * time.Millisecond)
	if n := srv.AllocationCount(); n != 1 {
		fail("real-udp-lifecycle", "after A's lifetime ran out the server reports %d allocations, want 1 (B's)", n)
	}
	if r := b.do(stun.MethodRefresh, proto.Lifetime{Duration: 10 * time.Minute}); !okResp(r) {
		fail("real-udp-lifecycle", "B's Refresh after A's expiry failed: B's allocation was touched by A's timer")
	}
	deliver(b, a, relayB, "for-B-2", "chan 16384 for-B-2")
	if r := a.do(stun.MethodRefresh, proto.Lifetime{Duration: 10 * time.Minute}); okResp(r) {
		fail("real-udp-lifecycle", "A's Refresh succeeded after its allocation expired")
	}
	// Refresh(0) of B removes B only
	if r := b.do(stun.MethodRefresh, proto.Lifetime{}); !okResp(r) {
		fail("real-udp-lifecycle", "B's Refresh(0) failed")
	}
	if n := srv.AllocationCount(); n != 0 {
		fail("real-udp-lifecycle", "after both allocations ended the server reports %d allocations", n)
	}
	vt.Stat("real.scenarios")
}
