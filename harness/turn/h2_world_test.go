//go:build verif

package turn

// H2 world: a real turn.Server on simnet (packet and stream listeners, UDP and TCP allocations),
// hand-built clients and peers, an event recorder and canonical observation printing.

import (
	"encoding/binary"
	"fmt"
	"math/big"
	"net"
	"sort"
	"strings"
	"sync"
	"sync/atomic"
	"testing/synctest"
	"time"

	"github.com/pion/logging"
	"github.com/pion/stun/v3"
	"github.com/pion/turn/v5/internal/allocation"
	"github.com/pion/turn/v5/internal/proto"
)

// ---------- canonical addresses ----------

func canonIPStr(ip net.IP) string {
	if v4 := ip.To4(); v4 != nil {
		return fmt.Sprintf("4.%d", binary.BigEndian.Uint32(v4))
	}
	return "6." + new(big.Int).SetBytes(ip.To16()).String()
}

func canonAddr(a net.Addr) string {
	switch x := a.(type) {
	case *net.UDPAddr:
		return fmt.Sprintf("%s.%d", canonIPStr(x.IP), x.Port)
	case *net.TCPAddr:
		return fmt.Sprintf("%s.%d", canonIPStr(x.IP), x.Port)
	}
	return "?"
}

func canonIPPort(ip net.IP, port int) string { return fmt.Sprintf("%s.%d", canonIPStr(ip), port) }

func tidOf(n int) (t [stun.TransactionIDSize]byte) {
	t[0] = 0x77
	binary.BigEndian.PutUint32(t[8:], uint32(n))
	return
}
func tidNum(t [stun.TransactionIDSize]byte) int { return int(binary.BigEndian.Uint32(t[8:])) }

// ---------- event recorder ----------

type evlog struct {
	mu sync.Mutex
	ev []string
}

func (e *evlog) add(f string, a ...any) {
	e.mu.Lock()
	e.ev = append(e.ev, fmt.Sprintf(f, a...))
	e.mu.Unlock()
}
func (e *evlog) take() []string {
	e.mu.Lock()
	defer e.mu.Unlock()
	r := e.ev
	e.ev = nil
	return r
}

// ---------- world ----------

type h2Listener struct {
	stream bool
	ip     net.IP
	unspec bool
	dialIP net.IP // stream listener on the wildcard address: the address clients connect to
	vetoed []net.IP
	vetoedFor [][2]net.IP // (client IP, peer IP): refused for that client only
	pc     *simPC
	ln     *simListener
}

type h2Client struct {
	w      *h2World
	lid    int
	addr   *net.UDPAddr // for packet listeners
	pc     *simPC
	taddr  *net.TCPAddr // for stream listeners
	conn   *simConn
	mu     sync.Mutex
	frames [][]byte // framed messages received on a stream control connection
	rawbuf []byte   // unframed bytes (data connection after ConnectionBind)
	eof    bool
	raw    bool // data connection switched to raw mode
	isData bool
}

type h2PeerConn struct {
	cid    int // canonical connection id (index)
	lid    int
	conn   *simConn // the peer's end
	peer   *net.TCPAddr
	mu     sync.Mutex
	buf    []byte
	eof    bool
	eofRep bool
	self   bool // closed by the peer itself
}

type h2World struct {
	dialDelay time.Duration // how long the relay's outbound dial (Connect) takes
	shortErr  bool          // relay sockets report a cut-short read as an error (transport-dependent)
	vt       *vhT
	n        *simNet
	srv      *Server
	ev       *evlog
	lis      []*h2Listener
	cfg      ServerConfig
	relayV4  net.IP
	relayV6  net.IP
	genFail  bool
	evenPort int
	oddProbes int      // how many of the next even-port probes get an odd port
	probes   []*simPC // every socket handed out to an even-port probe
	dialFail bool
	cidIndex map[uint32]int
	nextCid  int
	peerUDP  map[string]*simPC
	peerLis  map[string]*simListener
	pconns   []*h2PeerConn
	clients  map[string]*h2Client // key "lid addr"
	quotaAns bool
	realm    string
	pendDial []*h2PeerConn
	tokReal  []string
	plannedCid int
	relayOf  map[string]string
	onCid    func(idx int, key string, bound bool)
	relayMu   sync.Mutex   // guards relayOf
	permDelay atomic.Int64 // nanoseconds every PermissionHandler call takes
	authDelay atomic.Int64 // nanoseconds the AuthHandler takes for user bob
}

var h2Users = map[string]string{"alice": "pw-alice", "bob": "pw-bob"}

type h2Gen struct {
	w   *h2World
	lid int
}

func (g *h2Gen) Validate() error { return nil }
func (g *h2Gen) relayIP(network string) net.IP {
	if strings.HasSuffix(network, "6") {
		return g.w.relayV6
	}
	return g.w.relayV4
}
func (g *h2Gen) AllocatePacketConn(c AllocateListenerConfig) (net.PacketConn, net.Addr, error) {
	if c.UserID == "" && c.RequestedPort == 0 { // GetRandomEvenPort probe
		if g.w.evenPort == 0 {
			return nil, nil, fmt.Errorf("simgen: no port")
		}
		port := g.w.evenPort
		if g.w.oddProbes > 0 { // the first "any port" sockets land on odd ports: the search must close them and go on
			port = g.w.evenPort + 1 + 2*g.w.oddProbes
			g.w.oddProbes--
		}
		pc, err := g.w.n.listenUDP(g.relayIP(c.Network), port, true)
		if err != nil {
			return nil, nil, err
		}
		g.w.probes = append(g.w.probes, pc)
		return pc, pc.addr, nil
	}
	if g.w.genFail {
		return nil, nil, fmt.Errorf("simgen: failure injected")
	}
	pc, err := g.w.n.listenUDP(g.relayIP(c.Network), c.RequestedPort, false)
	if err != nil {
		return nil, nil, err
	}
	pc.shortErr = g.w.shortErr
	return pc, pc.addr, nil
}
func (g *h2Gen) AllocateListener(c AllocateListenerConfig) (net.Listener, net.Addr, error) {
	if g.w.genFail {
		return nil, nil, fmt.Errorf("simgen: failure injected")
	}
	l, err := g.w.n.listenTCP(g.relayIP(c.Network), c.RequestedPort, false)
	if err != nil {
		return nil, nil, err
	}
	return l, l.addr, nil
}
func (g *h2Gen) AllocateConn(c AllocateConnConfig) (net.Conn, error) {
	if g.w.dialDelay > 0 { // a peer that is slow to answer the TCP handshake
		time.Sleep(g.w.dialDelay)
	}
	if g.w.dialFail {
		return nil, fmt.Errorf("simgen: dial failure injected")
	}
	var la *net.TCPAddr
	switch x := c.LocalAddr.(type) {
	case *net.TCPAddr:
		la = x
	case *net.UDPAddr:
		la = &net.TCPAddr{IP: x.IP, Port: x.Port}
	}
	ra, _ := c.RemoteAddr.(*net.TCPAddr)
	ca, cb, err := g.w.n.dial(la, ra, "", "")
	if err != nil {
		return nil, err
	}
	// the peer's end was queued on the peer listener; the harness accepts it in collect()
	g.w.pendDial = append(g.w.pendDial, &h2PeerConn{lid: g.lid, conn: cb, peer: ra})
	return ca, nil
}

func newH2World(vt *vhT, cfg ServerConfig, lis []*h2Listener, withAuth bool, withQuota bool) *h2World {
	return newH2WorldWith(vt, cfg, lis, withAuth, withQuota, false)
}

// keepEH: use the EventHandler already present in cfg instead of the recorder
func newH2WorldWith(vt *vhT, cfg ServerConfig, lis []*h2Listener, withAuth bool, withQuota bool, keepEH bool) *h2World {
	w := &h2World{vt: vt, n: newSimNet(), ev: &evlog{}, lis: lis, relayV4: net.ParseIP("10.0.0.1").To4(),
		relayV6: net.ParseIP("fd00::1"), cidIndex: map[uint32]int{}, peerUDP: map[string]*simPC{},
		peerLis: map[string]*simListener{}, clients: map[string]*h2Client{}, relayOf: map[string]string{}, quotaAns: true, realm: "pion.ly"}
	lf := logging.NewDefaultLoggerFactory()
	lf.DefaultLogLevel = logging.LogLevelDisabled
	cfg.LoggerFactory = lf
	cfg.Realm = w.realm
	if withAuth {
		cfg.AuthHandler = func(ra *RequestAttributes) (string, []byte, bool) {
			if d := time.Duration(w.authDelay.Load()); d > 0 && ra.Username == "bob" {
				time.Sleep(d) // an auth handler that takes its time for one user (a lookup in a remote user store, say)
			}
			pw, ok := h2Users[ra.Username]
			if !ok {
				return "", nil, false
			}
			return ra.Username, GenerateAuthKey(ra.Username, ra.Realm, pw), true
		}
	}
	if withQuota {
		cfg.QuotaHandler = func(string, string, net.Addr) bool { return w.quotaAns }
	}
	key := func(s, d net.Addr) string {
		lid := -1
		for i, l := range w.lis {
			_, dTCP := d.(*net.TCPAddr)
			if l.stream == dTCP && canonAddr(w.lisAddr(i)) == canonAddr(d) {
				lid = i
			}
		}
		return fmt.Sprintf("%d %s", lid, canonAddr(s))
	}
	rec := EventHandler{
		OnAllocationCreated: func(s, d net.Addr, p, u, r string, relay net.Addr, port int) {
			// two stream clients are served by two goroutines: their callbacks may run at the same time
			w.relayMu.Lock()
			w.relayOf[key(s, d)] = canonAddr(relay)
			w.relayMu.Unlock()
			w.ev.add("alloc+ %s %s", key(s, d), canonAddr(relay))
		},
		OnAllocationDeleted: func(s, d net.Addr, p, u, r string) {
			w.relayMu.Lock()
			relay := w.relayOf[key(s, d)]
			w.relayMu.Unlock()
			w.ev.add("alloc- %s %s", key(s, d), relay)
		},
		OnPermissionCreated: func(s, d net.Addr, p, u, r string, relay net.Addr, peer net.IP) {
			w.ev.add("perm+ %s %s", key(s, d), canonIPStr(peer))
		},
		OnPermissionDeleted: func(s, d net.Addr, p, u, r string, relay net.Addr, peer net.IP) {
			w.ev.add("perm- %s %s", key(s, d), canonIPStr(peer))
		},
		OnChannelCreated: func(s, d net.Addr, p, u, r string, relay, peer net.Addr, n uint16) {
			w.ev.add("chan+ %s %d@%s", key(s, d), n, canonAddr(peer))
		},
		OnChannelDeleted: func(s, d net.Addr, p, u, r string, relay, peer net.Addr, n uint16) {
			w.ev.add("chan- %s %d@%s", key(s, d), n, canonAddr(peer))
		},
	}
	if !keepEH {
		cfg.EventHandler = rec
	}
	for i, l := range lis {
		lid := i
		l := l
		ph := func(client net.Addr, peerIP net.IP) bool {
			if d := time.Duration(w.permDelay.Load()); d > 0 {
				time.Sleep(d) // a permission handler that takes its time (a lookup in a remote policy store, say)
			}
			for _, v := range l.vetoed {
				if v.Equal(peerIP) {
					return false
				}
			}
			var cip net.IP
			switch a := client.(type) {
			case *net.UDPAddr:
				cip = a.IP
			case *net.TCPAddr:
				cip = a.IP
			}
			for _, v := range l.vetoedFor {
				if v[0].Equal(cip) && v[1].Equal(peerIP) {
					return false
				}
			}
			return true
		}
		bindIP := l.ip
		if l.stream {
			ln, err := w.n.listenTCP(bindIP, 3478, true)
			if err != nil {
				panic(err)
			}
			l.ln = ln
			cfg.ListenerConfigs = append(cfg.ListenerConfigs, ListenerConfig{Listener: ln, RelayAddressGenerator: &h2Gen{w, lid}, PermissionHandler: ph})
		} else {
			pc, err := w.n.listenUDP(bindIP, 3478, true)
			if err != nil {
				panic(err)
			}
			l.pc = pc
			cfg.PacketConnConfigs = append(cfg.PacketConnConfigs, PacketConnConfig{PacketConn: pc, RelayAddressGenerator: &h2Gen{w, lid}, PermissionHandler: ph})
		}
	}
	srv, err := NewServer(cfg)
	if err != nil {
		panic(err)
	}
	w.srv = srv
	w.cfg = cfg
	return w
}

// managers are created packet listeners first, then stream listeners
func (w *h2World) manager(lid int) *allocation.Manager {
	idx := 0
	for i, l := range w.lis {
		if l.stream {
			continue
		}
		if i == lid {
			return w.srv.allocationManagers[idx]
		}
		idx++
	}
	for i, l := range w.lis {
		if !l.stream {
			continue
		}
		if i == lid {
			return w.srv.allocationManagers[idx]
		}
		idx++
	}
	return nil
}

func (w *h2World) lisAddr(lid int) net.Addr {
	l := w.lis[lid]
	if l.stream {
		if l.dialIP != nil {
			return &net.TCPAddr{IP: l.dialIP, Port: l.ln.addr.Port}
		}
		return l.ln.addr
	}
	return l.pc.addr
}

// ---------- clients ----------

func (w *h2World) client(lid int, ip net.IP, port int) *h2Client {
	k := fmt.Sprintf("%d %s", lid, canonIPPort(ip, port))
	if c, ok := w.clients[k]; ok {
		return c
	}
	c := &h2Client{w: w, lid: lid}
	if w.lis[lid].stream {
		c.taddr = &net.TCPAddr{IP: ip, Port: port}
		ca, _, err := w.n.dial(c.taddr, w.lisAddr(lid).(*net.TCPAddr), "", "")
		if err != nil {
			return nil
		}
		c.conn = ca
		go c.readLoop()
	} else {
		pc, err := w.n.listenUDP(ip, port, true)
		if err != nil {
			panic(err)
		}
		c.addr = pc.addr
		c.pc = pc
	}
	w.clients[k] = c
	return c
}

func (c *h2Client) key() string {
	if c.conn != nil {
		return fmt.Sprintf("%d %s", c.lid, canonAddr(c.taddr))
	}
	return fmt.Sprintf("%d %s", c.lid, canonAddr(c.addr))
}

func (c *h2Client) srcAddr() net.Addr {
	if c.conn != nil {
		return c.taddr
	}
	return c.addr
}

func (c *h2Client) readLoop() {
	buf := make([]byte, 70000)
	for {
		n, err := c.conn.Read(buf)
		c.mu.Lock()
		if n > 0 {
			c.rawbuf = append(c.rawbuf, buf[:n]...)
		}
		if err != nil {
			c.eof = true
			c.mu.Unlock()
			return
		}
		c.mu.Unlock()
	}
}

// takeFrames splits what arrived on a stream control connection into TURN frames
func (c *h2Client) takeFrames() (frames [][]byte, raw []byte) {
	c.mu.Lock()
	defer c.mu.Unlock()
	for !c.raw {
		b := c.rawbuf
		if len(b) < 4 {
			break
		}
		var size int
		if proto.ChannelNumber(binary.BigEndian.Uint16(b[0:2])).Valid() {
			size = 4 + (int(binary.BigEndian.Uint16(b[2:4]))+3)/4*4
		} else {
			size = 20 + int(binary.BigEndian.Uint16(b[2:4]))
		}
		if len(b) < size {
			break
		}
		f := append([]byte{}, b[:size]...)
		frames = append(frames, f)
		c.rawbuf = b[size:]
		if c.isData { // a ConnectionBind success switches the data connection to raw mode
			m := &stun.Message{Raw: append([]byte{}, f...)}
			if m.Decode() == nil && m.Type.Method == stun.MethodConnectionBind && m.Type.Class == stun.ClassSuccessResponse {
				c.raw = true
			}
		}
	}
	if c.raw && len(c.rawbuf) > 0 {
		raw = c.rawbuf
		c.rawbuf = nil
	}
	return
}

func (c *h2Client) sendRaw(b []byte) {
	if c.conn != nil {
		_, _ = c.conn.Write(b)
		return
	}
	_, _ = c.pc.WriteTo(b, c.w.lis[c.lid].pc.addr)
}

func (c *h2Client) close() {
	if c.conn != nil {
		_ = c.conn.Close()
	} else {
		_ = c.pc.Close()
	}
	delete(c.w.clients, c.key())
}

// ---------- peers ----------

func (w *h2World) peerUDPSock(ip net.IP, port int) *simPC {
	k := canonIPPort(ip, port)
	if p, ok := w.peerUDP[k]; ok {
		return p
	}
	p, err := w.n.listenUDP(ip, port, true)
	if err != nil {
		panic(err)
	}
	w.peerUDP[k] = p
	return p
}

func (w *h2World) peerListener(ip net.IP, port int) *simListener {
	k := canonIPPort(ip, port)
	if p, ok := w.peerLis[k]; ok {
		return p
	}
	p, err := w.n.listenTCP(ip, port, true)
	if err != nil {
		panic(err)
	}
	w.peerLis[k] = p
	return p
}

func (pc *h2PeerConn) readLoop() {
	buf := make([]byte, 70000)
	for {
		n, err := pc.conn.Read(buf)
		pc.mu.Lock()
		if n > 0 {
			pc.buf = append(pc.buf, buf[:n]...)
		}
		if err != nil {
			pc.eof = true
			pc.mu.Unlock()
			return
		}
		pc.mu.Unlock()
	}
}

func (w *h2World) canonCid(real uint32) int {
	if i, ok := w.cidIndex[real]; ok {
		return i
	}
	i := w.nextCid
	w.nextCid++
	w.cidIndex[real] = i
	return i
}

// ---------- describing what a client received ----------

func (w *h2World) describeToClient(key string, b []byte) string {
	if proto.IsChannelData(b) {
		cd := proto.ChannelData{Raw: b}
		if err := cd.Decode(); err != nil {
			return "cdat-bad " + key
		}
		// C05/C11 monitor: padding must be zero and minimal
		want := 4 + (len(cd.Data)+3)/4*4
		if len(b) != want {
			w.vt.Alarm("chandata-padding", "frame of %d bytes for %d data bytes", len(b), len(cd.Data))
		}
		return fmt.Sprintf("cdat %s %d %s", key, uint16(cd.Number), vhHex(cd.Data))
	}
	m := &stun.Message{Raw: append([]byte{}, b...)}
	if err := m.Decode(); err != nil {
		if len(b) >= 4 { // frames that are neither (out-of-range channel numbers)
			l := int(binary.BigEndian.Uint16(b[2:4]))
			if 4+l <= len(b) {
				w.vt.Alarm("chandata-invalid-number-emitted", "server emitted ChannelData-like frame with number %d", binary.BigEndian.Uint16(b[0:2]))
				return fmt.Sprintf("cdat %s %d %s", key, binary.BigEndian.Uint16(b[0:2]), vhHex(b[4:4+l]))
			}
		}
		return "undecodable " + key
	}
	if m.Type.Class == stun.ClassIndication {
		var pa proto.PeerAddress
		_ = pa.GetFrom(m)
		if m.Type.Method == stun.MethodConnectionAttempt {
			var cid proto.ConnectionID
			_ = cid.GetFrom(m)
			if w.onCid != nil {
				w.onCid(w.canonCid(uint32(cid)), key, false)
			}
			return fmt.Sprintf("catt %s %s %d", key, canonIPPort(pa.IP, pa.Port), w.canonCid(uint32(cid)))
		}
		var d proto.Data
		_ = d.GetFrom(m)
		return fmt.Sprintf("dind %s %s %s", key, canonIPPort(pa.IP, pa.Port), vhHex(d))
	}
	cls, code := "ok", 0
	if m.Type.Class == stun.ClassErrorResponse {
		cls = "err"
		var ec stun.ErrorCodeAttribute
		_ = ec.GetFrom(m)
		code = int(ec.Code)
	}
	s := fmt.Sprintf("resp %s %s %s %d %d", key, m.Type.Method, cls, code, tidNum(m.TransactionID))
	var n stun.Nonce
	var rl stun.Realm
	if n.GetFrom(m) == nil && rl.GetFrom(m) == nil {
		s += " nonce"
	}
	var lt proto.Lifetime
	if lt.GetFrom(m) == nil {
		s += fmt.Sprintf(" lt=%d", int64(lt.Duration/time.Second))
	}
	var ra proto.RelayedAddress
	if ra.GetFrom(m) == nil {
		s += " relay=" + canonIPPort(ra.IP, ra.Port)
	}
	var xa stun.XORMappedAddress
	if xa.GetFrom(m) == nil {
		s += " mapped=" + canonIPPort(xa.IP, xa.Port)
	}
	var cid proto.ConnectionID
	if cid.GetFrom(m) == nil {
		s += fmt.Sprintf(" cid=%d", w.canonCid(uint32(cid)))
		if w.onCid != nil && cls == "ok" {
			w.onCid(w.canonCid(uint32(cid)), key, m.Type.Method == stun.MethodConnectionBind)
		}
	}
	var tok proto.ReservationToken
	if tok.GetFrom(m) == nil {
		s += " tok=" + w.canonTok(string(tok))
	}
	return s
}

func (w *h2World) canonTok(t string) string {
	for i, x := range w.tokReal {
		if x == t {
			return fmt.Sprintf("K%d", i)
		}
	}
	w.tokReal = append(w.tokReal, t)
	return fmt.Sprintf("K%d", len(w.tokReal)-1)
}

// collect gathers every observable effect since the last call, in canonical sorted form
func (w *h2World) collect() []string {
	synctest.Wait()
	var outs []string
	keys := make([]string, 0, len(w.clients))
	for k := range w.clients {
		keys = append(keys, k)
	}
	sort.Strings(keys)
	for _, k := range keys {
		c := w.clients[k]
		if c.pc != nil {
			for _, d := range c.pc.drain() {
				outs = append(outs, w.describeToClient(k, d.data))
				if canonAddr(d.from) != canonAddr(w.lis[c.lid].pc.addr) {
					w.vt.Alarm("response-wrong-source", "client %s got a datagram from %v", k, d.from)
				}
			}
			continue
		}
		frames, raw := c.takeFrames()
		for _, f := range frames {
			outs = append(outs, w.describeToClient(k, f))
		}
		if len(raw) > 0 {
			outs = append(outs, fmt.Sprintf("p2c %s %s", k, vhHex(raw)))
		}
		c.mu.Lock()
		eof := c.eof
		c.mu.Unlock()
		if eof {
			if c.isData && c.raw {
				outs = append(outs, "dclosed "+k)
			}
			delete(w.clients, k)
		}
	}
	// peers: datagrams
	pk := make([]string, 0, len(w.peerUDP))
	for k := range w.peerUDP {
		pk = append(pk, k)
	}
	sort.Strings(pk)
	for _, k := range pk {
		for _, d := range w.peerUDP[k].drain() {
			outs = append(outs, fmt.Sprintf("topeer %s %s %s", canonAddr(d.from), k, vhHex(d.data)))
		}
	}
	// peers: connections dialled by the server
	for _, pc := range w.pendDial {
		// remove from the listener's accept queue
		if l := w.peerLis[canonAddr(pc.peer)]; l != nil {
			select {
			case <-l.acc:
			default:
			}
		}
		pc.cid = w.plannedCid
		outs = append(outs, fmt.Sprintf("dial %s %s %d", canonAddr(pc.conn.ra), canonAddr(pc.peer), pc.cid))
		w.pconns = append(w.pconns, pc)
		go pc.readLoop()
	}
	w.pendDial = nil
	for _, pc := range w.pconns {
		pc.mu.Lock()
		if len(pc.buf) > 0 && pc.cid >= 0 {
			outs = append(outs, fmt.Sprintf("p2p %d %d %s", pc.lid, pc.cid, vhHex(pc.buf)))
			pc.buf = nil
		}
		if pc.eof && !pc.eofRep && pc.cid >= 0 && !pc.self {
			pc.eofRep = true
			outs = append(outs, fmt.Sprintf("cclosed %d %d %s", pc.lid, pc.cid, canonAddr(pc.peer)))
		}
		pc.mu.Unlock()
	}
	for _, e := range w.ev.take() {
		outs = append(outs, "ev "+e)
	}
	for _, e := range w.n.takeEvents() {
		f := strings.Fields(e) // "open udp 10.0.0.1:50001"
		if len(f) == 3 && (f[1] == "udp" || f[1] == "tcp") {
			if ua, err := net.ResolveUDPAddr("udp", f[2]); err == nil {
				e = f[0] + " " + f[1] + " " + canonAddr(ua)
			}
		}
		outs = append(outs, "net "+e)
	}
	sort.Strings(outs)
	return outs
}

func (w *h2World) stateLine(keys []h2Key) string {
	var rows []string
	total := 0
	for _, k := range keys {
		m := w.manager(k.lid)
		if m == nil {
			continue
		}
		a := m.GetAllocation(&allocation.FiveTuple{SrcAddr: k.addr, DstAddr: w.lisAddr(k.lid), Protocol: allocation.UDP})
		if a == nil {
			continue
		}
		total++
		var ps, cs []string
		for _, p := range a.ListPermissions() {
			if u, ok := p.Addr.(*net.UDPAddr); ok {
				ps = append(ps, canonIPStr(u.IP))
			}
		}
		for _, c := range a.ListChannelBindings() {
			cs = append(cs, fmt.Sprintf("%d@%s", uint16(c.Number), canonAddr(c.Peer)))
		}
		sort.Strings(ps)
		sort.Strings(cs)
		rows = append(rows, fmt.Sprintf("%d %s r=%s p=[%s] c=[%s]", k.lid, canonAddr(k.addr), canonAddr(a.RelayAddr),
			strings.Join(ps, ","), strings.Join(cs, ",")))
	}
	sort.Strings(rows)
	cnt := w.srv.AllocationCount()
	if cnt != total {
		w.vt.Alarm("allocation-count-mismatch", "AllocationCount()=%d but %d allocations found by 5-tuple", cnt, total)
	}
	s := fmt.Sprintf("n=%d", cnt)
	for _, r := range rows {
		s += " ; " + r
	}
	return s
}

type h2Key struct {
	lid  int
	addr net.Addr
}

func (w *h2World) shutdown() { w.shutdownWith(synctest.Wait) }

func (w *h2World) shutdownWith(settle func()) {
	_ = w.srv.Close()
	for _, c := range w.clients {
		if c.conn != nil {
			_ = c.conn.Close()
		} else {
			_ = c.pc.Close()
		}
	}
	for _, p := range w.peerUDP {
		_ = p.Close()
	}
	for _, p := range w.peerLis {
		_ = p.Close()
	}
	for _, pc := range w.pconns {
		_ = pc.conn.Close()
	}
	for _, pc := range w.pendDial {
		_ = pc.conn.Close()
	}
	settle()
}

func sortStrings(s []string) { sort.Strings(s) }

// sortedClients returns the clients in key order (deterministic iteration)
func (w *h2World) sortedClients() []*h2Client {
	cs := make([]*h2Client, 0, len(w.clients))
	for _, c := range w.clients {
		cs = append(cs, c)
	}
	sortClients(cs)
	return cs
}

func sortClients(cs []*h2Client) {
	sort.Slice(cs, func(i, j int) bool { return cs[i].key() < cs[j].key() })
}

// parseCanon turns "4.<n>.<port>" / "6.<n>.<port>" back into a UDP address
func parseCanon(s string) *net.UDPAddr {
	f := strings.Split(s, ".")
	n, _ := new(big.Int).SetString(f[1], 10)
	port := 0
	fmt.Sscan(f[2], &port)
	if f[0] == "4" {
		ip := make(net.IP, 4)
		binary.BigEndian.PutUint32(ip, uint32(n.Uint64()))
		return &net.UDPAddr{IP: ip, Port: port}
	}
	b := n.Bytes()
	ip := make(net.IP, 16)
	copy(ip[16-len(b):], b)
	return &net.UDPAddr{IP: ip, Port: port}
}
