//go:build verif

package turn

// simnet: in-memory datagram and stream network for the verification harnesses.
// Everything blocks on channels only (durably blocking for testing/synctest).

import (
	"errors"
	"io"
	"net"
	"sort"
	"sync"
	"time"
)

type simNet struct {
	mu        sync.Mutex
	udp       map[string]*simPC
	lis       map[string]*simListener
	conns     []*simConn
	nextPort  int
	udpOpen   map[string]int // ledger: address -> open count
	events    []string       // open/close log
	portPlan  []int          // ports handed out for RequestedPort == 0 (front first); empty = counter
	failBind  bool           // next bind fails
	dropWrite func(from, to net.Addr, b []byte) bool
	writeHook func(from, to net.Addr, b []byte) error // called for every datagram write; an error fails the write
}

func newSimNet() *simNet {
	return &simNet{udp: map[string]*simPC{}, lis: map[string]*simListener{}, nextPort: 50000, udpOpen: map[string]int{}}
}

func (n *simNet) logf(s string) { n.events = append(n.events, s) }

func (n *simNet) takeEvents() []string {
	n.mu.Lock()
	defer n.mu.Unlock()
	e := n.events
	n.events = nil
	return e
}

func (n *simNet) pickPort(req int) int {
	if req != 0 {
		return req
	}
	if len(n.portPlan) > 0 {
		p := n.portPlan[0]
		n.portPlan = n.portPlan[1:]
		return p
	}
	n.nextPort++
	return n.nextPort
}

// ---------------- datagram sockets ----------------

type dgram struct {
	from net.Addr
	data []byte
}

type simPC struct {
	n       *simNet
	addr    *net.UDPAddr
	ch      chan dgram
	closed  chan struct{}
	once    sync.Once
	readErr chan error // injected read error
	quiet   bool       // do not log open/close (client and peer sockets)
	closeErr bool      // Close releases the socket and then REPORTS an error (a wrapped or instrumented socket may)
	shortErr bool      // a datagram longer than the reader's buffer is cut AND reported as io.ErrShortBuffer (pion vnet; Windows: WSAEMSGSIZE)
}

func (n *simNet) listenUDP(ip net.IP, port int, quiet bool) (*simPC, error) {
	n.mu.Lock()
	defer n.mu.Unlock()
	if n.failBind {
		n.failBind = false
		return nil, errors.New("simnet: bind failed")
	}
	port = n.pickPort(port)
	a := &net.UDPAddr{IP: ip, Port: port}
	if _, ok := n.udp[a.String()]; ok {
		return nil, errors.New("simnet: address in use")
	}
	pc := &simPC{n: n, addr: a, ch: make(chan dgram, 8192), closed: make(chan struct{}), readErr: make(chan error, 1), quiet: quiet}
	n.udp[a.String()] = pc
	if !quiet {
		n.logf("open udp " + a.String())
	}
	return pc, nil
}

func (p *simPC) ReadFrom(b []byte) (int, net.Addr, error) {
	select {
	case d := <-p.ch:
		if p.shortErr && len(d.data) > len(b) {
			return copy(b, d.data), d.from, io.ErrShortBuffer
		}
		return copy(b, d.data), d.from, nil // truncates like the kernel does
	case err := <-p.readErr:
		return 0, nil, err
	case <-p.closed:
		return 0, nil, net.ErrClosed
	}
}

func (p *simPC) WriteTo(b []byte, to net.Addr) (int, error) {
	select {
	case <-p.closed:
		return 0, net.ErrClosed
	default:
	}
	ua, ok := to.(*net.UDPAddr)
	if !ok {
		return 0, errors.New("simnet: not a UDP address")
	}
	p.n.mu.Lock()
	dst := p.n.udp[ua.String()]
	drop := p.n.dropWrite
	hook := p.n.writeHook
	p.n.mu.Unlock()
	if hook != nil {
		if err := hook(p.addr, to, b); err != nil {
			return 0, err
		}
	}
	if drop != nil && drop(p.addr, to, b) {
		return len(b), nil
	}
	if dst != nil {
		select {
		case dst.ch <- dgram{from: p.addr, data: append([]byte{}, b...)}:
		default:
		}
	}
	return len(b), nil
}

func (p *simPC) Close() error {
	p.once.Do(func() {
		close(p.closed)
		p.n.mu.Lock()
		delete(p.n.udp, p.addr.String())
		if !p.quiet {
			p.n.logf("close udp " + p.addr.String())
		}
		p.n.mu.Unlock()
	})
	if p.closeErr {
		return errors.New("simnet: close reported an error")
	}
	return nil
}
func (p *simPC) LocalAddr() net.Addr              { return p.addr }
func (p *simPC) SetDeadline(time.Time) error      { return nil }
func (p *simPC) SetReadDeadline(time.Time) error  { return nil }
func (p *simPC) SetWriteDeadline(time.Time) error { return nil }

func (p *simPC) drain() []dgram {
	var r []dgram
	for {
		select {
		case d := <-p.ch:
			r = append(r, d)
		default:
			return r
		}
	}
}

// ---------------- stream sockets ----------------

type simListener struct {
	n      *simNet
	addr   *net.TCPAddr
	acc    chan net.Conn
	closed chan struct{}
	once   sync.Once
	accErr chan error
	quiet  bool
}

func (n *simNet) listenTCP(ip net.IP, port int, quiet bool) (*simListener, error) {
	n.mu.Lock()
	defer n.mu.Unlock()
	if n.failBind {
		n.failBind = false
		return nil, errors.New("simnet: bind failed")
	}
	port = n.pickPort(port)
	a := &net.TCPAddr{IP: ip, Port: port}
	if _, ok := n.lis[a.String()]; ok {
		return nil, errors.New("simnet: address in use")
	}
	l := &simListener{n: n, addr: a, acc: make(chan net.Conn, 256), closed: make(chan struct{}), accErr: make(chan error, 1), quiet: quiet}
	n.lis[a.String()] = l
	if !quiet {
		n.logf("open tcp " + a.String())
	}
	return l, nil
}

func (l *simListener) Accept() (net.Conn, error) {
	select {
	case c := <-l.acc:
		return c, nil
	case err := <-l.accErr:
		return nil, err
	case <-l.closed:
		return nil, net.ErrClosed
	}
}

func (l *simListener) Close() error {
	l.once.Do(func() {
		close(l.closed)
		l.n.mu.Lock()
		delete(l.n.lis, l.addr.String())
		if !l.quiet {
			l.n.logf("close tcp " + l.addr.String())
		}
		l.n.mu.Unlock()
	})
	return nil
}
func (l *simListener) Addr() net.Addr { return l.addr }

// one direction of a stream: chunks are delivered as written (segmentation is under the writer's control)
type simHalf struct {
	ch     chan []byte
	closed chan struct{}
	once   sync.Once
}

func newHalf() *simHalf { return &simHalf{ch: make(chan []byte, 8192), closed: make(chan struct{})} }
func (h *simHalf) close() { h.once.Do(func() { close(h.closed) }) }

type simConn struct {
	n        *simNet
	la, ra   *net.TCPAddr
	in, out  *simHalf
	rest     []byte
	closedMu sync.Mutex
	isClosed bool
	dl       chan struct{} // closed when a deadline in the past is set
	dlOnce   sync.Once
	wdl      time.Time // write deadline (zero = none); like a real socket it stays in force until it is changed
	failWrite error    // injected: every Write fails with this error (the other end reset the connection)
	tag      string
}

func (c *simConn) Read(p []byte) (int, error) {
	if len(c.rest) == 0 {
		select {
		case b := <-c.in.ch:
			c.rest = b
		default:
			select {
			case b := <-c.in.ch:
				c.rest = b
			case <-c.in.closed:
				// drain what was written before the close
				select {
				case b := <-c.in.ch:
					c.rest = b
				default:
					return 0, io.EOF
				}
			case <-c.out.closed:
				return 0, net.ErrClosed
			case <-c.dl:
				return 0, errors.New("simnet: i/o timeout")
			}
		}
	}
	n := copy(p, c.rest)
	c.rest = c.rest[n:]
	return n, nil
}

func (c *simConn) Write(p []byte) (int, error) {
	c.closedMu.Lock()
	wdl, fw := c.wdl, c.failWrite
	c.closedMu.Unlock()
	if fw != nil {
		return 0, fw
	}
	if !wdl.IsZero() && !time.Now().Before(wdl) {
		return 0, errors.New("simnet: write i/o timeout")
	}
	select {
	case <-c.out.closed:
		return 0, net.ErrClosed
	case <-c.in.closed:
		return 0, errors.New("simnet: broken pipe")
	default:
	}
	if len(p) == 0 {
		return 0, nil
	}
	select {
	case c.out.ch <- append([]byte{}, p...):
		return len(p), nil
	case <-c.out.closed:
		return 0, net.ErrClosed
	}
}

func (c *simConn) Close() error {
	c.closedMu.Lock()
	was := c.isClosed
	c.isClosed = true
	c.closedMu.Unlock()
	if !was {
		c.out.close()
		c.in.close()
		c.n.mu.Lock()
		if c.tag != "" {
			c.n.logf("close conn " + c.tag)
		}
		c.n.mu.Unlock()
	}
	return nil
}
// peerClosed: the other end has closed the connection (independent of deadlines and of what is still buffered)
func (c *simConn) peerClosed() bool {
	select {
	case <-c.in.closed:
		return true
	default:
		return false
	}
}

func (c *simConn) wasClosed() bool {
	c.closedMu.Lock()
	defer c.closedMu.Unlock()
	return c.isClosed
}
func (c *simConn) LocalAddr() net.Addr  { return c.la }
func (c *simConn) RemoteAddr() net.Addr { return c.ra }
func (c *simConn) SetDeadline(t time.Time) error {
	_ = c.SetWriteDeadline(t)
	if !t.IsZero() && !t.After(time.Now()) {
		c.dlOnce.Do(func() { close(c.dl) })
	}
	return nil
}
func (c *simConn) SetReadDeadline(t time.Time) error  { return c.SetDeadline(t) }
func (c *simConn) SetWriteDeadline(t time.Time) error {
	c.closedMu.Lock()
	c.wdl = t
	c.closedMu.Unlock()
	return nil
}

// dial connects la -> ra; returns the dialer's end. The listener's end is queued for Accept.
func (n *simNet) dial(la, ra *net.TCPAddr, tagLocal, tagRemote string) (*simConn, *simConn, error) {
	n.mu.Lock()
	l := n.lis[ra.String()]
	if l == nil { // a listener on the wildcard address accepts connections to every local address
		for _, wild := range []net.IP{net.IPv4zero.To4(), net.IPv6unspecified} {
			if x := n.lis[(&net.TCPAddr{IP: wild, Port: ra.Port}).String()]; x != nil && l == nil {
				l = x
			}
		}
	}
	if la.Port == 0 {
		n.nextPort++
		la = &net.TCPAddr{IP: la.IP, Port: n.nextPort}
	}
	n.mu.Unlock()
	if l == nil {
		return nil, nil, errors.New("simnet: connection refused")
	}
	ab, ba := newHalf(), newHalf()
	ca := &simConn{n: n, la: la, ra: ra, in: ba, out: ab, dl: make(chan struct{}), tag: tagLocal}
	cb := &simConn{n: n, la: ra, ra: la, in: ab, out: ba, dl: make(chan struct{}), tag: tagRemote}
	n.mu.Lock()
	n.conns = append(n.conns, ca, cb)
	n.mu.Unlock()
	select {
	case l.acc <- cb:
	case <-l.closed:
		return nil, nil, errors.New("simnet: connection refused")
	}
	return ca, cb, nil
}

func (n *simNet) openSockets() []string {
	n.mu.Lock()
	defer n.mu.Unlock()
	var r []string
	for k, p := range n.udp {
		if !p.quiet {
			r = append(r, "udp "+k)
		}
	}
	for k, l := range n.lis {
		if !l.quiet {
			r = append(r, "tcp "+k)
		}
	}
	sort.Strings(r)
	return r
}
