//go:build verif

package turn

// H11 phase "refresh-vs-expiry" (C06): a Refresh that reaches the server in the instant the allocation's lifetime runs out.
// The lifetime timer has fired and its callback waits for the manager's lock (another allocation is being deleted and a slow
// lifecycle callback runs under that lock); the Refresh waits for the same lock.  Whoever wins, the answer must be truthful:
// a Refresh success promises the allocation for LIFETIME more seconds.  Real time, real sockets.

import (
	"net"
	"time"

	"github.com/pion/logging"
	"github.com/pion/stun/v3"
	"github.com/pion/turn/v5/internal/proto"
)

func runH11RefreshVsExpiry(vt *vhT) {
	vt.OpSync("trace refresh-vs-expiry")
	defer func() { vt.Obs("ok"); vt.Flush() }()
	lf := logging.NewDefaultLoggerFactory()
	lf.DefaultLogLevel = logging.LogLevelDisabled
	pc, err := net.ListenPacket("udp4", "127.0.0.1:0")
	if err != nil {
		vt.Note("refresh-vs-expiry skipped: %v", err)

		return
	}
	srv, err := NewServer(ServerConfig{
		Realm: "pion.ly", LoggerFactory: lf,
		PacketConnConfigs: []PacketConnConfig{{PacketConn: pc,
			RelayAddressGenerator: &RelayAddressGeneratorStatic{RelayAddress: net.ParseIP("127.0.0.1"), Address: "127.0.0.1"}}},
		AuthHandler: func(ra *RequestAttributes) (string, []byte, bool) {
			pw, ok := h2Users[ra.Username]
			if !ok {
				return "", nil, false
			}

			return ra.Username, GenerateAuthKey(ra.Username, ra.Realm, pw), true
		},
		EventHandler: EventHandler{
			// runs with the allocation manager's lock held when an allocation ends
			OnPermissionDeleted: func(_, _ net.Addr, _, user, _ string, _ net.Addr, _ net.IP) {
				if user == "bob" {
					time.Sleep(700 * time.Millisecond)
				}
			},
		},
	})
	if err != nil {
		vt.Note("refresh-vs-expiry skipped: %v", err)

		return
	}
	defer srv.Close() //nolint:errcheck
	a, errA := newRealCli("XA", "alice", h2Users["alice"], pc.LocalAddr())
	b, errB := newRealCli("XB", "bob", h2Users["bob"], pc.LocalAddr())
	if errA != nil || errB != nil {
		vt.Note("refresh-vs-expiry skipped: %v %v", errA, errB)

		return
	}
	defer a.pc.Close() //nolint:errcheck
	defer b.pc.Close() //nolint:errcheck
	udp := proto.RequestedTransport{Protocol: proto.ProtoUDP}
	// learn realm and nonce first (401), so that the timed requests below are one datagram each
	if !okResp(a.do(stun.MethodAllocate, udp, proto.Lifetime{Duration: 10 * time.Minute})) || !okResp(a.do(stun.MethodRefresh, proto.Lifetime{})) ||
		!okResp(b.do(stun.MethodAllocate, udp, proto.Lifetime{Duration: 10 * time.Minute})) || !okResp(b.do(stun.MethodRefresh, proto.Lifetime{})) {
		vt.Alarm("h11-setup", "refresh-vs-expiry: warm-up Allocate/Refresh(0) failed")

		return
	}
	t0 := time.Now()
	// bob: 1 s, with one permission -> at t0+1.0 his expiry holds the manager's lock for 0.7 s
	if !okResp(b.do(stun.MethodAllocate, udp, proto.Lifetime{Duration: time.Second})) ||
		!okResp(b.do(stun.MethodCreatePermission, proto.PeerAddress{IP: net.IPv4(127, 0, 0, 1), Port: 9})) {
		vt.Alarm("h11-setup", "refresh-vs-expiry: bob's allocation")

		return
	}
	// alice: 1 s, allocated 0.3 s later -> her timer fires at t0+1.3 and its callback queues for the lock
	time.Sleep(time.Until(t0.Add(300 * time.Millisecond)))
	if !okResp(a.do(stun.MethodAllocate, udp, proto.Lifetime{Duration: time.Second})) {
		vt.Alarm("h11-setup", "refresh-vs-expiry: alice's allocation")

		return
	}
	tA := time.Now()
	// her Refresh arrives 0.15 s after her expiry, while the lock is still held
	time.Sleep(time.Until(tA.Add(1150 * time.Millisecond)))
	sentAt := time.Since(tA).Round(10 * time.Millisecond)
	r := a.do(stun.MethodRefresh, proto.Lifetime{Duration: 10 * time.Minute})
	if !okResp(r) {
		vt.Stat("h11.refresh-vs-expiry.refused-or-silent")

		return // the expiry won: nothing was promised
	}
	var lt proto.Lifetime
	_ = lt.GetFrom(r)
	vt.Stat("h11.refresh-vs-expiry.granted")
	// granted: the allocation must now live
	time.Sleep(300 * time.Millisecond)
	if again := a.do(stun.MethodRefresh, proto.Lifetime{Duration: 10 * time.Minute}); !okResp(again) {
		vt.Alarm("refresh-success-then-expired", "a Refresh sent %v after the allocation was made (lifetime 1 s, manager lock busy) was answered with success, LIFETIME %v; "+
			"0.3 s later the allocation is gone (AllocationCount=%d)", sentAt, lt.Duration, srv.AllocationCount())
	}
}
