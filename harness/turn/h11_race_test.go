//go:build verif

package turn

// H11 (run with -race): real goroutines, real loopback sockets, real time.  Supporting evidence for C18's
// "no data races" clause (the Lean lock skeletons cannot exhibit a race on unlocked data) and for C13's
// concurrent writers: several listeners sharing one server (nonce manager, handlers), raw clients hammering
// them in parallel while allocations expire, and a real turn.Client whose relayed socket is written to,
// read from, re-deadlined and closed from different goroutines.  The orchestrator turns a
// "WARNING: DATA RACE" report of the Go race detector into the failing input `data-race`.

import (
	"bytes"
	"fmt"
	"net"
	"sync"
	"sync/atomic"
	"testing"
	"time"

	"github.com/pion/logging"
	"github.com/pion/stun/v3"
	"github.com/pion/turn/v5/internal/proto"
)

func TestVerifH11(t *testing.T) {
	vt := vhOpen("h11")
	defer vt.Close()
	lf := logging.NewDefaultLoggerFactory()
	lf.DefaultLogLevel = logging.LogLevelDisabled
	var lis []net.PacketConn
	var cfgs []PacketConnConfig
	for i := 0; i < 3; i++ {
		pc, err := net.ListenPacket("udp4", "127.0.0.1:0")
		if err != nil {
			vt.Note("h11 skipped: %v", err)
			return
		}
		lis = append(lis, pc)
		cfgs = append(cfgs, PacketConnConfig{PacketConn: pc,
			RelayAddressGenerator: &RelayAddressGeneratorStatic{RelayAddress: net.ParseIP("127.0.0.1"), Address: "127.0.0.1"}})
	}
	var events atomic.Int64
	count := func() { events.Add(1) }
	srv, err := NewServer(ServerConfig{
		Realm: "pion.ly", LoggerFactory: lf, PacketConnConfigs: cfgs,
		ChannelBindTimeout: 300 * time.Millisecond, PermissionTimeout: 200 * time.Millisecond,
		AuthHandler: func(ra *RequestAttributes) (string, []byte, bool) {
			pw, ok := h2Users[ra.Username]
			if !ok {
				return "", nil, false
			}
			return ra.Username, GenerateAuthKey(ra.Username, ra.Realm, pw), true
		},
		EventHandler: EventHandler{
			OnAllocationCreated: func(net.Addr, net.Addr, string, string, string, net.Addr, int) { count() },
			OnAllocationDeleted: func(net.Addr, net.Addr, string, string, string) { count() },
			OnPermissionCreated: func(net.Addr, net.Addr, string, string, string, net.Addr, net.IP) { count() },
			OnPermissionDeleted: func(net.Addr, net.Addr, string, string, string, net.Addr, net.IP) { count() },
			OnChannelCreated:    func(net.Addr, net.Addr, string, string, string, net.Addr, net.Addr, uint16) { count() },
			OnChannelDeleted:    func(net.Addr, net.Addr, string, string, string, net.Addr, net.Addr, uint16) { count() },
		},
	})
	if err != nil {
		vt.Note("h11 skipped: %v", err)
		return
	}
	peer, err := net.ListenPacket("udp4", "127.0.0.1:0")
	if err != nil {
		vt.Note("h11 skipped: %v", err)
		return
	}
	peerAddr := peer.LocalAddr().(*net.UDPAddr) //nolint:forcetypeassert
	go func() { // echo peer
		buf := make([]byte, 2048)
		for {
			n, from, err := peer.ReadFrom(buf)
			if err != nil {
				return
			}
			_, _ = peer.WriteTo(buf[:n], from)
		}
	}()
	pa := proto.PeerAddress{IP: peerAddr.IP, Port: peerAddr.Port}

	// phase 1: raw clients on all listeners in parallel: allocate, permission, bind, refresh, data, expiry, delete
	vt.OpSync("trace race-server")
	var wg sync.WaitGroup
	var okOps atomic.Int64
	for i := 0; i < 6; i++ {
		wg.Add(1)
		go func(i int) {
			defer wg.Done()
			user := []string{"alice", "bob"}[i%2]
			c, err := newRealCli(fmt.Sprintf("R%d", i), user, h2Users[user], lis[i%len(lis)].LocalAddr())
			if err != nil {
				return
			}
			defer c.pc.Close() //nolint:errcheck
			end := time.Now().Add(1200 * time.Millisecond)
			for time.Now().Before(end) {
				if !okResp(c.do(stun.MethodAllocate, proto.RequestedTransport{Protocol: proto.ProtoUDP})) {
					continue
				}
				_ = c.do(stun.MethodCreatePermission, pa)
				_ = c.do(stun.MethodChannelBind, proto.ChannelNumber(0x4000+i), pa)
				for k := 0; k < 5; k++ {
					cd := proto.ChannelData{Number: proto.ChannelNumber(0x4000 + i), Data: []byte("x")}
					cd.Encode()
					_, _ = c.pc.WriteTo(cd.Raw, c.srv)
					_ = c.do(stun.MethodRefresh, proto.Lifetime{Duration: time.Duration(1+k) * time.Second})
					_ = c.do(stun.MethodChannelBind, proto.ChannelNumber(0x4000+i), pa)
					_ = srv.AllocationCount()
					time.Sleep(60 * time.Millisecond) // lets permissions / bindings expire in between
				}
				_ = c.do(stun.MethodRefresh, proto.Lifetime{})
				okOps.Add(1)
			}
		}(i)
	}
	wg.Wait()
	if okOps.Load() == 0 {
		vt.Alarm("h11-setup", "no raw client completed a cycle")
	}
	vt.Obs("ok")
	vt.Flush()

	// phase 1b: Refresh(0) and a new Allocate back to back on one 5-tuple: the goroutines of the allocation that has just been
	// deleted (relay reader, timers) must not take the new one down with them
	vt.OpSync("trace race-reallocate")
	if c, err := newRealCli("RR", "alice", h2Users["alice"], lis[1].LocalAddr()); err == nil {
		vanished, rounds := 0, 0
		build := func(method stun.Method, attrs ...stun.Setter) []byte {
			c.tid++
			st := []stun.Setter{stun.NewTransactionIDSetter(tidOf(c.tid)), stun.NewType(method, stun.ClassRequest)}
			st = append(st, attrs...)
			st = append(st, stun.NewUsername(c.user), stun.NewRealm(c.realm), stun.NewNonce(c.nonce),
				stun.MessageIntegrity(GenerateAuthKey(c.user, c.realm, c.pass)))
			m, _ := stun.Build(st...)
			return m.Raw
		}
		if okResp(c.do(stun.MethodAllocate, proto.RequestedTransport{Protocol: proto.ProtoUDP})) { // learns realm and nonce
			for i := 0; i < 300 && vanished < 3; i++ {
				// both datagrams are on the server's socket before the first is handled
				_, _ = c.pc.WriteTo(build(stun.MethodRefresh, proto.Lifetime{}), c.srv)
				_, _ = c.pc.WriteTo(build(stun.MethodAllocate, proto.RequestedTransport{Protocol: proto.ProtoUDP}), c.srv)
				got := 0
				okAlloc := false
				for got < 2 {
					select {
					case r := <-c.resp:
						got++
						if r.Type.Method == stun.MethodAllocate && r.Type.Class == stun.ClassSuccessResponse {
							okAlloc = true
						}
					case <-time.After(time.Second):
						got = 2
					}
				}
				if !okAlloc {
					_ = c.do(stun.MethodAllocate, proto.RequestedTransport{Protocol: proto.ProtoUDP})
					continue
				}
				rounds++
				time.Sleep(3 * time.Millisecond)
				if !okResp(c.do(stun.MethodRefresh, proto.Lifetime{Duration: 10 * time.Minute})) {
					vanished++
					_ = c.do(stun.MethodAllocate, proto.RequestedTransport{Protocol: proto.ProtoUDP})
				}
			}
		}
		if vanished > 0 {
			vt.Alarm("allocation-vanished-after-success", "%d of %d allocations made right after a Refresh(0) on the same 5-tuple were gone milliseconds after their success response", vanished, rounds)
		}
		_ = c.pc.Close()
	}
	vt.Obs("ok")
	vt.Flush()

	// phase 1c: a Refresh in the instant the lifetime runs out, with the manager's lock busy (h11_refresh_test.go)
	runH11RefreshVsExpiry(vt)

	// phase 2: a real turn.Client; its relayed socket is used from several goroutines at once
	vt.OpSync("trace race-client")
	cpc, err := net.ListenPacket("udp4", "127.0.0.1:0")
	if err == nil {
		srvAddr := lis[0].LocalAddr().String()
		cl, cerr := NewClient(&ClientConfig{STUNServerAddr: srvAddr, TURNServerAddr: srvAddr, Conn: cpc, Username: "alice",
			Password: h2Users["alice"], Realm: "pion.ly", LoggerFactory: lf})
		if cerr == nil && cl.Listen() == nil {
			relay, aerr := cl.Allocate()
			if aerr != nil {
				vt.Alarm("h11-setup", "Allocate: %v", aerr)
			} else {
				peers := []*net.UDPAddr{peerAddr}
				for i := 0; i < 2; i++ {
					p2, e := net.ListenPacket("udp4", "127.0.0.1:0")
					if e == nil {
						defer p2.Close() //nolint:errcheck
						peers = append(peers, p2.LocalAddr().(*net.UDPAddr)) //nolint:forcetypeassert
					}
				}
				// several goroutines write to a NEW peer at the same instant (the permission for its IP exists after the first
				// round): the peer must get one binding, not two - a second ChannelBind for it is refused by the server and
				// the client then closes its own allocation
				for round := 0; round < 60; round++ {
					np := &net.UDPAddr{IP: net.IPv4(127, 0, 0, 1), Port: 20000 + round}
					start := make(chan struct{})
					var fw sync.WaitGroup
					for g := 0; g < 4; g++ {
						fw.Add(1)
						go func() {
							defer fw.Done()
							<-start
							_, _ = relay.WriteTo([]byte("first"), np)
						}()
					}
					close(start)
					fw.Wait()
				}
				time.Sleep(300 * time.Millisecond)
				if _, werr := relay.WriteTo([]byte("still-open?"), peerAddr); werr != nil {
					vt.Alarm("concurrent-first-write-closes-allocation", "after concurrent first writes to new peers the relayed socket is unusable: %v", werr)
				}
				// first writes (permission + binding), then wait for the bindings to be confirmed
				for _, p := range peers {
					_, _ = relay.WriteTo([]byte("hello"), p)
				}
				time.Sleep(300 * time.Millisecond)
				var bad atomic.Int64
				var cw sync.WaitGroup
				stop := time.Now().Add(900 * time.Millisecond)
				for w := 0; w < 4; w++ {
					cw.Add(1)
					go func(w int) {
						defer cw.Done()
						payload := bytes.Repeat([]byte{byte('a' + w)}, 20+w)
						for time.Now().Before(stop) {
							if _, err := relay.WriteTo(payload, peers[w%len(peers)]); err != nil {
								return
							}
						}
					}(w)
				}
				cw.Add(1)
				go func() { // reader: echoes from the first peer must be one writer's payload, unmixed
					defer cw.Done()
					buf := make([]byte, 2048)
					for time.Now().Before(stop) {
						_ = relay.SetReadDeadline(time.Now().Add(50 * time.Millisecond))
						n, _, err := relay.ReadFrom(buf)
						if err != nil {
							continue
						}
						b := buf[:n]
						if len(b) < 20 { // echoes of the short set-up payloads ("hello", "still-open?", ...)
							continue
						}
						if len(b) > 23 || !bytes.Equal(b, bytes.Repeat([]byte{b[0]}, len(b))) || int(b[0]-'a') != len(b)-20 {
							bad.Add(1)
						}
					}
				}()
				cw.Wait()
				if bad.Load() > 0 {
					vt.Alarm("concurrent-writers-mixed", "%d relayed datagrams carried a mixture of two writers' payloads", bad.Load())
				}
				go func() { _, _ = relay.WriteTo([]byte("late"), peers[0]) }()
				_ = relay.Close()
			}
			cl.Close()
		}
		_ = cpc.Close()
	}
	vt.Obs("ok")
	_ = srv.Close()
	_ = peer.Close()
	vt.Stat("race.events")
	vt.Note("lifecycle events seen: %d", events.Load())
}
