//go:build verif

package turn

// H5 — the client's relayed socket (C13, C09 client side) against a scripted TURN server under virtual
// time: every server reaction to CreatePermission / ChannelBind (success, 400, 403, 438, silence), every
// kind of inbound message, bursts beyond the queue, read with nothing queued, Close.

import (
	"sync/atomic"
	"errors"
	"fmt"
	"net"
	"sort"
	"strings"
	"sync"
	"testing"
	"testing/synctest"
	"time"

	"github.com/pion/logging"
	"github.com/pion/stun/v3"
	"github.com/pion/turn/v5/internal/proto"
)

type h5World struct {
	vt     *vhT
	n      *simNet
	srv    *simPC
	other  *simPC
	cpc    *simPC
	c      *Client
	conn   net.PacketConn
	mu     sync.Mutex
	wire   []string
	permRx []string
	bindRx []string
	nonceN int
	born   time.Time
	seenTid map[[stun.TransactionIDSize]byte]bool
	byTid  map[[stun.TransactionIDSize]byte]string // a retransmission gets the reaction of its transaction
	lastFrom net.Addr // the address object the last successful ReadFrom handed to the application
}

func (w *h5World) add(s string) { w.mu.Lock(); w.wire = append(w.wire, s); w.mu.Unlock() }

func (w *h5World) takeWire() []string {
	w.mu.Lock()
	defer w.mu.Unlock()
	o := w.wire
	w.wire = nil
	return o
}

func (w *h5World) pop(q *[]string) string {
	w.mu.Lock()
	defer w.mu.Unlock()
	if len(*q) == 0 {
		return "ok"
	}
	r := (*q)[0]
	*q = (*q)[1:]
	return r
}

// the scripted TURN server
func (w *h5World) serve() {
	buf := make([]byte, 70000)
	for {
		n, from, err := w.srv.ReadFrom(buf)
		if err != nil {
			return
		}
		b := append([]byte{}, buf[:n]...)
		if !stun.IsMessage(b) {
			continue
		}
		m := &stun.Message{Raw: b}
		if m.Decode() != nil || m.Type.Class != stun.ClassRequest {
			continue
		}
		reply := func(setters ...stun.Setter) {
			s := append([]stun.Setter{stun.NewTransactionIDSetter(m.TransactionID)}, setters...)
			r, _ := stun.Build(s...)
			_, _ = w.srv.WriteTo(r.Raw, from)
		}
		react := func(meth stun.Method, rx string, okAttrs ...stun.Setter) {
			switch {
			case rx == "ok":
				reply(append([]stun.Setter{stun.NewType(meth, stun.ClassSuccessResponse)}, okAttrs...)...)
			case rx == "silent":
			case strings.HasPrefix(rx, "c"):
				code := 0
				fmt.Sscan(rx[1:], &code)
				attrs := []stun.Setter{stun.NewType(meth, stun.ClassErrorResponse), &stun.ErrorCodeAttribute{Code: stun.ErrorCode(code)}}
				if code == 438 {
					w.nonceN++
					attrs = append(attrs, stun.NewNonce(fmt.Sprintf("nonce%d", w.nonceN)), stun.NewRealm("pion.ly"))
				}
				reply(attrs...)
			}
		}
		switch m.Type.Method {
		case stun.MethodAllocate:
			if !m.Contains(stun.AttrMessageIntegrity) {
				reply(stun.NewType(stun.MethodAllocate, stun.ClassErrorResponse), &stun.ErrorCodeAttribute{Code: stun.CodeUnauthorized},
					stun.NewNonce("nonce0"), stun.NewRealm("pion.ly"))
			} else {
				reply(stun.NewType(stun.MethodAllocate, stun.ClassSuccessResponse), &proto.RelayedAddress{IP: net.IPv4(10, 0, 0, 1), Port: 50000},
					&proto.Lifetime{Duration: 1000000 * time.Second}, &stun.XORMappedAddress{IP: net.IPv4(10, 0, 0, 2), Port: 4000})
			}
		case stun.MethodCreatePermission:
			rx, seen := w.byTid[m.TransactionID] // (only the serve goroutine touches byTid)
			if !seen {
				rx = w.pop(&w.permRx)
				w.byTid[m.TransactionID] = rx
			}
			react(stun.MethodCreatePermission, rx)
		case stun.MethodChannelBind:
			rx, seen := w.byTid[m.TransactionID]
			if !seen {
				rx = w.pop(&w.bindRx)
				w.byTid[m.TransactionID] = rx
			}
			react(stun.MethodChannelBind, rx)
		case stun.MethodRefresh:
			react(stun.MethodRefresh, "ok", &proto.Lifetime{Duration: 1000000 * time.Second})
		}
	}
}

func newH5World(vt *vhT) *h5World {
	w := &h5World{vt: vt, n: newSimNet(), byTid: map[[stun.TransactionIDSize]byte]string{}, seenTid: map[[stun.TransactionIDSize]byte]bool{}}
	w.srv, _ = w.n.listenUDP(net.ParseIP("10.0.0.1").To4(), 3478, true)
	w.other, _ = w.n.listenUDP(net.ParseIP("10.0.0.66").To4(), 6666, true)
	w.cpc, _ = w.n.listenUDP(net.ParseIP("10.0.0.2").To4(), 4000, true)
	ready := false
	w.n.writeHook = func(from, to net.Addr, b []byte) error {
		if !ready || from.String() != w.cpc.addr.String() {
			return nil
		}
		if proto.IsChannelData(b) {
			cd := proto.ChannelData{Raw: append([]byte{}, b...)}
			if cd.Decode() == nil {
				w.add(fmt.Sprintf("cd %d %s", uint16(cd.Number), vhHex(cd.Data)))
				return nil
			}
		}
		m := &stun.Message{Raw: append([]byte{}, b...)}
		if m.Decode() != nil {
			w.add("undecodable")
			return nil
		}
		if m.Type.Class == stun.ClassRequest {
			w.mu.Lock()
			dup := w.seenTid[m.TransactionID]
			w.seenTid[m.TransactionID] = true
			w.mu.Unlock()
			if dup {
				return nil
			}
		}
		switch {
		case m.Type.Method == stun.MethodCreatePermission:
			var ps []string
			_ = m.ForEach(stun.AttrXORPeerAddress, func(mm *stun.Message) error {
				var pa proto.PeerAddress
				if pa.GetFrom(mm) == nil {
					ps = append(ps, canonIPPort(pa.IP, pa.Port))
				}
				return nil
			})
			w.add("cp " + strings.Join(ps, ","))
		case m.Type.Method == stun.MethodChannelBind:
			var pa proto.PeerAddress
			var cn proto.ChannelNumber
			_ = pa.GetFrom(m)
			_ = cn.GetFrom(m)
			w.add(fmt.Sprintf("cb %d %s", uint16(cn), canonIPPort(pa.IP, pa.Port)))
		case m.Type.Method == stun.MethodSend:
			var pa proto.PeerAddress
			var d proto.Data
			_ = pa.GetFrom(m)
			_ = d.GetFrom(m)
			w.add(fmt.Sprintf("si %s %s", canonIPPort(pa.IP, pa.Port), vhHex(d)))
		case m.Type.Method == stun.MethodRefresh:
			var lt proto.Lifetime
			_ = lt.GetFrom(m)
			w.add(fmt.Sprintf("rf %d", int64(lt.Duration/time.Second)))
		}
		return nil
	}
	go w.serve()
	lf := logging.NewDefaultLoggerFactory()
	lf.DefaultLogLevel = logging.LogLevelDisabled
	c, err := NewClient(&ClientConfig{STUNServerAddr: "10.0.0.1:3478", TURNServerAddr: "10.0.0.1:3478", Conn: w.cpc, LoggerFactory: lf,
		Username: "alice", Password: "pw", Realm: "pion.ly", PermissionRefreshInterval: 1000000 * time.Second})
	if err != nil {
		panic(err)
	}
	w.c = c
	if err := c.Listen(); err != nil {
		panic(err)
	}
	conn, err := c.Allocate()
	if err != nil {
		panic(err)
	}
	w.conn = conn
	w.born = time.Now()
	ready = true
	return w
}

func h5ErrKind(err error) string {
	var te *stun.TurnError
	switch {
	case err == nil:
		return ""
	case errors.As(err, &te):
		return fmt.Sprintf("turn%d", te.ErrorCodeAttr.Code)
	case strings.Contains(err.Error(), "closed"):
		return "closed"
	case strings.Contains(err.Error(), "retransmissions failed"):
		return "txnfailed"
	case strings.Contains(err.Error(), "try again"):
		return "tryagain"
	}
	return "other:" + err.Error()
}

func (w *h5World) obs(extra ...string) {
	synctest.Wait()
	outs := append(w.takeWire(), extra...)
	if len(outs) == 0 {
		w.vt.Obs("-")
		return
	}
	sort.Strings(outs)
	w.vt.Obs("%s", strings.Join(outs, " | "))
}

func (w *h5World) write(peer *net.UDPAddr, data []byte, permRx, bindRx []string) {
	rs := func(x []string) string {
		if len(x) == 0 {
			return "-"
		}
		return strings.Join(x, ",")
	}
	for _, r := range append(append([]string{}, permRx...), bindRx...) {
		if r == "silent" { // keep the 8 s this operation will take clear of the 30 s bindings timer
			if phase := int(time.Since(w.born)/time.Second) % 30; phase >= 19 {
				d := 31 - phase
				w.vt.OpSync("cadv %d", d)
				time.Sleep(time.Duration(d) * time.Second)
				w.obs()
			}
			break
		}
	}
	w.mu.Lock()
	w.permRx, w.bindRx = append([]string{}, permRx...), append([]string{}, bindRx...)
	w.mu.Unlock()
	w.vt.OpSync("cwrite %s %s perm=%s bind=%s", canonAddr(peer), vhHex(data), rs(permRx), rs(bindRx))
	var res string
	done := make(chan struct{})
	go func() {
		n, err := w.conn.WriteTo(data, peer)
		if err != nil {
			res = "werr " + h5ErrKind(err)
		} else {
			res = fmt.Sprintf("w %d", n)
		}
		close(done)
	}()
	synctest.Wait()
	slept := false
	select {
	case <-done:
	default:
		time.Sleep(8 * time.Second) // a silent server: the transaction gives up after 7.8 s
		slept = true
		<-done
	}
	hasSilent := false
	for _, r := range append(append([]string{}, permRx...), bindRx...) {
		if r == "silent" {
			hasSilent = true
		}
	}
	if hasSilent && !slept {
		time.Sleep(8 * time.Second) // the asynchronous ChannelBind is still retransmitting
		slept = true
	}
	w.obs(res)
	w.mu.Lock()
	w.permRx, w.bindRx = nil, nil // reactions not consumed by this operation do not carry over
	w.mu.Unlock()
	w.vt.Stat("cwrite." + strings.Fields(res)[0])
	if slept {
		w.vt.Op("cadv 8")
		w.obs()
	}
}

func (w *h5World) inbound(kind string, peer *net.UDPAddr, payload []byte, viaSocket bool) {
	var data []byte
	from := net.Addr(w.srv.addr)
	op := "cin " + kind
	switch kind {
	case "dind", "dind-other":
		m, _ := stun.Build(stun.TransactionID, stun.NewType(stun.MethodData, stun.ClassIndication), proto.PeerAddress{IP: peer.IP, Port: peer.Port}, proto.Data(payload))
		data = m.Raw
		op = fmt.Sprintf("cin %s %s %s", kind, canonAddr(peer), vhHex(payload))
		if kind == "dind-other" { // somebody who is not the TURN server sends "relayed" data straight to the client
			from = w.other.addr
		}
	case "cdat", "cdat-other":
		data = payload // raw ChannelData
		op = "cin " + kind + " " + vhHex(payload)
		if kind == "cdat-other" {
			from = w.other.addr
		}
	case "req":
		m, _ := stun.Build(stun.TransactionID, stun.BindingRequest)
		data = m.Raw
	case "bad":
		data = append([]byte{0, 1, 0, 8, 0x21, 0x12, 0xA4, 0x42}, w.vt.Bytes(12)...) // length field says 8, no body
	case "other":
		m, _ := stun.Build(stun.TransactionID, stun.BindingSuccess)
		data = m.Raw
	case "garbage-server":
		data = append([]byte{0x99, 0x01}, w.vt.Bytes(10)...)
	case "garbage-other":
		data = append([]byte{0x99, 0x01}, w.vt.Bytes(10)...)
		from = w.other.addr
	}
	if viaSocket {
		w.vt.OpSync("%s", strings.Replace(op, "cin ", "cnet ", 1))
		if from == net.Addr(w.other.addr) {
			_, _ = w.other.WriteTo(data, w.cpc.addr)
		} else {
			_, _ = w.srv.WriteTo(data, w.cpc.addr)
		}
		w.obs()
		return
	}
	w.vt.OpSync("%s", op)
	var handled bool
	var err error
	doneIn := make(chan struct{})
	go func() { handled, err = w.c.HandleInbound(data, from); close(doneIn) }()
	synctest.Wait()
	select {
	case <-doneIn:
		// the caller's buffer is reused for the next datagram as soon as the handler has returned (Client.Listen reads
		// every datagram into one buffer): whatever the client keeps of this message it must have copied
		for i := range data {
			data[i] = 0xEE
		}
	default:
		// the read loop's handler is blocked on this message: report it and release it by draining the queue
		w.vt.Obs("blocked")
		w.vt.Alarm("inbound-blocks", "HandleInbound blocked on %s", op)
		w.vt.Flush()
		buf := make([]byte, 70000)
		for i := 0; i < 2000; i++ {
			select {
			case <-doneIn:
				return
			default:
			}
			_ = w.conn.SetReadDeadline(time.Now().Add(time.Second))
			_, _, _ = w.conn.ReadFrom(buf) // make room: the queue is full
			synctest.Wait()
		}
		_ = w.conn.SetReadDeadline(time.Time{})
		return
	}
	res := ""
	switch {
	case err == nil && handled:
	case err == nil && !handled:
		res = "unhandled"
	case errors.Is(err, errFailedToDecodeSTUN):
		res = "inerr decode"
	case errors.Is(err, errUnexpectedSTUNRequestMessage):
		res = "inerr request"
	case errors.Is(err, errNonSTUNMessage):
		res = "inerr nonstun"
	case errors.Is(err, errChannelBindNotFound):
		res = "inerr nochannel"
	case strings.Contains(err.Error(), "not sent by the TURN server"):
		res = "inerr stranger"
	default:
		res = "inerr decode"
	}
	w.vt.Stat("cin." + kind)
	if res == "" {
		w.obs()
	} else {
		w.obs(res)
	}
}

// inboundQuiet hands the client a Data indication from the server without a transcript line (monitor-only scenarios)
func (w *h5World) inboundQuiet(peer *net.UDPAddr, payload []byte) {
	m, _ := stun.Build(stun.TransactionID, stun.NewType(stun.MethodData, stun.ClassIndication),
		proto.PeerAddress{IP: peer.IP, Port: peer.Port}, proto.Data(payload))
	_, _ = w.c.HandleInbound(m.Raw, w.srv.addr)
}

func (w *h5World) read() {
	w.vt.OpSync("cread")
	var res string
	done := make(chan struct{})
	go func() {
		buf := make([]byte, 70000)
		n, from, err := w.conn.ReadFrom(buf)
		switch {
		case err == nil:
			res = fmt.Sprintf("rd %s %s", canonAddr(from), vhHex(buf[:n]))
			w.lastFrom = from
		case strings.Contains(err.Error(), "closed"):
			res = "rderr closed"
		default:
			res = "rderr wouldblock"
		}
		close(done)
	}()
	synctest.Wait()
	select {
	case <-done:
	default: // nothing queued: release the reader through its deadline
		_ = w.conn.SetReadDeadline(time.Now())
		<-done
		_ = w.conn.SetReadDeadline(time.Time{})
	}
	w.vt.Stat("cread." + strings.Fields(res)[0])
	w.obs(res)
}

func (w *h5World) finish() {
	_ = w.conn.Close()
	w.c.Close()
	_ = w.cpc.Close()
	_ = w.srv.Close()
	_ = w.other.Close()
	synctest.Wait()
}

func TestVerifH5(t *testing.T) {
	vt := vhOpen("h5")
	defer vt.Close()
	vt.Watchdog(60 * time.Second)
	rng := vt.Rng
	peers := []*net.UDPAddr{{IP: net.ParseIP("10.0.0.9").To4(), Port: 9000}, {IP: net.ParseIP("10.0.0.9").To4(), Port: 9001},
		{IP: net.ParseIP("10.0.0.8").To4(), Port: 9000}, {IP: net.ParseIP("fd00::9"), Port: 9000}}
	rxAlpha := [][]string{nil, {"ok"}, {"c400"}, {"c403"}, {"c438"}, {"c438", "c438"}, {"c438", "c438", "c438"}, {"silent"}, {"c438", "c403"}, {"c508"}}
	nh := 120
	if vt.Thorough() {
		nh = 3000
	}
	// directed: the same ChannelBind failure twice in a row for one peer (first write, retry by the next write, retry
	// by the bindings timer), then ordinary writes: data must keep going by Send indication until a bind succeeds
	for _, f := range rxAlpha[2:] {
		for _, second := range [][]string{f, {"ok"}} {
			synctest.Test(t, func(t *testing.T) {
				w := newH5World(vt)
				vt.Op("cnew")
				vt.Obs("ok")
				p := peers[0]
				w.write(p, []byte{1}, nil, f)
				w.write(p, []byte{2}, nil, second)
				w.write(p, []byte{3}, nil, nil)
				vt.OpSync("cadv 31")
				time.Sleep(31 * time.Second)
				w.obs()
				w.write(p, []byte{4}, nil, f)
				w.write(p, []byte{5}, nil, nil)
				w.finish()
			})
		}
	}
	// directed: the application reuses ONE address variable for two peers (as callers of net.PacketConn may): the
	// binding of the first peer must keep naming the first peer
	synctest.Test(t, func(t *testing.T) {
		w := newH5World(vt)
		vt.Op("cnew")
		vt.Obs("ok")
		dst := &net.UDPAddr{IP: net.ParseIP("10.0.0.9").To4(), Port: 9000}
		w.write(dst, []byte{1}, nil, []string{"ok"})
		w.write(dst, []byte{2}, nil, nil)
		dst.Port = 9001 // same variable, another peer
		w.write(dst, []byte{3}, nil, []string{"ok"})
		cd := proto.ChannelData{Number: 0x4000, Data: []byte("from the first peer")}
		cd.Encode()
		w.inbound("cdat", nil, cd.Raw, false)
		w.read()
		dst.Port = 9000
		w.write(dst, []byte{4}, nil, nil)
		w.finish()
	})
	// directed: the application EDITS the address ReadFrom gave it (net.UDPConn hands out a fresh one per call, so that is
	// legal): the binding must keep naming its peer - for the next ReadFrom, for the next write and for the bind refresh
	synctest.Test(t, func(t *testing.T) {
		w := newH5World(vt)
		vt.Op("cnew")
		vt.Obs("ok")
		dst := &net.UDPAddr{IP: net.ParseIP("10.0.0.9").To4(), Port: 9000}
		w.write(dst, []byte{1}, nil, []string{"ok"})
		w.write(dst, []byte{2}, nil, nil)
		for i := 0; i < 2; i++ {
			cd := proto.ChannelData{Number: 0x4000, Data: []byte{0xa0, byte(i)}}
			cd.Encode()
			w.inbound("cdat", nil, cd.Raw, false)
			w.read()
			if u, ok := w.lastFrom.(*net.UDPAddr); ok {
				u.Port = 7777 // "answer on another port"
				u.IP = net.ParseIP("10.0.0.77").To4()
			}
		}
		w.inbound("dind", dst, []byte{0xb0}, false)
		w.read()
		if u, ok := w.lastFrom.(*net.UDPAddr); ok {
			u.Port = 7777
		}
		w.inbound("dind", dst, []byte{0xb1}, false)
		w.read()
		w.write(dst, []byte{3}, nil, nil)
		vt.OpSync("cadv 301") // past the binding's refresh interval: the ChannelBind refresh names the original peer
		time.Sleep(301 * time.Second)
		w.obs()
		w.write(dst, []byte{4}, nil, []string{"ok"})
		w.finish()
	})
	for h := 0; h < nh; h++ {
		synctest.Test(t, func(t *testing.T) {
			w := newH5World(vt)
			vt.Op("cnew")
			vt.Obs("ok")
			nops := 8 + rng.Intn(25)
			closed := false
			for i := 0; i < nops; i++ {
				switch r := rng.Intn(100); {
				case r < 40:
					p := peers[rng.Intn(len(peers))]
					prx, brx := rxAlpha[0], rxAlpha[0]
					if rng.Intn(3) == 0 {
						prx = rxAlpha[rng.Intn(len(rxAlpha))]
					}
					if rng.Intn(3) == 0 {
						brx = rxAlpha[rng.Intn(len(rxAlpha))]
					}
					w.write(p, vt.Bytes(rng.Intn(6)), prx, brx)
				case r < 50:
					p := peers[rng.Intn(len(peers))]
					pl := vt.Bytes(rng.Intn(24))
					if rng.Intn(3) == 0 && len(pl) >= 20 {
						copy(pl[4:], []byte{0x21, 0x12, 0xA4, 0x42}) // payload that looks like a STUN header
					}
					if rng.Intn(6) == 0 { // a Data indication that did not come from the TURN server
						w.inbound("dind-other", p, pl, rng.Intn(3) == 0)
					} else {
						w.inbound("dind", p, pl, false)
					}
				case r < 62:
					num := uint16(0x4000 + rng.Intn(5))
					pl := vt.Bytes(rng.Intn(24))
					if rng.Intn(2) == 0 {
						pl = append([]byte{0x21, 0x12, 0xA4, 0x42}, vt.Bytes(12+rng.Intn(8))...) // ChannelData payload starting with the magic cookie
					}
					cd := proto.ChannelData{Number: proto.ChannelNumber(num), Data: pl}
					cd.Encode()
					if rng.Intn(6) == 0 { // the same bytes, but not from the TURN server: never relayed data
						w.inbound("cdat-other", nil, cd.Raw, rng.Intn(3) == 0)
					} else {
						w.inbound("cdat", nil, cd.Raw, false)
					}
				case r < 70:
					kinds := []string{"req", "bad", "other", "garbage-server", "garbage-other"}
					w.inbound(kinds[rng.Intn(len(kinds))], nil, nil, rng.Intn(3) == 0)
				case r < 85:
					if !closed && w.c.relayedUDPConn() != nil { // after Close a read may return queued data or the closed error: not compared
						w.read()
					}
				case r < 96:
					dt := []int{1, 29, 31, 60, 299, 301, 400}[rng.Intn(7)]
					vt.OpSync("cadv %d", dt)
					time.Sleep(time.Duration(dt) * time.Second)
					w.obs()
				default:
					if !closed {
						vt.OpSync("cclose")
						_ = w.conn.Close()
						w.obs()
						closed = true
					}
				}
			}
			w.finish()
		})
	}
	// a burst larger than the read queue, with no reader: must not block, extra datagrams are dropped
	synctest.Test(t, func(t *testing.T) {
		w := newH5World(vt)
		vt.Op("cnew")
		vt.Obs("ok")
		for i := 0; i < 1100; i++ {
			w.inbound("dind", peers[i%2], []byte{byte(i), byte(i >> 8)}, i%50 == 0)
		}
		for i := 0; i < 1030; i++ {
			w.read()
		}
		w.finish()
	})
	// ConnectionAttempt indications beyond the accept queue (10) with nobody accepting: must not block
	synctest.Test(t, func(t *testing.T) {
		w := newH5World(vt)
		vt.Op("cnew")
		vt.Obs("ok")
		_ = w.conn.Close()
		synctest.Wait()
		w.takeWire()
		if _, err := w.c.AllocateTCP(); err != nil {
			vt.Alarm("h5-setup", "AllocateTCP: %v", err)
		}
		w.takeWire()
		for i := 0; i < 14; i++ {
			m, _ := stun.Build(stun.TransactionID, stun.NewType(stun.MethodConnectionAttempt, stun.ClassIndication),
				proto.PeerAddress{IP: net.IPv4(10, 0, 0, 9), Port: 9000 + i}, proto.ConnectionID(100+i))
			vt.OpSync("cin catt %d", i)
			done := make(chan struct{})
			go func() { _, _ = w.c.HandleInbound(m.Raw, w.srv.addr); close(done) }()
			synctest.Wait()
			select {
			case <-done:
				vt.Obs("-")
			default:
				vt.Obs("blocked")
				vt.Alarm("inbound-blocks", "HandleInbound blocked on ConnectionAttempt indication #%d (nobody is accepting)", i+1)
				// release it so that the bubble can end
				go func() {
					if a := w.c.getTCPAllocation(); a != nil {
						for {
							if _, err := a.AcceptTCPWithConn(nil); err != nil {
								return
							}
						}
					}
				}()
				i = 100
			}
		}
		if a := w.c.getTCPAllocation(); a != nil {
			// drain the queued attempts, then block in Accept with nothing queued: Close must release it
			for i := 0; i < 10; i++ { // the queue holds 10 of the 14 attempts; a nil conn consumes one and fails the cast
				_, _ = a.AcceptTCPWithConn(nil)
			}
			// the accept deadline is sticky and releases every blocked Accept
			_ = a.SetDeadline(time.Now().Add(time.Second))
			acc := make(chan error, 2)
			for i := 0; i < 2; i++ {
				go func() {
					_, err := a.AcceptTCPWithConn(nil)
					acc <- err
				}()
			}
			time.Sleep(2 * time.Second)
			synctest.Wait()
			if len(acc) != 2 {
				vt.Alarm("accept-deadline-not-sticky", "two Accept calls were blocked when the accept deadline passed: %d returned", len(acc))
				_ = a.SetDeadline(time.Now())
				synctest.Wait()
			}
			third := make(chan error, 1)
			go func() { _, err := a.AcceptTCPWithConn(nil); third <- err }()
			synctest.Wait()
			select {
			case <-third:
			default:
				vt.Alarm("accept-deadline-not-sticky", "an Accept after the accept deadline had passed blocks instead of timing out")
				_ = a.SetDeadline(time.Now())
				synctest.Wait()
			}
			_ = a.SetDeadline(time.Time{})
			released := make(chan error, 1)
			go func() {
				_, err := a.AcceptTCPWithConn(nil)
				released <- err
			}()
			synctest.Wait()
			// a connection attempt is queued when the allocation is closed: a closed listener fails every Accept
			qm, _ := stun.Build(stun.TransactionID, stun.NewType(stun.MethodConnectionAttempt, stun.ClassIndication),
				proto.PeerAddress{IP: net.IPv4(10, 0, 0, 9), Port: 9100}, proto.ConnectionID(777))
			_ = a.Close()
			synctest.Wait()
			select {
			case <-released:
			default:
				vt.Alarm("accept-blocked-after-close", "an Accept blocked on the TCP allocation is still blocked after Close returned")
				_ = a.SetDeadline(time.Now()) // release it so that the bubble can end
				synctest.Wait()
			}
			for i := 0; i < 8; i++ {
				a.HandleConnectionAttempt(&net.TCPAddr{IP: net.IPv4(10, 0, 0, 9), Port: 9100 + i}, proto.ConnectionID(777+i))
			}
			_ = qm
			okAfterClose := 0
			for i := 0; i < 8; i++ {
				if _, err := a.AcceptTCPWithConn(nil); err == nil || !strings.Contains(err.Error(), "closed") {
					okAfterClose++
				}
			}
			if okAfterClose > 0 {
				vt.Alarm("accept-blocked-after-close", "%d of 8 Accept calls on the CLOSED TCP allocation consumed a queued connection attempt instead of failing with the closed error", okAfterClose)
			}
		}
		w.c.Close()
		w.cpc.Close()
		w.srv.Close()
		w.other.Close()
		synctest.Wait()
	})
	// a server that grants extreme lifetimes (0 s, 1 s, 2^32-1 s): the client must not turn a response into a busy loop
	// (C09: no input makes an endpoint spin) - at most a few refreshes per second of virtual time
	for _, lt := range []time.Duration{0, time.Second, 4294967295 * time.Second} {
		synctest.Test(t, func(t *testing.T) {
			vt.OpSync("trace allocate-lifetime-%d", int64(lt/time.Second))
			n := newSimNet()
			srv, _ := n.listenUDP(net.ParseIP("10.0.0.1").To4(), 3478, true)
			cpc, _ := n.listenUDP(net.ParseIP("10.0.0.2").To4(), 4000, true)
			var refreshes atomic.Int64
			go func() {
				buf := make([]byte, 4096)
				for {
					k, from, err := srv.ReadFrom(buf)
					if err != nil {
						return
					}
					m := &stun.Message{Raw: append([]byte{}, buf[:k]...)}
					if m.Decode() != nil || m.Type.Class != stun.ClassRequest {
						continue
					}
					tid := stun.NewTransactionIDSetter(m.TransactionID)
					var r *stun.Message
					switch {
					case m.Type.Method == stun.MethodAllocate && !m.Contains(stun.AttrMessageIntegrity):
						r, _ = stun.Build(tid, stun.NewType(stun.MethodAllocate, stun.ClassErrorResponse), &stun.ErrorCodeAttribute{Code: stun.CodeUnauthorized},
							stun.NewNonce("nonce0"), stun.NewRealm("pion.ly"))
					case m.Type.Method == stun.MethodAllocate:
						r, _ = stun.Build(tid, stun.NewType(stun.MethodAllocate, stun.ClassSuccessResponse), &proto.RelayedAddress{IP: net.IPv4(10, 0, 0, 1), Port: 50000},
							&proto.Lifetime{Duration: lt}, &stun.XORMappedAddress{IP: net.IPv4(10, 0, 0, 2), Port: 4000})
					case m.Type.Method == stun.MethodRefresh:
						if refreshes.Add(1) > 300 { // spinning: stop answering so that virtual time can move on
							continue
						}
						r, _ = stun.Build(tid, stun.NewType(stun.MethodRefresh, stun.ClassSuccessResponse), &proto.Lifetime{Duration: lt})
					default:
						continue
					}
					_, _ = srv.WriteTo(r.Raw, from)
				}
			}()
			lf := logging.NewDefaultLoggerFactory()
			lf.DefaultLogLevel = logging.LogLevelDisabled
			c, err := NewClient(&ClientConfig{STUNServerAddr: "10.0.0.1:3478", TURNServerAddr: "10.0.0.1:3478", Conn: cpc, LoggerFactory: lf,
				Username: "alice", Password: "pw", Realm: "pion.ly"})
			if err != nil || c.Listen() != nil {
				vt.Alarm("h5-setup", "client for the lifetime scenario: %v", err)
				vt.Obs("ok")
				return
			}
			conn, aerr := c.Allocate()
			time.Sleep(10 * time.Second)
			if k := refreshes.Load(); k > 40 {
				vt.Alarm("client-spins", "after an Allocate success response with LIFETIME=%d s (Allocate err=%v) the client sent %d Refresh requests in 10 s", int64(lt/time.Second), aerr, k)
			}
			if conn != nil {
				_ = conn.Close()
			}
			c.Close()
			_ = cpc.Close()
			_ = srv.Close()
			synctest.Wait()
			vt.Obs("ok")
		})
		vt.Flush()
	}
	// over a stream the TURN server is whoever is at the other end of the connection: its address need not be the one the
	// client resolved from TURNServerAddr (another record of the server's name, a forwarder) - relayed data must still arrive
	synctest.Test(t, func(t *testing.T) {
		vt.OpSync("trace stream-other-record")
		n := newSimNet()
		sl, lerr := n.listenTCP(net.ParseIP("10.0.0.1").To4(), 3478, true)
		if lerr != nil {
			vt.Alarm("h5-setup", "stream listen: %v", lerr)
			vt.Obs("ok")
			return
		}
		defer sl.Close() //nolint:errcheck
		cl, sv, err := n.dial(&net.TCPAddr{IP: net.ParseIP("10.0.0.2").To4(), Port: 5001}, &net.TCPAddr{IP: net.ParseIP("10.0.0.1").To4(), Port: 3478}, "c", "s")
		if err != nil {
			vt.Alarm("h5-setup", "stream dial: %v", err)
			vt.Obs("ok")
			return
		}
		go func() { // scripted server: 401, then Allocate success followed by a Data indication from a peer
			sc := NewSTUNConn(sv)
			buf := make([]byte, 4096)
			for {
				k, _, rerr := sc.ReadFrom(buf)
				if rerr != nil {
					return
				}
				m := &stun.Message{Raw: append([]byte{}, buf[:k]...)}
				if m.Decode() != nil || m.Type.Class != stun.ClassRequest {
					continue
				}
				tid := stun.NewTransactionIDSetter(m.TransactionID)
				switch {
				case m.Type.Method == stun.MethodAllocate && !m.Contains(stun.AttrMessageIntegrity):
					r, _ := stun.Build(tid, stun.NewType(stun.MethodAllocate, stun.ClassErrorResponse), &stun.ErrorCodeAttribute{Code: stun.CodeUnauthorized},
						stun.NewNonce("nonce0"), stun.NewRealm("pion.ly"))
					_, _ = sv.Write(r.Raw)
				case m.Type.Method == stun.MethodAllocate:
					r, _ := stun.Build(tid, stun.NewType(stun.MethodAllocate, stun.ClassSuccessResponse), &proto.RelayedAddress{IP: net.IPv4(10, 0, 0, 1), Port: 50000},
						&proto.Lifetime{Duration: 600 * time.Second}, &stun.XORMappedAddress{IP: net.IPv4(10, 0, 0, 2), Port: 5001})
					_, _ = sv.Write(r.Raw)
				case m.Type.Method == stun.MethodCreatePermission:
					r, _ := stun.Build(tid, stun.NewType(stun.MethodCreatePermission, stun.ClassSuccessResponse))
					_, _ = sv.Write(r.Raw)
					d, _ := stun.Build(stun.TransactionID, stun.NewType(stun.MethodData, stun.ClassIndication),
						proto.PeerAddress{IP: net.IPv4(10, 0, 0, 9), Port: 9000}, proto.Data("relayed over the stream"))
					_, _ = sv.Write(d.Raw)
				case m.Type.Method == stun.MethodChannelBind:
					r, _ := stun.Build(tid, stun.NewType(stun.MethodChannelBind, stun.ClassSuccessResponse))
					_, _ = sv.Write(r.Raw)
				case m.Type.Method == stun.MethodRefresh:
					r, _ := stun.Build(tid, stun.NewType(stun.MethodRefresh, stun.ClassSuccessResponse), &proto.Lifetime{Duration: 600 * time.Second})
					_, _ = sv.Write(r.Raw)
				}
			}
		}()
		lf := logging.NewDefaultLoggerFactory()
		lf.DefaultLogLevel = logging.LogLevelDisabled
		// the name "turn.example" has two records, 10.0.0.77 and 10.0.0.1: the client resolved the first, the application dialled the second
		c, cerr := NewClient(&ClientConfig{STUNServerAddr: "10.0.0.77:3478", TURNServerAddr: "10.0.0.77:3478", Conn: NewSTUNConn(cl), LoggerFactory: lf,
			Username: "alice", Password: "pw", Realm: "pion.ly"})
		if cerr != nil || c.Listen() != nil {
			vt.Alarm("h5-setup", "client over a stream (other record): %v", cerr)
			vt.Obs("ok")
			return
		}
		relay, aerr := c.Allocate()
		if aerr != nil {
			vt.Alarm("h5-setup", "Allocate over a stream (other record): %v", aerr)
		} else {
			_, _ = relay.WriteTo([]byte("hi"), &net.UDPAddr{IP: net.IPv4(10, 0, 0, 9), Port: 9000}) // CreatePermission: the server answers and relays
			_ = relay.SetReadDeadline(time.Now().Add(5 * time.Second))
			buf := make([]byte, 256)
			k, from, rerr := relay.ReadFrom(buf)
			if rerr != nil || string(buf[:k]) != "relayed over the stream" {
				vt.Alarm("stream-other-record", "the TURN server relayed a datagram over the stream connection, ReadFrom gave %q from %v err=%v", buf[:k], from, rerr)
			}
			_ = relay.Close()
		}
		c.Close()
		_ = cl.Close()
		_ = sv.Close()
		synctest.Wait()
		vt.Obs("ok")
	})
	vt.Flush()
	// read deadlines (net.PacketConn): once the deadline has passed EVERY ReadFrom fails with a timeout until the
	// deadline is moved - not only the call that was blocked when it expired
	synctest.Test(t, func(t *testing.T) {
		w := newH5World(vt)
		vt.Op("cnew")
		vt.Obs("ok")
		readOnce := func() (string, bool) {
			res := make(chan string, 1)
			go func() {
				buf := make([]byte, 2048)
				_, _, err := w.conn.ReadFrom(buf)
				switch {
				case err == nil:
					res <- "data"
				case strings.Contains(err.Error(), "timeout"):
					res <- "timeout"
				default:
					res <- "err " + err.Error()
				}
			}()
			synctest.Wait()
			select {
			case r := <-res:
				return r, true
			default:
				return "", false
			}
		}
		_ = w.conn.SetReadDeadline(time.Now().Add(time.Second))
		time.Sleep(1500 * time.Millisecond)
		for i := 1; i <= 3; i++ {
			r, done := readOnce()
			if !done {
				vt.Alarm("read-deadline-not-sticky", "ReadFrom #%d after the read deadline expired blocks instead of timing out", i)
				_ = w.conn.SetReadDeadline(time.Now()) // release the reader
				synctest.Wait()
				break
			}
			if r != "timeout" {
				vt.Alarm("read-deadline-not-sticky", "ReadFrom #%d after the read deadline expired returned %q", i, r)
			}
		}
		// a deadline set in the past fails at once, a cleared one lets queued data through
		_ = w.conn.SetReadDeadline(time.Now().Add(-time.Second))
		if r, done := readOnce(); !done || r != "timeout" {
			vt.Alarm("read-deadline-not-sticky", "ReadFrom with a deadline in the past: %q done=%v", r, done)
			_ = w.conn.SetReadDeadline(time.Now())
			synctest.Wait()
		}
		// two readers blocked when the deadline passes: both must be released
		_ = w.conn.SetReadDeadline(time.Now().Add(time.Second))
		two := make(chan string, 2)
		for i := 0; i < 2; i++ {
			go func() {
				buf := make([]byte, 2048)
				_, _, err := w.conn.ReadFrom(buf)
				if err != nil && strings.Contains(err.Error(), "timeout") {
					two <- "timeout"
				} else {
					two <- fmt.Sprintf("other %v", err)
				}
			}()
		}
		time.Sleep(2 * time.Second)
		synctest.Wait()
		if len(two) != 2 {
			vt.Alarm("read-deadline-not-sticky", "two ReadFrom calls were blocked when the deadline passed: %d of them returned", len(two))
			_ = w.conn.SetReadDeadline(time.Now())
			synctest.Wait()
		}
		// extreme deadlines: far in the future = effectively none (queued data is readable), the Unix epoch = long past
		_ = w.conn.SetReadDeadline(time.Date(2300, 1, 1, 0, 0, 0, 0, time.UTC))
		w.inboundQuiet(&net.UDPAddr{IP: net.IPv4(10, 0, 0, 9), Port: 9000}, []byte("queued"))
		if r, done := readOnce(); !done || r != "data" {
			vt.Alarm("read-deadline-not-sticky", "a read deadline in the year 2300 with a datagram queued: ReadFrom gave %q (done=%v)", r, done)
		}
		_ = w.conn.SetReadDeadline(time.Unix(0, 0))
		for i := 1; i <= 2; i++ {
			if r, done := readOnce(); !done || r != "timeout" {
				vt.Alarm("read-deadline-not-sticky", "read deadline = Unix epoch: ReadFrom #%d gave %q (done=%v)", i, r, done)
				_ = w.conn.SetReadDeadline(time.Now())
				synctest.Wait()
				break
			}
		}
		// a closed socket reports the close, also when its read deadline has passed
		_ = w.conn.SetReadDeadline(time.Now().Add(-time.Second))
		_ = w.conn.Close()
		synctest.Wait()
		{
			buf := make([]byte, 64)
			_, _, err := w.conn.ReadFrom(buf)
			if err == nil || !strings.Contains(err.Error(), "closed") {
				vt.Alarm("read-deadline-not-sticky", "ReadFrom on a CLOSED socket whose read deadline has passed returned %v, want the closed error", err)
			}
		}
		vt.Stat("deadline.scenarios")
		w.finish()
	})
	// the client's read loop over a stream transport (proto.STUNConn): frames of every extreme size from the server,
	// each followed by a liveness probe (a Binding transaction must still complete)
	synctest.Test(t, func(t *testing.T) {
		n := newSimNet()
		sl, lerr := n.listenTCP(net.ParseIP("10.0.0.1").To4(), 3478, true)
		if lerr != nil {
			vt.Alarm("h5-setup", "stream listen: %v", lerr)
			return
		}
		defer sl.Close() //nolint:errcheck
		cl, sv, err := n.dial(&net.TCPAddr{IP: net.ParseIP("10.0.0.2").To4(), Port: 5000}, &net.TCPAddr{IP: net.ParseIP("10.0.0.1").To4(), Port: 3478}, "c", "s")
		if err != nil {
			vt.Alarm("h5-setup", "stream dial: %v", err)
			return
		}
		lf := logging.NewDefaultLoggerFactory()
		lf.DefaultLogLevel = logging.LogLevelDisabled
		c, err := NewClient(&ClientConfig{STUNServerAddr: "10.0.0.1:3478", TURNServerAddr: "10.0.0.1:3478", Conn: NewSTUNConn(cl), LoggerFactory: lf,
			Username: "alice", Password: "pw", Realm: "pion.ly"})
		if err != nil {
			vt.Alarm("h5-setup", "NewClient over a stream: %v", err)
			return
		}
		if err := c.Listen(); err != nil {
			vt.Alarm("h5-setup", "Listen: %v", err)
			return
		}
		// the server end: answers every Binding request
		go func() {
			sc := NewSTUNConn(sv)
			buf := make([]byte, 70000)
			for {
				k, _, err := sc.ReadFrom(buf)
				if err != nil {
					return
				}
				m := &stun.Message{Raw: append([]byte{}, buf[:k]...)}
				if m.Decode() != nil || m.Type != stun.BindingRequest {
					continue
				}
				r, _ := stun.Build(stun.NewTransactionIDSetter(m.TransactionID), stun.BindingSuccess,
					&stun.XORMappedAddress{IP: net.ParseIP("10.0.0.2").To4(), Port: 5000})
				_, _ = sv.Write(r.Raw)
			}
		}()
		frame := func(hdr []byte, total int) []byte {
			b := make([]byte, total)
			copy(b, hdr)
			return b
		}
		stunHdr := func(l int) []byte {
			return []byte{0x01, 0x01, byte(l >> 8), byte(l), 0x21, 0x12, 0xA4, 0x42, 1, 2, 3, 4, 5, 6, 7, 8, 9, 10, 11, 12}
		}
		var cases []struct {
			name string
			raw  []byte
		}
		for _, l := range []int{0, 1, 4, 1500, 0x7FFF, 0xFFEC, 0xFFF8, 0xFFFB, 0xFFFC, 0xFFFD, 0xFFFE, 0xFFFF} {
			padded := (l + 3) / 4 * 4
			cases = append(cases, struct {
				name string
				raw  []byte
			}{fmt.Sprintf("chandata-%d", l), frame([]byte{0x40, 0x00, byte(l >> 8), byte(l)}, 4+padded)})
		}
		for _, l := range []int{0, 4, 1500, 0xFFEC, 0xFFF8, 0xFFFC} {
			cases = append(cases, struct {
				name string
				raw  []byte
			}{fmt.Sprintf("stun-%d", l), frame(stunHdr(l), 20+l)})
		}
		for _, cs := range cases {
			vt.OpSync("trace listen-stream-%s", cs.name)
			_, _ = sv.Write(cs.raw)
			synctest.Wait()
			done := make(chan error, 1)
			go func() {
				_, err := c.SendBindingRequest()
				done <- err
			}()
			select {
			case err := <-done:
				if err != nil {
					vt.Obs("dead %v", err)
				} else {
					vt.Obs("ok")
				}
			case <-time.After(30 * time.Second):
				vt.Obs("dead no-answer")
			}
			vt.Flush()
		}
		c.Close()
		_ = cl.Close()
		_ = sv.Close()
		synctest.Wait()
	})
	// distinct channel numbers for many peers
	synctest.Test(t, func(t *testing.T) {
		w := newH5World(vt)
		vt.Op("cnew")
		vt.Obs("ok")
		np := 300
		if vt.Thorough() {
			np = 16500
		}
		seen := map[string]bool{}
		for i := 0; i < np; i++ {
			p := &net.UDPAddr{IP: net.IPv4(10, 1, byte(i>>8), byte(i)), Port: 7000 + i%3}
			w.write(p, []byte{1}, nil, nil)
			w.write(p, []byte{2}, nil, nil)
		}
		_ = seen
		w.finish()
	})
	// concurrent writers that give up, WriteTo racing Close, Dial after Close (h5_writers_test.go)
	runH5Writers(t, vt)
}
