//go:build verif

package turn

// H9 — teardown racing with slow lifecycle callbacks (C18, C15): every lifecycle callback the library
// invokes is made slow (virtual-time sleep) in turn, and while it runs the allocation is torn down by
// each cause. A crash kills the process (the orchestrator reports the last flushed operation); a
// lock-up is caught by the liveness probe / watchdog.

import (
	"fmt"
	"net"
	"testing"
	"testing/synctest"
	"time"

	"github.com/pion/stun/v3"
	"github.com/pion/turn/v5/internal/proto"
)

// Callbacks that the library invokes while holding one of its mutexes (OnPermissionDeleted, OnChannelCreated,
// OnChannelDeleted) cannot be made slow under synctest: a goroutine waiting for that mutex is not durably
// blocked, so virtual time would never advance. Those scenarios run in real time with a 40 ms unit.
func runH9Scenario(t *testing.T, vt *vhT, slow string, cause string, units int) {
	virtual := slow != "OnPermissionDeleted" && slow != "OnChannelCreated" && slow != "OnChannelDeleted"
	unit := time.Second
	if !virtual {
		unit = 40 * time.Millisecond
	}
	delay := time.Duration(units) * unit
	settle := func() {
		if virtual {
			synctest.Wait()
		} else {
			time.Sleep(unit / 2)
		}
	}
	body := func(t *testing.T) {
		vt.OpSync("slowcb %s %s %d", slow, cause, units)
		lis := []*h2Listener{{ip: net.ParseIP("10.0.0.1").To4()}}
		cfg := ServerConfig{AllocationLifetime: 2 * unit, PermissionTimeout: 2 * unit, ChannelBindTimeout: 2 * unit}
		w := newH2World(vt, cfg, lis, true, false)
		sleepIn := func(name string) {
			if name == slow {
				time.Sleep(delay)
			}
		}
		// wrap the recorder's callbacks with sleeps
		eh := w.cfg.EventHandler
		slowEH := EventHandler{
			OnAllocationCreated: func(s, d net.Addr, p, u, r string, relay net.Addr, port int) {
				eh.OnAllocationCreated(s, d, p, u, r, relay, port)
				sleepIn("OnAllocationCreated")
			},
			OnAllocationDeleted: func(s, d net.Addr, p, u, r string) { eh.OnAllocationDeleted(s, d, p, u, r); sleepIn("OnAllocationDeleted") },
			OnPermissionCreated: func(s, d net.Addr, p, u, r string, relay net.Addr, peer net.IP) {
				eh.OnPermissionCreated(s, d, p, u, r, relay, peer)
				sleepIn("OnPermissionCreated")
			},
			OnPermissionDeleted: func(s, d net.Addr, p, u, r string, relay net.Addr, peer net.IP) {
				eh.OnPermissionDeleted(s, d, p, u, r, relay, peer)
				sleepIn("OnPermissionDeleted")
			},
			OnChannelCreated: func(s, d net.Addr, p, u, r string, relay, peer net.Addr, n uint16) {
				eh.OnChannelCreated(s, d, p, u, r, relay, peer, n)
				sleepIn("OnChannelCreated")
			},
			OnChannelDeleted: func(s, d net.Addr, p, u, r string, relay, peer net.Addr, n uint16) {
				eh.OnChannelDeleted(s, d, p, u, r, relay, peer, n)
				sleepIn("OnChannelDeleted")
			},
		}
		// the managers copied the handler at construction: rebuild the server with the slow one
		_ = w.srv.Close()
		settle()
		w2cfg := cfg
		w2cfg.EventHandler = slowEH
		w = newH2WorldWith(vt, w2cfg, []*h2Listener{{ip: net.ParseIP("10.0.0.1").To4()}}, true, false, true)
		h := &h2Hist{vt: vt, w: w, lastTid: map[string]int{}, owner: map[string]string{}}
		c := w.client(0, net.ParseIP("10.0.0.2").To4(), 4000)
		nonce, _ := w.srv.nonceHash.Generate()
		cr := h2Cred{mi: true, nonce: true, nonceOK: true, realm: true, uname: true, known: true, macOK: true, user: "alice", nonceVal: nonce, pass: h2Users["alice"]}
		peer := proto.PeerAddress{IP: net.ParseIP("10.0.0.9").To4(), Port: 9000}
		send := func(typ stun.MessageType, attrs ...stun.Setter) {
			h.tid++
			c.sendRaw(h.build(typ, h.tid, &cr, attrs...))
		}
		send(stun.NewType(stun.MethodAllocate, stun.ClassRequest), proto.RequestedTransport{Protocol: proto.ProtoUDP})
		settle()
		time.Sleep(unit / 2)
		send(stun.NewType(stun.MethodCreatePermission, stun.ClassRequest), peer)
		send(stun.NewType(stun.MethodChannelBind, stun.ClassRequest), proto.ChannelNumber(0x4000), peer)
		settle()
		// while callbacks may be sleeping, tear the allocation down
		switch cause {
		case "expiry":
			time.Sleep(3 * unit)
		case "refresh0":
			send(stun.NewType(stun.MethodRefresh, stun.ClassRequest), proto.Lifetime{})
			time.Sleep(unit)
		case "relayerr":
			w.n.mu.Lock()
			for _, pc := range w.n.udp {
				if !pc.quiet {
					select {
					case pc.readErr <- fmt.Errorf("simnet: injected"):
					default:
					}
				}
			}
			w.n.mu.Unlock()
			time.Sleep(unit)
		case "close":
			_ = w.srv.Close()
			time.Sleep(unit)
		}
		time.Sleep(delay + 5*unit)
		settle()
		// liveness: the manager lock must be free and (unless closed) the listener must answer
		n := w.srv.AllocationCount()
		for i := 0; !virtual && n != 0 && i < 100; i++ { // real time: give late timers a chance under CPU load
			time.Sleep(unit / 2)
			n = w.srv.AllocationCount()
		}
		alive := true
		if cause != "close" {
			c.pc.drain()
			h.tid++
			c.sendRaw(h.build(stun.BindingRequest, h.tid, nil))
			settle()
			alive = len(c.pc.drain()) > 0
			for i := 0; !virtual && !alive && i < 100; i++ {
				time.Sleep(unit / 2)
				alive = len(c.pc.drain()) > 0
			}
		}
		if !alive {
			vt.Alarm("liveness-lost", "no Binding response after slow %s + %s", slow, cause)
		}
		if n != 0 {
			vt.Alarm("allocation-left", "AllocationCount=%d after slow %s + %s", n, slow, cause)
		}
		vt.Obs("ok")
		w.shutdownWith(settle)
		time.Sleep(delay + 10*unit) // let every sleeping callback return so the bubble can drain
	}
	if virtual {
		synctest.Test(t, body)
	} else {
		body(t)
	}
}

// runH9SlowDial: a Connect whose peer is slow to answer must not stop the server from serving the other clients of the
// same listener while the dial is in progress (real time: a goroutine waiting for a mutex cannot be skipped by virtual time)
func runH9SlowDial(vt *vhT, stream bool) {
	vt.OpSync("slowcb Connect-dial other-client-stream=%v 1", stream)
	lis := []*h2Listener{{stream: stream, ip: net.ParseIP("10.0.0.1").To4()}}
	w := newH2World(vt, ServerConfig{}, lis, true, false)
	h := &h2Hist{vt: vt, w: w, lastTid: map[string]int{}, owner: map[string]string{}}
	nonce, _ := w.srv.nonceHash.Generate()
	cred := func(u string) *h2Cred {
		return &h2Cred{mi: true, nonce: true, nonceOK: true, realm: true, uname: true, known: true, macOK: true, user: u, nonceVal: nonce, pass: h2Users[u]}
	}
	a := w.client(0, net.ParseIP("10.0.0.2").To4(), 4000)
	b := w.client(0, net.ParseIP("10.0.0.3").To4(), 4000)
	peerIP := net.ParseIP("10.0.0.9").To4()
	_ = w.peerListener(peerIP, 9000)
	peer := proto.PeerAddress{IP: peerIP, Port: 9000}
	answered := func(c *h2Client, wait time.Duration) bool {
		end := time.Now().Add(wait)
		for time.Now().Before(end) {
			if c.conn == nil {
				if len(c.pc.drain()) > 0 {
					return true
				}
			} else if fr, _ := c.takeFrames(); len(fr) > 0 {
				return true
			}
			time.Sleep(5 * time.Millisecond)
		}
		return false
	}
	send := func(c *h2Client, u string, typ stun.MessageType, attrs ...stun.Setter) {
		h.tid++
		c.sendRaw(h.build(typ, h.tid, cred(u), attrs...))
	}
	send(a, "alice", stun.NewType(stun.MethodAllocate, stun.ClassRequest), proto.RequestedTransport{Protocol: proto.ProtoTCP})
	send(b, "bob", stun.NewType(stun.MethodAllocate, stun.ClassRequest), proto.RequestedTransport{Protocol: proto.ProtoTCP})
	if !answered(a, 3*time.Second) || !answered(b, 3*time.Second) {
		vt.Alarm("h9-setup", "Allocate over the listener (stream=%v) not answered", stream)
		vt.Obs("ok")
		w.shutdownWith(func() { time.Sleep(50 * time.Millisecond) })
		return
	}
	if !stream && w.srv.AllocationCount() == 0 {
		// a datagram listener refuses TCP allocations (RFC 6062 5.1): there is no Connect that could hold up its one read loop
		vt.Stat("h9.tcp-allocation-over-udp.refused")
		vt.Obs("ok")
		w.shutdownWith(func() { time.Sleep(50 * time.Millisecond) })
		return
	}
	send(a, "alice", stun.NewType(stun.MethodCreatePermission, stun.ClassRequest), peer)
	_ = answered(a, 3*time.Second)
	w.dialDelay = 2 * time.Second
	send(a, "alice", stun.NewType(stun.MethodConnect, stun.ClassRequest), peer)
	time.Sleep(200 * time.Millisecond) // the dial is now in progress
	t0 := time.Now()
	send(b, "bob", stun.NewType(stun.MethodRefresh, stun.ClassRequest), proto.Lifetime{Duration: 10 * time.Minute})
	if !answered(b, 1200*time.Millisecond) {
		vt.Alarm("manager-blocked-by-dial", "another client's Refresh was not answered within 1.2 s while a Connect's dial (2 s) was in progress (stream listener: %v)", stream)
		t0 = time.Now().Add(-time.Second) // the probe below gets 200 ms of its own
	}
	done := make(chan int, 1)
	go func() { done <- w.srv.AllocationCount() }()
	select {
	case <-done:
	case <-time.After(time.Until(t0.Add(1200 * time.Millisecond))):
		vt.Alarm("manager-blocked-by-dial", "Server.AllocationCount blocked while a Connect's dial was in progress")
		<-done
	}
	_ = answered(a, 4*time.Second) // the Connect response once the dial completed
	w.dialDelay = 0
	vt.Obs("ok")
	w.shutdownWith(func() { time.Sleep(50 * time.Millisecond) })
}

func TestVerifH9(t *testing.T) {
	vt := vhOpen("h9")
	defer vt.Close()
	vt.Watchdog(120 * time.Second)
	runH9SlowDial(vt, true)
	vt.Flush()
	runH9SlowDial(vt, false)
	vt.Flush()
	for _, slow := range []string{"OnPermissionCreated", "OnChannelCreated", "OnAllocationCreated", "OnPermissionDeleted", "OnChannelDeleted", "OnAllocationDeleted", "none"} {
		for _, cause := range []string{"expiry", "refresh0", "relayerr", "close"} {
			for _, d := range []int{1, 4} {
				runH9Scenario(t, vt, slow, cause, d)
				vt.Flush()
			}
		}
	}
}
