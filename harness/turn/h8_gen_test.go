//go:build verif

package turn

// H8 — relay address generators (C20): scripted Rand on a fake transport.Net whose bind succeeds iff the
// port is free (arithmetic, retries, fail-clean, fill/drain), plus real loopback sockets for the
// "two live allocations never share a relay port" clause.

import (
	"context"
	"fmt"
	"net"
	"strconv"
	"strings"
	"testing"

	"github.com/pion/transport/v4"
	"github.com/pion/transport/v4/stdnet"
)

type h8Rand struct {
	script []int
	args   []int
}

func (r *h8Rand) Intn(n int) int {
	r.args = append(r.args, n)
	if len(r.script) == 0 {
		return 0
	}
	k := r.script[0]
	r.script = r.script[1:]
	return k
}
func (r *h8Rand) Uint32() uint32                  { return 0 }
func (r *h8Rand) Uint64() uint64                  { return 0 }
func (r *h8Rand) GenerateString(int, string) string { return "" }

type h8Net struct {
	*stdnet.Net
	used     map[int]bool
	attempts int
}

type h8PC struct {
	net.PacketConn
	n    *h8Net
	addr *net.UDPAddr
}

func (p *h8PC) LocalAddr() net.Addr { return p.addr }
func (p *h8PC) Close() error        { delete(p.n.used, p.addr.Port); return nil }

type h8Ln struct {
	n    *h8Net
	addr *net.TCPAddr
}

func (l *h8Ln) Accept() (net.Conn, error) { return nil, net.ErrClosed }
func (l *h8Ln) Close() error              { delete(l.n.used, l.addr.Port); return nil }
func (l *h8Ln) Addr() net.Addr            { return l.addr }

func (n *h8Net) bind(address string) (string, int, error) {
	n.attempts++
	host, ps, err := net.SplitHostPort(address)
	if err != nil {
		return "", 0, err
	}
	port, _ := strconv.Atoi(ps)
	if port == 0 { // ephemeral
		port = 30000
		for n.used[port] {
			port++
		}
	}
	if n.used[port] {
		return "", 0, fmt.Errorf("h8: address in use")
	}
	n.used[port] = true
	return host, port, nil
}

func (n *h8Net) ListenPacket(network, address string) (net.PacketConn, error) {
	host, port, err := n.bind(address)
	if err != nil {
		return nil, err
	}
	return &h8PC{n: n, addr: &net.UDPAddr{IP: net.ParseIP(host), Port: port}}, nil
}

type h8LC struct{ n *h8Net }

func (c h8LC) Listen(_ context.Context, network, address string) (net.Listener, error) {
	host, port, err := c.n.bind(address)
	if err != nil {
		return nil, err
	}
	return &h8Ln{n: c.n, addr: &net.TCPAddr{IP: net.ParseIP(host), Port: port}}, nil
}
func (c h8LC) ListenPacket(_ context.Context, network, address string) (net.PacketConn, error) {
	return c.n.ListenPacket(network, address)
}
func (n *h8Net) CreateListenConfig(*net.ListenConfig) transport.ListenConfig { return h8LC{n} }

func csv(xs []int) string {
	if len(xs) == 0 {
		return "-"
	}
	var s []string
	for _, x := range xs {
		s = append(s, strconv.Itoa(x))
	}
	return strings.Join(s, ",")
}

func h8One(vt *vhT, tcp bool, min, max uint16, retries int, req int, used []int, rands []int) {
	base, err := stdnet.NewNet()
	if err != nil {
		panic(err)
	}
	fn := &h8Net{Net: base, used: map[int]bool{}}
	for _, u := range used {
		fn.used[u] = true
	}
	usedBefore := len(fn.used)
	rnd := &h8Rand{script: append([]int{}, rands...)}
	relayIP := net.ParseIP("203.0.113.7")
	g := &RelayAddressGeneratorPortRange{RelayAddress: relayIP, MinPort: min, MaxPort: max, MaxRetries: retries, Rand: rnd, Address: "127.0.0.1", Net: fn}
	kind := "udp"
	if tcp {
		kind = "tcp"
	}
	vt.Op("pr %d %d %d %d %s %s", min, max, retries, req, csv(used), csv(rands))
	var addr net.Addr
	if tcp {
		var ln net.Listener
		ln, addr, err = g.AllocateListener(AllocateListenerConfig{Network: "tcp4", RequestedPort: req})
		_ = ln
	} else {
		var pc net.PacketConn
		pc, addr, err = g.AllocatePacketConn(AllocateListenerConfig{Network: "udp4", RequestedPort: req})
		_ = pc
	}
	intn := ""
	if req == 0 {
		// C20 monitor: every Intn argument is the size of the range
		for _, a := range rnd.args {
			if a != int(max)-int(min)+1 {
				vt.Alarm("intn-argument-wrong", "%s min=%d max=%d Intn(%d)", kind, min, max, a)
			}
		}
		if len(rnd.args) > 0 {
			intn = fmt.Sprintf(" intn=%d", rnd.args[0])
		} else {
			intn = fmt.Sprintf(" intn=%d", (int(max)+1-int(min)+65536)%65536)
		}
	}
	if err != nil {
		vt.Obs("err %d%s", fn.attempts, intn)
		vt.Stat("pr." + kind + ".err")
		// fail clean: nothing new is bound
		if len(fn.used) != usedBefore {
			vt.Alarm("generator-leaks-socket-on-error", "%s min=%d max=%d", kind, min, max)
		}
		return
	}
	ip, port := net.IP(nil), 0
	switch a := addr.(type) {
	case *net.UDPAddr:
		ip, port = a.IP, a.Port
	case *net.TCPAddr:
		ip, port = a.IP, a.Port
	}
	vt.Obs("ok %d %d%s", port, fn.attempts, intn)
	vt.Stat("pr." + kind + ".ok")
	if !ip.Equal(relayIP) {
		vt.Alarm("advertised-ip-wrong", "%s advertised %v", kind, ip)
	}
	if !fn.used[port] {
		vt.Alarm("advertised-port-not-bound", "%s advertised %d", kind, port)
	}
	if req == 0 && (port < int(min) || port > int(max)) {
		vt.Alarm("port-out-of-range", "%s min=%d max=%d port=%d", kind, min, max, port)
	}
	if req != 0 && port != req {
		vt.Alarm("requested-port-not-honoured", "%s req=%d got=%d", kind, req, port)
	}
}

func TestVerifH8(t *testing.T) {
	vt := vhOpen("h8")
	defer vt.Close()
	rng := vt.Rng
	bounds := []int{1, 2, 1023, 1024, 32767, 32768, 65534, 65535}
	for _, tcp := range []bool{false, true} {
		// every (min,max) on the boundaries with min <= max, Intn outputs at both ends of the range
		for _, mn := range bounds {
			for _, mx := range bounds {
				if mn > mx {
					continue
				}
				size := mx - mn + 1
				for _, k := range []int{0, 1 % size, size / 2, size - 1} {
					h8One(vt, tcp, uint16(mn), uint16(mx), 3, 0, nil, []int{k, 0, size - 1})
				}
			}
		}
		// retries: every attempt hits a port in use, then maybe a free one
		for _, retries := range []int{1, 3, 10} {
			for free := 0; free <= retries+1; free++ {
				var rands, used []int
				for i := 0; i < retries+2; i++ {
					rands = append(rands, i%8)
				}
				for i := 0; i < free && i < 8; i++ {
					used = append(used, 5000+i)
				}
				h8One(vt, tcp, 5000, 5007, retries, 0, used, rands)
			}
		}
		// requested port: passed through unchanged, fails when in use
		for _, req := range []int{1, 80, 49152, 65535} {
			h8One(vt, tcp, 100, 200, 3, req, nil, nil)
			h8One(vt, tcp, 100, 200, 3, req, []int{req}, nil)
		}
		// random configurations, fill and drain
		n := 300
		if vt.Thorough() {
			n = 20000
		}
		for i := 0; i < n; i++ {
			mn := 1 + rng.Intn(65535)
			mx := mn + rng.Intn(65536-mn)
			if rng.Intn(4) == 0 {
				mx = mn + rng.Intn(4)
				if mx > 65535 {
					mx = 65535
				}
			}
			size := mx - mn + 1
			retries := []int{1, 3, 10}[rng.Intn(3)]
			var rands, used []int
			for j := 0; j < retries+1; j++ {
				rands = append(rands, rng.Intn(size))
			}
			for j := 0; j < rng.Intn(6); j++ {
				used = append(used, mn+rng.Intn(size))
			}
			h8One(vt, tcp, uint16(mn), uint16(mx), retries, 0, used, rands)
		}
	}
	// the other two generators: advertised address and requested-port pass-through
	for _, req := range []int{0, 40001} {
		base, _ := stdnet.NewNet()
		fn := &h8Net{Net: base, used: map[int]bool{}}
		st := &RelayAddressGeneratorStatic{RelayAddress: net.ParseIP("203.0.113.9"), Address: "127.0.0.1", Net: fn}
		_, a, err := st.AllocatePacketConn(AllocateListenerConfig{Network: "udp4", RequestedPort: req})
		if err != nil || !a.(*net.UDPAddr).IP.Equal(net.ParseIP("203.0.113.9")) || (req != 0 && a.(*net.UDPAddr).Port != req) {
			vt.Alarm("static-generator-address", "req=%d addr=%v err=%v", req, a, err)
		}
		st.Net = &h8Net{Net: base, used: map[int]bool{}}
		_, a, err = st.AllocateListener(AllocateListenerConfig{Network: "tcp4", RequestedPort: req})
		if err != nil || !a.(*net.TCPAddr).IP.Equal(net.ParseIP("203.0.113.9")) || (req != 0 && a.(*net.TCPAddr).Port != req) {
			vt.Alarm("static-generator-address", "tcp req=%d addr=%v err=%v", req, a, err)
		}
		no := &RelayAddressGeneratorNone{Address: "127.0.0.1", Net: &h8Net{Net: base, used: map[int]bool{}}}
		_, a, err = no.AllocatePacketConn(AllocateListenerConfig{Network: "udp4", RequestedPort: req + 1})
		if err != nil || !a.(*net.UDPAddr).IP.Equal(net.ParseIP("127.0.0.1")) || a.(*net.UDPAddr).Port != req+1 {
			vt.Alarm("none-generator-address", "req=%d addr=%v err=%v", req+1, a, err)
		}
	}
	// the same for every shape of configured relay address (IPv6, IPv4-mapped, 16-byte IPv4) and listen address
	for _, tc := range []struct{ relay, listen, nw4 string }{{"2001:db8::9", "::1", "6"}, {"2001:db8::9", "fd00::1", "6"}, {"::ffff:203.0.113.9", "127.0.0.1", "4"},
		{"203.0.113.77", "0.0.0.0", "4"}, {"fd00::77", "::", "6"}} {
		for _, req := range []int{0, 40123} {
			base, _ := stdnet.NewNet()
			want := net.ParseIP(tc.relay)
			st := &RelayAddressGeneratorStatic{RelayAddress: want, Address: tc.listen, Net: &h8Net{Net: base, used: map[int]bool{}}}
			_, a, err := st.AllocatePacketConn(AllocateListenerConfig{Network: "udp" + tc.nw4, RequestedPort: req})
			if err != nil || !a.(*net.UDPAddr).IP.Equal(want) || (req != 0 && a.(*net.UDPAddr).Port != req) {
				vt.Alarm("static-generator-address", "relay=%s listen=%s req=%d addr=%v err=%v", tc.relay, tc.listen, req, a, err)
			}
			st.Net = &h8Net{Net: base, used: map[int]bool{}}
			_, a, err = st.AllocateListener(AllocateListenerConfig{Network: "tcp" + tc.nw4, RequestedPort: req})
			if err != nil || !a.(*net.TCPAddr).IP.Equal(want) || (req != 0 && a.(*net.TCPAddr).Port != req) {
				vt.Alarm("static-generator-address", "tcp relay=%s listen=%s req=%d addr=%v err=%v", tc.relay, tc.listen, req, a, err)
			}
			vt.Stat("h8.static." + tc.nw4)
			pr := &RelayAddressGeneratorPortRange{RelayAddress: want, Address: tc.listen, MinPort: 50000, MaxPort: 50003, MaxRetries: 10, Net: &h8Net{Net: base, used: map[int]bool{}}}
			_ = pr.Validate()
			_, a, err = pr.AllocatePacketConn(AllocateListenerConfig{Network: "udp" + tc.nw4, RequestedPort: req})
			if err != nil || !a.(*net.UDPAddr).IP.Equal(want) || (req != 0 && a.(*net.UDPAddr).Port != req) {
				vt.Alarm("advertised-ip-wrong", "range generator relay=%s listen=%s req=%d addr=%v err=%v", tc.relay, tc.listen, req, a, err)
			}
		}
	}
	// one generator instance serves a whole history of allocations: every call honours ITS OWN request (nothing a previous
	// call asked for may leak into a later one) and live allocations get distinct ports
	for _, kind := range []string{"static", "none"} {
		for _, first := range []int{0, 40101} {
			base, _ := stdnet.NewNet()
			fn := &h8Net{Net: base, used: map[int]bool{}}
			var gen RelayAddressGenerator
			if kind == "static" {
				gen = &RelayAddressGeneratorStatic{RelayAddress: net.ParseIP("203.0.113.9"), Address: "127.0.0.1", Net: fn}
			} else {
				gen = &RelayAddressGeneratorNone{Address: "127.0.0.1", Net: fn}
			}
			seq := []int{first, 40102, 0, 40103, 0, 40104}
			for _, tcp := range []bool{false, true} {
				seen := map[int]bool{}
				for i, req := range seq {
					var port int
					var err error
					var a net.Addr
					if tcp && req != 0 {
						req += 500
					}
					if tcp {
						_, a, err = gen.AllocateListener(AllocateListenerConfig{Network: "tcp4", RequestedPort: req})
						if err == nil {
							port = a.(*net.TCPAddr).Port //nolint:forcetypeassert
						}
					} else {
						_, a, err = gen.AllocatePacketConn(AllocateListenerConfig{Network: "udp4", RequestedPort: req})
						if err == nil {
							port = a.(*net.UDPAddr).Port //nolint:forcetypeassert
						}
					}
					if err != nil || (req != 0 && port != req) || seen[port] {
						vt.Alarm("requested-port-not-honoured", "%s generator, call #%d of one instance (tcp=%v): requested %d, got %d err=%v (ports so far %v)", kind, i, tcp, req, port, err, seen)
					}
					seen[port] = true
				}
			}
			vt.Stat("h8.sequence." + kind)
		}
	}
	// real sockets: the generator advertises RelayAddress but must leave the socket's own address alone (the address object
	// returned by LocalAddr belongs to the socket; rewriting it in place makes the socket report the wrong local address)
	{
		base, _ := stdnet.NewNet()
		pub := net.ParseIP("203.0.113.9")
		st := &RelayAddressGeneratorStatic{RelayAddress: pub, Address: "127.0.0.1", Net: base}
		pr := &RelayAddressGeneratorPortRange{RelayAddress: pub, Address: "127.0.0.1", MinPort: 42100, MaxPort: 42199, MaxRetries: 20, Net: base}
		_ = pr.Validate()
		for name, g := range map[string]RelayAddressGenerator{"static": st, "range": pr} {
			if conn, a, err := g.AllocatePacketConn(AllocateListenerConfig{Network: "udp4"}); err == nil {
				if la, ok := conn.LocalAddr().(*net.UDPAddr); !ok || !la.IP.Equal(net.ParseIP("127.0.0.1")) || !a.(*net.UDPAddr).IP.Equal(pub) {
					vt.Alarm("generator-rewrites-socket-address", "%s generator (udp4): advertised %v, the relay socket now reports local address %v (bound to 127.0.0.1)", name, a, conn.LocalAddr())
				}
				_ = conn.Close()
			}
			if ln, a, err := g.AllocateListener(AllocateListenerConfig{Network: "tcp4"}); err == nil {
				if la, ok := ln.Addr().(*net.TCPAddr); !ok || !la.IP.Equal(net.ParseIP("127.0.0.1")) || !a.(*net.TCPAddr).IP.Equal(pub) {
					vt.Alarm("generator-rewrites-socket-address", "%s generator (tcp4): advertised %v, the relay listener now reports address %v (bound to 127.0.0.1)", name, a, ln.Addr())
				}
				_ = ln.Close()
			}
		}
		vt.Stat("h8.socket-address")
	}
	// real loopback sockets: two live allocations must never share a relay port
	for _, network := range []string{"udp4", "tcp4"} {
		base, _ := stdnet.NewNet()
		port := 41000 + rng.Intn(2000)
		g := &RelayAddressGeneratorPortRange{RelayAddress: net.ParseIP("127.0.0.1"), MinPort: uint16(port), MaxPort: uint16(port), MaxRetries: 3, Address: "127.0.0.1", Net: base}
		_ = g.Validate()
		var closers []func()
		var ports []int
		for i := 0; i < 2; i++ {
			if network == "udp4" {
				pc, a, err := g.AllocatePacketConn(AllocateListenerConfig{Network: network})
				if err == nil {
					closers = append(closers, func() { _ = pc.Close() })
					ports = append(ports, a.(*net.UDPAddr).Port)
				}
			} else {
				ln, a, err := g.AllocateListener(AllocateListenerConfig{Network: network})
				if err == nil {
					closers = append(closers, func() { _ = ln.Close() })
					ports = append(ports, a.(*net.TCPAddr).Port)
				}
			}
		}
		vt.Note("real sockets %s single-port range %d: %d live allocations %v", network, port, len(ports), ports)
		if len(ports) == 2 && ports[0] == ports[1] {
			vt.Alarm("shared-relay-port-"+network, "two live %s relay sockets handed out on port %d (single-port range)", network, ports[0])
		}
		for _, c := range closers {
			c()
		}
	}
}
