//go:build verif

package turn

// H5, concurrent writers and Close (C13): directed schedules against a scripted TURN server whose answers can be DELAYED, so
// that several WriteTo calls to one new peer overlap in a chosen order.  REAL time: the writers queue on the permission's
// mutex, and a goroutine waiting for a mutex stops virtual time (testing/synctest) for good.
//   * a writer that gives up (403, or 438 three times) must not take away the permission another writer was granted meanwhile:
//     the granted peer stays in the periodic CreatePermission refresh (`granted-permission-forgotten`);
//   * a WriteTo that is waiting for its CreatePermission answer while Close runs must not put data or a ChannelBind on the wire
//     after the Refresh(0), nor report success (`write-after-close-emits`);
//   * a Dial on a closed TCP allocation asks the server for nothing (`dial-after-close-emits`).

import (
	"fmt"
	"net"
	"strings"
	"sync"
	"testing"
	"time"

	"github.com/pion/logging"
	"github.com/pion/stun/v3"
	"github.com/pion/turn/v5/internal/proto"
)

type h5Rx struct {
	code  int           // 0 = success
	delay time.Duration // before the answer is sent
}

type h5DelayWorld struct {
	n    *simNet
	srv  *simPC
	cpc  *simPC
	c    *Client
	mu   sync.Mutex
	wire []string // requests and indications in the order they left the client, "t=<ms> <what>"
	rx   []h5Rx   // reactions to CreatePermission transactions, in order of first arrival
	rxConnect []h5Rx // reactions to Connect transactions (none: no answer)
	cidN int
	seen map[[stun.TransactionIDSize]byte]bool
	t0   time.Time
	nn   int
}

func (w *h5DelayWorld) log(s string) {
	w.mu.Lock()
	w.wire = append(w.wire, fmt.Sprintf("t=%d %s", time.Since(w.t0).Milliseconds(), s))
	w.mu.Unlock()
}

func (w *h5DelayWorld) take() []string {
	w.mu.Lock()
	defer w.mu.Unlock()
	o := w.wire
	w.wire = nil

	return o
}

func newH5DelayWorld(refresh time.Duration) (*h5DelayWorld, error) {
	w := &h5DelayWorld{n: newSimNet(), seen: map[[stun.TransactionIDSize]byte]bool{}, t0: time.Now()}
	w.srv, _ = w.n.listenUDP(net.ParseIP("10.0.0.1").To4(), 3478, true)
	w.cpc, _ = w.n.listenUDP(net.ParseIP("10.0.0.2").To4(), 4000, true)
	go func() {
		buf := make([]byte, 70000)
		for {
			k, from, err := w.srv.ReadFrom(buf)
			if err != nil {
				return
			}
			b := append([]byte{}, buf[:k]...)
			if proto.IsChannelData(b) {
				w.log("cd")

				continue
			}
			m := &stun.Message{Raw: b}
			if m.Decode() != nil {
				continue
			}
			if m.Type.Class == stun.ClassIndication {
				if m.Type.Method == stun.MethodSend {
					var d proto.Data
					_ = d.GetFrom(m)
					w.log("si " + vhHex(d))
				}

				continue
			}
			if m.Type.Class != stun.ClassRequest {
				continue
			}
			w.mu.Lock()
			dup := w.seen[m.TransactionID]
			w.seen[m.TransactionID] = true
			w.mu.Unlock()
			if dup {
				continue // a retransmission: the (delayed) answer to the first copy is on its way
			}
			tid := stun.NewTransactionIDSetter(m.TransactionID)
			send := func(after time.Duration, setters ...stun.Setter) {
				r, _ := stun.Build(append([]stun.Setter{tid}, setters...)...)
				go func() {
					time.Sleep(after)
					_, _ = w.srv.WriteTo(r.Raw, from)
				}()
			}
			switch m.Type.Method {
			case stun.MethodAllocate:
				if !m.Contains(stun.AttrMessageIntegrity) {
					send(0, stun.NewType(stun.MethodAllocate, stun.ClassErrorResponse), &stun.ErrorCodeAttribute{Code: stun.CodeUnauthorized},
						stun.NewNonce("nonce0"), stun.NewRealm("pion.ly"))
				} else {
					var rt proto.RequestedTransport
					_ = rt.GetFrom(m)
					w.log(fmt.Sprintf("alloc %d", rt.Protocol))
					send(0, stun.NewType(stun.MethodAllocate, stun.ClassSuccessResponse), &proto.RelayedAddress{IP: net.IPv4(10, 0, 0, 1), Port: 50000},
						&proto.Lifetime{Duration: 1000000 * time.Second}, &stun.XORMappedAddress{IP: net.IPv4(10, 0, 0, 2), Port: 4000})
				}
			case stun.MethodCreatePermission:
				var ps []string
				_ = m.ForEach(stun.AttrXORPeerAddress, func(mm *stun.Message) error {
					var pa proto.PeerAddress
					if pa.GetFrom(mm) == nil {
						ps = append(ps, canonIPPort(pa.IP, pa.Port))
					}

					return nil
				})
				w.log("cp " + strings.Join(ps, ","))
				w.mu.Lock()
				rx := h5Rx{}
				if len(w.rx) > 0 {
					rx = w.rx[0]
					w.rx = w.rx[1:]
				}
				w.mu.Unlock()
				if rx.code == 0 {
					send(rx.delay, stun.NewType(stun.MethodCreatePermission, stun.ClassSuccessResponse))
				} else {
					attrs := []stun.Setter{stun.NewType(stun.MethodCreatePermission, stun.ClassErrorResponse), &stun.ErrorCodeAttribute{Code: stun.ErrorCode(rx.code)}}
					if rx.code == 438 {
						w.nn++
						attrs = append(attrs, stun.NewNonce(fmt.Sprintf("nonce%d", w.nn)), stun.NewRealm("pion.ly"))
					}
					send(rx.delay, attrs...)
				}
			case stun.MethodChannelBind:
				w.log("cb")
				send(0, stun.NewType(stun.MethodChannelBind, stun.ClassSuccessResponse))
			case stun.MethodRefresh:
				var lt proto.Lifetime
				_ = lt.GetFrom(m)
				w.log(fmt.Sprintf("rf %d", int64(lt.Duration/time.Second)))
				send(0, stun.NewType(stun.MethodRefresh, stun.ClassSuccessResponse), &proto.Lifetime{Duration: lt.Duration})
			case stun.MethodConnect:
				w.log("connect")
				w.mu.Lock()
				var rx *h5Rx
				if len(w.rxConnect) > 0 {
					r := w.rxConnect[0]
					rx = &r
					w.rxConnect = w.rxConnect[1:]
				}
				w.cidN++
				cid := w.cidN
				w.mu.Unlock()
				switch {
				case rx == nil: // silence
				case rx.code == 0:
					send(rx.delay, stun.NewType(stun.MethodConnect, stun.ClassSuccessResponse), proto.ConnectionID(cid))
				default:
					attrs := []stun.Setter{stun.NewType(stun.MethodConnect, stun.ClassErrorResponse), &stun.ErrorCodeAttribute{Code: stun.ErrorCode(rx.code)}}
					if rx.code == 438 {
						w.nn++
						attrs = append(attrs, stun.NewNonce(fmt.Sprintf("nonce%d", w.nn)), stun.NewRealm("pion.ly"))
					}
					send(rx.delay, attrs...)
				}
			}
		}
	}()
	lf := logging.NewDefaultLoggerFactory()
	lf.DefaultLogLevel = logging.LogLevelDisabled
	c, err := NewClient(&ClientConfig{STUNServerAddr: "10.0.0.1:3478", TURNServerAddr: "10.0.0.1:3478", Conn: w.cpc, LoggerFactory: lf,
		Username: "alice", Password: "pw", Realm: "pion.ly", PermissionRefreshInterval: refresh})
	if err != nil {
		return nil, err
	}
	w.c = c
	if err := c.Listen(); err != nil {
		return nil, err
	}

	return w, nil
}

func (w *h5DelayWorld) shutdown() {
	w.c.Close()
	_ = w.cpc.Close()
	_ = w.srv.Close()
	time.Sleep(20 * time.Millisecond)
}

type h5Writer struct {
	at   time.Duration
	data byte
}

// runH5GiveUp: writers start at the given offsets; reactions are consumed by CreatePermission transactions in order of arrival
func runH5GiveUp(t *testing.T, vt *vhT, name string, writers []h5Writer, rx []h5Rx) {
	func() {
		vt.OpSync("trace writers-%s", name)
		w, err := newH5DelayWorld(time.Second)
		if err != nil {
			vt.Alarm("h5-setup", "delay world: %v", err)
			vt.Obs("ok")

			return
		}
		conn, err := w.c.Allocate()
		if err != nil {
			vt.Alarm("h5-setup", "Allocate: %v", err)
			vt.Obs("ok")
			w.shutdown()

			return
		}
		w.take()
		w.mu.Lock()
		w.rx = append([]h5Rx{}, rx...)
		w.t0 = time.Now()
		w.mu.Unlock()
		peer := &net.UDPAddr{IP: net.IPv4(10, 0, 0, 9), Port: 9000}
		res := make([]error, len(writers))
		var wg sync.WaitGroup
		for i, wr := range writers {
			wg.Add(1)
			go func() {
				defer wg.Done()
				time.Sleep(wr.at)
				_, res[i] = conn.WriteTo([]byte{wr.data}, peer)
			}()
		}
		wg.Wait()
		time.Sleep(300 * time.Millisecond)
		first := w.take()
		granted := false
		for i, e := range res {
			if e == nil {
				granted = true
				if !containsSuffix(first, "si "+vhHex([]byte{writers[i].data})) && !containsSuffix(first, "cd") {
					vt.Alarm("granted-permission-forgotten", "%s: writer %d reported success but its data is not on the wire: %v", name, i, first)
				}
			}
		}
		vt.Stat(fmt.Sprintf("writers.%s.granted=%v", name, granted))
		// refresh periods (1 s) later: a granted peer is named in the periodic CreatePermission
		var later []string
		refreshed := false
		for end := time.Now().Add(4 * time.Second); time.Now().Before(end) && !refreshed; {
			time.Sleep(100 * time.Millisecond)
			more := w.take()
			later = append(later, more...)
			for _, l := range more {
				if strings.Contains(l, " cp ") && strings.Contains(l, canonIPPort(peer.IP, peer.Port)) {
					refreshed = true
				}
			}
			if !granted && time.Now().After(end.Add(-1500*time.Millisecond)) {
				break // nothing to wait for: two and a half periods without a refresh is what is expected
			}
		}
		if granted && !refreshed {
			vt.Alarm("granted-permission-forgotten", "%s: the server granted a permission for %s and data went out, but after another writer gave up the client "+
				"no longer refreshes it (wire during the writes: %v; during the next refresh period: %v)", name, canonIPPort(peer.IP, peer.Port), first, later)
		}
		if !granted && refreshed {
			vt.Alarm("granted-permission-forgotten", "%s: no CreatePermission ever succeeded but the client refreshes the peer: %v", name, later)
		}
		_ = conn.Close()
		w.shutdown()
		vt.Obs("ok")
	}()
	vt.Flush()
}

func containsSuffix(lines []string, suffix string) bool {
	for _, l := range lines {
		if strings.HasSuffix(l, suffix) {
			return true
		}
	}

	return false
}

func runH5Writers(t *testing.T, vt *vhT) {
	ms := time.Millisecond
	// W1 is refused (403) at 80 ms and forgets the entry; W2 (same entry object, waiting for W1) asks again and is refused at
	// 230 ms; W3 came at 120 ms, made a new entry and was granted at once: W2's failure must leave W3's permission alone
	runH5GiveUp(t, vt, "403-403-ok", []h5Writer{{0, 1}, {10 * ms, 2}, {120 * ms, 3}}, []h5Rx{{403, 80 * ms}, {403, 150 * ms}, {0, 0}})
	// stale-nonce answers: W1 is told 438 three times and gives up while W2 holds the entry's mutex; W1's clean-up runs when W2
	// lets go of it between two attempts, W2's next attempt is granted: the entry must be back in the refresh
	runH5GiveUp(t, vt, "438x3-438x3-ok", []h5Writer{{0, 1}, {10 * ms, 2}, {200 * ms, 3}},
		[]h5Rx{{438, 50 * ms}, {438, 50 * ms}, {438, 50 * ms}, {438, 100 * ms}, {0, 0}, {438, 100 * ms}, {438, 100 * ms}})
	// controls: nobody is granted; everybody is granted
	runH5GiveUp(t, vt, "403-403", []h5Writer{{0, 1}, {10 * ms, 2}}, []h5Rx{{403, 80 * ms}, {403, 80 * ms}})
	runH5GiveUp(t, vt, "ok", []h5Writer{{0, 1}, {10 * ms, 2}, {20 * ms, 3}}, []h5Rx{{0, 80 * ms}})
	// a refused writer followed, later, by a granted one (no overlap)
	runH5GiveUp(t, vt, "403-then-ok", []h5Writer{{0, 1}, {500 * ms, 2}}, []h5Rx{{403, 80 * ms}, {0, 0}})

	// the application asks for the permission itself (Client.CreatePermission, granted at once) while a writer's own request for
	// the same peer is still out and is then refused: the writer's give-up must not drop the entry the application was granted
	func() {
		vt.OpSync("trace writers-app-permission-vs-refused-writer")
		w, err := newH5DelayWorld(time.Second)
		if err != nil {
			vt.Alarm("h5-setup", "delay world: %v", err)
			vt.Obs("ok")

			return
		}
		conn, err := w.c.Allocate()
		if err != nil {
			vt.Alarm("h5-setup", "Allocate: %v", err)
			vt.Obs("ok")
			w.shutdown()

			return
		}
		w.take()
		w.mu.Lock()
		w.rx = []h5Rx{{403, 200 * ms}, {0, 0}}
		w.t0 = time.Now()
		w.mu.Unlock()
		peer := &net.UDPAddr{IP: net.IPv4(10, 0, 0, 9), Port: 9000}
		done := make(chan error, 1)
		go func() { _, err := conn.WriteTo([]byte{1}, peer); done <- err }()
		time.Sleep(60 * ms)
		aerr := w.c.CreatePermission(peer)
		werr := <-done
		time.Sleep(100 * ms)
		first := w.take()
		refreshed := false
		var later []string
		for end := time.Now().Add(4 * time.Second); time.Now().Before(end) && !refreshed; {
			time.Sleep(100 * time.Millisecond)
			more := w.take()
			later = append(later, more...)
			for _, l := range more {
				if strings.Contains(l, " cp ") && strings.Contains(l, canonIPPort(peer.IP, peer.Port)) {
					refreshed = true
				}
			}
		}
		if aerr == nil && !refreshed {
			vt.Alarm("granted-permission-forgotten", "Client.CreatePermission(%s) was granted while a writer's own request for that peer was still out; the writer was then refused (%v) "+
				"and its give-up dropped the granted entry: the permission is not refreshed (wire: %v; next periods: %v)", canonIPPort(peer.IP, peer.Port), werr, first, later)
		}
		_ = conn.Close()
		w.shutdown()
		vt.Obs("ok")
	}()
	vt.Flush()

	// WriteTo waiting for its CreatePermission answer while Close runs
	func() {
		vt.OpSync("trace write-vs-close")
		w, err := newH5DelayWorld(60 * time.Second)
		if err != nil {
			vt.Alarm("h5-setup", "delay world: %v", err)
			vt.Obs("ok")

			return
		}
		conn, err := w.c.Allocate()
		if err != nil {
			vt.Alarm("h5-setup", "Allocate: %v", err)
			vt.Obs("ok")
			w.shutdown()

			return
		}
		w.take()
		w.mu.Lock()
		w.rx = []h5Rx{{0, 150 * ms}}
		w.t0 = time.Now()
		w.mu.Unlock()
		peer := &net.UDPAddr{IP: net.IPv4(10, 0, 0, 9), Port: 9000}
		var werr error
		done := make(chan struct{})
		go func() { _, werr = conn.WriteTo([]byte{0x77}, peer); close(done) }()
		time.Sleep(50 * ms)
		_ = conn.Close() // Refresh(0) goes out and is answered; the CreatePermission answer arrives 100 ms later
		<-done
		time.Sleep(500 * time.Millisecond)
		wire := w.take()
		closedAt := -1
		for i, l := range wire {
			if strings.HasSuffix(l, "rf 0") {
				closedAt = i
			}
		}
		if closedAt < 0 {
			vt.Alarm("h5-setup", "write-vs-close: no Refresh(0) on the wire: %v", wire)
		} else {
			for _, l := range wire[closedAt+1:] {
				if strings.Contains(l, " si ") || strings.HasSuffix(l, " cb") || strings.HasSuffix(l, " cd") {
					vt.Alarm("write-after-close-emits", "a WriteTo that was waiting for its permission when Close ran put %q on the wire after the Refresh(0) "+
						"(WriteTo returned err=%v): %v", l, werr, wire)

					break
				}
			}
		}
		w.shutdown()
		vt.Obs("ok")
	}()
	vt.Flush()

	// Dial waiting for its CreatePermission answer while Close runs: no Connect behind the Refresh(0)
	func() {
		vt.OpSync("trace dial-vs-close")
		w, err := newH5DelayWorld(60 * time.Second)
		if err != nil {
			vt.Alarm("h5-setup", "delay world: %v", err)
			vt.Obs("ok")

			return
		}
		a, err := w.c.AllocateTCP()
		if err != nil {
			vt.Alarm("h5-setup", "AllocateTCP: %v", err)
			vt.Obs("ok")
			w.shutdown()

			return
		}
		w.take()
		w.mu.Lock()
		w.rx = []h5Rx{{0, 150 * ms}}
		w.t0 = time.Now()
		w.mu.Unlock()
		done := make(chan error, 1)
		go func() {
			_, err := a.DialTCPWithConn(nil, "tcp", &net.TCPAddr{IP: net.IPv4(10, 0, 0, 9), Port: 9000})
			done <- err
		}()
		time.Sleep(50 * ms)
		_ = a.Close()
		time.Sleep(600 * ms)
		wire := w.take()
		closedAt := -1
		for i, l := range wire {
			if strings.HasSuffix(l, "rf 0") {
				closedAt = i
			}
		}
		if closedAt >= 0 {
			for _, l := range wire[closedAt+1:] {
				if strings.HasSuffix(l, " connect") {
					vt.Alarm("dial-after-close-emits", "a Dial that was waiting for its permission when Close ran sent a Connect after the Refresh(0): %v", wire)

					break
				}
			}
		}
		w.shutdown()
		vt.Obs("ok")
	}()
	vt.Flush()

	// Dial on a closed TCP allocation
	func() {
		vt.OpSync("trace dial-after-close")
		w, err := newH5DelayWorld(60 * time.Second)
		if err != nil {
			vt.Alarm("h5-setup", "delay world: %v", err)
			vt.Obs("ok")

			return
		}
		a, err := w.c.AllocateTCP()
		if err != nil {
			vt.Alarm("h5-setup", "AllocateTCP: %v", err)
			vt.Obs("ok")
			w.shutdown()

			return
		}
		_ = a.Close()
		time.Sleep(100 * time.Millisecond)
		w.take()
		done := make(chan error, 1)
		go func() {
			_, err := a.DialTCPWithConn(nil, "tcp", &net.TCPAddr{IP: net.IPv4(10, 0, 0, 9), Port: 9000})
			done <- err
		}()
		time.Sleep(500 * time.Millisecond)
		wire := w.take()
		var derr error
		select {
		case derr = <-done:
		default:
			derr = fmt.Errorf("still running after 500 ms")
		}
		for _, l := range wire {
			if strings.Contains(l, " cp ") || strings.HasSuffix(l, " connect") {
				vt.Alarm("dial-after-close-emits", "Dial on a CLOSED TCP allocation asked the server for %q (Dial returned %v): %v", l, derr, wire)

				break
			}
		}
		if derr == nil {
			vt.Alarm("dial-after-close-emits", "Dial on a CLOSED TCP allocation succeeded")
		}
		w.shutdown()
		vt.Obs("ok")
	}()
	vt.Flush()
}
