//go:build verif

package turn

// H7 — time-windowed shared-secret credentials (C17) under virtual time: both generators and both
// handlers, every second around the expiry, every single-character mutation of username and password,
// and an end-to-end Allocate through a real server.

import (
	"crypto/md5"
	"fmt"
	"net"
	"testing"
	"testing/synctest"
	"time"

	"github.com/pion/stun/v3"
	"github.com/pion/turn/v5/internal/auth"
)

func h7Ask(vt *vhT, kind string, h AuthHandler, username, realm string) (string, []byte, bool) {
	uid, key, ok := h(&auth.RequestAttributes{Username: username, Realm: realm, SrcAddr: &net.UDPAddr{IP: net.IPv4(10, 0, 0, 2), Port: 1}})
	vt.Op("lt %s %d %s", kind, time.Now().Unix(), vhHex([]byte(username)))
	if ok {
		vt.Obs("ok %s", vhHex([]byte(uid)))
		vt.Stat("lt." + kind + ".ok")
	} else {
		vt.Obs("no")
		vt.Stat("lt." + kind + ".no")
	}
	return uid, key, ok
}

// h7Key is the long-term key of RFC 5389 section 15.4, MD5(username ":" realm ":" password), computed here
// independently of the library's GenerateAuthKey (which the handlers under test use)
func h7Key(username, realm, password string) []byte {
	sum := md5.Sum([]byte(username + ":" + realm + ":" + password)) //nolint:gosec
	return sum[:]
}

// signed reports whether a request signed with (username, realm, password) verifies under key
func h7Verifies(username, realm, password string, key []byte) bool {
	m, err := stun.Build(stun.TransactionID, stun.BindingRequest, stun.NewUsername(username), stun.NewRealm(realm),
		stun.MessageIntegrity(h7Key(username, realm, password)))
	if err != nil {
		return false
	}
	return stun.MessageIntegrity(key).Check(m) == nil
}

func TestVerifH7(t *testing.T) {
	vt := vhOpen("h7")
	defer vt.Close()
	secrets := []string{"s3cret", "another-secret", ""}
	realms := []string{"pion.ly", "r", "100%pion.ly", "r %d"}
	users := []string{"alice", "bob:x", "", "a:b:c", "50%off", "bob%", "%s%v", "al ice\t", "z\u00e9"}
	pick := 0
	durs := []time.Duration{-5 * time.Second, 0, time.Second, 10 * time.Second, 90 * time.Minute, 1500 * time.Millisecond}
	mutChars := []byte("0123456789:-+ _aZ")
	for _, rest := range []bool{false, true} {
		kind := "lt"
		if rest {
			kind = "rest"
		}
		for _, secret := range secrets {
			for _, d := range durs {
				// every user name and every realm is used (deterministic rotation; the rng only perturbs the start)
				pick++
				user := users[(pick+int(vt.Seed))%len(users)]
				realm := realms[(pick/2+int(vt.Seed))%len(realms)]
				synctest.Test(t, func(t *testing.T) {
					var username, password string
					var h AuthHandler
					if rest {
						username, password, _ = GenerateLongTermTURNRESTCredentials(secret, user, d)
						h = LongTermTURNRESTAuthHandler(secret, nil)
					} else {
						username, password, _ = GenerateLongTermCredentials(secret, d)
						h = NewLongTermAuthHandler(secret, nil)
					}
					expiry := time.Now().Add(d).Unix()
					other := NewLongTermAuthHandler(secret+"x", nil)
					if rest {
						other = LongTermTURNRESTAuthHandler(secret+"x", nil)
					}
					step := func() {
						now := time.Now().Unix()
						uid, key, ok := h7Ask(vt, kind, h, username, realm)
						// C17 monitor: accepted iff now <= expiry; key is the long-term key of the generated password
						if ok != (now <= expiry) {
							vt.Alarm("ltcred-window", "%s now=%d expiry=%d accepted=%v", kind, now, expiry, ok)
						}
						if ok {
							if !h7Verifies(username, realm, password, key) {
								vt.Alarm("ltcred-key", "%s generated password does not verify under the returned key", kind)
							}
							wantUID := username
							if rest {
								// the user id is everything behind the timestamp's colon: two users whose names differ behind a
								// second colon ("bob" and "bob:x") are two users, not one
								wantUID = user
							}
							if uid != wantUID {
								vt.Alarm("ltcred-userid", "%s uid=%q want %q", kind, uid, wantUID)
							}
							// the key is a function of (username, realm, password): the SAME handler instance asked about the same
							// username under another realm must return that realm's key (and the first realm's key again afterwards)
							for _, r2 := range []string{realm + "2", "other.example", realm} {
								if _, k3, ok3 := h(&auth.RequestAttributes{Username: username, Realm: r2}); ok3 && !h7Verifies(username, r2, password, k3) {
									vt.Alarm("ltcred-key", "%s key returned for realm %q (after realm %q) does not verify the generated password", kind, r2, realm)
								}
							}
							// another secret's handler must not return a key our password verifies under
							if _, k2, ok2 := other(&auth.RequestAttributes{Username: username, Realm: realm}); ok2 && h7Verifies(username, realm, password, k2) {
								vt.Alarm("ltcred-other-secret", "%s password verifies under another secret's key", kind)
							}
						}
					}
					// every second in [expiry-3, expiry+3] (from now on), plus now
					step()
					if d > 4*time.Second {
						time.Sleep(d - 3500*time.Millisecond)
					}
					for i := 0; i < 8; i++ {
						step()
						time.Sleep(time.Second)
					}
					// single-character mutations of the username (substitution, insertion, deletion) while still valid
					if d >= 90*time.Minute {
						return
					}
				})
				// mutations at a fixed instant well inside the window
				synctest.Test(t, func(t *testing.T) {
					var username, password string
					var h AuthHandler
					if rest {
						username, password, _ = GenerateLongTermTURNRESTCredentials(secret, user, time.Hour)
						h = LongTermTURNRESTAuthHandler(secret, nil)
					} else {
						username, password, _ = GenerateLongTermCredentials(secret, time.Hour)
						h = NewLongTermAuthHandler(secret, nil)
					}
					var muts []string
					for i := 0; i <= len(username); i++ {
						for _, c := range mutChars {
							muts = append(muts, username[:i]+string(c)+username[i:]) // insertion
							if i < len(username) {
								muts = append(muts, username[:i]+string(c)+username[i+1:]) // substitution
							}
						}
						if i < len(username) {
							muts = append(muts, username[:i]+username[i+1:]) // deletion
						}
					}
					for _, mu := range muts {
						_, key, ok := h7Ask(vt, kind, h, mu, realm)
						if ok && mu != username && h7Verifies(mu, realm, password, key) {
							vt.Alarm("ltcred-forgery", "%s altered username %q authenticates with the original password", kind, mu)
						}
					}
					// single-character mutations of the password never verify
					_, key, ok := h(&auth.RequestAttributes{Username: username, Realm: realm})
					for i := 0; ok && i < len(password); i++ {
						p := []byte(password)
						p[i] ^= 1
						if h7Verifies(username, realm, string(p), key) {
							vt.Alarm("ltcred-forgery", "%s altered password verifies", kind)
						}
					}
				})
			}
		}
	}
	// end to end: a real server with the long-term handler, a request signed with generated credentials
	synctest.Test(t, func(t *testing.T) {
		lis := []*h2Listener{{ip: net.ParseIP("10.0.0.1").To4()}}
		w := newH2WorldWith(vt, ServerConfig{AuthHandler: NewLongTermAuthHandler("e2e-secret", nil)}, lis, false, false, false)
		c := w.client(0, net.ParseIP("10.0.0.2").To4(), 4000)
		username, password, _ := GenerateLongTermCredentials("e2e-secret", 10*time.Second)
		try := func(tid int, pass string) string {
			nonce, _ := w.srv.nonceHash.Generate()
			m, _ := stun.Build(stun.NewTransactionIDSetter(tidOf(tid)), stun.NewType(stun.MethodAllocate, stun.ClassRequest),
				rawAttr{stun.AttrRequestedTransport, []byte{17, 0, 0, 0}}, stun.NewUsername(username), stun.NewRealm(w.realm), stun.NewNonce(nonce),
				stun.MessageIntegrity(h7Key(username, w.realm, pass)))
			c.sendRaw(m.Raw)
			outs := w.collect()
			for _, o := range outs {
				if len(o) > 4 && o[:4] == "resp" {
					return o
				}
			}
			return "-"
		}
		r1 := try(1, password+"x")
		r2 := try(2, password)
		time.Sleep(11 * time.Second)
		_ = try(3, "")
		r4 := try(4, password)
		vt.Note("e2e wrong password: %s", r1)
		vt.Note("e2e right password: %s", r2)
		vt.Note("e2e after expiry: %s", r4)
		if !containsAll(r1, "err 400") || !containsAll(r2, "Allocate ok") || !containsAll(r4, "err 400") {
			vt.Alarm("ltcred-e2e", "wrong=%q right=%q expired=%q", r1, r2, r4)
		}
		w.shutdown()
	})
	_ = fmt.Sprint
}

func containsAll(s string, sub string) bool {
	for i := 0; i+len(sub) <= len(s); i++ {
		if s[i:i+len(sub)] == sub {
			return true
		}
	}
	return false
}
