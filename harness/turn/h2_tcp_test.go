//go:build verif

package turn

// H2: RFC 6062 operations — Connect, inbound peer connections, ConnectionBind, the byte pipe.

import (
	"errors"
	"fmt"
	"net"
	"testing"
	"testing/synctest"
	"time"

	"github.com/pion/stun/v3"
	"github.com/pion/turn/v5/internal/proto"
)

func (w *h2World) realCid(idx int) (uint32, bool) {
	for r, i := range w.cidIndex {
		if i == idx {
			return r, true
		}
	}
	return 0, false
}

func (h *h2Hist) opConnect(c *h2Client) {
	k := c.key()
	cr := h.mkCred(h.owner[k])
	h.tid++
	var attrs []stun.Setter
	present, bad, addr, s := h.peerAttr(c)
	peerS := "-"
	dial := true
	if present {
		attrs = append(attrs, s)
		peerS = "!"
		if !bad {
			peerS = canonAddr(addr)
			if h.rng.Intn(12) == 0 { // nobody listens there
				attrs[len(attrs)-1] = proto.PeerAddress{IP: addr.IP, Port: 9999}
				peerS = canonIPPort(addr.IP, 9999)
				dial = false
			} else if h.rng.Intn(30) == 0 { // port 0 is refused before dialling
				attrs[len(attrs)-1] = proto.PeerAddress{IP: addr.IP, Port: 0}
				peerS = canonIPPort(addr.IP, 0)
				dial = false
			}
		}
	}
	h.w.dialFail = h.rng.Intn(15) == 0
	if h.w.dialFail {
		dial = false
	}
	cid := h.w.nextCid
	raw := h.build(stun.NewType(stun.MethodConnect, stun.ClassRequest), h.tid, &cr, attrs...)
	d := 0
	if dial {
		d = 1
	}
	h.w.plannedCid = cid
	h.do(fmt.Sprintf("m %s %d connect %d %s peer=%s dial=%d cid=%d", k, len(raw), h.tid, cr, peerS, d, cid), func() { c.sendRaw(raw) })
	h.w.dialFail = false
}

func (h *h2Hist) opConnBind() {
	// which connection: a known id most of the time (preferring unbound ones)
	idx := -1
	if h.w.nextCid > 0 && h.rng.Intn(20) > 2 {
		idx = h.rng.Intn(h.w.nextCid)
		for try := 0; try < 4 && h.boundCid[idx]; try++ {
			idx = h.rng.Intn(h.w.nextCid)
		}
	}
	// on which listener: normally the one whose manager holds the connection. For a stream listener that is a
	// fresh data connection; a packet listener can never splice a data connection (the request must be refused
	// without side effects)
	lid := -1
	for i, l := range h.w.lis {
		if l.stream {
			lid = i
		}
	}
	if idx >= 0 {
		if l, ok := h.cidLid[idx]; ok && h.rng.Intn(8) != 0 {
			lid = l
		}
	}
	if lid < 0 || h.rng.Intn(25) == 0 {
		lid = 0
	}
	var c *h2Client
	if !h.w.lis[lid].stream {
		a := h.cpool[h.rng.Intn(len(h.cpool))]
		c = h.w.client(lid, a.IP, a.Port)
		h.addKey(lid, c.srcAddr())
	} else {
		a := h.cpool[h.rng.Intn(3)]
		h.dataPort++
		c = h.w.client(lid, a.IP, h.dataPort)
		if c == nil {
			return
		}
		c.isData = true
		h.addKey(lid, c.srcAddr())
	}
	k := c.key()
	user := ""
	cidS := "-"
	var attrs []stun.Setter
	switch {
	case idx >= 0:
		real, _ := h.w.realCid(idx)
		attrs = append(attrs, proto.ConnectionID(real))
		cidS = fmt.Sprint(idx)
		user = h.cidUser[idx]
	case h.rng.Intn(3) == 0:
	case h.rng.Intn(2) == 0:
		attrs = append(attrs, rawAttr{stun.AttrConnectionID, []byte{1, 2}})
		cidS = "!"
	default:
		attrs = append(attrs, proto.ConnectionID(0xFFFFFFF0))
		cidS = "999999"
	}
	cr := h.mkCred(user)
	h.tid++
	raw := h.build(stun.NewType(stun.MethodConnectionBind, stun.ClassRequest), h.tid, &cr, attrs...)
	h.do(fmt.Sprintf("m %s %d cbind %d %s cid=%s", k, len(raw), h.tid, cr, cidS), func() { c.sendRaw(raw) })
}

// opForeignBind (C16, C03): another user, with his own valid credentials, names a still-unbound connection of
// somebody else's allocation; then the 30 s bind deadline passes.  The refused request must change nothing:
// the connection is still closed at its deadline (and until then the owner can still bind it).
func (h *h2Hist) opForeignBind() {
	idx := -1
	for i := h.w.nextCid - 1; i >= 0 && i >= h.w.nextCid-4; i-- {
		if !h.boundCid[i] && h.cidUser[i] != "" {
			idx = i
			break
		}
	}
	if idx < 0 {
		return
	}
	lid, ok := h.cidLid[idx]
	if !ok || !h.w.lis[lid].stream {
		return
	}
	other := "alice"
	if h.cidUser[idx] == "alice" {
		other = "bob"
	}
	a := h.cpool[h.rng.Intn(3)]
	h.dataPort++
	c := h.w.client(lid, a.IP, h.dataPort)
	if c == nil {
		return
	}
	c.isData = true
	h.addKey(lid, c.srcAddr())
	real, _ := h.w.realCid(idx)
	cr := h.goodCred(other)
	h.tid++
	raw := h.build(stun.NewType(stun.MethodConnectionBind, stun.ClassRequest), h.tid, &cr, proto.ConnectionID(real))
	h.do(fmt.Sprintf("m %s %d cbind %d %s cid=%d", c.key(), len(raw), h.tid, cr, idx), func() { c.sendRaw(raw) })
	h.vt.Stat("op.foreign-bind")
	if h.rng.Intn(2) == 0 {
		h.sleepOp(31 * time.Second)
	} else {
		h.sleepOp(time.Duration(1+h.rng.Intn(20)) * time.Second)
	}
}

func (h *h2Hist) tcpRelays() []string {
	var rs []string
	for r := range h.relays {
		if h.relayTCP[r] {
			rs = append(rs, r)
		}
	}
	sortStrings(rs)
	return rs
}

func (h *h2Hist) opPeerConn() {
	rs := h.tcpRelays()
	if len(rs) == 0 {
		return
	}
	r := rs[h.rng.Intn(len(rs))]
	ra := parseCanon(r)
	p := h.peers[h.rng.Intn(len(h.peers))]
	for _, c := range h.w.sortedClients() {
		if a := h.live(c); a != nil && canonAddr(a.RelayAddr) == r {
			p = h.goodPeer(c, false)
		}
	}
	la := &net.TCPAddr{IP: p.IP, Port: p.Port}
	cid := h.w.nextCid
	lid := h.relays[r]
	h.do(fmt.Sprintf("pconn %s %s %d", r, canonAddr(la), cid), func() {
		ca, _, err := h.w.n.dial(la, &net.TCPAddr{IP: ra.IP, Port: ra.Port}, "", "")
		if err != nil {
			return
		}
		pc := &h2PeerConn{cid: cid, lid: lid, conn: ca, peer: la}
		h.w.pconns = append(h.w.pconns, pc)
		go pc.readLoop()
	})
}

func (h *h2Hist) opPipe() {
	switch h.rng.Intn(6) {
	case 0, 1: // client -> peer on a bound data connection
		var cs []*h2Client
		for _, c := range h.w.sortedClients() {
			if c.isData && c.raw {
				cs = append(cs, c)
			}
		}
		if len(cs) == 0 {
			return
		}
		sortClients(cs)
		c := cs[h.rng.Intn(len(cs))]
		d := h.vt.Bytes(1 + h.rng.Intn(40))
		h.do(fmt.Sprintf("pc2p %s %s", c.key(), vhHex(d)), func() { _, _ = c.conn.Write(d) })
	case 2, 3: // peer -> client (bound or not yet bound)
		var ps []*h2PeerConn
		for _, pc := range h.w.pconns {
			if pc.cid >= 0 && !pc.eofRep && !pc.self {
				ps = append(ps, pc)
			}
		}
		if len(ps) == 0 {
			return
		}
		pc := ps[h.rng.Intn(len(ps))]
		d := h.vt.Bytes(1 + h.rng.Intn(40))
		h.do(fmt.Sprintf("pp2c %d %d %s", pc.lid, pc.cid, vhHex(d)), func() { _, _ = pc.conn.Write(d) })
	case 4: // the client closes its data connection
		var cs []*h2Client
		for _, c := range h.w.sortedClients() {
			if c.isData && c.raw {
				cs = append(cs, c)
			}
		}
		if len(cs) == 0 {
			return
		}
		sortClients(cs)
		c := cs[h.rng.Intn(len(cs))]
		k := c.key()
		h.do("pclosec "+k, func() { c.close() })
	default: // the peer closes a bound connection
		var ps []*h2PeerConn
		for _, pc := range h.w.pconns {
			if pc.cid >= 0 && !pc.eofRep && !pc.self && h.boundCid[pc.cid] {
				ps = append(ps, pc)
			}
		}
		if len(ps) == 0 {
			return
		}
		pc := ps[h.rng.Intn(len(ps))]
		pc.self = true
		h.do(fmt.Sprintf("pclosep %d %d", pc.lid, pc.cid), func() { _ = pc.conn.Close() })
	}
}

// h2BindResponseLost (C16, C15; monitor only): the client's data connection is reset right after it sent ConnectionBind, so the
// server cannot write the success response.  The peer connection named in the request was claimed by that request: it must be
// released (closed and forgotten), not left bound to nothing until the allocation ends.
func h2BindResponseLost(t *testing.T, vt *vhT) {
	synctest.Test(t, func(t *testing.T) {
		vt.Note("bind-response-lost scenario")
		lis := []*h2Listener{{stream: true, ip: net.ParseIP("10.0.0.1").To4()}}
		w := newH2World(vt, ServerConfig{}, lis, true, false)
		h := &h2Hist{vt: vt, w: w, lastTid: map[string]int{}, owner: map[string]string{}}
		nonce, _ := w.srv.nonceHash.Generate()
		cr := &h2Cred{mi: true, nonce: true, nonceOK: true, realm: true, uname: true, known: true, macOK: true, user: "alice", nonceVal: nonce, pass: h2Users["alice"]}
		a := w.client(0, net.ParseIP("10.0.0.2").To4(), 4000)
		peerIP := net.ParseIP("10.0.0.9").To4()
		pl := w.peerListener(peerIP, 9000)
		peer := proto.PeerAddress{IP: peerIP, Port: 9000}
		last := func(c *h2Client) *stun.Message {
			synctest.Wait()
			fr, _ := c.takeFrames()
			if len(fr) == 0 {
				return nil
			}
			m := &stun.Message{Raw: fr[len(fr)-1]}
			if m.Decode() != nil {
				return nil
			}
			return m
		}
		send := func(c *h2Client, typ stun.MessageType, attrs ...stun.Setter) *stun.Message {
			h.tid++
			c.sendRaw(h.build(typ, h.tid, cr, attrs...))
			return last(c)
		}
		if r := send(a, stun.NewType(stun.MethodAllocate, stun.ClassRequest), proto.RequestedTransport{Protocol: proto.ProtoTCP}); r == nil || r.Type.Class != stun.ClassSuccessResponse {
			vt.Alarm("h2-setup", "bind-response-lost: Allocate(TCP) failed")
			w.shutdown()
			return
		}
		_ = send(a, stun.NewType(stun.MethodCreatePermission, stun.ClassRequest), peer)
		r := send(a, stun.NewType(stun.MethodConnect, stun.ClassRequest), peer)
		var cid proto.ConnectionID
		if r == nil || r.Type.Class != stun.ClassSuccessResponse || cid.GetFrom(r) != nil {
			vt.Alarm("h2-setup", "bind-response-lost: Connect failed")
			w.shutdown()
			return
		}
		var peerEnd net.Conn
		select {
		case peerEnd = <-pl.acc:
		default:
		}
		// the data connection: ConnectionBind is written, then the connection is reset before the server answers
		da, db, err := w.n.dial(&net.TCPAddr{IP: net.ParseIP("10.0.0.2").To4(), Port: 7100}, w.lisAddr(0).(*net.TCPAddr), "", "")
		if err != nil {
			vt.Alarm("h2-setup", "bind-response-lost: data connection: %v", err)
			w.shutdown()
			return
		}
		db.failWrite = errors.New("simnet: connection reset by peer")
		h.tid++
		_, _ = da.Write(h.build(stun.NewType(stun.MethodConnectionBind, stun.ClassRequest), h.tid, cr, cid))
		synctest.Wait()
		_ = da.Close()
		time.Sleep(31 * time.Second) // past the 30 s bind deadline as well
		synctest.Wait()
		closed := false
		if pc, ok := peerEnd.(*simConn); ok && pc != nil {
			closed = pc.peerClosed()
		}
		if !closed {
			vt.Alarm("bind-response-lost-leaks-peer-connection", "31 s after a ConnectionBind whose success response could not be written the peer connection is still open")
		}
		if r := send(a, stun.NewType(stun.MethodConnect, stun.ClassRequest), peer); r == nil || r.Type.Class != stun.ClassSuccessResponse {
			code := stun.ErrorCodeAttribute{}
			if r != nil {
				_ = code.GetFrom(r)
			}
			vt.Alarm("bind-response-lost-leaks-peer-connection", "a new Connect to the same peer is refused (%v): the unusable connection is still registered", code.Code)
		}
		vt.Stat("bindlost.scenarios")
		w.shutdown()
	})
}

// h2BindPipelined (C16; monitor only): the client writes its first stream bytes right behind the ConnectionBind request, in the same
// TCP segment (it knows realm and nonce from the control connection, nothing forces it to wait).  Once bound, the bytes of the data
// connection reach the peer unmodified and in order - including those the server had already read together with the request.
func h2BindPipelined(t *testing.T, vt *vhT) {
	synctest.Test(t, func(t *testing.T) {
		vt.Note("bind-pipelined scenario")
		lis := []*h2Listener{{stream: true, ip: net.ParseIP("10.0.0.1").To4()}}
		w := newH2World(vt, ServerConfig{}, lis, true, false)
		h := &h2Hist{vt: vt, w: w, lastTid: map[string]int{}, owner: map[string]string{}}
		nonce, _ := w.srv.nonceHash.Generate()
		cr := &h2Cred{mi: true, nonce: true, nonceOK: true, realm: true, uname: true, known: true, macOK: true, user: "alice", nonceVal: nonce, pass: h2Users["alice"]}
		a := w.client(0, net.ParseIP("10.0.0.2").To4(), 4000)
		peerIP := net.ParseIP("10.0.0.9").To4()
		pl := w.peerListener(peerIP, 9000)
		peer := proto.PeerAddress{IP: peerIP, Port: 9000}
		last := func(c *h2Client) *stun.Message {
			synctest.Wait()
			fr, _ := c.takeFrames()
			if len(fr) == 0 {
				return nil
			}
			m := &stun.Message{Raw: fr[len(fr)-1]}
			if m.Decode() != nil {
				return nil
			}
			return m
		}
		send := func(c *h2Client, typ stun.MessageType, attrs ...stun.Setter) *stun.Message {
			h.tid++
			c.sendRaw(h.build(typ, h.tid, cr, attrs...))
			return last(c)
		}
		if r := send(a, stun.NewType(stun.MethodAllocate, stun.ClassRequest), proto.RequestedTransport{Protocol: proto.ProtoTCP}); r == nil || r.Type.Class != stun.ClassSuccessResponse {
			vt.Alarm("h2-setup", "bind-pipelined: Allocate(TCP) failed")
			w.shutdown()
			return
		}
		_ = send(a, stun.NewType(stun.MethodCreatePermission, stun.ClassRequest), peer)
		r := send(a, stun.NewType(stun.MethodConnect, stun.ClassRequest), peer)
		var cid proto.ConnectionID
		if r == nil || r.Type.Class != stun.ClassSuccessResponse || cid.GetFrom(r) != nil {
			vt.Alarm("h2-setup", "bind-pipelined: Connect failed")
			w.shutdown()
			return
		}
		var peerEnd net.Conn
		select {
		case peerEnd = <-pl.acc:
		default:
		}
		// the data connection: ConnectionBind is written, then the connection is reset before the server answers
		da, db, err := w.n.dial(&net.TCPAddr{IP: net.ParseIP("10.0.0.2").To4(), Port: 7100}, w.lisAddr(0).(*net.TCPAddr), "", "")
		if err != nil {
			vt.Alarm("h2-setup", "bind-pipelined: data connection: %v", err)
			w.shutdown()
			return
		}
		_ = db
		h.tid++
		req := h.build(stun.NewType(stun.MethodConnectionBind, stun.ClassRequest), h.tid, cr, cid)
		_, _ = da.Write(append(append([]byte{}, req...), []byte("HELLO-FROM-CLIENT:")...))
		synctest.Wait()
		_, _ = da.Write([]byte("second-part"))
		synctest.Wait()
		got := ""
		if pc, ok := peerEnd.(*simConn); ok && pc != nil {
			_ = pc.SetDeadline(time.Now())
			buf := make([]byte, 256)
			for {
				n, rerr := pc.Read(buf)
				got += string(buf[:n])
				if rerr != nil || n == 0 {
					break
				}
			}
		}
		if got != "HELLO-FROM-CLIENT:second-part" {
			vt.Alarm("bind-pipelined-bytes-lost", "the client sent %q right behind its ConnectionBind request and then %q: the peer received %q", "HELLO-FROM-CLIENT:", "second-part", got)
		}
		vt.Stat("bindpipelined.scenarios")
		w.shutdown()
	})
}

// h2SlowPermissionHandler (C07, C19; monitor only): the allocation's lifetime runs out while the PermissionHandler of a
// CreatePermission / ChannelBind is still thinking.  Whatever the handler answers afterwards, the request is for an allocation
// that no longer exists: it must not be answered with success (nothing was installed), as a Refresh in that position is not.
func h2SlowPermissionHandler(t *testing.T, vt *vhT) {
	for _, method := range []stun.Method{stun.MethodCreatePermission, stun.MethodChannelBind} {
		synctest.Test(t, func(t *testing.T) {
			vt.Note("slow-permission-handler scenario %s", method)
			lis := []*h2Listener{{ip: net.ParseIP("10.0.0.1").To4()}}
			w := newH2World(vt, ServerConfig{}, lis, true, false)
			h := &h2Hist{vt: vt, w: w, lastTid: map[string]int{}, owner: map[string]string{}}
			nonce, _ := w.srv.nonceHash.Generate()
			cr := &h2Cred{mi: true, nonce: true, nonceOK: true, realm: true, uname: true, known: true, macOK: true, user: "alice", nonceVal: nonce, pass: h2Users["alice"]}
			a := w.client(0, net.ParseIP("10.0.0.2").To4(), 4000)
			peer := proto.PeerAddress{IP: net.ParseIP("10.0.0.9").To4(), Port: 9000}
			send := func(typ stun.MessageType, attrs ...stun.Setter) *stun.Message {
				h.tid++
				a.sendRaw(h.build(typ, h.tid, cr, attrs...))
				synctest.Wait()
				var lastMsg *stun.Message
				for _, d := range a.pc.drain() {
					m := &stun.Message{Raw: append([]byte{}, d.data...)}
					if m.Decode() == nil {
						lastMsg = m
					}
				}

				return lastMsg
			}
			if r := send(stun.NewType(stun.MethodAllocate, stun.ClassRequest), proto.RequestedTransport{Protocol: proto.ProtoUDP}, proto.Lifetime{Duration: 2 * time.Second}); r == nil ||
				r.Type.Class != stun.ClassSuccessResponse {
				vt.Alarm("h2-setup", "slow-permission-handler: Allocate: %v", r)
				w.shutdown()

				return
			}
			w.permDelay.Store(int64(3 * time.Second))
			h.tid++
			attrs := []stun.Setter{peer}
			if method == stun.MethodChannelBind {
				attrs = []stun.Setter{proto.ChannelNumber(0x4000), peer}
			}
			a.sendRaw(h.build(stun.NewType(method, stun.ClassRequest), h.tid, cr, attrs...))
			time.Sleep(4 * time.Second) // the allocation ends at 2 s, the handler returns at 3 s
			synctest.Wait()
			w.permDelay.Store(0)
			gone := w.srv.AllocationCount() == 0
			for _, d := range a.pc.drain() {
				m := &stun.Message{Raw: append([]byte{}, d.data...)}
				if m.Decode() != nil || m.Type.Method != method {
					continue
				}
				if gone && m.Type.Class == stun.ClassSuccessResponse {
					vt.Alarm("success-for-ended-allocation", "the allocation's lifetime (2 s) ran out while the PermissionHandler of a %s was running (3 s); the request was then "+
						"answered with SUCCESS although the allocation is gone and nothing was installed", method)
				}
			}
			w.shutdown()
		})
		vt.Flush()
	}
}

// h2StaleStreamTeardown (C06, C04; monitor only): a stream client's connection dies while the server is still busy with a request
// from it; the client comes back from the same address and port and makes a new allocation over its new connection.  When the
// old connection's goroutine finally notices the end of its stream, its teardown must not take the NEW allocation with it.
func h2StaleStreamTeardown(t *testing.T, vt *vhT) {
	synctest.Test(t, func(t *testing.T) {
		vt.Note("stale-stream-teardown scenario")
		lis := []*h2Listener{{stream: true, ip: net.ParseIP("10.0.0.1").To4()}}
		w := newH2World(vt, ServerConfig{}, lis, true, false)
		h := &h2Hist{vt: vt, w: w, lastTid: map[string]int{}, owner: map[string]string{}}
		nonce, _ := w.srv.nonceHash.Generate()
		cred := func(u string) *h2Cred {
			return &h2Cred{mi: true, nonce: true, nonceOK: true, realm: true, uname: true, known: true, macOK: true, user: u, nonceVal: nonce, pass: h2Users[u]}
		}
		ip := net.ParseIP("10.0.0.2").To4()
		ask := func(c *h2Client, u string, typ stun.MessageType, attrs ...stun.Setter) *stun.Message {
			h.tid++
			c.sendRaw(h.build(typ, h.tid, cred(u), attrs...))
			synctest.Wait()
			fr, _ := c.takeFrames()
			if len(fr) == 0 {
				return nil
			}
			m := &stun.Message{Raw: fr[len(fr)-1]}
			if m.Decode() != nil {
				return nil
			}

			return m
		}
		ok := func(m *stun.Message) bool { return m != nil && m.Type.Class == stun.ClassSuccessResponse }
		udp := proto.RequestedTransport{Protocol: proto.ProtoUDP}
		c1 := w.client(0, ip, 4000)
		if c1 == nil || !ok(ask(c1, "alice", stun.NewType(stun.MethodAllocate, stun.ClassRequest), udp)) ||
			!ok(ask(c1, "alice", stun.NewType(stun.MethodRefresh, stun.ClassRequest), proto.Lifetime{})) {
			vt.Alarm("h2-setup", "stale-stream-teardown: first connection")
			w.shutdown()

			return
		}
		// the old connection's last request keeps the server busy for 2 s (slow AuthHandler); the connection is closed meanwhile
		w.authDelay.Store(int64(2 * time.Second))
		h.tid++
		c1.sendRaw(h.build(stun.NewType(stun.MethodRefresh, stun.ClassRequest), h.tid, cred("bob"), proto.Lifetime{Duration: time.Minute}))
		synctest.Wait()
		c1.close()
		delete(w.clients, c1.key())
		// the client is back from the same address and port
		c2 := w.client(0, ip, 4000)
		if c2 == nil || !ok(ask(c2, "alice", stun.NewType(stun.MethodAllocate, stun.ClassRequest), udp)) {
			vt.Alarm("h2-setup", "stale-stream-teardown: Allocate over the new connection")
			w.shutdown()

			return
		}
		time.Sleep(3 * time.Second) // the old connection's goroutine finishes its request, finds its stream ended and tears down
		synctest.Wait()
		w.authDelay.Store(0)
		if r := ask(c2, "alice", stun.NewType(stun.MethodRefresh, stun.ClassRequest), proto.Lifetime{Duration: 10 * time.Minute}); !ok(r) {
			vt.Alarm("allocation-vanished-after-success", "a stream client came back from the same address and port and made a new allocation while the server was still busy "+
				"with the last request of its old connection; the old connection's teardown then deleted the NEW allocation (Refresh over the new connection: %v, AllocationCount=%d)",
				r, w.srv.AllocationCount())
		}
		w.shutdown()
	})
	vt.Flush()
}

// h2UnsignedAttributes (C03; monitor only): MESSAGE-INTEGRITY covers the message up to itself.  What an on-path party appends
// BEHIND it is signed by nobody and must be ignored (RFC 5389 15.4) - here: a second XOR-PEER-ADDRESS behind the integrity of a
// genuine CreatePermission must not install a permission for that second peer.
func h2UnsignedAttributes(t *testing.T, vt *vhT) {
	synctest.Test(t, func(t *testing.T) {
		vt.Note("unsigned-attributes scenario")
		lis := []*h2Listener{{ip: net.ParseIP("10.0.0.1").To4()}}
		w := newH2World(vt, ServerConfig{}, lis, true, false)
		h := &h2Hist{vt: vt, w: w, lastTid: map[string]int{}, owner: map[string]string{}}
		nonce, _ := w.srv.nonceHash.Generate()
		cr := &h2Cred{mi: true, nonce: true, nonceOK: true, realm: true, uname: true, known: true, macOK: true, user: "alice", nonceVal: nonce, pass: h2Users["alice"]}
		a := w.client(0, net.ParseIP("10.0.0.2").To4(), 4000)
		drain := func() []*stun.Message {
			synctest.Wait()
			var out []*stun.Message
			for _, d := range a.pc.drain() {
				m := &stun.Message{Raw: append([]byte{}, d.data...)}
				if m.Decode() == nil {
					out = append(out, m)
				}
			}

			return out
		}
		h.tid++
		a.sendRaw(h.build(stun.NewType(stun.MethodAllocate, stun.ClassRequest), h.tid, cr, proto.RequestedTransport{Protocol: proto.ProtoUDP}))
		var relay *net.UDPAddr
		for _, m := range drain() {
			var ra proto.RelayedAddress
			if m.Type.Class == stun.ClassSuccessResponse && ra.GetFrom(m) == nil {
				relay = &net.UDPAddr{IP: ra.IP, Port: ra.Port}
			}
		}
		if relay == nil {
			vt.Alarm("h2-setup", "unsigned-attributes: Allocate")
			w.shutdown()

			return
		}
		signedPeer := proto.PeerAddress{IP: net.ParseIP("10.0.0.9").To4(), Port: 9000}
		smuggled := proto.PeerAddress{IP: net.ParseIP("10.0.0.8").To4(), Port: 9000}
		h.tid++
		raw := h.build(stun.NewType(stun.MethodCreatePermission, stun.ClassRequest), h.tid, cr, signedPeer)
		// the attribute an on-path party appends behind MESSAGE-INTEGRITY (same transaction id: the XOR uses it for IPv6 only)
		signed := &stun.Message{Raw: append([]byte{}, raw...)}
		_ = signed.Decode()
		extra, _ := stun.Build(stun.NewTransactionIDSetter(signed.TransactionID), stun.NewType(stun.MethodCreatePermission, stun.ClassRequest), smuggled)
		tlv := extra.Raw[20:]
		forged := append(append([]byte{}, raw...), tlv...)
		l := int(forged[2])<<8 | int(forged[3])
		l += len(tlv)
		forged[2], forged[3] = byte(l>>8), byte(l)
		a.sendRaw(forged)
		answered := false
		for _, m := range drain() {
			if m.Type.Method == stun.MethodCreatePermission && m.Type.Class == stun.ClassSuccessResponse {
				answered = true
			}
		}
		// the smuggled peer now sends to the relayed address
		sock := w.peerUDPSock(smuggled.IP, smuggled.Port)
		_, _ = sock.WriteTo([]byte("from the peer nobody signed for"), relay)
		for _, m := range drain() {
			if m.Type.Method == stun.MethodData {
				vt.Alarm("unsigned-attribute-honoured", "an XOR-PEER-ADDRESS appended BEHIND the MESSAGE-INTEGRITY of a genuine CreatePermission (answered with success: %v) installed a "+
					"permission: a datagram from that peer, for which the client never signed anything, is relayed to the client", answered)
			}
		}
		w.shutdown()
	})
	vt.Flush()
}
