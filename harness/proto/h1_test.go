//go:build verif

package proto

// H1 — correspondence harness for M1 (wire codecs) and M2 (stream framer).
// Drives the real internal/proto code; the Lean driver replays the `>` lines.

import (
	"fmt"
	"encoding/binary"
	"errors"
	"io"
	"net"
	"strings"
	"testing"
	"time"

	"github.com/pion/stun/v3"
)

// ---------- ChannelData codec ----------

func h1CDEnc(t *vhT, num uint16, d []byte) {
	c := ChannelData{Number: ChannelNumber(num), Data: d}
	if len(d) < 4096 && t.Rng.Intn(3) == 0 {
		// a reused value: Raw keeps the (non-zero) bytes of an earlier, longer message in its backing array
		dirty := make([]byte, len(d)+64)
		for i := range dirty {
			dirty[i] = 0xAA
		}
		c.Raw = dirty[:0]
		t.Stat("cdenc.reused-buffer")
	}
	c.Encode()
	t.Op("cdenc %d %s", num, vhHex(d))
	t.Obs("%s", vhHex(c.Raw))
	// monitor (C11): length field, zero padding, multiple of 4, round trip
	if len(d) < 65536 {
		raw := c.Raw
		bad := len(raw)%4 != 0 || len(raw) < 4+len(d) || len(raw) >= 4+len(d)+4 ||
			int(binary.BigEndian.Uint16(raw[2:4])) != len(d) || binary.BigEndian.Uint16(raw[0:2]) != num
		for _, x := range raw[4+len(d):] {
			if x != 0 {
				bad = true
			}
		}
		if bad {
			t.Alarm("cd-encode-shape", "num=%d len=%d raw=%s", num, len(d), vhHex(raw[:min(len(raw), 16)]))
		}
		dec := ChannelData{Raw: raw}
		err := dec.Decode()
		if ChannelNumber(num).Valid() {
			if err != nil || dec.Number != ChannelNumber(num) || string(dec.Data) != string(d) {
				t.Alarm("cd-roundtrip", "num=%d len=%d err=%v", num, len(d), err)
			}
		} else if err == nil {
			t.Alarm("cd-invalid-number-decoded", "num=%d", num)
		}
	}
	t.Stat("cdenc")
}

func h1CDDec(t *vhT, raw []byte) {
	c := ChannelData{Raw: raw}
	err := c.Decode()
	t.Op("cddec %s", vhHex(raw))
	switch {
	case err == nil:
		t.Obs("ok %d %s", uint16(c.Number), vhHex(c.Data))
		t.Stat("cddec.ok")
		// monitor: exactly the declared bytes
		if len(raw) < 4 || len(c.Data) != int(binary.BigEndian.Uint16(raw[2:4])) || !c.Number.Valid() {
			t.Alarm("cd-decode-accepts-bad", "raw=%s", vhHex(raw[:min(len(raw), 16)]))
		}
	case errors.Is(err, io.ErrUnexpectedEOF):
		t.Obs("err eof")
		t.Stat("cddec.eof")
	case errors.Is(err, ErrInvalidChannelNumber):
		t.Obs("err badnumber")
		t.Stat("cddec.badnumber")
	case errors.Is(err, ErrBadChannelDataLength):
		t.Obs("err badlength")
		t.Stat("cddec.badlength")
	default:
		t.Obs("err other:%v", err)
	}
	t.Op("ischan %s", vhHex(raw))
	t.Obs("%v", IsChannelData(raw))
	if IsChannelData(raw) != (err == nil) {
		t.Alarm("ischanneldata-disagrees", "raw=%s", vhHex(raw[:min(len(raw), 16)]))
	}
}

// ---------- consumeSingleTURNFrame ----------

func h1Consume(t *vhT, b []byte) {
	t.Op("consume %s", vhHex(b))
	n, err := consumeSingleTURNFrame(b)
	switch {
	case err == nil:
		t.Obs("ok %d", n)
		t.Stat("consume.ok")
		if n <= 0 || n > len(b) {
			t.Alarm("consume-no-progress", "n=%d len=%d hdr=%s", n, len(b), vhHex(b[:min(len(b), 8)]))
		}
	case errors.Is(err, errIncompleteTURNFrame):
		t.Obs("incomplete")
		t.Stat("consume.incomplete")
	case errors.Is(err, errInvalidTURNFrame):
		t.Obs("invalid")
		t.Stat("consume.invalid")
	default:
		t.Obs("other:%v", err)
	}
}

// scripted net.Conn: each Read returns the next chunk (or part of it if the buffer is small)
type h1Conn struct {
	chunks [][]byte
	reads  int
	// eofWithData: the Read that delivers the last bytes of the stream also reports io.EOF (allowed by io.Reader; crypto/tls
	// does it when the peer's close_notify is already queued behind the data)
	eofWithData bool
}

var h1EOFWithData bool // picked up by the next h1FramesCap call

func (c *h1Conn) Read(p []byte) (int, error) {
	c.reads++
	for len(c.chunks) > 0 && len(c.chunks[0]) == 0 {
		c.chunks = c.chunks[1:]
	}
	if len(c.chunks) == 0 {
		return 0, io.EOF
	}
	n := copy(p, c.chunks[0])
	c.chunks[0] = c.chunks[0][n:]
	if c.eofWithData {
		rest := 0
		for _, ch := range c.chunks {
			rest += len(ch)
		}
		if rest == 0 {
			return n, io.EOF
		}
	}
	return n, nil
}
func (c *h1Conn) Write(p []byte) (int, error)      { return len(p), nil }
func (c *h1Conn) Close() error                     { return nil }
func (c *h1Conn) LocalAddr() net.Addr              { return &net.TCPAddr{IP: net.IPv4(127, 0, 0, 1), Port: 1} }
func (c *h1Conn) RemoteAddr() net.Addr             { return &net.TCPAddr{IP: net.IPv4(127, 0, 0, 1), Port: 2} }
func (c *h1Conn) SetDeadline(time.Time) error      { return nil }
func (c *h1Conn) SetReadDeadline(time.Time) error  { return nil }
func (c *h1Conn) SetWriteDeadline(time.Time) error { return nil }

// h1Frames feeds the chunks to a real STUNConn and reads until the first error.
// frames (if non-nil) are the frames the stream was built from: the C10 monitor compares.
func h1Frames(t *vhT, chunks [][]byte, frames [][]byte, kind string) {
	h1FramesCap(t, chunks, frames, kind, 0)
	// the same stream read with a caller buffer smaller than some frames (the server reads into an
	// inbound-MTU sized buffer): every frame must still be consumed exactly once
	if t.Rng.Intn(5) == 0 {
		h1FramesCap(t, chunks, nil, kind+"-smallbuf", []int{1, 7, 19, 64, 1600}[t.Rng.Intn(5)])
	}
	// the same stream with the end of the stream reported together with its last bytes: same frames
	if t.Rng.Intn(3) == 0 {
		h1EOFWithData = true
		h1FramesCap(t, chunks, frames, kind+"-eofdata", 0)
	}
}

// h1FramesCap feeds the chunks to a real STUNConn and reads until the first error.
// frames (if non-nil) are the frames the stream was built from: the C10 monitor compares.
// bufCap > 0: the caller's buffer has that many bytes; ReadFrom reports the full frame size.
func h1FramesCap(t *vhT, chunks [][]byte, frames [][]byte, kind string, bufCap int) {
	var sb strings.Builder
	nonEmpty := 0
	total := 0
	for _, c := range chunks {
		if len(c) > 0 {
			sb.WriteString(" " + vhHex(c))
			nonEmpty++
			total += len(c)
		}
	}
	if bufCap > 0 {
		t.OpSync("framesb %d%s", bufCap, sb.String())
	} else {
		t.Op("frames%s", sb.String())
	}
	cp := make([][]byte, len(chunks))
	for i := range chunks {
		cp[i] = append([]byte{}, chunks[i]...)
	}
	conn := &h1Conn{chunks: cp, eofWithData: h1EOFWithData}
	h1EOFWithData = false
	sc := NewSTUNConn(conn)
	buf := make([]byte, 70000)
	if bufCap > 0 {
		buf = make([]byte, bufCap)
	}
	var out strings.Builder
	var got [][]byte
	end := ""
	empties := 0
	iters := 0
	for end == "" {
		n, _, err := sc.ReadFrom(buf)
		iters++
		switch {
		case err == nil:
			m := n
			if m > len(buf) {
				m = len(buf)
			}
			if bufCap > 0 {
				out.WriteString(fmt.Sprintf("F %d %s ", n, vhHex(buf[:m])))
			} else {
				out.WriteString("F " + vhHex(buf[:m]) + " ")
			}
			got = append(got, append([]byte{}, buf[:m]...))
			if n == 0 {
				empties++
				if empties >= 3 {
					end = "spin"
					t.Alarm("framer-spins", "zero-length frames returned repeatedly; stream=%s", kind)
				}
			}
			if iters > total+2 {
				end = "spin"
				t.Alarm("framer-spins", "%d frames returned from a stream of %d bytes (a frame is returned without being consumed); stream=%s buffer=%d", iters, total, kind, len(buf))
			}
		case errors.Is(err, errInvalidTURNFrame):
			end = "invalid"
		case errors.Is(err, io.EOF):
			end = "eof"
		default:
			end = "other:" + err.Error()
		}
	}
	t.Obs("%sEND %s", out.String(), end)
	t.Stat("frames." + kind + "." + end)
	if frames != nil {
		ok := len(got) == len(frames)
		for i := 0; ok && i < len(frames); i++ {
			ok = string(got[i]) == string(frames[i])
		}
		if !ok {
			t.Alarm("framer-roundtrip", "kind=%s frames=%d got=%d chunks=%d", kind, len(frames), len(got), nonEmpty)
		}
	}
}

func h1StunFrame(t *vhT, bodyLen int) []byte {
	b := make([]byte, 20+bodyLen)
	typ := []uint16{0x0001, 0x0003, 0x0101, 0x0113, 0x0016, 0x0017, 0x0009}[t.Rng.Intn(7)]
	binary.BigEndian.PutUint16(b[0:2], typ)
	binary.BigEndian.PutUint16(b[2:4], uint16(bodyLen))
	binary.BigEndian.PutUint32(b[4:8], 0x2112A442)
	copy(b[8:], t.Bytes(12+bodyLen))
	return b
}

func h1CDFrame(t *vhT, num uint16, payload []byte) []byte {
	c := ChannelData{Number: ChannelNumber(num), Data: payload}
	c.Encode()
	return append([]byte{}, c.Raw...)
}

func h1Cut(stream []byte, cuts []int) [][]byte {
	var out [][]byte
	prev := 0
	for _, c := range cuts {
		out = append(out, stream[prev:c])
		prev = c
	}
	return append(out, stream[prev:])
}

// ---------- attributes through the real stun.Message ----------

func h1ErrKind(err error) string {
	switch {
	case err == nil:
		return ""
	case errors.Is(err, stun.ErrAttributeNotFound):
		return "notfound"
	case errors.Is(err, stun.ErrAttributeSizeInvalid):
		return "badsize"
	case errors.Is(err, stun.ErrAttributeSizeOverflow):
		return "overflow"
	case errors.Is(err, io.ErrUnexpectedEOF):
		return "eof"
	case errors.Is(err, errInvalidRequestedFamilyValue):
		return "badvalue"
	case errors.Is(err, stun.ErrBadIPLength):
		return "badiplen"
	case strings.Contains(err.Error(), "family"):
		return "badfamily"
	}
	if strings.HasPrefix(err.Error(), "panic:") {
		return "panic"
	}
	return "other:" + err.Error()
}

func h1Msg(raw *[]byte, typ stun.AttrType) *stun.Message {
	m := stun.New()
	m.TransactionID = [12]byte{}
	if raw != nil {
		m.Add(typ, *raw)
	}
	// as on the wire: the attribute values are sub-slices of a buffer that ends with the message
	m.WriteHeader()
	exact := make([]byte, len(m.Raw))
	copy(exact, m.Raw)
	m2 := &stun.Message{Raw: exact}
	if err := m2.Decode(); err != nil {
		return m
	}
	return m2
}

func h1RawOf(m *stun.Message, typ stun.AttrType) string {
	v, err := m.Get(typ)
	if err != nil {
		return "err " + h1ErrKind(err)
	}
	return vhHex(v)
}

type h1Attr struct {
	name string
	typ  stun.AttrType
	size int // expected size, -1 = any
	get  func(m *stun.Message, dirty bool) (string, error) // dirty: decode into a receiver that already holds another value
}

func h1Attrs() []h1Attr {
	return []h1Attr{
		{"lifetime", stun.AttrLifetime, 4, func(m *stun.Message, dirty bool) (string, error) {
			var l Lifetime
			if dirty {
				l.Duration = 12345 * time.Second
			}
			err := l.GetFrom(m)
			return itoa(int64(l.Duration / time.Second)), err
		}},
		{"connid", stun.AttrConnectionID, 4, func(m *stun.Message, dirty bool) (string, error) {
			var c ConnectionID
			if dirty {
				c = 0xDEADBEEF
			}
			err := c.GetFrom(m)
			return itoa(int64(c)), err
		}},
		{"channum", stun.AttrChannelNumber, 4, func(m *stun.Message, dirty bool) (string, error) {
			var c ChannelNumber
			if dirty {
				c = 0x7FFE
			}
			err := c.GetFrom(m)
			return itoa(int64(c)), err
		}},
		{"reqtrans", stun.AttrRequestedTransport, 4, func(m *stun.Message, dirty bool) (string, error) {
			var c RequestedTransport
			if dirty {
				c.Protocol = 99
			}
			err := c.GetFrom(m)
			return itoa(int64(c.Protocol)), err
		}},
		{"reqfam", stun.AttrRequestedAddressFamily, 4, func(m *stun.Message, dirty bool) (string, error) {
			var c RequestedAddressFamily
			if dirty {
				c = RequestedFamilyIPv6
			}
			err := c.GetFrom(m)
			return itoa(int64(c)), err
		}},
		{"evenport", stun.AttrEvenPort, 1, func(m *stun.Message, dirty bool) (string, error) {
			var c EvenPort
			if dirty {
				c.ReservePort = true
			}
			err := c.GetFrom(m)
			if c.ReservePort {
				return "true", err
			}
			return "false", err
		}},
		{"rsrvtoken", stun.AttrReservationToken, 8, func(m *stun.Message, dirty bool) (string, error) {
			var c ReservationToken
			if dirty {
				c = ReservationToken{9, 8, 7, 6, 5, 4, 3, 2, 1, 0, 1, 2}
			}
			err := c.GetFrom(m)
			return vhHex(c), err
		}},
		{"dontfrag", stun.AttrDontFragment, 0, func(m *stun.Message, dirty bool) (string, error) {
			var c DontFragment
			err := c.GetFrom(m)
			return "set", err
		}},
		{"data", stun.AttrData, -1, func(m *stun.Message, dirty bool) (string, error) {
			var c Data
			if dirty {
				c = Data{9, 9, 9, 9, 9, 9, 9, 9, 9, 9, 9, 9, 9, 9, 9, 9, 9, 9, 9, 9}
			}
			err := c.GetFrom(m)
			return vhHex(c), err
		}},
	}
}

func itoa(n int64) string {
	return strings.TrimSpace(strings.Replace(string(appendInt(nil, n)), "+", "", 1))
}
func appendInt(b []byte, n int64) []byte {
	if n == 0 {
		return append(b, '0')
	}
	neg := n < 0
	if neg {
		n = -n
	}
	var tmp [24]byte
	i := len(tmp)
	for n > 0 {
		i--
		tmp[i] = byte('0' + n%10)
		n /= 10
	}
	if neg {
		i--
		tmp[i] = '-'
	}
	return append(b, tmp[i:]...)
}

func h1AttrGet(t *vhT, a h1Attr, raw *[]byte) {
	arg := "-"
	if raw != nil {
		arg = vhHex(*raw)
	}
	t.Op("%s get %s", a.name, arg)
	var v string
	var err error
	func() {
		defer func() {
			if r := recover(); r != nil {
				err = fmt.Errorf("panic: %v", r)
				t.Alarm("attr-get-panics", "%s get %s: %v", a.name, arg, r)
			}
		}()
		v, err = a.get(h1Msg(raw, a.typ), false)
		// a decoder is a function of the message: the same message decoded into a receiver that already holds
		// another value must give the same result
		if v2, err2 := a.get(h1Msg(raw, a.typ), true); (err == nil) != (err2 == nil) || (err == nil && v2 != v) {
			t.Alarm("attr-get-stateful", "%s get %s: %q into a fresh value, %q (err=%v) into a used one", a.name, arg, v, v2, err2)
		}
	}()
	if err != nil {
		t.Obs("err %s", h1ErrKind(err))
		t.Stat("attr." + a.name + ".err." + h1ErrKind(err))
	} else {
		t.Obs("ok %s", v)
		t.Stat("attr." + a.name + ".ok")
		if raw != nil && a.size >= 0 && len(*raw) != a.size {
			t.Alarm("attr-wrong-size-accepted", "%s len=%d", a.name, len(*raw))
		}
	}
}

func h1XorGet(t *vhT, tid [12]byte, raw *[]byte) {
	arg := "-"
	if raw != nil {
		arg = vhHex(*raw)
	}
	t.Op("xoraddr get %s %s", vhHex(tid[:]), arg)
	m := stun.New()
	m.TransactionID = tid
	if raw != nil {
		m.Add(stun.AttrXORPeerAddress, *raw)
	}
	var p PeerAddress
	err := p.GetFrom(m)
	if err != nil {
		t.Obs("err %s", h1ErrKind(err))
		t.Stat("attr.xoraddr.err." + h1ErrKind(err))
		return
	}
	t.Obs("ok %s %d", vhHex(p.IP), p.Port)
	t.Stat("attr.xoraddr.ok")
	if raw != nil && len(*raw) != 8 && len(*raw) != 20 {
		t.Alarm("xoraddr-short-value-accepted", "value length %d family %d decodes to %s", len(*raw), binary.BigEndian.Uint16((*raw)[0:2]), p.IP)
	} else if raw != nil && ((len(*raw) == 8) != (binary.BigEndian.Uint16((*raw)[0:2]) == 1)) {
		t.Alarm("xoraddr-short-value-accepted", "value length %d family %d decodes to %s", len(*raw), binary.BigEndian.Uint16((*raw)[0:2]), p.IP)
	}
}

func h1XorAdd(t *vhT, tid [12]byte, ip net.IP, port int) {
	t.Op("xoraddr add %s %s %d", vhHex(tid[:]), vhHex(ip), port)
	m := stun.New()
	m.TransactionID = tid
	err := PeerAddress{IP: ip, Port: port}.AddTo(m)
	if err != nil {
		t.Obs("err %s", h1ErrKind(err))
		return
	}
	t.Obs("ok %s", h1RawOf(m, stun.AttrXORPeerAddress))
	t.Stat("attr.xoraddr.add")
	// monitor: round trip through relayed-address too
	var r RelayedAddress
	m2 := stun.New()
	m2.TransactionID = tid
	_ = RelayedAddress{IP: ip, Port: port}.AddTo(m2)
	if err := r.GetFrom(m2); err != nil || !r.IP.Equal(ip) || r.Port != port {
		t.Alarm("xoraddr-roundtrip", "ip=%s port=%d got=%s:%d err=%v", ip, port, r.IP, r.Port, err)
	}
}

// ---------- the test ----------

func TestVerifH1(t *testing.T) {
	vt := vhOpen("h1")
	defer vt.Close()
	rng := vt.Rng
	thorough := vt.Thorough()

	// (1) ChannelData encode/decode: every one of the 65536 numbers, small lengths incl. all residues
	for num := 0; num < 65536; num++ {
		l := rng.Intn(9)
		if num%64 == 0 {
			l = []int{0, 1, 2, 3, 4, 5, 63, 64}[rng.Intn(8)]
		}
		h1CDEnc(vt, uint16(num), vt.Bytes(l))
	}
	lens := []int{0, 1, 2, 3, 4, 5, 6, 7, 8, 1595, 1596, 1597, 1598, 1599, 1600, 1601, 1602, 1603, 1604, 1605, 65531, 65532, 65533, 65534, 65535}
	for l := 9; l <= 64; l++ {
		lens = append(lens, l)
	}
	if thorough {
		for l := 65; l < 65536; l += 1 + rng.Intn(3) {
			lens = append(lens, l)
		}
	}
	for _, l := range lens {
		num := uint16(0x4000 + rng.Intn(0x4000))
		h1CDEnc(vt, num, vt.Bytes(l))
	}
	// encode truncates the length field to uint16 for oversize data (model mirrors the wrap)
	h1CDEnc(vt, 0x4000, make([]byte, 65536))
	h1CDEnc(vt, 0x4001, make([]byte, 65539))

	// (2) raw buffers: every header class x every relation between declared and actual length
	for i := 0; i < 4; i++ {
		h1CDDec(vt, vt.Bytes(i))
	}
	nums := []uint16{0, 1, 0x3FFF, 0x4000, 0x4001, 0x7FFE, 0x7FFF, 0x8000, 0xFFFF}
	for k := 0; k < 64; k++ {
		nums = append(nums, uint16(rng.Intn(65536)))
	}
	for _, num := range nums {
		for _, decl := range []int{0, 1, 2, 3, 4, 5, 7, 8, 100, 0xFFFF} {
			for _, actual := range []int{0, 1, decl - 1, decl, decl + 1, decl + 3, decl + 4} {
				if actual < 0 || actual > 300 {
					continue
				}
				raw := make([]byte, 4+actual)
				binary.BigEndian.PutUint16(raw[0:2], num)
				binary.BigEndian.PutUint16(raw[2:4], uint16(decl))
				copy(raw[4:], vt.Bytes(actual))
				h1CDDec(vt, raw)
			}
		}
	}
	for num := 0; num < 65536; num++ { // all 65536 numbers once more as raw headers
		raw := []byte{byte(num >> 8), byte(num), 0, byte(num % 3), 7, 7}
		h1CDDec(vt, raw)
	}

	// (3) consume: all 2^16 length fields x {ChannelData, STUN, garbage} with short buffers
	for l := 0; l < 65536; l++ {
		for class := 0; class < 3; class++ {
			blen := []int{4, 8, 9, 12, 20, 24}[rng.Intn(6)]
			b := make([]byte, blen)
			switch class {
			case 0:
				binary.BigEndian.PutUint16(b[0:2], uint16(0x4000+rng.Intn(0x4000)))
			case 1:
				binary.BigEndian.PutUint16(b[0:2], uint16(rng.Intn(0x4000)))
				if blen >= 8 {
					binary.BigEndian.PutUint32(b[4:8], 0x2112A442)
				}
			case 2:
				binary.BigEndian.PutUint16(b[0:2], uint16(0x8000+rng.Intn(0x8000)))
				if blen > 4 {
					copy(b[4:], vt.Bytes(blen-4))
				}
			}
			binary.BigEndian.PutUint16(b[2:4], uint16(l))
			h1Consume(vt, b)
		}
	}
	// exact / long / one-short buffers for a stratified set of lengths
	var strat []int
	for l := 0; l <= 40; l++ {
		strat = append(strat, l)
	}
	strat = append(strat, 1596, 1600, 1601, 4095, 4096, 32767, 32768, 65000, 65515, 65516, 65531, 65532, 65533, 65534, 65535)
	if thorough {
		for l := 41; l < 65536; l += 1 + rng.Intn(40) {
			strat = append(strat, l)
		}
	}
	for _, l := range strat {
		for class := 0; class < 2; class++ {
			size := 20 + l
			if class == 0 {
				size = 4 + nearestPaddedValueLength(l)
			}
			for _, blen := range []int{size - 1, size, size + 1, size + 5} {
				if blen < 0 {
					continue
				}
				b := make([]byte, blen)
				if class == 0 {
					if blen >= 2 {
						binary.BigEndian.PutUint16(b[0:2], uint16(0x4000+rng.Intn(0x4000)))
					}
					if blen >= 8 && rng.Intn(4) == 0 { // payload that starts with the magic cookie
						binary.BigEndian.PutUint32(b[4:8], 0x2112A442)
					}
				} else if blen >= 8 {
					binary.BigEndian.PutUint32(b[4:8], 0x2112A442)
				}
				if blen >= 4 {
					binary.BigEndian.PutUint16(b[2:4], uint16(l))
				}
				h1Consume(vt, b)
			}
		}
	}
	for i := 0; i < 3000; i++ { // random short garbage of every length 0..40
		h1Consume(vt, vt.Bytes(rng.Intn(41)))
	}

	// (4) frame sequences x segmentations through the real STUNConn
	mkFrames := func(n int) [][]byte {
		var fs [][]byte
		for i := 0; i < n; i++ {
			switch rng.Intn(6) {
			case 0, 1:
				fs = append(fs, h1StunFrame(vt, 4*rng.Intn(12)))
			case 2:
				fs = append(fs, h1CDFrame(vt, uint16(0x4000+rng.Intn(0x4000)), vt.Bytes(rng.Intn(10))))
			case 3:
				fs = append(fs, h1CDFrame(vt, []uint16{0x4000, 0x7FFF, 0x5555}[rng.Intn(3)], vt.Bytes(rng.Intn(5))))
			case 4: // payload that looks like a STUN header
				p := append([]byte{0x21, 0x12, 0xA4, 0x42}, vt.Bytes(12+rng.Intn(8))...)
				fs = append(fs, h1CDFrame(vt, uint16(0x4000+rng.Intn(0x4000)), p))
			default:
				fs = append(fs, h1CDFrame(vt, uint16(0x4000+rng.Intn(0x4000)), vt.Bytes(rng.Intn(40))))
			}
		}
		return fs
	}
	flat := func(fs [][]byte) []byte {
		var s []byte
		for _, f := range fs {
			s = append(s, f...)
		}
		return s
	}
	nseq := 60
	if thorough {
		nseq = 600
	}
	for i := 0; i < nseq; i++ {
		fs := mkFrames(1 + rng.Intn(4))
		s := flat(fs)
		h1Frames(vt, [][]byte{s}, fs, "whole")
		var bytewise [][]byte
		for j := range s {
			bytewise = append(bytewise, s[j:j+1])
		}
		h1Frames(vt, bytewise, fs, "bytewise")
		for c := 1; c < len(s); c++ { // every single cut
			h1Frames(vt, h1Cut(s, []int{c}), fs, "cut1")
		}
		if len(s) <= 48 || thorough { // every pair of cuts for short streams
			step := 1
			if len(s) > 48 {
				step = 1 + len(s)/24
			}
			for c1 := 1; c1 < len(s); c1 += step {
				for c2 := c1 + 1; c2 < len(s); c2 += step {
					h1Frames(vt, h1Cut(s, []int{c1, c2}), fs, "cut2")
				}
			}
		}
		for k := 0; k < 8; k++ { // random cuts
			var cuts []int
			for c := 1; c < len(s); c++ {
				if rng.Intn(6) == 0 {
					cuts = append(cuts, c)
				}
			}
			h1Frames(vt, h1Cut(s, cuts), fs, "random")
		}
		// truncated stream: frames, then a strict prefix of one more frame
		extra := mkFrames(1)[0]
		h1Frames(vt, [][]byte{s, extra[:rng.Intn(len(extra))]}, nil, "truncated")
		// frames followed by garbage
		h1Frames(vt, [][]byte{s, append([]byte{0x90, 0x01}, vt.Bytes(30)...)}, nil, "garbage")
	}
	// big frames: STUN bodies of every 4-aligned length up to 2 KiB, ChannelData at the uint16 extremes
	for bl := 0; bl <= 2048; bl += 4 {
		if !thorough && bl%64 != 0 {
			continue
		}
		fs := [][]byte{h1StunFrame(vt, bl), h1CDFrame(vt, 0x4000, vt.Bytes(rng.Intn(9)))}
		s := flat(fs)
		h1Frames(vt, h1Cut(s, []int{1 + rng.Intn(len(s)-1)}), fs, "bigstun")
	}
	for _, l := range []int{65531, 65532, 65533, 65534, 65535} {
		fs := [][]byte{h1CDFrame(vt, 0x7FFF, vt.Bytes(l)), h1StunFrame(vt, 8)}
		s := flat(fs)
		h1Frames(vt, h1Cut(s, []int{5, 65000}), fs, "bigcd")
	}
	{
		fs := [][]byte{h1StunFrame(vt, 65512), h1CDFrame(vt, 0x4000, []byte{1})}
		h1Frames(vt, h1Cut(flat(fs), []int{19, 21}), fs, "bigstun")
	}
	// hostile headers (C09): declared sizes that overflow uint16 arithmetic, then a liveness frame
	for _, l := range []int{0xFFEC, 0xFFED, 0xFFF0, 0xFFF8, 0xFFF9, 0xFFFA, 0xFFFB, 0xFFFC, 0xFFFD, 0xFFFE, 0xFFFF} {
		cd := []byte{0x40, 0x00, byte(l >> 8), byte(l), 1, 2, 3, 4, 5, 6, 7, 8}
		h1Frames(vt, [][]byte{cd}, nil, "hostile")
		st := make([]byte, 20)
		binary.BigEndian.PutUint16(st[2:4], uint16(l))
		binary.BigEndian.PutUint32(st[4:8], 0x2112A442)
		h1Frames(vt, [][]byte{st}, nil, "hostile")
	}

	// (5) attributes: all byte strings of length 0..2 exhaustively (thorough; quick: length 0..1 + sample),
	//     random strings of length 3..64, absent attribute
	attrs := h1Attrs()
	for _, a := range attrs {
		h1AttrGet(vt, a, nil)
		e := []byte{}
		h1AttrGet(vt, a, &e)
		for x := 0; x < 256; x++ {
			v := []byte{byte(x)}
			h1AttrGet(vt, a, &v)
		}
		for x := 0; x < 65536; x++ {
			if !thorough && x%97 != 0 {
				continue
			}
			v := []byte{byte(x >> 8), byte(x)}
			h1AttrGet(vt, a, &v)
		}
		for l := 3; l <= 64; l++ {
			reps := 6
			if l == a.size {
				reps = 200
			}
			for k := 0; k < reps; k++ {
				v := vt.Bytes(l)
				if k%3 == 0 && l >= 1 {
					v[0] = byte(rng.Intn(4)) // make legal family / transport values frequent
				}
				h1AttrGet(vt, a, &v)
			}
		}
	}
	// value-domain sweeps through AddTo (model: `X add v`)
	for _, s := range []uint32{0, 1, 2, 599, 600, 3599, 3600, 3601, 65535, 65536, 1<<31 - 1, 1 << 31, 1<<32 - 1} {
		m := stun.New()
		_ = Lifetime{Duration: time.Duration(s) * time.Second}.AddTo(m)
		vt.Op("lifetime add %d", s)
		vt.Obs("%s", h1RawOf(m, stun.AttrLifetime))
		m = stun.New()
		_ = ConnectionID(s).AddTo(m)
		vt.Op("connid add %d", s)
		vt.Obs("%s", h1RawOf(m, stun.AttrConnectionID))
	}
	for i := 0; i < 300; i++ {
		s := rng.Uint32()
		m := stun.New()
		_ = ConnectionID(s).AddTo(m)
		vt.Op("connid add %d", s)
		vt.Obs("%s", h1RawOf(m, stun.AttrConnectionID))
		s = rng.Uint32()
		m = stun.New()
		_ = Lifetime{Duration: time.Duration(s) * time.Second}.AddTo(m)
		vt.Op("lifetime add %d", s)
		vt.Obs("%s", h1RawOf(m, stun.AttrLifetime))
	}
	for n := 0; n < 65536; n++ {
		if !thorough && n%17 != 0 && n != 65535 {
			continue
		}
		m := stun.New()
		_ = ChannelNumber(n).AddTo(m)
		vt.Op("channum add %d", n)
		vt.Obs("%s", h1RawOf(m, stun.AttrChannelNumber))
	}
	for x := 0; x < 256; x++ {
		m := stun.New()
		_ = RequestedTransport{Protocol: Protocol(x)}.AddTo(m)
		vt.Op("reqtrans add %d", x)
		vt.Obs("%s", h1RawOf(m, stun.AttrRequestedTransport))
		m = stun.New()
		_ = RequestedAddressFamily(x).AddTo(m)
		vt.Op("reqfam add %d", x)
		vt.Obs("%s", h1RawOf(m, stun.AttrRequestedAddressFamily))
	}
	for _, r := range []bool{false, true} {
		m := stun.New()
		_ = EvenPort{ReservePort: r}.AddTo(m)
		vt.Op("evenport add %v", r)
		vt.Obs("%s", h1RawOf(m, stun.AttrEvenPort))
	}
	for l := 0; l <= 12; l++ {
		tok := vt.Bytes(l)
		m := stun.New()
		err := ReservationToken(tok).AddTo(m)
		vt.Op("rsrvtoken add %s", vhHex(tok))
		if err != nil {
			vt.Obs("err %s", h1ErrKind(err))
		} else {
			vt.Obs("ok %s", h1RawOf(m, stun.AttrReservationToken))
		}
	}
	{
		m := stun.New()
		_ = DontFragment{}.AddTo(m)
		vt.Op("dontfrag add")
		vt.Obs("%s", h1RawOf(m, stun.AttrDontFragment))
		vt.Op("dontfrag isset .")
		vt.Obs("%v", DontFragment{}.IsSet(m))
		vt.Op("dontfrag isset -")
		vt.Obs("%v", DontFragment{}.IsSet(stun.New()))
	}
	for _, l := range []int{0, 1, 3, 4, 5, 1500, 65000} {
		d := vt.Bytes(l)
		m := stun.New()
		_ = Data(d).AddTo(m)
		vt.Op("data add %s", vhHex(d))
		vt.Obs("%s", h1RawOf(m, stun.AttrData))
	}
	// XOR addresses
	for i := 0; i < 400; i++ {
		var tid [12]byte
		copy(tid[:], vt.Bytes(12))
		var ip net.IP
		switch rng.Intn(5) {
		case 0:
			ip = net.IP(vt.Bytes(4))
		case 1:
			ip = net.IPv4(byte(rng.Intn(256)), byte(rng.Intn(256)), 0, 1) // 16-byte v4-mapped form
		case 2:
			ip = net.IP(vt.Bytes(16))
		case 3:
			ip = net.IP(vt.Bytes([]int{0, 3, 5, 15, 17}[rng.Intn(5)])) // bad lengths
		default:
			ip = net.IP(vt.Bytes(4)).To16()
		}
		port := []int{0, 1, 0x2112, 3478, 65535, rng.Intn(65536)}[rng.Intn(6)]
		h1XorAdd(vt, tid, ip, port)
	}
	var zero [12]byte
	h1XorGet(vt, zero, nil)
	for l := 0; l <= 26; l++ {
		for fam := 0; fam < 4; fam++ {
			for k := 0; k < 4; k++ {
				v := vt.Bytes(l)
				if l >= 2 {
					v[0], v[1] = 0, byte(fam)
					if k == 3 {
						v[0] = 1
					}
				}
				var tid [12]byte
				copy(tid[:], vt.Bytes(12))
				h1XorGet(vt, tid, &v)
			}
		}
	}
}
