//go:build verif

package server

// H3 — both nonce managers (C03) under virtual time: every HMAC truncation length 2..32, validation at
// the minute boundaries of the whole window and just beyond it, and every kind of alteration
// (single-character mutations, case changes, stripped leading zeros, truncation, other instance).
// The Lean model takes the MAC as a parameter: each operation carries the real HMAC of the timestamp the
// nonce decodes to (an oracle entry), computed here with the instance's key.

import (
	"crypto/hmac"
	"crypto/sha256"
	"encoding/binary"
	"encoding/hex"
	"fmt"
	"strings"
	"testing"
	"testing/synctest"
	"time"
)

func h3Mac(key, ts []byte) []byte {
	h := hmac.New(sha256.New, key)
	_, _ = h.Write(ts)
	return h.Sum(nil)
}

// the 4 timestamp bytes a short nonce text decodes to (only to look up the oracle entry)
func h3ShortTS(text string, hmacLen int) []byte {
	b := decodeBase36(text)
	want := shortNonceTimestampLen + hmacLen
	if b == nil || len(b) > want {
		return nil
	}
	p := make([]byte, want)
	copy(p[want-len(b):], b)
	return p[:4]
}

func h3Short(vt *vhT, s *ShortNonceHash, text string, mintedAt int64, kind string) {
	oracle := "-"
	if ts := h3ShortTS(text, s.hmacLen); ts != nil {
		oracle = vhHex(ts) + ":" + vhHex(h3Mac(s.key, ts))
	}
	now := time.Now().Unix()
	vt.Op("snv %d %d %s %s", s.hmacLen, now, vhHex([]byte(text)), oracle)
	err := s.Validate(text)
	if err == nil {
		vt.Obs("ok")
		vt.Stat("snv." + kind + ".ok")
	} else {
		vt.Obs("bad")
		vt.Stat("snv." + kind + ".bad")
	}
	// C03 monitor: a nonce minted by ANOTHER instance is not this instance's (chance collision of >= 8 MAC bytes aside)
	if kind == "foreign" && err == nil && s.hmacLen >= 8 {
		vt.Alarm("nonce-foreign-accepted", "short nonce hmacLen=%d minted by another instance was accepted", s.hmacLen)
	}
	// C03 monitor for unaltered nonces: accepted iff stamped at most 60 whole minutes ago
	if kind == "minted" {
		age := now/60 - mintedAt/60
		if (err == nil) != (age >= 0 && age <= 60) {
			vt.Alarm("nonce-window", "short nonce hmacLen=%d age=%d min accepted=%v", s.hmacLen, age, err == nil)
		}
	}
}

func h3Long(vt *vhT, n *NonceHash, text string, mintedMs int64, kind string) {
	oracle := "-"
	if b, err := hex.DecodeString(text); err == nil && len(b) == nonceLength {
		oracle = vhHex(b[:8]) + ":" + vhHex(h3Mac(n.key, b[:8]))
	}
	now := time.Now().UnixMilli()
	vt.Op("lnv %d %s %s", now, vhHex([]byte(text)), oracle)
	err := n.Validate(text)
	if err == nil {
		vt.Obs("ok")
		vt.Stat("lnv." + kind + ".ok")
	} else {
		vt.Obs("bad")
		vt.Stat("lnv." + kind + ".bad")
	}
	if kind == "minted" && (err == nil) != (now-mintedMs <= int64(time.Hour/time.Millisecond)) {
		vt.Alarm("nonce-window", "long nonce age=%d ms accepted=%v", now-mintedMs, err == nil)
	}
}

func h3Mutations(text string, alphabet string, rng interface{ Intn(int) int }, n int) []string {
	var out []string
	for i := 0; i < len(text); i++ { // every single-character substitution by the next alphabet character
		j := strings.IndexByte(alphabet, text[i])
		c := alphabet[(j+1+len(alphabet))%len(alphabet)]
		out = append(out, text[:i]+string(c)+text[i+1:])
	}
	out = append(out, strings.ToLower(text), strings.ToUpper(text), strings.TrimLeft(text, "0"), "0"+text, "00"+text,
		text[1:], text[:len(text)-1], text+"0", text+"Z", "", "0", " "+text, text+"!", "-"+text)
	for k := 0; k < n; k++ {
		b := []byte(text)
		b[rng.Intn(len(b))] = alphabet[rng.Intn(len(alphabet))]
		out = append(out, string(b))
	}
	return out
}

func TestVerifH3(t *testing.T) {
	vt := vhOpen("h3")
	defer vt.Close()
	rng := vt.Rng
	const b36 = "0123456789ABCDEFGHIJKLMNOPQRSTUVWXYZ"
	for hl := shortNonceMinHMACLen; hl <= shortNonceMaxHMACLen; hl++ {
		if !vt.Thorough() && hl > 6 && hl != 12 && hl != 31 && hl != 32 && hl%5 != 0 {
			continue
		}
		synctest.Test(t, func(t *testing.T) {
			time.Sleep(time.Duration(rng.Intn(120)) * time.Second) // a random phase inside the minute
			mgr, err := NewShortNonceHash(hl)
			if err != nil {
				t.Fatal(err)
			}
			s := mgr.(*ShortNonceHash)
			o, _ := NewShortNonceHash(hl)
			other := o.(*ShortNonceHash)
			text, _ := s.Generate()
			minted := time.Now().Unix()
			foreign, _ := other.Generate()
			if len(s.key) < 16 || string(s.key) == string(other.key) {
				vt.Alarm("nonce-key-not-random", "two ShortNonceHash instances: key lengths %d/%d, equal=%v", len(s.key), len(other.key), string(s.key) == string(other.key))
			}
			h3Short(vt, s, text, minted, "minted")
			h3Short(vt, s, foreign, minted, "foreign")
			for _, mu := range h3Mutations(text, b36, rng, 20) {
				h3Short(vt, s, mu, minted, "mutated")
			}
			// every length around the decoded size, with the largest and smallest digits (a text that decodes to more
			// bytes than timestamp+MAC must be refused, not sliced)
			for l := 0; l <= len(text)+12; l++ {
				for _, ch := range []string{"Z", "0", "1", "z"} {
					h3Short(vt, s, strings.Repeat(ch, l), minted, "junk")
				}
			}
			// a future-dated nonce: one this very instance will mint two minutes from now
			// every minute boundary +-1 s over the window and beyond
			for m := 1; m <= 63; m++ {
				target := (minted/60 + int64(m)) * 60
				d := time.Duration(target-1-time.Now().Unix()) * time.Second
				if d > 0 {
					time.Sleep(d)
				}
				h3Short(vt, s, text, minted, "minted")
				time.Sleep(time.Second)
				h3Short(vt, s, text, minted, "minted")
				time.Sleep(time.Second)
				h3Short(vt, s, text, minted, "minted")
				if m == 30 || m == 61 {
					fresh, _ := s.Generate()
					h3Short(vt, s, fresh, time.Now().Unix(), "minted")
				}
			}
		})
	}
	// a nonce stamped in the future (minted later) presented earlier: take it from a second bubble with the same key
	synctest.Test(t, func(t *testing.T) {
		mgr, _ := NewShortNonceHash(0)
		s := mgr.(*ShortNonceHash)
		ts := make([]byte, 8)
		binary.BigEndian.PutUint64(ts, uint64(time.Now().Unix()/60+2))
		raw := append(append([]byte{}, ts[4:]...), h3Mac(s.key, ts[4:])[:s.hmacLen]...)
		h3Short(vt, s, encodeBase36(raw), time.Now().Unix(), "future")
	})
	// long nonce
	synctest.Test(t, func(t *testing.T) {
		time.Sleep(1234 * time.Millisecond)
		mgr, _ := NewNonceHash()
		n := mgr.(*NonceHash)
		o, _ := NewNonceHash()
		text, _ := n.Generate()
		minted := time.Now().UnixMilli()
		foreign, _ := o.(*NonceHash).Generate()
		if ok := o.(*NonceHash); len(n.key) < 16 || string(n.key) == string(ok.key) {
			vt.Alarm("nonce-key-not-random", "two NonceHash instances: key lengths %d/%d, equal=%v", len(n.key), len(ok.key), string(n.key) == string(ok.key))
		}
		h3Long(vt, n, text, minted, "minted")
		h3Long(vt, n, foreign, minted, "foreign")
		if n.Validate(foreign) == nil {
			vt.Alarm("nonce-foreign-accepted", "long nonce minted by another instance was accepted")
		}
		for _, mu := range h3Mutations(text, "0123456789abcdef", rng, 40) {
			h3Long(vt, n, mu, minted, "mutated")
		}
		for _, d := range []time.Duration{time.Second, 59 * time.Minute, 58 * time.Second, 999 * time.Millisecond, time.Millisecond, time.Millisecond, time.Second, time.Hour} {
			time.Sleep(d)
			h3Long(vt, n, text, minted, "minted")
		}
	})
	_ = fmt.Sprint
}
