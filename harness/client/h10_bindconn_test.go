//go:build verif

package client

// H10 — the client's parsing of the ConnectionBind reply (C10, last clause): TCPAllocation.BindConnection
// over a scripted connection, the same reply bytes (plus following application data) under every way of
// splitting them into reads.  Observed: the call's result class and what the application can still read
// from the data connection afterwards.

import (
	"errors"
	"fmt"
	"io"
	"net"
	"strings"
	"testing"
	"time"

	"github.com/pion/logging"
	"github.com/pion/stun/v3"
	"github.com/pion/turn/v5/internal/proto"
)

type h10Conn struct {
	chunks [][]byte
}

func (c *h10Conn) Read(p []byte) (int, error) {
	if len(p) == 0 {
		return 0, nil
	}
	for len(c.chunks) > 0 && len(c.chunks[0]) == 0 {
		c.chunks = c.chunks[1:]
	}
	if len(c.chunks) == 0 {
		return 0, io.EOF
	}
	n := copy(p, c.chunks[0])
	c.chunks[0] = c.chunks[0][n:]
	return n, nil
}
func (c *h10Conn) Write(p []byte) (int, error)            { return len(p), nil }
func (c *h10Conn) Close() error                           { return nil }
func (c *h10Conn) LocalAddr() net.Addr                    { return &net.TCPAddr{IP: net.IPv4(10, 0, 0, 2), Port: 5000} }
func (c *h10Conn) RemoteAddr() net.Addr                   { return &net.TCPAddr{IP: net.IPv4(10, 0, 0, 1), Port: 3478} }
func (c *h10Conn) SetDeadline(time.Time) error            { return nil }
func (c *h10Conn) SetReadDeadline(time.Time) error        { return nil }
func (c *h10Conn) SetWriteDeadline(time.Time) error       { return nil }
func (c *h10Conn) CloseRead() error                       { return nil }
func (c *h10Conn) CloseWrite() error                      { return nil }
func (c *h10Conn) ReadFrom(io.Reader) (int64, error)      { return 0, nil }
func (c *h10Conn) SetLinger(int) error                    { return nil }
func (c *h10Conn) SetKeepAlive(bool) error                { return nil }
func (c *h10Conn) SetKeepAlivePeriod(time.Duration) error { return nil }
func (c *h10Conn) SetNoDelay(bool) error                  { return nil }
func (c *h10Conn) SetWriteBuffer(int) error               { return nil }
func (c *h10Conn) SetReadBuffer(int) error                { return nil }

func h10One(t *vhT, alloc *TCPAllocation, chunks [][]byte, kind string) string {
	var sb strings.Builder
	for _, c := range chunks {
		if len(c) > 0 {
			sb.WriteString(" " + vhHex(c))
		}
	}
	t.OpSync("bindconn%s", sb.String())
	cp := make([][]byte, len(chunks))
	for i := range chunks {
		cp[i] = append([]byte{}, chunks[i]...)
	}
	conn := &h10Conn{chunks: cp}
	dc := &TCPConn{TCPConn: conn, ConnectionID: 7, allocation: alloc}
	err := alloc.BindConnection(dc, 7)
	res := "ok"
	switch {
	case err == nil:
	case errors.Is(err, errIncompleteTURNFrame), errors.Is(err, io.EOF), errors.Is(err, io.ErrUnexpectedEOF):
		res = "short"
	case errors.Is(err, errInvalidTURNFrame):
		res = "invalid"
	case strings.Contains(err.Error(), "decode"):
		res = "undecodable"
	case strings.Contains(err.Error(), "error response"), strings.Contains(err.Error(), "(error "):
		res = "refused"
	default:
		res = "other"
	}
	// whatever is left on the connection belongs to the application
	var rest []byte
	buf := make([]byte, 4096)
	for {
		n, e := conn.Read(buf)
		rest = append(rest, buf[:n]...)
		if e != nil {
			break
		}
	}
	out := fmt.Sprintf("%s rest=%s", res, vhHex(rest))
	t.Obs("%s", out)
	t.Stat("bindconn." + kind + "." + res)
	return out
}

func TestVerifH10(t *testing.T) {
	vt := vhOpen("h10")
	defer vt.Close()
	lf := logging.NewDefaultLoggerFactory()
	lf.DefaultLogLevel = logging.LogLevelDisabled
	alloc := &TCPAllocation{}
	alloc.username = stun.NewUsername("alice")
	alloc.realm = stun.NewRealm("pion.ly")
	alloc._nonce = stun.NewNonce("n")
	alloc.integrity = stun.NewShortTermIntegrity("pw")
	alloc.log = lf.NewLogger("h10")
	mk := func(class stun.MessageClass, extra ...stun.Setter) []byte {
		m, _ := stun.Build(append([]stun.Setter{stun.TransactionID, stun.NewType(stun.MethodConnectionBind, class)}, extra...)...)
		return m.Raw
	}
	replies := map[string][]byte{
		"success":      mk(stun.ClassSuccessResponse),
		"success-attr": mk(stun.ClassSuccessResponse, stun.NewSoftware("pion"), proto.ConnectionID(7), stun.Fingerprint),
		"error":        mk(stun.ClassErrorResponse, stun.CodeBadRequest),
	}
	names := []string{"success", "success-attr", "error"}
	tails := [][]byte{nil, []byte("application data right behind the reply"), {0x00, 0x01, 0x00, 0x00}}
	for _, name := range names {
		reply := replies[name]
		for ti, tail := range tails {
			stream := append(append([]byte{}, reply...), tail...)
			want := h10One(vt, alloc, [][]byte{stream}, "whole")
			check := func(chunks [][]byte, kind string) {
				got := h10One(vt, alloc, chunks, kind)
				if got != want {
					vt.Alarm("bindconn-segmentation", "reply=%s tail=%d split=%s: %q, unsplit: %q", name, ti, kind, got, want)
				}
			}
			// every single cut, byte at a time, and a few double cuts
			for i := 1; i < len(stream); i++ {
				check([][]byte{stream[:i], stream[i:]}, "cut1")
			}
			var bw [][]byte
			for i := range stream {
				bw = append(bw, stream[i:i+1])
			}
			check(bw, "bytewise")
			for k := 0; k < 40; k++ {
				i := 1 + vt.Rng.Intn(len(stream)-1)
				j := i + vt.Rng.Intn(len(stream)-i)
				check([][]byte{stream[:i], stream[i:j], stream[j:]}, "cut2")
			}
		}
	}
	// replies announcing the largest bodies a STUN header can (lengths whose sum with the header size does not fit
	// 16 bits): read whole, never a crash, the tail stays for the application
	for _, l := range []int{0xFFE8, 0xFFEC, 0xFFF0, 0xFFFC} {
		big := make([]byte, 20+l+5)
		copy(big, replies["success"][:20])
		big[2], big[3] = byte(l>>8), byte(l)
		copy(big[20+l:], "tail!")
		h10One(vt, alloc, [][]byte{big}, "huge")
		h10One(vt, alloc, [][]byte{big[:19], big[19:40000], big[40000:]}, "huge")
		h10One(vt, alloc, [][]byte{big[:20+l-1]}, "huge-truncated")
	}
	// C13: every peer its own channel number - also beyond the 16384 numbers that exist (the 16385th peer must not be given
	// a number that another peer still holds)
	{
		bm := newBindingManager()
		owner := map[uint16]string{}
		for i := 0; i < 16390; i++ {
			addr := &net.UDPAddr{IP: net.IPv4(10, byte(i>>16), byte(i>>8), byte(i)), Port: 7000}
			b := bm.create(addr)
			if b == nil {
				continue // refusing (falling back to Send indications) is fine
			}
			if prev, dup := owner[b.number]; dup {
				if still, ok := bm.findByAddr(&net.UDPAddr{IP: net.ParseIP(prev), Port: 7000}); ok && still != nil {
					vt.Alarm("channel-number-reused", "peer #%d (%s) was given channel 0x%04x, which %s still holds", i+1, addr.IP, b.number, prev)
					break
				}
			}
			owner[b.number] = addr.IP.String()
		}
		vt.Stat("h10.channel-wrap")
	}
	// permissions of TCP allocations: the caller's *net.TCPAddr must be copied too (a caller may reuse the variable)
	{
		pm := newPermissionMap()
		ta := &net.TCPAddr{IP: net.IPv4(10, 0, 0, 1), Port: 5000}
		pm.insert(ta, &permission{})
		ta.IP, ta.Port = net.IPv4(10, 0, 0, 2), 6000
		pm.insert(ta, &permission{})
		got := map[string]bool{}
		for _, a := range pm.addrs() {
			got[a.String()] = true
		}
		if !got["10.0.0.1:5000"] || !got["10.0.0.2:6000"] {
			vt.Alarm("permission-address-aliased", "permissions inserted for 10.0.0.1:5000 and then (same variable) 10.0.0.2:6000 are now listed as %v", got)
		}
	}
	// truncated and non-STUN replies
	h10One(vt, alloc, [][]byte{replies["success"][:10]}, "truncated")
	h10One(vt, alloc, [][]byte{replies["success-attr"][:25]}, "truncated")
	h10One(vt, alloc, [][]byte{append([]byte{0x40, 0x00, 0x00, 0x04}, make([]byte, 20)...)}, "nonstun")
	h10One(vt, alloc, nil, "empty")
}
