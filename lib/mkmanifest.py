#!/usr/bin/env python3
"""Regenerates MANIFEST.json from lib/props.py (+ the applicability table below)."""
import json, os, sys
sys.path.insert(0, os.path.dirname(os.path.abspath(__file__)))
from props import PROPS, MANIFEST_TEXT, NOT_YET

checks = []
for pid in sorted(PROPS):
    t = MANIFEST_TEXT[pid]
    checks.append({
        "property_id": pid,
        "quick_cmd": "./check %s --tier quick" % pid,
        "thorough_cmd": "./check %s --tier thorough" % pid,
        "evidence_file": "/verif/evidence/%s.json" % pid,
        "replay_cmd_template": "./check %s --replay {path}" % pid,
        "engine": "lean-proofs+correspondence",
        "level_claimed": {"category": "proof", "text": t["text"], "design_ref": t["design_ref"]},
        "level_note": t["note"],
        "technique": t["technique"],
    })
m = {
    "version": 1,
    "setup_cmd": "./check --setup",
    "hooks": {
        "guard": "verif",
        "enable": "go test -tags verif -overlay /verif/work/<id>/overlay/overlay.json (harness files are injected into /repo's packages by the overlay; nothing is committed to /repo)",
        "baseline_off_cmd": "cd /repo && GOFLAGS=-mod=mod GOPROXY=off go test -json -vet=off -count=1 -timeout 25m ./...",
        "source_commits": [],
        "add_only": True,
    },
    "engines": [
        {"name": "lean-proofs", "path": "/verif/lean", "serves_properties": sorted(PROPS),
         "kind_free_text": "Lean 4 model of pion/turn (TurnModel/Model), property theorems (TurnModel/Props), axioms audited per theorem"},
        {"name": "xlate", "path": "/verif/xlate", "serves_properties": sorted(p for p in PROPS if PROPS[p].get("gen")),
         "kind_free_text": "Go translator regenerating TurnModel/Gen/*.lean from /repo's working tree on every run"},
        {"name": "correspondence", "path": "/verif/harness", "serves_properties": sorted(PROPS),
         "kind_free_text": "Go harnesses (build tag verif, go test -overlay) driving the real code; compiled Lean driver replays the same operations; outputs diffed"},
    ],
    "checks": checks,
    "not_applicable": [{"property_id": p, "reason": r} for p, r in sorted(NOT_YET.items()) if p not in PROPS],
    "notes": "All checks are `./check <id>`; see DESIGN.md. Known findings: known_findings.json.",
}
json.dump(m, open(os.path.join(os.path.dirname(os.path.abspath(__file__)), "..", "MANIFEST.json"), "w"), indent=1)
print("wrote MANIFEST.json with", len(checks), "checks,", len(m["not_applicable"]), "not yet claimed")
