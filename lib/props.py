"""Per-property configuration of the orchestrator: theorem modules, harnesses, view, monitors."""

LEAN_TB = ["Lean 4.33.0 kernel (lake build; leanchecker in thorough tier)",
           "axioms allowed: propext, Classical.choice, Quot.sound (checked per theorem with #print axioms)"]

HARNESSES = {
    # harness sub-directory -> (package directory under /repo, package name for the common helper)
    "packages": {
        "proto": ("internal/proto", "proto"),
        "turn": (".", "turn"),
    },
    "H2": {"pkg": ".", "run": "^TestVerifH2$", "streams": ["h2"], "toolchain": "go1.26.0", "timeout": (900, 3000)},
    "H1": {"pkg": "./internal/proto/", "run": "^TestVerifH1$", "streams": ["h1"], "toolchain": None,
           "timeout": (600, 2400)},
}

H1_TB = LEAN_TB + [
    "hand-written model TurnModel/Model/{Wire,Framer}.lean tied to internal/proto by correspondence harness H1 "
    "(harness/proto/h1_test.go, real code in-process via go test -overlay) and the compiled Lean driver",
    "pion/stun TLV layer (Message.Add/Get) is abstract in the model: attribute codecs are functions on the raw value",
]

PROPS = {
    "C11": {
        "modules": ["TurnModel.Props.C11"],
        "harnesses": ["H1"],
        "view": ["cdenc", "cddec", "ischan", "lifetime", "connid", "channum", "reqtrans", "reqfam", "evenport",
                 "rsrvtoken", "dontfrag", "data", "xoraddr"],
        "alarms": ["cd-encode-shape", "cd-roundtrip", "cd-invalid-number-decoded", "cd-decode-accepts-bad",
                   "ischanneldata-disagrees", "attr-wrong-size-accepted", "xoraddr-short-value-accepted",
                   "xoraddr-roundtrip"],
        "rule": "H1 drives the real ChannelData/attribute codecs: all 65536 channel numbers (encode+decode and as raw headers), "
                "payload lengths 0-64 + MTU and uint16 boundaries (thorough: ~all lengths), raw buffers for every header class x "
                "declared/actual length relation, every attribute x raw values of length 0-1 exhaustively, length 2 sampled "
                "(thorough: exhaustive), 3-64 random; every op line is replayed by the Lean model and compared; "
                "distinct = distinct (op kind, outcome prefix) pairs",
        "trusted_base": H1_TB,
        "assumptions": ["XOR address decoding of wrong-sized values lives in the dependency pion/stun (finding F12)"],
    },
    "C10": {
        "modules": ["TurnModel.Props.C10"],
        "harnesses": ["H1"],
        "view": ["consume", "frames"],
        "alarms": ["framer-roundtrip", "consume-no-progress", "framer-spins"],
        "rule": "H1 drives consumeSingleTURNFrame on all 2^16 length fields x {ChannelData, STUN, garbage} (short buffers) and "
                "exact/long/one-short buffers for stratified lengths, and the real STUNConn over a scripted net.Conn on frame "
                "sequences x segmentations (whole, byte-at-a-time, every single cut, every pair of cuts for short streams, random "
                "cuts, truncated, followed by garbage); the Lean framer replays every line; distinct = (op kind, outcome) pairs",
        "trusted_base": H1_TB,
        "assumptions": ["net.Conn.Read returns >0 bytes or an error (net.Conn contract)",
                        "client-side ConnectionBind reply parsing is covered by harness H5"],
    },
    "C09": {
        "modules": ["TurnModel.Props.C09"],
        "harnesses": ["H1"],
        "view": ["consume", "frames", "cddec", "ischan"],
        "alarms": ["consume-no-progress", "framer-spins", "harness-died"],
        "rule": "hostile streams through the real framer and codecs (all 2^16 declared lengths, uint16-overflow lengths 0xFFEC-0xFFFF, "
                "random garbage of every length 0-40); a crashed or hung harness is reported with the last flushed operation",
        "trusted_base": H1_TB,
        "assumptions": ["PARTIAL: panics inside pion/stun's decoder and the Go runtime cannot be exhibited by the Lean model; "
                        "the hostile streams are the only evidence for those"],
    },
}

PROOF_NOTE = ("Trusted: Lean 4.33.0 kernel, axioms propext/Classical.choice/Quot.sound only (audited per theorem on every run), "
              "the hand-written model's tie to the code = correspondence harness + compiled driver (agreement observed on generated cases only). ")

MANIFEST_TEXT = {
    "C11": {
        "text": "Round-trip, shape and decode-iff theorems for ChannelData over all numbers and all payloads < 65536 bytes, and get∘add / wrong-size "
                "theorems for every TURN attribute codec, proved in Lean over the model; the model is tied to internal/proto by replaying ~220k real "
                "codec operations (all 65536 channel numbers) through the Lean definitions on every run.",
        "design_ref": "DESIGN.md §6 C11", "technique": "Lean 4 theorems (round-trip / decode-iff) + differential correspondence with the real codecs",
        "note": PROOF_NOTE + "pion/stun's TLV layer is abstract; XOR address wrong-size rejection is proved only partially (known finding F12 in the dependency).",
    },
    "C10": {
        "text": "framer_roundtrip: for all frame sequences and all segmentations the model of STUNConn.ReadFrom returns exactly the frames, in order, one per call, "
                "promptly; read_consumes and garbage_is_error for every input. Tied to the real framer by replaying every consume/frames operation of H1 "
                "(all 2^16 length fields, every single/double cut of short streams).",
        "design_ref": "DESIGN.md §6 C10", "technique": "Lean 4 induction over frame lists and chunk lists + differential correspondence with STUNConn",
        "note": PROOF_NOTE + "net.Conn contract assumed for Read.",
    },
    "C09": {
        "text": "consume_progress and readloop_terminates (the stream read loop ends within bytes+1 iterations on every finite input) proved over the framer model; "
                "hostile-stream correspondence with crash/hang detection on the real code. PARTIAL: panics inside pion/stun and the Go runtime are outside the model.",
        "design_ref": "DESIGN.md §6 C09", "technique": "Lean 4 termination/progress theorems + hostile-input correspondence with watchdog",
        "note": PROOF_NOTE + "Partial: dependency/runtime panics are only exercised, not proved absent.",
    },
}

# properties whose check is not built yet (kept current; emptied as checks land)
NOT_YET = {p: "check under construction in this build phase; no claim is made until its theorems and correspondence run exist"
           for p in ["C%02d" % i for i in range(1, 21)]}
